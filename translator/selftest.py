#!/usr/bin/env python3
"""Self-test of the generic constructs of py2gallina (independent of /repo).

1. differential: small synthetic functions using the loop / dictionary / slice / comprehension constructs are
   translated, evaluated by Coq (`Eval vm_compute`) on a grid of inputs and compared with what Python returns
   (an exception on the Python side must be RErr on the Coq side);
2. fail-closed: snippets outside the subset must raise Unsupported.
Usage: selftest.py      (exit 0 iff everything agrees; needs coqc)
"""
import ast
import itertools
import os
import re
import subprocess
import sys
import tempfile

sys.path.insert(0, os.path.dirname(os.path.abspath(__file__)))
from py2gallina import Fn, Tr, Unsupported, PRELUDE  # noqa: E402

L, N, D = ("list nat", "list"), ("nat", "num"), ("list (nat * nat)", "dict")

# name -> (source, parameters [(name, (type, kind))], return type, raises, input grid per parameter)
LISTS = [[], [0], [1, 0], [0, 1, 2], [0, 2, 1, 3], [2, 0, 1], [3, 3, 3], [0, 1, 3, 2, 4, 5]]
DICTS = [[], [(2, 0)], [(3, 1), (1, 0)], [(0, 5), (4, 2), (2, 7)], [(5, 0), (7, 1), (6, 2)]]
FUNCS = {
    "first_moved": ("""
def first_moved(p):
    n = len(p)
    for i in range(n):
        if p[i] != i:
            break
    return i + 1
""", [("p", L)], "nat", True, [LISTS]),
    "last_keep": ("""
def last_keep(p, i):
    for i in range(len(p) - 1, -1, -1):
        if p[i] > 1:
            break
    return i
""", [("p", L), ("i", N)], "nat", False, [LISTS, [0, 7]]),
    "accum": ("""
def accum(p, a):
    b = 0
    for x in p:
        if x > a:
            a = a + x
        else:
            b += 1
    return a, b
""", [("p", L), ("a", N)], "nat * nat", False, [LISTS, [0, 2]]),
    "dict_ops": ("""
def dict_ops(d, k):
    for x in [1, 2, k]:
        d[x] = len(d) + x
    ks = sorted(d.keys())
    return ks, [d[i] for i in ks if i not in [2]], sum(d.values()), k in d
""", [("d", D), ("k", N)], "list nat * list nat * nat * bool", False, [DICTS, [0, 4, 5]]),
    "slices": ("""
def slices(p, a, b):
    return p[a: b + 1], p[a:], p[:b], [x + a for x in p if x != b] == p
""", [("p", L), ("a", N), ("b", N)], "list nat * list nat * list nat * bool", False, [LISTS, [0, 1, 4], [0, 2, 9]]),
    "minmax": ("""
def minmax(p, a):
    q = [a] + p
    return min(q), max(q), min(a, 3), list(range(a, max(q) + 1))
""", [("p", L), ("a", N)], "nat * nat * nat * list nat", False, [LISTS, [0, 2, 5]]),
}

# (why it must be refused, source, parameters, raises)
REFUSED = [
    ("loop variable read after an accumulating loop", "def f(p):\n    a = 0\n    for x in p:\n        a += x\n    return a + x\n", [("p", L)], False),
    ("for-break variable possibly unbound, never certainly read", "def f(p):\n    for i in range(len(p)):\n        if p[i] > 0:\n            break\n    return 0\n", [("p", L)], True),
    ("for-break variable possibly unbound in a total function", "def f(p):\n    for i in range(len(p)):\n        if p[i] > 0:\n            break\n    return i\n", [("p", L)], False),
    ("variable first assigned inside a loop", "def f(p):\n    for x in p:\n        a = x\n    return a\n", [("p", L)], False),
    ("for ... else", "def f(p):\n    a = 0\n    for x in p:\n        a += x\n    else:\n        a = 1\n    return a\n", [("p", L)], False),
    ("continue in a loop", "def f(p):\n    a = 0\n    for x in p:\n        if x > 1:\n            continue\n        a += x\n    return a\n", [("p", L)], False),
    ("while loop", "def f(a):\n    while a > 0:\n        a -= 1\n    return a\n", [("a", N)], False),
    ("dictionary aliasing", "def f(d):\n    e = d\n    e[1] = 2\n    return len(d)\n", [("d", D)], False),
    ("list mutation", "def f(p):\n    p.append(1)\n    return p\n", [("p", L)], False),
    ("index computed with a subtraction", "def f(p, a):\n    return p[a - 1]\n", [("p", L), ("a", N)], False),
    ("slice bound computed with a subtraction", "def f(p, a):\n    return p[a - 1:]\n", [("p", L), ("a", N)], False),
    ("negative slice bound", "def f(p):\n    return p[:-1]\n", [("p", L)], False),
    ("slice with a step", "def f(p):\n    return p[0:2:2]\n", [("p", L)], False),
    ("range with a general step", "def f(a):\n    return list(range(0, a, 2))\n", [("a", N)], False),
    ("downward range not ending at 0", "def f(a):\n    return list(range(a - 1, 0, -1))\n", [("a", N)], False),
    ("sorted with a keyword", "def f(p):\n    return sorted(p, reverse=True)\n", [("p", L)], False),
    ("iterating the dictionary that the loop changes", "def f(d):\n    for k in d:\n        d[k] = 1\n    return len(d)\n", [("d", D)], False),
    ("truth value of a list", "def f(p):\n    return 1 if p else 0\n", [("p", L)], False),
    ("math.sqrt in a target that declares none", "def f(a):\n    return math.sqrt(a)\n", [("a", N)], False),
    ("set", "def f(p):\n    return len(set(p))\n", [("p", L)], False),
    ("try", "def f(p):\n    try:\n        return p[0]\n    except IndexError:\n        return 0\n", [("p", L)], False),
    ("lambda", "def f(p):\n    return sorted(p, key=lambda x: x)\n", [("p", L)], False),
]
REFUSED_Q = [
    ("math.sqrt under `and`", "def f(a, b):\n    return 1 if (a > 0 and math.sqrt(b) > 1) else 0\n"),
    ("math.sqrt in a branch", "def f(a, b):\n    if a > 0:\n        return math.sqrt(b)\n    return a\n"),
    ("** with a variable exponent", "def f(a, b):\n    return a ** b\n"),
]


def coq_of(v):
    if isinstance(v, bool):
        return "true" if v else "false"
    if isinstance(v, int):
        return str(v)
    if isinstance(v, list):
        return "[" + "; ".join(coq_of(x) for x in v) + "]"
    if isinstance(v, tuple):
        return "(" + ", ".join(coq_of(x) for x in v) + ")"
    raise TypeError(v)


def arg_text(v, kind):
    if kind == "dict":
        return "[" + "; ".join(f"({k}, {x})" for k, x in v) + "]"
    return coq_of(v)


def norm(s):
    return re.sub(r"%nat|\s+", "", s)


def main():
    ok = True
    defs, evals, expected = [], [], []
    for name, (src, params, ret, raises, grid) in FUNCS.items():
        node = ast.parse(src).body[0]
        f = Fn(name + "_src", node, "nat", [(p, t, k) for p, (t, k) in params], ret, raises=raises)
        defs.append(Tr(f).emit())
        env = {}
        exec(src, env)
        for args in itertools.product(*grid):
            pyargs = [dict(a) if k == "dict" else (list(a) if k == "list" else a) for a, (_, (_, k)) in zip(args, params)]
            try:
                r = coq_of(env[name](*pyargs))
                r = f"ROk {r}" if raises else r
            except Exception:
                r = "RErr"
                if not raises:
                    continue          # a total reading is only claimed where Python does not raise
            call = f"{name}_src " + " ".join(f"({arg_text(a, k)})" for a, (_, (_, k)) in zip(args, params))
            evals.append(call)
            expected.append(r)
    d = tempfile.mkdtemp(prefix="trself-")
    with open(os.path.join(d, "SelfTest.v"), "w") as fh:
        fh.write(PRELUDE + "Open Scope nat_scope.\n" + "".join(defs))
        for i, c in enumerate(evals):
            fh.write(f'Eval vm_compute in ({i}, {c}).\n')
    p = subprocess.run(["timeout", "600", "coqc", "SelfTest.v"], cwd=d, capture_output=True, text=True)
    if p.returncode != 0:
        print("coqc failed:\n" + (p.stdout + p.stderr)[-1500:])
        return 1
    got = {}
    for m in re.finditer(r"= \((\d+),\s+(.*?)\)\s*\n\s*: ", p.stdout, flags=re.S):
        got[int(m.group(1))] = m.group(2)
    bad = 0
    for i, (c, e) in enumerate(zip(evals, expected)):
        g = got.get(i)
        if g is None or norm(g) != norm(e):
            bad += 1
            if bad <= 10:
                print(f"DISAGREEMENT on {c}: python {e} / coq {g}")
    print(f"differential: {len(evals)} evaluations of {len(FUNCS)} functions, {bad} disagreements")
    ok &= bad == 0 and len(evals) > 100
    for why, src, params, raises in REFUSED + [(w, s, None, False) for w, s in REFUSED_Q]:
        node = ast.parse(src).body[0]
        if params is None:
            f = Fn("f_src", node, "Q", [("a", "Q", "num"), ("b", "Q", "num")], "Q", sqrt=True)
        else:
            f = Fn("f_src", node, "nat", [(p, t, k) for p, (t, k) in params], "nat", raises=raises)
        try:
            text = Tr(f).emit()
            print(f"NOT REFUSED ({why}):\n{text}")
            ok = False
        except Unsupported as e:
            print(f"refused: {why:60s} ({e})")
    return 0 if ok else 1


if __name__ == "__main__":
    sys.exit(main())
