#!/usr/bin/env python3
"""Negative tests of the translator targets added on top of the first five: each harmful edit of a target function, made
in a scratch copy of the source file (never in /repo), must either make the translation fail closed or break a
`*_src_equiv` lemma of coq/GenProofs/<Name>P.v.  The unchanged source must pass.

Usage: negative_tests.py [<repo> [<framework root>]]     exit 0 iff every edit is caught and every baseline passes.
Needs the compiled development (./setup.sh): the lemmas are checked against the .vo files of coq/.
"""
import os
import shutil
import subprocess
import sys
import tempfile

HERE = os.path.dirname(os.path.abspath(__file__))
sys.path.insert(0, HERE)
import py2gallina  # noqa: E402

FILES = ["perceval/components/_mode_connector.py", "perceval/simulators/simulator_interface.py",
         "perceval/utils/algorithms/simplification.py", "perceval/components/source.py",
         "perceval/simulators/loss_simulator.py", "perceval/runtime/remote_job.py", "perceval/runtime/job_status.py",
         "perceval/runtime/job.py", "perceval/utils/parameter.py", "perceval/simulators/simulator.py",
         "perceval/components/detector.py"]

# (target, file, old text, new text, what the edit does)
EDITS = [
    ("GenConnector", FILES[0], "max(mode_mapping.values()) + 1", "max(mode_mapping.values())", "a missing mode re-uses the largest output mode"),
    ("GenConnector", FILES[0], "for i in sorted(mode_mapping.keys())]", "for i in mode_mapping.keys()]", "perm_vect in insertion order instead of key order"),
    ("GenConnector", FILES[0], "list(range(min_m, max_m + 1))", "list(range(min_m, max_m))", "the largest key is treated as missing"),
    ("GenConnector", FILES[0], "perm_modes = list(range(min_m, min_m + len(mode_mapping)))", "perm_modes = list(range(min_m, max_m))", "range one mode short"),
    ("GenConnector", FILES[0], "sorted(mode_mapping.keys())", "sorted(mode_mapping.keys(), reverse=True)", "keyword argument (outside the subset)"),
    ("GenFilter", FILES[1], "sum(self._heralds.values())", "len(self._heralds)", "counts heralds instead of their photons"),
    ("GenFilter", FILES[1], "sum(self._heralds.values())", "sum(self._heralds.keys())", "sums the herald modes"),
    ("GenFilter", FILES[1], "sum(self._heralds.values())", "sum(v for v in self._heralds.values())", "generator expression (outside the subset)"),
    ("GenReduce", FILES[2], "        if perm[i] != i:\n            break\n\n    for j", "        if perm[i] == i:\n            break\n\n    for j", "first fixed point instead of first moved index"),
    ("GenReduce", FILES[2], "return r[i: j + 1], perm", "return r[i: j], perm", "range one mode short"),
    ("GenReduce", FILES[2], "perm[k] - i for k in range(i, j + 1)", "perm[k] for k in range(i, j + 1)", "vector not shifted back"),
    ("GenReduce", FILES[2], "range(n - 1, -1, -1)", "range(n - 1, 0, -1)", "downward range that misses index 0 (outside the subset)"),
    ("GenSource", FILES[3], "math.sqrt(1 - 2 * px * g2)", "math.sqrt(1 - px * g2)", "wrong radicand"),
    ("GenSource", FILES[3], "p2to2 = eta ** 2 * p2", "p2to2 = eta * p2", "two-photon survival with eta instead of eta^2"),
    ("GenSource", FILES[3], "if g2 else 0", "if px else 0", "guard on the wrong parameter"),
    ("GenSource", FILES[3], "math.sqrt(1 - 2 * px * g2)", "math.cbrt(1 - 2 * px * g2)", "another function (outside the subset)"),
    ("GenLoss", FILES[4], "r_ip = tuple(range(r[0]+1, next_free_mode+1))", "r_ip = tuple(range(r[0], next_free_mode+1))", "PERM range starts on the lossy mode"),
    ("GenLoss", FILES[4], "[m for m in range(1, next_free_mode-r[0]-1)] + [0]", "[m for m in range(1, next_free_mode-r[0]-1)] + [1]", "in_perm is not the transposition"),
    ("GenLoss", FILES[4], "next_free_mode += 1", "next_free_mode += 2", "skips a mode after each loss channel"),
    ("GenLoss", FILES[4], "r_bs = (r[0], r[0]+1)", "r_bs = (r[0]+1, r[0]+2)", "beam splitter one mode up"),
    ("GenLoss", FILES[4], "                    out_perm.inverse(h=True)\n", "", "second PERM not inverted (shape check)"),
    ("GenRemoteGuards", FILES[5], "(RunningStatus.RUNNING, RunningStatus.WAITING, RunningStatus.SUSPENDED)", "(RunningStatus.RUNNING, RunningStatus.WAITING)", "a suspended job cannot be cancelled"),
    ("GenRemoteGuards", FILES[6], "return self._status in [RunningStatus.CANCELED, RunningStatus.ERROR]", "return self._status in [RunningStatus.CANCELED, RunningStatus.ERROR, RunningStatus.SUCCESS]", "rerun accepted on SUCCESS"),
    ("GenRemoteGuards", FILES[6], "RunningStatus.CANCELED, RunningStatus.UNKNOWN]", "RunningStatus.CANCELED]", "get_results refused on UNKNOWN"),
    ("GenRemoteGuards", FILES[5], "if not self.status.failed:", "if self.status.failed:", "rerun guard inverted (shape check)"),
    ("GenRemoteGuards", FILES[6], "    SUSPENDED = 5\n    CANCEL_REQUESTED = 6", "    SUSPENDED = 6\n    CANCEL_REQUESTED = 5", "two status codes exchanged"),
]


def run(repo, root):
    coq = os.path.join(root, "coq")
    work = tempfile.mkdtemp(prefix="negtr-")
    results, ok = [], True

    def attempt(target, edit):
        """returns 'translation: <msg>' | 'lemma: <first error line>' | None when everything passes"""
        src = os.path.join(work, "repo")
        shutil.rmtree(src, ignore_errors=True)
        for f in FILES:
            os.makedirs(os.path.dirname(os.path.join(src, f)), exist_ok=True)
            shutil.copy(os.path.join(repo, f), os.path.join(src, f))
        if edit:
            f, old, new = edit
            text = open(os.path.join(src, f)).read()
            if text.count(old) != 1:
                return f"EDIT DOES NOT APPLY ({text.count(old)} occurrences)"
            open(os.path.join(src, f), "w").write(text.replace(old, new))
        out = os.path.join(work, "out")
        shutil.rmtree(out, ignore_errors=True)
        res = py2gallina.main(src, out, {target})
        if res[target]:
            return "translation: " + res[target]
        d = os.path.join(work, "coq")
        shutil.rmtree(d, ignore_errors=True)
        os.makedirs(os.path.join(d, "Gen"))
        os.makedirs(os.path.join(d, "GenProofs"))
        for sub in ("Lib", "Model", "Proofs"):
            os.symlink(os.path.join(coq, sub), os.path.join(d, sub))
        shutil.copy(os.path.join(out, target + ".v"), os.path.join(d, "Gen"))
        shutil.copy(os.path.join(coq, "GenProofs", target + "P.v"), os.path.join(d, "GenProofs"))
        for rel in (f"Gen/{target}.v", f"GenProofs/{target}P.v"):
            p = subprocess.run(["timeout", "600", "coqc", "-Q", ".", "PV", rel], cwd=d, capture_output=True, text=True)
            if p.returncode != 0:
                err = [l for l in (p.stdout + p.stderr).splitlines() if l.strip()]
                where = next((l for l in err if l.startswith("File")), "")
                return f"lemma: {rel} {where.split(',')[1].strip() if ',' in where else ''}: " + " ".join(err[-2:])[:160]
            if "Axioms:" in p.stdout:
                return "lemma: axioms " + p.stdout[-200:]
        return None

    for target in sorted({e[0] for e in EDITS}):
        r = attempt(target, None)
        print(f"{target:16s} unchanged source: {'passes' if r is None else 'FAILS ' + r}")
        ok &= r is None
    for target, f, old, new, what in EDITS:
        r = attempt(target, (f, old, new))
        caught = r is not None and not r.startswith("EDIT")
        ok &= caught
        print(f"{target:16s} {what}\n{'':16s}   `{old.strip()[:70]}` -> `{new.strip()[:70]}`\n{'':16s}   "
              + ("CAUGHT by " + r if caught else "NOT CAUGHT: " + str(r)))
        results.append((target, what, r))
    shutil.rmtree(work, ignore_errors=True)
    return ok


if __name__ == "__main__":
    repo = sys.argv[1] if len(sys.argv) > 1 else os.environ.get("VERIF_REPO", "/repo")
    root = sys.argv[2] if len(sys.argv) > 2 else os.path.dirname(HERE)
    sys.exit(0 if run(repo, root) else 1)
