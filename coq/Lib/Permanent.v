(* The permanent of a repeated-row/column submatrix U[t|s] in three forms:
   permR  - textbook Laplace expansion of the explicit n x n submatrix (rows/cols as lists of modes),
   permS  - expansion over the output multiset (one photon removed from mode j, weight t_j),
   slos   - the SLOS coefficient recursion (no weight), with   permS = (prod t_j!) * slos.  *)
From PV Require Export Lib.Fock Lib.Mat.

Section Permanent.
Variable R : cring.
Add Ring Rring : (Kth R).
Open Scope K_scope.

Variable U : mat R.
Variable m : nat.

Fixpoint permS (cols : list nat) (t : state) : R :=
  match cols with
  | [] => if all_zero t then k1 else k0
  | k :: cols' => sumn m (fun j => if (0 <? nth j t 0)%nat then of_nat (nth j t 0) * U j k * permS cols' (dec t j) else k0)
  end.
Fixpoint slos (cols : list nat) (t : state) : R :=
  match cols with
  | [] => if all_zero t then k1 else k0
  | k :: cols' => sumn m (fun j => if (0 <? nth j t 0)%nat then U j k * slos cols' (dec t j) else k0)
  end.

(* sum over the positions of a list: F (element) (the other elements, order kept) *)
Fixpoint sum_pos (l : list nat) (F : nat -> list nat -> R) : R :=
  match l with [] => k0 | a :: r => F a r + sum_pos r (fun a' rest => F a' (a :: rest)) end.
(* Laplace expansion along the first column: column list [cols], row list [rows] *)
Fixpoint permR (cols rows : list nat) : R :=
  match cols with
  | [] => match rows with [] => k1 | _ => k0 end
  | k :: cols' => sum_pos rows (fun a rest => U a k * permR cols' rest)
  end.

Theorem permS_slos cols : forall t, permS cols t = of_nat (factprod t) * slos cols t.
Proof.
  induction cols as [|k cols IH]; intros t; simpl.
  - destruct (all_zero t) eqn:E. rewrite factprod_zero by auto. simpl. ring. ring.
  - rewrite <- sumn_scal. apply sumn_ext. intros j _.
    destruct (0 <? nth j t 0)%nat eqn:E; [|ring].
    apply Nat.ltb_lt in E. rewrite IH. rewrite <- (factprod_dec t j E), of_nat_mul. ring.
Qed.

Theorem permS_zero_if_n_differs cols : forall t, total t <> length cols -> permS cols t = k0.
Proof.
  induction cols as [|k cols IH]; intros t H; simpl.
  - destruct (all_zero t) eqn:E; auto. apply all_zero_total in E. simpl in H. congruence.
  - apply sumn_zero. intros j _. destruct (0 <? nth j t 0)%nat eqn:E; auto.
    apply Nat.ltb_lt in E. rewrite IH. ring. pose proof (total_dec t j E). simpl in H. lia.
Qed.

(* ---- lists ---- *)
Lemma sum_pos_ext l : forall F G, (forall a r, F a r = G a r) -> sum_pos l F = sum_pos l G.
Proof. induction l as [|a l IH]; simpl; intros F G H; auto. rewrite H. f_equal. apply IH. intros; apply H. Qed.
Lemma sum_pos_app l1 : forall l2 F,
  sum_pos (l1 ++ l2) F = sum_pos l1 (fun a r => F a (r ++ l2)) + sum_pos l2 (fun a r => F a (l1 ++ r)).
Proof. induction l1 as [|a l1 IH]; intros l2 F; simpl.
  - transitivity (k0 + sum_pos l2 F); [ring | reflexivity].
  - rewrite IH. simpl. ring. Qed.
Lemma sum_pos_repeat a x : forall F, sum_pos (repeat a x) F = of_nat x * F a (repeat a (x - 1)).
Proof. induction x as [|x IH]; intros F; simpl. ring.
  rewrite IH. rewrite Nat.sub_0_r. destruct x; simpl. ring. rewrite Nat.sub_0_r. ring. Qed.

(* sum over the modes of a state written as a zipper pre ++ post *)
Fixpoint msum (pre post : state) (G : nat -> nat -> state -> R) : R :=
  match post with
  | [] => k0
  | x :: post' => (if (0 <? x)%nat then G (length pre) x (pre ++ pred x :: post') else k0) + msum (pre ++ [x]) post' G
  end.

Lemma rows_from_app j0 a b : rows_from j0 (a ++ b) = rows_from j0 a ++ rows_from (j0 + length a) b.
Proof. revert j0; induction a as [|x a IH]; intros j0; simpl. rewrite Nat.add_0_r. reflexivity.
  rewrite IH, <- app_assoc. do 3 f_equal. lia. Qed.

Lemma sum_pos_rows post : forall pre F,
  sum_pos (rows_from (length pre) post) (fun a r => F a (rows_of pre ++ r))
  = msum pre post (fun j x t' => of_nat x * F j (rows_of t')).
Proof.
  induction post as [|x post IH]; intros pre F; simpl. reflexivity.
  rewrite sum_pos_app, sum_pos_repeat.
  assert (E1 : rows_of (pre ++ pred x :: post) = rows_of pre ++ repeat (length pre) (x - 1) ++ rows_from (S (length pre)) post).
  { unfold rows_of. rewrite rows_from_app. simpl. rewrite Nat.sub_1_r. reflexivity. }
  assert (E2 : sum_pos (rows_from (S (length pre)) post) (fun a r => F a (rows_of pre ++ repeat (length pre) x ++ r))
             = msum (pre ++ [x]) post (fun j x0 t' => of_nat x0 * F j (rows_of t'))).
  { rewrite <- IH. rewrite app_length. simpl. rewrite Nat.add_1_r. apply sum_pos_ext. intros a r.
    unfold rows_of. rewrite rows_from_app. simpl. rewrite app_nil_r, <- app_assoc. reflexivity. }
  rewrite E2. f_equal.
  destruct (0 <? x)%nat eqn:Ex.
  - rewrite E1. reflexivity.
  - apply Nat.ltb_ge in Ex. assert (x = 0%nat) by lia. subst. simpl. ring.
Qed.

Lemma sumn_S_front n (f : nat -> R) : sumn (S n) f = f 0%nat + sumn n (fun i => f (S i)).
Proof. induction n; simpl. ring. simpl in IHn. rewrite IHn. ring. Qed.

Lemma dec_app pre post i : dec (pre ++ post) (length pre + i) = pre ++ dec post i.
Proof. induction pre as [|x pre IH]; simpl; auto. rewrite IH. reflexivity. Qed.
Lemma nth_app_r pre (post : state) i : nth (length pre + i) (pre ++ post) 0%nat = nth i post 0%nat.
Proof. induction pre; simpl; auto. Qed.

Lemma msum_sumn post : forall pre G,
  msum pre post G =
  sumn (length post) (fun i => if (0 <? nth (length pre + i) (pre ++ post) 0)%nat
                               then G (length pre + i)%nat (nth (length pre + i) (pre ++ post) 0%nat) (dec (pre ++ post) (length pre + i))
                               else k0).
Proof.
  induction post as [|x post IH]; intros pre G. reflexivity.
  cbn [msum length]. rewrite sumn_S_front. f_equal.
  - rewrite nth_app_r, dec_app. simpl. rewrite Nat.add_0_r. reflexivity.
  - rewrite IH. apply sumn_ext. intros i _. rewrite app_length. simpl.
    replace (length pre + 1 + i)%nat with (length pre + S i)%nat by lia.
    rewrite <- app_assoc. simpl. reflexivity.
Qed.

(* The textbook permanent of the explicit submatrix equals the multiset expansion. *)
Theorem permR_permS cols : forall t, length t = m -> permR cols (rows_of t) = permS cols t.
Proof.
  induction cols as [|k cols IH]; intros t Hm.
  - simpl. destruct (all_zero t) eqn:E.
    + replace (rows_of t) with (@nil nat). reflexivity.
      unfold rows_of. generalize 0%nat. clear Hm. induction t as [|x t IHt]; intros j0; simpl; auto.
      simpl in E. apply andb_prop in E as [E1 E2]. apply Nat.eqb_eq in E1. subst. simpl. apply IHt. exact E2.
    + destruct (rows_of t) eqn:Er; auto. exfalso.
      assert (all_zero t = true); [|congruence]. clear E Hm. unfold rows_of in Er. revert Er. generalize 0%nat.
      induction t as [|x t IHt]; intros j0; simpl; auto. intros Er. apply app_eq_nil in Er as [E1 E2].
      destruct x; [|discriminate]. simpl. eapply IHt. exact E2.
  - cbn [permR permS].
    pose proof (sum_pos_rows t [] (fun a rest => U a k * permR cols rest)) as H. simpl in H.
    unfold rows_of at 1. rewrite H. rewrite msum_sumn. simpl. rewrite Hm.
    apply sumn_ext. intros j Hj. destruct (0 <? nth j t 0)%nat eqn:E; auto.
    rewrite IH. ring. rewrite dec_length. exact Hm.
Qed.

Corollary permR_slos cols t : length t = m -> permR cols (rows_of t) = of_nat (factprod t) * slos cols t.
Proof. intros H. rewrite permR_permS by exact H. apply permS_slos. Qed.

End Permanent.
Arguments permS {_}. Arguments slos {_}. Arguments permR {_}. Arguments sum_pos {_}.
