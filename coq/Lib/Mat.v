(* Functional matrices over a [cring] with bounded equality [meq]; block embedding; unitarity. *)
From PV Require Export Lib.CRing.
From Coq Require Import Setoid Morphisms.

Section Mat.
Variable R : cring.
Add Ring Rring : (Kth R).
Open Scope K_scope.

Definition mat := nat -> nat -> R.
Definition meq (n : nat) (A B : mat) := forall i j, (i < n)%nat -> (j < n)%nat -> A i j = B i j.
Definition mmul (n : nat) (A B : mat) : mat := fun i j => sumn n (fun l => A i l * B l j).
Definition mid : mat := fun i j => delta i j.
Definition madj (A : mat) : mat := fun i j => kconj (A j i).
Definition inb (off k i : nat) : bool := (off <=? i) && (i <? off + k).
Definition embed (off k : nat) (A : mat) : mat :=
  fun i j => if inb off k i && inb off k j then A (i - off)%nat (j - off)%nat else delta i j.
Definition unitary (n : nat) (A : mat) := meq n (mmul n A (madj A)) mid /\ meq n (mmul n (madj A) A) mid.

Lemma meq_refl n A : meq n A A. Proof. intros i j _ _. reflexivity. Qed.
Lemma meq_sym n A B : meq n A B -> meq n B A. Proof. intros H i j Hi Hj. symmetry. auto. Qed.
Lemma meq_trans n A B C : meq n A B -> meq n B C -> meq n A C.
Proof. intros H1 H2 i j Hi Hj. rewrite H1, H2; auto. Qed.
Global Instance meq_equiv n : Equivalence (meq n).
Proof. split. exact (meq_refl n). exact (meq_sym n). exact (meq_trans n). Qed.

Lemma meq_le n n' A B : (n' <= n)%nat -> meq n A B -> meq n' A B.
Proof. intros Hn H i j Hi Hj. apply H; lia. Qed.

Global Instance mmul_proper n : Proper (meq n ==> meq n ==> meq n) (mmul n).
Proof. intros A A' HA B B' HB i j Hi Hj. unfold mmul. apply sumn_ext. intros l Hl.
  rewrite HA, HB; auto. Qed.
Global Instance madj_proper n : Proper (meq n ==> meq n) madj.
Proof. intros A A' HA i j Hi Hj. unfold madj. rewrite HA; auto. Qed.

Lemma mmul_assoc n A B C : meq n (mmul n (mmul n A B) C) (mmul n A (mmul n B C)).
Proof. intros i j _ _. unfold mmul.
  transitivity (sumn n (fun l => sumn n (fun l' => A i l' * B l' l * C l j))).
  { apply sumn_ext. intros l _. rewrite <- sumn_scal_r. reflexivity. }
  rewrite sumn_swap. apply sumn_ext. intros l _. rewrite <- sumn_scal.
  apply sumn_ext. intros l' _. ring. Qed.
Lemma mmul_id_l n A : meq n (mmul n mid A) A.
Proof. intros i j Hi Hj. unfold mmul, mid. apply (sumn_delta_l R n i (fun l => A l j)); auto. Qed.
Lemma mmul_id_r n A : meq n (mmul n A mid) A.
Proof. intros i j Hi Hj. unfold mmul, mid. apply (sumn_delta_r R n j (fun l => A i l)); auto. Qed.
Lemma madj_mul n A B : meq n (madj (mmul n A B)) (mmul n (madj B) (madj A)).
Proof. intros i j _ _. unfold madj, mmul. rewrite sumn_conj. apply sumn_ext. intros l _.
  rewrite conj_mul. ring. Qed.
Lemma madj_id n : meq n (madj mid) mid.
Proof. intros i j _ _. unfold madj, mid. rewrite conj_delta. apply delta_sym. Qed.
Lemma madj_invol n A : meq n (madj (madj A)) A.
Proof. intros i j _ _. unfold madj. apply conj_invol. Qed.

Lemma unitary_id n : unitary n mid.
Proof. split; rewrite madj_id; apply mmul_id_l. Qed.
Lemma unitary_mul n A B : unitary n A -> unitary n B -> unitary n (mmul n A B).
Proof. intros [A1 A2] [B1 B2]. split; rewrite madj_mul.
  - rewrite mmul_assoc. rewrite <- (mmul_assoc n B). rewrite B1, mmul_id_l. exact A1.
  - rewrite mmul_assoc. rewrite <- (mmul_assoc n (madj A)). rewrite A2, mmul_id_l. exact B2. Qed.
Lemma unitary_adj n A : unitary n A -> unitary n (madj A).
Proof. intros [A1 A2]. split; rewrite madj_invol; assumption. Qed.
Global Instance unitary_proper n : Proper (meq n ==> iff) (unitary n).
Proof. intros A B H. unfold unitary. rewrite H. reflexivity. Qed.

Lemma inb_true off k i : inb off k i = true <-> (off <= i < off + k)%nat.
Proof. unfold inb. rewrite andb_true_iff, Nat.leb_le, Nat.ltb_lt. tauto. Qed.
Lemma inb_false off k i : inb off k i = false <-> ~ (off <= i < off + k)%nat.
Proof. rewrite <- inb_true. destruct (inb off k i); split; congruence. Qed.

Theorem embed_mul m off k A B : (off + k <= m)%nat ->
  meq m (mmul m (embed off k A) (embed off k B)) (embed off k (mmul k A B)).
Proof.
  intros Hm i j Hi Hj. unfold mmul at 1.
  destruct (inb off k i) eqn:Ei.
  - apply inb_true in Ei.
    replace m with (off + (k + (m - off - k)))%nat by lia.
    rewrite sumn_app, sumn_app.
    rewrite (sumn_zero _ off).
    2:{ intros l Hl. unfold embed at 1. replace (inb off k l) with false by (symmetry; apply inb_false; lia).
        rewrite andb_false_r. rewrite delta_neq by lia. ring. }
    rewrite (sumn_zero _ (m - off - k)).
    2:{ intros l Hl. unfold embed at 1. replace (inb off k (off + (k + l))) with false by (symmetry; apply inb_false; lia).
        rewrite andb_false_r. rewrite delta_neq by lia. ring. }
    unfold embed at 3. replace (inb off k i) with true by (symmetry; apply inb_true; lia). simpl andb.
    destruct (inb off k j) eqn:Ej.
    + apply inb_true in Ej. unfold mmul.
      transitivity (sumn k (fun l => embed off k A i (off + l)%nat * embed off k B (off + l)%nat j)). ring.
      apply sumn_ext. intros l Hl. unfold embed.
      replace (inb off k i) with true by (symmetry; apply inb_true; lia).
      replace (inb off k j) with true by (symmetry; apply inb_true; lia).
      replace (inb off k (off + l)) with true by (symmetry; apply inb_true; lia). simpl.
      replace (off + l - off)%nat with l by lia. reflexivity.
    + apply inb_false in Ej.
      transitivity (sumn k (fun l => embed off k A i (off + l)%nat * embed off k B (off + l)%nat j)). ring.
      rewrite sumn_zero. { rewrite delta_neq by lia. reflexivity. }
      intros l Hl. unfold embed at 2.
      replace (inb off k j) with false by (symmetry; apply inb_false; lia). rewrite andb_false_r.
      rewrite delta_neq by lia. ring.
  - apply inb_false in Ei.
    rewrite (sumn_single _ m _ i Hi).
    + unfold embed. replace (inb off k i) with false by (symmetry; apply inb_false; lia). simpl.
      rewrite delta_refl. ring.
    + intros l Hl Hne. unfold embed at 1. replace (inb off k i) with false by (symmetry; apply inb_false; lia). simpl.
      rewrite delta_neq by congruence. ring.
Qed.

Lemma embed_id m off k : meq m (embed off k mid) mid.
Proof. intros i j _ _. unfold embed, mid.
  destruct (inb off k i) eqn:Ei; destruct (inb off k j) eqn:Ej; simpl; auto.
  apply inb_true in Ei, Ej. unfold delta.
  destruct (i =? j) eqn:E.
  - apply Nat.eqb_eq in E. subst. rewrite Nat.eqb_refl. reflexivity.
  - apply Nat.eqb_neq in E. replace (i - off =? j - off) with false; auto.
    symmetry. apply Nat.eqb_neq. lia. Qed.
Lemma embed_adj m off k A : meq m (madj (embed off k A)) (embed off k (madj A)).
Proof. intros i j _ _. unfold madj, embed. rewrite andb_comm.
  destruct (inb off k i && inb off k j); auto. rewrite conj_delta. apply delta_sym. Qed.
Global Instance embed_proper m off k : (off + k <= m)%nat -> Proper (meq k ==> meq m) (embed off k).
Proof. intros Hm A B H i j Hi Hj. unfold embed.
  destruct (inb off k i) eqn:Ei; destruct (inb off k j) eqn:Ej; simpl; auto.
  apply inb_true in Ei, Ej. apply H; lia. Qed.
Lemma embed_ext m off k A B : meq k A B -> meq m (embed off k A) (embed off k B).
Proof. intros H i j Hi Hj. unfold embed.
  destruct (inb off k i) eqn:Ei; destruct (inb off k j) eqn:Ej; simpl; auto.
  apply inb_true in Ei, Ej. apply H; lia. Qed.
Lemma embed_embed m o1 k1' o2 k2 A : (o2 + k2 <= k1')%nat ->
  meq m (embed o1 k1' (embed o2 k2 A)) (embed (o1 + o2) k2 A).
Proof. intros Hk i j _ _. unfold embed.
  destruct (inb o1 k1' i) eqn:Ei1; destruct (inb o1 k1' j) eqn:Ej1; simpl.
  - apply inb_true in Ei1, Ej1.
    destruct (inb o2 k2 (i - o1)) eqn:Ei2; destruct (inb o2 k2 (j - o1)) eqn:Ej2; simpl.
    + apply inb_true in Ei2, Ej2.
      replace (inb (o1+o2) k2 i) with true by (symmetry; apply inb_true; lia).
      replace (inb (o1+o2) k2 j) with true by (symmetry; apply inb_true; lia). simpl.
      f_equal; lia.
    + apply inb_false in Ej2. replace (inb (o1+o2) k2 j) with false by (symmetry; apply inb_false; lia).
      rewrite andb_false_r. unfold delta.
      destruct (i =? j) eqn:E. apply Nat.eqb_eq in E; subst. rewrite Nat.eqb_refl; auto.
      apply Nat.eqb_neq in E. replace (i - o1 =? j - o1) with false; auto. symmetry; apply Nat.eqb_neq; lia.
    + apply inb_false in Ei2. replace (inb (o1+o2) k2 i) with false by (symmetry; apply inb_false; lia).
      simpl. unfold delta.
      destruct (i =? j) eqn:E. apply Nat.eqb_eq in E; subst. rewrite Nat.eqb_refl; auto.
      apply Nat.eqb_neq in E. replace (i - o1 =? j - o1) with false; auto. symmetry; apply Nat.eqb_neq; lia.
    + apply inb_false in Ei2. replace (inb (o1+o2) k2 i) with false by (symmetry; apply inb_false; lia).
      simpl. unfold delta.
      destruct (i =? j) eqn:E. apply Nat.eqb_eq in E; subst. rewrite Nat.eqb_refl; auto.
      apply Nat.eqb_neq in E. replace (i - o1 =? j - o1) with false; auto. symmetry; apply Nat.eqb_neq; lia.
  - apply inb_true in Ei1. apply inb_false in Ej1.
    replace (inb (o1+o2) k2 j) with false by (symmetry; apply inb_false; lia). rewrite andb_false_r. reflexivity.
  - apply inb_false in Ei1.
    replace (inb (o1+o2) k2 i) with false by (symmetry; apply inb_false; lia). reflexivity.
  - apply inb_false in Ei1.
    replace (inb (o1+o2) k2 i) with false by (symmetry; apply inb_false; lia). reflexivity.
Qed.
Lemma embed_full m A : meq m (embed 0 m A) A.
Proof. intros i j Hi Hj. unfold embed.
  replace (inb 0 m i) with true by (symmetry; apply inb_true; lia).
  replace (inb 0 m j) with true by (symmetry; apply inb_true; lia). simpl.
  rewrite !Nat.sub_0_r. reflexivity. Qed.

Lemma unitary_embed m off k A : (off + k <= m)%nat -> unitary k A -> unitary m (embed off k A).
Proof. intros Hm [A1 A2]. split.
  - rewrite embed_adj, embed_mul by lia. rewrite (embed_ext m off k _ _ A1). apply embed_id.
  - rewrite embed_adj, embed_mul by lia. rewrite (embed_ext m off k _ _ A2). apply embed_id. Qed.

(* ordered product: the LAST element of the list is the LEFTMOST factor (light crosses head first) *)
Fixpoint oprod (m : nat) (l : list mat) : mat :=
  match l with [] => mid | A :: r => mmul m (oprod m r) A end.
Lemma oprod_app m l1 l2 : meq m (oprod m (l1 ++ l2)) (mmul m (oprod m l2) (oprod m l1)).
Proof. induction l1 as [|A r IH]; simpl. rewrite mmul_id_r. reflexivity.
  rewrite IH, mmul_assoc. reflexivity. Qed.
Lemma oprod_unitary m l : Forall (unitary m) l -> unitary m (oprod m l).
Proof. induction 1; simpl. apply unitary_id. apply unitary_mul; auto. Qed.

(* permutation matrices: light entering mode k leaves on mode p k, i.e. U[p k, k] = 1 *)
Definition pmat (p : nat -> nat) : mat := fun i j => delta i (p j).

End Mat.

Arguments meq {_}. Arguments mmul {_}. Arguments mid {_}. Arguments madj {_}.
Arguments embed {_}. Arguments unitary {_}. Arguments oprod {_}. Arguments pmat {_}.
