(* The quadratic extension Q(i)(sqrt 2) of the Gaussian rationals: a second executable instance of
   [cring], needed wherever 1/sqrt 2 appears exactly (quarter-wave plates, the Jones vectors D, A, L, R).
   An element [mkq2 a b] stands for a + b*sqrt 2 with a, b Gaussian rationals; conjugation is the
   complex one (sqrt 2 is real).  The map into the complex numbers is a ring homomorphism, so an
   equality computed here holds in C. *)
From PV Require Export Lib.QI.

Record q2 := mkq2 { qa : qi; qb : qi }.

Definition q2_0 := mkq2 qi0 qi0.
Definition q2_1 := mkq2 qi1 qi0.
Definition q2_i := mkq2 qii qi0.
Definition q2add (x y : q2) := mkq2 (qiadd (qa x) (qa y)) (qiadd (qb x) (qb y)).
Definition q2mul (x y : q2) :=
  mkq2 (qiadd (qimul (qa x) (qa y)) (qiadd (qimul (qb x) (qb y)) (qimul (qb x) (qb y))))
       (qiadd (qimul (qa x) (qb y)) (qimul (qb x) (qa y))).
Definition q2opp (x : q2) := mkq2 (qiopp (qa x)) (qiopp (qb x)).
Definition q2sub (x y : q2) := mkq2 (qisub (qa x) (qa y)) (qisub (qb x) (qb y)).
Definition q2conj (x : q2) := mkq2 (qiconj (qa x)) (qiconj (qb x)).
Definition q2_of_qi (a : qi) := mkq2 a qi0.
Definition q2_sqrt2 := mkq2 qi0 qi1.
(* 1/sqrt 2 = sqrt 2 / 2 *)
Definition q2_rhalf := mkq2 qi0 (mkqi (Q2Qc (1 # 2)) 0).

Lemma q2_eq x y : qa x = qa y -> qb x = qb y -> x = y.
Proof. destruct x, y; simpl; intros; subst; reflexivity. Qed.

Lemma q2_ring : ring_theory q2_0 q2_1 q2add q2mul q2sub q2opp (@eq q2).
Proof. split; intros; apply q2_eq; apply qi_eq; simpl; ring. Qed.

Definition Q2 : cring.
Proof.
  refine (@Build_cring q2 q2_0 q2_1 q2add q2mul q2sub q2opp q2conj q2_ring _ _ _ _ _ _);
  intros; apply q2_eq; apply qi_eq; simpl; ring.
Defined.

Definition q2_eqb (x y : q2) : bool := qi_eqb (qa x) (qa y) && qi_eqb (qb x) (qb y).
Lemma q2_eqb_eq x y : q2_eqb x y = true <-> x = y.
Proof. unfold q2_eqb. rewrite andb_true_iff, !qi_eqb_eq. split.
  - intros [H1 H2]. apply q2_eq; assumption.
  - intros ->. split; reflexivity. Qed.

(* |x|^2 = n0 + n1*sqrt 2 with rational n0, n1 *)
Definition q2norm2 (x : q2) : Qc * Qc :=
  ((qinorm2 (qa x) + (qinorm2 (qb x) + qinorm2 (qb x)))%Qc,
   ((re (qa x) * re (qb x) + im (qa x) * im (qb x)) + (re (qa x) * re (qb x) + im (qa x) * im (qb x)))%Qc).
Lemma q2norm2_spec x :
  q2mul x (q2conj x) = mkq2 (qi_of_Qc (fst (q2norm2 x))) (qi_of_Qc (snd (q2norm2 x))).
Proof. apply q2_eq; apply qi_eq; unfold q2norm2, qinorm2; simpl; ring. Qed.

Lemma q2_sqrt2_sq : q2mul q2_sqrt2 q2_sqrt2 = q2add q2_1 q2_1.
Proof. apply q2_eq; apply qi_eq; simpl; ring. Qed.
Lemma q2_rhalf_sq : q2add (q2mul q2_rhalf q2_rhalf) (q2mul q2_rhalf q2_rhalf) = q2_1.
Proof. apply q2_eq; apply qi_eq; apply Qc_is_canon; vm_compute; reflexivity. Qed.
Lemma q2_rhalf_real : q2conj q2_rhalf = q2_rhalf.
Proof. apply q2_eq; apply qi_eq; apply Qc_is_canon; vm_compute; reflexivity. Qed.
Lemma q2_i_sq : q2mul q2_i q2_i = q2opp q2_1.
Proof. apply q2_eq; apply qi_eq; simpl; ring. Qed.
Lemma q2_i_conj : q2conj q2_i = q2opp q2_i.
Proof. apply q2_eq; apply qi_eq; simpl; ring. Qed.
