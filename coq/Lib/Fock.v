(* Fock states as lists of occupation numbers; enumeration in exqalibur's FSArray order. *)
From PV Require Export Lib.CRing.

Definition state := list nat.

Fixpoint dec (t : state) (j : nat) : state :=
  match t, j with
  | [], _ => []
  | x :: r, O => pred x :: r
  | x :: r, S j' => x :: dec r j'
  end.
Fixpoint inc (t : state) (j : nat) : state :=
  match t, j with
  | [], _ => []
  | x :: r, O => S x :: r
  | x :: r, S j' => x :: inc r j'
  end.
Fixpoint all_zero (t : state) : bool := match t with [] => true | x :: r => (x =? 0) && all_zero r end.
Fixpoint factprod (t : state) : nat := match t with [] => 1 | x :: r => (fact x * factprod r)%nat end.
Definition total (t : state) : nat := fold_right Nat.add 0%nat t.
Fixpoint state_eqb (a b : state) : bool :=
  match a, b with
  | [], [] => true
  | x :: r, y :: s => (x =? y) && state_eqb r s
  | _, _ => false
  end.
Fixpoint state_add (a b : state) : state :=
  match a, b with
  | x :: r, y :: s => (x + y)%nat :: state_add r s
  | [], s => s
  | r, [] => r
  end.

(* rows_from j0 t: mode index j0+i repeated t_i times (sorted multiset of occupied modes) *)
Fixpoint rows_from (j0 : nat) (t : state) : list nat :=
  match t with [] => [] | x :: r => repeat j0 x ++ rows_from (S j0) r end.
Definition rows_of (t : state) : list nat := rows_from 0 t.

(* FSArray(m, n) order: lexicographically decreasing *)
Fixpoint down_from (n : nat) : list nat := match n with O => [0%nat] | S n' => n :: down_from n' end.
Fixpoint allstates (m n : nat) : list state :=
  match m with
  | O => if (n =? 0)%nat then [[]] else []
  | S m' => flat_map (fun a => map (cons a) (allstates m' (n - a))) (down_from n)
  end.

Lemma state_eqb_eq a b : state_eqb a b = true <-> a = b.
Proof. revert b; induction a as [|x r IH]; destruct b as [|y s]; simpl; split; intros H; try discriminate; auto.
  - apply andb_prop in H as [H1 H2]. apply Nat.eqb_eq in H1. apply IH in H2. subst; auto.
  - injection H as -> ->. rewrite Nat.eqb_refl. apply IH. reflexivity. Qed.
Lemma factprod_zero t : all_zero t = true -> factprod t = 1%nat.
Proof. induction t as [|x r IH]; simpl; auto. intros H. apply andb_prop in H as [Hx Hr].
  apply Nat.eqb_eq in Hx. subst. rewrite IH; auto. Qed.
Lemma factprod_dec t j : (0 < nth j t 0)%nat -> (nth j t 0 * factprod (dec t j))%nat = factprod t.
Proof. revert j; induction t as [|x r IH]; intros j; destruct j; simpl; try lia.
  - intros Hx. destruct x; [lia|]. simpl. lia.
  - intros H. specialize (IH j H). nia. Qed.
Lemma total_dec t j : (0 < nth j t 0)%nat -> S (total (dec t j)) = total t.
Proof. revert j; induction t as [|x r IH]; intros j; destruct j; simpl; try lia.
  intros H. specialize (IH j H). unfold total in *. simpl. lia. Qed.
Lemma all_zero_total t : all_zero t = true <-> total t = 0%nat.
Proof. induction t as [|x r IH]; simpl. tauto. unfold total in *. simpl.
  rewrite andb_true_iff, Nat.eqb_eq, IH. lia. Qed.
Lemma dec_length t j : length (dec t j) = length t.
Proof. revert j; induction t; destruct j; simpl; auto. Qed.
