(* Finite distributions over Fock states as weighted lists (multiset semantics: the probability of a
   state is the sum of the weights of its occurrences).  Exact rationals. *)
From PV Require Export Lib.Fock.
From Coq Require Export QArith Qcanon.
Open Scope Qc_scope.

Definition dist := list (state * Qc).
Definition mass (d : dist) : Qc := fold_right (fun tw acc => snd tw + acc) 0 d.
Definition pr (d : dist) (T : state) : Qc :=
  fold_right (fun tw acc => (if state_eqb (fst tw) T then snd tw else 0) + acc) 0 d.
Definition dfilter (P : state -> bool) (d : dist) : dist := filter (fun tw => P (fst tw)) d.
Definition dmap (f : state -> state) (d : dist) : dist := map (fun tw => (f (fst tw), snd tw)) d.
Definition dscale (c : Qc) (d : dist) : dist := map (fun tw => (fst tw, c * snd tw)) d.
Definition conv2 (d1 d2 : dist) : dist :=
  flat_map (fun tw1 => map (fun tw2 => (state_add (fst tw1) (fst tw2), snd tw1 * snd tw2)) d2) d1.
Definition conv_all (ds : list dist) : dist := fold_right conv2 [([], 1)] ds.
Definition normalize (d : dist) : dist := if Qc_eq_dec (mass d) 0 then d else dscale (/ mass d) d.

(* canonical form: equal keys summed, keys in order of first appearance *)
Fixpoint dinsert (t : state) (w : Qc) (d : dist) : dist :=
  match d with
  | [] => [(t, w)]
  | (t', w') :: r => if state_eqb t' t then (t', w' + w) :: r else (t', w') :: dinsert t w r
  end.
Definition dmerge (d : dist) : dist := fold_left (fun acc tw => dinsert (fst tw) (snd tw) acc) d [].

Lemma mass_app d1 d2 : mass (d1 ++ d2) = mass d1 + mass d2.
Proof. induction d1 as [|tw d1 IH]; simpl. ring. rewrite IH. ring. Qed.
Lemma mass_dscale c d : mass (dscale c d) = c * mass d.
Proof. induction d as [|tw d IH]; simpl. ring. rewrite IH. ring. Qed.
Lemma mass_dmap f d : mass (dmap f d) = mass d.
Proof. induction d as [|tw d IH]; simpl. reflexivity. rewrite IH. reflexivity. Qed.
Lemma mass_dfilter_split P d : mass d = mass (dfilter P d) + mass (dfilter (fun t => negb (P t)) d).
Proof. induction d as [|[t w] d IH]; simpl. ring. destruct (P t); simpl; rewrite IH; ring. Qed.
Lemma mass_conv2 d1 d2 : mass (conv2 d1 d2) = mass d1 * mass d2.
Proof. induction d1 as [|[t w] d1 IH]; simpl. ring. rewrite mass_app, IH.
  assert (H : mass (map (fun tw2 : state * Qc => (state_add t (fst tw2), w * snd tw2)) d2) = w * mass d2).
  { clear. induction d2 as [|tw d2 IH]; simpl. ring. rewrite IH. ring. }
  rewrite H. ring. Qed.
Lemma mass_conv_all ds : mass (conv_all ds) = fold_right (fun d acc => mass d * acc) 1 ds.
Proof. induction ds as [|d ds IH]; simpl. ring. rewrite mass_conv2, IH. reflexivity. Qed.
Lemma mass_normalize d : mass d <> 0 -> mass (normalize d) = 1.
Proof. intros H. unfold normalize. destruct (Qc_eq_dec (mass d) 0); [contradiction|].
  rewrite mass_dscale. field. exact H. Qed.
Lemma pr_app d1 d2 T : pr (d1 ++ d2) T = pr d1 T + pr d2 T.
Proof. induction d1 as [|tw d1 IH]; simpl. ring. rewrite IH. ring. Qed.
Lemma pr_dscale c d T : pr (dscale c d) T = c * pr d T.
Proof. induction d as [|tw d IH]; simpl. ring. rewrite IH. destruct (state_eqb (fst tw) T); ring. Qed.
Lemma pr_dfilter P d T : pr (dfilter P d) T = if P T then pr d T else 0.
Proof. induction d as [|[t w] d IH]; simpl. destruct (P T); reflexivity.
  destruct (P t) eqn:Pt; simpl; rewrite IH; destruct (state_eqb t T) eqn:E.
  - apply state_eqb_eq in E. subst. rewrite Pt. reflexivity.
  - destruct (P T); ring.
  - apply state_eqb_eq in E. subst. rewrite Pt. reflexivity.
  - destruct (P T); ring. Qed.
Lemma pr_dinsert t w d T : pr (dinsert t w d) T = (if state_eqb t T then w else 0) + pr d T.
Proof. induction d as [|[t' w'] d IH]; simpl. ring.
  destruct (state_eqb t' t) eqn:E; simpl.
  - apply state_eqb_eq in E. subst. destruct (state_eqb t T); ring.
  - rewrite IH. ring. Qed.
Lemma pr_dmerge_gen d : forall acc T, pr (fold_left (fun acc tw => dinsert (fst tw) (snd tw) acc) d acc) T = pr acc T + pr d T.
Proof. induction d as [|[t w] d IH]; intros acc T; simpl. ring. rewrite IH, pr_dinsert. ring. Qed.
Lemma pr_dmerge d T : pr (dmerge d) T = pr d T.
Proof. unfold dmerge. rewrite pr_dmerge_gen. simpl. ring. Qed.
Lemma mass_dinsert t w d : mass (dinsert t w d) = w + mass d.
Proof. induction d as [|[t' w'] d IH]; simpl. ring. destruct (state_eqb t' t); simpl; [|rewrite IH]; ring. Qed.
Lemma mass_dmerge d : mass (dmerge d) = mass d.
Proof. unfold dmerge. assert (H : forall acc, mass (fold_left (fun acc tw => dinsert (fst tw) (snd tw) acc) d acc) = mass acc + mass d).
  { induction d as [|[t w] d IH]; intros acc; simpl. ring. rewrite IH, mass_dinsert. ring. }
  rewrite H. simpl. ring. Qed.
