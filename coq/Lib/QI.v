(* Gaussian rationals over canonical rationals Qc: the executable instance of [cring]. *)
From PV Require Export Lib.CRing.
From Coq Require Export QArith Qcanon.

Record qi := mkqi { re : Qc; im : Qc }.

Definition qi0 := mkqi 0 0.
Definition qi1 := mkqi 1 0.
Definition qii := mkqi 0 1.
Definition qiadd (a b : qi) := mkqi (re a + re b) (im a + im b).
Definition qimul (a b : qi) := mkqi (re a * re b - im a * im b) (re a * im b + im a * re b).
Definition qiopp (a : qi) := mkqi (- re a) (- im a).
Definition qisub (a b : qi) := mkqi (re a - re b) (im a - im b).
Definition qiconj (a : qi) := mkqi (re a) (- im a).
Definition qinorm2 (a : qi) : Qc := re a * re a + im a * im a.
Definition qi_of_Qc (q : Qc) := mkqi q 0.

Lemma qi_eq a b : re a = re b -> im a = im b -> a = b.
Proof. destruct a, b; simpl; intros; subst; reflexivity. Qed.

Lemma qi_ring : ring_theory qi0 qi1 qiadd qimul qisub qiopp (@eq qi).
Proof. split; intros; apply qi_eq; simpl; ring. Qed.

Definition QI : cring.
Proof.
  refine (@Build_cring qi qi0 qi1 qiadd qimul qisub qiopp qiconj qi_ring _ _ _ _ _ _);
  intros; apply qi_eq; simpl; ring.
Defined.

Lemma qinorm2_conj a : qimul a (qiconj a) = qi_of_Qc (qinorm2 a).
Proof. apply qi_eq; unfold qinorm2; simpl; ring. Qed.

(* decidable equality (Qc has Leibniz equality and a decision procedure) *)
Definition qi_eqb (a b : qi) : bool :=
  (if Qc_eq_dec (re a) (re b) then true else false) && (if Qc_eq_dec (im a) (im b) then true else false).
Lemma qi_eqb_eq a b : qi_eqb a b = true <-> a = b.
Proof. unfold qi_eqb. destruct (Qc_eq_dec (re a) (re b)), (Qc_eq_dec (im a) (im b)); simpl; split; intros H;
  try discriminate; try (apply qi_eq; assumption); try reflexivity; subst; congruence. Qed.
