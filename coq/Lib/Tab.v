(* Tabulation of functional matrices so that executed products stay polynomial. *)
From PV Require Export Lib.Mat.

Section Tab.
Variable R : cring.
Definition tab (n : nat) (A : mat R) : list (list R) :=
  map (fun i => map (fun j => A i j) (seq 0 n)) (seq 0 n).
Definition of_tab (T : list (list R)) : mat R := fun i j => nth j (nth i T []) k0.
Definition retab (n : nat) (A : mat R) : mat R := of_tab (tab n A).

Lemma nth_map_seq {A} (f : nat -> A) n i d : (i < n)%nat -> nth i (map f (seq 0 n)) d = f i.
Proof. intros H. rewrite (nth_indep _ d (f 0%nat)) by (rewrite map_length, seq_length; exact H).
  rewrite (map_nth f (seq 0 n) 0%nat i). rewrite seq_nth by exact H. reflexivity. Qed.

Lemma retab_eq n A : meq n (retab n A) A.
Proof. intros i j Hi Hj. unfold retab, of_tab, tab.
  rewrite (nth_map_seq (fun i => map (fun j => A i j) (seq 0 n)) n i [] Hi).
  rewrite (nth_map_seq (fun j => A i j) n j k0 Hj). reflexivity. Qed.

(* executed product *)
Definition xmul (n : nat) (A B : mat R) : mat R := retab n (mmul n A B).
Lemma xmul_eq n A B : meq n (xmul n A B) (mmul n A B).
Proof. apply retab_eq. Qed.
Fixpoint oprodx (m : nat) (l : list (mat R)) : mat R :=
  match l with [] => mid | A :: r => xmul m (oprodx m r) A end.
Lemma oprodx_eq m l : meq m (oprodx m l) (oprod m l).
Proof. induction l as [|A r IH]; simpl. reflexivity.
  rewrite xmul_eq. intros i j Hi Hj. unfold mmul. apply sumn_ext. intros k Hk. rewrite IH; auto. Qed.
End Tab.
Arguments oprodx {_}. Arguments tab {_}. Arguments of_tab {_}. Arguments retab {_}. Arguments xmul {_}.
