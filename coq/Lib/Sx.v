(* Generic integer-tree exchange format between the harness and the executable models.
   Every model entry point has type [sx -> sx]; decoding is part of the model (runs identically under
   vm_compute and in the extracted runner). *)
From PV Require Export Lib.QI.

Inductive sx := I (z : Z) | L (l : list sx).

Definition to_Z (x : sx) : Z := match x with I z => z | L _ => 0%Z end.
Definition to_nat (x : sx) : nat := Z.to_nat (to_Z x).
Definition to_list (x : sx) : list sx := match x with I _ => [] | L l => l end.
Definition nthx (n : nat) (x : sx) : sx := nth n (to_list x) (L []).
Definition to_bool (x : sx) : bool := negb (Z.eqb (to_Z x) 0).
Definition to_nats (x : sx) : list nat := map to_nat (to_list x).
Definition to_Zs (x : sx) : list Z := map to_Z (to_list x).

Definition Qc_of_ZZ (n d : Z) : Qc :=
  match d with Zpos p => Q2Qc (n # p) | _ => Q2Qc 0 end.
Definition to_Qc (x : sx) : Qc := Qc_of_ZZ (to_Z (nthx 0 x)) (to_Z (nthx 1 x)).
Definition to_qi (x : sx) : qi := mkqi (to_Qc (nthx 0 x)) (to_Qc (nthx 1 x)).

Definition of_nat_sx (n : nat) : sx := I (Z.of_nat n).
Definition of_bool (b : bool) : sx := I (if b then 1 else 0)%Z.
Definition of_nats (l : list nat) : sx := L (map of_nat_sx l).
Definition of_Qc (q : Qc) : sx := L [I (Qnum (this q)); I (Zpos (Qden (this q)))].
Definition of_qi (a : qi) : sx := L [of_Qc (re a); of_Qc (im a)].

(* list-of-rows matrices, for execution *)
Definition lmat (K : Type) := list (list K).
Definition to_lmat (x : sx) : lmat qi := map (fun r => map to_qi (to_list r)) (to_list x).
Definition of_lmat (M : lmat qi) : sx := L (map (fun r => L (map of_qi r)) M).
