(* Commutative rings with an involutive conjugation; finite sums.  Generic layer: every matrix and
   amplitude model is written over an arbitrary [cring] and instantiated later. *)
From Coq Require Export List Arith ZArith Lia Bool Ring.
Export ListNotations.

Record cring := {
  K :> Type;
  k0 : K; k1 : K;
  kadd : K -> K -> K; kmul : K -> K -> K; ksub : K -> K -> K; kopp : K -> K;
  kconj : K -> K;
  Kth : ring_theory k0 k1 kadd kmul ksub kopp (@eq K);
  conj_add : forall a b, kconj (kadd a b) = kadd (kconj a) (kconj b);
  conj_mul : forall a b, kconj (kmul a b) = kmul (kconj a) (kconj b);
  conj_opp : forall a, kconj (kopp a) = kopp (kconj a);
  conj_invol : forall a, kconj (kconj a) = a;
  conj_one : kconj k1 = k1;
  conj_zero : kconj k0 = k0
}.

Arguments k0 {_}. Arguments k1 {_}. Arguments kadd {_}. Arguments kmul {_}.
Arguments ksub {_}. Arguments kopp {_}. Arguments kconj {_}.

Declare Scope K_scope.
Delimit Scope K_scope with K.
Notation "a + b" := (kadd a b) : K_scope.
Notation "a * b" := (kmul a b) : K_scope.
Notation "a - b" := (ksub a b) : K_scope.
Notation "- a" := (kopp a) : K_scope.

Section Sums.
Variable R : cring.
Add Ring Rring : (Kth R).
Open Scope K_scope.

Lemma conj_sub (a b : R) : kconj (a - b) = kconj a - kconj b.
Proof. replace (a - b) with (a + - b) by ring. rewrite conj_add, conj_opp. ring. Qed.

Fixpoint of_nat (n : nat) : R := match n with O => k0 | S n' => of_nat n' + k1 end.
Lemma of_nat_add a b : of_nat (a + b)%nat = of_nat a + of_nat b.
Proof. induction a; simpl; [ring| rewrite IHa; ring]. Qed.
Lemma of_nat_mul a b : of_nat (a * b)%nat = of_nat a * of_nat b.
Proof. induction a; simpl; [ring|]. rewrite of_nat_add, IHa. ring. Qed.
Lemma conj_of_nat n : kconj (of_nat n) = of_nat n.
Proof. induction n; simpl. apply conj_zero. rewrite conj_add, IHn, conj_one. reflexivity. Qed.

Fixpoint sumn (n : nat) (f : nat -> R) : R := match n with O => k0 | S n' => sumn n' f + f n' end.

Lemma sumn_ext n f g : (forall i, (i < n)%nat -> f i = g i) -> sumn n f = sumn n g.
Proof. induction n; simpl; intros H; [reflexivity|]. rewrite IHn, H; auto. Qed.
Lemma sumn_zero n f : (forall i, (i < n)%nat -> f i = k0) -> sumn n f = k0.
Proof. induction n; simpl; intros H; [reflexivity|]. rewrite IHn, H; auto. ring. Qed.
Lemma sumn_app a b f : sumn (a + b)%nat f = sumn a f + sumn b (fun i => f (a + i)%nat).
Proof. induction b; simpl. rewrite Nat.add_0_r. ring.
  rewrite Nat.add_succ_r. simpl. rewrite IHb. ring. Qed.
Lemma sumn_single n f i : (i < n)%nat -> (forall l, (l < n)%nat -> l <> i -> f l = k0) -> sumn n f = f i.
Proof. induction n; intros Hi H. lia. simpl.
  destruct (Nat.eq_dec i n) as [->|Hne].
  - rewrite sumn_zero. ring. intros l Hl. apply H; lia.
  - rewrite IHn; try lia. rewrite (H n); try lia. ring. intros; apply H; lia. Qed.
Lemma sumn_scal n a f : sumn n (fun i => a * f i) = a * sumn n f.
Proof. induction n; simpl; [ring| rewrite IHn; ring]. Qed.
Lemma sumn_scal_r n a f : sumn n (fun i => f i * a) = sumn n f * a.
Proof. induction n; simpl; [ring| rewrite IHn; ring]. Qed.
Lemma sumn_add n f g : sumn n (fun i => f i + g i) = sumn n f + sumn n g.
Proof. induction n; simpl; [ring| rewrite IHn; ring]. Qed.
Lemma sumn_swap n m (f : nat -> nat -> R) :
  sumn n (fun i => sumn m (fun j => f i j)) = sumn m (fun j => sumn n (fun i => f i j)).
Proof. induction n; simpl. rewrite sumn_zero; auto.
  rewrite IHn, <- sumn_add. reflexivity. Qed.
Lemma sumn_conj n f : kconj (sumn n f) = sumn n (fun i => kconj (f i)).
Proof. induction n; simpl. apply conj_zero. rewrite conj_add, IHn. reflexivity. Qed.

Definition delta (i j : nat) : R := if i =? j then k1 else k0.
Lemma delta_refl i : delta i i = k1. Proof. unfold delta. rewrite Nat.eqb_refl. reflexivity. Qed.
Lemma delta_neq i j : i <> j -> delta i j = k0.
Proof. intros H. unfold delta. apply Nat.eqb_neq in H. rewrite H. reflexivity. Qed.
Lemma delta_sym i j : delta i j = delta j i.
Proof. unfold delta. rewrite Nat.eqb_sym. reflexivity. Qed.
Lemma conj_delta i j : kconj (delta i j) = delta i j.
Proof. unfold delta. destruct (i =? j). apply conj_one. apply conj_zero. Qed.
Lemma sumn_delta_l n i f : (i < n)%nat -> sumn n (fun l => delta i l * f l) = f i.
Proof. intros Hi. rewrite (sumn_single n _ i Hi). rewrite delta_refl. ring.
  intros l _ Hne. rewrite delta_neq by congruence. ring. Qed.
Lemma sumn_delta_r n j f : (j < n)%nat -> sumn n (fun l => f l * delta l j) = f j.
Proof. intros Hj. rewrite (sumn_single n _ j Hj). rewrite delta_refl. ring.
  intros l _ Hne. rewrite delta_neq by congruence. ring. Qed.
End Sums.

Arguments of_nat {_}. Arguments sumn {_}. Arguments delta {_}.
