(* Quadratic extensions K[x]/(x^2 - d) of a commutative ring with conjugation, as [cring] instances that
   compute: iterated into towers Q(i)(sqrt 2)(sqrt 3)(alpha)... they hold the exact cosines and sines of
   the catalog gates (C20).  The adjoined root is REAL (conjugation acts on the coefficients only), which
   needs [kconj d = d].  Soundness of a tower computation needs only that the tower maps homomorphically
   into the complex numbers (x |-> a chosen root of d): an equality decided in the tower holds in C, and
   an element with an inverse in the tower has a non-zero image.
   [dcring] = a cring with a sound boolean equality, a candidate inverse (no specification: its result
   is always checked by a multiplication) and a flattening to base coefficients for the exchange format. *)
From PV Require Export Lib.QI.

Record dcring := {
  dc :> cring;
  deqb : dc -> dc -> bool;
  dinv : dc -> dc;
  dflat : dc -> list qi;
  deqb_eq : forall a b, deqb a b = true -> a = b
}.
Arguments deqb {_}. Arguments dinv {_}. Arguments dflat {_}.

Section Quad.
Variable K : dcring.
Variable d : K.
Hypothesis d_real : kconj d = d.
Add Ring Kring : (Kth K).
Open Scope K_scope.

Record quad := mkq { qa : K; qb : K }.       (* qa + qb * x,  x^2 = d *)

Lemma quad_eq u v : qa u = qa v -> qb u = qb v -> u = v.
Proof. destruct u, v; simpl; intros; subst; reflexivity. Qed.

Definition q0 := mkq k0 k0.
Definition q1 := mkq k1 k0.
Definition qadd u v := mkq (qa u + qa v) (qb u + qb v).
Definition qopp u := mkq (- qa u) (- qb u).
Definition qsub u v := mkq (qa u - qa v) (qb u - qb v).
Definition qconj u := mkq (kconj (qa u)) (kconj (qb u)).
(* schoolbook product *)
Definition qmul_ref u v := mkq (qa u * qa v + d * (qb u * qb v)) (qa u * qb v + qb u * qa v).
(* executed product: the same value, products with a zero factor are not computed (matrix entries of the
   gates are sparse in the tower basis) *)
Definition isz (a : K) : bool := deqb a k0.
Definition zmul (a b : K) : K := if isz a then k0 else if isz b then k0 else a * b.
Definition qmul u v :=
  mkq (zmul (qa u) (qa v) + (let t := zmul (qb u) (qb v) in if isz t then k0 else d * t))
      (zmul (qa u) (qb v) + zmul (qb u) (qa v)).

Lemma isz_true a : isz a = true -> a = k0.
Proof. apply deqb_eq. Qed.
Lemma zmul_eq a b : zmul a b = a * b.
Proof. unfold zmul. destruct (isz a) eqn:Ea. apply isz_true in Ea. subst. ring.
  destruct (isz b) eqn:Eb. apply isz_true in Eb. subst. ring. reflexivity. Qed.
Lemma qmul_eq u v : qmul u v = qmul_ref u v.
Proof. unfold qmul, qmul_ref. rewrite !zmul_eq. cbv zeta.
  destruct (isz (qb u * qb v)) eqn:E; [|reflexivity]. apply isz_true in E. rewrite E.
  apply quad_eq; simpl; ring. Qed.

Lemma quad_ring : ring_theory q0 q1 qadd qmul qsub qopp (@eq quad).
Proof. split; intros; rewrite ?qmul_eq; apply quad_eq; simpl; rewrite ?qmul_eq; simpl; ring. Qed.
Lemma qconj_add u v : qconj (qadd u v) = qadd (qconj u) (qconj v).
Proof. apply quad_eq; simpl; apply conj_add. Qed.
Lemma qconj_mul u v : qconj (qmul u v) = qmul (qconj u) (qconj v).
Proof. rewrite !qmul_eq. apply quad_eq; simpl; rewrite ?conj_add, ?conj_mul, ?d_real; reflexivity. Qed.
Lemma qconj_opp u : qconj (qopp u) = qopp (qconj u).
Proof. apply quad_eq; simpl; apply conj_opp. Qed.
Lemma qconj_invol u : qconj (qconj u) = u.
Proof. apply quad_eq; simpl; apply conj_invol. Qed.
Lemma qconj_one : qconj q1 = q1.
Proof. apply quad_eq; simpl. apply conj_one. apply conj_zero. Qed.
Lemma qconj_zero : qconj q0 = q0.
Proof. apply quad_eq; simpl; apply conj_zero. Qed.

Definition Quad : cring :=
  @Build_cring quad q0 q1 qadd qmul qsub qopp qconj quad_ring
               qconj_add qconj_mul qconj_opp qconj_invol qconj_one qconj_zero.

Definition qeqb (u v : quad) : bool := deqb (qa u) (qa v) && deqb (qb u) (qb v).
Lemma qeqb_eq u v : qeqb u v = true -> u = v.
Proof. unfold qeqb. intros H. apply andb_prop in H as [H1 H2].
  apply quad_eq; apply deqb_eq; assumption. Qed.
(* candidate inverse: (a - b x) / (a^2 - d b^2) *)
Definition qinv (u : quad) : quad :=
  let n := dinv (qa u * qa u - d * (qb u * qb u)) in mkq (qa u * n) (- (qb u * n)).
Definition qflat (u : quad) : list qi := dflat (qa u) ++ dflat (qb u).

Definition DQuad : dcring := @Build_dcring Quad qeqb qinv qflat qeqb_eq.

Lemma qconj_fix (a b : K) : kconj a = a -> kconj b = b -> kconj (mkq a b : Quad) = mkq a b.
Proof. intros Ha Hb. apply quad_eq; simpl; assumption. Qed.

Definition qlift (a : K) : quad := mkq a k0.     (* the embedding K -> K[x] *)
Definition qroot : quad := mkq k0 k1.            (* x *)
Definition qscal (a : K) : quad := mkq k0 a.     (* a * x *)
End Quad.
Arguments mkq {_}. Arguments qa {_}. Arguments qb {_}.

(* the base of every tower: Gaussian rationals *)
Definition qi_inv (a : qi) : qi :=
  let n := (/ qinorm2 a)%Qc in mkqi (re a * n)%Qc (- im a * n)%Qc.
Lemma qi_eqb_sound (a b : QI) : qi_eqb a b = true -> a = b.
Proof. apply qi_eqb_eq. Qed.
Definition DQI : dcring := @Build_dcring QI qi_eqb qi_inv (fun a => [a]) qi_eqb_sound.
