(* C04 (extension) — the accounting of Simulator.probs_svd + post_select_distribution, modelled by
   [probs_svd_model] (Model/SelectImpl.v: _preprocess_svd, _probs_svd_fast with the herald mask and the
   per-group budgets _best_n, normalisation, division by the physical performance, final post-selection
   with its own normalisation and logical-performance contribution), reports exactly the conditioning
   specification [condition] of the unconditioned, UNMASKED mixture [full_dist mix] — for all mixtures of
   tag-grouped inputs, all heralds (distinct in-range modes, any expected values), all post-selection
   expressions, all filters, heralds kept or removed.
   Well-formedness: [wf_mix m mix] = input probabilities are >= 0 and sum to 1, every input has at least
   one group, every group distribution has mass 1, weights >= 0 and only m-mode states with exactly the
   group's photon number (lossless, photon-number resolving); the retained mass is non-zero. *)
From PV Require Import Model.SelectImpl Proofs.SelectP Proofs.ConvP Proofs.SimulatorP Proofs.SelectImplP.
Open Scope Qc_scope.

(* the reference distribution: the probability-weighted mixture of the convolved (merged) unmasked
   group distributions *)
Theorem C04ext_reference_is_mixture : forall mix,
  full_dist mix = mixture (map (fun i => (fst i, conv_all (map (@snd nat dist) (snd i)))) mix).
Proof. exact full_dist_mixture. Qed.
Print Assumptions C04ext_reference_is_mixture.

(* lossless PNR: an outcome passes the photon filter iff its input's photon number does *)
Theorem C04ext_filter_acts_on_inputs : forall m F mix, (forall i, In i mix -> wf_input m i) ->
  dfilter (fun t => (F <=? total t)%nat) (full_dist mix) = full_dist (pre_kept F mix).
Proof. exact filter_full_dist. Qed.
Print Assumptions C04ext_filter_acts_on_inputs.

(* T1 *)
Theorem C04ext_physical_perf_is_filter_probability : forall m h p f keep mix,
  wf_heralds m h -> wf_mix m mix ->
  mass (dfilter (passes h p) (dfilter (fun t => (f + herald_total h <=? total t)%nat) (full_dist mix))) <> 0 ->
  r_phys (probs_svd_model m h p f keep mix)
  = c_phys (condition (full_dist mix) h p (f + herald_total h) keep).
Proof. exact probs_svd_phys. Qed.
Print Assumptions C04ext_physical_perf_is_filter_probability.

(* T2 *)
Theorem C04ext_results_are_the_conditioned_distribution : forall m h p f keep mix,
  wf_heralds m h -> wf_mix m mix ->
  mass (dfilter (passes h p) (dfilter (fun t => (f + herald_total h <=? total t)%nat) (full_dist mix))) <> 0 ->
  forall T, pr (r_results (probs_svd_model m h p f keep mix)) T
          = pr (c_results (condition (full_dist mix) h p (f + herald_total h) keep)) T.
Proof. exact probs_svd_results. Qed.
Print Assumptions C04ext_results_are_the_conditioned_distribution.

(* T3 *)
Theorem C04ext_logical_perf_is_conditional_probability : forall m h p f keep mix,
  wf_heralds m h -> wf_mix m mix ->
  mass (dfilter (passes h p) (dfilter (fun t => (f + herald_total h <=? total t)%nat) (full_dist mix))) <> 0 ->
  r_logical (probs_svd_model m h p f keep mix)
  = c_logical (condition (full_dist mix) h p (f + herald_total h) keep).
Proof. exact probs_svd_logical. Qed.
Print Assumptions C04ext_logical_perf_is_conditional_probability.

Theorem C04ext_results_normalised : forall m h p f keep mix,
  wf_heralds m h -> wf_mix m mix ->
  mass (dfilter (passes h p) (dfilter (fun t => (f + herald_total h <=? total t)%nat) (full_dist mix))) <> 0 ->
  mass (r_results (probs_svd_model m h p f keep mix)) = 1.
Proof. exact probs_svd_results_mass. Qed.
Print Assumptions C04ext_results_normalised.

Theorem C04ext_performances_multiply_to_retained_mass : forall m h p f keep mix,
  wf_heralds m h -> wf_mix m mix ->
  mass (dfilter (passes h p) (dfilter (fun t => (f + herald_total h <=? total t)%nat) (full_dist mix))) <> 0 ->
  r_phys (probs_svd_model m h p f keep mix) * r_logical (probs_svd_model m h p f keep mix)
  = mass (dfilter (passes h p) (dfilter (fun t => (f + herald_total h <=? total t)%nat) (full_dist mix))).
Proof. exact probs_svd_perf_product. Qed.
Print Assumptions C04ext_performances_multiply_to_retained_mass.

(* the run with the herald mask and per-group photon budgets (true) and the run with an unrestricted
   engine (false) report the same performances and the same distribution *)
Theorem C04ext_report_independent_of_internal_mask : forall m h p f keep mix,
  wf_heralds m h -> wf_mix m mix ->
  mass (dfilter (passes h p) (dfilter (fun t => (f + herald_total h <=? total t)%nat) (full_dist mix))) <> 0 ->
  r_phys (probs_svd_model_gen true m h p f keep mix) = r_phys (probs_svd_model_gen false m h p f keep mix)
  /\ r_logical (probs_svd_model_gen true m h p f keep mix) = r_logical (probs_svd_model_gen false m h p f keep mix)
  /\ (forall T, pr (r_results (probs_svd_model_gen true m h p f keep mix)) T
              = pr (r_results (probs_svd_model_gen false m h p f keep mix)) T).
Proof. exact probs_svd_mask_independent. Qed.
Print Assumptions C04ext_report_independent_of_internal_mask.

(* heralds as (mode, value) pairs versus the mask string pushed to the engine *)
Theorem C04ext_heralds_ok_is_mask_exact : forall m h T, wf_heralds m h -> length T = m ->
  heralds_ok h T = mask_exact (herald_mask m h) T.
Proof. exact heralds_ok_is_mask_exact. Qed.
Print Assumptions C04ext_heralds_ok_is_mask_exact.

Theorem C04ext_passes_is_mask_and_selection : forall m h p T, wf_heralds m h -> length T = m ->
  passes h p T = mask_exact (herald_mask m h) T && ps_eval p T.
Proof. exact passes_is_mask_and_selection. Qed.
Print Assumptions C04ext_passes_is_mask_and_selection.

Theorem C04ext_mask_photons_are_herald_photons : forall m h, wf_heralds m h ->
  mask_fixed_total (herald_mask m h) = herald_total h.
Proof. exact mask_fixed_total_herald_mask. Qed.
Print Assumptions C04ext_mask_photons_are_herald_photons.

(* probability-equal weighted lists are equal as measures (used throughout: masses, images, filters) *)
Theorem C04ext_pr_equal_distributions_integrate_equally : forall phi d1 d2,
  (forall T, pr d1 T = pr d2 T) -> wsum phi d1 = wsum phi d2.
Proof. exact deq_wsum. Qed.
Print Assumptions C04ext_pr_equal_distributions_integrate_equally.

(* post_select_distribution assigns (result[state] = prob) rather than adds: harmless, because removing
   the heralded modes is injective on the states that show the heralded values *)
Theorem C04ext_herald_removal_injective_on_heralded_states : forall h keep t t', length t = length t' ->
  heralds_ok h t = true -> heralds_ok h t' = true -> out_state h keep t = out_state h keep t' -> t = t'.
Proof. exact out_state_inj. Qed.
Print Assumptions C04ext_herald_removal_injective_on_heralded_states.
