(* C10 — Plugging a component or processor onto chosen modes wires it exactly there. *)
From PV Require Import Model.Connector Proofs.ConnectorP.
From Coq Require Import ZArith List.
Import ListNotations.
Local Open Scope nat_scope.

(* ---- the permutation that realises a mapping (ModeConnector.generate_permutation) ----
   injective_onto m : the resolved mapping (heralded modes included) has distinct left modes and its values are
   exactly the right-hand modes 0..c-1; any order, any gaps. *)
Theorem C10_genperm_is_permutation : forall m, injective_onto m ->
  permok (perm_vect m) /\ length (perm_vect m) = span m.
Proof. exact genperm_is_perm. Qed.
Print Assumptions C10_genperm_is_permutation.

Theorem C10_genperm_wires_every_mapped_mode : forall m k v, injective_onto m -> In (k, v) (filled m) ->
  nth (k - lmin (keys m)) (perm_vect m) 0 = v /\ lmin (keys m) <= k < lmin (keys m) + span m.
Proof. exact genperm_wires. Qed.
Print Assumptions C10_genperm_wires_every_mapped_mode.

Example C10_hypotheses_satisfiable : injective_onto [(4, 0); (5, 2); (2, 3); (6, 1)].
Proof. split. discriminate. split. simpl. repeat constructor; simpl; intuition lia.
  apply is_perm_ok. reflexivity. Qed.

(* ---- the inserted segment as a matrix ---- *)
(* added processor: [PERM; block; PERM^-1] is the conjugation of the embedded block by the mode permutation *)
Theorem C10_processor_segment_is_conjugation : forall (R : cring) n mn pv nR (UR : mat R) i j,
  permok pv -> mn + length pv <= n -> i < n -> j < n ->
  proc_step n mn pv nR UR i j = embed mn nR UR (pfun mn pv i) (pfun mn pv j).
Proof. exact proc_step_entry. Qed.
Print Assumptions C10_processor_segment_is_conjugation.

(* light leaving left mode k enters right input v = mapping k; what comes out of right output v' returns on the
   left mode k' that the mapping assigns to v' *)
Theorem C10_processor_wired_there_and_back : forall (R : cring) n m nR (UR : mat R) k v k' v',
  injective_onto m -> lmin (keys m) + span m <= n -> v < nR -> v' < nR ->
  In (k, v) (filled m) -> In (k', v') (filled m) ->
  proc_step n (lmin (keys m)) (perm_vect m) nR UR k' k = UR v' v.
Proof. exact proc_wiring. Qed.
Print Assumptions C10_processor_wired_there_and_back.

Theorem C10_processor_untouched_modes_fixed : forall (R : cring) n m nR (UR : mat R) u j,
  injective_onto m -> lmin (keys m) + span m <= n -> nR <= length m -> u < n -> j < n -> ~ In u (keys m) ->
  proc_step n (lmin (keys m)) (perm_vect m) nR UR u j = delta u j /\
  proc_step n (lmin (keys m)) (perm_vect m) nR UR j u = delta j u.
Proof. exact proc_untouched. Qed.
Print Assumptions C10_processor_untouched_modes_fixed.

(* plain component, the code as it is now (cfg_now: [PERM; block; PERM^-1] since 7bb2f795): wired there and back, and
   untouched modes fixed, for ALL injective mappings (gaps included) *)
Theorem C10_component_wired_there_and_back : forall (R : cring) n m kw (Uc : mat R) k v k' v',
  injective_onto m -> lmin (keys m) + span m <= n -> v < kw -> v' < kw ->
  In (k, v) (filled m) -> In (k', v') (filled m) ->
  comp_seg (c_comp_inverse cfg_now) n (lmin (keys m)) (perm_vect m) kw Uc k' k = Uc v' v.
Proof. exact comp_wiring_now. Qed.
Print Assumptions C10_component_wired_there_and_back.

Theorem C10_component_untouched_modes_fixed : forall (R : cring) n m kw (Uc : mat R) u j,
  injective_onto m -> lmin (keys m) + span m <= n -> kw <= length m -> u < n -> j < n -> ~ In u (keys m) ->
  comp_seg (c_comp_inverse cfg_now) n (lmin (keys m)) (perm_vect m) kw Uc u j = delta u j /\
  comp_seg (c_comp_inverse cfg_now) n (lmin (keys m)) (perm_vect m) kw Uc j u = delta j u.
Proof. exact comp_untouched_now. Qed.
Print Assumptions C10_component_untouched_modes_fixed.

(* ---- historical: the code before 7bb2f795 (cfg_old: [PERM; block], comp_seg false = comp_step) ---- *)
Theorem C10_component_wired_there_old_code : forall (R : cring) n m kw (Uc : mat R) k v i,
  injective_onto m -> lmin (keys m) + span m <= n -> i < n -> In (k, v) (filled m) ->
  comp_seg (c_comp_inverse cfg_old) n (lmin (keys m)) (perm_vect m) kw Uc i k
  = embed (lmin (keys m)) kw Uc i (lmin (keys m) + v).
Proof. exact comp_enters. Qed.
Print Assumptions C10_component_wired_there_old_code.

(* "untouched modes are unaffected" was FALSE of the old code when the mapping has a gap
   (Processor(3).add([0,2], X): the light of mode 1 left on mode 2) *)
Theorem C10_component_untouched_refuted_old_code : forall R : cring, exists (m : nmap) (n u i : nat),
  injective_onto m /\ ~ In u (keys m) /\ u < n /\ i < n /\ i <> u /\
  comp_seg (R:=R) (c_comp_inverse cfg_old) n (lmin (keys m)) (perm_vect m) (length m) mid i u = k1.
Proof. exact comp_untouched_refuted. Qed.
Print Assumptions C10_component_untouched_refuted_old_code.

Theorem C10_component_untouched_gapfree_old_code : forall (R : cring) n m (Uc : mat R) u j,
  injective_onto m -> span m = length m -> lmin (keys m) + span m <= n -> u < n -> j < n -> ~ In u (keys m) ->
  comp_seg (c_comp_inverse cfg_old) n (lmin (keys m)) (perm_vect m) (length m) Uc j u = delta j u /\
  comp_seg (c_comp_inverse cfg_old) n (lmin (keys m)) (perm_vect m) (length m) Uc u j = delta u j.
Proof. exact comp_untouched_contiguous. Qed.
Print Assumptions C10_component_untouched_gapfree_old_code.

(* ---- heralds and detectors of the added processor ---- *)
Theorem C10_heralds_appended_in_order : forall (R : cring) tb cf (e : exp R) mp r keep e' seg,
  add_proc tb cf e mp r keep = (e', true, seg) ->
  exists m0 m',
    heralds_of (e_out e') = heralds_of (drop_ports keep e m0) ++
      map (fun p => (key_of m' (hd 0 (p_range p)), expected_of p)) (filter is_herald_port (e_out r)) /\
    m' = filled (with_heralds (csize e) m0 (herald_modes r)) /\
    is_perm (perm_vect (with_heralds (csize e) m0 (herald_modes r))) = true /\
    e_dets e' = e_dets e ++ map (fun h => nth h (e_dets r) 0) (herald_modes r) /\
    e_nher e' = e_nher e + length (herald_modes r) /\ e_moi e' = e_moi e.
Proof. exact add_proc_heralds. Qed.
Print Assumptions C10_heralds_appended_in_order.

(* the i-th herald of the added processor lands on mode circuit_size + i *)
Theorem C10_new_herald_modes_follow_existing_ones : forall m0 nL hpos i,
  injective_onto (with_heralds nL m0 hpos) -> i < length hpos ->
  key_of (filled (with_heralds nL m0 hpos)) (nth i hpos 0) = nL + i.
Proof. exact herald_positions. Qed.
Print Assumptions C10_new_herald_modes_follow_existing_ones.

(* ---- ports of the added processor (the code as it is now, rule of 6d353ebc) ----
   every port of the result was already on the left-hand side or sits exactly on the images of the modes of a port of
   the added processor, and all ports lie inside the circuit (in/out_port_names are total), for ALL mappings *)
Theorem C10_ports_sit_on_images_inside_the_circuit : forall (R : cring) tb (e : exp R) mp r keep e' seg,
  add_proc tb cfg_now e mp r keep = (e', true, seg) ->
  exists m',
    (forall q, In q (e_out e') -> In q (e_out e) \/ on_images m' (e_out r) q) /\
    (forall q, In q (e_in e') -> In q (e_in e) \/ on_images m' (e_out r ++ e_in r) q) /\
    (0 < csize e -> ports_within (csize e) (e_in e) -> ports_within (csize e) (e_out e) ->
     ports_within (csize e') (e_in e') /\ ports_within (csize e') (e_out e')).
Proof. intros R tb. exact (add_proc_ports R tb cfg_now eq_refl). Qed.
Print Assumptions C10_ports_sit_on_images_inside_the_circuit.

(* hence a mode created beyond the circuit for a new herald is never "occupied" *)
Theorem C10_new_herald_mode_is_free : forall n ports x, ports_within n ports -> n <= x -> free ports [x] = true.
Proof. exact within_free. Qed.
Print Assumptions C10_new_herald_mode_is_free.

(* historical: before 6d353ebc a two-mode port plugged through [1,0] on a 2-mode processor landed on modes [1,2] *)
Theorem C10_port_beyond_circuit_old_code : forall R : cring,
  let res := add_proc (fun _ A => A) cfg_old (new_exp (R:=R) 2) (MList [1%Z; 0%Z]) (stick_right R) true in
  snd (fst res) = true /\ ports_within 2 (e_out (stick_right R)) /\
  ~ ports_within (csize (fst (fst res))) (e_out (fst (fst res))).
Proof. exact port_beyond_circuit_old_code. Qed.
Print Assumptions C10_port_beyond_circuit_old_code.

(* ---- post-selection of the added processor ---- *)
(* right mode r leaves the segment on mode right_mode mn pv r = min + pv^-1[r]; the condition re-expressed in the new
   numbering evaluates on a state exactly as the original does on the state seen through that renumbering *)
Theorem C10_postselect_reexpressed : forall mn pv p s nR, ps_bound nR p ->
  ps_eval (ps_right mn pv p) s = ps_eval p (pullback (right_mode mn pv) nR s).
Proof. exact ps_right_eval. Qed.
Print Assumptions C10_postselect_reexpressed.

(* the code as it is now (cfg_now: shift by c_first, then permute inside the span; c0ab6b50) computes exactly that
   re-expression, for every mapping *)
Theorem C10_postselect_code_reexpresses : forall mn pv p s nR, ps_bound nR p ->
  ps_eval (ps_code (c_ps_shift_first cfg_now) mn pv p) s = ps_eval p (pullback (right_mode mn pv) nR s).
Proof. exact ps_code_now_eval. Qed.
Print Assumptions C10_postselect_code_reexpresses.

(* historical: the code before c0ab6b50 permuted with first = c_first and then shifted by c_first — refuted *)
Theorem C10_postselect_refuted_old_code : exists mn pv p s,
  permok pv /\ ps_eval (ps_code (c_ps_shift_first cfg_old) mn pv p) s <> ps_eval (ps_right mn pv p) s.
Proof. exact ps_code_old_refuted. Qed.
Print Assumptions C10_postselect_refuted_old_code.
Theorem C10_postselect_min0_old_code : forall pv p, is_identity pv = false ->
  ps_code (c_ps_shift_first cfg_old) 0 pv p = ps_right 0 pv p.
Proof. exact ps_code_old_min0. Qed.
Print Assumptions C10_postselect_min0_old_code.
Theorem C10_postselect_identity_old_code : forall mn pv p, is_identity pv = true ->
  ps_code (c_ps_shift_first cfg_old) mn pv p = ps_right mn pv p.
Proof. exact ps_code_old_identity. Qed.
Print Assumptions C10_postselect_identity_old_code.

(* ---- illegal mappings ---- *)
Theorem C10_consistency_check_exact : forall n conn m,
  check_consistency n conn m = true <->
  length m = n /\ (forall k v, In (k, v) m -> (0 <= k)%Z /\ conn k = true) /\ NoDup (map snd m).
Proof. exact check_consistency_iff. Qed.
Print Assumptions C10_consistency_check_exact.

Theorem C10_injective_mapping_passes_PERM : forall m, injective_onto m -> is_perm (perm_vect m) = true.
Proof. exact genperm_accepts. Qed.
Print Assumptions C10_injective_mapping_passes_PERM.
Theorem C10_non_permutation_refused : forall m, ~ permok (perm_vect m) -> is_perm (perm_vect m) = false.
Proof. exact genperm_rejects. Qed.
Print Assumptions C10_non_permutation_refused.

(* ---- unavailable modes: every cause x every mapping form ----
   unavailable e k : k is negative, beyond the circuit, heralded, or closed by a detector;
   names_mode lnames n mp k : the mapping mp (offset covering k, list containing k, dict entry k -> v, or dict entry by
   port / herald name whose modes include k) names the left mode k *)
Theorem C10_unavailable_is_exactly_not_connectible : forall (R : cring) (e : exp R) k,
  connectible e k = false <-> unavailable e k.
Proof. intros R. exact (@unavailable_iff R). Qed.
Print Assumptions C10_unavailable_is_exactly_not_connectible.

Theorem C10_component_on_unavailable_mode_rejected : forall (R : cring) tb cf (e : exp R) mp k Uc keep x,
  names_mode (left_names R e) k mp x -> unavailable e x -> add_comp tb cf e mp k Uc keep = (e, false, None).
Proof. exact add_comp_rejects_unavailable. Qed.
Print Assumptions C10_component_on_unavailable_mode_rejected.

Theorem C10_processor_on_unavailable_mode_rejected : forall (R : cring) tb cf (e : exp R) mp r keep x,
  names_mode (left_names R e) (e_moi r) mp x -> unavailable e x -> add_proc tb cf e mp r keep = (e, false, None).
Proof. exact add_proc_rejects_unavailable. Qed.
Print Assumptions C10_processor_on_unavailable_mode_rejected.

(* the heralded modes of the left-hand side: declared by add_herald, or appended by the plug of a heralded processor *)
Theorem C10_add_herald_makes_mode_heralded : forall (R : cring) (e e' : exp R) mode ex nm,
  add_herald e mode ex nm = (e', true) -> mode < length (e_types e) -> nth mode (e_types e') Classical = HeraldT.
Proof. exact add_herald_marks. Qed.
Print Assumptions C10_add_herald_makes_mode_heralded.

Theorem C10_appended_modes_are_heralded : forall (R : cring) tb cf (e : exp R) mp r keep e' seg j,
  add_proc tb cf e mp r keep = (e', true, seg) -> length (e_types e) = csize e ->
  csize e <= j < csize e + length (herald_modes r) -> nth j (e_types e') Classical = HeraldT.
Proof. exact add_proc_new_modes_heralded. Qed.
Print Assumptions C10_appended_modes_are_heralded.

Example C10_unavailable_causes_satisfiable : forall R : cring,
  let e := fst (add_herald (new_exp (R:=R) 3) 1 1 None) in
  unavailable e 1%Z /\ unavailable e 3%Z /\ unavailable e (-1)%Z /\ names_mode (left_names R e) 2 (MInt 0%Z) 1%Z.
Proof. intros R e. split. apply UHeralded. lia. reflexivity. split. apply UBeyond. lia. vm_compute. lia.
  split. apply UNegative. lia. exists 1. split. lia. reflexivity. Qed.
