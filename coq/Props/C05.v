(* C05 - Results depend on the current configuration only, never on call history.
   Models: coq/Model/CacheMachine.v (SLOS deployed state space, iterator cache, Simulator._evolve, MPS bond dimension).
   sstep R fixA fixB fixC = one public operation of the SLOS engine; (true, true, true) = the code as it is now (/repo
   commits 1c6530fa = A and B, f2cccc2b = C), (false, false, false) = the code before them.  Illegal operations (those that
   raise) leave the engine unchanged.  The main statements hold for ALL histories, vacuum inputs included.
   The statements about the code before the repairs are kept with the suffix _old_code / _before_C. *)
From PV Require Import Lib.QI Model.CacheMachine Proofs.CacheMachineP.

(* SLOS as it is: after ANY history a query returns what a fresh engine given the final configuration returns *)
Theorem C05_slos_history_free : forall (R : cring) (h : list (sop R)) (q : squery),
  sobs true true true (srun true true true h) q = sobs true true true (srun true true true (scanon (srun true true true h))) q.
Proof. exact repaired_history_free. Qed.
Print Assumptions C05_slos_history_free.

(* ... which is the closed form of the configuration, itself a fold of the history's mutators alone *)
Theorem C05_slos_is_spec : forall (R : cring) (h : list (sop R)) q m U st masks mask_n,
  cfg_fold R h = (Some (m, U), Some st, masks, mask_n) ->
  sobs true true true (srun true true true h) q = spec_obs R m U (inst_of masks mask_n (total st)) st q.
Proof. exact repaired_is_spec. Qed.
Print Assumptions C05_slos_is_spec.

(* the invariant itself: every cached array / path was built for the current configuration *)
Theorem C05_slos_coherent : forall (R : cring) (h : list (sop R)), Inv R (srun true true true h).
Proof. exact inv_run. Qed.
Print Assumptions C05_slos_coherent.

(* no level is built over an empty parent level: no native crash in any history *)
Theorem C05_slos_never_crashes : forall (R : cring) (h : list (sop R)), s_dead (srun true true true h) = false.
Proof. exact repaired_never_crashes. Qed.
Print Assumptions C05_slos_never_crashes.

(* ... and the native layer is never asked for an FSMap over a chain of levels that is not closed under removing a
   photon (the domain on which the machine's coefficients are the native ones) *)
Theorem C05_slos_chain_closed : forall (R : cring) (h : list (sop R)) st m U,
  s_in (srun true true true h) = Some st -> s_circ (srun true true true h) = Some (m, U) ->
  chain_closed m (firstn (S (total st)) (s_lv (srun true true true h))) = true.
Proof. exact repaired_chain_closed. Qed.
Print Assumptions C05_slos_chain_closed.

(* the code between 1c6530fa and f2cccc2b (A and B without C): vacuum input first under mask '2*' with n = 1, then |1,0>:
   crash, a fresh engine given the final configuration did not; with C (now) the same history does not crash *)
Theorem C05_slos_vacuum_first_refuted_before_C :
  s_dead (srun (R:=QI) true true false w_vacuum) = true /\
  s_dead (srun (R:=QI) true true false (scanon (srun true true false w_vacuum))) = false /\
  s_dead (srun (R:=QI) true true true w_vacuum) = false.
Proof. exact vacuum_first_refuted_before_C. Qed.
Print Assumptions C05_slos_vacuum_first_refuted_before_C.

(* the code before 1c6530fa: four witnesses *)
Theorem C05_slos_refuted_old_code :
  Forall (photonic (R:=QI)) w_growth /\ Forall (photonic (R:=QI)) w_shrink /\
  Forall (photonic (R:=QI)) w_remask /\ Forall (photonic (R:=QI)) w_crash /\
  differs_from_fresh w_growth (QAmp [1; 1]%nat) = true /\ differs_from_fresh w_growth QDist = true /\
  differs_from_fresh w_shrink QDist = true /\ differs_from_fresh w_shrink (QAmp [0; 1]%nat) = true /\
  differs_from_fresh w_remask QDist = true /\
  s_dead (srun (R:=QI) false false false w_crash) = true /\
  s_dead (srun (R:=QI) false false false (scanon (srun false false false w_crash))) = false.
Proof. exact faithful_refuted. Qed.
Print Assumptions C05_slos_refuted_old_code.
Theorem C05_slos_refuted_neq_old_code : exists (h : list (sop QI)) q, Forall (photonic (R:=QI)) h /\
  sobs false false false (srun false false false h) q <> sobs false false false (srun false false false (scanon (srun false false false h))) q.
Proof. exact faithful_refuted_neq. Qed.
Print Assumptions C05_slos_refuted_neq_old_code.
(* the code before 1c6530fa was already history-free on histories without set_mask / clear_mask and without vacuum inputs *)
Theorem C05_slos_no_mask_old_code : forall (R : cring) (h : list (sop R)) q,
  Forall (no_mask_op R) h -> Forall (photonic (R:=R)) h ->
  sobs false false false (srun false false false h) q = sobs false false false (srun false false false (scanon (srun false false false h))) q.
Proof. exact faithful_no_mask_history_free. Qed.
Print Assumptions C05_slos_no_mask_old_code.
Example C05_no_mask_hypotheses_satisfiable : exists h : list (sop QI),
  Forall (no_mask_op QI) h /\ Forall (photonic (R:=QI)) h /\ length h = 4%nat.
Proof. exact partial_hypotheses_satisfiable. Qed.

(* keyed caches: if every entry that survives a mutator is still valid afterwards (a per-operation check of the
   invalidation policy), then in ALL histories a query returns what a computation under the current configuration
   depends on *)
Theorem C05_keyed_cache_history_free : forall (Cfg Key Dep Op : Type) (key_eqb : Key -> Key -> bool),
  (forall a b, key_eqb a b = true -> a = b) ->
  forall (cstep : Cfg -> Op -> Cfg) (survives : Cfg -> Op -> Key -> Dep -> bool) (dep : Cfg -> Key -> Dep) (ready : Cfg -> bool),
  (forall c o k d, ready c = true -> d = dep c k -> survives c o k d = true ->
     ready (cstep c o) = true /\ d = dep (cstep c o) k) ->
  forall c0 h k d,
  snd (kstep Cfg Key Dep Op key_eqb cstep survives dep ready (krun Cfg Key Dep Op key_eqb cstep survives dep ready c0 h) (KQuery k)) = Some d ->
  d = dep (fst (krun Cfg Key Dep Op key_eqb cstep survives dep ready c0 h)) k.
Proof. exact keyed_query_fresh. Qed.
Print Assumptions C05_keyed_cache_history_free.
Theorem C05_iterator_cache_history_free : forall h k d,
  snd (kstep _ _ _ _ Nat.eqb it_cstep it_survives it_dep it_ready (krun _ _ _ _ Nat.eqb it_cstep it_survives it_dep it_ready it_init h) (KQuery k)) = Some d ->
  d = it_dep (fst (krun _ _ _ _ Nat.eqb it_cstep it_survives it_dep it_ready it_init h)) k.
Proof. exact iterator_cache_history_free. Qed.
Print Assumptions C05_iterator_cache_history_free.
(* Simulator._evolve, entries keyed (state, n): whatever the history, a cached evolution was computed for the current
   circuit, heralds and mask usability (init_use_mask drops the cache when the usability flips, /repo 8766d55d) *)
Theorem C05_simulator_evolve_cache_history_free : forall c0 h k d,
  snd (kstep _ _ _ _ sn_eqb sim_cstep (sim_survives true) sim_dep sim_ready (krun _ _ _ _ sn_eqb sim_cstep (sim_survives true) sim_dep sim_ready c0 h) (KQuery k)) = Some d ->
  d = sim_dep (fst (krun _ _ _ _ sn_eqb sim_cstep (sim_survives true) sim_dep sim_ready c0 h)) k.
Proof. exact simulator_evolve_cache_history_free. Qed.
Print Assumptions C05_simulator_evolve_cache_history_free.
(* before 8766d55d: set_circuit; set_heralds; probs_svd (PNR: mask used) caches (|1,1>, 2); probs_svd (threshold: mask not
   usable) finds the entry computed under the mask; with the invalidation it is recomputed *)
Theorem C05_simulator_evolve_cache_refuted_old_code :
  snd (kstep _ _ _ _ sn_eqb sim_cstep (sim_survives false) sim_dep sim_ready
         (krun _ _ _ _ sn_eqb sim_cstep (sim_survives false) sim_dep sim_ready sim_init w_sim_flip) (KQuery ([1; 1]%nat, 2%nat)))
    = Some (1%nat, 1%nat, true) /\
  sim_dep (fst (krun _ _ _ _ sn_eqb sim_cstep (sim_survives false) sim_dep sim_ready sim_init w_sim_flip)) ([1; 1]%nat, 2%nat)
    = (1%nat, 1%nat, false) /\
  snd (kstep _ _ _ _ sn_eqb sim_cstep (sim_survives true) sim_dep sim_ready
         (krun _ _ _ _ sn_eqb sim_cstep (sim_survives true) sim_dep sim_ready sim_init w_sim_flip) (KQuery ([1; 1]%nat, 2%nat)))
    = Some (1%nat, 1%nat, false).
Proof. exact simulator_evolve_cache_old_code. Qed.
Print Assumptions C05_simulator_evolve_cache_refuted_old_code.
(* the unconditioned queries of the Simulator - probs(BasicState), probability, prob_amplitude - are computed without
   a mask whatever an earlier probs_svd left in the engine; evolve under the mask its own configuration determines.
   Before bc7ab4f9 (probs) and 7e0f70ac (probability, prob_amplitude) they ran under the leftover mask. *)
Theorem C05_simulator_queries_unmasked : forall h q,
  snd (simm_step true true (simm_run true true h) (SmQuery q)) = Some (simm_fresh (simm_run true true h) q).
Proof. exact simulator_queries_unmasked. Qed.
Print Assumptions C05_simulator_queries_unmasked.
Theorem C05_simulator_probs_unmasked : forall h,
  snd (simm_step true true (simm_run true true h) (SmQuery SqProbs)) = Some None /\
  snd (simm_step true true (simm_run true true h) (SmQuery SqProbability)) = Some None /\
  snd (simm_step true true (simm_run true true h) (SmQuery SqProbAmplitude)) = Some None.
Proof. exact simulator_unconditioned_unmasked. Qed.
Print Assumptions C05_simulator_probs_unmasked.
Theorem C05_simulator_probs_refuted_old_code :
  snd (simm_step false false (simm_run false false [SmHeralds 1; SmProbsSvd 1 true]) (SmQuery SqProbs)) = Some (Some (1%nat, 1%nat)) /\
  snd (simm_step true false (simm_run true false [SmHeralds 1; SmProbsSvd 2 true]) (SmQuery SqProbability)) = Some (Some (1%nat, 2%nat)) /\
  snd (simm_step true false (simm_run true false [SmHeralds 1; SmProbsSvd 2 true]) (SmQuery SqProbAmplitude)) = Some (Some (1%nat, 2%nat)) /\
  snd (simm_step false false (simm_run false false [SmHeralds 1]) (SmQuery SqProbs)) = Some None.
Proof. exact simulator_probs_old_code. Qed.
Print Assumptions C05_simulator_probs_refuted_old_code.

(* MPS: the bond dimension is now chosen per compilation from the requested cutoff (mps_run true); before 3d5f407f it
   depended on earlier inputs *)
Theorem C05_mps_history_free : forall h n, mps_n (mps_run true h) = Some n ->
  mps_cut (mps_run true h) = mps_fresh (mps_run true h).
Proof. exact mps_repaired_history_free. Qed.
Print Assumptions C05_mps_history_free.
Theorem C05_mps_refuted_old_code :
  mps_cut (mps_run false [MpsCirc 4; MpsIn 3; MpsIn 2]) = Some 4%nat /\
  mps_fresh (mps_run false [MpsCirc 4; MpsIn 3; MpsIn 2]) = Some 3%nat.
Proof. exact mps_refuted. Qed.
Print Assumptions C05_mps_refuted_old_code.
Theorem C05_mps_same_input_old_code : forall m n k,
  mps_cut (mps_run false (MpsCirc m :: repeat (MpsIn n) (S k))) = Some (mps_clamp None m n).
Proof. exact mps_partial_same_input. Qed.
Print Assumptions C05_mps_same_input_old_code.
