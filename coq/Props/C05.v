(* C05 - Results depend on the current configuration only, never on call history.
   Models: coq/Model/CacheMachine.v (SLOS deployed state space, iterator cache, Simulator._evolve, MPS bond dimension).
   sstep R fixA fixB = one public operation of the SLOS engine; (false, false) = the code as it is, (true, true) = with
   the two repairs proposed in known_findings.json.  Illegal operations (those that raise) leave the engine unchanged;
   [photonic] = input states carry at least one photon.

   The full statement for the code as it is,
       forall h q, sobs false false (srun false false h) q = sobs false false (srun false false (scanon (srun false false h))) q,
   is FALSE: C05_slos_faithful_refuted gives four histories (photon number growing / shrinking under a kept mask string,
   set_mask after set_input_state, and an empty level under a mask followed by a larger input = native crash). *)
From PV Require Import Lib.QI Model.CacheMachine Proofs.CacheMachineP.

(* the repaired SLOS engine: after ANY history a query returns what a fresh engine given the final configuration returns *)
Theorem C05_slos_repaired_history_free : forall (R : cring) (h : list (sop R)) (q : squery),
  Forall (photonic (R:=R)) h ->
  sobs true true (srun true true h) q = sobs true true (srun true true (scanon (srun true true h))) q.
Proof. exact repaired_history_free. Qed.
Print Assumptions C05_slos_repaired_history_free.

(* ... which is the closed form of the configuration, itself a fold of the history's mutators alone *)
Theorem C05_slos_repaired_is_spec : forall (R : cring) (h : list (sop R)) q m U st masks mask_n,
  Forall (photonic (R:=R)) h -> cfg_fold R h = (Some (m, U), Some st, masks, mask_n) ->
  sobs true true (srun true true h) q = spec_obs R m U (inst_of masks mask_n (total st)) st q.
Proof. exact repaired_is_spec. Qed.
Print Assumptions C05_slos_repaired_is_spec.

(* the invariant itself: every cached array / path of the repaired engine was built for the current configuration *)
Theorem C05_slos_repaired_coherent : forall (R : cring) (h : list (sop R)),
  Forall (photonic (R:=R)) h -> Inv R (srun true true h).
Proof. exact inv_run. Qed.
Print Assumptions C05_slos_repaired_coherent.

(* the repaired engine never builds a level over an empty parent level: no native crash in any history *)
Theorem C05_slos_repaired_never_crashes : forall (R : cring) (h : list (sop R)),
  Forall (photonic (R:=R)) h -> s_dead (srun true true h) = false.
Proof. exact repaired_never_crashes. Qed.
Print Assumptions C05_slos_repaired_never_crashes.

(* ... and never asks the native layer for an FSMap over a chain of levels that is not closed under removing a photon
   (the domain on which the machine's coefficients are the native ones; outside it the native result is unspecified) *)
Theorem C05_slos_repaired_chain_closed : forall (R : cring) (h : list (sop R)) st m U,
  Forall (photonic (R:=R)) h -> s_in (srun true true h) = Some st -> s_circ (srun true true h) = Some (m, U) ->
  chain_closed m (firstn (S (total st)) (s_lv (srun true true h))) = true.
Proof. exact repaired_chain_closed. Qed.
Print Assumptions C05_slos_repaired_chain_closed.

(* the code as it is: four witnesses *)
Theorem C05_slos_faithful_refuted :
  Forall (photonic (R:=QI)) w_growth /\ Forall (photonic (R:=QI)) w_shrink /\
  Forall (photonic (R:=QI)) w_remask /\ Forall (photonic (R:=QI)) w_crash /\
  differs_from_fresh w_growth (QAmp [1; 1]%nat) = true /\ differs_from_fresh w_growth QDist = true /\
  differs_from_fresh w_shrink QDist = true /\ differs_from_fresh w_shrink (QAmp [0; 1]%nat) = true /\
  differs_from_fresh w_remask QDist = true /\
  s_dead (srun (R:=QI) false false w_crash) = true /\
  s_dead (srun (R:=QI) false false (scanon (srun false false w_crash))) = false.
Proof. exact faithful_refuted. Qed.
Print Assumptions C05_slos_faithful_refuted.
Theorem C05_slos_faithful_refuted_neq : exists (h : list (sop QI)) q, Forall (photonic (R:=QI)) h /\
  sobs false false (srun false false h) q <> sobs false false (srun false false (scanon (srun false false h))) q.
Proof. exact faithful_refuted_neq. Qed.
Print Assumptions C05_slos_faithful_refuted_neq.

(* the code as it is, on the complement that needs no repair: histories without set_mask / clear_mask *)
Theorem C05_slos_faithful_partial_no_mask : forall (R : cring) (h : list (sop R)) q,
  Forall (no_mask_op R) h -> Forall (photonic (R:=R)) h ->
  sobs false false (srun false false h) q = sobs false false (srun false false (scanon (srun false false h))) q.
Proof. exact faithful_no_mask_history_free. Qed.
Print Assumptions C05_slos_faithful_partial_no_mask.
Example C05_partial_hypotheses_satisfiable : exists h : list (sop QI),
  Forall (no_mask_op QI) h /\ Forall (photonic (R:=QI)) h /\ length h = 4%nat.
Proof. exact partial_hypotheses_satisfiable. Qed.

(* keyed caches: if every entry that survives a mutator is still valid afterwards (a per-operation check of the
   invalidation policy), then in ALL histories a query returns what a computation under the current configuration
   depends on *)
Theorem C05_keyed_cache_history_free : forall (Cfg Key Dep Op : Type) (key_eqb : Key -> Key -> bool),
  (forall a b, key_eqb a b = true -> a = b) ->
  forall (cstep : Cfg -> Op -> Cfg) (survives : Cfg -> Op -> Key -> Dep -> bool) (dep : Cfg -> Key -> Dep) (ready : Cfg -> bool),
  (forall c o k d, ready c = true -> d = dep c k -> survives c o k d = true ->
     ready (cstep c o) = true /\ d = dep (cstep c o) k) ->
  forall c0 h k d,
  snd (kstep Cfg Key Dep Op key_eqb cstep survives dep ready (krun Cfg Key Dep Op key_eqb cstep survives dep ready c0 h) (KQuery k)) = Some d ->
  d = dep (fst (krun Cfg Key Dep Op key_eqb cstep survives dep ready c0 h)) k.
Proof. exact keyed_query_fresh. Qed.
Print Assumptions C05_keyed_cache_history_free.
(* AStrongSimulationBackend._cache_iterator (Naive, SLAP, MPS): the cached output states of photon number k were
   enumerated for the current circuit size and the current mask instance *)
Theorem C05_iterator_cache_history_free : forall h k d,
  snd (kstep _ _ _ _ Nat.eqb it_cstep it_survives it_dep it_ready (krun _ _ _ _ Nat.eqb it_cstep it_survives it_dep it_ready it_init h) (KQuery k)) = Some d ->
  d = it_dep (fst (krun _ _ _ _ Nat.eqb it_cstep it_survives it_dep it_ready it_init h)) k.
Proof. exact iterator_cache_history_free. Qed.
Print Assumptions C05_iterator_cache_history_free.
(* Simulator._evolve, entries keyed (state, n): computed for the current circuit and heralds *)
Theorem C05_simulator_evolve_cache_history_free : forall c0 h k d,
  snd (kstep _ _ _ _ sn_eqb sim_cstep sim_survives sim_dep sim_ready (krun _ _ _ _ sn_eqb sim_cstep sim_survives sim_dep sim_ready c0 h) (KQuery k)) = Some d ->
  d = sim_dep (fst (krun _ _ _ _ sn_eqb sim_cstep sim_survives sim_dep sim_ready c0 h)) k.
Proof. exact simulator_evolve_cache_history_free. Qed.
Print Assumptions C05_simulator_evolve_cache_history_free.
(* Simulator.probs(BasicState) evolves under the mask a previous probs_svd left in the engine *)
Theorem C05_simulator_probs_refuted :
  snd (simm_step (simm_run [SmHeralds 1; SmProbsSvd 1 true]) SmProbs) = Some (Some (1%nat, 1%nat)) /\
  snd (simm_step (simm_run [SmHeralds 1]) SmProbs) = Some None.
Proof. exact simulator_probs_refuted. Qed.
Print Assumptions C05_simulator_probs_refuted.

(* MPS: the stored bond dimension depends on earlier inputs; computed per compilation it does not *)
Theorem C05_mps_refuted :
  mps_cut (mps_run false [MpsCirc 4; MpsIn 3; MpsIn 2]) = Some 4%nat /\
  mps_fresh (mps_run false [MpsCirc 4; MpsIn 3; MpsIn 2]) = Some 3%nat.
Proof. exact mps_refuted. Qed.
Print Assumptions C05_mps_refuted.
Theorem C05_mps_repaired_history_free : forall h n, mps_n (mps_run true h) = Some n ->
  mps_cut (mps_run true h) = mps_fresh (mps_run true h).
Proof. exact mps_repaired_history_free. Qed.
Print Assumptions C05_mps_repaired_history_free.
Theorem C05_mps_partial_same_input : forall m n k,
  mps_cut (mps_run false (MpsCirc m :: repeat (MpsIn n) (S k))) = Some (mps_clamp None m n).
Proof. exact mps_partial_same_input. Qed.
Print Assumptions C05_mps_partial_same_input.
