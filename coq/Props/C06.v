(* C06 — The photon source model has the statistics its parameters promise.
   Model: coq/Model/Source.v (Source._get_probs, _generate_one_photon_distribution, probability_distribution,
   generate_distribution, _compute_prob_table, the per-photon law of _events_to_samples, Source.from_noise_model).
   The square roots the code takes are parameters rt, si of the model with rt^2 = 1 - 2 px g2 and si^2 = ind
   among the hypotheses ("admissible").  All statements are for ALL admissible rational parameters, all tag-counter
   values and all expected inputs. *)
From PV Require Import Model.Source Proofs.SourceP Proofs.SourceTableP.
Open Scope Qc_scope.

(* the hypotheses are satisfiable: brightness 4/5, g2 9/40, indistinguishability 81/100, transmittance 3/4 *)
Example C06_admissible_inhabited : admissible example_source.
Proof. exact example_admissible. Qed.
Print Assumptions C06_admissible_inhabited.

(* emission law (p0, p1, p2): emission probability = brightness *)
Theorem C06_emission_is_brightness : forall P, p1 P + p2 P = px P.
Proof. exact emission_is_brightness. Qed.
Print Assumptions C06_emission_is_brightness.

(* second-order autocorrelation of the emitted light = g2 (closed form of _get_probs, root supplied) *)
Theorem C06_g2_identity : forall P, rt P * rt P = 1 - q2 * px P * g2 P -> px P <> 0 ->
  q2 * p2 P / ((p1 P + q2 * p2 P) * (p1 P + q2 * p2 P)) = g2 P.
Proof. exact g2_identity. Qed.
Print Assumptions C06_g2_identity.

(* all weights of the one-photon distribution are probabilities (>= 0) ... *)
Theorem C06_one_photon_nonneg : forall P c, admissible P -> Forall (fun e => 0 <= snd e) (one_photon_entries P c).
Proof. exact one_photon_entries_nonneg. Qed.
Print Assumptions C06_one_photon_nonneg.

(* ... and they sum to one (after the code's "probability > 0" trimming) *)
Theorem C06_one_photon_normalised : forall P c, admissible P -> mass (fst (one_photon P c)) = 1.
Proof. exact one_photon_normalised. Qed.
Print Assumptions C06_one_photon_normalised.

(* photon-number marginal of one requested photon = binomial thinning of (1-px, p1, p2) by the transmittance eta *)
Theorem C06_photon_number_law : forall P c, admissible P ->
  nmass 2 (fst (one_photon P c)) = eta P * eta P * p2 P /\
  nmass 1 (fst (one_photon P c)) = eta P * p1 P + q2 * eta P * (1 - eta P) * p2 P /\
  nmass 0 (fst (one_photon P c)) = (1 - px P) + (1 - eta P) * p1 P + (1 - eta P) * (1 - eta P) * p2 P.
Proof. exact photon_number_law. Qed.
Print Assumptions C06_photon_number_law.

(* n requested photons in one mode, and the whole input: normalised, for every expected input state *)
Theorem C06_mode_distribution_normalised : forall P c n, admissible P -> mass (fst (prob_dist P c n)) = 1.
Proof. exact prob_dist_normalised. Qed.
Print Assumptions C06_mode_distribution_normalised.

Theorem C06_input_distribution_normalised : forall P c input, admissible P ->
  mass (fst (generate_distribution P c input)) = 1 /\
  fst (generate_distribution P c input) = fst (raw_distribution P c input).
Proof. exact generate_distribution_normalised. Qed.
Print Assumptions C06_input_distribution_normalised.

(* a perfect source returns the requested state unchanged *)
Theorem C06_perfect_source_identity : forall P c input, is_perfect P = true ->
  generate_distribution P c input = ([(map (fun n => repeat O n) input, 1)], c).
Proof. exact perfect_source_identity. Qed.
Print Assumptions C06_perfect_source_identity.

(* NoiseModel -> Source: brightness, g2, indistinguishability, transmittance (eta), model flag; defaults = perfect *)
Theorem C06_from_noise_model_fields : forall b i g gd t r s,
  let P := from_noise b i g gd t r s in
  px P = dflt b 1 /\ g2 P = dflt g 0 /\ ind P = dflt i 1 /\ eta P = dflt t 1 /\ dmodel P = dflt gd true.
Proof. exact from_noise_fields. Qed.
Print Assumptions C06_from_noise_model_fields.

(* the two implementations of the per-photon law (distribution builder / event sampler) agree on every class of
   annotation lists up to renaming of the non-zero tags, and the classes listed are all that occur *)
Theorem C06_event_law_matches_builder : forall P c, admissible P -> forall key, In key classes ->
  cmass key (one_photon_entries P c) = cmass key (map forget (event_law P c)).
Proof. exact event_law_matches_builder. Qed.
Print Assumptions C06_event_law_matches_builder.

Theorem C06_laws_classes_complete : forall P c,
  Forall (fun e => In (canon1 (fst e)) classes) (one_photon_entries P c) /\
  Forall (fun e => In (canon1 (fst e)) classes) (map forget (event_law P c)).
Proof. exact laws_classes_complete. Qed.
Print Assumptions C06_laws_classes_complete.

(* two signal photons (of two different requested photons) share a tag with probability = indistinguishability *)
Theorem C06_tag_sharing : forall P c1 c2, si P * si P = ind P -> c1 <> c2 ->
  pair_mass share_tag (event_law P c1) (event_law P c2) =
  ind P * pair_mass both_signal (event_law P c1) (event_law P c2).
Proof. exact tag_sharing. Qed.
Print Assumptions C06_tag_sharing.

(* the event table: entries are the multinomial probabilities T; T obeys the independent-draws recurrence;
   every event of non-zero probability passing the filter is present; without filter the table sums to one *)
Theorem C06_table_entries : forall P n f i j k v, In ((i, j, k), v) (raw_table P n f) ->
  v = T P n i j k /\ (i + j + k <= n)%nat /\ (f <= i + j + 2 * k)%nat.
Proof. exact table_entries. Qed.
Print Assumptions C06_table_entries.

Theorem C06_table_complete : forall P n f i j k, (f <= i + j + 2 * k)%nat -> T P n i j k <> 0 ->
  In ((i, j, k), T P n i j k) (raw_table P n f).
Proof. exact table_complete. Qed.
Print Assumptions C06_table_complete.

Theorem C06_table_recurrence : forall P n i j k,
  T P (S n) i j k = p_signal P * predT (fun i' => T P n i' j k) i
                  + p_g2 P * predT (fun j' => T P n i j' k) j
                  + p_duo P * predT (fun k' => T P n i j k') k
                  + p_none P * T P n i j k.
Proof. exact table_recurrence. Qed.
Print Assumptions C06_table_recurrence.

Theorem C06_table_sums_to_one : forall P n, mass (raw_table P n 0) = 1.
Proof. exact table_sums_to_one. Qed.
Print Assumptions C06_table_sums_to_one.

(* the filter: physical performance = mass of the multinomial law on the kept events; the table is the restriction
   divided by it (hence of mass one); zero-photon probability p0^n *)
Theorem C06_table_kept_mass : forall P n f,
  mass (raw_table P n f) = S3 (S n) (fun i j k => if (f <=? i + j + 2 * k)%nat then T P n i j k else 0).
Proof. exact table_kept_mass. Qed.
Print Assumptions C06_table_kept_mass.

Theorem C06_table_conditioning : forall P n f,
  let '(t, phys, zpp) := prob_table P n f in
  phys = mass (raw_table P n f) /\ zpp = p_none P ^ n /\
  (f = 0%nat -> t = raw_table P n 0 /\ phys = 1) /\
  (f <> 0%nat -> t = map (fun e => (fst e, snd e / phys)) (raw_table P n f) /\ (phys <> 0 -> mass t = 1)).
Proof. exact table_conditioning. Qed.
Print Assumptions C06_table_conditioning.

(* conditioning the input distribution on "at least f photons" (the specification the filtered sampler is tested
   against): restriction, divided by the kept mass, of mass one *)
Theorem C06_condition_renormalises : forall f (d : dist state),
  let '(k, m) := Source.condition f d in
  m = mass (filter (fun e => (f <=? nphotons (fst e))%nat) d) /\
  k = map (fun e => (fst e, snd e / m)) (filter (fun e => (f <=? nphotons (fst e))%nat) d) /\
  (m <> 0 -> mass k = 1).
Proof. exact condition_renormalises. Qed.
Print Assumptions C06_condition_renormalises.

(* the cache of the event table (keyed on photon count AND filter): whatever filtered sampling calls were made before
   on the same Source, the table used for a request (n, f) is the table of (n, f) *)
Theorem C06_cache_history_independent : forall P h n f,
  tc_val (cache_request P (cache_run P None h) n f) = prob_table P n f.
Proof. exact cache_history_independent. Qed.
Print Assumptions C06_cache_history_independent.

(* ------------------------------------------------------------------------------------------------------------------
   The all-n link between the event table / event sampler and the distribution builder (Proofs/SourceTableP.v).
   E l phi = sum over the entries (a, w) of l of w * phi a; list_sum input = number of requested photons. *)

(* T1: photon-number marginal of the builder's distribution = mass of the table on the events giving N photons,
   for every input (any photons per mode, any number of modes) *)
Theorem C06_builder_number_law : forall P c input N, admissible P ->
  mass (filter (fun e => (nphotons (fst e) =? N)%nat) (fst (raw_distribution P c input))) =
  S3 (S (list_sum input)) (fun i j k => if (i + j + 2 * k =? N)%nat then T P (list_sum input) i j k else 0).
Proof. exact builder_number_law. Qed.
Print Assumptions C06_builder_number_law.

(* ... for every test function of the photon number *)
Theorem C06_builder_number_table : forall P c input, admissible P -> forall g : nat -> Qc,
  E (fst (raw_distribution P c input)) (fun s => g (nphotons s)) =
  S3 (S (list_sum input)) (fun i j k => T P (list_sum input) i j k * g (i + j + 2 * k)%nat).
Proof. exact builder_number_table. Qed.
Print Assumptions C06_builder_number_table.

(* T2: physical performance returned by _compute_prob_table(sum input, f) = mass that generate_distribution(input)
   puts on the states with at least f photons — for all inputs and filters (the driver's per-instance comparison) *)
Theorem C06_table_matches_distribution : forall P c input f, admissible P ->
  snd (fst (prob_table P (list_sum input) f)) = snd (Source.condition f (fst (generate_distribution P c input))).
Proof. exact table_matches_distribution. Qed.
Print Assumptions C06_table_matches_distribution.

Example C06_table_matches_distribution_example :
  snd (fst (prob_table example_source 3 2)) =
    snd (Source.condition 2 (fst (generate_distribution example_source 0 [1; 2]%nat))) /\
  snd (fst (prob_table example_source 3 2)) = qq 1199 1728 /\
  snd (Source.condition 2 (fst (generate_distribution example_source 0 [1; 2]%nat))) = qq 1199 1728.
Proof. exact table_matches_distribution_example. Qed.
Print Assumptions C06_table_matches_distribution_example.

(* T3: the distribution the event sampler draws from (one event_law draw per requested photon, merged into modes like
   the input: sampler_distribution) and the builder's distribution give the same joint law to the vector
   (photons, photons tagged 0) per mode — any test function g — and leave the tag counter in the same place *)
Theorem C06_builder_matches_sampler : forall P c input, admissible P ->
  (forall g : list (nat * nat) -> Qc,
     E (fst (raw_distribution P c input)) (fun s => g (map lz s)) =
     E (fst (sampler_distribution P c input)) (fun s => g (map lz s))) /\
  snd (raw_distribution P c input) = snd (sampler_distribution P c input).
Proof. exact builder_matches_sampler. Qed.
Print Assumptions C06_builder_matches_sampler.

(* ... the same after conditioning on "at least f photons": same kept mass, same conditioned law *)
Theorem C06_conditioned_builder_matches_sampler : forall P c input f, admissible P ->
  snd (Source.condition f (fst (generate_distribution P c input))) =
  snd (Source.condition f (fst (sampler_distribution P c input))) /\
  forall g : list (nat * nat) -> Qc,
    E (fst (Source.condition f (fst (generate_distribution P c input)))) (fun s => g (map lz s)) =
    E (fst (Source.condition f (fst (sampler_distribution P c input)))) (fun s => g (map lz s)).
Proof. exact conditioned_builder_matches_sampler. Qed.
Print Assumptions C06_conditioned_builder_matches_sampler.

(* in every state of either distribution each non-zero tag occurs once: the vector of T3 determines a state up to an
   injective renaming of the non-zero tags (and the order inside a mode) *)
Theorem C06_all_tags_distinct : forall P c input,
  Forall (fun e => NoDup (nz (concat (fst e)))) (fst (generate_distribution P c input)) /\
  Forall (fun e => NoDup (nz (concat (fst e)))) (fst (sampler_distribution P c input)).
Proof. exact all_tags_distinct. Qed.
Print Assumptions C06_all_tags_distinct.

Example C06_builder_matches_sampler_example :
  length (fst (generate_distribution example_source 0 [1; 2]%nat)) = 125%nat /\
  length (fst (sampler_distribution example_source 0 [1; 2]%nat)) = 216%nat /\
  mass (filter (fun e => example_event (map lz (fst e))) (fst (generate_distribution example_source 0 [1; 2]%nat))) = qq 208791 4000000 /\
  mass (filter (fun e => example_event (map lz (fst e))) (fst (sampler_distribution example_source 0 [1; 2]%nat))) = qq 208791 4000000 /\
  T example_source 3 1 1 0 = qq 253 12000.
Proof. exact builder_matches_sampler_example. Qed.
Print Assumptions C06_builder_matches_sampler_example.

(* the table is the count law of independent events: T_n(i,j,k) = probability that n = length cs independent draws of
   the per-event law contain i "signal alone", j "g2 alone", k "signal + g2" events (cs: any tag counters) *)
Theorem C06_table_is_event_count_law : forall P cs i j k,
  mass (filter (fun e => ((count k_sig (fst e) =? i) && (count k_g2 (fst e) =? j) && (count k_duo (fst e) =? k))%nat)
               (event_seq P cs)) = T P (length cs) i j k.
Proof. exact table_is_event_count_law. Qed.
Print Assumptions C06_table_is_event_count_law.

(* the sampler's distribution is the image of the law of the event sequences under "forget the event structure and
   merge the events of each mode" (imperfect source; a perfect one returns the expected input without drawing) ... *)
Theorem C06_sampler_is_event_image : forall P c input, is_perfect P = false -> forall phi : state -> Qc,
  E (fst (sampler_distribution P c input)) phi =
  E (event_seq P (counters P c (list_sum input))) (fun evs => phi (regroup input (map forget0 evs))).
Proof. exact sampler_is_event_image. Qed.
Print Assumptions C06_sampler_is_event_image.

(* ... and the table's filter (i + j + 2k >= f on the event counts) is the filter "at least f photons" on the image *)
Theorem C06_filter_commutes_with_image : forall P c input f, is_perfect P = false -> forall phi : state -> Qc,
  E (fst (sampler_distribution P c input)) (fun s => if (f <=? nphotons s)%nat then phi s else 0) =
  E (event_seq P (counters P c (list_sum input)))
    (fun evs => if passes f (count k_sig evs, count k_g2 evs, count k_duo evs)
                then phi (regroup input (map forget0 evs)) else 0).
Proof. exact filter_commutes_with_image. Qed.
Print Assumptions C06_filter_commutes_with_image.
