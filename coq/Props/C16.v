(* C16 — The job sent to the cloud describes exactly the processor the user built. *)
From Coq Require Import List ZArith Permutation.
From PV Require Import Model.Payload Proofs.PayloadP.
Import ListNotations.

(* For every platform and every processor configuration: an accepted prepare_job_payload yields a payload whose
   deserialisation is the configuration (circuit, full input, heralds, post-selection, noise, filter, command). *)
Theorem C16_payload_describes : forall pf p c pl, prepare pf p c = Ok pl -> describe pl = view_of p c.
Proof. exact prepare_describes. Qed.
Print Assumptions C16_payload_describes.

Example C16_payload_describes_satisfiable :
  exists pl, prepare (mkpf (Some 6) (Some 1) (Some 4) (Some 1) true false false)
     (mkproc (mkcirc 7 4 [0; 1; 2; 3] []) [] [] [(3, 1)] (Some [1; 0; 0; 1]) (Some [([0], (0, 1))]) (Some [(0, 500%Z)]) (Some 0) [[(0, None)]]) 0
     = Ok pl /\ lookup KHeralds pl = Some (VHer [(3, 1)]) /\ lookup KParams pl = Some (VParams [(0, Some 0%Z)]).
Proof. eexists. vm_compute. repeat split. Qed.

(* the minimum-photon filter of the request is the one the processor reports, by whatever route it got there (the
   setter, a LogicalState default, the experiment object, an assigned experiment, after clear_parameters, filter 0):
   prepare reads the processor's state, not the bookkeeping of the setter *)
Theorem C16_request_filter_is_processor_filter : forall pf p c pl, prepare pf p c = Ok pl ->
  exists d, lookup KParams pl = Some (VParams d) /\ dget d 0 = zf (p_filter p) /\ v_filter (describe pl) = p_filter p.
Proof. exact request_filter_is_processor_filter. Qed.
Print Assumptions C16_request_filter_is_processor_filter.

Example C16_filter_routes :
  let pf := mkpf None None None None true false false in
  let p0 := mkproc (mkcirc 7 2 [0; 1] []) [] [0; 1] [] None None None None [[(0, None)]] in
  (* LogicalState default, then clear_parameters, then a filter written on the experiment object *)
  forall p1 p2 p3, apply_op p0 (OInputLogical [1; 1]) = Ok p1 -> apply_op p1 OClearParams = Ok p2 ->
    apply_op p2 (OExpFilter (Some 0)) = Ok p3 ->
    (exists pl, prepare pf p1 0 = Ok pl /\ v_filter (describe pl) = Some 2) /\
    (exists pl, prepare pf p2 0 = Ok pl /\ v_filter (describe pl) = Some 2) /\
    (exists pl, prepare pf p3 0 = Ok pl /\ v_filter (describe pl) = Some 0).
Proof.
  cbn zeta. intros p1 p2 p3 H1 H2 H3. vm_compute in H1. inversion H1; subst; clear H1.
  vm_compute in H2. inversion H2; subst; clear H2. vm_compute in H3. inversion H3; subst; clear H3.
  repeat split; eexists; vm_compute; split; reflexivity.
Qed.

(* Platform size and photon-count constraints hold of whatever prepare accepts ... *)
Theorem C16_constraints_enforced : forall pf p c pl, prepare pf p c = Ok pl -> cons_ok pf (describe pl).
Proof. exact prepare_enforces. Qed.
Print Assumptions C16_constraints_enforced.

(* ... and nothing else is refused. *)
Theorem C16_prepare_accepts : forall pf p c,
  p_filter p <> None -> within (p_size p) (pf_minm pf) (pf_maxm pf) ->
  (forall st, p_in p = Some st -> length st = p_size p /\ length (remove_her (p_her p) 0 st) = msize p /\
       within (photons (p_her p) (remove_her (p_her p) 0 st)) (pf_minn pf) (pf_maxn pf)) ->
  exists pl, prepare pf p c = Ok pl.
Proof. exact prepare_accepts. Qed.
Print Assumptions C16_prepare_accepts.

(* max_samples is never above max_shots in a request that leaves execute_async *)
Theorem C16_samples_le_shots : forall j f it args kw r, exec_payload j f it args kw = Ok r -> le_ok r.
Proof. exact exec_le. Qed.
Print Assumptions C16_samples_le_shots.

(* the command is an available primitive; the requested method itself when available, otherwise the request
   carries the converter primitive -> method *)
Theorem C16_primitive_selection : forall pf m prim conv, select pf m = Some (prim, conv) ->
  avail pf prim = true /\ (avail pf m = true -> prim = m /\ conv = None) /\ (conv = None -> prim = m) /\
  (forall c, conv = Some c -> c = (prim, m) /\ avail pf m = false).
Proof. exact select_sound. Qed.
Print Assumptions C16_primitive_selection.

Theorem C16_no_primitive_iff_none_available : forall pf m, select pf m = None <->
  pf_probs pf = false /\ pf_sc pf = false /\ pf_samples pf = false.
Proof. exact select_none. Qed.
Print Assumptions C16_no_primitive_iff_none_available.

Theorem C16_request_names_converter : forall j f it args kw r, exec_payload j f it args kw = Ok r ->
  exists cm, handle_params (j_names j) (j_cmd j) (j_map j) args kw = Ok cm /\ ctx_of r = job_ctx (j_conv j) (snd cm).
Proof. exact exec_ctx. Qed.
Print Assumptions C16_request_names_converter.

(* a job created by the sampler describes the processor it was created from, within the platform constraints *)
Theorem C16_created_job_describes : forall pf p shots its gen m j, create_job pf p shots its gen m = Ok j ->
  job_ok pf j /\ j_built j = p /\ j_method j = m /\ j_done j = false /\ num_of KMaxShots (j_pl j) = Some (Some shots).
Proof. exact create_job_ok. Qed.
Print Assumptions C16_created_job_describes.

(* executing keeps command, circuit, input, heralds, post-selection and noise of the prepared payload ... *)
Theorem C16_execution_keeps_description : forall j f it args kw r, exec_payload j f it args kw = Ok r ->
  same_core (describe r) (describe (j_pl j)).
Proof. intros. apply describe_core. eapply exec_core. eassumption. Qed.
Print Assumptions C16_execution_keeps_description.

(* ... the filter and the iterator list are those of the execution time (shared sub-objects) *)
Theorem C16_filter_read_at_execution : forall j f it args kw r,
  lookup KParams (j_pl j) <> None -> exec_payload j f it args kw = Ok r -> lookup KParams r = Some (VParams f).
Proof. exact exec_filter_is_current. Qed.
Print Assumptions C16_filter_read_at_execution.

Theorem C16_iterator_read_at_execution : forall j f it args kw r, exec_payload j f it args kw = Ok r ->
  iter_of r = match lookup KIterator (j_pl j) with Some _ => it | None => [] end.
Proof. exact exec_iterator_is_current. Qed.
Print Assumptions C16_iterator_read_at_execution.

(* a job executed as created carries the filter the processor reported at creation *)
Theorem C16_fresh_job_filter : forall pf p shots its gen m j it args kw r,
  create_job pf p shots its gen m = Ok j ->
  exec_payload j (nth (j_pgen j) (p_pdicts (job_sync pf p its m)) []) it args kw = Ok r ->
  v_filter (describe r) = p_filter p.
Proof. exact fresh_job_filter. Qed.
Print Assumptions C16_fresh_job_filter.

(* argument routing *)
Theorem C16_keywords_routed_or_rejected : forall names cmd mapp args kw cmd' map',
  handle_params names cmd mapp args kw = Ok (cmd', map') ->
  forall k, dhas kw k = true -> In (k, dget kw k) cmd' \/ In (k, dget kw k) map'.
Proof. exact keywords_routed. Qed.
Print Assumptions C16_keywords_routed_or_rejected.

Example C16_keywords_routed_satisfiable :
  handle_params [0] [(0, None)] [] [] [(0, Some 700%Z)] = Ok ([(0, Some 700%Z)], []).
Proof. reflexivity. Qed.

Theorem C16_too_many_positional_rejected : forall names cmd mapp args kw,
  S (length names) < length args -> exists e w, handle_params names cmd mapp args kw = Err e w.
Proof. exact positional_overflow. Qed.
Print Assumptions C16_too_many_positional_rejected.

(* sessions: for ALL histories of processor operations, iterations, job creations and executions *)
Theorem C16_nothing_sent_before_execute : forall s e, is_exec e = false ->
  s_net (fst (step s e)) = s_net s /\ s_created (fst (step s e)) = s_created s.
Proof. intros s e H. apply (proj2 (proj2 (step_counts s e)) H). Qed.
Print Assumptions C16_nothing_sent_before_execute.

Theorem C16_one_request_per_execution : forall tr s,
  length (s_net (fst (run s tr))) = length (s_net s) + total sent_obs (snd (run s tr)) /\
  s_created (fst (run s tr)) = s_created s + total created_obs (snd (run s tr)).
Proof. exact run_counts. Qed.
Print Assumptions C16_one_request_per_execution.

(* one execution, whatever the server does with the request (accepts it, refuses it, or registers it and the answer is
   lost on the way back): at most one request reaches the server, at most one remote job exists afterwards *)
Theorem C16_one_execution_at_most_one_job : forall s k args kw answer,
  let s' := fst (step s (EExec k args kw answer)) in
  length (s_net s') <= S (length (s_net s)) /\ s_created s' <= S (s_created s) /\
  (s_created s' = S (s_created s) -> length (s_net s') = S (length (s_net s))).
Proof. exact exec_at_most_one. Qed.
Print Assumptions C16_one_execution_at_most_one_job.

(* the circuit of a request is the processor's circuit WITH its parameter values at job creation: a value set between
   two jobs is in the second job's request *)
Theorem C16_job_circuit_is_current : forall pf p shots its gen m j, create_job pf p shots its gen m = Ok j ->
  v_circ (describe (j_pl j)) = Some (p_circ p).
Proof. exact job_circuit_is_current. Qed.
Print Assumptions C16_job_circuit_is_current.

Theorem C16_job_after_set_value : forall pf p n v p' shots its gen m j,
  apply_op p (OParam n v) = Ok p' -> create_job pf p' shots its gen m = Ok j ->
  exists c, v_circ (describe (j_pl j)) = Some c /\ c_id c = c_id (p_circ p) /\ c_lab c = c_lab (p_circ p) /\
    c_vals c = vput n v (c_vals (p_circ p)).
Proof. exact job_after_set_value. Qed.
Print Assumptions C16_job_after_set_value.

(* every request received by the server, after any history that starts from a fresh Sampler: it describes the
   processor one of the created jobs was built from, respects the platform constraints, max_samples <= max_shots *)
Theorem C16_every_request_describes_and_respects : forall pf p shots s0 tr,
  init_sess pf p shots = Ok s0 ->
  Forall (req_ok pf (s_jobs (fst (run s0 tr)))) (s_net (fst (run s0 tr))).
Proof.
  intros pf p shots s0 tr H. destruct (init_inv _ _ _ _ H) as (I & P & _).
  destruct (run_inv tr s0 I) as [[_ N] E]. rewrite E, P in N. exact N.
Qed.
Print Assumptions C16_every_request_describes_and_respects.

Example C16_session_satisfiable :
  let pf := mkpf (Some 6) None (Some 4) None true false false in
  let p := mkproc (mkcirc 7 3 [0; 1; 2] []) [] [] [] (Some [1; 1; 0]) None None (Some 2) [[(0, Some 2%Z)]] in
  exists s0, init_sess pf p (Some 100%Z) = Ok s0 /\
    snd (run s0 [EJob MSampleCount; EExec 0 [Some 500%Z] [] 1]) = [ODone; OSent] /\
    length (s_net (fst (run s0 [EJob MSampleCount; EExec 0 [Some 500%Z] [] 1]))) = 1.
Proof. eexists. split; [reflexivity|]. vm_compute. split; reflexivity. Qed.

(* conversion of a local processor *)
Theorem C16_relabelling_is_a_permutation : forall lp, wf_her lp ->
  Permutation (map (sigma lp) (mode_order lp)) (seq 0 (p_size lp)) /\ length (mode_order lp) = p_size lp.
Proof. exact sigma_bijective. Qed.
Print Assumptions C16_relabelling_is_a_permutation.

Theorem C16_relabelling_keeps_mode_order : forall lp, NoDup (mode_order lp) ->
  map (sigma lp) (mode_order lp) = seq 0 (length (mode_order lp)).
Proof. exact sigma_order. Qed.
Print Assumptions C16_relabelling_keeps_mode_order.

Theorem C16_relabelling_identity_without_heralds : forall lp k, p_her lp = [] -> k < p_size lp -> sigma lp k = k.
Proof. exact sigma_id_without_heralds. Qed.
Print Assumptions C16_relabelling_identity_without_heralds.

(* conversion of ANY local processor (current code, repo commit 55925315): the circuit id, size, mode relabelling,
   heralds, post-selection, noise and filter are kept up to sigma, and the full input state is kept too: same photons
   on the modes of interest in the same order, the herald photons on the relabelled herald modes *)
Theorem C16_from_local_preserves : forall lp,
  wf_her lp -> msize lp <> 0 -> (forall st, p_in lp = Some st -> length st = p_size lp) ->
  exists rp, from_local lp = Ok rp /\ converted lp rp /\
    match p_in lp with
    | None => p_in rp = None
    | Some st => exists full, p_in rp = Some full /\ length full = p_size lp /\
        remove_her (p_her rp) 0 full = remove_her (p_her lp) 0 st /\
        (forall k v, her_find (p_her lp) k = Some v -> nth (sigma lp k) full 0 = v)
    end.
Proof. exact from_local_preserves. Qed.
Print Assumptions C16_from_local_preserves.

Example C16_from_local_preserves_satisfiable :
  from_local (mkproc (mkcirc 0 4 [0; 1; 2; 3] []) [] [] [(1, 1); (3, 0)] (Some [1; 1; 0; 0]) None None (Some 1) [[(0, Some 1%Z)]])
  = Ok (mkproc (mkcirc 0 4 [0; 2; 1; 3] []) [] [] [(2, 1); (3, 0)] (Some [1; 0; 1; 0]) None (Some []) (Some 1) [[(0, Some 1%Z)]]).
Proof. vm_compute. reflexivity. Qed.

(* historical: the code before that repair refused every processor that had a herald and an input ... *)
Theorem C16_from_local_preserves_refuted_old_code :
  exists lp, wf_her lp /\ msize lp <> 0 /\ (forall st, p_in lp = Some st -> length st = p_size lp) /\
    from_local_old_code lp = Err XAssert 1.
Proof. exact from_local_old_code_refuted. Qed.
Print Assumptions C16_from_local_preserves_refuted_old_code.

(* ... and was right on the complement *)
Theorem C16_from_local_preserves_partial_old_code : forall lp,
  msize lp <> 0 -> (forall st, p_in lp = Some st -> length st = p_size lp) ->
  p_her lp = [] \/ p_in lp = None ->
  exists rp, from_local_old_code lp = Ok rp /\ converted lp rp /\ p_in rp = p_in lp.
Proof. exact from_local_old_code_partial. Qed.
Print Assumptions C16_from_local_preserves_partial_old_code.

(* with_input (before or after conversion) stores the full state: the given photons on the modes of interest and
   the herald photons on the herald modes *)
Theorem C16_input_includes_herald_photons : forall p st p', wf_her p -> apply_op p (OInput st) = Ok p' ->
  exists full, p_in p' = Some full /\ length full = p_size p /\ remove_her (p_her p) 0 full = st /\
    (forall j v, j < p_size p -> her_find (p_her p) j = Some v -> nth j full 0 = v) /\ p_her p' = p_her p.
Proof. exact with_input_full. Qed.
Print Assumptions C16_input_includes_herald_photons.

Example C16_input_includes_herald_photons_satisfiable :
  apply_op (mkproc (mkcirc 0 4 [0; 1; 2; 3] []) [] [] [(1, 1); (0, 0)] None None None None [[(0, None)]]) (OInput [1; 0])
  = Ok (mkproc (mkcirc 0 4 [0; 1; 2; 3] []) [] [] [(1, 1); (0, 0)] (Some [0; 1; 1; 0]) None None None [[(0, None)]]).
Proof. reflexivity. Qed.
