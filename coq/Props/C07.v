(* C07 — A loss channel acts as independent photon loss at the point where it is placed. *)
From PV Require Import Model.Loss Proofs.LossP.

(* the circuit the implementation builds (PERM, BS.H on adjacent modes, inverse PERM, for every LC at any
   place) equals the enlarged lossless circuit of the statement: any interleaving, any modes, any sizes *)
Theorem C07_expanded_is_enlarged : forall (R : cring) M (l : list (lcomp R)) next, lwf R M next l ->
  meq M (oprod M (expanded M next l)) (oprod M (enlarged M next l)).
Proof. exact expanded_eq_enlarged. Qed.
Print Assumptions C07_expanded_is_enlarged.

Theorem C07_permuted_bs_is_distant_bs : forall (R : cring) M mode next (B : mat R),
  (S mode < next)%nat -> (next < M)%nat ->
  meq M (mmul M (pmat (swap_fun (S mode) next)) (mmul M (embed mode 2 B) (pmat (swap_fun (S mode) next))))
        (gate2 mode next B).
Proof. exact swap_conj. Qed.
Print Assumptions C07_permuted_bs_is_distant_bs.

(* photons entering through identical columns: the permanent is n! prod w_j^t_j *)
Theorem C07_rank_one_permanent : forall (R : cring) (U : mat R) m (w : nat -> R) cols,
  (forall k, In k cols -> forall j, (j < m)%nat -> U j k = w j) ->
  forall t, length t = m -> total t = length cols ->
  permS U m cols t = kmul (of_nat (fact (length cols))) (wpow R w 0 t).
Proof. exact perm_rank_one. Qed.
Print Assumptions C07_rank_one_permanent.

(* hence each photon crossing the channel is removed independently: binomial survival law *)
Theorem C07_binomial_survival : forall (R : cring) (c s : R) n k, (k <= n)%nat ->
  amp_num (loss_bs c s) 2 [n; 0%nat] [k; (n - k)%nat] = kmul (of_nat (fact n)) (kmul (kpow R c k) (kpow R s (n - k))).
Proof. exact bs_vacuum_binomial. Qed.
Print Assumptions C07_binomial_survival.

(* loss 0 (c = 1, s = 0) is the identity on the lossy mode; loss 1 (c = 0, s = 1) sends every photon out *)
Theorem C07_loss0_keeps_all : forall (R : cring) n,
  amp_num (loss_bs (k1 : R) k0) 2 [n; 0%nat] [n; 0%nat] = of_nat (fact n).
Proof. intros R n. rewrite <- (Nat.sub_diag n) at 3. rewrite bs_vacuum_binomial by lia.
  rewrite Nat.sub_diag. simpl. assert (H : kpow R k1 n = k1) by (induction n; simpl; [reflexivity | rewrite IHn; apply (Rmul_1_l (Kth R))]).
  rewrite H. rewrite (Rmul_1_l (Kth R)), (Rmul_comm (Kth R)), (Rmul_1_l (Kth R)). reflexivity. Qed.
Print Assumptions C07_loss0_keeps_all.
