(* C07 (extension) — a loss channel placed ANYWHERE in a circuit removes each photon crossing it
   independently: the Kraus-operator form on amplitude numerators.

   Circuit on m modes: A (before), loss channel on mode j < m, C (after).  The specification circuit
   ([enlarged], C07_expanded_is_enlarged) couples mode j to its own fresh vacuum mode m through
   loss_bs c s = [[c, s], [s, -c]]:
        W = (embed 0 m C) . gate2 j m (loss_bs c s) . (embed 0 m A)        on m + 1 modes.
   With  kraus c s n k = n (n-1) ... (n-k+1) c^(n-k) s^k  (written  binom n k * k! * c^(n-k) * s^k),
   subk u j k = u with k photons removed from mode j, and slos_coef A m s u = perm(A[u|s]) / prod u!
   (C02_slos_coefficient_is_permanent), for all inputs s, outputs t and numbers k of lost photons

        perm(W[t,k | s,0]) = sum over u (m modes, |s| photons, u_j >= k) of
                               perm(A[u|s]) / prod u!  *  kraus c s u_j k  *  perm(C[t | u - k e_j]),

   i.e. for normalised amplitudes <t,k|W|s,0> = sum_u <t|C|u - k e_j> sqrt(binom(u_j,k)) c^(u_j-k) s^k <u|A|s>:
   the k-th Kraus operator of independent loss acts at the place of the channel.
   Any commutative ring with conjugation, any m, any mode j (adjacent to the fresh mode or not), any photon numbers. *)
From PV Require Import Model.Loss Proofs.LossP Proofs.FockHomP Proofs.LossKrausP.

(* ---- (L3) the Kraus identity, mid-circuit ---- *)
Theorem C07ext_loss_kraus : forall (R : cring) (A C : mat R) m j (c s : R) (sI t : state) k,
  (j < m)%nat -> length sI = m -> length t = m ->
  amp_num (mmul (S m) (embed 0 m C) (mmul (S m) (gate2 j m (loss_bs c s)) (embed 0 m A))) (S m) (sI ++ [0%nat]) (t ++ [k]) =
  suml (allstates m (total sI)) (fun u =>
    if (k <=? nth j u 0%nat)%nat
    then kmul (kmul (slos_coef A m sI u) (kraus c s (nth j u 0%nat) k)) (amp_num C m (subk u j k) t)
    else k0).
Proof. exact loss_kraus. Qed.
Print Assumptions C07ext_loss_kraus.

(* the same, mode count written m + 1 *)
Theorem C07ext_loss_kraus_plus1 : forall (R : cring) (A C : mat R) m j (c s : R) (sI t : state) k,
  (j < m)%nat -> length sI = m -> length t = m ->
  amp_num (mmul (m + 1) (embed 0 m C) (mmul (m + 1) (gate2 j m (loss_bs c s)) (embed 0 m A))) (m + 1) (sI ++ [0%nat]) (t ++ [k]) =
  suml (allstates m (total sI)) (fun u =>
    if (k <=? nth j u 0%nat)%nat
    then kmul (kmul (slos_coef A m sI u) (kraus c s (nth j u 0%nat) k)) (amp_num C m (subk u j k) t)
    else k0).
Proof. exact loss_kraus_plus1. Qed.
Print Assumptions C07ext_loss_kraus_plus1.

(* the definition of the coefficient, for reference: binom n k * k! = n! / (n-k)! *)
Theorem C07ext_kraus_unfold : forall (R : cring) (c s : R) n k,
  kraus c s n k = kmul (of_nat (binom n k * fact k)) (kmul (kpow R c (n - k)) (kpow R s k)).
Proof. reflexivity. Qed.
Print Assumptions C07ext_kraus_unfold.
Theorem C07ext_binom_fact : forall n k, (k <= n)%nat -> (binom n k * (fact k * fact (n - k)) = fact n)%nat.
Proof. exact binom_fact. Qed.
Print Assumptions C07ext_binom_fact.

(* for any two-mode gate B between mode j and the fresh mode (only its first column matters) *)
Theorem C07ext_loss_kraus_any_gate : forall (R : cring) (A C B : mat R) m j (sI t : state) k,
  (j < m)%nat -> length sI = m -> length t = m ->
  amp_num (mmul (S m) (embed 0 m C) (mmul (S m) (gate2 j m B) (embed 0 m A))) (S m) (sI ++ [0%nat]) (t ++ [k]) =
  suml (allstates m (total sI)) (fun u =>
    if (k <=? nth j u 0%nat)%nat
    then kmul (kmul (slos_coef A m sI u) (kraus (B 0%nat 0%nat) (B 1%nat 0%nat) (nth j u 0%nat) k)) (amp_num C m (subk u j k) t)
    else k0).
Proof. exact loss_kraus_gate. Qed.
Print Assumptions C07ext_loss_kraus_any_gate.

(* with the division by prod u! written as a multiplication by an inverse w u (as C02ext_amp_hom_inverse) *)
Theorem C07ext_loss_kraus_inverse : forall (R : cring) (A C : mat R) m j (c s : R) (sI t : state) k (w : state -> R),
  (j < m)%nat -> length sI = m -> length t = m ->
  (forall u, In u (allstates m (total sI)) -> kmul (of_nat (factprod u)) (w u) = k1) ->
  amp_num (mmul (S m) (embed 0 m C) (mmul (S m) (gate2 j m (loss_bs c s)) (embed 0 m A))) (S m) (sI ++ [0%nat]) (t ++ [k]) =
  suml (allstates m (total sI)) (fun u =>
    if (k <=? nth j u 0%nat)%nat
    then kmul (kmul (kmul (amp_num A m sI u) (kraus c s (nth j u 0%nat) k)) (amp_num C m (subk u j k) t)) (w u)
    else k0).
Proof. exact loss_kraus_w. Qed.
Print Assumptions C07ext_loss_kraus_inverse.

(* the circuit of the statement, literally: [enlarged] of  A ; LC on mode j ; C  with fresh mode m *)
Theorem C07ext_loss_kraus_enlarged : forall (R : cring) (A C : mat R) m j (c s : R) (sI t : state) k,
  (j < m)%nat -> length sI = m -> length t = m ->
  amp_num (oprod (S m) (enlarged (S m) m [LU 0 m A; LLC j c s; LU 0 m C])) (S m) (sI ++ [0%nat]) (t ++ [k]) =
  suml (allstates m (total sI)) (fun u =>
    if (k <=? nth j u 0%nat)%nat
    then kmul (kmul (slos_coef A m sI u) (kraus c s (nth j u 0%nat) k)) (amp_num C m (subk u j k) t)
    else k0).
Proof. exact loss_kraus_enlarged. Qed.
Print Assumptions C07ext_loss_kraus_enlarged.

(* ---- (L1) a block on the first m modes: the photons of the untouched last mode stay there ---- *)
Theorem C07ext_block_leaves_last_mode : forall (R : cring) (U : mat R) m (u t : state) a b,
  length u = m -> length t = m ->
  amp_num (embed 0 m U) (S m) (u ++ [a]) (t ++ [b]) =
  if (a =? b)%nat then kmul (of_nat (fact a)) (amp_num U m u t) else k0.
Proof. exact amp_embed_last. Qed.
Print Assumptions C07ext_block_leaves_last_mode.
Theorem C07ext_block_leaves_last_mode_slos : forall (R : cring) (U : mat R) m cols,
  Forall (fun k => (k < m)%nat) cols -> forall b (u : state) a, length u = m ->
  slos (embed 0 m U) (S m) (cols ++ repeat m b) (u ++ [a]) = if (a =? b)%nat then slos U m cols u else k0.
Proof. exact slos_embed_last. Qed.
Print Assumptions C07ext_block_leaves_last_mode_slos.

(* ---- (L2) the two-mode gate on the distant modes j < m and m, vacuum in mode m: b photons go from j to m,
        nothing else moves; numerator (prod u!) B00^(u_j-b) B10^b = (factorials of the untouched modes) times the
        two-mode numerator u_j! c^(u_j-b) s^b of C07_binomial_survival ---- *)
Theorem C07ext_gate_acts_on_two_modes : forall (R : cring) (B : mat R) m j (u v : state) b,
  (j < m)%nat -> length u = m -> length v = m ->
  amp_num (gate2 j m B) (S m) (u ++ [0%nat]) (v ++ [b]) =
  if state_eqb v (subk u j b) && (b <=? nth j u 0%nat)%nat
  then kmul (of_nat (factprod u)) (kmul (kpow R (B 0%nat 0%nat) (nth j u 0%nat - b)) (kpow R (B 1%nat 0%nat) b))
  else k0.
Proof. exact amp_gate2_vacuum. Qed.
Print Assumptions C07ext_gate_acts_on_two_modes.
Theorem C07ext_gate_acts_on_two_modes_slos : forall (R : cring) (B : mat R) m j (u v : state) b,
  (j < m)%nat -> length u = m -> length v = m ->
  slos_coef (gate2 j m B) (S m) (u ++ [0%nat]) (v ++ [b]) =
  if state_eqb (addk v j b) u
  then kmul (of_nat (binom (nth j u 0%nat) b)) (kmul (kpow R (B 0%nat 0%nat) (nth j v 0%nat)) (kpow R (B 1%nat 0%nat) b))
  else k0.
Proof. exact slos_coef_gate2_vacuum. Qed.
Print Assumptions C07ext_gate_acts_on_two_modes_slos.

(* ---- special places of the channel ---- *)
(* first component: a Fock state arrives; k of the n photons of mode j are lost, the rest goes through C *)
Theorem C07ext_loss_at_start : forall (R : cring) (C : mat R) m j (c s : R) (sI t : state) k,
  (j < m)%nat -> length sI = m -> length t = m ->
  amp_num (mmul (S m) (embed 0 m C) (gate2 j m (loss_bs c s))) (S m) (sI ++ [0%nat]) (t ++ [k]) =
  if (k <=? nth j sI 0%nat)%nat
  then kmul (kraus c s (nth j sI 0%nat) k) (amp_num C m (subk sI j k) t)
  else k0.
Proof. exact loss_kraus_at_start. Qed.
Print Assumptions C07ext_loss_at_start.

(* last component: binomial thinning of output mode j of A *)
Theorem C07ext_loss_at_end : forall (R : cring) (A : mat R) m j (c s : R) (sI t : state) k,
  (j < m)%nat -> length sI = m -> length t = m ->
  amp_num (mmul (S m) (gate2 j m (loss_bs c s)) (embed 0 m A)) (S m) (sI ++ [0%nat]) (t ++ [k]) =
  if (total sI =? total t + k)%nat
  then kmul (of_nat (factprod t)) (kmul (slos_coef A m sI (addk t j k)) (kraus c s (nth j t 0%nat + k) k))
  else k0.
Proof. exact loss_kraus_at_end. Qed.
Print Assumptions C07ext_loss_at_end.

(* ---- the binomial law on m modes: |numerator|^2 = norm * binom(n,k) * T^(n-k) * L^k, T = c c*, L = s s* ---- *)
Theorem C07ext_binomial_law_any_mode : forall (R : cring) (m j : nat) (c s : R) (u : state) k,
  (j < m)%nat -> length u = m -> (k <= nth j u 0%nat)%nat ->
  kmul (amp_num (gate2 j m (loss_bs c s)) (S m) (u ++ [0%nat]) (subk u j k ++ [k]))
       (kconj (amp_num (gate2 j m (loss_bs c s)) (S m) (u ++ [0%nat]) (subk u j k ++ [k]))) =
  kmul (of_nat (norm2 (u ++ [0%nat]) (subk u j k ++ [k])))
       (kmul (of_nat (binom (nth j u 0%nat) k))
             (kmul (kpow R (kmul c (kconj c)) (nth j u 0%nat - k)) (kpow R (kmul s (kconj s)) k))).
Proof. exact loss_binomial_law. Qed.
Print Assumptions C07ext_binomial_law_any_mode.
