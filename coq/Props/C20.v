(* C20 — Catalog gates and converted gate circuits implement their logical operation.
   Part 1 (catalog gates) is proved here; part 2 (converters) is translation validation per instance in
   harness/props/c20.py with the amplitude specification [amp_num] evaluated by the extracted model. *)
From Coq Require Import Reals.
From PV Require Import Model.Catalog Proofs.TrigInst Proofs.CatalogP Proofs.CatalogRotP Proofs.CatalogRotAllP.

(* [gate_spec g G f]: on the dual-rail basis (finite: 2^q inputs, all states of the (m, n) output space)
     - every logical amplitude is f * G[b', b] with the same f for every input,
     - every non-logical output that passes heralds and post-selection has amplitude 0,
     - f is invertible (non-zero in every homomorphic image, in particular in C).
   Gates are exact component lists over the quadratic towers T1 = Q(i)(sqrt 2), T2 = T1(sqrt 3),
   T3 = T2(alpha), T4 = T1(b1)(g1)(g2); the statements are decided by computation in the tower
   ([logical_ok_sound]): an exhaustive enumeration of a finite space, stated as such. *)
Theorem C20_decision_sound : forall (D : dcring) (g : gate D) (G : mat D) (f : D),
  logical_ok g G f = true -> gate_spec g G f.
Proof. exact logical_ok_sound. Qed.
Print Assumptions C20_decision_sound.

Theorem C20_h : gate_spec c_h (M_h t1_r2) k1.  Proof. exact h_is_H. Qed.
Print Assumptions C20_h.
Theorem C20_x : gate_spec c_x M_x k1.  Proof. exact x_is_X. Qed.
Print Assumptions C20_x.
Theorem C20_y : gate_spec c_y (M_y t1_ii) k1.  Proof. exact y_is_Y. Qed.
Print Assumptions C20_y.
Theorem C20_z : gate_spec c_z (M_diag k1 (kopp k1)) k1.  Proof. exact z_is_Z. Qed.
Print Assumptions C20_z.
Theorem C20_s : gate_spec c_s (M_diag k1 t1_ii) k1.  Proof. exact s_is_S. Qed.
Print Assumptions C20_s.
Theorem C20_sdag : gate_spec c_sdag (M_diag k1 (kopp t1_ii)) k1.  Proof. exact sdag_is_Sdag. Qed.
Print Assumptions C20_sdag.
Theorem C20_t : gate_spec c_t (M_diag k1 t1_w) k1.  Proof. exact t_is_T. Qed.
Print Assumptions C20_t.
Theorem C20_tdag : gate_spec c_tdag (M_diag k1 (kconj t1_w)) k1.  Proof. exact tdag_is_Tdag. Qed.
Print Assumptions C20_tdag.
Theorem C20_postprocessed_cz : gate_spec c_ppcz M_cz (f_of c_ppcz).  Proof. exact ppcz_is_CZ. Qed.
Print Assumptions C20_postprocessed_cz.
Theorem C20_postprocessed_cnot : gate_spec c_ppcnot M_cnot (f_of c_ppcnot).  Proof. exact ppcnot_is_CNOT. Qed.
Print Assumptions C20_postprocessed_cnot.
Theorem C20_heralded_cz : gate_spec c_hcz M_cz (f_of c_hcz).  Proof. exact hcz_is_CZ. Qed.
Print Assumptions C20_heralded_cz.
Theorem C20_heralded_cnot : gate_spec c_hcnot M_cnot (f_of c_hcnot).  Proof. exact hcnot_is_CNOT. Qed.
Print Assumptions C20_heralded_cnot.
Theorem C20_klm_cnot : gate_spec c_klm M_cnot (f_of c_klm).  Proof. exact klm_is_CNOT. Qed.
Print Assumptions C20_klm_cnot.

(* the adjoined constants are the cosines / sines of the source: their squares, c^2 + s^2 = 1, |w| = 1 *)
Theorem C20_tower_constants :
  kmul t1_r2 t1_r2 = (t1 (qr 1 2) qi0 : T1) /\ kmul t1_w t1_w = (t1_ii : T1) /\ kmul t1_w (kconj t1_w) = (k1 : T1) /\
  kmul t2_c13 t2_c13 = (t2_of1 (t1 (qr 1 3) qi0) : T2) /\ kmul t2_s13 t2_s13 = (t2_of1 (t1 (qr 2 3) qi0) : T2) /\
  kmul t3_c2 t3_c2 = (t3_of2 t2_dalpha : T3) /\ kadd (kmul t3_c2 t3_c2) (kmul t3_s2 t3_s2) = (k1 : T3) /\
  kmul t4_kc1 t4_kc1 = (t4_of1 (t1 (qr 3 7) (qr (-1) 7)) : T4) /\ kadd (kmul t4_kc1 t4_kc1) (kmul t4_ks1 t4_ks1) = (k1 : T4) /\
  kmul t4_kc2 t4_kc2 = (t4_of1 (t1 (qr 5 1) (qr (-3) 1)) : T4) /\ kadd (kmul t4_kc2 t4_kc2) (kmul t4_ks2 t4_ks2) = (k1 : T4).
Proof. exact tower_constants. Qed.
Print Assumptions C20_tower_constants.

(* uniform factors 1/3, 1/3, sqrt6/9, sqrt6/9, (3 - sqrt2)/7: success probabilities 1/9, 1/9, 2/27, 2/27, R1^2 *)
Theorem C20_factors :
  f_of c_ppcz = t2_of1 (t1 (qr 1 3) qi0) /\ f_of c_ppcnot = t2_of1 (t1 (qr 1 3) qi0) /\
  f_of c_hcz = t3_of2 (t2 k0 (t1 qi0 (qr 1 9))) /\ f_of c_hcnot = t3_of2 (t2 k0 (t1 qi0 (qr 1 9))) /\
  f_of c_klm = t4_of1 (t1 (qr 3 7) (qr (-1) 7)).
Proof. exact factors. Qed.
Print Assumptions C20_factors.

(* success probability independent of the input: any ring, any f, any column-normalised G *)
Theorem C20_success_uniform : forall (R : cring) (lam G : mat R) (f : R) (N : nat),
  (forall b b', (b < N)%nat -> (b' < N)%nat -> lam b b' = kmul f (G b' b)) ->
  (forall b, (b < N)%nat -> sumn N (fun b' => kmul (G b' b) (kconj (G b' b))) = k1) ->
  forall b, (b < N)%nat -> sumn N (fun b' => kmul (lam b b') (kconj (lam b b'))) = kmul f (kconj f).
Proof. exact success_uniform. Qed.
Print Assumptions C20_success_uniform.
(* hypotheses satisfiable: the KLM gate *)
Example C20_success_uniform_klm : forall b, (b < 4)%nat ->
  sumn 4 (fun b' => kmul (lamp (g_unitary c_klm) 8 2 (g_heralds c_klm) b b') (kconj (lamp (g_unitary c_klm) 8 2 (g_heralds c_klm) b b')))
  = kmul (f_of c_klm) (kconj (f_of c_klm)).
Proof. exact klm_success_uniform. Qed.

(* parametrised gates: every ring, every value of the parameters (in particular every (c, s) with
   c^2 + s^2 = 1 and every unit phase); factor 1, one photon in two modes cannot leak *)
Theorem C20_rx : forall (R : cring) (ii c s : R) b b', (b < 2)%nat -> (b' < 2)%nat ->
  lamp (g_unitary (g_rx ii c s)) 2 1 [] b b' = M_rx ii c s b' b.
Proof. exact rx_logical. Qed.
Print Assumptions C20_rx.
Theorem C20_ry : forall (R : cring) (ii c s : R) b b', (b < 2)%nat -> (b' < 2)%nat ->
  lamp (g_unitary (g_ry ii c s)) 2 1 [] b b' = M_ry c s b' b.
Proof. exact ry_logical. Qed.
Print Assumptions C20_ry.
Theorem C20_rz : forall (R : cring) (e : R) b b', (b < 2)%nat -> (b' < 2)%nat ->
  lamp (g_unitary (g_rz e)) 2 1 [] b b' = M_diag (kconj e) e b' b.
Proof. exact rz_logical. Qed.
Print Assumptions C20_rz.
Theorem C20_ph : forall (R : cring) (e : R) b b', (b < 2)%nat -> (b' < 2)%nat ->
  lamp (g_unitary (g_ph e)) 2 1 [] b b' = M_diag k1 e b' b.
Proof. exact ph_logical. Qed.
Print Assumptions C20_ph.
(* the templates fitted to one-qubit gates outside the catalog (generic conversion): diag(e,1), diag(e1,e2); a single
   phase shifter matches diag(e1,e2) up to a factor only when it carries the relative phase *)
Theorem C20_template_lower_phase : forall (R : cring) (e : R) b b', (b < 2)%nat -> (b' < 2)%nat ->
  lamp (g_unitary (g_phase_lower e)) 2 1 [] b b' = M_diag e k1 b' b.
Proof. exact phase_lower_logical. Qed.
Print Assumptions C20_template_lower_phase.
Theorem C20_template_two_phases : forall (R : cring) (e1 e2 : R) b b', (b < 2)%nat -> (b' < 2)%nat ->
  lamp (g_unitary (g_2phase e1 e2)) 2 1 [] b b' = M_diag e1 e2 b' b.
Proof. exact two_phase_logical. Qed.
Print Assumptions C20_template_two_phases.
Theorem C20_single_phase_needs_relative_phase : forall (R : cring) (lam e e1 e2 : R),
  (forall b b', (b < 2)%nat -> (b' < 2)%nat -> kmul lam (lamp (g_unitary (g_ph e)) 2 1 [] b b') = M_diag e1 e2 b' b) ->
  lam = e1 /\ kmul e1 e = e2.
Proof. exact single_phase_needs_relative_phase. Qed.
Print Assumptions C20_single_phase_needs_relative_phase.
(* every real angle (complex numbers over Coq's reals) *)
Theorem C20_rx_real : forall (theta : R) b b', (b < 2)%nat -> (b' < 2)%nat ->
  lamp (g_unitary (g_rx (R:=CX) cI (creal (cos (theta / 2))) (creal (sin (theta / 2))))) 2 1 [] b b'
  = M_rx (R:=CX) cI (creal (cos (theta / 2))) (creal (sin (theta / 2))) b' b.
Proof. exact rx_logical_real. Qed.
Print Assumptions C20_rx_real.
Theorem C20_ry_real : forall (theta : R) b b', (b < 2)%nat -> (b' < 2)%nat ->
  lamp (g_unitary (g_ry (R:=CX) cI (creal (cos (theta / 2))) (creal (sin (theta / 2))))) 2 1 [] b b'
  = M_ry (R:=CX) (creal (cos (theta / 2))) (creal (sin (theta / 2))) b' b.
Proof. exact ry_logical_real. Qed.
Print Assumptions C20_ry_real.
Theorem C20_rz_real : forall (theta : R) b b', (b < 2)%nat -> (b' < 2)%nat ->
  lamp (g_unitary (g_rz (R:=CX) (cexp (theta / 2)))) 2 1 [] b b'
  = M_diag (R:=CX) (cexp (- (theta / 2))) (cexp (theta / 2)) b' b.
Proof. exact rz_logical_real. Qed.
Print Assumptions C20_rz_real.
Theorem C20_ph_real : forall (phi : R) b b', (b < 2)%nat -> (b' < 2)%nat ->
  lamp (g_unitary (g_ph (R:=CX) (cexp phi))) 2 1 [] b b' = M_diag (R:=CX) k1 (cexp phi) b' b.
Proof. exact ph_logical_real. Qed.
Print Assumptions C20_ph_real.

(* n-qubit controlled rotation, n = 2, 3, 4 (postprocessed ccz / toffoli are n = 3, alpha = pi): for every a,
   the data block acts as diag(1, ..., 1, 1 + a^n) *)
Theorem C20_crot2 : forall (R : cring) (a : R) b b', (b < 4)%nat -> (b' < 4)%nat ->
  lamp (crot_block 2 a) 4 2 [] b b' = M_crot 2 a b' b.
Proof. exact crot2_logical. Qed.
Print Assumptions C20_crot2.
Theorem C20_crot3 : forall (R : cring) (a : R) b b', (b < 8)%nat -> (b' < 8)%nat ->
  lamp (crot_block 3 a) 6 3 [] b b' = M_crot 3 a b' b.
Proof. exact crot3_logical. Qed.
Print Assumptions C20_crot3.
Theorem C20_crot4 : forall (R : cring) (a : R) b b', (b < 16)%nat -> (b' < 16)%nat ->
  lamp (crot_block 4 a) 8 4 [] b b' = M_crot 4 a b' b.
Proof. exact crot4_logical. Qed.
Print Assumptions C20_crot4.
Theorem C20_crot_phase : forall (R : cring) (a e : R) n,
  kpow a n = ksub e k1 -> M_crot n a (2 ^ n - 1)%nat (2 ^ n - 1)%nat = e.
Proof. exact crot_phase. Qed.
Print Assumptions C20_crot_phase.

(* n-qubit controlled rotation, EVERY n >= 2 (Proofs/CatalogRotAllP.v: Laplace expansion along the column of qubit 0,
   the two surviving minors are triangular): perm = [b = b'] + [b = b' = 1...1] a^n *)
Theorem C20_crot_all_n : forall (R : cring) (a : R) n b b', (2 <= n)%nat -> (b < 2 ^ n)%nat -> (b' < 2 ^ n)%nat ->
  lamp (crot_block n a) (2 * n) n [] b b' = M_crot n a b' b.
Proof. exact crot_logical_all_n. Qed.
Print Assumptions C20_crot_all_n.
(* the implementation's block is M / sigma_max: one scalar s on every entry gives the uniform factor s^n *)
Theorem C20_crot_scaled_all_n : forall (R : cring) (s a : R) n b b', (2 <= n)%nat -> (b < 2 ^ n)%nat -> (b' < 2 ^ n)%nat ->
  lamp (fun j k => kmul s (crot_block n a j k)) (2 * n) n [] b b' = kmul (kpow s n) (M_crot n a b' b).
Proof. exact crot_logical_scaled_all_n. Qed.
Print Assumptions C20_crot_scaled_all_n.
(* a^n = e - 1: the all-ones basis state picks up exactly e, every other basis state is fixed *)
Theorem C20_crot_rotation_all_n : forall (R : cring) (a e : R) n, (2 <= n)%nat -> kpow a n = ksub e k1 ->
  lamp (crot_block n a) (2 * n) n [] (2 ^ n - 1) (2 ^ n - 1) = e.
Proof. exact crot_rotation_all_n. Qed.
Print Assumptions C20_crot_rotation_all_n.
(* not vacuous: five qubits (size beyond the exhaustive proofs), obtained from the theorem *)
Example C20_crot5_all_ones : forall (R : cring) (a : R),
  lamp (crot_block 5 a) 10 5 [] 31 31 = kadd k1 (kpow a 5).
Proof. exact crot5_all_ones. Qed.
Print Assumptions C20_crot5_all_ones.
