(* C17 — A remote job's status follows the server and survives transient faults.
   Only statements + [exact] + Print Assumptions live here.

   Model/RemoteJob.v: [step c] is the RemoteJob code in two configurations.  [cfg_patch] is the code as it is in /repo
   NOW (after the repairs 3528201e ">= _MAX_ERROR" and a6e53956 "execute on a job that has an identifier"; the
   correspondence check of C17 runs dispatch 1700 = this configuration against the implementation, and the translator
   re-derives its retry law from remote_job.py on every run: GenProofs/GenRemoteJobP.v).  [cfg_code] is the code as it
   was at the pinned commit, kept so that the two refutations stay theorems about a named historical configuration.
   [spec_step] is the automaton of the property statement (DESIGN A.5).  A trace is a finite list of client actions,
   each carrying the server's answer for every request it may trigger; all theorems quantify over all traces / all
   states (hence all reachable states).

   FULL STATEMENT (refinement):
       forall tr, run (step c) fresh_job tr = run spec_step fresh_job tr
   proved for the code as it is now on all traces and all start states (C17_refinement_repaired); refuted twice for
   the pinned code (double send; sixth consecutive failure absorbed), and proved for it on the complement (traces
   along which no step meets one of the two defects). *)
From Coq Require Import Lia.
From PV Require Import Model.RemoteJob Proofs.RemoteJobP.
Open Scope Z_scope.

(* ---- refinement *)
Theorem C17_refinement_refuted_double_send :
  exists tr, run (step cfg_code) fresh_job tr <> run spec_step fresh_job tr.
Proof. exact refinement_refuted_double_send. Qed.
Print Assumptions C17_refinement_refuted_double_send.

Theorem C17_refinement_refuted_sixth_failure :
  exists tr, run (step cfg_code) fresh_job tr <> run spec_step fresh_job tr.
Proof. exact refinement_refuted_sixth_failure. Qed.
Print Assumptions C17_refinement_refuted_sixth_failure.

Theorem C17_refinement_repaired : forall tr j, run (step cfg_patch) j tr = run spec_step j tr.
Proof. exact refinement_patch. Qed.
Print Assumptions C17_refinement_repaired.

Theorem C17_refinement_partial : forall tr j, benign j tr -> run (step cfg_code) j tr = run spec_step j tr.
Proof. exact refinement_partial. Qed.
Print Assumptions C17_refinement_partial.

(* what "benign" allows: any step that is not an execute on a job that has an identifier and during which the
   failure count cannot pass five *)
Theorem C17_benign_sufficient : forall j e,
  (is_exec e = true -> jid j = None) -> (jstreak j + npolls e <= 5)%nat -> step cfg_code j e = step cfg_patch j e.
Proof. exact agree_sufficient. Qed.
Print Assumptions C17_benign_sufficient.

Example C17_benign_satisfiable : benign fresh_job tr_benign.
Proof. exact tr_benign_ok. Qed.

(* ---- sent at most once *)
(* FULL: forall tr, count KCreate (all_reqs (run (step cfg_code) fresh_job tr)) <= 1 — refuted *)
Theorem C17_sent_at_most_once_refuted :
  exists tr, (2 <= count KCreate (all_reqs (run (step cfg_code) fresh_job tr)))%nat.
Proof. exact sent_at_most_once_refuted. Qed.
Print Assumptions C17_sent_at_most_once_refuted.

Theorem C17_sent_at_most_once_repaired : forall tr j,
  (count KCreate (all_reqs (run (step cfg_patch) j tr)) <= b2n (G j))%nat.
Proof. exact sent_at_most_once_patch. Qed.
Print Assumptions C17_sent_at_most_once_repaired.

Theorem C17_sent_at_most_once_spec : forall tr, (count KCreate (all_reqs (run spec_step fresh_job tr)) <= 1)%nat.
Proof. exact sent_at_most_once_spec. Qed.
Print Assumptions C17_sent_at_most_once_spec.

(* ---- reported status = last status successfully read *)
Theorem C17_successful_read_is_reported : forall c j v m, polls j = true ->
  step c j (Poll (AOk v m)) =
  (mkjob (jid j) (from_server v) 0 (jres j) (if failed (from_server v) then m else jmsg j),
   [Rq KStatus (jid j) true], RetStatus (from_server v)).
Proof. intros. cbn [step]. rewrite poll_ok by assumption. reflexivity. Qed.
Print Assumptions C17_successful_read_is_reported.

Theorem C17_failed_read_keeps_last_status : forall c j a, polls j = true -> is_failure a = true ->
  exists ex, poll c j a = (set_streak j (S (jstreak j)), [Rq KStatus (jid j) false], ex) /\
    (ex = None \/ ex = Some (plain_failure a)) /\
    (fatal a = true -> ex = Some (plain_failure a)) /\
    (raise_at c (S (jstreak j)) = true -> ex = Some (plain_failure a)) /\
    (fatal a = false -> raise_at c (S (jstreak j)) = false -> ex = None).
Proof. exact poll_fail. Qed.
Print Assumptions C17_failed_read_keeps_last_status.

Theorem C17_nothing_asked_when_unsent_or_final : forall c j a, polls j = false -> poll c j a = (j, [], None).
Proof. exact poll_idle. Qed.
Print Assumptions C17_nothing_asked_when_unsent_or_final.

Theorem C17_reported_status_is_state : forall c j e j1 rq r s,
  step c j e = (j1, rq, r) -> r = RetStatus s -> s = jst j1.
Proof. exact step_reports. Qed.
Print Assumptions C17_reported_status_is_state.

(* ---- final statuses are absorbing, no poll after final (code as it is and repaired code) *)
Theorem C17_final_is_absorbing : forall c, guard_waiting c -> forall tr j, final (jst j) = true ->
  Forall (fun o => jst (post_of o) = jst j /\ count KStatus (reqs_of o) = 0%nat /\ count KCreate (reqs_of o) = 0%nat /\
                   count KCancel (reqs_of o) = 0%nat /\ forall s, res_of o = RetStatus s -> s = jst j)
         (run (step c) j tr).
Proof. exact final_is_absorbing. Qed.
Print Assumptions C17_final_is_absorbing.

Theorem C17_no_poll_after_reported_final : forall c, guard_waiting c -> forall tr1 e s tr2 j,
  let j0 := run_state (step c) j tr1 in
  snd (step c j0 e) = RetStatus s -> final s = true ->
  Forall (fun o => count KStatus (reqs_of o) = 0%nat /\ forall s', res_of o = RetStatus s' -> s' = s)
         (run (step c) (fst (fst (step c j0 e))) tr2).
Proof. exact reported_final_is_absorbing. Qed.
Print Assumptions C17_no_poll_after_reported_final.

Theorem C17_guard_waiting_code : guard_waiting cfg_code.
Proof. exact guard_waiting_code. Qed.
Print Assumptions C17_guard_waiting_code.
Theorem C17_guard_waiting_patch : guard_waiting cfg_patch.
Proof. exact guard_waiting_patch. Qed.
Print Assumptions C17_guard_waiting_patch.

(* ---- the retry law *)
(* the counter is the number of failed status requests since the last successful one, over any history *)
Theorem C17_streak_counts_failures : forall c tr j,
  jstreak (run_state (step c) j tr) = trailing_failures (jstreak j) (all_reqs (run (step c) j tr)).
Proof. exact streak_counts_failures. Qed.
Print Assumptions C17_streak_counts_failures.

Theorem C17_four_absorbed : forall c j a, (c = cfg_code \/ c = cfg_patch) ->
  polls j = true -> is_failure a = true -> fatal a = false -> (jstreak j < 4)%nat ->
  poll c j a = (set_streak j (S (jstreak j)), [Rq KStatus (jid j) false], None).
Proof. exact absorbed_below_five. Qed.
Print Assumptions C17_four_absorbed.

Theorem C17_fifth_raises : forall c j a, (c = cfg_code \/ c = cfg_patch) ->
  polls j = true -> is_failure a = true -> jstreak j = 4%nat ->
  poll c j a = (set_streak j 5, [Rq KStatus (jid j) false], Some (plain_failure a)).
Proof. exact fifth_raises. Qed.
Print Assumptions C17_fifth_raises.

(* FULL: forall j a, polls j -> is_failure a -> 4 <= jstreak j -> poll cfg_code j a raises — refuted at 5 *)
Theorem C17_later_failures_raise_refuted :
  exists tr a, let j := run_state (step cfg_code) fresh_job tr in
    polls j = true /\ (5 <= jstreak j)%nat /\ is_failure a = true /\ snd (poll cfg_code j a) = None.
Proof. exact later_failures_raise_refuted. Qed.
Print Assumptions C17_later_failures_raise_refuted.

Theorem C17_later_failures_raise_repaired : forall j a, polls j = true -> is_failure a = true -> (4 <= jstreak j)%nat ->
  exists j1 rq, poll cfg_patch j a = (j1, rq, Some (plain_failure a)).
Proof. exact later_raise_patch. Qed.
Print Assumptions C17_later_failures_raise_repaired.

Theorem C17_success_resets : forall c j v m, polls j = true -> jstreak (fst (fst (poll c j (AOk v m)))) = 0%nat.
Proof. intros. rewrite poll_ok by assumption. reflexivity. Qed.
Print Assumptions C17_success_resets.

Theorem C17_fatal_raises_immediately : forall c j code m, polls j = true -> transient code = false ->
  exists j1 rq, poll c j (AHttp code m) = (j1, rq, Some (EHttp code)).
Proof. exact fatal_raises. Qed.
Print Assumptions C17_fatal_raises_immediately.

(* ---- results, cancel, rerun *)
Theorem C17_results_refused_while_unfinished : forall c j p1 p2 a j1 rq1,
  poll c j p1 = (j1, rq1, None) -> maybe_completed (jst j1) = false ->
  get_results c j p1 p2 a = (j1, rq1, Raise EStillRunning) /\ count KResults rq1 = 0%nat.
Proof. exact results_refused_while_unfinished. Qed.
Print Assumptions C17_results_refused_while_unfinished.

Theorem C17_results_request_only_when_finished : forall c j p1 p2 a j3 rq r,
  get_results c j p1 p2 a = (j3, rq, r) -> count KResults rq <> 0%nat ->
  exists j1 rq1, poll c j p1 = (j1, rq1, None) /\ maybe_completed (jst j1) = true.
Proof. exact results_request_only_when_finished. Qed.
Print Assumptions C17_results_request_only_when_finished.

Theorem C17_failed_job_reports_its_message : forall c j p1 p2 v m,
  failed (jst j) = true -> jres j = None -> v <> 0 ->
  get_results c j p1 p2 (AOk v m) = (j, [Rq KResults (jid j) true], Raise (EFailed (jmsg j))).
Proof. exact failed_job_reports_its_message. Qed.
Print Assumptions C17_failed_job_reports_its_message.

Theorem C17_failure_message_is_the_one_read : forall c j v m, polls j = true -> failed (from_server v) = true ->
  jmsg (fst (fst (poll c j (AOk v m)))) = m.
Proof. exact failure_message_is_the_one_read. Qed.
Print Assumptions C17_failure_message_is_the_one_read.

Theorem C17_cancel_refused_unless_active : forall c j p a j1 rq1,
  poll c j p = (j1, rq1, None) -> cancellable (jst j1) = false ->
  cancel c j p a = (j1, rq1, Raise ECannotCancel) /\ count KCancel rq1 = 0%nat.
Proof. exact cancel_refused_unless_active. Qed.
Print Assumptions C17_cancel_refused_unless_active.

Theorem C17_cancel_request_only_when_active : forall c j p a j2 rq r,
  cancel c j p a = (j2, rq, r) -> count KCancel rq <> 0%nat ->
  exists j1 rq1, poll c j p = (j1, rq1, None) /\ cancellable (jst j1) = true.
Proof. exact cancel_request_only_when_active. Qed.
Print Assumptions C17_cancel_request_only_when_active.

Theorem C17_rerun_refused_unless_failed : forall c j p1 p2 a j1 rq1,
  poll c j p1 = (j1, rq1, None) -> failed (jst j1) = false ->
  exists j2 rq e, rerun c j p1 p2 a = (j2, rq, Raise e) /\ count KRerun rq = 0%nat.
Proof. exact rerun_refused_unless_failed. Qed.
Print Assumptions C17_rerun_refused_unless_failed.

Theorem C17_rerun_accepted_new_job : forall c j p1 p2 v m j1 rq1,
  poll c j p1 = (j1, rq1, None) -> failed (jst j1) = true ->
  rerun c j p1 p2 (AOk v m) = (j1, rq1 ++ [Rq KRerun (jid j1) true], RetNew v) /\
  jid (new_job v) = Some v /\ jst (new_job v) = WAITING /\ jstreak (new_job v) = 0%nat /\
  (jid j1 <> Some v -> jid (new_job v) <> jid j1).
Proof. exact rerun_accepted_new_id. Qed.
Print Assumptions C17_rerun_accepted_new_job.
