(* C02 (extension) — the Fock-space homomorphism: the amplitudes of a product of two linear-optical
   matrices are the sums over all intermediate Fock states (Cauchy-Binet for permanents); hence the
   output distribution of a unitary sums to one, and evolving component by component is the same as
   evolving through the product matrix.  Any commutative ring, any number of modes and photons. *)
From PV Require Import Model.Engines Model.SelectX Proofs.FockHomP Proofs.FockHomQI.

(* (H)  perm((A.B)[t|cols]) = sum_u perm(A[t|u]) * perm(B[u|cols]) / prod u!   with the division carried
   out exactly:  perm(B[u|cols]) / prod u! is the SLOS coefficient (C02_slos_coefficient_is_permanent) *)
Theorem C02ext_fock_hom : forall (R : cring) (A B : mat R) m cols t,
  permS (mmul m A B) m cols t =
  suml (allstates m (length cols)) (fun u => kmul (permS A m (cols_of u) t) (slos B m cols u)).
Proof. exact fock_hom. Qed.
Print Assumptions C02ext_fock_hom.

(* (H) between Fock states, photon-number mismatch included *)
Theorem C02ext_amp_hom : forall (R : cring) (A B : mat R) m s t,
  amp_num (mmul m A B) m s t =
  suml (allstates m (total s)) (fun u => kmul (amp_num A m u t) (slos_coef B m s u)).
Proof. exact amp_hom. Qed.
Print Assumptions C02ext_amp_hom.

(* (H) with the division by prod u! written as a multiplication by an inverse w u *)
Theorem C02ext_amp_hom_inverse : forall (R : cring) (A B : mat R) m s t (w : state -> R),
  (forall u, In u (allstates m (total s)) -> kmul (of_nat (factprod u)) (w u) = k1) ->
  amp_num (mmul m A B) m s t =
  suml (allstates m (total s)) (fun u => kmul (kmul (amp_num A m u t) (amp_num B m s u)) (w u)).
Proof. exact amp_hom_w. Qed.
Print Assumptions C02ext_amp_hom_inverse.

(* (H) multiplied through by n!: every intermediate state u arises from n! / prod u! lists of modes *)
Theorem C02ext_fock_hom_multinomial : forall (R : cring) (A B : mat R) m cols t,
  kmul (of_nat (fact (length cols))) (permS (mmul m A B) m cols t) =
  suml (allstates m (length cols))
    (fun u => kmul (of_nat (multinom u)) (kmul (permS A m (cols_of u) t) (permS B m cols u))).
Proof. exact fock_hom_multinomial. Qed.
Print Assumptions C02ext_fock_hom_multinomial.
Theorem C02ext_multinom_spec : forall u, (multinom u * factprod u = fact (total u))%nat.
Proof. exact multinom_spec. Qed.
Print Assumptions C02ext_multinom_spec.

(* the list form (multilinearity of the permanent in its columns): sum over all lists of intermediate modes *)
Theorem C02ext_fock_hom_lists : forall (R : cring) (A B : mat R) m cols t,
  permS (mmul m A B) m cols t =
  sum_lists m (length cols) (fun ls => kmul (prodB B ls cols) (permS A m ls t)).
Proof. exact fock_hom_lists. Qed.
Print Assumptions C02ext_fock_hom_lists.

(* the permanent of the transposed / adjoint submatrix *)
Theorem C02ext_transpose : forall (R : cring) (U : mat R) m s u, length s = m -> length u = m ->
  permS (mtr U) m (cols_of u) s = permS U m (cols_of s) u.
Proof. exact permS_transpose. Qed.
Print Assumptions C02ext_transpose.
Theorem C02ext_adjoint : forall (R : cring) (U : mat R) m s u, length s = m -> length u = m ->
  permS (madj U) m (cols_of u) s = kconj (permS U m (cols_of s) u).
Proof. exact permS_madj. Qed.
Print Assumptions C02ext_adjoint.

(* the identity matrix: prod s! on the diagonal, zero elsewhere *)
Theorem C02ext_identity : forall (R : cring) m s t, length s = m -> length t = m ->
  permS (mid (R:=R)) m (cols_of s) t = if state_eqb s t then of_nat (factprod s) else k0.
Proof. exact permS_mid. Qed.
Print Assumptions C02ext_identity.

(* (C1) |amp_num|^2 / prod t! = amp_num * conj(slos_coef); over all outputs these sum to prod s! *)
Theorem C02ext_dist_sums_to_one : forall (R : cring) (U : mat R) m s, unitary m U -> length s = m ->
  suml (allstates m (total s)) (fun t => kmul (amp_num U m s t) (kconj (slos_coef U m s t))) = of_nat (factprod s).
Proof. exact dist_sums_to_one. Qed.
Print Assumptions C02ext_dist_sums_to_one.

(* (C1) with the probabilities |amp_num|^2 / norm2 s t, the division written as an inverse p t *)
Theorem C02ext_dist_sums_to_one_prob : forall (R : cring) (U : mat R) m s (p : state -> R),
  unitary m U -> length s = m ->
  (forall t, In t (allstates m (total s)) -> kmul (of_nat (norm2 s t)) (p t) = k1) ->
  suml (allstates m (total s)) (fun t => kmul (kmul (amp_num U m s t) (kconj (amp_num U m s t))) (p t)) = k1.
Proof. exact dist_sums_to_one_prob. Qed.
Print Assumptions C02ext_dist_sums_to_one_prob.

(* (C1) for the executable distribution over the Gaussian rationals *)
Theorem C02ext_spec_dist_mass_one : forall (U : mat QI) m s, unitary m U -> length s = m ->
  mass (spec_dist U m s) = 1%Qc.
Proof. exact spec_dist_mass_one. Qed.
Print Assumptions C02ext_spec_dist_mass_one.

(* (C2) one component acting on the vector of amplitude numerators is the product matrix *)
Theorem C02ext_step_is_spec : forall (R : cring) (w : state -> R) m s,
  (forall u, In u (allstates m (total s)) -> kmul (of_nat (factprod u)) (w u) = k1) ->
  forall (A B : mat R) t, step w m (total s) A (amp_num B m s) t = amp_num (mmul m A B) m s t.
Proof. exact step_is_spec. Qed.
Print Assumptions C02ext_step_is_spec.

(* (C2) crossing the components one after the other, starting from the input basis state *)
Theorem C02ext_stepper_is_spec : forall (R : cring) (w : state -> R) m s, length s = m ->
  (forall u, In u (allstates m (total s)) -> kmul (of_nat (factprod u)) (w u) = k1) ->
  forall (l : list (mat R)) t, In t (allstates m (total s)) ->
  run w m (total s) l (fun u => if state_eqb s u then of_nat (factprod s) else k0) t = amp_num (oprod m l) m s t.
Proof. exact stepper_is_spec_basis. Qed.
Print Assumptions C02ext_stepper_is_spec.
Theorem C02ext_stepper_is_spec_id : forall (R : cring) (w : state -> R) m s, length s = m ->
  (forall u, In u (allstates m (total s)) -> kmul (of_nat (factprod u)) (w u) = k1) ->
  forall (l : list (mat R)) t, run w m (total s) l (amp_num mid m s) t = amp_num (oprod m l) m s t.
Proof. exact stepper_is_spec. Qed.
Print Assumptions C02ext_stepper_is_spec_id.

(* the enumeration is exact: the states of (m, n) are the lists of length m and total n *)
Theorem C02ext_allstates_sound : forall m n t, In t (allstates m n) -> length t = m /\ total t = n.
Proof. exact allstates_sound. Qed.
Print Assumptions C02ext_allstates_sound.
Theorem C02ext_allstates_complete : forall m n t, length t = m -> total t = n -> In t (allstates m n).
Proof. exact allstates_in. Qed.
Print Assumptions C02ext_allstates_complete.
