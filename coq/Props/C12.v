(* C12 — A unitary decomposition, when returned, reproduces the requested matrix.
   The numerical root finder is an oracle (Section variable with its own state); everything the code does
   around it is proved for every size, every flag combination and every oracle answer. *)
From PV Require Import Model.Decomp Model.DecompX Proofs.DecompP.

(* (1) one elimination step, ANY oracle answer (only: cU_inv(params) inverts cU(params)): before the forced
   `u[n, j] = 0`, (matrix of the list) * residual is unchanged *)
Theorem C12_bookkeeping_step : forall (R : cring) (m : nat) (small : R -> bool) (iib perm_on : bool) (Os : Type)
    (solve : Os -> nat -> nat -> mat R -> option (blk R) * Os),
  (forall s n j u b s', solve s n j u = (Some b, s') -> meq 2 (mmul 2 (b_mat b) (b_inv b)) mid) ->
  forall n j l u s l' u' s', (n < j)%nat -> (j < m)%nat ->
  cell m small iib perm_on Os solve n j (l, u) s = (Some (l', u'), s') ->
  exists pre, u' = setz n j pre /\ meq m (mmul m (circ_mat m l') pre) (mmul m (circ_mat m l) u).
Proof. exact cell_bookkeeping. Qed.
Print Assumptions C12_bookkeeping_step.

(* (2) a step at (n, j) keeps the zeros already made: all of the columns right of j above the diagonal and
   rows < n of column j — ANY oracle answer *)
Theorem C12_zeros_kept : forall (R : cring) (m : nat) (small : R -> bool) (iib perm_on : bool) (Os : Type)
    (solve : Os -> nat -> nat -> mat R -> option (blk R) * Os) n j l u s l' u' s',
  (n < j)%nat -> (j < m)%nat -> Z R m j n u ->
  cell m small iib perm_on Os solve n j (l, u) s = (Some (l', u'), s') -> Z R m j (S n) u'.
Proof. exact cell_keeps_zeros. Qed.
Print Assumptions C12_zeros_kept.

Theorem C12_residual_lower_triangular : forall (R : cring) (m : nat) (small : R -> bool) (iib perm_on : bool)
    (Os : Type) (solve : Os -> nat -> nat -> mat R -> option (blk R) * Os) j st s st' s',
  (j < m)%nat -> Z R m j 0 (snd st) ->
  run_outer m small iib perm_on Os solve j st s = (Some st', s') ->
  forall r c, (r < c)%nat -> (c < m)%nat -> snd st' r c = k0.
Proof. exact run_outer_triangular. Qed.
Print Assumptions C12_residual_lower_triangular.

(* (3) lower triangular + U U^dagger = 1  ==>  diagonal with unit-modulus entries (any commutative ring with
   conjugation; no integrality or order hypothesis is needed) *)
Theorem C12_triangular_unitary_is_diagonal : forall (R : cring) (n : nat) (u : mat R),
  (forall r c, (r < c)%nat -> (c < n)%nat -> u r c = k0) -> meq n (mmul n u (madj u)) mid ->
  forall c, (c < n)%nat ->
    kmul (u c c) (kconj (u c c)) = k1 /\ (forall r, (r < n)%nat -> r <> c -> u r c = k0).
Proof. exact tri_unitary_diag. Qed.
Print Assumptions C12_triangular_unitary_is_diagonal.

(* the permutation handed to `permutation(p)` on modes n..k is the row swap applied to the residual *)
Theorem C12_emitted_permutation_is_row_swap : forall (R : cring) (m n k : nat), (n < k)%nat -> (k < m)%nat ->
  meq m (item_mat (R:=R) (IPerm n k)) (swapm n k).
Proof. exact item_perm_swap. Qed.
Print Assumptions C12_emitted_permutation_is_row_swap.

(* (5) the returned list: only solver-made blocks on (n, n+1), swaps on n..k, phases — ANY oracle *)
Theorem C12_only_blocks_phases_permutations : forall (R : cring) (m : nat) (small skip : R -> bool)
    (iib perm_on : bool) (Os : Type) (solve : Os -> nat -> nat -> mat R -> option (blk R) * Os) wp U s l u s',
  (0 < m)%nat -> triangle m small skip iib perm_on Os solve wp U s = (Some (l, u), s') ->
  Forall (good R m Os solve) l.
Proof. exact triangle_items. Qed.
Print Assumptions C12_only_blocks_phases_permutations.

(* decompose_triangle with an exact oracle: residual diagonal of unit modulus; with the phase layer the list
   multiplies to U, without it list * residual = U *)
Theorem C12_triangle_reproduces_request : forall (R : cring) m small skip iib perm_on Os solve,
  oracle_ok R m small skip Os solve -> (0 < m)%nat ->
  forall wp U s l u s', unitary m U ->
  triangle m small skip iib perm_on Os solve wp U s = (Some (l, u), s') ->
  (forall r c, (r < m)%nat -> (c < m)%nat -> r <> c -> u r c = k0) /\
  (forall c, (c < m)%nat -> kmul (u c c) (kconj (u c c)) = k1) /\
  meq m (mmul m (circ_mat m l) (if wp then mid else u)) U /\
  Forall (good R m Os solve) l.
Proof. exact triangle_correct'. Qed.
Print Assumptions C12_triangle_reproduces_request.

(* (4) Circuit.inverse(v, h) on the list realises flip / adjoint of its matrix, i.e. exactly undoes the
   pre-processing, provided component.inverse on the block is the adjoint (h) and J B J (v) *)
Theorem C12_inverse_flags_cancel : forall (R : cring) (m : nat), (0 < m)%nat ->
  forall hinv_b vinv_b : blk R -> blk R,
  (forall b, meq 2 (b_mat (hinv_b b)) (madj (b_mat b))) ->
  (forall b, meq 2 (b_mat (vinv_b b)) (mflip 2 (b_mat b))) ->
  forall v h l, Forall (item_fits R m) l ->
  meq m (circ_mat m (cinverse m hinv_b vinv_b v h l)) (preprocess m v h (circ_mat m l)).
Proof. exact cinverse_mat. Qed.
Print Assumptions C12_inverse_flags_cancel.

(* Circuit.decomposition: every size, flags, retry count; exact oracle, block inverses as in C11 *)
Theorem C12_decomposition_reproduces_request : forall (R : cring) m small skip iib perm_on Os solve hinv_b vinv_b,
  oracle_ok R m small skip Os solve -> inverse_ok R hinv_b vinv_b -> (0 < m)%nat ->
  forall wp v h tries U s c s', unitary m U ->
  decomposition m small skip iib perm_on Os solve hinv_b vinv_b wp v h tries U s = (Some c, s') ->
  (wp = true -> meq m (circ_mat m c) U) /\
  (wp = false -> exists d, (forall i, (i < m)%nat -> kmul (d i) (kconj (d i)) = k1) /\
       meq m (circ_mat m c) (if h then mmul m (diagm d) U else mmul m U (diagm d))) /\
  Forall (item_fits R m) c.
Proof. exact decomposition_correct'. Qed.
Print Assumptions C12_decomposition_reproduces_request.

(* every try of the retry loop runs the elimination on the SAME (pre-processed) request: an abandoned try leaves
   nothing behind *)
Theorem C12_retry_restarts_from_the_request : forall (R : cring) m small skip iib perm_on Os solve tries wp
    (U : mat R) s r s',
  retry m small skip iib perm_on Os solve tries wp U s = (Some r, s') ->
  exists s0 s1, triangle m small skip iib perm_on Os solve wp U s0 = (Some r, s1).
Proof. exact retry_some. Qed.
Print Assumptions C12_retry_restarts_from_the_request.

(* the inversion pre-processing is applied once, outside the retry loop: the returned list comes from ONE elimination
   run on the pre-processed request preprocess(U), whatever the number of abandoned tries before it *)
Theorem C12_every_try_runs_on_the_preprocessed_request : forall (R : cring) m small skip iib perm_on Os solve
    hinv_b vinv_b wp v h tries (U : mat R) s c s',
  decomposition m small skip iib perm_on Os solve hinv_b vinv_b wp v h tries U s = (Some c, s') ->
  exists l u s0 s1,
    triangle m small skip iib perm_on Os solve wp (preprocess m v h U) s0 = (Some (l, u), s1) /\
    c = (if v || h then cinverse m hinv_b vinv_b v h l else l).
Proof. exact decomposition_runs_on_preprocessed. Qed.
Print Assumptions C12_every_try_runs_on_the_preprocessed_request.

(* "None" is outside the soundness claim and comes only from the solver: the completeness sentence ("a universal
   block is found within the configured retries") is a statement about the numerical oracle alone *)
Theorem C12_none_only_from_solver : forall (R : cring) m small skip iib perm_on Os solve hinv_b vinv_b
    wp v h tries (U : mat R) s s',
  decomposition m small skip iib perm_on Os solve hinv_b vinv_b wp v h tries U s = (None, s') ->
  tries = 0%nat \/ exists s0 n j u, fst (solve s0 n j u) = None.
Proof. exact decomposition_none_only_from_solver. Qed.
Print Assumptions C12_none_only_from_solver.

(* the hypotheses are satisfiable (two modes, an exact oracle answering with a swap or the identity) *)
Example C12_hypotheses_satisfiable :
  oracle_ok QI 2 w_small0 w_skip0 unit w_solve0 /\ inverse_ok QI (@ideal_hinv QI) (@ideal_vinv QI) /\
  (match fst (decomposition (R:=QI) 2 w_small0 w_skip0 false false unit w_solve0 (@ideal_hinv QI) (@ideal_vinv QI)
     true true true 3 (swapm 0 1) tt) with Some c => Nat.eqb (length c) 1 | None => false end) = true.
Proof. exact (conj witness_oracle_ok (conj (ideal_inverse_ok QI) witness_runs)). Qed.

(* the checker run on every returned circuit *)
Theorem C12_checker_close_to_sound : forall eps2 n A B, close_to eps2 n A B = true ->
  forall i j, (i < n)%nat -> (j < n)%nat -> (qinorm2 (qisub (A i j) (B i j)) <= eps2)%Qc.
Proof. exact close_to_sound. Qed.
Print Assumptions C12_checker_close_to_sound.

Theorem C12_checker_diag_right_sound : forall eps2 n V U, diag_equiv_r eps2 n V U = true ->
  exists d : nat -> qi,
    (forall j, (j < n)%nat -> ((qinorm2 (d j) - 1) * (qinorm2 (d j) - 1) <= eps2)%Qc) /\
    forall i j, (i < n)%nat -> (j < n)%nat -> (qinorm2 (qisub (V i j) (qimul (U i j) (d j))) <= eps2)%Qc.
Proof. exact diag_equiv_r_sound. Qed.
Print Assumptions C12_checker_diag_right_sound.

Theorem C12_checker_diag_left_sound : forall eps2 n V U, diag_equiv_l eps2 n V U = true ->
  exists d : nat -> qi,
    (forall i, (i < n)%nat -> ((qinorm2 (d i) - 1) * (qinorm2 (d i) - 1) <= eps2)%Qc) /\
    forall i j, (i < n)%nat -> (j < n)%nat -> (qinorm2 (qisub (V i j) (qimul (d i) (U i j))) <= eps2)%Qc.
Proof. exact diag_equiv_l_sound. Qed.
Print Assumptions C12_checker_diag_left_sound.
Print Assumptions C12_hypotheses_satisfiable.
