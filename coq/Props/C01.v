(* C01 — A circuit's matrix is the ordered product of its parts and is unitary. *)
From PV Require Import Model.Circuit Proofs.CircuitP.

Theorem C01_matrix_is_ordered_product : forall (R : cring) (c : comp R), wf c ->
  meq (width c) (cmat c) (oprod (width c) (leaf_mats (width c) (flatten 0 c))).
Proof. exact cmat_flatten. Qed.
Print Assumptions C01_matrix_is_ordered_product.

Theorem C01_nested_block_is_ordered_product : forall (R : cring) (c : comp R), wf c ->
  forall off M, (off + width c <= M)%nat ->
  meq M (embed off (width c) (cmat c)) (oprod M (leaf_mats M (flatten off c))).
Proof. exact cmat_flatten_gen. Qed.
Print Assumptions C01_nested_block_is_ordered_product.

Theorem C01_unitary : forall (R : cring) (c : comp R), wf c -> leaves_unitary R c -> unitary (width c) (cmat c).
Proof. exact cmat_unitary. Qed.
Print Assumptions C01_unitary.

Theorem C01_merge_eq_nest : forall (R : cring) (c : comp R) off s c1 c2, wf c -> wf s ->
  add c off s true = Some c1 -> add c off s false = Some c2 -> meq (width c) (cmat c1) (cmat c2).
Proof. exact merge_eq_nest. Qed.
Print Assumptions C01_merge_eq_nest.

Theorem C01_barrier_neutral : forall (R : cring) m (l1 l2 : list (nat * comp R)),
  meq m (cmat (Sub m (l1 ++ (0%nat, Leaf m mid) :: l2))) (cmat (Sub m (l1 ++ l2))).
Proof. exact barrier_neutral. Qed.
Print Assumptions C01_barrier_neutral.

Theorem C01_add_rejects_exactly_misfits : forall (R : cring) m (items : list (nat * comp R)) off s merge,
  add (Sub m items) off s merge = None <-> (m < off + width s)%nat.
Proof. exact add_rejects. Qed.
Print Assumptions C01_add_rejects_exactly_misfits.

Theorem C01_add_preserves_wf : forall (R : cring) (c : comp R) off s merge c',
  wf c -> wf s -> add c off s merge = Some c' -> wf c' /\ width c' = width c.
Proof. exact add_wf. Qed.
Print Assumptions C01_add_preserves_wf.

(* add given an explicit list / tuple of modes: accepted exactly for the consecutive ascending range o, ..., o+k-1, and
   then it is the add at offset o; permuted, repeated, gapped, short, long, negative and empty ranges are refused *)
From PV Require Import Model.CircuitX Proofs.CircuitRangeP.
Theorem C01_explicit_range_accepted_iff_consecutive : forall r k o, (0 < k)%nat ->
  (range_off r k = Some o <-> r = map Z.of_nat (seq o k)).
Proof. exact range_off_spec. Qed.
Print Assumptions C01_explicit_range_accepted_iff_consecutive.

Theorem C01_explicit_range_refused_otherwise : forall r k, (0 < k)%nat ->
  (forall o, r <> map Z.of_nat (seq o k)) -> range_off r k = None.
Proof. exact range_off_refuses. Qed.
Print Assumptions C01_explicit_range_refused_otherwise.

Example C01_explicit_range_examples :
  range_off [1; 2; 3]%Z 3 = Some 1%nat /\ range_off [0; 2; 1; 3]%Z 4 = None /\ range_off [1; 1; 3]%Z 3 = None /\
  range_off [1; 3]%Z 2 = None /\ range_off [1; 2]%Z 3 = None /\ range_off [(-1); 0]%Z 2 = None /\ range_off [] 1 = None.
Proof. exact range_off_examples. Qed.
