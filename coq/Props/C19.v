(* C19 — A job group on disk always matches the group in memory.
   Model: Model/JobGroup.v (memory = job records, disk = JSON image, server = script of answers, operations with the
   write points of the code). `Exact m` : the file is exactly the image of memory (save (mem m) = Some (disk m));
   `reload_equiv m` : re-opening the group yields the same observable list (identifier, status if sent, metadata,
   request body unless successful); `skeleton m` : identifiers and metadata on disk are those of memory;
   `op_ok` : jobs without job_context / mapping parameters and no max_samples left unfilled; `quiet` : no operation
   raised the model's ghost flag "a status changed inside a launch loop and no write followed".

   The full statement   forall ops sc, reload_equiv (run (init sc) ops)   is FALSE of the faithful model; the four
   `_refuted` theorems are its counterexamples (each replays on the implementation, see known_findings.json). *)
From PV Require Import Model.JobGroup Proofs.JobGroupP.
Require Import List ZArith.
Import ListNotations.

Theorem C19_disk_matches_memory_partial : forall sc ops1 ops2,
  Forall op_ok (ops1 ++ ops2) -> quiet (init sc) (ops1 ++ ops2) ->
  Exact (run (init sc) ops1) /\ reload_equiv (run (init sc) ops1).
Proof. exact disk_matches_memory_partial. Qed.
Print Assumptions C19_disk_matches_memory_partial.

Theorem C19_disk_matches_memory_calm_operations : forall sc ops,
  Forall op_ok ops -> Forall calm_op ops -> Exact (run (init sc) ops) /\ reload_equiv (run (init sc) ops).
Proof. exact disk_matches_memory_calm. Qed.
Print Assumptions C19_disk_matches_memory_calm_operations.

Theorem C19_every_operation_preserves : forall ex m o m' out,
  Forall good (mem m) -> skeleton m -> DiskOk (disk m) -> (ex = true -> Exact m) -> op_ok o -> step m o = (m', out) ->
  Forall good (mem m') /\ skeleton m' /\ DiskOk (disk m') /\ (ex = true -> udirty m' = false -> Exact m').
Proof. exact step_inv. Qed.
Print Assumptions C19_every_operation_preserves.

Theorem C19_accepted_ids_survive : forall sc ops, Forall op_ok ops ->
  skeleton (run (init sc) ops) /\ Exact (fst (step (run (init sc) ops) OReopen)).
Proof. exact accepted_ids_survive. Qed.
Print Assumptions C19_accepted_ids_survive.

Theorem C19_request_same_after_reopen : forall sc ops1 ops2,
  Forall op_ok (ops1 ++ ops2) -> quiet (init sc) (ops1 ++ ops2) ->
  let m := run (init sc) ops1 in
  Forall2 (fun j j' => jid j' = jid j /\ (success (jst j) = false -> eff_body j' = eff_body j)) (mem m) (load (disk m)).
Proof. exact request_same_after_reopen. Qed.
Print Assumptions C19_request_same_after_reopen.

Theorem C19_progress_partitions : forall l,
  progress l = (count cat_unsent l, count cat_success l, count cat_other l, count cat_active l) /\
  (count cat_unsent l + count cat_success l + count cat_other l + count cat_active l = length l)%nat.
Proof. exact progress_partitions. Qed.
Print Assumptions C19_progress_partitions.

Theorem C19_progress_categories : forall j,
  (cat_success j = true <-> sent j = true /\ jst j = SUCCESS) /\
  (cat_other j = true <-> sent j = true /\ In (jst j) [ERROR; CANCELED; SUSPENDED; UNKNOWN]) /\
  (cat_active j = true <-> sent j = true /\ In (jst j) [WAITING; RUNNING; CANCEL_REQUESTED]) /\
  (cat_unsent j = true <-> jid j = None).
Proof. exact progress_categories. Qed.
Print Assumptions C19_progress_categories.

Theorem C19_no_duplicate_id : forall m j i kms kbad,
  jid j = Some i -> In (Some i) (map jid (mem m)) -> add_job m j kms kbad = (m, Raised E_DUP).
Proof. exact no_duplicate_id. Qed.
Print Assumptions C19_no_duplicate_id.

Theorem C19_add_appends_once : forall m j kms kbad m',
  add_job m j kms kbad = (m', Returned) -> exists j', mem m' = mem m ++ [j'] /\ jid j' = jid j.
Proof. exact add_appends_once. Qed.
Print Assumptions C19_add_appends_once.

(* counterexamples to the full statement *)
Theorem C19_disk_matches_memory_refuted_context : exists ops sc, ~ reload_equiv (run (init sc) ops).
Proof. exact disk_matches_memory_refuted_context. Qed.
Print Assumptions C19_disk_matches_memory_refuted_context.

Theorem C19_disk_matches_memory_refuted_unfilled :
  exists ops sc, snd (step (init sc) (hd OReopen ops)) = Raised E_TYPE /\ ~ reload_equiv (run (init sc) ops).
Proof. exact disk_matches_memory_refuted_unfilled. Qed.
Print Assumptions C19_disk_matches_memory_refuted_unfilled.

Theorem C19_disk_matches_memory_refuted_rerun_loop :
  exists ops sc, Forall op_ok ops /\ snd (step (run (init sc) (removelast ops)) (last ops OReopen)) = Returned /\
                 ~ reload_equiv (run (init sc) ops).
Proof. exact disk_matches_memory_refuted_rerun_loop. Qed.
Print Assumptions C19_disk_matches_memory_refuted_rerun_loop.

Theorem C19_disk_matches_memory_refuted_sequential_wait :
  exists ops sc, Forall op_ok ops /\ snd (step (run (init sc) (removelast ops)) (last ops OReopen)) = Raised E_HTTP /\
                 ~ reload_equiv (run (init sc) ops).
Proof. exact disk_matches_memory_refuted_sequential_wait. Qed.
Print Assumptions C19_disk_matches_memory_refuted_sequential_wait.

Theorem C19_request_same_after_reopen_refuted :
  exists s sc, rlog (run (init sc) [OAdd s false None false; ORun false]) <>
               rlog (run (init sc) [OAdd s false None false; OReopen; ORun false]).
Proof. exact request_same_after_reopen_refuted. Qed.
Print Assumptions C19_request_same_after_reopen_refuted.

(* the hypotheses of the partial theorems are satisfiable (a 10-operation history with a refusal, a re-run, a
   re-open and a sequential launch) *)
Theorem C19_hypotheses_satisfiable :
  exists ops sc, Forall op_ok ops /\ quiet (init sc) ops /\ length (mem (run (init sc) ops)) = 2%nat.
Proof. eexists _, _. exact hypotheses_satisfiable. Qed.
Print Assumptions C19_hypotheses_satisfiable.
