(* C19 — A job group on disk always matches the group in memory.
   Model: Model/JobGroup.v (memory = job records, disk = JSON image, server = script of answers, operations with the
   write points of the code; the log `rlog` is what the outside world sees, in order: HTTP requests and whole-file
   writes). Configuration `cur` = the code as it is now, after the repairs bf317fcd (_from_dict restores job_context),
   13320b52 (add validates before the append) and 9afb11d4 (_launch_jobs writes once more on leaving its loop, normally
   or by an exception, iff the jobs differ from what was last written or read); `old` / `before_9afb11d4` = before
   them (historical `_old_code` witnesses only).
   `Exact m` : the file is exactly the image of memory (save (mem m) = Some (disk m));
   `reload_equiv m` : re-opening the group yields the same observable list (identifier, status if sent, metadata,
   request body unless successful); `skeleton m` : identifiers and metadata on disk are those of memory.
   `WExact w` : several groups — every live group object is exact with respect to the file of its own name.
   The statement holds in FULL: every history over every public entry point of JobGroup (get_results and
   track_progress included), every job, every server script, operations returning or raising; no admissibility
   condition, no ghost hypothesis. The fourth repair, 65ec16e2 (get_results writes once more on leaving its per-job
   loop iff the jobs differ), is part of `cur`; `before_65ec16e2` is the configuration of its historical witness. *)
From PV Require Import Model.JobGroup Proofs.JobGroupP.
Require Import List ZArith.
Import ListNotations.

Theorem C19_disk_matches_memory : forall sc ops,
  Exact (run cur (init sc) ops) /\ reload_equiv (run cur (init sc) ops).
Proof. exact disk_matches_memory. Qed.
Print Assumptions C19_disk_matches_memory.

Theorem C19_every_operation_preserves : forall m o m' out,
  Forall good (mem m) -> Exact m -> step cur m o = (m', out) -> Forall good (mem m') /\ Exact m'.
Proof. exact step_exact. Qed.
Print Assumptions C19_every_operation_preserves.

(* from ANY state in which jobs are well-formed, identifiers/metadata on disk are those of memory and the file is the
   image of well-formed jobs (e.g. a directory left by an older version), these three facts are preserved *)
Theorem C19_every_operation_preserves_weakly : forall m o m' out, WInv m -> step cur m o = (m', out) -> WInv m'.
Proof. exact step_weak. Qed.
Print Assumptions C19_every_operation_preserves_weakly.

(* the hypotheses of the step theorem hold initially *)
Theorem C19_initial_state : forall sc, Forall good (mem (init sc)) /\ Exact (init sc).
Proof. exact init_good. Qed.
Print Assumptions C19_initial_state.

Theorem C19_accepted_ids_survive : forall sc ops,
  skeleton (run cur (init sc) ops) /\ Exact (fst (step cur (run cur (init sc) ops) OReopen)).
Proof. exact accepted_ids_survive. Qed.
Print Assumptions C19_accepted_ids_survive.

Theorem C19_request_same_after_reopen : forall sc ops,
  let m := run cur (init sc) ops in
  Forall2 (fun j j' => jid j' = jid j /\ (success (jst j) = false -> eff_body j' = eff_body j)) (mem m) (load cur (disk m)).
Proof. exact request_same_after_reopen. Qed.
Print Assumptions C19_request_same_after_reopen.

(* several groups: a file store indexed by name *)
Theorem C19_world_disk_matches_memory : forall ops sc, WExact (mrun cur (winit sc) ops).
Proof. exact world_disk_matches_memory. Qed.
Print Assumptions C19_world_disk_matches_memory.

Theorem C19_world_operation_preserves : forall w o w' out, WExact w -> mstep cur w o = (w', out) -> WExact w'.
Proof. exact mstep_exact. Qed.
Print Assumptions C19_world_operation_preserves.

(* an operation about the name n neither reads nor writes anything stored under another name *)
Theorem C19_other_names_untouched : forall w o w' out n n', mop_name o = Some n -> n <> n' -> mstep cur w o = (w', out) ->
  sget n' (files w') = sget n' (files w) /\ sget n' (handles w') = sget n' (handles w).
Proof. exact mstep_frame. Qed.
Print Assumptions C19_other_names_untouched.

(* re-opening by the same name returns what was written under that name (and writes nothing) *)
Theorem C19_reopen_by_name : forall w n l w' out,
  WExact w -> sget n (handles w) = Some l -> mstep cur w (MOpen n) = (w', out) ->
  files w' = files w /\ exists l', sget n (handles w') = Some l' /\ map obs l' = map obs l.
Proof. exact reopen_by_name. Qed.
Print Assumptions C19_reopen_by_name.

(* leaving the launch loop: one more write iff the image differs; memory, script and outcome untouched *)
Theorem C19_write_on_exit : forall m o m' o', Forall good (mem m) -> finish cur (m, o) = (m', o') ->
  mem m' = mem m /\ scr m' = scr m /\ o' = o /\ Exact m' /\ udirty m' = false.
Proof. exact finish_exact. Qed.
Print Assumptions C19_write_on_exit.

Theorem C19_progress_partitions : forall l,
  progress l = (count cat_unsent l, count cat_success l, count cat_other l, count cat_active l) /\
  (count cat_unsent l + count cat_success l + count cat_other l + count cat_active l = length l)%nat.
Proof. exact progress_partitions. Qed.
Print Assumptions C19_progress_partitions.

Theorem C19_progress_categories : forall j,
  (cat_success j = true <-> sent j = true /\ jst j = SUCCESS) /\
  (cat_other j = true <-> sent j = true /\ In (jst j) [ERROR; CANCELED; SUSPENDED; UNKNOWN]) /\
  (cat_active j = true <-> sent j = true /\ In (jst j) [WAITING; RUNNING; CANCEL_REQUESTED]) /\
  (cat_unsent j = true <-> jid j = None).
Proof. exact progress_categories. Qed.
Print Assumptions C19_progress_categories.

Theorem C19_no_duplicate_id : forall m j i kms kbad,
  jid j = Some i -> In (Some i) (map jid (mem m)) -> add_job cur m j kms kbad = (m, Raised E_DUP).
Proof. exact no_duplicate_id. Qed.
Print Assumptions C19_no_duplicate_id.

Theorem C19_add_appends_once : forall m j kms kbad m',
  add_job cur m j kms kbad = (m', Returned) -> exists j', mem m' = mem m ++ [j'] /\ jid j' = jid j.
Proof. exact add_appends_once. Qed.
Print Assumptions C19_add_appends_once.

Theorem C19_add_raises_changes_nothing : forall m j kms kbad m' e,
  Forall good (mem m) -> jwf j -> add_job cur m j kms kbad = (m', Raised e) -> m' = m.
Proof. exact add_raises_changes_nothing. Qed.
Print Assumptions C19_add_raises_changes_nothing.

(* a sent job of the group added again is refused, whatever gave it its identifier: the refusal is a function of
   the CURRENT list of jobs (position k of memory), not of a separate record of identifiers *)
Theorem C19_readd_refused : forall m k j,
  nth_error (mem m) k = Some j -> sent j = true -> add_job cur m j None false = (m, Raised E_DUP).
Proof. exact readd_refused. Qed.
Print Assumptions C19_readd_refused.

(* if the server never issues an identifier twice, no identifier appears twice in memory or on disk after any
   operation of any history (sent before add, launched, re-run with or without replacement, reloaded) *)
Theorem C19_no_identifier_twice : forall sc ops, NoDup (scids sc) ->
  let m := run cur (init sc) ops in
  NoDup (sids (mem m)) /\ NoDup (flat_map (fun d => match d_id d with Some i => [i] | None => [] end) (disk m)).
Proof. exact no_identifier_twice. Qed.
Print Assumptions C19_no_identifier_twice.

Theorem C19_fresh_identifiers_satisfiable : exists sc, NoDup (scids sc) /\ length sc = 3%nat.
Proof.
  exists [AOk 10%Z WAITING; AFatal; AOk 11%Z ERROR]. split; [|reflexivity].
  simpl. repeat constructor; simpl; intuition discriminate.
Qed.
Print Assumptions C19_fresh_identifiers_satisfiable.

(* HISTORICAL counterexamples, about the code before bf317fcd / 13320b52 (configuration `old`) *)
Theorem C19_disk_matches_memory_refuted_context_old_code : exists ops sc, ~ reload_equiv_old (run old (init sc) ops).
Proof. exact disk_matches_memory_refuted_context_old_code. Qed.
Print Assumptions C19_disk_matches_memory_refuted_context_old_code.

Theorem C19_disk_matches_memory_refuted_unfilled_old_code :
  exists ops sc, snd (step old (init sc) (hd OReopen ops)) = Raised E_TYPE /\ ~ reload_equiv_old (run old (init sc) ops).
Proof. exact disk_matches_memory_refuted_unfilled_old_code. Qed.
Print Assumptions C19_disk_matches_memory_refuted_unfilled_old_code.

Theorem C19_request_same_after_reopen_refuted_old_code :
  exists s sc, rlog (run old (init sc) [OAdd s false None false; ORun false]) <>
               rlog (run old (init sc) [OAdd s false None false; OReopen; ORun false]).
Proof. exact request_same_after_reopen_refuted_old_code. Qed.
Print Assumptions C19_request_same_after_reopen_refuted_old_code.

(* ... and the same three histories satisfy the property on the current code *)
Theorem C19_repaired_witnesses :
  reload_equiv (run cur (init []) [OAdd sp_ctx false None false]) /\
  step cur (init []) (OAdd sp_unfilled false None false) = (init [], Raised E_TYPE) /\
  rlog (run cur (init [AOk 10 WAITING]) [OAdd sp_ctx false None false; ORun false]) =
  rlog (run cur (init [AOk 10 WAITING]) [OAdd sp_ctx false None false; OReopen; ORun false]).
Proof. exact repaired_witnesses. Qed.
Print Assumptions C19_repaired_witnesses.

(* HISTORICAL counterexamples, about the code before 9afb11d4 *)
Theorem C19_disk_matches_memory_refuted_rerun_loop_old_code :
  exists ops sc, snd (step before_9afb11d4 (run before_9afb11d4 (init sc) (removelast ops)) (last ops OReopen)) = Returned /\
                 ~ reload_equiv_b (run before_9afb11d4 (init sc) ops).
Proof. exact disk_matches_memory_refuted_rerun_loop_old_code. Qed.
Print Assumptions C19_disk_matches_memory_refuted_rerun_loop_old_code.

Theorem C19_disk_matches_memory_refuted_sequential_wait_old_code :
  exists ops sc, snd (step before_9afb11d4 (run before_9afb11d4 (init sc) (removelast ops)) (last ops OReopen)) = Raised E_HTTP /\
                 ~ reload_equiv_b (run before_9afb11d4 (init sc) ops).
Proof. exact disk_matches_memory_refuted_sequential_wait_old_code. Qed.
Print Assumptions C19_disk_matches_memory_refuted_sequential_wait_old_code.

(* ... the same two histories on the current code: same outcomes, and exactly one more write than before the repair;
   a classic run writes exactly as often as before (6 writes: 2 adds, 2 launches, 2 status changes) *)
Theorem C19_repaired_launch_witnesses :
  let h1 := [OAdd (sp 1) true None false; ORerun false false] in
  let s1 := [AOk 10%Z WAITING; AOk 11%Z WAITING; AOk 12%Z RUNNING] in
  let h2 := [OAdd (sp 1) false None false; ORun true] in
  let s2 := [AOk 10%Z WAITING; AOk 11%Z RUNNING] in
  snd (step cur (run cur (init s1) (removelast h1)) (last h1 OReopen)) = Returned /\
  snd (step cur (run cur (init s2) (removelast h2)) (last h2 OReopen)) = Raised E_HTTP /\
  writes (run cur (init s1) h1) = S (writes (run before_9afb11d4 (init s1) h1)) /\
  writes (run cur (init s2) h2) = S (writes (run before_9afb11d4 (init s2) h2)).
Proof. exact repaired_launch_witnesses. Qed.
Print Assumptions C19_repaired_launch_witnesses.

Theorem C19_classic_run_same_writes :
  let h := [OAdd (sp 1) false None false; OAdd (sp 2) false None false; ORun false; OProgress] in
  let s := [AOk 10%Z WAITING; AOk 11%Z WAITING; AOk 0%Z SUCCESS; AOk 0%Z SUCCESS] in
  writes (run cur (init s) h) = writes (run before_9afb11d4 (init s) h) /\ writes (run cur (init s) h) = 6%nat.
Proof. exact classic_run_same_writes. Qed.
Print Assumptions C19_classic_run_same_writes.

(* HISTORICAL counterexample, about the code before 65ec16e2 *)
Theorem C19_disk_matches_memory_refuted_get_results_old_code :
  exists ops sc, snd (step before_65ec16e2 (run before_65ec16e2 (init sc) (removelast ops)) (last ops OReopen)) = Returned /\
                 ~ reload_equiv_r (run before_65ec16e2 (init sc) ops).
Proof. exact disk_matches_memory_refuted_get_results_old_code. Qed.
Print Assumptions C19_disk_matches_memory_refuted_get_results_old_code.

Theorem C19_repaired_get_results_witness :
  let h := [OAdd (sp 1) true None false; OGetResults] in
  let s := [AOk 10%Z WAITING; AOk 11%Z UNKNOWN; AOk 12%Z SUCCESS; AOk 0%Z WAITING] in
  snd (step cur (run cur (init s) (removelast h)) (last h OReopen)) = Returned /\
  writes (run cur (init s) h) = S (writes (run before_65ec16e2 (init s) h)).
Proof. exact repaired_get_results_witness. Qed.
Print Assumptions C19_repaired_get_results_witness.
