(* C19 — A job group on disk always matches the group in memory.
   Model: Model/JobGroup.v (memory = job records, disk = JSON image, server = script of answers, operations with the
   write points of the code). Configuration `cur` = the code as it is now (after the repairs bf317fcd: _from_dict
   restores job_context, and 13320b52: add validates before the append); `old` = before them (historical witnesses).
   `Exact m` : the file is exactly the image of memory (save (mem m) = Some (disk m));
   `reload_equiv m` : re-opening the group yields the same observable list (identifier, status if sent, metadata,
   request body unless successful); `skeleton m` : identifiers and metadata on disk are those of memory;
   `quiet` : no operation raised the model's ghost flag "a status changed inside a launch loop and no write followed".
   There is no admissibility condition on the jobs any more (job_context, delta parameters, keywords: all covered).

   The full statement   forall ops sc, reload_equiv (run cur (init sc) ops)   is still FALSE of the faithful model of
   the current code, because of the open launch-loop finding: `_refuted_rerun_loop` and `_refuted_sequential_wait`
   are its counterexamples (they replay on the implementation, see known_findings.json). *)
From PV Require Import Model.JobGroup Proofs.JobGroupP.
Require Import List ZArith.
Import ListNotations.

Theorem C19_disk_matches_memory_partial : forall sc ops1 ops2,
  quiet (init sc) (ops1 ++ ops2) ->
  Exact (run cur (init sc) ops1) /\ reload_equiv (run cur (init sc) ops1).
Proof. exact disk_matches_memory_partial. Qed.
Print Assumptions C19_disk_matches_memory_partial.

Theorem C19_disk_matches_memory_calm_operations : forall sc ops,
  Forall calm_op ops -> Exact (run cur (init sc) ops) /\ reload_equiv (run cur (init sc) ops).
Proof. exact disk_matches_memory_calm. Qed.
Print Assumptions C19_disk_matches_memory_calm_operations.

Theorem C19_every_operation_preserves : forall ex m o m' out,
  Forall good (mem m) -> skeleton m -> DiskOk (disk m) -> (ex = true -> Exact m) -> step cur m o = (m', out) ->
  Forall good (mem m') /\ skeleton m' /\ DiskOk (disk m') /\ (ex = true -> udirty m' = false -> Exact m').
Proof. exact step_inv. Qed.
Print Assumptions C19_every_operation_preserves.

Theorem C19_accepted_ids_survive : forall sc ops,
  skeleton (run cur (init sc) ops) /\ Exact (fst (step cur (run cur (init sc) ops) OReopen)).
Proof. exact accepted_ids_survive. Qed.
Print Assumptions C19_accepted_ids_survive.

Theorem C19_request_same_after_reopen : forall sc ops1 ops2,
  quiet (init sc) (ops1 ++ ops2) ->
  let m := run cur (init sc) ops1 in
  Forall2 (fun j j' => jid j' = jid j /\ (success (jst j) = false -> eff_body j' = eff_body j)) (mem m) (load cur (disk m)).
Proof. exact request_same_after_reopen. Qed.
Print Assumptions C19_request_same_after_reopen.

Theorem C19_progress_partitions : forall l,
  progress l = (count cat_unsent l, count cat_success l, count cat_other l, count cat_active l) /\
  (count cat_unsent l + count cat_success l + count cat_other l + count cat_active l = length l)%nat.
Proof. exact progress_partitions. Qed.
Print Assumptions C19_progress_partitions.

Theorem C19_progress_categories : forall j,
  (cat_success j = true <-> sent j = true /\ jst j = SUCCESS) /\
  (cat_other j = true <-> sent j = true /\ In (jst j) [ERROR; CANCELED; SUSPENDED; UNKNOWN]) /\
  (cat_active j = true <-> sent j = true /\ In (jst j) [WAITING; RUNNING; CANCEL_REQUESTED]) /\
  (cat_unsent j = true <-> jid j = None).
Proof. exact progress_categories. Qed.
Print Assumptions C19_progress_categories.

Theorem C19_no_duplicate_id : forall m j i kms kbad,
  jid j = Some i -> In (Some i) (map jid (mem m)) -> add_job cur m j kms kbad = (m, Raised E_DUP).
Proof. exact no_duplicate_id. Qed.
Print Assumptions C19_no_duplicate_id.

Theorem C19_add_appends_once : forall m j kms kbad m',
  add_job cur m j kms kbad = (m', Returned) -> exists j', mem m' = mem m ++ [j'] /\ jid j' = jid j.
Proof. exact add_appends_once. Qed.
Print Assumptions C19_add_appends_once.

Theorem C19_add_raises_changes_nothing : forall m j kms kbad m' e,
  Forall good (mem m) -> jwf j -> add_job cur m j kms kbad = (m', Raised e) -> m' = m.
Proof. exact add_raises_changes_nothing. Qed.
Print Assumptions C19_add_raises_changes_nothing.

(* a sent job of the group added again is refused, whatever gave it its identifier: the refusal is a function of
   the CURRENT list of jobs (position k of memory), not of a separate record of identifiers *)
Theorem C19_readd_refused : forall m k j,
  nth_error (mem m) k = Some j -> sent j = true -> add_job cur m j None false = (m, Raised E_DUP).
Proof. exact readd_refused. Qed.
Print Assumptions C19_readd_refused.

(* if the server never issues an identifier twice, no identifier appears twice in memory or on disk after any
   operation of any history (sent before add, launched, re-run with or without replacement, reloaded) *)
Theorem C19_no_identifier_twice : forall sc ops, NoDup (scids sc) ->
  let m := run cur (init sc) ops in
  NoDup (sids (mem m)) /\ NoDup (flat_map (fun d => match d_id d with Some i => [i] | None => [] end) (disk m)).
Proof. exact no_identifier_twice. Qed.
Print Assumptions C19_no_identifier_twice.

Theorem C19_fresh_identifiers_satisfiable : exists sc, NoDup (scids sc) /\ length sc = 3%nat.
Proof.
  exists [AOk 10%Z WAITING; AFatal; AOk 11%Z ERROR]. split; [|reflexivity].
  simpl. repeat constructor; simpl; intuition discriminate.
Qed.
Print Assumptions C19_fresh_identifiers_satisfiable.

(* counterexamples to the full statement on the CURRENT code (open finding launch-loop-status-change-not-written) *)
Theorem C19_disk_matches_memory_refuted_rerun_loop :
  exists ops sc, snd (step cur (run cur (init sc) (removelast ops)) (last ops OReopen)) = Returned /\
                 ~ reload_equiv (run cur (init sc) ops).
Proof. exact disk_matches_memory_refuted_rerun_loop. Qed.
Print Assumptions C19_disk_matches_memory_refuted_rerun_loop.

Theorem C19_disk_matches_memory_refuted_sequential_wait :
  exists ops sc, snd (step cur (run cur (init sc) (removelast ops)) (last ops OReopen)) = Raised E_HTTP /\
                 ~ reload_equiv (run cur (init sc) ops).
Proof. exact disk_matches_memory_refuted_sequential_wait. Qed.
Print Assumptions C19_disk_matches_memory_refuted_sequential_wait.

(* HISTORICAL counterexamples, about the code before bf317fcd / 13320b52 (configuration `old`) *)
Theorem C19_disk_matches_memory_refuted_context_old_code : exists ops sc, ~ reload_equiv_old (run old (init sc) ops).
Proof. exact disk_matches_memory_refuted_context_old_code. Qed.
Print Assumptions C19_disk_matches_memory_refuted_context_old_code.

Theorem C19_disk_matches_memory_refuted_unfilled_old_code :
  exists ops sc, snd (step old (init sc) (hd OReopen ops)) = Raised E_TYPE /\ ~ reload_equiv_old (run old (init sc) ops).
Proof. exact disk_matches_memory_refuted_unfilled_old_code. Qed.
Print Assumptions C19_disk_matches_memory_refuted_unfilled_old_code.

Theorem C19_request_same_after_reopen_refuted_old_code :
  exists s sc, rlog (run old (init sc) [OAdd s false None false; ORun false]) <>
               rlog (run old (init sc) [OAdd s false None false; OReopen; ORun false]).
Proof. exact request_same_after_reopen_refuted_old_code. Qed.
Print Assumptions C19_request_same_after_reopen_refuted_old_code.

(* ... and the same three histories satisfy the property on the current code *)
Theorem C19_repaired_witnesses :
  reload_equiv (run cur (init []) [OAdd sp_ctx false None false]) /\
  step cur (init []) (OAdd sp_unfilled false None false) = (init [], Raised E_TYPE) /\
  rlog (run cur (init [AOk 10 WAITING]) [OAdd sp_ctx false None false; ORun false]) =
  rlog (run cur (init [AOk 10 WAITING]) [OAdd sp_ctx false None false; OReopen; ORun false]).
Proof. exact repaired_witnesses. Qed.
Print Assumptions C19_repaired_witnesses.

(* the hypothesis of the partial theorems is satisfiable (a 10-operation history with a job_context job, a keyword
   fill, a refusal, a re-run, a re-open and a sequential launch) *)
Theorem C19_hypotheses_satisfiable :
  exists ops sc, quiet (init sc) ops /\ length (mem (run cur (init sc) ops)) = 2%nat.
Proof. eexists _, _. exact hypotheses_satisfiable. Qed.
Print Assumptions C19_hypotheses_satisfiable.
