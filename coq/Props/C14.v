(* C14 — Elementary components realise their documented matrices for all parameter values.
   Only statements + [exact] + Print Assumptions live here. *)
From Coq Require Import Reals QArith.
From PV Require Import Model.Components Model.Param Proofs.ComponentsP Proofs.ParamP Proofs.TrigInst.

(* generic: any commutative ring with conjugation, any (c,s) with c^2+s^2=1 real, any unit phases *)
Theorem C14_bs_unitary_generic : forall (R : cring) (ii c s tl bl tr br : R),
  kmul ii ii = kopp k1 -> kconj ii = kopp ii -> kmul c c = ksub k1 (kmul s s) -> kconj c = c -> kconj s = s ->
  kmul tl (kconj tl) = k1 -> kmul bl (kconj bl) = k1 -> kmul tr (kconj tr) = k1 -> kmul br (kconj br) = k1 ->
  forall cv, unitary 2 (bs_mat cv ii c s tl bl tr br).
Proof. exact bs_unitary. Qed.
Print Assumptions C14_bs_unitary_generic.

(* every real value of the five angles, the three conventions *)
Theorem C14_bs_unitary_real : forall cv (theta tl bl tr br : R), unitary 2 (bs_doc cv theta tl bl tr br).
Proof. exact bs_unitary_real. Qed.
Print Assumptions C14_bs_unitary_real.

Theorem C14_ps_unitary_real : forall phi : R, unitary 1 (ps_mat (R:=CX) (cexp phi)).
Proof. exact ps_unitary_real. Qed.
Print Assumptions C14_ps_unitary_real.

Theorem C14_wp_unitary_real : forall delta xsi : R,
  unitary 2 (wp_mat (R:=CX) cI (creal (cos delta)) (creal (sin delta)) (creal (cos (2*xsi))) (creal (sin (2*xsi)))).
Proof. exact wp_unitary_real. Qed.
Print Assumptions C14_wp_unitary_real.

Theorem C14_pr_unitary_real : forall delta : R, unitary 2 (pr_mat (R:=CX) (creal (cos delta)) (creal (sin delta))).
Proof. exact pr_unitary_real. Qed.
Print Assumptions C14_pr_unitary_real.

(* permutations of any size: unitary, and input mode k leaves on the mode listed at position k *)
Theorem C14_perm_unitary : forall (R : cring) n p q, bij_on n p q -> unitary n (pmat (R:=R) p).
Proof. exact pmat_unitary. Qed.
Print Assumptions C14_perm_unitary.
Theorem C14_perm_action : forall (R : cring) (p : list nat) i k, perm_mat (R:=R) p i k = delta i (nth k p k).
Proof. intros. reflexivity. Qed.
Print Assumptions C14_perm_action.

(* out-of-range values: stored value in range, shifted by whole ranges; whole ranges are invisible *)
Theorem C14_wrap_in_range : forall v lo hi : Q, (lo < hi)%Q ->
  exists v', check_value v (Some lo) (Some hi) true = WOk v' /\ (lo <= v' <= hi)%Q /\
             exists k : Z, (v' == v + inject_Z k * (hi - lo))%Q.
Proof. exact check_value_periodic. Qed.
Print Assumptions C14_wrap_in_range.

Theorem C14_bs_period : forall cv (theta tl bl tr br : R) (kt k1 k2 k3 k4 : Z),
  bs_doc cv (theta + IZR kt * (4 * PI)) (tl + IZR k1 * (2*PI)) (bl + IZR k2 * (2*PI))
            (tr + IZR k3 * (2*PI)) (br + IZR k4 * (2*PI)) = bs_doc cv theta tl bl tr br.
Proof. exact bs_period. Qed.
Print Assumptions C14_bs_period.
Theorem C14_ps_period : forall (phi : R) (k : Z), ps_mat (R:=CX) (cexp (phi + IZR k * (2*PI))) = ps_mat (cexp phi).
Proof. exact ps_period. Qed.
Print Assumptions C14_ps_period.
Theorem C14_wp_period : forall (delta xsi : R) (k k' : Z),
  wp_mat (R:=CX) cI (creal (cos (delta + IZR k * (2*PI)))) (creal (sin (delta + IZR k * (2*PI))))
         (creal (cos (2*(xsi + IZR k' * (2*PI))))) (creal (sin (2*(xsi + IZR k' * (2*PI)))))
  = wp_mat cI (creal (cos delta)) (creal (sin delta)) (creal (cos (2*xsi))) (creal (sin (2*xsi))).
Proof. exact wp_period. Qed.
Print Assumptions C14_wp_period.
Theorem C14_pr_period : forall (delta : R) (k : Z),
  pr_mat (R:=CX) (creal (cos (delta + IZR k * (2*PI)))) (creal (sin (delta + IZR k * (2*PI))))
  = pr_mat (creal (cos delta)) (creal (sin delta)).
Proof. exact pr_period. Qed.
Print Assumptions C14_pr_period.
