(* C02 — Every strong-simulation engine returns the boson-sampling amplitudes. *)
From PV Require Import Model.Engines Proofs.EnginesP.

(* the specification is the textbook permanent: Laplace expansion of the explicit n x n matrix whose
   rows are the output modes (with multiplicity) and whose columns are the input modes *)
Theorem C02_spec_is_textbook_permanent : forall (R : cring) (U : mat R) m cols t,
  length t = m -> permR U cols (rows_of t) = permS U m cols t.
Proof. exact permR_permS. Qed.
Print Assumptions C02_spec_is_textbook_permanent.

(* Naive: _compute_submatrix followed by the permanent, with the n = 0 and n-differs special cases *)
Theorem C02_naive_is_spec : forall (R : cring) (U : mat R) m s t,
  length t = m -> naive_amp_num U s t = amp_num U m s t.
Proof. exact naive_is_spec. Qed.
Print Assumptions C02_naive_is_spec.

(* SLOS: coefficient * prod t! is the permanent, for all sizes, bunched inputs and outputs included *)
Theorem C02_slos_is_spec : forall (R : cring) (U : mat R) m s t, slos_amp_num U m s t = amp_num U m s t.
Proof. exact slos_is_spec. Qed.
Print Assumptions C02_slos_is_spec.

Theorem C02_slos_coefficient_is_permanent : forall (R : cring) (U : mat R) m cols t,
  length t = m -> permR U cols (rows_of t) = kmul (of_nat (factprod t)) (slos U m cols t).
Proof. exact permR_slos. Qed.
Print Assumptions C02_slos_coefficient_is_permanent.

Theorem C02_zero_if_photon_numbers_differ : forall (R : cring) (U : mat R) m s t,
  total s <> total t -> amp_num U m s t = k0.
Proof. exact amp_zero_if_n_differs. Qed.
Print Assumptions C02_zero_if_photon_numbers_differ.

Theorem C02_permanent_zero_if_sizes_differ : forall (R : cring) (U : mat R) m cols t,
  total t <> length cols -> permS U m cols t = k0.
Proof. exact permS_zero_if_n_differs. Qed.
Print Assumptions C02_permanent_zero_if_sizes_differ.

(* a mask (FSMask rule, any number of masks, any photon number) returns the same values on kept states *)
Theorem C02_mask_sound : forall (R : cring) (U : mat R) m n mks cols t,
  mask_keep n mks t = true -> slosK U m (mask_keep n mks) cols t = slos U m cols t.
Proof. exact masked_slos_sound. Qed.
Print Assumptions C02_mask_sound.

Theorem C02_pruning_sound : forall (R : cring) (U : mat R) m keep,
  (forall t j, keep t = true -> (0 < nth j t 0)%nat -> keep (dec t j) = true) ->
  forall cols t, keep t = true -> slosK U m keep cols t = slos U m cols t.
Proof. exact slosK_sound. Qed.
Print Assumptions C02_pruning_sound.

(* the order in which the input photons are injected (SLOS's path tree picks its own) is irrelevant *)
From PV Require Import Proofs.PermOrderP.
From Coq Require Import Permutation.
Theorem C02_photon_order_irrelevant : forall (R : cring) (U : mat R) m cols cols',
  Permutation cols cols' -> forall t, permS U m cols t = permS U m cols' t.
Proof. exact permS_col_perm. Qed.
Print Assumptions C02_photon_order_irrelevant.
