(* C18 — A local job runs once and ends in exactly one truthful final state.
   Model: Model/LocalJob.v (two-thread transition system; every list of events is an interleaving that respects
   the worker's program order).  [final c p l] is the state after the schedule [l] from a fresh job.
   The model carries the code version in [ver c]: [code_now] is /repo as it is (after fix commits 5d55599b,
   53f68db6 and 92fc55a7), [code_3e543e6e] the code before them, [code_before_92fc55a7] the code before the last one.  Theorems named ..._old_code are HISTORICAL: they describe the
   behaviour before the repairs and are kept as witnesses of the two repaired defects.
   Only statements + [exact] + Print Assumptions live here. *)
From PV Require Import Model.LocalJob Proofs.LocalJobP.
Local Open Scope Z_scope.

(* ---- the task runs exactly once, for every schedule *)
Theorem C18_runs_at_most_once : forall c p l, (length (calls (final c p l)) <= 1)%nat.
Proof. exact runs_at_most_once. Qed.
Print Assumptions C18_runs_at_most_once.

Theorem C18_runs_exactly_once : forall c p l, let s := final c p l in
  (maybe_completed (status s) = true \/ (pc s <> PIdle /\ pc s <> PStart)) -> length (calls s) = 1%nat.
Proof. exact runs_exactly_once. Qed.
Print Assumptions C18_runs_exactly_once.
Example C18_runs_exactly_once_sat : maybe_completed (status (final cfg_w prog_w [Act (AExec Async [3] []); Wk; Wk; Wk; Wk])) = true.
Proof. vm_compute. reflexivity. Qed.

Theorem C18_not_started_before_execute : forall c p l, let s := final c p l in status s = Waiting -> calls s = [].
Proof. exact not_started_before_execute. Qed.
Print Assumptions C18_not_started_before_execute.

(* ---- running until the task returned: the status field, and (current code) every status query, synchronous
   and asynchronous runs alike *)
Theorem C18_status_field_running_until_finish : forall c p l, let s := final c p l in
  mid_run (pc s) = true -> status s = Running.
Proof. exact status_running_until_finish. Qed.
Print Assumptions C18_status_field_running_until_finish.

Theorem C18_status_query_running : forall c p l, status_needs_worker (ver c) = false -> let s := final c p l in
  mid_run (pc s) = true -> do_status c s = (s, SOk Running (progress s) (phase s) (msg s)).
Proof. exact status_query_running. Qed.
Print Assumptions C18_status_query_running.
Example C18_status_query_running_sat :
  status_needs_worker (ver cfg_w) = false /\
  mid_run (pc (final cfg_w prog_w [Act (AExec Sync [3] []); Wk; Wk])) = true /\
  mid_run (pc (final cfg_w prog_w [Act (AExec Async [3] []); Wk; Wk])) = true.
Proof. vm_compute. repeat split; reflexivity. Qed.

(* HISTORICAL (before 5d55599b): the old code was right for asynchronous runs only ... *)
Theorem C18_status_query_running_async_any_code : forall c p l, let s := final c p l in
  mid_run (pc s) = true -> sync s = false -> do_status c s = (s, SOk Running (progress s) (phase s) (msg s)).
Proof. exact status_query_running_async. Qed.
Print Assumptions C18_status_query_running_async_any_code.

(* ... HISTORICAL: with the old code the statement C18_status_query_running was false (witness), *)
Theorem C18_status_query_running_refuted_old_code : exists p l, let s := final cfg_old p l in
  mid_run (pc s) = true /\ snd (do_status cfg_old s) = SAttrErr.
Proof. exact status_query_running_refuted_old_code. Qed.
Print Assumptions C18_status_query_running_refuted_old_code.

(* ... HISTORICAL: indeed every query during a synchronous run raised AttributeError *)
Theorem C18_status_query_fails_throughout_sync_run_old_code : forall c p l, status_needs_worker (ver c) = true ->
  let s := final c p l in mid_run (pc s) = true -> sync s = true -> do_status c s = (s, SAttrErr).
Proof. exact status_query_during_sync_run_old_code. Qed.
Print Assumptions C18_status_query_fails_throughout_sync_run_old_code.

(* ---- the final state is truthful.  [pc = PRet]: the task has returned; [pc = PExc ty m]: it has raised the
   Exception (ty, m); the next worker step is the wrapper's finish; l1 and l2 are arbitrary. *)
Theorem C18_final_state_after_return : forall c p l1 l2, let s1 := final c p l1 in pc s1 = PRet ->
  let s := final c p (l1 ++ Wk :: l2) in
  status s = (if existsb is_cancel l1 then Canceled else Success) /\
  msg s = (if existsb is_cancel l1 then MCancel else MNone) /\
  exists early, ores_base (Some (task_result p early (last (calls s) []))) (results s) /\
                (early = true -> coop p = true -> existsb is_cancel l1 = true) /\
                (early = false -> out p = ORet) /\ length (calls s) = 1%nat.
Proof. exact final_state_after_return. Qed.
Print Assumptions C18_final_state_after_return.
Example C18_final_state_after_return_sat : pc (final cfg_w prog_w [Act (AExec Sync [3] []); Wk; Act ACancel; Wk; Wk]) = PRet.
Proof. vm_compute. reflexivity. Qed.

Theorem C18_final_state_after_raise : forall c p l1 l2 ty m rr, pc (final c p l1) = PExc ty m rr ->
  let s := final c p (l1 ++ Wk :: l2) in
  raised c p ty m rr /\ status s = Error /\ msg s = MErr ty m /\ results s = None.
Proof. exact final_state_after_raise. Qed.
Print Assumptions C18_final_state_after_raise.
Example C18_final_state_after_raise_sat :
  pc (final cfg_w (mkprog [] (ORaise 1 2) false 0 5 6 []) [Act (AExec Async [3] []); Wk; Wk]) = PExc 1 2 false.
Proof. vm_compute. reflexivity. Qed.

(* a raising task always ends in ERROR with a message, whatever the exception carries (the model's message is a
   total function of the exception): from the point where the task is about to raise, its next step, any caller
   actions, then the wrapper's step — the handler has no other exit.  (The driver ranges over exception SHAPES.) *)
Theorem C18_raising_task_ends_in_error : forall c p l1 l2 l3 ty m rr,
  pc (final c p l1) = PTask [] false -> raised c p ty m rr -> Forall is_act l2 ->
  let s := final c p (l1 ++ Wk :: l2 ++ Wk :: l3) in
  status s = Error /\ msg s = MErr ty m /\ results s = None.
Proof. exact raising_task_ends_in_error. Qed.
Print Assumptions C18_raising_task_ends_in_error.
Example C18_raising_task_ends_in_error_sat :
  pc (final cfg_w (mkprog [] (ORaise 1 2) false 0 5 6 []) [Act (AExec Sync [3] []); Wk]) = PTask [] false /\
  raised cfg_w (mkprog [] (ORaise 1 2) false 0 5 6 []) 1 2 false /\ raised cfg_w prog_esc 0 4 true.
Proof. vm_compute. split; [reflexivity|]. split; [left|right]; split; reflexivity. Qed.

Theorem C18_cancel_flag_iff_requested : forall c p l, cancel (final c p l) = existsb is_cancel l.
Proof. exact cancel_flag_iff_requested. Qed.
Print Assumptions C18_cancel_flag_iff_requested.

(* ---- a task that raised is never reported successful (current code, 92fc55a7): an Exception, a BaseException
   that is not an Exception, an exception that cannot be printed — every schedule *)
Theorem C18_never_success_when_task_raised : forall c p l, escapes_unhandled (ver c) = false ->
  out p <> ORet -> status (final c p l) <> Success.
Proof. exact never_success_when_task_raised. Qed.
Print Assumptions C18_never_success_when_task_raised.
Example C18_never_success_when_task_raised_sat : escapes_unhandled (ver cfg_w) = false /\ out prog_esc <> ORet.
Proof. split; [reflexivity|discriminate]. Qed.

(* what the wrapper does with a non-Exception: ERROR recorded first, then re-raised (execute_sync re-raises it to
   its caller without calling get_results; an asynchronous worker ends with it) *)
Theorem C18_base_exception_recorded_then_reraised : forall c p s ty m, pc s = PExc ty m true ->
  let s' := fst (wk c p s) in
  status s' = Error /\ msg s' = MErr ty m /\ pc s' = PDone /\ results s' = results s /\
  (sync s = true -> sync_ret s' = Some GEscaped /\ snd (wk c p s) = OEscaped) /\
  (sync s = false -> worker s' = WDead).
Proof. exact base_exception_recorded_then_reraised. Qed.
Print Assumptions C18_base_exception_recorded_then_reraised.

Theorem C18_escapes_end_in_error_now :
  let l := [Act (AExec Async [3] []); Wk; Wk; Wk; Act AStatus] in
  (status (final cfg_w prog_esc l), msg (final cfg_w prog_esc l)) = (Error, MErr 0 4) /\
  (status (final cfg_w prog_unp l), msg (final cfg_w prog_unp l)) = (Error, MErr 4 5) /\
  trace cfg_w prog_esc [Act (AExec Sync [3] []); Wk; Wk; Wk; Act AStatus]
    = [OExec XAccepted; OStarted; ORaised; OEscaped; OStatus (SOk Error 0 0 (MErr 0 4))].
Proof. exact escapes_end_in_error_now. Qed.
Print Assumptions C18_escapes_end_in_error_now.

(* HISTORICAL (any code version): the statement always held for ordinary Exceptions ... *)
Theorem C18_never_success_when_task_raised_exception_any_code : forall c p l ty m,
  out p = ORaise ty m -> status (final c p l) <> Success.
Proof. exact never_success_when_task_raised_exception_any_code. Qed.
Print Assumptions C18_never_success_when_task_raised_exception_any_code.

(* ... HISTORICAL (code before 92fc55a7): it was false for a BaseException that is not an Exception, *)
Theorem C18_never_success_when_task_raised_refuted_old_code : exists p l,
  out p <> ORet /\ status (final cfg_pre3 p l) = Success /\ results (final cfg_pre3 p l) = None.
Proof. exact never_success_when_task_raised_refuted_old_code. Qed.
Print Assumptions C18_never_success_when_task_raised_refuted_old_code.

(* ... HISTORICAL: and for an exception whose str() raises, *)
Theorem C18_unprintable_reported_success_refuted_old_code : exists l,
  status (final cfg_pre3 prog_unp l) = Success /\ results (final cfg_pre3 prog_unp l) = None.
Proof. exact unprintable_reported_success_refuted_old_code. Qed.
Print Assumptions C18_unprintable_reported_success_refuted_old_code.

(* ... HISTORICAL: and a synchronous job stayed RUNNING for ever while the exception came out of execute_sync *)
Theorem C18_sync_escape_stays_running_old_code :
  let s := final cfg_pre3 prog_esc [Act (AExec Sync [3] []); Wk; Wk; Wk; Wk] in
  status s = Running /\ pc s = PDone /\ sync_ret s = Some GEscaped.
Proof. exact sync_escape_stays_running_old_code. Qed.
Print Assumptions C18_sync_escape_stays_running_old_code.

(* ---- results ([C18_results_idempotent] covers every result shape: the returned value includes the entries) *)
Theorem C18_no_results_while_running : forall c p l, let s := final c p l in
  (pc s = PIdle \/ mid_run (pc s) = true) -> forall v, snd (do_get c s) <> GValue v.
Proof. exact no_results_while_running. Qed.
Print Assumptions C18_no_results_while_running.

Theorem C18_results_idempotent : forall c p l v, let s := final c p l in snd (do_get c s) = GValue v ->
  forall l2, snd (do_get c (fst (run c p (fst (do_get c s)) l2))) = GValue v.
Proof. exact results_idempotent. Qed.
Print Assumptions C18_results_idempotent.
Example C18_results_idempotent_sat : exists v,
  snd (do_get cfg_w (final cfg_w prog_w [Act (AExec Async [3] []); Wk; Wk; Wk; Wk])) = GValue (Some v) /\ nconv v = 1%nat.
Proof. eexists. vm_compute. split; reflexivity. Qed.

(* exactly once: the dictionary as a whole and, for an iterated result ({'results_list': [...]}), every entry *)
Theorem C18_results_converted_once : forall c p l r, snd (do_get c (final c p l)) = GValue (Some r) ->
  let n := if has_map c then 1%nat else 0%nat in
  nconv r = n /\ Forall (fun e => enconv e = n) (entries r).
Proof. exact results_converted_once. Qed.
Print Assumptions C18_results_converted_once.

(* every entry of an iterated result is converted with the mapping parameters overridden by its own iteration *)
Theorem C18_results_list_entry_args : forall c p l r, has_map c = true ->
  snd (do_get c (final c p l)) = GValue (Some r) ->
  Forall (fun e => ecargs e = override (mapp (fst (do_get c (final c p l)))) (eiter e)) (entries r).
Proof. exact results_list_entry_args. Qed.
Print Assumptions C18_results_list_entry_args.
Example C18_results_list_sat :
  let l := [Act (AExec Async [3] []); Wk; Wk; Wk; Act AGet; Act AGet] in
  map (fun e => (epay e, enconv e, ecargs e)) (match results (final cfg_list prog_list l) with Some r => entries r | None => [] end)
  = [(1, 1%nat, [(20, Some 9); (21, None)]); (2, 1%nat, [(20, Some 4); (21, None)])].
Proof. exact results_list_example. Qed.

(* ---- the user's progress callback (current code): supplied in any way — at construction, with
   set_progress_callback, with the progress_callback keyword of execute — it changes nothing but the callback
   itself and what it received: the run equals the run with every callback erased. *)
Theorem C18_user_callback_transparent : forall c p l, cb_keyword_kept (ver c) = false ->
  core (final (nocb c) p (map strip l)) = core (final c p l).
Proof. exact user_callback_transparent. Qed.
Print Assumptions C18_user_callback_transparent.

Theorem C18_callback_keyword_installs : forall c s m a k cb, cb_keyword_kept (ver c) = false ->
  status s = Waiting -> lookup N_PROGRESS_CB k = Some cb ->
  do_exec c s m a k = do_exec c (set_ucb s (Some cb)) m a (remove_key N_PROGRESS_CB k).
Proof. exact callback_keyword_installs. Qed.
Print Assumptions C18_callback_keyword_installs.

Theorem C18_callback_keyword_accepted : forall c s m a k cb, cb_keyword_kept (ver c) = false ->
  status s = Waiting -> lookup N_PROGRESS_CB k = Some cb ->
  snd (do_exec c s m a (remove_key N_PROGRESS_CB k)) = XAccepted ->
  snd (do_exec c s m a k) = XAccepted /\ user_cb (fst (do_exec c s m a k)) = Some cb.
Proof. exact callback_keyword_accepted. Qed.
Print Assumptions C18_callback_keyword_accepted.
Example C18_callback_keyword_accepted_sat :
  snd (do_exec cfg_w (init cfg_w) Sync [3] (remove_key N_PROGRESS_CB [(N_PROGRESS_CB, 7)])) = XAccepted.
Proof. vm_compute. reflexivity. Qed.

Theorem C18_callback_receives_progress : forall c p s cb pr ph rest, pc s = PTask ((pr, ph) :: rest) false ->
  user_cb s = Some cb -> cancel s = false ->
  let s' := fst (wk c p s) in cb_log s' = cb_log s ++ [(cb, pr, ph)] /\ progress s' = pr /\ phase s' = ph.
Proof. exact callback_receives_progress. Qed.
Print Assumptions C18_callback_receives_progress.

Theorem C18_callback_keyword_receives_progress :
  trace cfg_w prog_w [Act (AExec Sync [3] [(N_PROGRESS_CB, 7)]); Wk; Wk] = [OExec XAccepted; OStarted; OProgress (ucb_resp 7) true] /\
  cb_log (final cfg_w prog_w [Act (AExec Sync [3] [(N_PROGRESS_CB, 7)]); Wk; Wk]) = [(7, 500, 1)].
Proof. exact callback_keyword_receives_progress. Qed.
Print Assumptions C18_callback_keyword_receives_progress.

(* HISTORICAL (before 53f68db6): transparency held only for schedules without the keyword ... *)
Theorem C18_user_callback_transparent_without_keyword_any_code : forall c p l, Forall no_cb_kw l ->
  core (final (nocb c) p (map strip l)) = core (final c p l).
Proof. exact user_callback_transparent_without_keyword. Qed.
Print Assumptions C18_user_callback_transparent_without_keyword_any_code.

(* ... HISTORICAL witness: the keyword made execute fail and the task never started *)
Theorem C18_callback_keyword_refuted_old_code : exists p l,
  trace cfg_old p l = [OExec (XRejected (PUnused [N_PROGRESS_CB]))] /\ calls (final cfg_old p l) = [].
Proof. exact callback_keyword_refuted_old_code. Qed.
Print Assumptions C18_callback_keyword_refuted_old_code.

(* ---- arguments: an unknown keyword is rejected and the task is not started *)
Theorem C18_unknown_args_rejected_before_start : forall c s m a k kn v,
  status s = Waiting -> In (kn, v) k -> kn <> N_PROGRESS_CB -> ~ In (kn, None) (cmd s) -> ~ In (kn, None) (mapp s) ->
  (exists e, snd (do_exec c s m a k) = XRejected e) /\
  let s' := fst (do_exec c s m a k) in status s' = Waiting /\ pc s' = pc s /\ calls s' = calls s.
Proof. exact unknown_args_rejected_before_start. Qed.
Print Assumptions C18_unknown_args_rejected_before_start.

Theorem C18_refused_execute_starts_nothing : forall c s m a k, snd (do_exec c s m a k) <> XAccepted ->
  let s' := fst (do_exec c s m a k) in
  status s' = status s /\ pc s' = pc s /\ calls s' = calls s /\ worker s' = worker s /\ results s' = results s.
Proof. exact exec_refused_not_started. Qed.
Print Assumptions C18_refused_execute_starts_nothing.
