(* C15 - Serialising and deserialising any supported object preserves its meaning.

   Full statement (false of the faithful model of the current code, see the _refuted theorems):
     forall ev cm v, roundtrip ev cm v = Some (exp_value v)
   for every serialisable value v, i.e. including experiments with filter 0, named / polarised Unitary components,
   detectors under `compress=` or inside containers, expressions whose parameters all have values, a nested circuit
   decoded before the shared name table is non-empty, one-sided heralds, symbolic matrices, an Expression object used
   twice in one component.  Proved below on the complement ([wfv], [wf_comp], [share_ok], [wf_exp]). *)
From PV Require Import Model.CodecV Proofs.CodecP.
From Coq Require Import Qabs Permutation.
Import ListNotations.
Local Open Scope Z_scope.

(* --- the property on the complement: every type, lists / dicts to any depth, every compress setting *)
Theorem C15_roundtrip_every_value : forall (ev : str -> Qc) (env : str -> option Qc) (v : value) (cm : callmode),
  wfv env (is_default cm) v -> roundtrip ev cm v = Some (exp_value v).
Proof. exact roundtrip_value. Qed.
Print Assumptions C15_roundtrip_every_value.

Theorem C15_circuit_any_depth : forall (ev : str -> Qc) (env : str -> option Qc) n m items,
  wf_comp env (CSub n m items) -> share_ok (CSub n m items) ->
  dec_circuit (enc_circuit ev (CSub n m items)) = Some (inj (CSub n m items)).
Proof. exact dec_enc_circuit. Qed.
Print Assumptions C15_circuit_any_depth.

Theorem C15_experiment : forall (ev : str -> Qc) (env : str -> option Qc) e,
  wf_exp env e -> dec_exp (enc_exp ev e) = Some (expected_exp e).
Proof. exact dec_enc_exp. Qed.
Print Assumptions C15_experiment.

Theorem C15_experiment_output_ports : forall e,
  filter (fun mp => is_herald (snd mp)) (e_out e) = filter (fun mp => is_herald (snd mp)) (e_in e) ->
  Permutation (de_out (expected_exp e)) (e_out e).
Proof. exact exp_out_ports. Qed.
Print Assumptions C15_experiment_output_ports.

Theorem C15_filter_survives : forall f : option Z,
  (match f with Some n => n <> 0 /\ n <> VALUE_NOT_SET | None => True end) ->
  (if enc_filter f =? VALUE_NOT_SET then None else Some (enc_filter f)) = f.
Proof. exact enc_filter_roundtrip. Qed.
Print Assumptions C15_filter_survives.

(* --- text numbers: within half a step of the 1e-6 grid *)
Theorem C15_text_number_within_grid : forall q : Qc, (Qabs (this (sf q) - this q) <= 1 # 2000000)%Q.
Proof. exact sf_close. Qed.
Print Assumptions C15_text_number_within_grid.

Theorem C15_distribution_close : forall d : list (bstate * Qc),
  Forall2 (fun x y => fst x = fst y /\ qclose (snd x) (snd y)) (enc_bsd d) d.
Proof. exact enc_bsd_close. Qed.
Print Assumptions C15_distribution_close.

Theorem C15_sv_distribution_close : forall d : svd, Forall2 (fun x y => qclose (snd x) (snd y) /\
   Forall2 (fun a b => snd a = snd b /\ qclose (fst (fst a)) (fst (fst b)) /\ qclose (snd (fst a)) (snd (fst b))) (fst x) (fst y))
   (enc_svd d) d.
Proof. exact enc_svd_close. Qed.
Print Assumptions C15_sv_distribution_close.

(* --- per type *)
Theorem C15_samples : forall l : list bstate, dec_bss (enc_bss l) = Some l.
Proof. exact dec_enc_bss. Qed.
Print Assumptions C15_samples.

Theorem C15_numeric_matrix : forall M : list (list qi), rect M -> dec_mat (enc_mat (MNum M)) = Some (MNum M).
Proof. exact dec_enc_mat_num. Qed.
Print Assumptions C15_numeric_matrix.

Theorem C15_noise_model : forall n : noise, length n = 7%nat -> dec_noise (enc_noise n) = n.
Proof. exact dec_enc_noise. Qed.
Print Assumptions C15_noise_model.

Theorem C15_detector : forall d, wf_det d -> dec_det (enc_det d) = Some d.
Proof. exact dec_enc_det. Qed.
Print Assumptions C15_detector.

Theorem C15_experiment_detectors : forall (dets : list (option idetector)) n, len dets = n ->
  Forall (fun o => match o with Some d => wf_idet d | None => True end) dets ->
  dec_dets n (sparse 0 (map (option_map enc_idet) dets)) = Some dets.
Proof. exact dec_enc_dets. Qed.
Print Assumptions C15_experiment_detectors.

Theorem C15_port_herald : forall p, wf_aport p -> dec_aport (enc_aport p) = p.
Proof. exact dec_enc_aport. Qed.
Print Assumptions C15_port_herald.

(* --- the hypotheses are satisfiable: an experiment with a herald, detectors, noise, a non-zero filter, a nested circuit
   sharing the variable parameter "a" with an earlier phase shifter, inside a dict inside a list *)
Definition ex_env : str -> option Qc := fun _ => None.
Definition ex_ps : comp := CLeaf KPS [PVar [97] None; PFix 0].
Definition ex_exp : experiment :=
  mkexp [69] 1 1 (Some (InBS (mkbs [124; 49; 44; 49; 62] 2 false))) (Some [None; None; Some (Q2Qc (1 # 4)); None; None; None; None])
    (Some 2) (Some [91; 48; 93; 61; 61; 49])
    [(1, AHerald 1 None)] [(1, AHerald 1 None)] [Some (IDet (mkdet [80; 78; 82] None None)); None]
    [(0, ex_ps); (0, CSub [115] 2 [(1, ex_ps); (0, CLeaf (KBS 1) [PExpr [50; 42; 97] [([97], None)]; PFix 0; PFix 0; PFix 0; PFix 0])])].
Definition ex_value : value := VList [VDict [(VOther 1, VExperiment ex_exp)]; VBSS [mkbs [124; 49; 62] 1 false]].
Example C15_hypotheses_satisfiable : wfv ex_env true ex_value.
Proof.
  cbn. repeat split; try discriminate; try lia; try reflexivity; try (right; reflexivity);
    repeat constructor; try discriminate; try lia; try reflexivity.
Qed.
Example C15_example_roundtrip : roundtrip ev0 CDefault ex_value = Some (exp_value ex_value).
Proof. vm_compute. reflexivity. Qed.

(* --- where the current code loses information (each witness replays on the implementation) *)
Theorem C15_filter_zero_refuted : exists e d, e_filter e = Some 0 /\
  roundtrip ev0 CDefault (VExperiment e) = Some (DVExperiment d) /\ de_filter d = None.
Proof. exact filter_zero_refuted. Qed.
Print Assumptions C15_filter_zero_refuted.

Theorem C15_unitary_name_refuted : exists u name, name <> UNITARY /\ name <> [] /\
  roundtrip ev0 CDefault (VCircuit (CUnit u name false)) = Some (DVCircuit (DSub CPLX 1 [(0, DUnit u UNITARY false)])).
Proof. exact unitary_name_refuted. Qed.
Print Assumptions C15_unitary_name_refuted.

Theorem C15_polarized_unitary_refuted : exists u, rect u /\ roundtrip ev0 CDefault (VCircuit (CUnit u UNITARY true)) = None.
Proof. exact polarized_unitary_refuted. Qed.
Print Assumptions C15_polarized_unitary_refuted.

Theorem C15_detector_compress_keyword_refuted : exists d, wf_det d /\
  roundtrip ev0 CDefault (VDet d) = Some (DVDet d) /\
  (forall c, roundtrip ev0 (CKw c) (VDet d) = None) /\ roundtrip ev0 CDefault (VList [VDet d]) = None.
Proof. exact detector_compress_keyword_refuted. Qed.
Print Assumptions C15_detector_compress_keyword_refuted.

Theorem C15_defined_expression_refuted : exists e a v,
  roundtrip ev0 CDefault (VCircuit (CLeaf KPS [PExpr e [(a, Some v)]; PFix 0]))
  = Some (DVCircuit (DSub CPLX 1 [(0, DLeaf KPS [DVar ([], e, Some (ev0 e)); DFix 0])])).
Proof. exact defined_expression_refuted. Qed.
Print Assumptions C15_defined_expression_refuted.

Theorem C15_nested_first_refuted : exists c, wf_comp (fun _ => None) c /\ roundtrip ev0 CDefault (VCircuit c) = None.
Proof. exact nested_first_refuted. Qed.
Print Assumptions C15_nested_first_refuted.

Theorem C15_nested_first_experiment_refuted : exists e d o1 o2,
  roundtrip ev0 CDefault (VExperiment e) = Some (DVExperiment d) /\
  de_comps d = [(0, DSub [115] 2 [(0, DLeaf KPS [DVar o1; DFix 0])]); (0, DLeaf KPS [DVar o2; DFix 0])] /\
  o_name o1 = o_name o2 /\ o_scope o1 <> o_scope o2.
Proof. exact nested_first_experiment_refuted. Qed.
Print Assumptions C15_nested_first_experiment_refuted.

Theorem C15_one_sided_herald_refuted : exists e d, e_out e = [(1, AHerald 1 (Some [104]))] /\ e_in e = [] /\
  roundtrip ev0 CDefault (VExperiment e) = Some (DVExperiment d) /\ de_out d = [].
Proof. exact one_sided_herald_refuted. Qed.
Print Assumptions C15_one_sided_herald_refuted.

Theorem C15_symbolic_matrix_refuted : exists M, rect M /\ dec_mat (enc_mat (MSym M)) <> Some (MSym M).
Proof. exact dec_enc_mat_sym_refuted. Qed.
Print Assumptions C15_symbolic_matrix_refuted.

Theorem C15_same_expression_twice_refuted : exists e a,
  roundtrip ev0 CDefault (VCircuit (CLeaf (KBS 0) [PExpr e [(a, None)]; PExpr e [(a, None)]; PFix 0; PFix 0; PFix 0])) = None.
Proof. exact same_expression_twice_refuted. Qed.
Print Assumptions C15_same_expression_twice_refuted.

Theorem C15_detector_max_zero_refuted : exists d, d_wires d = Some 3 /\ d_max d = Some 0 /\ dec_det (enc_det d) <> Some d.
Proof. exact dec_enc_det_zero_refuted. Qed.
Print Assumptions C15_detector_max_zero_refuted.
