(* C15 - Serialising and deserialising any supported object preserves its meaning.

   The model follows /repo as it is now ([cfg_now]: repairs 43c33bac filter 0, 3f873560 Unitary name / polarisation,
   59614844 detector `compress` keyword, 1cc940de shared parameter table, fde9e721 symbolic matrix order).
   Full statement:  forall ev cm v, roundtrip cfg_now ev cm v = Some (exp_value v)  for every serialisable value v.
   It is proved below for every well-formed value ([wfv]); it is still false of the current code for (see the three
   _refuted theorems): an Expression whose parameters all have values, an Expression object used twice in one component,
   one-sided heralds.  The `_old_code` theorems are statements about the code BEFORE the repairs ([cfg_old]), kept as
   history together with the `_now` theorem showing that the same input round-trips today. *)
From PV Require Import Model.CodecV Proofs.CodecP.
From Coq Require Import Qabs Permutation.
Import ListNotations.
Local Open Scope Z_scope.

(* --- the property: every type, lists / dicts to any depth, every way of passing `compress` *)
Theorem C15_roundtrip_every_value : forall (ev : str -> Qc) (env : str -> option Qc) (v : value) (cm : callmode),
  wfv env v -> roundtrip cfg_now ev cm v = Some (exp_value v).
Proof. exact roundtrip_value. Qed.
Print Assumptions C15_roundtrip_every_value.

Theorem C15_circuit_any_depth : forall (ev : str -> Qc) (env : str -> option Qc) n m items,
  wf_comp env (CSub n m items) ->
  dec_circuit cfg_now (enc_circuit cfg_now ev (CSub n m items)) = Some (inj (CSub n m items)).
Proof. exact dec_enc_circuit. Qed.
Print Assumptions C15_circuit_any_depth.

Theorem C15_experiment : forall (ev : str -> Qc) (env : str -> option Qc) e,
  wf_exp env e -> dec_exp cfg_now (enc_exp cfg_now ev e) = Some (expected_exp e).
Proof. exact dec_enc_exp. Qed.
Print Assumptions C15_experiment.

Theorem C15_experiment_output_ports : forall e,
  filter (fun mp => is_herald (snd mp)) (e_out e) = filter (fun mp => is_herald (snd mp)) (e_in e) ->
  Permutation (de_out (expected_exp e)) (e_out e).
Proof. exact exp_out_ports. Qed.
Print Assumptions C15_experiment_output_ports.

Theorem C15_filter_survives_including_zero : forall f : option Z,
  (match f with Some n => n <> VALUE_NOT_SET | None => True end) ->
  (if enc_filter cfg_now f =? VALUE_NOT_SET then None else Some (enc_filter cfg_now f)) = f.
Proof. exact enc_filter_roundtrip. Qed.
Print Assumptions C15_filter_survives_including_zero.

(* --- text numbers: within half a step of the 1e-6 grid *)
Theorem C15_text_number_within_grid : forall q : Qc, (Qabs (this (sf q) - this q) <= 1 # 2000000)%Q.
Proof. exact sf_close. Qed.
Print Assumptions C15_text_number_within_grid.

Theorem C15_distribution_close : forall d : list (bstate * Qc),
  Forall2 (fun x y => fst x = fst y /\ qclose (snd x) (snd y)) (enc_bsd d) d.
Proof. exact enc_bsd_close. Qed.
Print Assumptions C15_distribution_close.

Theorem C15_sv_distribution_close : forall d : svd, Forall2 (fun x y => qclose (snd x) (snd y) /\
   Forall2 (fun a b => snd a = snd b /\ qclose (fst (fst a)) (fst (fst b)) /\ qclose (snd (fst a)) (snd (fst b))) (fst x) (fst y))
   (enc_svd d) d.
Proof. exact enc_svd_close. Qed.
Print Assumptions C15_sv_distribution_close.

(* --- per type *)
Theorem C15_samples : forall l : list bstate, dec_bss (enc_bss l) = Some l.
Proof. exact dec_enc_bss. Qed.
Print Assumptions C15_samples.

Theorem C15_numeric_matrix : forall cf (M : list (list qi)), rect M -> dec_mat (enc_mat cf (MNum M)) = Some (MNum M).
Proof. exact dec_enc_mat_num. Qed.
Print Assumptions C15_numeric_matrix.

Theorem C15_symbolic_matrix : forall M : list (list str), rect M -> dec_mat (enc_mat cfg_now (MSym M)) = Some (MSym M).
Proof. exact dec_enc_mat_sym. Qed.
Print Assumptions C15_symbolic_matrix.

Theorem C15_noise_model : forall n : noise, length n = 7%nat -> dec_noise (enc_noise n) = n.
Proof. exact dec_enc_noise. Qed.
Print Assumptions C15_noise_model.

Theorem C15_detector : forall d, wf_det d -> dec_det (enc_det d) = Some d.
Proof. exact dec_enc_det. Qed.
Print Assumptions C15_detector.

Theorem C15_experiment_detectors : forall (dets : list (option idetector)) n, len dets = n ->
  Forall (fun o => match o with Some d => wf_idet d | None => True end) dets ->
  dec_dets n (sparse 0 (map (option_map enc_idet) dets)) = Some dets.
Proof. exact dec_enc_dets. Qed.
Print Assumptions C15_experiment_detectors.

Theorem C15_port_herald : forall p, wf_aport p -> dec_aport (enc_aport p) = p.
Proof. exact dec_enc_aport. Qed.
Print Assumptions C15_port_herald.

(* --- the hypotheses are satisfiable: an experiment with filter 0, a herald, detectors, noise, a nested circuit that comes
   FIRST and shares the variable parameter "a" with a later phase shifter, a named polarised Unitary, inside a dict inside a
   list next to a detector and a symbolic matrix *)
Definition ex_env : str -> option Qc := fun _ => None.
Definition ex_ps : comp := CLeaf KPS [PVar [97] None; PFix 0].
Definition ex_exp : experiment :=
  mkexp [69] 1 1 (Some (InBS (mkbs [124; 49; 44; 49; 62] 2 false))) (Some [None; None; Some (Q2Qc (1 # 4)); None; None; None; None])
    (Some 0) (Some [91; 48; 93; 61; 61; 49])
    [(1, AHerald 1 None)] [(1, AHerald 1 None)] [Some (IDet (mkdet [80; 78; 82] None None)); None]
    [(0, CSub [115] 2 [(1, ex_ps); (0, CLeaf (KBS 1) [PExpr [50; 42; 97] [([97], None)]; PFix 0; PFix 0; PFix 0; PFix 0])]);
     (0, ex_ps); (0, CUnit id2 [77; 89; 85] true)].
Definition ex_value : value :=
  VList [VDict [(VOther 1, VExperiment ex_exp)]; VBSS [mkbs [124; 49; 62] 1 false]; VDet pnr;
         VMatrix (MSym [[[120]; [121]]; [[122]; [116]]])].
Example C15_hypotheses_satisfiable : wfv ex_env ex_value.
Proof.
  cbn. repeat split; try discriminate; try lia; try reflexivity; try (right; reflexivity);
    repeat constructor; try discriminate; try lia; try reflexivity.
Qed.
Example C15_example_roundtrip : roundtrip cfg_now ev0 (CKw (CBool true)) ex_value = Some (exp_value ex_value).
Proof. vm_compute. reflexivity. Qed.

(* --- where the CURRENT code still loses information (each witness replays on the implementation; open findings) *)
Theorem C15_defined_expression_refuted : exists e a v,
  roundtrip cfg_now ev0 CDefault (VCircuit (CLeaf KPS [PExpr e [(a, Some v)]; PFix 0]))
  = Some (DVCircuit (DSub CPLX 1 [(0, DLeaf KPS [DVar ([], e, Some (ev0 e)); DFix 0])])).
Proof. exact defined_expression_refuted. Qed.
Print Assumptions C15_defined_expression_refuted.

Theorem C15_one_sided_herald_refuted : exists e d, e_out e = [(1, AHerald 1 (Some [104]))] /\ e_in e = [] /\
  roundtrip cfg_now ev0 CDefault (VExperiment e) = Some (DVExperiment d) /\ de_out d = [].
Proof. exact one_sided_herald_refuted. Qed.
Print Assumptions C15_one_sided_herald_refuted.

Theorem C15_same_expression_twice_refuted : exists e a,
  roundtrip cfg_now ev0 CDefault (VCircuit (CLeaf (KBS 0) [PExpr e [(a, None)]; PExpr e [(a, None)]; PFix 0; PFix 0; PFix 0])) = None.
Proof. exact same_expression_twice_refuted. Qed.
Print Assumptions C15_same_expression_twice_refuted.

Theorem C15_detector_max_zero_refuted : exists d, d_wires d = Some 3 /\ d_max d = Some 0 /\ dec_det (enc_det d) <> Some d.
Proof. exact dec_enc_det_zero_refuted. Qed.
Print Assumptions C15_detector_max_zero_refuted.

(* --- history: the code BEFORE the repairs ([cfg_old]) and the same inputs today *)
Theorem C15_filter_zero_refuted_old_code : exists d,
  roundtrip cfg_old ev0 CDefault (VExperiment exp_f0) = Some (DVExperiment d) /\ de_filter d = None.
Proof. exact filter_zero_refuted_old_code. Qed.
Print Assumptions C15_filter_zero_refuted_old_code.
Theorem C15_filter_zero_now : exists d,
  roundtrip cfg_now ev0 CDefault (VExperiment exp_f0) = Some (DVExperiment d) /\ de_filter d = Some 0.
Proof. exact filter_zero_now. Qed.
Print Assumptions C15_filter_zero_now.

Theorem C15_unitary_name_refuted_old_code : exists u name, name <> UNITARY /\ name <> [] /\
  roundtrip cfg_old ev0 CDefault (VCircuit (CUnit u name false)) = Some (DVCircuit (DSub CPLX 1 [(0, DUnit u UNITARY false)])).
Proof. exact unitary_name_refuted_old_code. Qed.
Print Assumptions C15_unitary_name_refuted_old_code.
Theorem C15_polarized_unitary_refuted_old_code :
  rect id2 /\ roundtrip cfg_old ev0 CDefault (VCircuit (CUnit id2 UNITARY true)) = None.
Proof. exact polarized_unitary_refuted_old_code. Qed.
Print Assumptions C15_polarized_unitary_refuted_old_code.
Theorem C15_unitary_name_polarization_now :
  roundtrip cfg_now ev0 CDefault (VCircuit (CUnit id2 [77; 89; 85] true))
  = Some (DVCircuit (DSub CPLX 1 [(0, DUnit id2 [77; 89; 85] true)])).
Proof. exact unitary_name_polarization_now. Qed.
Print Assumptions C15_unitary_name_polarization_now.

Theorem C15_detector_compress_keyword_refuted_old_code :
  (forall c, roundtrip cfg_old ev0 (CKw c) (VDet pnr) = None) /\ roundtrip cfg_old ev0 CDefault (VList [VDet pnr]) = None.
Proof. exact detector_compress_keyword_refuted_old_code. Qed.
Print Assumptions C15_detector_compress_keyword_refuted_old_code.
Theorem C15_detector_compress_keyword_now :
  (forall c, roundtrip cfg_now ev0 (CKw c) (VDet pnr) = Some (DVDet pnr)) /\
  roundtrip cfg_now ev0 CDefault (VList [VDet pnr]) = Some (DVList [DVDet pnr]).
Proof. exact detector_compress_keyword_now. Qed.
Print Assumptions C15_detector_compress_keyword_now.

Theorem C15_nested_first_refuted_old_code : roundtrip cfg_old ev0 CDefault (VCircuit nested_first) = None.
Proof. exact nested_first_refuted_old_code. Qed.
Print Assumptions C15_nested_first_refuted_old_code.
Theorem C15_nested_first_experiment_refuted_old_code : exists d o1 o2,
  roundtrip cfg_old ev0 CDefault (VExperiment exp_nf) = Some (DVExperiment d) /\
  de_comps d = [(0, DSub [115] 2 [(0, DLeaf KPS [DVar o1; DFix 0])]); (0, DLeaf KPS [DVar o2; DFix 0])] /\
  o_name o1 = o_name o2 /\ o_scope o1 <> o_scope o2.
Proof. exact nested_first_experiment_refuted_old_code. Qed.
Print Assumptions C15_nested_first_experiment_refuted_old_code.
Theorem C15_nested_first_now :
  roundtrip cfg_now ev0 CDefault (VCircuit nested_first) = Some (DVCircuit (inj nested_first)).
Proof. exact nested_first_now. Qed.
Print Assumptions C15_nested_first_now.

Theorem C15_symbolic_matrix_refuted_old_code : exists M, rect M /\ dec_mat (enc_mat cfg_old (MSym M)) <> Some (MSym M).
Proof. exact dec_enc_mat_sym_refuted_old_code. Qed.
Print Assumptions C15_symbolic_matrix_refuted_old_code.
