(* C09 — Sampling draws from the computed distribution and honours its limits.
   What is proved: the algorithm, given exact primitive samplers, targets the conditioned distribution of strong
   simulation (C04's [condition]) and estimates the same performances; the hard bounds of the loops for every
   trace; the totals of probs_to_sample_count for every oracle; the totals of the conversions.
   What is NOT proved (statistical, see harness/props/c09.py): that the real pseudo-random primitives
   (exqalibur's Clifford-Clifford sampler, random.choices) draw from their nominal laws. *)
From PV Require Import Model.Sampling Proofs.SamplingP.
From Coq Require Import Lia.
Open Scope Qc_scope.

(* (i) rejection sampling with the source-level pre-filter = conditioning of the whole mixture *)
Theorem C09_rejection_is_conditioning : forall spec K mix h p F keep,
  no_photon_created spec K mix -> shots_normalised spec K mix -> pre_phys F mix <> 0 ->
  let pl := pipeline spec K mix h p F keep in
  let c := condition (shot spec K mix) h p F keep in
  p_phys pl = c_phys c /\ p_logical pl = c_logical c /\
  (c_phys c * c_logical c <> 0 -> forall T, pr (p_results pl) T = pr (c_results c) T).
Proof. exact rejection_is_conditioning. Qed.
Print Assumptions C09_rejection_is_conditioning.

Example C09_rejection_hypotheses_satisfiable :
  no_photon_created ex_spec ex_K ex_mix /\ shots_normalised ex_spec ex_K ex_mix /\ pre_phys 2 ex_mix <> 0 /\
  c_phys (condition (shot ex_spec ex_K ex_mix) [(0, 1)]%nat PTrue 2 false)
  * c_logical (condition (shot ex_spec ex_K ex_mix) [(0, 1)]%nat PTrue 2 false) <> 0.
Proof. exact rejection_hypotheses_satisfiable. Qed.

(* (ii) every trace of _noisy_sampling (adversarial outcome at each iteration, any first batch):
   bounds, accounting of the three exits *)
Theorem C09_loop_bounds : forall c fb os,
  let s := run c os (init fb) in
  (length (l_out s) <= c_max_samples c)%nat /\
  (forall k, c_max_shots c = Some k -> (length (l_out s) <= k /\ l_shots s <= k)%nat) /\
  (length (l_out s) + l_notsel s + l_notphys s = l_shots s)%nat.
Proof. exact loop_bounds. Qed.
Print Assumptions C09_loop_bounds.

(* ... every emitted sample passed the filter and the selection and has its heralded modes removed;
   the input generator is asked for 1..batch_size inputs, never read beyond what it returned, and never asked
   for more inputs than the shot budget *)
Theorem C09_loop_invariants : forall c fb os, Inv c fb (run c os (init fb)).
Proof. exact loop_invariants. Qed.
Print Assumptions C09_loop_invariants.

Theorem C09_emitted_samples_are_legal : forall c s, c_keep c = false -> legal c s ->
  exists t, s = remove_heralds (c_h c) t /\ passes (c_h c) (c_ps c) t = true /\ (c_F c <= total t)%nat /\
            length s = length (filter (fun j => negb (is_herald (c_h c) j)) (seq 0 (length t))).
Proof. exact emitted_modes. Qed.
Print Assumptions C09_emitted_samples_are_legal.

(* NoisySamplingSimulator.samples as a whole (fast path, empty exits, loop with the re-scaled shot limit), THE CODE AS
   IT IS NOW (after /repo commit 869f2c44): at most min(max_samples, max_shots) samples, for every value [x] of the
   floating-point product max_shots * physical_perf / (1 - zpp) and every adversarial trace. *)
Theorem C09_sample_bounds : forall c hd fast sd x os,
  (sim_len (sim_samples c hd fast sd x os) <= limit c)%nat.
Proof. exact sample_bounds. Qed.
Print Assumptions C09_sample_bounds.

(* HISTORICAL, about the code before 869f2c44 (max_shots = ceil(x), unclamped): the bound failed ... *)
Theorem C09_sample_bounds_refuted_old_code : exists c hd fast sd x os,
  (limit c < sim_len (sim_samples_old_code c hd fast sd x os))%nat.
Proof. exact sample_bounds_refuted_old_code. Qed.
Print Assumptions C09_sample_bounds_refuted_old_code.

(* ... and held only when the float product did not exceed max_shots *)
Theorem C09_sample_bounds_partial_old_code : forall c hd fast sd x os,
  (forall k, c_max_shots c = Some k -> x <= nat_q k) ->
  (sim_len (sim_samples_old_code c hd fast sd x os) <= limit c)%nat.
Proof. exact sample_bounds_partial_old_code. Qed.
Print Assumptions C09_sample_bounds_partial_old_code.

Example C09_ratio_hypothesis_satisfiable : Q2Qc (15 # 4) <= nat_q 5.
Proof. vm_compute. discriminate. Qed.

Theorem C09_sample_bounds_max_samples : forall old c hd fast sd x os,
  (sim_len (sim_samples_cfg old c hd fast sd x os) <= c_max_samples c)%nat.
Proof. exact sample_bounds_max_samples. Qed.
Print Assumptions C09_sample_bounds_max_samples.

Theorem C09_sample_bounds_zero : forall old c hd fast sd x os,
  c_max_samples c = 0%nat \/ c_max_shots c = Some 0%nat -> sim_len (sim_samples_cfg old c hd fast sd x os) = 0%nat.
Proof. exact sample_bounds_zero. Qed.
Print Assumptions C09_sample_bounds_zero.

Theorem C09_simulator_samples_are_legal : forall old c hd fast sd x os s,
  sim_samples_cfg old c hd fast sd x os = SimLoop s -> Forall (legal c) (l_out s).
Proof. exact sim_legal. Qed.
Print Assumptions C09_simulator_samples_are_legal.

Theorem C09_fast_path_returns_the_request : forall fuel n a, (n - a <= fuel)%nat ->
  sum_nat (perfect_batches fuel n a) = (n - a)%nat.
Proof. exact perfect_batches_sum. Qed.
Print Assumptions C09_fast_path_returns_the_request.

Theorem C09_sampler_wrapper_bound : forall cap ms msh n k c hd fast sd x os,
  wrapper_limits cap ms msh = Some (n, k) -> c_max_samples c = n -> c_max_shots c = k ->
  (forall a, ms = Some a -> sim_len (sim_samples c hd fast sd x os) <= a)%nat /\
  (forall b, msh = Some b -> sim_len (sim_samples c hd fast sd x os) <= b)%nat.
Proof. exact wrapper_bound. Qed.
Print Assumptions C09_sampler_wrapper_bound.

(* Processor.samples as it is now (after /repo commit 5caa1a68) hands filter + herald photons to the sampler: samples and
   their performances follow [condition ... (flt + herald_total h)], the right-hand side of C04ext's theorems about
   Simulator.probs_svd — same conditioning for sampling and for strong simulation *)
Theorem C09_processor_samples_follow_the_conditioning_of_probs : forall spec K mix h p flt,
  no_photon_created spec K mix -> shots_normalised spec K mix -> pre_phys (flt + herald_total h) mix <> 0 ->
  let pl := processor_pipeline spec K mix h p flt in
  let c := condition (shot spec K mix) h p (flt + herald_total h) false in
  p_phys pl = c_phys c /\ p_logical pl = c_logical c /\
  (c_phys c * c_logical c <> 0 -> forall T, pr (p_results pl) T = pr (c_results c) T).
Proof. exact processor_samples_condition. Qed.
Print Assumptions C09_processor_samples_follow_the_conditioning_of_probs.

(* HISTORICAL, about the code before 5caa1a68 (filter handed over without the herald photons) *)
Theorem C09_processor_samples_refuted_old_code : exists spec K mix h p flt,
  no_photon_created spec K mix /\ shots_normalised spec K mix /\ pre_phys (flt + herald_total h) mix <> 0 /\
  p_phys (processor_pipeline_old_code spec K mix h p flt)
  <> c_phys (condition (shot spec K mix) h p (flt + herald_total h) false).
Proof. exact processor_samples_refuted_old_code. Qed.
Print Assumptions C09_processor_samples_refuted_old_code.

(* (iii) probs_to_sample_count: whenever the repair exits, the table sums to the request, for every rounded
   input and every oracle of valid choices; and some oracle makes it exit *)
Theorem C09_count_repair_total : forall xs count os out,
  Forall (fun x => 0 <= x) xs -> Forall (fun k => k < length xs)%nat os ->
  repair xs count os = Some out ->
  sumZ out = count /\ Forall (fun z => 0 <= z)%Z out /\ length out = length xs.
Proof. exact count_repair_total. Qed.
Print Assumptions C09_count_repair_total.

Theorem C09_count_repair_can_exit : forall xs count, Forall (fun x => 0 <= x) xs -> xs <> [] -> (0 <= count)%Z ->
  exists os, Forall (fun k => k < length xs)%nat os /\ repair xs count os <> None.
Proof. exact count_repair_can_exit. Qed.
Print Assumptions C09_count_repair_can_exit.

Example C09_count_repair_example :
  repair [Q2Qc (5 # 2); Q2Qc (7 # 2); Q2Qc (9 # 10)] 5 [2; 0]%nat = Some [1; 4; 0]%Z.
Proof. vm_compute. reflexivity. Qed.

Theorem C09_fallback_histogram_total : forall n l, Forall (fun k => k < n)%nat l ->
  sumZ (hist n l) = Z.of_nat (length l).
Proof. exact hist_total. Qed.
Print Assumptions C09_fallback_histogram_total.

(* (iv) conversions preserve totals *)
Theorem C09_samples_to_count_total : forall l, ctotal (samples_to_count l) = length l.
Proof. exact samples_to_count_total. Qed.
Print Assumptions C09_samples_to_count_total.

Theorem C09_samples_to_count_occurrences : forall l T, cget (samples_to_count l) T = occurrences T l.
Proof. exact samples_to_count_get. Qed.
Print Assumptions C09_samples_to_count_occurrences.

Theorem C09_count_to_probs_mass : forall c, ctotal c <> 0%nat -> mass (count_to_probs c) = 1.
Proof. exact count_to_probs_mass. Qed.
Print Assumptions C09_count_to_probs_mass.

Theorem C09_count_to_probs_roundtrip : forall c T, pr (count_to_probs c) T * qnat (ctotal c) = qnat (cget c T).
Proof. exact count_to_probs_roundtrip. Qed.
Print Assumptions C09_count_to_probs_roundtrip.

Theorem C09_samples_to_probs_frequencies : forall l T,
  pr (samples_to_probs l) T * qnat (length l) = qnat (occurrences T l).
Proof. exact samples_to_probs_freq. Qed.
Print Assumptions C09_samples_to_probs_frequencies.

(* the first hypothesis of C09_rejection_is_conditioning holds for the specification distribution of any matrix
   and any kernel that creates no photon (in particular perfect detection) *)
Theorem C09_unitary_spec_creates_no_photon : forall U m K mix,
  (forall t u w, In (u, w) (K t) -> (total u <= total t)%nat) ->
  no_photon_created (SelectX.spec_dist U m) K mix.
Proof. exact unitary_spec_creates_no_photon. Qed.
Print Assumptions C09_unitary_spec_creates_no_photon.

(* the inputs the sampler draws from: exactly the members of the mixture holding at least F photons — with no filter,
   all of them, the vacuum included *)
Theorem C09_no_filter_keeps_every_input : forall mix, prefilter 0 mix = mix.
Proof. exact prefilter_zero. Qed.
Print Assumptions C09_no_filter_keeps_every_input.

Theorem C09_input_restriction : forall F mix pg, In pg (prefilter F mix) <-> In pg mix /\ (F <= gtotal (snd pg))%nat.
Proof. exact prefilter_spec. Qed.
Print Assumptions C09_input_restriction.
