(* C11 — Circuit transformations have exactly their advertised algebraic effect.
   Only statements + [exact] + Print Assumptions live here.  Models: Model/Transform.v, Model/Simplify.v
   ([*_now] = /repo as it is now, after the repairs db5cda2f (BS.inverse), 47d2b926 (_flatten), 4e70c855
   (_update_adjacent); [*_old] = the code before them.  Theorems named *_old_code are statements about that
   HISTORICAL code, kept as regression knowledge: they say why the repairs were needed). *)
From Coq Require Import Permutation.
From PV Require Import Model.Transform Model.Simplify Model.TransformX Proofs.CircuitP Proofs.ComponentsP
  Proofs.TransformP Proofs.FlattenP Proofs.BubbleP Proofs.SimplifyP Proofs.PermP Proofs.SeqP Proofs.WitnessP.
Local Open Scope nat_scope.

(* ================= inversion ================= *)
(* "the matrix with the mode order reversed on both sides" is J A J *)
Theorem C11_vflip_is_JUJ : forall (R : cring) k (A : mat R), meq k (vflip k A) (mmul k (jmat k) (mmul k A (jmat k))).
Proof. exact vflip_JUJ. Qed.
Print Assumptions C11_vflip_is_JUJ.

(* Unitary.inverse(h) computes u.inv(): for a unitary matrix any left inverse is the adjoint *)
Theorem C11_inverse_of_unitary_is_adjoint : forall (R : cring) n (U V : mat R),
  unitary n U -> meq n (mmul n V U) mid -> meq n V (madj U).
Proof. exact inverse_is_adjoint. Qed.
Print Assumptions C11_inverse_of_unitary_is_adjoint.

Theorem C11_inverse_h_is_inverse : forall (R : cring) n (A B : mat R), unitary n A -> meq n B (expected false true n A) ->
  meq n (mmul n B A) mid /\ meq n (mmul n A B) mid.
Proof. exact inverse_h_is_inverse. Qed.
Print Assumptions C11_inverse_h_is_inverse.

(* Circuit.inverse(v, h) on any tree (any nesting depth, offsets, sizes): product reversed for h, ranges mirrored
   for v; right as soon as the leaf inversions are right on the leaves of that tree *)
Theorem C11_circuit_inverse_lifts : forall (R : cring) (ii : R) (li : leaf R -> leaf R) v h,
  (forall l, lw (li l) = lw l) -> forall t : tcomp R, twf R ii t ->
  (forall l, In l (leaves R t) -> meq (lw l) (leafm ii (li l)) (expected v h (lw l) (leafm ii l))) ->
  meq (tw t) (tmat ii (tinv li v h t)) (expected v h (tw t) (tmat ii t)).
Proof. exact tinv_sound. Qed.
Print Assumptions C11_circuit_inverse_lifts.

(* HISTORICAL: the full statement was false of BS.inverse before db5cda2f (three witnesses); it now holds: C11_bs_inverse *)
Theorem C11_bs_inverse_h_refuted_old_code : forall cv,
  ~ meq 2 (leafm qII (bs_inverse_old cv false true c35 s45 ph one one one))
          (expected false true 2 (bs_mat cv qII c35 s45 ph one one one)).
Proof. exact bs_inverse_h_refuted. Qed.
Print Assumptions C11_bs_inverse_h_refuted_old_code.
Theorem C11_bs_inverse_v_refuted_old_code : forall cv,
  ~ meq 2 (leafm qII (bs_inverse_old cv true false c35 s45 ph one one one))
          (expected true false 2 (bs_mat cv qII c35 s45 ph one one one)).
Proof. exact bs_inverse_v_refuted. Qed.
Print Assumptions C11_bs_inverse_v_refuted_old_code.
Theorem C11_bs_inverse_vh_ry_refuted_old_code :
  ~ meq 2 (leafm qII (bs_inverse_old Ry true true c35 s45 one one one one))
          (expected true true 2 (bs_mat Ry qII c35 s45 one one one one)).
Proof. exact bs_inverse_vh_ry_refuted. Qed.
Print Assumptions C11_bs_inverse_vh_ry_refuted_old_code.
Theorem C11_witness_is_a_legal_beam_splitter : kmul qII qII = kopp (k1 : QI) /\ kconj qII = kopp qII /\
  kconj c35 = c35 /\ kconj s45 = s45 /\ kmul c35 c35 = ksub k1 (kmul s45 s45) /\
  kmul ph (kconj ph) = k1 /\ kmul one (kconj one) = k1.
Proof. exact witness_legal. Qed.
Print Assumptions C11_witness_is_a_legal_beam_splitter.

(* HISTORICAL: the old BS.inverse on the complement: phases with tl*br = tr*bl (for h), tl*tr = bl*br and tr*bl = tl*br (for v),
   and not (Ry with v and h) *)
Theorem C11_bs_inverse_old_code_partial : forall (R : cring) (ii : R), kconj ii = kopp ii ->
  forall cv v h c s tl bl tr br, kconj c = c -> kconj s = s -> leaf_sym R v h (LBS cv c s tl bl tr br) ->
  meq 2 (leafm ii (bs_inverse_old cv v h c s tl bl tr br)) (expected v h 2 (bs_mat cv ii c s tl bl tr br)).
Proof. exact bs_inverse_partial. Qed.
Print Assumptions C11_bs_inverse_old_code_partial.
(* BS.inverse as it is now: right for ALL parameter values, the three conventions, all flags (v, h) *)
Theorem C11_bs_inverse : forall (R : cring) (ii : R), kconj ii = kopp ii ->
  forall cv v h c s tl bl tr br, kconj c = c -> kconj s = s ->
  meq 2 (leafm ii (bs_inverse_now cv v h c s tl bl tr br)) (expected v h 2 (bs_mat cv ii c s tl bl tr br)).
Proof. exact bs_inverse_fixed_ok. Qed.
Print Assumptions C11_bs_inverse.

Theorem C11_circuit_inverse_old_code_partial : forall (R : cring) (ii : R), kconj ii = kopp ii ->
  forall v h (t : tcomp R), twf R ii t -> (forall l, In l (leaves R t) -> leaf_real R l /\ leaf_sym R v h l) ->
  meq (tw t) (tmat ii (circuit_inverse_old v h t)) (expected v h (tw t) (tmat ii t)).
Proof. exact circuit_inverse_partial. Qed.
Print Assumptions C11_circuit_inverse_old_code_partial.
Theorem C11_circuit_inverse : forall (R : cring) (ii : R), kconj ii = kopp ii ->
  forall v h (t : tcomp R), twf R ii t -> (forall l, In l (leaves R t) -> leaf_real R l) ->
  meq (tw t) (tmat ii (circuit_inverse_now v h t)) (expected v h (tw t) (tmat ii t)).
Proof. exact circuit_inverse_fixed. Qed.
Print Assumptions C11_circuit_inverse.

(* ================= breaking permutations into two-mode swaps ================= *)
Theorem C11_bubble_is_perm : forall (R : cring) (p : list nat), is_perm p ->
  meq (length p) (oprod (length p) (map (swapm R) (bubble_swaps p))) (perm_mat p).
Proof. exact bubble_is_perm. Qed.
Print Assumptions C11_bubble_is_perm.
Theorem C11_decompose_perms_preserves : forall (R : cring) (ii : R) m (fc : fcirc R), fvalid R m fc ->
  meq m (fmat ii m (decompose_perms fc)) (fmat ii m fc).
Proof. exact decompose_perms_preserves. Qed.
Print Assumptions C11_decompose_perms_preserves.

(* decompose_perms as a transformation of circuits (merged or nested swap networks, built afresh at every call):
   same matrix; and a transformation applied AFTER it sees a circuit with the operand's value -- inverting the
   decomposed circuit yields the adjoint / J U J of the original matrix *)
Theorem C11_decompose_tree_preserves : forall (R : cring) (ii : R) merge (t : tcomp R), twf R ii t -> perms_ok R t ->
  meq (tw t) (tmat ii (tdecompose merge t)) (tmat ii t).
Proof. exact tdecompose_mat. Qed.
Print Assumptions C11_decompose_tree_preserves.
Theorem C11_decompose_then_inverse : forall (R : cring) (ii : R) merge v h (t : tcomp R), kconj ii = kopp ii ->
  twf R ii t -> perms_ok R t -> (forall l, In l (leaves R t) -> leaf_real R l) ->
  meq (tw t) (tmat ii (circuit_inverse_now v h (tdecompose merge t))) (expected v h (tw t) (tmat ii t)).
Proof. exact decompose_then_inverse. Qed.
Print Assumptions C11_decompose_then_inverse.

(* ================= flattening and regrouping ================= *)
(* HISTORICAL: _flatten before 47d2b926 dropped the enclosing offset; the full statement now holds: C11_flatten_preserves *)
Theorem C11_flatten_refuted_old_code : fits QI qII 4 nest_items /\
  ~ meq 4 (emat qII 4 (exp_flatten_old None nest_items)) (emat qII 4 nest_items).
Proof. exact flatten_refuted. Qed.
Print Assumptions C11_flatten_refuted_old_code.
Theorem C11_flatten_old_code_partial : forall (R : cring) (ii : R) M d (items : list (nat * tcomp R)),
  fits R ii M items -> okF_top R items -> meq M (emat ii M (exp_flatten_old d items)) (emat ii M items).
Proof. exact exp_flatten_code_partial. Qed.
Print Assumptions C11_flatten_old_code_partial.
Theorem C11_flatten_old_code_depth1 : forall (R : cring) (ii : R) M d (items : list (nat * tcomp R)),
  fits R ii M items -> Forall (fun ot => shallow R (snd ot)) items ->
  meq M (emat ii M (exp_flatten_old d items)) (emat ii M items).
Proof. exact exp_flatten_code_depth1. Qed.
Print Assumptions C11_flatten_old_code_depth1.
Theorem C11_flatten_preserves : forall (R : cring) (ii : R) M d (items : list (nat * tcomp R)),
  fits R ii M items -> meq M (emat ii M (exp_flatten_now d items)) (emat ii M items).
Proof. exact exp_flatten_fixed_ok. Qed.
Print Assumptions C11_flatten_preserves.
Theorem C11_regroup_preserves : forall (R : cring) (ii : R) M (run : list (nat * tcomp R)), run <> [] ->
  (forall ot, In ot run -> 0 < tw (snd ot) /\ fst ot + tw (snd ot) <= M) ->
  let '(a, w, B) := regroup_run ii M run in a + w <= M /\ meq M (embed a w B) (emat ii M run).
Proof. exact regroup_preserves. Qed.
Print Assumptions C11_regroup_preserves.

(* ================= the simplifier's rewrite rules ================= *)
Theorem C11_move_component_through_permutation : forall (R : cring) M sg tu o o' k (A : mat R),
  bij_on M sg tu -> o + k <= M -> (forall t, t < k -> tu (o + t) = o' + t) ->
  meq M (mmul M (pmat tu) (mmul M (embed o k A) (pmat sg))) (embed o' k A).
Proof. exact move_comp_ok. Qed.
Print Assumptions C11_move_component_through_permutation.
Theorem C11_move_rule : forall (R : cring) M sg tu prev c (comps comps' : list (mat R)), bij_on M sg tu ->
  (forall k, k < M -> prev k < M) ->
  Forall2 (fun X X' => meq M X' (mmul M (pmat tu) (mmul M X (pmat sg)))) comps comps' ->
  meq M (mmul M (pmat c) (mmul M (oprod M comps) (pmat prev)))
        (mmul M (pmat (fun k => c (sg k))) (mmul M (oprod M comps') (pmat (fun k => tu (prev k))))).
Proof. exact move_rule. Qed.
Print Assumptions C11_move_rule.
Theorem C11_ps_fuse : forall (R : cring) M o (e1 e2 : R), o + 1 <= M ->
  meq M (mmul M (embed o 1 (ps_mat e2)) (embed o 1 (ps_mat e1))) (embed o 1 (ps_mat (kmul e1 e2))).
Proof. exact ps_fuse. Qed.
Print Assumptions C11_ps_fuse.
Theorem C11_ps_zero_drop : forall (R : cring) M o, meq (R:=R) M (embed o 1 (ps_mat k1)) mid.
Proof. exact ps_zero_drop. Qed.
Print Assumptions C11_ps_zero_drop.
Theorem C11_ps_through_perm : forall (R : cring) M sg tu k (e : R), bij_on M sg tu -> k < M ->
  meq M (mmul M (pmat sg) (embed k 1 (ps_mat e))) (mmul M (embed (sg k) 1 (ps_mat e)) (pmat sg)).
Proof. exact ps_through_perm. Qed.
Print Assumptions C11_ps_through_perm.
Theorem C11_ps_commutes_with_disjoint : forall (R : cring) M k (e : R) o w (A : mat R), k < M -> o + w <= M ->
  (k < o \/ o + w <= k) ->
  meq M (mmul M (embed k 1 (ps_mat e)) (embed o w A)) (mmul M (embed o w A) (embed k 1 (ps_mat e))).
Proof. exact ps_commute. Qed.
Print Assumptions C11_ps_commutes_with_disjoint.

(* two consecutive PERMs = one PERM with perm_compose's vector on range(max_r) *)
Theorem C11_perm_fuse : forall (R : cring) M lo lp ro rp, is_perm lp -> is_perm rp ->
  Nat.max (lo + length lp) (ro + length rp) <= M ->
  meq M (mmul M (embed ro (length rp) (perm_mat rp)) (embed lo (length lp) (perm_mat lp)))
        (embed 0 (Nat.max (lo + length lp) (ro + length rp)) (perm_mat (R:=R) (perm_compose lo lp ro rp))).
Proof. exact perm_fuse. Qed.
Print Assumptions C11_perm_fuse.
(* reduce_perm: trimming the fixed points at both ends preserves the matrix (identity -> nothing left) *)
Theorem C11_perm_trim : forall (R : cring) M a p, is_perm p -> a + length p <= M ->
  let '(o', p') := reduce_perm a p in
  meq M (embed a (length p) (perm_mat (R:=R) p)) (embed o' (length p') (perm_mat p')).
Proof. exact perm_trim. Qed.
Print Assumptions C11_perm_trim.

(* _update_adjacent as it is now: no mode is lost, and a component's modes join every group they touch *)
Theorem C11_update_adjacent_covers : forall m rs adj, covers m adj -> covers m (fold_left update_adjacent rs adj).
Proof. exact update_adjacent_fold_covers. Qed.
Print Assumptions C11_update_adjacent_covers.
Theorem C11_update_adjacent_groups : forall adj r, (exists g, In g adj /\ meets g r = true) ->
  exists G, In G (update_adjacent adj r) /\ (forall x, In x r -> In x G) /\
            (forall g x, In g adj -> meets g r = true -> In x g -> In x G).
Proof. exact update_adjacent_groups. Qed.
Print Assumptions C11_update_adjacent_groups.
(* HISTORICAL: before 4e70c855 _update_adjacent lost modes *)
Theorem C11_update_adjacent_refuted_old_code :
  let groups := fold_left update_adjacent_old [[2; 3]; [1; 2]] (map (fun j => [j]) (seq 0 4)) in
  ~ (forall k, k < 4 -> exists g, In g groups /\ In k g).
Proof. exact update_adjacent_refuted. Qed.
Print Assumptions C11_update_adjacent_refuted_old_code.

(* per-instance validation of the heuristic search: the checkers decide matrix equality / closeness *)
Theorem C11_circ_eq_sound : forall ii m (c1 c2 : fcirc QI), circ_eq ii m c1 c2 = true <-> meq m (fmat ii m c1) (fmat ii m c2).
Proof. exact circ_eq_sound. Qed.
Print Assumptions C11_circ_eq_sound.
Theorem C11_mat_close_zero : forall n (A B : mat QI), mat_close 0%Qc n A B = true -> meq n A B.
Proof. exact mat_close_zero. Qed.
Print Assumptions C11_mat_close_zero.
Theorem C11_mat_close_refl : forall eps2 n (A B : mat QI), (0 <= eps2)%Qc -> meq n A B -> mat_close eps2 n A B = true.
Proof. exact mat_close_refl. Qed.
Print Assumptions C11_mat_close_refl.

(* hypotheses are satisfiable *)
Example C11_ex_perm : is_perm [2; 0; 1]. Proof. exact is_perm_ex. Qed.
Example C11_ex_bij : bij_on 3 (fun k => nth k [2; 0; 1] k) (fun k => nth k [1; 2; 0] k). Proof. exact bij_ex. Qed.
Example C11_ex_sym : leaf_sym QI true true (LBS Rx c35 s45 ph ph ph ph) /\ leaf_real QI (LBS Rx c35 s45 ph ph ph ph).
Proof. exact leaf_sym_ex. Qed.
Example C11_ex_flatten : okF_top QI [(0, TSub 3 [(1, swap2)])] /\ Forall (fun ot => shallow QI (snd ot)) [(1, swap2)].
Proof. exact flatten_partial_hyp. Qed.
Example C11_ex_covers : covers 4 (map (fun j => [j]) (seq 0 4)). Proof. exact (covers_init 4). Qed.
