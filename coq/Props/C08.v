(* C08 — Detector models return the click statistics of their physical description. *)
From PV Require Import Model.Detector Proofs.DetectorP.
Open Scope Qc_scope.

(* the recurrence of Detector._cond_probability has the closed form C(w,k) S(n,k) k! / w^n, for all w, k, n *)
Theorem C08_click_law_closed_form : forall w n k, (0 < w)%nat ->
  cond w n k = qn (binom w k) * qn (stir n k) * qn (fact k) / qpow (qn w) n.
Proof. exact cond_closed_form. Qed.
Print Assumptions C08_click_law_closed_form.

Theorem C08_click_law_total : forall w, (0 < w)%nat -> forall n, qsum (S n) (fun k => cond w n k) = 1.
Proof. exact cond_total. Qed.
Print Assumptions C08_click_law_total.

(* the early exit `if nph < det: return 0` does not change the recurrence *)
Theorem C08_early_exit_is_recurrence : forall w n k,
  cond w (S n) (S k) = cond w n k * (qn w - qn k) / qn w + cond w n (S k) * qn (S k) / qn w.
Proof. exact cond_rec. Qed.
Print Assumptions C08_early_exit_is_recurrence.

(* Detector.detect: readings below the maximum keep their probability, the maximum collects every outcome at or
   above it, nothing is read above it, total mass 1 (this covers the n < 2 and threshold shortcuts) *)
Theorem C08_detect_folds_into_maximum : forall w mx n, (1 <= mx)%nat -> (mx <= w)%nat ->
  (forall j, (j < mx)%nat -> prob1 j (detect (Inter w mx) n) = cond w n j) /\
  prob1 mx (detect (Inter w mx) n) = qsum (S n - mx) (fun i => cond w n (mx + i)) /\
  (forall j, (mx < j)%nat -> prob1 j (detect (Inter w mx) n) = 0) /\
  mass1 (detect (Inter w mx) n) = 1.
Proof. exact detect_folds. Qed.
Print Assumptions C08_detect_folds_into_maximum.

Theorem C08_threshold_reads_min1 : forall n, detect threshold n = [(Nat.min n 1, 1)].
Proof. exact threshold_min1. Qed.
Print Assumptions C08_threshold_reads_min1.

Theorem C08_pnr_reads_n : forall n, detect Pnr n = [(n, 1)] /\ kernel None n = [(n, 1)].
Proof. exact pnr_identity. Qed.
Print Assumptions C08_pnr_reads_n.

Theorem C08_constructors :
  mk_detector (Some 1%nat) None = Some threshold /\ (forall m, mk_detector None m = Some Pnr) /\
  (forall w m, (0 < w)%nat -> (m <= w)%nat -> mk_detector (Some w) (Some m) = Some (Inter w m)) /\
  (forall w, (0 < w)%nat -> mk_detector (Some w) None = Some (Inter w w)).
Proof. exact constructors. Qed.
Print Assumptions C08_constructors.

(* beam-splitter tree with reflectivity 1/2 = interleaved detector with 2^L wires, for every depth and photon number *)
Theorem C08_tree_click_law_uniform : forall r L n k, r + r = 1 -> clicks (tree_leaves L r) n k = cond (2 ^ L) n k.
Proof. exact tree_clicks_uniform. Qed.
Print Assumptions C08_tree_click_law_uniform.

Theorem C08_bs_tree_is_interleaved : forall r L n j, r + r = 1 ->
  prob1 j (detect (Tree L r) n) = prob1 j (detect (Inter (2 ^ L) (2 ^ L)) n).
Proof. exact bs_tree_uniform. Qed.
Print Assumptions C08_bs_tree_is_interleaved.

(* every kernel (none / PNR / interleaved with any maximum / tree with any reflectivity) has total mass 1 *)
Theorem C08_every_kernel_is_a_law : forall od n, mass1 (kernel od n) = 1.
Proof. exact kernels_proper. Qed.
Print Assumptions C08_every_kernel_is_a_law.

Theorem C08_readings_bounded_by_max_detections : forall d m n k,
  max_detections d = Some m -> (1 <= m)%nat -> (m < k)%nat -> prob1 k (detect d n) = 0.
Proof. exact detect_support. Qed.
Print Assumptions C08_readings_bounded_by_max_detections.

(* simulate_detectors: the joint law before filtering is the product kernel applied to the input law *)
Theorem C08_simulate_is_product_kernel : forall d ds t, well_formed d ds ->
  prob_of t (expand d ds) = qsuml (map (fun sp => snd sp * prodk ds (fst sp) t) d).
Proof. exact simulate_independent. Qed.
Print Assumptions C08_simulate_is_product_kernel.

Theorem C08_simulate_preserves_total : forall d ds, well_formed d ds -> mass (expand d ds) = mass d.
Proof. exact simulate_total. Qed.
Print Assumptions C08_simulate_preserves_total.

(* FULL statement, every detector list (all-PNR with a filter included; /repo since d3d39a64):
   perf = un-normalised kept mass, kept + dropped = 1, every returned state passes the filter, the result has mass 1
   and is the conditional law. *)
Theorem C08_simulate_bookkeeping : forall d ds minp, well_formed d ds -> mass d = 1 ->
  let out := expand d ds in
  let res := fst (simulate d ds minp) in
  let perf := snd (simulate d ds minp) in
  perf = mass (kept minp out) /\
  perf + mass (dropped minp out) = 1 /\
  (forall t, prob_of t (kept minp out) = if keep minp t then prob_of t out else 0) /\
  Forall (fun e => keep minp (fst e) = true) res /\
  (perf <> 0 -> mass res = 1 /\ forall t, prob_of t res = (if keep minp t then prob_of t out else 0) / perf).
Proof. exact simulate_bookkeeping. Qed.
Print Assumptions C08_simulate_bookkeeping.

(* HISTORICAL, about the code before /repo commit d3d39a64 ([simulate_old_code], all-PNR shortcut taken whatever the
   filter): the statement above failed there; the defect is repaired and the witness is a regression case of the driver *)
Theorem C08_simulate_filter_refuted_old_code : exists d ds k,
  mass d = 1 /\ well_formed d ds /\ Forall proper ds /\
  snd (simulate_old_code d ds (Some k)) = 1 /\
  exists e, In e (fst (simulate_old_code d ds (Some k))) /\ keep (Some k) (fst e) = false.
Proof. exact simulate_filter_refuted_old_code. Qed.
Print Assumptions C08_simulate_filter_refuted_old_code.
Theorem C08_old_code_differs_only_on_all_pnr : forall d ds minp,
  detection_type ds <> TPnr -> simulate_old_code d ds minp = simulate d ds minp.
Proof. exact simulate_old_code_same. Qed.
Print Assumptions C08_old_code_differs_only_on_all_pnr.
Theorem C08_witness_on_current_code :
  let r := simulate [([1%nat; 0%nat], Q2Qc (1#2)); ([0%nat; 0%nat], Q2Qc (1#2))] [Some Pnr; None] (Some 1%nat) in
  map fst (fst r) = [[1%nat; 0%nat]] /\ snd r = Q2Qc (1#2).
Proof. exact simulate_witness_current_code. Qed.
Print Assumptions C08_witness_on_current_code.

(* with only PNR / absent detectors the kernel is the identity; without a filter the input is returned as it is *)
Theorem C08_all_pnr_kernel_is_identity : forall d ds, detection_type ds = TPnr -> well_formed d ds -> expand d ds = d.
Proof. exact expand_pnr. Qed.
Print Assumptions C08_all_pnr_kernel_is_identity.
Theorem C08_simulate_all_pnr_no_filter : forall d ds, detection_type ds = TPnr ->
  simulate d ds None = (d, 1) /\ forall s, length s = length ds -> tensor s ds = [(s, 1)].
Proof. exact simulate_pnr. Qed.
Print Assumptions C08_simulate_all_pnr_no_filter.

(* get_detection_type / check_heralds_detectors *)
Theorem C08_detection_type_common : forall ds t, ds <> [] -> Forall (fun d => otype d = t) ds -> detection_type ds = t.
Proof. exact detection_type_uniform. Qed.
Print Assumptions C08_detection_type_common.
Theorem C08_detection_type_inv : forall ds t, detection_type ds = t -> t <> TMixed -> Forall (fun d => otype d = t) ds.
Proof. exact detection_type_inv. Qed.
Print Assumptions C08_detection_type_inv.
Theorem C08_detection_type_mixed : forall ds, ds <> [] ->
  (detection_type ds = TMixed <-> forall t, ~ Forall (fun d => otype d = t) ds).
Proof. exact detection_type_mixed. Qed.
Print Assumptions C08_detection_type_mixed.
Theorem C08_check_heralds_spec : forall hs ds, ds <> [] ->
  (check_heralds hs ds = false <->
   exists k v d m, In (k, v) hs /\ nth k ds None = Some d /\ max_detections d = Some m /\ (m < v)%nat).
Proof. exact check_heralds_spec. Qed.
Print Assumptions C08_check_heralds_spec.

Example C08_simulate_hypotheses_satisfiable : exists d ds,
  well_formed d ds /\ mass d = 1 /\ snd (simulate d ds (Some 2%nat)) <> 0.
Proof. exact simulate_hypotheses_satisfiable. Qed.
