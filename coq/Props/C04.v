(* C04 — Heralds, post-selection and photon filters condition the output exactly. *)
From PV Require Import Model.Select Proofs.SelectP Proofs.ConvP.
Open Scope Qc_scope.

Theorem C04_result_normalised : forall d h p F keep,
  mass (dfilter (passes h p) (dfilter (fun t => (F <=? total t)%nat) d)) <> 0 ->
  mass (c_results (condition d h p F keep)) = 1.
Proof. exact condition_normalised. Qed.
Print Assumptions C04_result_normalised.

Theorem C04_performances_multiply_to_retained_mass : forall d h p F keep,
  mass (dfilter (fun t => (F <=? total t)%nat) d) <> 0 ->
  c_phys (condition d h p F keep) * c_logical (condition d h p F keep)
  = mass (dfilter (passes h p) (dfilter (fun t => (F <=? total t)%nat) d)).
Proof. exact perf_product. Qed.
Print Assumptions C04_performances_multiply_to_retained_mass.

Theorem C04_physical_perf_is_filter_probability : forall d h p F keep,
  mass d = c_phys (condition d h p F keep) + mass (dfilter (fun t => negb (F <=? total t)%nat) d).
Proof. exact phys_is_filter_probability. Qed.
Print Assumptions C04_physical_perf_is_filter_probability.

Theorem C04_only_passing_outcomes_kept : forall d h p F T,
  pr (dfilter (passes h p) (dfilter (fun t => (F <=? total t)%nat) d)) T =
  if passes h p T && (F <=? total T)%nat then pr d T else 0.
Proof. exact kept_states_pass. Qed.
Print Assumptions C04_only_passing_outcomes_kept.

Theorem C04_heralded_modes_removed : forall h t i,
  length (remove_modes_from i h t) = length (filter (fun j => negb (is_herald h j)) (seq i (length t))).
Proof. exact heralds_removed. Qed.
Print Assumptions C04_heralded_modes_removed.

(* the filter counts the photons of the non-heralded modes once the heralds are satisfied *)
Theorem C04_filter_counts_nonherald_photons : forall mk T f, length T = length mk -> mask_exact mk T = true ->
  ((f + mask_fixed_total mk <=? total T) = (f <=? mask_free_total mk T))%nat.
Proof. exact filter_counts_nonherald. Qed.
Print Assumptions C04_filter_counts_nonherald_photons.

(* one group's output g, the other groups' summed output r: g survives the herald mask instantiated
   with the implementation's photon budget whenever the merged outcome shows the heralded values *)
Theorem C04_mask_budget_sound : forall mk g r n_ext, length g = length mk -> length r = length mk ->
  mask_exact mk (state_add g r) = true -> total (state_add g r) = n_ext ->
  mask_keep1 (best_n true (mask_fixed_total mk) n_ext (total g)) mk g = true.
Proof. exact mask_budget_sound. Qed.
Print Assumptions C04_mask_budget_sound.

(* hence restricting every group's engine to the herald mask changes the probability of no heralded
   outcome of the merged distribution: any number of groups, any distributions *)
Theorem C04_internal_mask_invisible : forall mk n_ext ns ds T,
  Forall2 (fun n d => forall t w, In (t, w) d -> total t = n /\ length t = length mk) ns ds ->
  mask_exact mk T = true -> total T = n_ext ->
  pr (conv_all (filtered (budget_preds mk n_ext ns) ds)) T = pr (conv_all ds) T.
Proof. exact herald_mask_invisible. Qed.
Print Assumptions C04_internal_mask_invisible.

Theorem C04_any_sound_restriction_invisible : forall Ps ds T,
  (forall ts, choice ts ds -> sum_from [] ts = T -> all_hold Ps ts) ->
  pr (conv_all (filtered Ps ds)) T = pr (conv_all ds) T.
Proof. exact restriction_invisible. Qed.
Print Assumptions C04_any_sound_restriction_invisible.
