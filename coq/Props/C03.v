(* C03 — Simulation is linear in its input; distinguishable photons evolve independently. *)
From PV Require Import Model.Simulator Proofs.SimulatorP Proofs.ConvP Model.Select.
From Coq Require Import Permutation.

(* [w] is any weight function (it stands for 1/sqrt(prod s_i!)); amplitudes <t|U|s> = w s * w t * perm *)
Theorem C03_evolution_additive : forall (R : cring) (U : mat R) m w (p1 p2 : sv R) t,
  evolve_amp U m w (p1 ++ p2) t = kadd (evolve_amp U m w p1 t) (evolve_amp U m w p2 t).
Proof. exact evolve_additive. Qed.
Print Assumptions C03_evolution_additive.

Theorem C03_evolution_homogeneous : forall (R : cring) (U : mat R) m w l (psi : sv R) t,
  evolve_amp U m w (scale_sv l psi) t = kmul l (evolve_amp U m w psi t).
Proof. exact evolve_homogeneous. Qed.
Print Assumptions C03_evolution_homogeneous.

Theorem C03_term_order_irrelevant : forall (R : cring) (U : mat R) m w (p1 p2 : sv R) t,
  Permutation p1 p2 -> evolve_amp U m w p1 t = evolve_amp U m w p2 t.
Proof. exact evolve_order_irrelevant. Qed.
Print Assumptions C03_term_order_irrelevant.

Theorem C03_equal_terms_merge : forall (R : cring) (U : mat R) m w a b s (psi : sv R) t,
  evolve_amp U m w ((a, s) :: (b, s) :: psi) t = evolve_amp U m w ((kadd a b, s) :: psi) t.
Proof. exact evolve_merges_equal_terms. Qed.
Print Assumptions C03_equal_terms_merge.

(* unequal photon numbers: only the terms with the output's photon number contribute *)
Theorem C03_photon_number_sectors : forall (R : cring) (U : mat R) m w (psi : sv R) t,
  evolve_amp U m w psi t = evolve_amp U m w (filter (fun cs => (total (snd cs) =? total t)%nat) psi) t.
Proof. exact evolve_sector. Qed.
Print Assumptions C03_photon_number_sectors.

(* a statistical mixture gives the probability-weighted sum of its members' distributions *)
Theorem C03_mixture_is_weighted_sum : forall (mix : list (Qc * dist)) T,
  pr (mixture mix) T = fold_right (fun pd acc => (fst pd * pr (snd pd) T + acc)%Qc) (Q2Qc 0) mix.
Proof. exact mixture_convex. Qed.
Print Assumptions C03_mixture_is_weighted_sum.

(* differently tagged groups: the merged output distribution is the convolution — the probability of T
   is the sum over one output per group adding up to T of the product of the groups' probabilities,
   with no interference term *)
Theorem C03_groups_convolve : forall (ds : list dist) T, pr (conv_all ds) T = S ds [] T.
Proof. exact pr_conv_all. Qed.
Print Assumptions C03_groups_convolve.
Theorem C03_convolution_mass : forall ds : list dist,
  mass (conv_all ds) = fold_right (fun d acc => (mass d * acc)%Qc) (Q2Qc 1) ds.
Proof. exact mass_conv_all. Qed.
Print Assumptions C03_convolution_mass.

(* a density matrix built from a mixture of state vectors yields the mixture's output probabilities *)
Theorem C03_density_matrix_eq_mixture : forall (R : cring) (U : mat R) m w (B : list state)
  (mix : list (R * (state -> R))) t,
  dm_prob U m w B (dm_of_mixture mix) t =
  lsum mix (fun pc => kmul (fst pc) (kmul (evolve_amp_fn U m w B (snd pc) t) (kconj (evolve_amp_fn U m w B (snd pc) t)))).
Proof. exact dm_eq_svd. Qed.
Print Assumptions C03_density_matrix_eq_mixture.
