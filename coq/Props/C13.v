(* C13 — Polarisation-aware simulation equals spatial simulation on doubled modes.
   Only statements + [exact] + Print Assumptions live here. *)
From Coq Require Import Reals.
From PV Require Import Model.Polar Proofs.CircuitP Proofs.ComponentsP Proofs.PolarP Proofs.TrigInst Proofs.PolarReal Lib.QI Lib.Q2.

(* 1. doubling a spatial matrix (non-polarising components act identically on both polarisations) is a
      monoid morphism: products, identity, adjoint; hence it preserves unitarity.  Any size, any ring. *)
Theorem C13_double_mul : forall (R : cring) n (A B : mat R),
  meq (2 * n) (mmul (2 * n) (mdouble A) (mdouble B)) (mdouble (mmul n A B)).
Proof. exact mdouble_mul. Qed.
Print Assumptions C13_double_mul.
Theorem C13_double_id : forall (R : cring) n, meq (2 * n) (mdouble mid) (mid (R:=R)).
Proof. exact mdouble_id. Qed.
Print Assumptions C13_double_id.
Theorem C13_double_adj : forall (R : cring) n (A : mat R), meq n (madj (mdouble A)) (mdouble (madj A)).
Proof. exact mdouble_adj. Qed.
Print Assumptions C13_double_adj.
Theorem C13_double_unitary : forall (R : cring) n (A : mat R), unitary n A -> unitary (2 * n) (mdouble A).
Proof. exact mdouble_unitary. Qed.
Print Assumptions C13_double_unitary.

(* 2. the 2m x 2m matrix of a circuit mixing spatial and polarising leaves (any nesting depth, offsets,
      sizes) is the ordered product of its leaves, spatial ones doubled, polarising ones as they are,
      each at sub-modes [2 off, 2 off + 2k); an empty sub-circuit contributes the identity *)
Theorem C13_polar_matrix_is_product : forall (R : cring) (c : pcomp R), pwf c ->
  meq (2 * pwidth c) (cmat (pdouble c))
      (oprod (2 * pwidth c) (leaf_mats (2 * pwidth c) (flatten 0 (pdouble c)))).
Proof. exact polar_cmat_product. Qed.
Print Assumptions C13_polar_matrix_is_product.
Theorem C13_polar_leaves : forall (R : cring) (c : pcomp R), no_empty c -> forall off,
  flatten (2 * off) (pdouble c) = map dleaf (pflatten off c).
Proof. exact flatten_pdouble. Qed.
Print Assumptions C13_polar_leaves.

(* 3. "The doubled matrix of any such circuit is unitary": every well-formed circuit whose leaves are unitary,
      empty sub-circuits and the empty circuit included (the code as it is, after fix commit e38f1486) *)
Theorem C13_polar_unitary : forall (R : cring) (c : pcomp R), pwf c -> pleaves_unitary R c ->
  pol_unitary c = PolMat (2 * pwidth c) (cmat (pdouble c)) /\
  unitary (2 * pwidth c) (cmat (pdouble c)).
Proof. intros R c H1 H2. split. reflexivity. exact (polar_unitary R c H1 H2). Qed.
Print Assumptions C13_polar_unitary.
Example C13_polar_unitary_sat : exists c : pcomp QI, pwf c /\ pleaves_unitary QI c.
Proof. exists (PSub 2 [(0%nat, PLeaf true 2 (pmat pbs_perm)); (0%nat, PSub 1 [])]).
  split. simpl. lia. simpl. split. apply pbs_unitary. tauto. Qed.
(* HISTORICAL, about /repo before e38f1486 (model configuration pdouble_old / pol_unitary_old, ids 1310-1313):
   a sub-circuit without components contributed eye(m) instead of eye(2m), broadcast over the 2x2 block for
   m = 1; the statement failed on the witness above and held only without empty sub-circuits *)
Theorem C13_polar_unitary_refuted_old_code : exists c : pcomp QI,
  pwf c /\ pleaves_unitary QI c /\ pol_raises c = false /\ ~ unitary (2 * pwidth c) (cmat (pdouble_old c)).
Proof. exact polar_unitary_refuted_old_code. Qed.
Print Assumptions C13_polar_unitary_refuted_old_code.
Theorem C13_polar_empty_circuit_refuted_old_code : exists c : pcomp QI,
  pwf c /\ forall U, pol_unitary_old c <> PolMat (2 * pwidth c) U.
Proof. exact polar_empty_top_refuted_old_code. Qed.
Print Assumptions C13_polar_empty_circuit_refuted_old_code.
Theorem C13_polar_unitary_partial_old_code : forall (R : cring) (c : pcomp R),
  pwf c -> no_empty c -> pleaves_unitary R c ->
  pol_unitary_old c = PolMat (2 * pwidth c) (cmat (pdouble_old c)) /\ unitary (2 * pwidth c) (cmat (pdouble_old c)).
Proof. intros R c H1 H2 H3. split. exact (pol_unitary_old_ok R c H2). exact (polar_unitary_old R c H1 H2 H3). Qed.
Print Assumptions C13_polar_unitary_partial_old_code.
(* the polarising leaves themselves: WP, HWP, QWP and PR (also in C14, with the real-angle instances), and the PBS *)
Theorem C13_pbs_unitary : forall R : cring, unitary 4 (pmat (R:=R) pbs_perm).
Proof. exact pbs_unitary. Qed.
Print Assumptions C13_pbs_unitary.
Theorem C13_wp_unitary : forall (R : cring) (ii cd sd cx sx : R),
  kmul ii ii = kopp k1 -> kconj ii = kopp ii -> kmul cd cd = ksub k1 (kmul sd sd) -> kmul cx cx = ksub k1 (kmul sx sx) ->
  kconj cd = cd -> kconj sd = sd -> kconj cx = cx -> kconj sx = sx -> unitary 2 (wp_mat ii cd sd cx sx).
Proof. exact wp_unitary. Qed.
Print Assumptions C13_wp_unitary.

(* 4. the preparation matrix built by convert_polarized_state from normalised Jones vectors (first vector and its
      complement (-conj ev, conj eh); with two vectors in the mode, that complement times the phase <c, v2>, fix
      commit 19d38de0) is unitary, the vacuum (identity, 53c82d36) included *)
Theorem C13_prep_unitary : forall (R : cring) (eqb : R -> R -> bool),
  (forall a b, eqb a b = true <-> a = b) ->
  forall inp : pinput R, Forall (Forall (normed R)) inp ->
  unitary (2 * length inp) (prep_matrix (prep_states eqb inp)).
Proof. exact prep_unitary. Qed.
Print Assumptions C13_prep_unitary.
Example C13_prep_unitary_sat : Forall (Forall (normed QI)) [[(qi1, qi0); (qi0, qi1)]; []].
Proof. repeat constructor; unfold normed; apply qi_eq; vm_compute; reflexivity. Qed.
(* the phase-times-complement column IS the second given vector when both are normalised and orthogonal,
   and the phase has modulus 1 (so the code's division by |phase| changes nothing) *)
Theorem C13_second_vector_is_phase_times_complement : forall (R : cring) (v1 v2 : jones R),
  normed R v1 -> normed R v2 -> inner v1 v2 = k0 ->
  let ch := kopp (kconj (snd v1)) in let cv := kconj (fst v1) in
  let ph := kadd (kmul (kconj ch) (fst v2)) (kmul (kconj cv) (snd v2)) in
  kmul ph ch = fst v2 /\ kmul ph cv = snd v2 /\ kmul ph (kconj ph) = k1.
Proof. exact complement_phase. Qed.
Print Assumptions C13_second_vector_is_phase_times_complement.

(* 5. the simulator's route equals the specification, for EVERY output over the sub-modes and every accepted
      input of normalised Jones vectors -- one or two polarisations per mode, the vacuum included:
      (the engine specification amp_num of C02, applied to U_pol . Prep and the spatial input)
      = (permanent with one column U_pol . (eh|2k> + ev|2k+1>) per photon) *)
Theorem C13_impl_eq_spec : forall (R : cring) (eqb : R -> R -> bool),
  (forall a b, eqb a b = true <-> a = b) ->
  forall (U : mat R) (inp : pinput R) m, length inp = m -> Forall (Forall (normed R)) inp ->
  first_err (prep_states eqb inp) = None ->
  convert eqb inp = ConvOk (spatial_input (prep_states eqb inp)) (prep_matrix (prep_states eqb inp)) /\
  forall t, impl_amp eqb U m inp t = spec_amp U m inp t.
Proof. intros R eqb Heq U inp m Hm Hn He. split. exact (convert_ok R eqb inp He).
  intros t. exact (impl_eq_spec R eqb Heq U inp m t Hm Hn He). Qed.
Print Assumptions C13_impl_eq_spec.
Example C13_impl_eq_spec_sat :
  Forall (Forall (normed QI)) [[(qi1, qi0); (qi0, qi1)]; []] /\
  first_err (prep_states (R:=QI) qi_eqb [[(qi1, qi0); (qi0, qi1)]; []]) = None.
Proof. split. exact C13_prep_unitary_sat. vm_compute. reflexivity. Qed.
(* HISTORICAL, about /repo before 53c82d36 / 19d38de0 (convert_old, impl_amp_old): the vacuum returned no
   preparation matrix; with a photon somewhere the route already equalled the specification in exact arithmetic
   (the two-polarisation failure was a floating-point one: float32 annotations against a 1e-8 assertion) *)
Theorem C13_convert_vacuum_refuted_old_code : exists inp : pinput QI,
  first_err (prep_states (R:=QI) qi_eqb inp) = None /\ forall s P, convert_old (R:=QI) qi_eqb inp <> ConvOk s P.
Proof. exact convert_vacuum_refuted_old_code. Qed.
Print Assumptions C13_convert_vacuum_refuted_old_code.
Theorem C13_impl_eq_spec_partial_old_code : forall (R : cring) (eqb : R -> R -> bool),
  (forall a b, eqb a b = true <-> a = b) ->
  forall (U : mat R) (inp : pinput R) m, length inp = m ->
  first_err (prep_states eqb inp) = None -> no_photon inp = false ->
  convert_old eqb inp = ConvOk (spatial_input (prep_states eqb inp)) (prep_matrix_old (prep_states eqb inp)) /\
  forall t, impl_amp_old eqb U m inp t = spec_amp U m inp t.
Proof. intros R eqb Heq U inp m Hm He Hp. split. exact (convert_old_ok R eqb inp He Hp).
  intros t. exact (impl_eq_spec_old R eqb Heq U inp m t Hm He). Qed.
Print Assumptions C13_impl_eq_spec_partial_old_code.
(* a photon without P annotation is an H photon: writing {P:H} on every plain photon of any input changes
   nothing at any stage (conversion outcome and preparation matrix, executed amplitudes, specification) *)
Theorem C13_plain_photon_is_H : forall (R : cring) (eqb : R -> R -> bool) (inp : ainput R) (U : mat R) m ts,
  convert eqb (resolve_photons (map (map (spell_H R)) inp)) = convert eqb (resolve_photons inp) /\
  impl_amps eqb U m (resolve_photons (map (map (spell_H R)) inp)) ts = impl_amps eqb U m (resolve_photons inp) ts /\
  forall t, spec_amp U m (resolve_photons (map (map (spell_H R)) inp)) t = spec_amp U m (resolve_photons inp) t.
Proof. exact plain_is_H_everywhere. Qed.
Print Assumptions C13_plain_photon_is_H.
Theorem C13_default_vector_is_label_H : forall (R : cring) (ii rh : R), jones_standard ii rh LH = default_jones.
Proof. exact default_is_H. Qed.
Print Assumptions C13_default_vector_is_label_H.
(* one long-lived simulator: over any history of set_circuit / queries (failing queries included), from any state
   of the inner simulator, each query is answered as by a fresh simulator on the circuit set last *)
Theorem C13_session_history_independent : forall (R : cring) (eqb : R -> R -> bool) (h : list (pop R)) (s : psim R) cur,
  ps_upol s = upol_of R cur -> prun eqb s h = pspec eqb cur h.
Proof. exact session_history_independent. Qed.
Print Assumptions C13_session_history_independent.
(* Processor(backend, circuit): over any configuration history every probs() uses the circuit as it is then and
   the polarised input given last; noise assignments, filters and added components after the input included *)
Theorem C13_processor_history : forall (R : cring) (eqb : R -> R -> bool) (h : list (cop R)) (s : pproc R) cur,
  pinv R s cur -> crun eqb s h = cspec eqb (pp_m s) (pp_items s) cur (pp_filter s) h.
Proof. exact processor_history. Qed.
Print Assumptions C13_processor_history.
Example C13_processor_history_sat : forall m items, pinv QI (mkpproc m items None None None None) None.
Proof. intros. repeat split. left. reflexivity. Qed.
(* the executed list of amplitudes is that function on every output *)
Theorem C13_executed_amplitudes : forall (R : cring) (eqb : R -> R -> bool) (U : mat R) m (inp : pinput R) ts,
  impl_amps eqb U m inp ts = map (impl_amp eqb U m inp) ts.
Proof. exact impl_amps_eq. Qed.
Print Assumptions C13_executed_amplitudes.
(* normalisation: the engine divides by prod s'! prod t!; prod s'! is the squared norm of the polarised
   input state, i.e. the product over the classes of identical photons (same mode, same vector) of (size)! *)
Theorem C13_input_norm : forall (R : cring) (eqb : R -> R -> bool),
  (forall a b, eqb a b = true <-> a = b) ->
  forall inp : pinput R, first_err (prep_states eqb inp) = None ->
  factprod (spatial_input (prep_states eqb inp)) = spec_norm_in eqb inp.
Proof. exact input_norm. Qed.
Print Assumptions C13_input_norm.
(* the photons' order is irrelevant to the specification *)
Theorem C13_spec_order_irrelevant : forall (R : cring) n (cols cols' : list (nat -> R)),
  Permutation.Permutation cols cols' -> forall t, permC n cols t = permC n cols' t.
Proof. exact permC_perm. Qed.
Print Assumptions C13_spec_order_irrelevant.
(* results: the two sub-modes of every spatial mode are summed *)
Theorem C13_merge : forall m (t : state), length t = (2 * m)%nat ->
  length (merge_sub t) = m /\ total (merge_sub t) = total t /\
  forall k, nth k (merge_sub t) 0%nat = (nth (2 * k) t 0 + nth (2 * k + 1) t 0)%nat.
Proof. exact merge_sub_spec. Qed.
Print Assumptions C13_merge.

(* 6. labels: the table POLARIZATION_MAPPING (angles in units of pi/2) pushed through project_eh_ev is
      H=(1,0) V=(0,1) D=(r,r) A=(r,-r) L=(r,ir) R=(r,-ir), r = cos(pi/4); they are normalised and
      H/V, D/A, L/R are orthogonal.  Generic ring with i^2 = -1, r real, 2 r^2 = 1. *)
Theorem C13_labels_standard : forall (R : cring) (ii rh : R), kmul ii ii = kopp k1 ->
  forall l, jones_label ii rh l = jones_standard ii rh l.
Proof. exact labels_standard. Qed.
Print Assumptions C13_labels_standard.
Theorem C13_labels_normed : forall (R : cring) (ii rh : R), kmul ii ii = kopp k1 -> kconj ii = kopp ii ->
  kconj rh = rh -> kadd (kmul rh rh) (kmul rh rh) = k1 -> forall l, jnormed R (jones_standard ii rh l).
Proof. exact labels_normed. Qed.
Print Assumptions C13_labels_normed.
Theorem C13_labels_orthogonal : forall (R : cring) (ii rh : R), kmul ii ii = kopp k1 -> kconj ii = kopp ii ->
  kconj rh = rh ->
  inner (jones_standard ii rh LH) (jones_standard ii rh LV) = k0 /\
  inner (jones_standard ii rh LD) (jones_standard ii rh LA) = k0 /\
  inner (jones_standard ii rh LL) (jones_standard ii rh LR) = k0.
Proof. exact labels_orthogonal. Qed.
Print Assumptions C13_labels_orthogonal.
(* the hypotheses are met in the executable instance Q(i)(sqrt 2) *)
Example C13_labels_sat : kmul (c:=Q2) q2_i q2_i = kopp (c:=Q2) k1 /\ kconj (c:=Q2) q2_i = kopp (c:=Q2) q2_i /\
  kconj (c:=Q2) q2_rhalf = q2_rhalf /\ kadd (c:=Q2) (kmul (c:=Q2) q2_rhalf q2_rhalf) (kmul (c:=Q2) q2_rhalf q2_rhalf) = k1.
Proof. split; [|split; [|split]]. exact q2_i_sq. exact q2_i_conj. exact q2_rhalf_real. exact q2_rhalf_sq. Qed.

(* the same at the complex numbers over the reals, with the angles of POLARIZATION_MAPPING as written there:
   (cos(theta/2), exp(i phi) sin(theta/2)) is the standard vector with r = 1/sqrt 2 *)
Theorem C13_labels_real : forall l,
  jones_real (fst (label_theta_phi l)) (snd (label_theta_phi l)) = jones_standard (R:=CX) cI (creal (1 / sqrt 2)) l.
Proof. exact labels_real. Qed.
Print Assumptions C13_labels_real.
Theorem C13_label_table_units : forall l,
  label_theta_phi l = (INR (fst (label_angles l)) * (PI / 2), INR (snd (label_angles l)) * (PI / 2))%R.
Proof. exact label_angles_units. Qed.
Print Assumptions C13_label_table_units.
