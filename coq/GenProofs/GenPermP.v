(* The permutation index arithmetic used by the C11 simplifier theorems (Model/Simplify.v) is what
   simplification.extend_perm / perm_compose compute now, on ranges given as consecutive mode lists. *)
From Coq Require Import List Arith Lia.
Import ListNotations.
From PV Require Import Model.Simplify Gen.GenPerm.

Lemma last_seq k : forall r0, last (seq r0 (S k)) 0 = r0 + k.
Proof. induction k; intros r0. simpl; lia.
  change (seq r0 (S (S k))) with (r0 :: seq (S r0) (S k)).
  change (last (r0 :: seq (S r0) (S k)) 0) with (last (seq (S r0) (S k)) 0).
  rewrite IHk. lia. Qed.

Lemma map_nth_all {A B} (f : A -> B) (d : A) (l : list A) :
  map (fun i => f (nth i l d)) (seq 0 (length l)) = map f l.
Proof. induction l as [|x l IH]. reflexivity.
  cbn [length]. rewrite <- cons_seq, <- seq_shift, map_cons, map_map. simpl. f_equal. exact IH. Qed.

Lemma extend_perm_src_equiv r0 p m : p <> [] ->
  extend_perm_src (seq r0 (length p)) p m = (seq 0 m, extend_perm r0 p m).
Proof. intros Hp. unfold extend_perm_src, extend_perm. destruct p as [|x p]; [congruence|].
  replace (nth 0 (seq r0 (length (x :: p))) 0) with r0 by reflexivity.
  rewrite (map_nth_all (fun v => v + r0) 0 (x :: p)).
  cbn [length]. rewrite last_seq.
  f_equal. rewrite <- app_assoc. do 2 f_equal. cbn [length]. f_equal; lia. Qed.
Print Assumptions extend_perm_src_equiv.

Lemma perm_compose_src_equiv lo lp ro rp : lp <> [] -> rp <> [] ->
  perm_compose_src (seq lo (length lp)) lp (seq ro (length rp)) rp
  = (seq 0 (Nat.max (lo + length lp) (ro + length rp)), perm_compose lo lp ro rp).
Proof. intros Hl Hr. unfold perm_compose_src, perm_compose.
  destruct lp as [|x lp]; [congruence|]. destruct rp as [|y rp]; [congruence|].
  cbn [length]. rewrite !last_seq.
  replace (lo + length lp + 1) with (lo + S (length lp)) by lia.
  replace (ro + length rp + 1) with (ro + S (length rp)) by lia.
  change (S (length lp)) with (length (x :: lp)). change (S (length rp)) with (length (y :: rp)).
  rewrite !extend_perm_src_equiv by congruence. reflexivity. Qed.
Print Assumptions perm_compose_src_equiv.
