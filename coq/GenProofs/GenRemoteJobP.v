(* The retry law the C17 model uses (threshold 5, "raise from the 5th consecutive failure on", the five
   transient HTTP codes) is the one written in RemoteJob._handle_status_error now. *)
From Coq Require Import ZArith List Arith Bool.
From PV Require Model.RemoteJob.
From PV Require Import Gen.GenRemoteJob.
Lemma max_error_src_equiv : max_error_src = RemoteJob.max_error.
Proof. reflexivity. Qed.
Lemma retry_law_src_equiv : forall n, raises_at_src n = RemoteJob.raise_at RemoteJob.cfg_patch n.
Proof. intros n. reflexivity. Qed.
Lemma transient_codes_src_equiv : forall code : Z,
  existsb (Z.eqb code) transient_codes_src = RemoteJob.transient code.
Proof. intros code. unfold transient_codes_src. cbn [existsb].
  destruct (Z.eqb_spec code 408) as [E|N1]; [subst; reflexivity|].
  destruct (Z.eqb_spec code 409) as [E|N2]; [subst; reflexivity|].
  destruct (Z.eqb_spec code 421) as [E|N3]; [subst; reflexivity|].
  destruct (Z.eqb_spec code 423) as [E|N4]; [subst; reflexivity|].
  destruct (Z.eqb_spec code 429) as [E|N5]; [subst; reflexivity|].
  cbn [orb]. symmetry. unfold RemoteJob.transient.
  destruct code as [|p|p]; try reflexivity.
  do 9 (destruct p as [p|p|]; try reflexivity); exfalso; congruence. Qed.
Print Assumptions transient_codes_src_equiv.
