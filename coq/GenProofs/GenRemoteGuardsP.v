(* The guards of the C17 model (Model/RemoteJob.v: [cancellable] in cancel, [failed] in rerun, [maybe_completed] in
   get_results, [final] where polling stops and a cached document is served) accept exactly the statuses that the
   source accepts now: the tuple tested by RemoteJob.cancel and the JobStatus predicates failed / maybe_completed /
   completed that rerun, Job.get_results, RemoteJob._get_results and RemoteJob.status call, with the numbering of the
   RunningStatus enumeration.  The translator also checks the shape of each guard (proceed / raise polarity). *)
From Coq Require Import ZArith List Bool.
Import ListNotations.
From PV Require Model.RemoteJob.
From PV Require Import Gen.GenRemoteGuards.
Module M := PV.Model.RemoteJob.

(* the model's status names are the members of RunningStatus, one for one *)
Definition to_src (s : M.status) : status_src :=
  match s with
  | M.WAITING => St_WAITING | M.RUNNING => St_RUNNING | M.SUCCESS => St_SUCCESS | M.ERROR => St_ERROR
  | M.CANCELED => St_CANCELED | M.SUSPENDED => St_SUSPENDED | M.CANCEL_REQUESTED => St_CANCEL_REQUESTED
  | M.UNKNOWN => St_UNKNOWN
  end.
Lemma to_src_onto : forall t : status_src, exists s, to_src s = t.
Proof. intros []; [exists M.WAITING|exists M.RUNNING|exists M.SUCCESS|exists M.ERROR|exists M.CANCELED
                   |exists M.SUSPENDED|exists M.CANCEL_REQUESTED|exists M.UNKNOWN]; reflexivity. Qed.

Lemma status_code_src_equiv : forall s, status_value_src (to_src s) = M.status_code s.
Proof. intros []; reflexivity. Qed.
Lemma cancel_guard_src_equiv : forall s, status_in_src (to_src s) cancel_statuses_src = M.cancellable s.
Proof. intros []; reflexivity. Qed.
Lemma rerun_guard_src_equiv : forall s, status_in_src (to_src s) rerun_statuses_src = M.failed s.
Proof. intros []; reflexivity. Qed.
Lemma get_results_guard_src_equiv : forall s, status_in_src (to_src s) get_results_statuses_src = M.maybe_completed s.
Proof. intros []; reflexivity. Qed.
Lemma completed_guard_src_equiv : forall s, status_in_src (to_src s) completed_statuses_src = M.final s.
Proof. intros []; reflexivity. Qed.
Print Assumptions to_src_onto.
Print Assumptions status_code_src_equiv.
Print Assumptions cancel_guard_src_equiv.
Print Assumptions rerun_guard_src_equiv.
Print Assumptions get_results_guard_src_equiv.
Print Assumptions completed_guard_src_equiv.
