(* The model of Simulator._best_n used by the C04 theorems is the function the source defines now. *)
From PV Require Import Model.Select Gen.GenSimulator.
Lemma best_n_src_equiv : forall c h e o, best_n_src c h e o = best_n c h e o.
Proof. intros [|] h e o; reflexivity. Qed.
Print Assumptions best_n_src_equiv.
