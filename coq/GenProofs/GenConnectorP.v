(* The permutation the C10 theorems are about (Model/Connector.v: [filled], [perm_vect], [lmin (keys m)],
   [is_identity]) is what ModeConnector.generate_permutation computes now, for every resolved mapping with distinct
   left modes onto the right modes 0..c-1 ([injective_onto], the hypothesis of the C10 theorems).  The dictionary is
   the association list of its items in insertion order; `d[k] = v` updates in place or appends ([dict_set]);
   `sorted(d.keys())` is an insertion sort; the loop over the missing modes is a fold_left. *)
From Coq Require Import List Arith Lia Bool Permutation Sorted.
Import ListNotations.
From PV Require Import Model.Connector Proofs.ConnectorP Gen.GenConnector.

(* ---- sorted(...) of a list that is a permutation of a range is that range *)
Lemma insert_perm x l : Permutation (x :: l) (insert_nat x l).
Proof. induction l as [|y r IH]; simpl. apply Permutation_refl. destruct (x <=? y). apply Permutation_refl.
  eapply Permutation_trans. apply perm_swap. apply perm_skip. exact IH. Qed.
Lemma sort_perm l : Permutation l (sort_nat l).
Proof. unfold sort_nat. induction l as [|x r IH]; simpl. constructor.
  eapply Permutation_trans. apply perm_skip. exact IH. apply insert_perm. Qed.
Lemma insert_sorted x l : StronglySorted le l -> StronglySorted le (insert_nat x l).
Proof. induction l as [|y r IH]; simpl; intros H. repeat constructor.
  inversion H as [|? ? Hr Hy]; subst. destruct (x <=? y) eqn:E.
  - apply Nat.leb_le in E. constructor. exact H. constructor. exact E.
    eapply Forall_impl; [|exact Hy]. simpl. intros z Hz. lia.
  - apply Nat.leb_gt in E. constructor. apply IH. exact Hr.
    apply Forall_forall. intros z Hz. apply (Permutation_in _ (Permutation_sym (insert_perm x r))) in Hz.
    destruct Hz as [<-|Hz]. lia. rewrite Forall_forall in Hy. apply Hy. exact Hz. Qed.
Lemma sort_sorted l : StronglySorted le (sort_nat l).
Proof. unfold sort_nat. induction l as [|x r IH]; simpl. constructor. apply insert_sorted. exact IH. Qed.
Lemma sorted_unique l1 : forall l2, StronglySorted le l1 -> StronglySorted le l2 -> Permutation l1 l2 -> l1 = l2.
Proof. induction l1 as [|x r1 IH]; intros l2 H1 H2 HP.
  - apply Permutation_nil in HP. auto.
  - destruct l2 as [|y r2]. apply Permutation_sym, Permutation_nil in HP. discriminate.
    inversion H1 as [|? ? Hr1 Hx]; subst. inversion H2 as [|? ? Hr2 Hy]; subst.
    rewrite Forall_forall in Hx, Hy.
    assert (x = y).
    { assert (A : In x (y :: r2)) by (eapply Permutation_in; [exact HP|left; reflexivity]).
      assert (B : In y (x :: r1)) by (eapply Permutation_in; [apply Permutation_sym; exact HP|left; reflexivity]).
      destruct A as [A|A]; [auto|]. destruct B as [B|B]; [auto|]. apply Hy in A. apply Hx in B. lia. }
    subst y. f_equal. apply IH; auto. eapply Permutation_cons_inv. exact HP. Qed.
Lemma seq_sorted n : forall a, StronglySorted le (seq a n).
Proof. induction n as [|n IH]; intros a; simpl; constructor. apply IH.
  apply Forall_forall. intros z Hz. apply in_seq in Hz. lia. Qed.
Lemma sort_range l a n : Permutation l (seq a n) -> sort_nat l = seq a n.
Proof. intros HP. apply sorted_unique. apply sort_sorted. apply seq_sorted.
  eapply Permutation_trans. apply Permutation_sym, sort_perm. exact HP. Qed.

(* ---- d[k] = v for a key that is not in the dictionary appends the item *)
Lemma dict_set_fresh d k v : ~ In k (keys d) -> dict_set d k v = d ++ [(k, v)].
Proof. induction d as [|[k' v'] r IH]; simpl; intros H. reflexivity.
  destruct (k' =? k) eqn:E. apply Nat.eqb_eq in E. tauto. f_equal. apply IH. tauto. Qed.
(* the loop `for mm in missing_modes: mode_mapping[mm] = max(mode_mapping.values()) + 1` *)
Lemma fill_loop ms : forall m, NoDup ms -> (forall x, In x ms -> ~ In x (keys m)) ->
  fold_left (fun mode_mapping mm => dict_set mode_mapping mm (list_max (dict_values mode_mapping) + 1)) ms m = fill m ms.
Proof. induction ms as [|mm r IH]; intros m Hn Hd. reflexivity.
  cbn [fold_left fill]. inversion Hn as [|? ? Hmm Hr]; subst.
  rewrite dict_set_fresh by (apply Hd; left; reflexivity). rewrite Nat.add_1_r.
  change (list_max (dict_values m)) with (lmax (vals m)). apply IH. exact Hr.
  intros x Hx. rewrite keys_app, in_app_iff. simpl. intros [H|[<-|[]]].
  - apply (Hd x); auto. right; exact Hx.
  - contradiction. Qed.

(* ---- `perm_vect == list(range(len(perm_modes)))` is the identity test of the model *)
Lemma list_eqb_seq p : forall a,
  list_eqb p (seq a (length p)) = forallb (fun iv => fst iv =? snd iv) (combine (seq a (length p)) p).
Proof. induction p as [|x r IH]; intros a. reflexivity. cbn [length seq list_eqb combine forallb fst snd].
  rewrite IH, (Nat.eqb_sym x a). reflexivity. Qed.

Theorem generate_permutation_src_equiv m : injective_onto m ->
  generate_permutation_src m =
  (seq (lmin (keys m)) (length (filled m)), if is_identity (perm_vect m) then None else Some (perm_vect m)).
Proof.
  intros [Hne [Hn Hp]]. destruct (filled_keys_perm m Hn Hp Hne) as [HP Hnd].
  assert (Hlen : length (filled m) = span m).
  { rewrite <- (map_length fst (filled m)). fold (keys (filled m)).
    rewrite (Permutation_length HP). apply seq_length. }
  unfold generate_permutation_src.
  change (dict_keys m) with (keys m). change (list_min (keys m)) with (lmin (keys m)).
  change (list_max (keys m)) with (lmax (keys m)).
  rewrite (Nat.add_1_r (lmax (keys m))).
  change (filter (fun x => negb (list_mem x (keys m))) (seq (lmin (keys m)) (S (lmax (keys m)) - lmin (keys m))))
    with (missing_modes m).
  rewrite fill_loop.
  2:{ unfold missing_modes. apply NoDup_filter. apply seq_NoDup. }
  2:{ intros x Hx Hk. unfold missing_modes in Hx. apply filter_In in Hx as [_ Hx].
      apply negb_true_iff in Hx. apply existsb_mem in Hk. congruence. }
  fold (filled m).
  change (dict_keys (filled m)) with (keys (filled m)).
  rewrite (sort_range _ _ _ HP), <- Hlen.
  replace (lmin (keys m) + length (filled m) - lmin (keys m)) with (length (filled m)) by lia.
  change (map (fun i => dict_get (filled m) i) (seq (lmin (keys m)) (length (filled m)))) with (perm_vect m).
  rewrite seq_length.
  assert (Hl : length (filled m) = length (perm_vect m)) by (unfold perm_vect; rewrite map_length, seq_length; reflexivity).
  rewrite Hl at 1. rewrite list_eqb_seq. fold (is_identity (perm_vect m)).
  destruct (is_identity (perm_vect m)); reflexivity.
Qed.
Print Assumptions generate_permutation_src_equiv.
