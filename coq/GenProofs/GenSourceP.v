(* The photon-number probabilities the C06 theorems are about (Model/Source.v: p1to1, p2to1, p2to2, with the square
   root as the extra field [rt]) are what Source._get_probs computes now, floats read as exact rationals; and the side
   condition the translation returns for its math.sqrt call is the hypothesis the theorems make on [rt]. *)
From Coq Require Import QArith Qcanon Lqa Bool Setoid.
From PV Require Import Model.Source Gen.GenSource.
Open Scope Q_scope.

Lemma this_plus a b : this (a + b)%Qc == this a + this b.
Proof. change (this (a + b)%Qc) with (Qred (this a + this b)). apply Qred_correct. Qed.
Lemma this_opp a : this (- a)%Qc == - this a.
Proof. change (this (- a)%Qc) with (Qred (- this a)). apply Qred_correct. Qed.
Lemma this_minus a b : this (a - b)%Qc == this a - this b.
Proof. unfold Qcminus. rewrite this_plus, this_opp. reflexivity. Qed.
Lemma this_mult a b : this (a * b)%Qc == this a * this b.
Proof. change (this (a * b)%Qc) with (Qred (this a * this b)). apply Qred_correct. Qed.
Lemma this_inv a : this (/ a)%Qc == / this a.
Proof. change (this (/ a)%Qc) with (Qred (/ this a)). apply Qred_correct. Qed.
Lemma this_div a b : this (a / b)%Qc == this a / this b.
Proof. unfold Qcdiv. rewrite this_mult, this_inv. reflexivity. Qed.

Lemma truthy_src_equiv (x : Qc) : negb (Qeq_bool (this x) (0 # 1)) = negb (Qceqb x 0%Qc).
Proof. f_equal. unfold Qceqb. destruct (Qc_eq_dec x 0%Qc) as [E|N].
  - subst. reflexivity.
  - destruct (Qeq_bool (this x) (0 # 1)) eqn:B; auto. exfalso. apply N. apply Qc_is_canon.
    apply Qeq_bool_iff in B. exact B. Qed.

(* the source function applied to the fields of a model parameter record *)
Definition get_probs_of (P : src) :=
  get_probs_src (this (px P)) (this (g2 P)) (this (losses P)) (this (rt P)).

Theorem get_probs_src_equiv (P : src) :
  fst (fst (fst (get_probs_of P))) == this (p1to1 P) /\
  snd (fst (fst (get_probs_of P))) == this (p2to1 P) /\
  snd (fst (get_probs_of P)) == this (p2to2 P).
Proof.
  unfold get_probs_of, get_probs_src. cbn [fst snd].
  rewrite truthy_src_equiv.
  assert (E2 : (if negb (Qceqb (g2 P) 0%Qc)
                then (- this (px P) * this (g2 P) - this (rt P) + (1 # 1)) / this (g2 P) else 0 # 1) == this (p2 P)).
  { unfold p2. destruct (Qceqb (g2 P) 0%Qc); cbn [negb]. reflexivity.
    rewrite this_div, this_plus, this_minus, this_opp, this_mult. change (this 1%Qc) with 1. unfold Qdiv. ring. }
  set (q := if negb (Qceqb (g2 P) 0%Qc) then _ else _) in *.
  unfold p1to1, p2to1, p2to2, p1, eta.
  repeat (progress rewrite ?this_mult, ?this_minus). rewrite E2.
  change (this 1%Qc) with 1. repeat split; try reflexivity.
Qed.
Print Assumptions truthy_src_equiv.
Print Assumptions get_probs_src_equiv.

(* the returned side condition: vacuous when g2 = 0 (the call is not evaluated), else exactly the hypothesis
   "0 <= rt /\ rt * rt = 1 - 2 px g2" of the C06 theorems (Proofs/SourceP.v) *)
Theorem get_probs_sqrt_src_equiv (P : src) : g2 P <> 0%Qc ->
  (sqrt_ok (snd (get_probs_of P)) <-> (0 <= rt P /\ rt P * rt P = 1 - q2 * px P * g2 P)%Qc).
Proof.
  intros Hg. unfold get_probs_of, get_probs_src, sqrt_ok. cbn [fst snd].
  rewrite truthy_src_equiv. unfold Qceqb. destruct (Qc_eq_dec (g2 P) 0%Qc) as [E|_]; [contradiction|]. cbn [negb].
  assert (R : (1 # 1) - (2 # 1) * this (px P) * this (g2 P) == this (1 - q2 * px P * g2 P)%Qc).
  { rewrite this_minus, !this_mult. unfold q2. rewrite this_plus. change (this 1%Qc) with 1. ring. }
  split.
  - intros H. inversion H as [|? ? H1 _]; subst. cbn [fst snd] in H1. destruct (H1 eq_refl) as [H0 Hs]. split.
    + exact H0.
    + apply Qc_is_canon. rewrite this_mult, Hs, R. reflexivity.
  - intros [H0 Hs]. constructor; [|constructor]. cbn [fst snd]. intros _. split.
    + exact H0.
    + rewrite R, <- Hs, this_mult. reflexivity.
Qed.
Print Assumptions get_probs_sqrt_src_equiv.

Theorem get_probs_sqrt_vacuous_src_equiv (P : src) : g2 P = 0%Qc -> sqrt_ok (snd (get_probs_of P)).
Proof. intros Hg. unfold get_probs_of, get_probs_src, sqrt_ok. cbn [fst snd]. rewrite Hg.
  constructor; [|constructor]. cbn [fst snd]. discriminate. Qed.
Print Assumptions get_probs_sqrt_vacuous_src_equiv.
