(* The model of reduce_perm used by the C11 simplifier theorems (Model/Simplify.v: first / last moved index with the
   values the Python loop variables keep when no `break` happens) is what simplification.reduce_perm computes now,
   on a range given as the list of consecutive modes.  The two `for ... break` loops are read generically:
   the loop variable ends on the first element satisfying the test, else on the last element; an empty loop leaves
   it unbound (the translation returns RErr, which is why the permutation must be non-empty). *)
From Coq Require Import List Arith Lia Bool.
Import ListNotations.
From PV Require Import Model.Simplify Gen.GenReduce.

Lemma firstn_seq' a : forall s n, firstn a (seq s n) = seq s (Nat.min a n).
Proof. induction a as [|a IH]; intros s n. reflexivity. destruct n as [|n]. reflexivity.
  simpl. f_equal. apply IH. Qed.
Lemma skipn_seq' a : forall s n, skipn a (seq s n) = seq (s + a) (n - a).
Proof. induction a as [|a IH]; intros s n. simpl. f_equal; lia. destruct n as [|n]. reflexivity.
  simpl. rewrite IH. f_equal. lia. Qed.
Lemma find_app {A} (c : A -> bool) a b : find c (a ++ b) = match find c a with Some x => Some x | None => find c b end.
Proof. induction a as [|x a IH]; simpl. reflexivity. destruct (c x); auto. Qed.
Lemma last_seq' k : forall s, last (seq s (S k)) 0 = s + k.
Proof. intros s. rewrite seq_S, last_last. reflexivity. Qed.
Lemma last_rev_seq k s : last (rev (seq s (S k))) 0 = s.
Proof. simpl. apply last_last. Qed.

Definition moved (p : list nat) (i : nat) : bool := negb (nth i p 0 =? i).

(* the first loop: first index in range(n) with perm[i] != i *)
Lemma find_first_moved l : forall pre, find (moved (pre ++ l)) (seq (length pre) (length l)) = first_moved (length pre) l.
Proof. induction l as [|x l IH]; intros pre. reflexivity.
  cbn [length seq find first_moved]. unfold moved at 1. rewrite app_nth2, Nat.sub_diag by lia. cbn [nth].
  destruct (x =? length pre) eqn:E; cbn [negb]; [|reflexivity].
  specialize (IH (pre ++ [x])). rewrite <- app_assoc, app_length in IH. cbn [length app] in IH.
  rewrite Nat.add_1_r in IH. exact IH. Qed.
(* the second loop: first index in range(n - 1, -1, -1) with perm[j] != j *)
Lemma find_last_moved l : forall pre,
  find (moved (pre ++ l)) (rev (seq (length pre) (length l))) = last_moved (length pre) l.
Proof. induction l as [|x l IH]; intros pre. reflexivity.
  cbn [length seq rev last_moved]. rewrite find_app.
  specialize (IH (pre ++ [x])). rewrite <- app_assoc, app_length in IH. cbn [length app] in IH.
  rewrite Nat.add_1_r in IH. rewrite IH. destruct (last_moved (S (length pre)) l); [reflexivity|].
  cbn [find]. unfold moved. rewrite app_nth2, Nat.sub_diag by lia. cbn [nth].
  destruct (x =? length pre); reflexivity. Qed.
Lemma last_moved_lt l : forall k j, last_moved k l = Some j -> j < k + length l.
Proof. induction l as [|x l IH]; intros k j; cbn [last_moved length]. discriminate.
  destruct (last_moved (S k) l) eqn:E.
  - intros H. inversion H; subst. apply IH in E. lia.
  - destruct (x =? k); [discriminate|]. intros H. inversion H. lia. Qed.

Theorem reduce_perm_src_equiv r0 p : p <> [] ->
  reduce_perm_src (seq r0 (length p)) p =
  ROk (seq (fst (reduce_perm r0 p)) (length (snd (reduce_perm r0 p))), snd (reduce_perm r0 p)).
Proof.
  intros Hp. destruct p as [|x q] eqn:Ep; [congruence|]. rewrite <- Ep. clear Hp.
  assert (Hn : length p = S (length q)) by (subst; reflexivity).
  unfold reduce_perm_src, reduce_perm, for_break. cbn [fst snd].
  rewrite rev_length, seq_length, Hn. cbn [Nat.eqb]. rewrite <- Hn.
  change (fun i => negb (nth i p 0 =? i)) with (moved p).
  pose proof (find_first_moved p []) as F1. pose proof (find_last_moved p []) as F2.
  cbn [app length] in F1, F2. rewrite F1, F2.
  assert (L1 : last (seq 0 (length p)) 0 = length p - 1) by (rewrite Hn, last_seq'; lia).
  assert (L2 : last (rev (seq 0 (length p))) 0 = 0) by (rewrite Hn; apply last_rev_seq).
  rewrite L1, L2.
  set (i := match first_moved 0 p with Some i => i | None => length p - 1 end).
  set (j := match last_moved 0 p with Some j => j | None => 0 end).
  assert (Hj : j + 1 <= length p).
  { unfold j. destruct (last_moved 0 p) eqn:E; [apply last_moved_lt in E|]; lia. }
  rewrite map_length, seq_length, firstn_seq', skipn_seq'.
  replace (Nat.min (j + 1) (length p)) with (j + 1) by lia. reflexivity.
Qed.
Print Assumptions reduce_perm_src_equiv.

(* the empty permutation is where Python stops on an unbound loop variable *)
Lemma reduce_perm_empty_src_equiv r : reduce_perm_src r [] = RErr.
Proof. reflexivity. Qed.
Print Assumptions reduce_perm_empty_src_equiv.
