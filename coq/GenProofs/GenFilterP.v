(* The photon budget the C04 / C09 theorems use (the user's filter + [herald_total], Model/Select.v) is what the
   property ISimulator.min_detected_photons_filter computes now: `self._min_detected_photons_filter +
   sum(self._heralds.values())`, the dictionary of heralds read as the association list (mode, expected count). *)
From Coq Require Import List Arith Lia.
From PV Require Import Model.Select Gen.GenFilter.

Lemma fold_left_add_acc l : forall a, (fold_left Nat.add l a = a + fold_left Nat.add l 0)%nat.
Proof. induction l as [|x l IH]; intros a; simpl. lia. rewrite (IH (a + x)%nat), (IH x). lia. Qed.

Lemma list_sum_values_src_equiv (h : heralds) : list_sum (dict_values h) = herald_total h.
Proof. unfold list_sum, dict_values, herald_total. induction h as [|[m v] h IH]; simpl. reflexivity.
  rewrite fold_left_add_acc, IH. reflexivity. Qed.

Theorem min_detected_photons_filter_src_equiv (f : nat) (h : heralds) :
  min_detected_photons_filter_src f h = (f + herald_total h)%nat.
Proof. unfold min_detected_photons_filter_src. rewrite list_sum_values_src_equiv. reflexivity. Qed.
Print Assumptions list_sum_values_src_equiv.
Print Assumptions min_detected_photons_filter_src_equiv.
