(* The index arithmetic of the loss-channel branch of LossSimulator._simulate_losses_with_beam_splitters, as it is
   written now, is what the C07 model [expanded] (Model/Loss.v) uses: when the lossy mode is not the last one a PERM
   on modes mode+1 .. next whose vector is the transposition [swap_fun (S mode) next] restricted to that range, the beam
   splitter on (mode, mode+1), the inverse PERM (the same transposition), and next_free_mode + 1 afterwards. *)
From Coq Require Import List Arith Lia Bool.
Import ListNotations.
From PV Require Import Model.Loss Model.Connector Gen.GenLoss.

(* the transposition as a permutation vector on the range off .. off+n-1 *)
Definition swap_vect (off n q : nat) : list nat := map (fun k => swap_fun off q (off + k) - off) (seq 0 n).

Lemma in_perm_swap mode d :
  [mode + 2 + d - mode - 1] ++ map (fun m => m) (seq 1 (mode + 2 + d - mode - 1 - 1)) ++ [0]
  = swap_vect (S mode) (S (S d)) (mode + 2 + d).
Proof. unfold swap_vect.
  replace (mode + 2 + d - mode - 1) with (S d) by lia. replace (S d - 1) with d by lia.
  rewrite (seq_S (S d) 0). cbn [seq map app]. rewrite <- seq_shift, map_app. cbn [map]. f_equal.
  - unfold swap_fun. rewrite Nat.add_0_r, Nat.eqb_refl. lia.
  - f_equal.
    + rewrite map_id, !map_map. apply map_ext_in. intros k Hk. apply in_seq in Hk.
      unfold swap_fun. destruct (S mode + S k =? S mode) eqn:E1. apply Nat.eqb_eq in E1; lia.
      destruct (S mode + S k =? mode + 2 + d) eqn:E2. apply Nat.eqb_eq in E2; lia. lia.
    + f_equal. unfold swap_fun. destruct (S mode + (0 + S d) =? S mode) eqn:E1. apply Nat.eqb_eq in E1; lia.
      replace (S mode + (0 + S d)) with (mode + 2 + d) by lia. rewrite Nat.eqb_refl. lia. Qed.

(* ---- the function of (r, next_free_mode) *)
Theorem loss_channel_src_equiv mode rest next : mode + 1 < next ->
  loss_channel_src (mode :: rest) next =
  (true, seq (S mode) (next - mode), swap_vect (S mode) (next - mode) next, (mode, S mode), S next).
Proof. intros H. unfold loss_channel_src. cbn [nth].
  remember (next - mode - 2) as d eqn:Ed. assert (En : next = mode + 2 + d) by lia. subst next. clear Ed H.
  rewrite <- app_assoc, in_perm_swap.
  replace (mode + 2 + d - mode) with (S (S d)) by lia.
  replace (mode + 2 + d + 1 - (mode + 1)) with (S (S d)) by lia.
  replace (mode =? mode + 2 + d - 1) with false by (symmetry; apply Nat.eqb_neq; lia).
  rewrite !Nat.add_1_r. reflexivity. Qed.
Print Assumptions loss_channel_src_equiv.

(* the lossy mode is already the last one: no PERM, same beam splitter range and bookkeeping *)
Theorem loss_channel_last_src_equiv mode rest :
  let '(needs_perm, _, _, r_bs, next') := loss_channel_src (mode :: rest) (S mode) in
  needs_perm = false /\ r_bs = (mode, S mode) /\ next' = S (S mode).
Proof. unfold loss_channel_src. cbn [nth]. replace (S mode - 1) with mode by lia. rewrite Nat.eqb_refl.
  repeat split; f_equal; lia. Qed.
Print Assumptions loss_channel_last_src_equiv.

(* ---- in_perm is its own inverse (PERM(in_perm).inverse(h=True) is the same transposition) *)
Lemma swap_local off n q k : off + n = S q -> 0 < n -> k < n ->
  swap_fun off q (off + k) - off < n /\
  swap_fun off q (off + (swap_fun off q (off + k) - off)) - off = k.
Proof. intros Hq Hn Hk. unfold swap_fun.
  destruct (off + k =? off) eqn:E1; [apply Nat.eqb_eq in E1|apply Nat.eqb_neq in E1].
  - replace (off + (q - off)) with q by lia. rewrite Nat.eqb_refl.
    destruct (q =? off) eqn:E2; [apply Nat.eqb_eq in E2|]; lia.
  - destruct (off + k =? q) eqn:E2; [apply Nat.eqb_eq in E2|apply Nat.eqb_neq in E2].
    + rewrite Nat.sub_diag, Nat.add_0_r, Nat.eqb_refl. lia.
    + replace (off + (off + k - off)) with (off + k) by lia.
      apply Nat.eqb_neq in E1, E2. rewrite E1, E2. lia. Qed.
Lemma index_of_first v l : forall t, nth t l (S v) = v -> (forall t', t' < t -> nth t' l (S v) <> v) -> index_of v l = t.
Proof. induction l as [|x r IH]; intros t Ht Hf.
  - destruct t; simpl in Ht; lia.
  - cbn [index_of]. destruct t as [|t].
    + simpl in Ht. subst. rewrite Nat.eqb_refl. reflexivity.
    + destruct (x =? v) eqn:E. apply Nat.eqb_eq in E. exfalso. apply (Hf 0). lia. exact E.
      f_equal. apply IH. exact Ht. intros t' Ht'. apply (Hf (S t')). lia. Qed.
Lemma invert_involution n (f : nat -> nat) : (forall k, k < n -> f k < n /\ f (f k) = k) ->
  invert (map f (seq 0 n)) = map f (seq 0 n).
Proof. intros Hf. unfold invert. rewrite map_length, seq_length. apply map_ext_in. intros i Hi. apply in_seq in Hi.
  destruct (Hf i ltac:(lia)) as [Hb Hi2].
  assert (Hnth : forall t, t < n -> nth t (map f (seq 0 n)) (S i) = f t).
  { intros t Ht. rewrite (nth_indep _ (S i) (f 0)) by (rewrite map_length, seq_length; exact Ht).
    rewrite map_nth, seq_nth by exact Ht. reflexivity. }
  apply index_of_first.
  - rewrite Hnth by exact Hb. exact Hi2.
  - intros t' Ht' E. rewrite Hnth in E by lia. assert (f (f t') = t') by (apply Hf; lia). rewrite E in H. lia. Qed.
Lemma swap_vect_invert off n q : off + n = S q -> 0 < n -> invert (swap_vect off n q) = swap_vect off n q.
Proof. intros Hq Hn. unfold swap_vect. apply invert_involution. intros k Hk. apply swap_local; assumption. Qed.

(* ---- the components the branch appends, as matrices, are the segment of [expanded] *)
Section Items.
Variable R : cring.
Definition item_mat (bs : mat R) (it : loss_item) : mat R :=
  match it with
  | ItPerm r p => embed (hd 0 r) (length p) (perm_mat p)                 (* PERM(p) on the modes r *)
  | ItBS r => embed (fst r) 2 bs
  | ItPermInv r p => embed (hd 0 r) (length p) (perm_mat (invert p))     (* PERM(p).inverse(h=True) on the modes r *)
  end.
Definition same (A B : mat R) : Prop := forall i j, A i j = B i j.

Lemma swap_block off n q : off + n = S q -> 0 < n ->
  same (embed off n (perm_mat (swap_vect off n q))) (pmat (swap_fun off q)).
Proof. intros Hq Hn i j. unfold embed, perm_mat, pmat, perm_fun, inb, swap_vect.
  destruct ((off <=? j) && (j <? off + n)) eqn:Ej.
  - apply andb_prop in Ej as [J1 J2]. apply Nat.leb_le in J1. apply Nat.ltb_lt in J2.
    assert (Hv : nth (j - off) (map (fun k => swap_fun off q (off + k) - off) (seq 0 n)) (j - off)
                 = swap_fun off q j - off).
    { rewrite (nth_indep _ _ (swap_fun off q (off + 0) - off)) by (rewrite map_length, seq_length; lia).
      rewrite (map_nth (fun k => swap_fun off q (off + k) - off)), seq_nth by lia. f_equal. f_equal. lia. }
    rewrite Hv. destruct (swap_local off n q (j - off) Hq Hn ltac:(lia)) as [Hb _].
    replace (off + (j - off)) with j in Hb by lia.
    assert (Hge : off <= swap_fun off q j).
    { unfold swap_fun. destruct (j =? off); [lia|]. destruct (j =? q); lia. }
    destruct ((off <=? i) && (i <? off + n)) eqn:Ei; cbn [andb].
    + apply andb_prop in Ei as [I1 I2]. apply Nat.leb_le in I1. apply Nat.ltb_lt in I2.
      unfold delta. destruct (i - off =? swap_fun off q j - off) eqn:A; destruct (i =? swap_fun off q j) eqn:B; auto.
      * apply Nat.eqb_eq in A. apply Nat.eqb_neq in B. lia.
      * apply Nat.eqb_neq in A. apply Nat.eqb_eq in B. lia.
    + assert (Hi : i < off \/ off + n <= i).
      { apply andb_false_iff in Ei as [E|E]; [apply Nat.leb_gt in E|apply Nat.ltb_ge in E]; lia. }
      rewrite !delta_neq by lia. reflexivity.
  - rewrite andb_false_r.
    assert (Hj : j < off \/ off + n <= j).
    { apply andb_false_iff in Ej as [E|E]; [apply Nat.leb_gt in E|apply Nat.ltb_ge in E]; lia. }
    unfold swap_fun. destruct (j =? off) eqn:E1. apply Nat.eqb_eq in E1; lia.
    destruct (j =? q) eqn:E2. apply Nat.eqb_eq in E2; lia. reflexivity. Qed.

Theorem loss_channel_items_src_equiv M mode next c s : mode < next ->
  Forall2 same (map (item_mat (loss_bs c s)) (loss_channel_items_src [mode] next))
               (expanded M next [LLC mode c s]).
Proof. intros H. cbn [expanded]. rewrite app_nil_r. unfold loss_channel_items_src.
  destruct (mode =? next - 1) eqn:E.
  - apply Nat.eqb_eq in E. assert (next = S mode) by lia. subst next.
    pose proof (loss_channel_last_src_equiv mode []) as L.
    destruct (loss_channel_src [mode] (S mode)) as [[[[np rip] ip] rbs] nx]. destruct L as [-> [-> _]].
    cbn [app map item_mat fst]. constructor; [|constructor]. intros i j. reflexivity.
  - apply Nat.eqb_neq in E. rewrite loss_channel_src_equiv by lia.
    cbn [app map item_mat fst].
    assert (Hh : hd 0 (seq (S mode) (next - mode)) = S mode) by (destruct (next - mode) eqn:X; [lia|reflexivity]).
    rewrite Hh.
    assert (Hl : length (swap_vect (S mode) (next - mode) next) = next - mode)
      by (unfold swap_vect; rewrite map_length, seq_length; reflexivity).
    rewrite swap_vect_invert by lia. rewrite Hl.
    repeat constructor; try (apply swap_block; lia). Qed.
End Items.
Print Assumptions loss_channel_items_src_equiv.
