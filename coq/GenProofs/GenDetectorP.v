(* The click-law recurrence the C08 theorems are about (Model/Detector.v [cond]) is the recurrence written in
   Detector._cond_probability now (integers and floats read as exact rationals; recursion bounded by fuel). *)
From Coq Require Import QArith Qcanon Lqa Bool Lia Setoid Morphisms.
From PV Require Import Model.Detector Gen.GenDetector.
Open Scope Q_scope.

Definition inj (n : nat) : Q := Z.of_nat n # 1.
Lemma inj_S n : inj (S n) == inj n + 1.
Proof. unfold inj. rewrite Nat2Z.inj_succ. unfold Qeq, Qplus. simpl. lia. Qed.
Lemma inj_eq_0 n : Qeq_bool (inj n) (0 # 1) = (n =? 0)%nat.
Proof. destruct n; reflexivity. Qed.
Lemma inj_lt a b : Qltb (inj a) (inj b) = (a <? b)%nat.
Proof. unfold Qltb, inj. destruct (a <? b)%nat eqn:E.
  - apply Nat.ltb_lt in E. apply negb_true_iff. destruct (Qle_bool (Z.of_nat b # 1) (Z.of_nat a # 1)) eqn:L; auto.
    apply Qle_bool_iff in L. unfold Qle in L. simpl in L. lia.
  - apply Nat.ltb_ge in E. apply negb_false_iff. apply Qle_bool_iff. unfold Qle. simpl. lia. Qed.

Global Instance src_proper fuel : Proper (Qeq ==> Qeq ==> Qeq ==> Qeq) (cond_probability_src fuel).
Proof. induction fuel as [|f IH]; intros w w' Hw d d' Hd n n' Hn; simpl. reflexivity.
  assert (E1 : Qeq_bool d (0 # 1) = Qeq_bool d' (0 # 1)).
  { destruct (Qeq_bool d (0#1)) eqn:A; destruct (Qeq_bool d' (0#1)) eqn:B; auto.
    - apply Qeq_bool_iff in A. apply Qeq_bool_neq in B. rewrite <- Hd in B. contradiction.
    - apply Qeq_bool_iff in B. apply Qeq_bool_neq in A. rewrite Hd in A. contradiction. }
  assert (E2 : Qeq_bool n (0 # 1) = Qeq_bool n' (0 # 1)).
  { destruct (Qeq_bool n (0#1)) eqn:A; destruct (Qeq_bool n' (0#1)) eqn:B; auto.
    - apply Qeq_bool_iff in A. apply Qeq_bool_neq in B. rewrite <- Hn in B. contradiction.
    - apply Qeq_bool_iff in B. apply Qeq_bool_neq in A. rewrite Hn in A. contradiction. }
  assert (E3 : Qltb n d = Qltb n' d').
  { unfold Qltb. f_equal. destruct (Qle_bool d n) eqn:A; destruct (Qle_bool d' n') eqn:B; auto.
    - apply Qle_bool_iff in A. rewrite Hd, Hn in A. apply Qle_bool_iff in A. congruence.
    - apply Qle_bool_iff in B. rewrite <- Hd, <- Hn in B. apply Qle_bool_iff in B. congruence. }
  rewrite E1, E2, E3. destruct (Qeq_bool d' (0 # 1)). reflexivity. destruct (Qltb n' d'). reflexivity.
  rewrite (IH w w' Hw (d - (1#1)) (d' - (1#1)) ltac:(rewrite Hd; reflexivity) (n - (1#1)) (n' - (1#1)) ltac:(rewrite Hn; reflexivity)).
  rewrite (IH w w' Hw d d' Hd (n - (1#1)) (n' - (1#1)) ltac:(rewrite Hn; reflexivity)).
  rewrite Hw, Hd. reflexivity. Qed.

Lemma this_qn n : this (qn n) == inj n.
Proof. induction n. reflexivity. rewrite inj_S.
  change (this (qn (S n))) with (Qred (this (qn n) + this 1%Qc)). rewrite Qred_correct, IHn. reflexivity. Qed.

Lemma this_plus a b : this (a + b)%Qc == this a + this b.
Proof. change (this (a + b)%Qc) with (Qred (this a + this b)). apply Qred_correct. Qed.
Lemma this_opp a : this (- a)%Qc == - this a.
Proof. change (this (- a)%Qc) with (Qred (- this a)). apply Qred_correct. Qed.
Lemma this_minus a b : this (a - b)%Qc == this a - this b.
Proof. unfold Qcminus. rewrite this_plus, this_opp. reflexivity. Qed.
Lemma this_mult a b : this (a * b)%Qc == this a * this b.
Proof. change (this (a * b)%Qc) with (Qred (this a * this b)). apply Qred_correct. Qed.
Lemma this_inv a : this (/ a)%Qc == / this a.
Proof. change (this (/ a)%Qc) with (Qred (/ this a)). apply Qred_correct. Qed.
Lemma this_div a b : this (a / b)%Qc == this a / this b.
Proof. unfold Qcdiv. rewrite this_mult, this_inv. reflexivity. Qed.

Theorem cond_probability_src_equiv w : (0 < w)%nat -> forall nph det fuel, (nph < fuel)%nat ->
  cond_probability_src fuel (inj w) (inj det) (inj nph) == this (cond w nph det).
Proof.
  intros Hw. induction nph as [|n IH]; intros det fuel Hf; destruct fuel as [|f]; try lia; simpl cond_probability_src.
  - rewrite !inj_eq_0, inj_lt. destruct det; reflexivity.
  - rewrite !inj_eq_0, inj_lt. destruct det as [|d]. reflexivity.
    cbn [Nat.eqb]. cbn [cond].
    destruct (S n <? S d)%nat eqn:E. reflexivity.
    assert (A : inj (S d) - (1 # 1) == inj d) by (rewrite inj_S; ring).
    assert (B : inj (S n) - (1 # 1) == inj n) by (rewrite inj_S; ring).
    rewrite (src_proper f (inj w) (inj w) (Qeq_refl _) _ _ A _ _ B).
    rewrite (src_proper f (inj w) (inj w) (Qeq_refl _) (inj (S d)) (inj (S d)) (Qeq_refl _) _ _ B).
    rewrite (IH d f) by lia. rewrite (IH (S d) f) by lia.
    assert (Hq : ~ inj w == 0).
    { unfold inj, Qeq. simpl. lia. }
    rewrite this_plus, !this_div, !this_mult, this_minus, !this_qn. rewrite inj_S. field. exact Hq.
Qed.
Print Assumptions cond_probability_src_equiv.
