(* The model of Parameter._check_value used by the C14 theorems (Model/Param.v) agrees with the function the
   source defines now (including the clamp added by fix bfc03bbc), for every proper range lo < hi. *)
From Coq Require Import QArith Qround Qminmax Lqa Bool.
From PV Require Import Model.Param Proofs.ParamP Gen.GenParam.
Open Scope Q_scope.

Lemma Qltb_true a b : Qltb a b = true <-> a < b.
Proof. unfold Qltb. rewrite negb_true_iff. split; intros H.
  - apply Qnot_le_lt. intros L. apply Qle_bool_iff in L. congruence.
  - destruct (Qle_bool b a) eqn:E; auto. apply Qle_bool_iff in E. lra. Qed.
Lemma Qltb_false a b : Qltb a b = false <-> b <= a.
Proof. unfold Qltb. rewrite negb_false_iff. apply Qle_bool_iff. Qed.
Lemma Qtrunc_nonneg x : 0 <= x -> Qtrunc x = Qfloor x.
Proof. intros H. unfold Qtrunc. apply Qle_bool_iff in H. rewrite H. reflexivity. Qed.
Lemma clamp_id x lo hi : lo <= x <= hi -> Qmin (Qmax x lo) hi == x.
Proof. intros [H1 H2]. rewrite (Q.max_l x lo H1). apply Q.min_l. exact H2. Qed.

Theorem check_value_src_equiv_periodic v lo hi : lo < hi ->
  exists v', check_value_src v (Some lo) (Some hi) true = ROk v' /\ v' == wrap_periodic v lo hi.
Proof.
  intros Hlh. destruct (wrap_periodic_spec v lo hi Hlh) as [[Hw1 Hw2] _].
  unfold check_value_src. cbn [is_some oget andb].
  unfold wrap_periodic in *.
  destruct (Qlt_le_dec hi v) as [Hv|Hv].
  - assert (E1 : Qltb hi v = true) by (apply Qltb_true; exact Hv). rewrite E1.
    set (t := (v - hi) / (hi - lo)) in *.
    assert (Ht : 0 <= t).
    { unfold t. apply Qle_shift_div_l; lra. }
    rewrite (Qtrunc_nonneg t Ht).
    set (v1 := v - (inject_Z (Qfloor t) + (1 # 1)) * (hi - lo)).
    assert (Ev1 : v1 == v - inject_Z (Qfloor t + 1) * (hi - lo)).
    { unfold v1. rewrite inject_Z_plus. reflexivity. }
    assert (Hc : Qmin (Qmax v1 lo) hi == v1) by (apply clamp_id; rewrite Ev1; split; assumption).
    set (v2 := Qmin (Qmax v1 lo) hi) in *.
    assert (F1 : Qltb v2 lo = false) by (apply Qltb_false; rewrite Hc, Ev1; assumption).
    assert (F2 : Qltb hi v2 = false) by (apply Qltb_false; rewrite Hc, Ev1; assumption).
    rewrite F1, F2. simpl. exists v2. split; [reflexivity|]. rewrite Hc, Ev1. reflexivity.
  - assert (E1 : Qltb hi v = false) by (apply Qltb_false; exact Hv). rewrite E1.
    destruct (Qlt_le_dec v lo) as [Hv'|Hv'].
    + assert (E2 : Qltb v lo = true) by (apply Qltb_true; exact Hv'). rewrite E2.
      set (t := (lo - v) / (hi - lo)) in *.
      assert (Ht : 0 <= t).
      { unfold t. apply Qle_shift_div_l; lra. }
      rewrite (Qtrunc_nonneg t Ht).
      set (v1 := v + (inject_Z (Qfloor t) + (1 # 1)) * (hi - lo)).
      assert (Ev1 : v1 == v + inject_Z (Qfloor t + 1) * (hi - lo)).
      { unfold v1. rewrite inject_Z_plus. reflexivity. }
      assert (Hc : Qmin (Qmax v1 lo) hi == v1) by (apply clamp_id; rewrite Ev1; split; assumption).
      set (v2 := Qmin (Qmax v1 lo) hi) in *.
      assert (F1 : Qltb v2 lo = false) by (apply Qltb_false; rewrite Hc, Ev1; assumption).
      assert (F2 : Qltb hi v2 = false) by (apply Qltb_false; rewrite Hc, Ev1; assumption).
      rewrite F1, F2. simpl. exists v2. split; [reflexivity|]. rewrite Hc, Ev1. reflexivity.
    + assert (E2 : Qltb v lo = false) by (apply Qltb_false; exact Hv'). rewrite !E2, !E1. simpl.
      exists v. split; reflexivity.
Qed.
Print Assumptions check_value_src_equiv_periodic.

(* non-periodic parameters: same accept / reject decision and same value *)
Theorem check_value_src_equiv_plain v lo hi :
  match check_value v (Some lo) (Some hi) false with
  | WOk x => check_value_src v (Some lo) (Some hi) false = ROk x
  | WErr => check_value_src v (Some lo) (Some hi) false = RErr
  end.
Proof.
  unfold check_value, check_value_src. cbn [is_some oget andb].
  destruct (Qlt_le_dec v lo) as [H1|H1]; destruct (Qlt_le_dec hi v) as [H2|H2]; simpl.
  - apply Qltb_true in H1. rewrite H1. reflexivity.
  - apply Qltb_true in H1. rewrite H1. reflexivity.
  - apply Qltb_true in H2. rewrite H2. rewrite orb_true_r. reflexivity.
  - apply Qltb_false in H1. apply Qltb_false in H2. rewrite H1, H2. reflexivity.
Qed.
Print Assumptions check_value_src_equiv_plain.
