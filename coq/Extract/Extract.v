Require Extraction.
Require Import ExtrOcamlBasic.
From PV Require Import Model.Exec.
Extraction Language OCaml.
Extraction "model.ml" dispatch.
