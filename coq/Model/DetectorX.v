(* Exchange-format entry points of the detector model (C08 correspondence). *)
From PV Require Export Model.Detector Lib.Sx.

Definition to_optnat (x : sx) : option nat := match x with L _ => None | I z => Some (Z.to_nat z) end.
Definition of_optnat (o : option nat) : sx := match o with None => L [] | Some n => of_nat_sx n end.

(* () = no detector; (0) = PNR; (1 w mx) = interleaved; (2 L r) = beam-splitter tree *)
Definition to_det (x : sx) : option detector :=
  match to_list x with
  | [] => None
  | t :: _ =>
      match to_Z t with
      | 0%Z => Some Pnr
      | 1%Z => Some (Inter (to_nat (nthx 1 x)) (to_nat (nthx 2 x)))
      | _ => Some (Tree (to_nat (nthx 1 x)) (to_Qc (nthx 2 x)))
      end
  end.
Definition of_det (d : detector) : sx :=
  match d with
  | Pnr => L [I 0%Z]
  | Inter w mx => L [I 1%Z; of_nat_sx w; of_nat_sx mx]
  | Tree l r => L [I 2%Z; of_nat_sx l; of_Qc r]
  end.
Definition of_dtype (t : dtype) : sx := I (match t with TPnr => 0 | TThr => 1 | TPpnr => 2 | TMixed => 3 end)%Z.
Definition of_dist1 (d : dist1) : sx := L (map (fun e => L [of_nat_sx (fst e); of_Qc (snd e)]) d).
Definition to_bsd (x : sx) : bsd := map (fun e => (to_nats (nthx 0 e), to_Qc (nthx 1 e))) (to_list x).
Definition of_bsd (d : bsd) : sx := L (map (fun e => L [of_nats (fst e); of_Qc (snd e)]) d).
Definition to_dets (x : sx) : list (option detector) := map to_det (to_list x).

(* (w det nph) *)
Definition x_cond (x : sx) : sx := of_Qc (cond (to_nat (nthx 0 x)) (to_nat (nthx 2 x)) (to_nat (nthx 1 x))).
(* (detector n) *)
Definition x_detect (x : sx) : sx := of_dist1 (kernel (to_det (nthx 0 x)) (to_nat (nthx 1 x))).
(* (n_wires|() max_detections|()) -> () on assertion failure, else (detector type max_detections|()) *)
Definition x_mk_detector (x : sx) : sx :=
  match mk_detector (to_optnat (nthx 0 x)) (to_optnat (nthx 1 x)) with
  | None => L []
  | Some d => L [of_det d; of_dtype (det_type d); of_optnat (max_detections d)]
  end.
(* (L r) *)
Definition x_tree_leaves (x : sx) : sx := L (map of_Qc (tree_leaves (to_nat (nthx 0 x)) (to_Qc (nthx 1 x)))).
Definition x_detection_type (x : sx) : sx := of_dtype (detection_type (to_dets x)).
(* (((mode value) ...) detectors) *)
Definition x_check_heralds (x : sx) : sx :=
  of_bool (check_heralds (map (fun e => (to_nat (nthx 0 e), to_nat (nthx 1 e))) (to_list (nthx 0 x))) (to_dets (nthx 1 x))).
(* (dist detectors min_photons|()) -> (result perf mass_before_filter) ; result un-merged (duplicates add up) *)
Definition x_simulate (x : sx) : sx :=
  let d := to_bsd (nthx 0 x) in
  let ds := to_dets (nthx 1 x) in
  let r := simulate d ds (to_optnat (nthx 2 x)) in
  L [of_bsd (fst r); of_Qc (snd r); of_Qc (mass (expand d ds))].
(* closed form C(w,k) S(n,k) k! / w^n  : (w k n) *)
Definition x_closed (x : sx) : sx :=
  let w := to_nat (nthx 0 x) in let k := to_nat (nthx 1 x) in let n := to_nat (nthx 2 x) in
  of_Qc (qn (binom w k) * qn (stir n k) * qn (fact k) / qpow (qn w) n).
