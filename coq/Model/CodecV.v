(* C15 - the generic entry points: serialize(obj, compress=...) / deserialize(obj) over every supported type and over
   lists / dictionaries of them to any depth (serialize.py, deserialize.py).  The ":PCVL:zip:" wrapper is a flag. *)
From PV Require Export Model.Codec.
Import ListNotations.
Local Open Scope Z_scope.

Inductive value :=
| VCircuit (c : comp)            (* any ACircuit: dispatched on ACircuit (more specific than AComponent) *)
| VComponent (c : comp)          (* a non-unitary AComponent (TD, LC) *)
| VExperiment (e : experiment)
| VHerald (v : Z) (uname : option str)
| VPort (n : str) (enc : Z)
| VMatrix (m : matrix)
| VState (b : bstate)
| VSV (v : svec)
| VSVD (d : svd)
| VBSD (d : list (bstate * Qc))
| VBSC (d : list (bstate * Z))
| VBSS (l : list bstate)
| VNoise (n : noise)
| VPost (s : str)
| VDet (d : detector)
| VPPNR (name : str) (layers : Z) (r : Qc)
| VOther (z : Z)                 (* any other Python object: returned unchanged by both directions *)
| VList (l : list value)
| VDict (l : list (value * value)).

Inductive payload :=
| PCircuit (w : wcomp) | PComponent (w : wcomp) | PExperiment (w : wexp) | PHerald (w : waport) | PPort (w : waport)
| PMatrix (w : wmat) | PState (b : bstate) | PSV (v : svec) | PSVD (d : svd) | PBSD (d : list (bstate * Qc))
| PBSC (d : list (bstate * Z)) | PBSS (keys : list bstate) (order : list Z) | PNoise (l : list (Z * Qc))
| PPost (s : str) | PDet (w : wdet) | PPPNR (name : str) (layers : Z) (r : Qc).
Inductive wire := WStr (zip : bool) (p : payload) | WOther (z : Z) | WList (l : list wire) | WDict (l : list (wire * wire)).

(* tag numbers: 0 Matrix, 1 ACircuit, 2 Component, 3 Experiment, 4 Herald, 5 Port, 6 BasicState, 7 StateVector,
   8 SVDistribution, 9 BSDistribution, 10 BSCount, 11 BSSamples, 12 NoiseModel, 13 PostSelect, 14 BSLayeredDetector,
   15 Detector *)
Inductive compress := CBool (b : bool) | CTags (l : list Z).
Definition do_zip (c : compress) (tag : Z) : bool :=                      (* _handle_compress_parameter *)
  match c with CBool b => b | CTags l => existsb (Z.eqb tag) l end.
(* how serialize was called: without a compress argument (the per-type default applies) or with `compress=` *)
Inductive callmode := CDefault | CKw (c : compress).
Definition zipf (cm : callmode) (default : bool) (tag : Z) : bool :=
  match cm with CDefault => default | CKw c => do_zip c tag end.
Definition child (cm : callmode) : callmode := CKw (match cm with CDefault => CBool false | CKw c => c end).

Section CodecV.
Variable cf : cfg.
Variable ev : str -> Qc.

Definition pair_opt {A B} (a : option A) (b : option B) : option (A * B) :=
  match a, b with Some x, Some y => Some (x, y) | _, _ => None end.

Fixpoint enc_value (cm : callmode) (v : value) : option wire :=
  match v with
  | VCircuit c => Some (WStr (zipf cm true 1) (PCircuit (enc_circuit cf ev c)))
  | VComponent c => Some (WStr (zipf cm true 2) (PComponent (enc_comp cf ev 0 c)))
  | VExperiment e => Some (WStr (zipf cm true 3) (PExperiment (enc_exp cf ev e)))
  | VHerald v u => Some (WStr (zipf cm true 4) (PHerald (enc_aport (AHerald v u))))
  | VPort n e => Some (WStr (zipf cm true 5) (PPort (WPort n e)))
  | VMatrix m => Some (WStr (zipf cm false 0) (PMatrix (enc_mat cf m)))
  | VState b => Some (WStr (zipf cm false 6) (PState b))
  | VSV s => Some (WStr (zipf cm false 7) (PSV (enc_sv s)))
  | VSVD d => Some (WStr (zipf cm false 8) (PSVD (enc_svd d)))
  | VBSD d => Some (WStr (zipf cm true 9) (PBSD (enc_bsd d)))
  | VBSC d => Some (WStr (zipf cm true 10) (PBSC d))
  | VBSS l => Some (WStr (zipf cm true 11) (PBSS (fst (enc_bss l)) (snd (enc_bss l))))
  | VNoise n => Some (WStr (zipf cm false 12) (PNoise (enc_noise n)))
  | VPost s => Some (WStr (zipf cm false 13) (PPost s))
  (* before 59614844: `def serialize(obj: Detector, do_compress=False)` registered under dispatch(Detector, compress=...): a
     call with the keyword `compress` raised TypeError; lists and dicts always pass `compress=` to their elements *)
  | VDet d => match cm with
              | CDefault => Some (WStr false (PDet (enc_det d)))
              | CKw c => if fix_detkw cf then Some (WStr (do_zip c 15) (PDet (enc_det d))) else None
              end
  | VPPNR n l r => match cm with
                   | CDefault => Some (WStr false (PPPNR n l r))
                   | CKw c => if fix_detkw cf then Some (WStr (do_zip c 14) (PPPNR n l r)) else None
                   end
  | VOther z => Some (WOther z)
  | VList l => option_map WList (seq_opt (map (enc_value (child cm)) l))
  | VDict l =>
      option_map WDict (seq_opt (map (fun kv => match kv with (a, b) =>
                                          pair_opt (enc_value (child cm) a) (enc_value (child cm) b) end) l))
  end.

Inductive dvalue :=
| DVCircuit (d : dcomp) | DVComponent (d : dcomp) | DVExperiment (d : dexp) | DVHerald (v : Z) (uname : option str)
| DVPort (n : str) (enc : Z) | DVMatrix (m : matrix) | DVState (b : bstate) | DVSV (v : svec) | DVSVD (d : svd)
| DVBSD (d : list (bstate * Qc)) | DVBSC (d : list (bstate * Z)) | DVBSS (l : list bstate) | DVNoise (n : noise)
| DVPost (s : str) | DVDet (d : detector) | DVPPNR (name : str) (layers : Z) (r : Qc) | DVOther (z : Z)
| DVList (l : list dvalue) | DVDict (l : list (dvalue * dvalue)).

Definition dec_payload (p : payload) : option dvalue :=
  match p with
  | PCircuit w => option_map DVCircuit (dec_circuit cf w)
  | PComponent w => option_map DVComponent (dec_component cf w)
  | PExperiment w => option_map DVExperiment (dec_exp cf w)
  | PHerald w => match dec_aport w with AHerald v u => Some (DVHerald v u) | _ => None end
  | PPort w => match dec_aport w with APort n e => Some (DVPort n e) | _ => None end
  | PMatrix w => option_map DVMatrix (dec_mat w)
  | PState b => Some (DVState b)
  | PSV v => Some (DVSV v)
  | PSVD d => Some (DVSVD d)
  | PBSD d => Some (DVBSD d)
  | PBSC d => Some (DVBSC d)
  | PBSS k o => option_map DVBSS (dec_bss (k, o))
  | PNoise l => Some (DVNoise (dec_noise l))
  | PPost s => Some (DVPost s)
  | PDet w => option_map DVDet (dec_det w)
  | PPPNR n l r => match dec_idet (WIPPNR n l r) with Some (IPPNR n' l' r') => Some (DVPPNR n' l' r') | _ => None end
  end.
Fixpoint dec_wire (w : wire) : option dvalue :=
  match w with
  | WStr _ p => dec_payload p               (* the zip prefix is undone first; then the tag selects the reader *)
  | WOther z => Some (DVOther z)
  | WList l => option_map DVList (seq_opt (map dec_wire l))
  | WDict l => option_map DVDict (seq_opt (map (fun kv => match kv with (a, b) => pair_opt (dec_wire a) (dec_wire b) end) l))
  end.
Definition roundtrip (cm : callmode) (v : value) : option dvalue :=
  match enc_value cm v with Some w => dec_wire w | None => None end.

(* the expected image of a value *)
Definition inj_exp (e : experiment) : dexp :=
  mkdexp (Some (e_name e)) (e_moi e) (e_nher e) (e_input e) (e_noise e) (e_filter e) (e_post e) (e_in e) (e_out e)
    (e_dets e) (map (fun oc => (fst oc, inj (snd oc))) (e_comps e)) (e_hnum e).
Fixpoint inj_value (v : value) : dvalue :=
  match v with
  | VCircuit c => DVCircuit (inj (wrap c)) | VComponent c => DVComponent (inj c) | VExperiment e => DVExperiment (inj_exp e)
  | VHerald v u => DVHerald v u | VPort n e => DVPort n e | VMatrix m => DVMatrix m | VState b => DVState b
  | VSV s => DVSV s | VSVD d => DVSVD d | VBSD d => DVBSD d | VBSC d => DVBSC d | VBSS l => DVBSS l
  | VNoise n => DVNoise n | VPost s => DVPost s | VDet d => DVDet d | VPPNR n l r => DVPPNR n l r | VOther z => DVOther z
  | VList l => DVList (map inj_value l)
  | VDict l => DVDict (map (fun kv => match kv with (a, b) => (inj_value a, inj_value b) end) l)
  end.
End CodecV.
