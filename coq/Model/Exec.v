(* Single entry point of the executable models: function id + argument tree -> result tree. *)
From PV Require Export Model.ComponentsX Model.EnginesX Model.SourceX.

Definition dispatch (f : Z) (x : sx) : sx :=
  match f with
  | 1 => x_bs x | 2 => x_ps x | 3 => x_wp x | 4 => x_pr x | 5 => x_perm x | 6 => x_check_value x | 7 => x_unit_prod x
  | 10 => x_run_prog x
  | 20 => x_amps x | 21 => x_amp1 x | 22 => x_dist x | 23 => x_masked x | 24 => x_submatrix x
  | 600 => x_get_probs x | 601 => x_one_photon x | 602 => x_prob_dist x | 603 => x_generate x | 604 => x_prob_table x
  | 605 => x_from_noise x | 606 => x_generate_filtered x | 607 => x_event_law x
  | _ => L []
  end%Z.
