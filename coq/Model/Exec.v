(* Single entry point of the executable models: function id + argument tree -> result tree. *)
From PV Require Export Model.ComponentsX Model.EnginesX Model.SelectX Model.SimulatorX.
From PV Require Model.ConnectorX.  (* C10; qualified *)
From PV Require Export Model.CatalogX.
From PV Require Export Model.PolarX.
From PV Require Model.RemoteJob.   (* not exported: its short names (step, run, status, ...) stay qualified *)
From PV Require Export Model.LocalJobX.
From PV Require Export Model.DetectorX.
From PV Require Export Model.CodecX.
From PV Require Export Model.PayloadX.
From PV Require Export Model.JobGroupX.
From PV Require Export Model.TransformX.
From PV Require Export Model.DecompX.
From PV Require Export Model.SourceX.
From PV Require Export Model.LossX.
From PV Require Model.SamplingX.   (* C09; qualified (step, run, init, ... stay out of the way) *)
From PV Require Model.CacheMachineX.   (* C05; qualified *)

Definition dispatch (f : Z) (x : sx) : sx :=
  match f with
  | 1 => x_bs x | 2 => x_ps x | 3 => x_wp x | 4 => x_pr x | 5 => x_perm x | 6 => x_check_value x | 7 => x_unit_prod x
  | 10 => x_run_prog x
  | 20 => x_amps x | 21 => x_amp1 x | 22 => x_dist x | 23 => x_masked x | 24 => x_submatrix x
  | 40 => x_condition x
  | 30 => x_svd_dist x
  | 70 => x_lossy x | 71 => x_thinned x
  (* 1700 = the code as it is now (both C17 repairs are in /repo: fix commits 3528201e, a6e53956);
     1703 = the code before the repairs (kept for the _refuted theorems and their witnesses) *)
  | 1700 => RemoteJob.x_rj_patch x | 1701 => RemoteJob.x_rj_patch x | 1702 => RemoteJob.x_rj_spec x | 1703 => RemoteJob.x_rj_code x
  | 1800 => x_localjob_run x | 1801 => LocalJobX.x_handle_params x
  | 800 => x_cond x | 801 => x_detect x | 802 => x_mk_detector x | 803 => x_tree_leaves x
  | 804 => x_detection_type x | 805 => x_check_heralds x | 806 => x_simulate x | 807 => x_closed x
  | 1500 => x_sf x | 1501 => x_codec x | 1502 => x_codec_old x
  | 1600 => x_scenario x | 1601 => PayloadX.x_handle_params x
  | 1900 => x_jobgroup_run x | 1901 => x_jobgroup_run_old x | 1902 => x_jobgroup_world x
  | 1100 => x_tmat x | 1101 => x_inverse x | 1102 => x_decompose x | 1103 => x_flatten x | 1104 => x_regroup x
  | 1105 => x_perm_util x | 1106 => x_update_adjacent x | 1107 => x_close x | 1108 => x_seq x
  | 1200 => x_close_to x | 1201 => x_diag_equiv x | 1202 => x_decomp x
  | 1000 => ConnectorX.x_conn_run x | 1001 => ConnectorX.x_ps_eval_all x | 1002 => ConnectorX.x_gen_perm x
  (* C20: catalog gates in their towers, parametrised gates, controlled-rotation block, logical action on a dyadic grid *)
  (* 1300-1304: C13, the code as it is now; 1310-1313: /repo before the fix commits e38f1486, 53c82d36, 19d38de0 (historical) *)
  | 1310 => x_pol_unitary_g false x | 1311 => x_pol_convert_g false x | 1312 => x_pol_probs_g false x | 1313 => x_pol_spec_g false x
  | 2000 => x_cat_gate x | 2001 => x_logical_zi x | 2002 => x_param_gate x | 2003 => x_crot x | 2004 => x_logical_passes x
  | 1300 => x_pol_unitary x | 1301 => x_pol_convert x | 1302 => x_pol_probs x | 1303 => x_pol_spec x | 1304 => x_labels x | 1305 => x_pol_session x | 1306 => x_pol_processor x
  | 600 => x_get_probs x | 601 => x_one_photon x | 602 => x_prob_dist x | 603 => x_generate x | 604 => x_prob_table x
  | 605 => x_from_noise x | 606 => x_generate_filtered x | 607 => x_event_law x
  | 1003 => ConnectorX.x_conn_run_old x
  | 900 => SamplingX.x_pipeline x | 901 => SamplingX.x_loop x | 902 => SamplingX.x_sim x | 903 => SamplingX.x_repair x
  | 904 => SamplingX.x_pyround x | 905 => SamplingX.x_hist x | 906 => SamplingX.x_samples_conv x
  | 907 => SamplingX.x_count_to_probs x | 912 => SamplingX.x_sim_old_code x | 908 => SamplingX.x_scale x
  (* C05: 500 = SLOS cache machine (fixA, fixB, history), 501 = closed form of a configuration, 502 = MPS bond
     dimension, 503 = iterator cache keys *)
  | 500 => CacheMachineX.x_slos_run x | 501 => CacheMachineX.x_slos_spec x | 502 => CacheMachineX.x_mps_run x
  | 503 => CacheMachineX.x_iter_run x
  | _ => L []
  end%Z.
