(* Single entry point of the executable models: function id + argument tree -> result tree. *)
From PV Require Export Model.ComponentsX Model.DetectorX.

Definition dispatch (f : Z) (x : sx) : sx :=
  match f with
  | 1 => x_bs x | 2 => x_ps x | 3 => x_wp x | 4 => x_pr x | 5 => x_perm x | 6 => x_check_value x | 7 => x_unit_prod x
  | 10 => x_run_prog x
  | 800 => x_cond x | 801 => x_detect x | 802 => x_mk_detector x | 803 => x_tree_leaves x
  | 804 => x_detection_type x | 805 => x_check_heralds x | 806 => x_simulate x | 807 => x_closed x
  | _ => L []
  end%Z.
