(* Single entry point of the executable models: function id + argument tree -> result tree. *)
From PV Require Export Model.ComponentsX Model.EnginesX Model.DecompX.

Definition dispatch (f : Z) (x : sx) : sx :=
  match f with
  | 1 => x_bs x | 2 => x_ps x | 3 => x_wp x | 4 => x_pr x | 5 => x_perm x | 6 => x_check_value x | 7 => x_unit_prod x
  | 10 => x_run_prog x
  | 20 => x_amps x | 21 => x_amp1 x | 22 => x_dist x | 23 => x_masked x | 24 => x_submatrix x
  | 1200 => x_close_to x | 1201 => x_diag_equiv x | 1202 => x_decomp x
  | _ => L []
  end%Z.
