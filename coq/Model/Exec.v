(* Single entry point of the executable models: function id + argument tree -> result tree. *)
From PV Require Export Model.ComponentsX.
From PV Require Export Model.JobGroupX.

Definition dispatch (f : Z) (x : sx) : sx :=
  match f with
  | 1 => x_bs x | 2 => x_ps x | 3 => x_wp x | 4 => x_pr x | 5 => x_perm x | 6 => x_check_value x | 7 => x_unit_prod x
  | 10 => x_run_prog x
  | 1900 => x_jobgroup_run x
  | _ => L []
  end%Z.
