(* Single entry point of the executable models: function id + argument tree -> result tree. *)
From PV Require Export Model.ComponentsX Model.EnginesX Model.SelectX.
From PV Require Export Model.CatalogX.
From PV Require Model.RemoteJob.   (* not exported: its short names (step, run, status, ...) stay qualified *)

Definition dispatch (f : Z) (x : sx) : sx :=
  match f with
  | 1 => x_bs x | 2 => x_ps x | 3 => x_wp x | 4 => x_pr x | 5 => x_perm x | 6 => x_check_value x | 7 => x_unit_prod x
  | 10 => x_run_prog x
  | 20 => x_amps x | 21 => x_amp1 x | 22 => x_dist x | 23 => x_masked x | 24 => x_submatrix x
  | 40 => x_condition x
  (* 1700 = the code as it is now (both C17 repairs are in /repo: fix commits 3528201e, a6e53956);
     1703 = the code before the repairs (kept for the _refuted theorems and their witnesses) *)
  | 1700 => RemoteJob.x_rj_patch x | 1701 => RemoteJob.x_rj_patch x | 1702 => RemoteJob.x_rj_spec x | 1703 => RemoteJob.x_rj_code x
  (* C20: catalog gates in their towers, parametrised gates, controlled-rotation block, logical action on a dyadic grid *)
  | 2000 => x_cat_gate x | 2001 => x_logical_zi x | 2002 => x_param_gate x | 2003 => x_crot x
  | _ => L []
  end%Z.
