(* Single entry point of the executable models: function id + argument tree -> result tree. *)
From PV Require Export Model.ComponentsX Model.EnginesX Model.SelectX Model.PolarX.
From PV Require Model.RemoteJob.   (* not exported: its short names (step, run, status, ...) stay qualified *)

Definition dispatch (f : Z) (x : sx) : sx :=
  match f with
  | 1 => x_bs x | 2 => x_ps x | 3 => x_wp x | 4 => x_pr x | 5 => x_perm x | 6 => x_check_value x | 7 => x_unit_prod x
  | 10 => x_run_prog x
  | 20 => x_amps x | 21 => x_amp1 x | 22 => x_dist x | 23 => x_masked x | 24 => x_submatrix x
  | 40 => x_condition x
  (* 1700 = the code as it is now (both C17 repairs are in /repo: fix commits 3528201e, a6e53956);
     1703 = the code before the repairs (kept for the _refuted theorems and their witnesses) *)
  | 1700 => RemoteJob.x_rj_patch x | 1701 => RemoteJob.x_rj_patch x | 1702 => RemoteJob.x_rj_spec x | 1703 => RemoteJob.x_rj_code x
  (* 1300-1304: C13, the code as it is; 1310-1313: with the repairs proposed in known_findings.json *)
  | 1310 => x_pol_unitary_g true x | 1311 => x_pol_convert_g true x | 1312 => x_pol_probs_g true x | 1313 => x_pol_spec_g true x
  | 1300 => x_pol_unitary x | 1301 => x_pol_convert x | 1302 => x_pol_probs x | 1303 => x_pol_spec x | 1304 => x_labels x
  | _ => L []
  end%Z.
