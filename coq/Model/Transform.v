(* Circuit transformations (C11): typed circuit trees over the elementary vocabulary, and faithful models of
     BS.inverse / PS.inverse / Unitary.inverse / PERM (inherits Unitary.inverse)   unitary_components.py
     Circuit.inverse(v, h)                                                        linear_circuit.py
     PERM.break_in_2_mode_perms, decompose_perms                                  unitary_components.py, comp_utils.py
     experiment._flatten (with max_depth), non_unitary_circuit regrouping         experiment.py
   Models of code that was repaired in /repo take flags: all flags TRUE = the code as it is NOW
   (BS.inverse after db5cda2f, _flatten after 47d2b926); all flags FALSE = the HISTORICAL code before those
   repairs (kept so that the refuting witnesses of the old code still compile).  The named configurations
   [*_now] / [*_old] at the end of this file are what the driver and the theorems use. *)
From PV Require Export Model.Circuit Model.Components.

Section Transform.
Variable R : cring.
Variable ii : R.
Open Scope K_scope.
Notation mat := (mat R).

(* the matrix with the mode order reversed on both sides (= J A J, Proofs/TransformP.v) *)
Definition vflip (k : nat) (A : mat) : mat := fun i j => A (k - 1 - i)%nat (k - 1 - j)%nat.
Definition jmat (k : nat) : mat := pmat (fun j => (k - 1 - j)%nat).
(* what an inversion with flags (v, h) must produce from a k-mode matrix A *)
Definition expected (v h : bool) (k : nat) (A : mat) : mat :=
  let B := if h then madj A else A in if v then vflip k B else B.

(* ---------------------------------------------------------------- leaves *)
(* BS: c, s = cos, sin (theta/2); tl.. = exp(i phi_tl)..   PS: e = exp(i phi) *)
Inductive leaf :=
| LBS (cv : convention) (c s tl bl tr br : R)
| LPS (e : R)
| LU (k : nat) (U : mat)
| LPERM (p : list nat).

Definition lw (l : leaf) : nat :=
  match l with LBS _ _ _ _ _ _ _ => 2 | LPS _ => 1 | LU k _ => k | LPERM p => length p end.
Definition leafm (l : leaf) : mat :=
  match l with
  | LBS cv c s tl bl tr br => bs_mat cv ii c s tl bl tr br
  | LPS e => ps_mat e
  | LU _ U => U
  | LPERM p => perm_mat p
  end.

(* BS.inverse(v, h), all phases defined (numeric).
   now (flags true):  v: tl<->bl, tr<->br; Ry: theta := -theta; H: theta := 2 pi - theta (half angle pi - theta/2)
                      h: tl := -tr, tr := -tl, bl := -br, br := -bl; Rx, Ry: theta := -(current theta); H: untouched.
   historical (flags false): fv = false: v re-assigned every phase to itself;
                      fh = false: h negated the four phases in place;
                      ft = false: h negated the theta read at entry (before the v step). *)
Definition bs_inverse (fv fh ft : bool) (cv : convention) (v h : bool) (c s tl bl tr br : R) : leaf :=
  let '(tl1, bl1, tr1, br1) := if v && fv then (bl, tl, br, tr) else (tl, bl, tr, br) in
  let '(c1, s1) := if v then match cv with Rx => (c, s) | Ry => (c, - s) | Hc => (- c, s) end else (c, s) in
  if h then
    let '(c2, s2) := match cv with Hc => (c1, s1) | _ => if ft then (c1, - s1) else (c, - s) end in
    let '(tl2, bl2, tr2, br2) := if fh then (tr1, br1, tl1, bl1) else (tl1, bl1, tr1, br1) in
    LBS cv c2 s2 (kconj tl2) (kconj bl2) (kconj tr2) (kconj br2)
  else LBS cv c1 s1 tl1 bl1 tr1 br1.

(* component.inverse(v=v, h=h), called by Circuit.inverse only when v or h.
   PS: h negates phi.  Unitary (and PERM, which inherits it): v -> np.flip(u) (both axes), h -> u.inv();
   the constructor asserts that u is unitary, for which the inverse is the adjoint (inverse_is_adjoint). *)
Definition leaf_inverse (fv fh ft : bool) (v h : bool) (l : leaf) : leaf :=
  match l with
  | LBS cv c s tl bl tr br => bs_inverse fv fh ft cv v h c s tl bl tr br
  | LPS e => LPS (if h then kconj e else e)
  | LU k U => LU k (expected v h k U)
  | LPERM p => LU (length p) (expected v h (length p) (perm_mat p))
  end.

(* ---------------------------------------------------------------- typed trees *)
Inductive tcomp := TLeaf (l : leaf) | TSub (m : nat) (items : list (nat * tcomp)).
Definition tw (t : tcomp) : nat := match t with TLeaf l => lw l | TSub m _ => m end.
Fixpoint denote (t : tcomp) : comp R :=
  match t with
  | TLeaf l => Leaf (lw l) (leafm l)
  | TSub m items => Sub m (map (fun ot => match ot with (o, t') => (o, denote t') end) items)
  end.
Definition tmat (t : tcomp) : mat := cmat (denote t).
Definition is_sub (t : tcomp) : bool := match t with TLeaf _ => false | TSub _ _ => true end.

(* Circuit.inverse(v, h) (in place in the code; here the new tree): the component list is reversed for h,
   every range [o, o+k) becomes [m-o-k, m-o) for v, every component is inverted recursively *)
Fixpoint tinv (li : leaf -> leaf) (v h : bool) (t : tcomp) : tcomp :=
  match t with
  | TLeaf l => TLeaf (li l)
  | TSub m items =>
      let items1 := map (fun ot => match ot with (o, t') =>
                           ((if v then m - (o + tw t') else o)%nat, tinv li v h t') end) items in
      TSub m (if h then rev items1 else items1)
  end.
Definition circuit_inverse (fv fh ft : bool) (v h : bool) (t : tcomp) : tcomp :=
  if v || h then tinv (leaf_inverse fv fh ft v h) v h t else t.

(* ---------------------------------------------------------------- flat circuits *)
Definition fcirc := list (nat * leaf).
Definition fmats (fc : fcirc) : list mat := map (fun ol => match ol with (o, l) => embed o (lw l) (leafm l) end) fc.
Definition fmat (m : nat) (fc : fcirc) : mat := oprod m (fmats fc).
Definition fmatx (m : nat) (fc : fcirc) : mat := oprodx m (fmats fc).
(* Circuit.__iter__ on typed trees *)
Fixpoint tflatten (off : nat) (t : tcomp) : fcirc :=
  match t with
  | TLeaf l => [(off, l)]
  | TSub m items => flat_map (fun ot => match ot with (o, t') => tflatten (off + o) t' end) items
  end.

(* ---------------------------------------------------------------- PERM.break_in_2_mode_perms *)
Fixpoint idx (x : nat) (l : list nat) : nat :=
  match l with [] => 0%nat | y :: r => if (x =? y)%nat then 0%nat else S (idx x r) end.
(* exchange positions k and k+1 *)
Definition swap_at (l : list nat) (k : nat) : list nat :=
  match skipn k l with a :: b :: r => firstn k l ++ b :: a :: r | _ => l end.
(* while new[i] != out: swap_idx = new.index(out); exchange swap_idx-1, swap_idx; emit swap_idx-1 *)
Fixpoint bubble_inner (fuel : nat) (new : list nat) (i out : nat) (acc : list nat) : list nat * list nat :=
  match fuel with
  | O => (new, acc)
  | S f => if (nth i new 0%nat =? out)%nat then (new, acc)
           else let k := idx out new in bubble_inner f (swap_at new (k - 1)) i out (acc ++ [(k - 1)%nat])
  end.
Fixpoint bubble_outer (p : list nat) (is : list nat) (new : list nat) (acc : list nat) : list nat * list nat :=
  match is with
  | [] => (new, acc)
  | i :: r => let '(new', acc') := bubble_inner (length p) new i (idx i p) acc in bubble_outer p r new' acc'
  end.
(* first modes of the emitted PERM([1,0]) components, in circuit order *)
Definition bubble_swaps (p : list nat) : list nat :=
  snd (bubble_outer p (seq 0 (length p)) (seq 0 (length p)) []).
Definition swap_leaf : leaf := LPERM [1%nat; 0%nat].
Definition break_in_2 (o : nat) (p : list nat) : fcirc :=
  if (length p =? 2)%nat then [(o, LPERM p)] else map (fun k => ((o + k)%nat, swap_leaf)) (bubble_swaps p).
(* comp_utils.decompose_perms (listing of the result in circuit order; merge only changes the nesting) *)
Definition decompose_perms (fc : fcirc) : fcirc :=
  flat_map (fun ol => match ol with (o, LPERM p) => break_in_2 o p | _ => [ol] end) fc.

(* decompose_perms(circuit, merge) as a tree: the result is a NEW circuit on the same modes whose entries are the
   leaves of the operand in circuit order, every PERM on more than two modes replaced by its swap network --
   merged into the list (merge = true) or nested as one sub-circuit (merge = false).  The network is built afresh
   at every call: the result shares no composite with any other circuit. *)
Definition tdecompose (merge : bool) (t : tcomp) : tcomp :=
  TSub (tw t)
    (flat_map (fun ol => match ol with
       | (o, LPERM p) =>
           if (length p =? 2)%nat then [(o, TLeaf (LPERM p))]
           else if merge then map (fun k => ((o + k)%nat, TLeaf swap_leaf)) (bubble_swaps p)
           else [(o, TSub (length p) (map (fun k => (k, TLeaf swap_leaf)) (bubble_swaps p)))]
       | (o, l) => [(o, TLeaf l)]
       end) (tflatten 0 t)).

(* ---------------------------------------------------------------- experiment._flatten *)
Definition dgo (d : option nat) : bool := match d with None => true | Some k => (0 <? k)%nat end.
Definition ddec (d : option nat) : option nat := match d with None => None | Some k => Some (k - 1)%nat end.
(* one entry (o, t) of a composite whose own starting mode is [start].
   fx = true: the recursion passes starting_mode + m_range[0] (the code now); fx = false: m_range[0] (historical). *)
Fixpoint flat1 (fx : bool) (start : nat) (d : option nat) (o : nat) (t : tcomp) : list (nat * tcomp) :=
  match t with
  | TLeaf _ => [((o + start)%nat, t)]
  | TSub m items =>
      if dgo d then flat_map (fun ot => match ot with (o', t') =>
                                flat1 fx (if fx then start + o else o)%nat (ddec d) o' t' end) items
      else [((o + start)%nat, t)]
  end.
(* Experiment.flatten(max_depth) on the experiment's component list *)
Definition exp_flatten (fx : bool) (d : option nat) (items : list (nat * tcomp)) : list (nat * tcomp) :=
  flat_map (fun ot => match ot with (o, t) => flat1 fx 0 d o t end) items.
Definition emats (items : list (nat * tcomp)) : list mat :=
  map (fun ot => match ot with (o, t) => embed o (tw t) (tmat t) end) items.
Definition emat (M : nat) (items : list (nat * tcomp)) : mat := oprod M (emats items).
Definition ematx (M : nat) (items : list (nat * tcomp)) : mat := oprodx M (emats items).

(* ---------------------------------------------------------------- non_unitary_circuit regrouping *)
(* entries between two non-unitary components: the block Unitary(U[min_r:max_r, min_r:max_r]) on
   range(min_r, max_r), U = matrix of the run on the whole circuit size *)
Definition run_min (M : nat) (run : list (nat * tcomp)) : nat := fold_left (fun a ot => Nat.min a (fst ot)) run M.
Definition run_max (run : list (nat * tcomp)) : nat := fold_left (fun a ot => Nat.max a (fst ot + tw (snd ot))) run 0%nat.
Definition submat (a : nat) (A : mat) : mat := fun i j => A (a + i)%nat (a + j)%nat.
Definition regroup_run (M : nat) (run : list (nat * tcomp)) : nat * nat * mat :=
  let a := run_min M run in let b := run_max run in (a, (b - a)%nat, submat a (ematx M run)).
(* named configurations *)
Definition circuit_inverse_now := circuit_inverse true true true.
Definition circuit_inverse_old := circuit_inverse false false false.
Definition bs_inverse_now := bs_inverse true true true.
Definition bs_inverse_old := bs_inverse false false false.
Definition exp_flatten_now := exp_flatten true.
Definition exp_flatten_old := exp_flatten false.
End Transform.

Arguments vflip {_}. Arguments jmat {_}. Arguments expected {_}.
Arguments LBS {_}. Arguments LPS {_}. Arguments LU {_}. Arguments LPERM {_}.
Arguments lw {_}. Arguments leafm {_}. Arguments bs_inverse {_}. Arguments leaf_inverse {_}.
Arguments TLeaf {_}. Arguments TSub {_}. Arguments tw {_}. Arguments denote {_}. Arguments tmat {_}.
Arguments is_sub {_}. Arguments tinv {_}. Arguments circuit_inverse {_}.
Arguments fmats {_}. Arguments fmat {_}. Arguments fmatx {_}. Arguments tflatten {_}.
Arguments swap_leaf {_}. Arguments break_in_2 {_}. Arguments decompose_perms {_}.
Arguments tdecompose {_}. Arguments flat1 {_}. Arguments exp_flatten {_}. Arguments emats {_}. Arguments emat {_}. Arguments ematx {_}.
Arguments run_min {_}. Arguments run_max {_}. Arguments submat {_}. Arguments regroup_run {_}.
Arguments circuit_inverse_now {_}. Arguments circuit_inverse_old {_}. Arguments bs_inverse_now {_}. Arguments bs_inverse_old {_}.
Arguments exp_flatten_now {_}. Arguments exp_flatten_old {_}.
