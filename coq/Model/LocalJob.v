(* C18 — executable model of perceval/runtime/local_job.py, job.py (argument handling, get_results),
   job_status.py (start_run / stop_run / update_progress) and check_cancel.py, as a two-thread transition
   system.  No proofs here.

   Granularity.  One event of a schedule is either [Wk] — the worker takes the next step of its program
   (fn entry; one progress report; return-or-raise of the task; the wrapper's finish; for a synchronous
   run the final get_results of execute_sync) — or a caller action (status, cancel, get_results, execute,
   set_progress_callback).  Every event is atomic.  [execute] (status check, parameter handling, start_run)
   is one atomic caller step.  Program order of the worker is enforced by its program counter, so EVERY
   list of events is a schedule that respects program order ([Wk] is a no-op when the worker has nothing to
   do), and quantifying over lists of events quantifies over all interleavings.

   Code versions.  The record [code] says which of two historical defects the modelled code still has;
   [code_now] is /repo as it is now (after fix commits 5d55599b, 53f68db6 and 92fc55a7), [code_3e543e6e] is the code
   before those repairs (kept so that the _refuted theorems remain statements about the OLD behaviour):
   - [status_needs_worker]: LocalJob.status dereferenced _worker, which is None during (and after an escaped)
     synchronous run (repaired by 5d55599b: the worker is only consulted when there is one);
   - [cb_keyword_kept]: the progress_callback keyword was read but never removed from kwargs, so
     _handle_params rejected it (repaired by 53f68db6: kwargs.pop).

   - [escapes_unhandled]: _call_fn_safe caught `Exception` only and formatted the exception with an unguarded
     str(): a BaseException that is not an Exception, or an exception whose str() raises, left the wrapper without
     a final status, and LocalJob.status "repaired" a running status with a dead worker to SUCCESS (repaired by
     92fc55a7: `except BaseException`, guarded str(), ERROR recorded, only non-Exceptions re-raised; the dead-worker
     repair records ERROR "The job thread stopped without reporting").

   Faithful to the code as it is, including:
   - a rejected execute keeps the partial updates of _delta_parameters and of _user_cb;
   - after a cancel request the user's progress callback is no longer invoked;
   - get_results on a failed job returns None when there is no result mapping function. *)
From Coq Require Export ZArith List Bool Lia.
Export ListNotations.
Local Open Scope Z_scope.

(* ------------------------------------------------------------------ dictionaries (insertion ordered) *)
Definition kw := list (Z * option Z).          (* name -> value, None is Python's None *)

Fixpoint dset (d : kw) (k : Z) (v : option Z) : kw :=
  match d with
  | [] => [(k, v)]
  | (k', v') :: r => if k =? k' then (k, v) :: r else (k', v') :: dset r k v
  end.
Fixpoint lookup (k : Z) (l : list (Z * Z)) : option Z :=
  match l with [] => None | (k', v) :: r => if k =? k' then Some v else lookup k r end.
Fixpoint remove_key (k : Z) (l : list (Z * Z)) : list (Z * Z) :=
  match l with [] => [] | (k', v) :: r => if k =? k' then remove_key k r else (k', v) :: remove_key k r end.

Definition N_MAX_SAMPLES : Z := 0.      (* the name 'max_samples' *)
Definition N_PROGRESS_CB : Z := 1.      (* the name 'progress_callback' *)

(* ------------------------------------------------------------------ Job._handle_params *)
Inductive perr := PTwice (k : Z) | PUnused (ks : list Z) | PIndex.

(* for idx, unnamed_arg in enumerate(args): param_name = self._param_names[idx] ... *)
Fixpoint assign_pos (names args : list Z) (kwargs : list (Z * Z)) (cmd : kw) : kw * option perr :=
  match args with
  | [] => (cmd, None)
  | a :: ar =>
      match names with
      | [] => (cmd, Some PIndex)
      | n :: nr => match lookup n kwargs with
                   | Some _ => (cmd, Some (PTwice n))
                   | None => assign_pos nr ar kwargs (dset cmd n (Some a))
                   end
      end
  end.

(* for k, v in d.items(): if v is None and k in kwargs: d[k] = kwargs[k]; del kwargs[k] *)
Fixpoint fill (d : kw) (kwargs : list (Z * Z)) : kw * list (Z * Z) :=
  match d with
  | [] => ([], kwargs)
  | (k, v) :: r =>
      match v, lookup k kwargs with
      | None, Some x => let (r', kw') := fill r (remove_key k kwargs) in ((k, Some x) :: r', kw')
      | _, _ => let (r', kw') := fill r kwargs in ((k, v) :: r', kw')
      end
  end.

Definition handle_params (names : list Z) (cmd mapp : kw) (args : list Z) (kwargs : list (Z * Z))
  : kw * kw * option perr :=
  let '(args1, mapp1) :=
    if (length names <? length args)%nat then (removelast args, dset mapp N_MAX_SAMPLES (Some (last args 0)))
    else (args, mapp) in
  match assign_pos names args1 kwargs cmd with
  | (cmd1, Some e) => (cmd1, mapp1, Some e)
  | (cmd1, None) =>
      let (cmd2, kw1) := fill cmd1 kwargs in
      let (mapp2, kw2) := fill mapp1 kw1 in
      (cmd2, mapp2, match kw2 with [] => None | _ => Some (PUnused (map fst kw2)) end)
  end.

(* ------------------------------------------------------------------ statuses, results, programs *)
Inductive rstatus := Waiting | Running | Success | Error | Canceled.
Definition is_running (s : rstatus) := match s with Running => true | _ => false end.
Definition maybe_completed (s : rstatus) := match s with Success | Error | Canceled => true | _ => false end.
Definition is_failed (s : rstatus) := match s with Error | Canceled => true | _ => false end.

Inductive smsg := MNone | MCancel | MErr (ty msg : Z) | MThreadDied.
(* stop message: None / "User has canceled the job" / "T: m" / "The job thread stopped without reporting" *)
Inductive wstate := WNone | WAlive | WDead.                (* self._worker: None / live thread / finished thread *)

(* a result dictionary: shape 0 = {'results': X}, shape 1 = {'results_list': [...]} (see [entry]), any other
   shape = a dict with neither 'results' nor 'results_list'.  X = (payload, the keyword arguments the task was called with), wrapped [nconv] times by the
   result mapping function, the outermost time with the keyword arguments [cargs]. *)
(* shape 1 = the iterated form {'results_list': [{'results': X_i, 'iteration': {...}}, ...]}: one [entry] per
   iteration, X_i = (epay, same arguments), wrapped [enconv] times by the mapping function, the outermost time with
   the keyword arguments [ecargs] = the mapping parameters overridden, key by key, by the entry's iteration dict
   (`res["iteration"].get(key, val)`).  [nconv] counts the conversion passes over the whole dictionary. *)
Record entry := mkentry { epay : Z; eiter : kw; enconv : nat; ecargs : kw }.
Record res := mkres { shape : Z; payload : Z; rargs : kw; nconv : nat; cargs : kw; entries : list entry }.
Fixpoint dget (d : kw) (k : Z) : option (option Z) :=
  match d with [] => None | (k', v) :: r => if k =? k' then Some v else dget r k end.
(* {key: iteration.get(key, val) for key, val in mapping.items()} *)
Definition override (m it : kw) : kw :=
  map (fun e => (fst e, match dget it (fst e) with Some v => v | None => snd e end)) m.
Definition conv_entry (m : kw) (e : entry) : entry := mkentry (epay e) (eiter e) (S (enconv e)) (override m (eiter e)).
(* one pass of LocalJob._get_results over a convertible dictionary ('results' or 'results_list') *)
Definition conv (r : res) (m : kw) : res :=
  mkres (shape r) (payload r) (rargs r) (S (nconv r)) (if shape r =? 1 then cargs r else m)
        (map (conv_entry m) (entries r)).
Definition convertible (z : Z) : bool := (z =? 0) || (z =? 1).

(* ORaise: an ordinary Exception.  OEscape: an exception the OLD wrapper did not turn into ERROR — a BaseException
   that is not an Exception ([reraise] = true: the current wrapper records ERROR and re-raises it) or an exception
   whose str() raises ([reraise] = false; its message is "T: <unprintable exception>").  (ty, msg) identify the
   stop message the current code records. *)
Inductive outcome := ORet | ORaise (ty msg : Z) | OEscape (ty msg : Z) (reraise : bool).
(* the task: reports [steps] (progress in 1/1000, phase id; 0 = no phase); stops early with the partial
   payload [ppay] when [coop] and check_cancel.cancel_requested(answer) holds; otherwise ends with [out]. *)
Record prog := mkprog { steps : list (Z * Z); out : outcome; coop : bool; pshape : Z; pay : Z; ppay : Z;
                        iters : list (Z * kw) (* shape 1: (payload, iteration dict) of every entry *) }.

(* what a progress callback hands back to the task, and check_cancel.cancel_requested *)
Inductive resp := RNone | RDict (c : option bool).
Definition cancel_requested (r : resp) : bool := match r with RDict (Some b) => b | _ => false end.
(* the harness' user callbacks, by identity: they never ask for cancellation *)
Definition ucb_resp (c : Z) : resp :=
  match c mod 3 with 0 => RNone | 1 => RDict None | _ => RDict (Some false) end.

Inductive pcs :=
| PIdle                       (* no accepted execute yet *)
| PStart                      (* execute accepted; fn not yet entered *)
| PTask (rest : list (Z * Z)) (early : bool)   (* inside fn *)
| PRet                        (* fn returned and self._results is assigned; finish pending *)
| PExc (ty msg : Z) (reraise : bool)   (* fn raised and the wrapper's handler is entered; finish pending *)
| PSyncRet                    (* synchronous run finished; execute_sync is about to return get_results() *)
| PDone.

Inductive gres :=             (* outcome of get_results() *)
| GValue (v : option res)     (* returned value (None: Python None) *)
| GStillRunning               (* RuntimeError 'The job is still running...' *)
| GAttrErr                    (* AttributeError from LocalJob.status *)
| GJobFailed (m : smsg)       (* RuntimeError 'The job failed: ...' *)
| GNotAvailable               (* RuntimeError 'Results are not available' *)
| GEscaped.                   (* only as the outcome of execute_sync: the task's BaseException propagates *)

Record st := mkst {
  status : rstatus; progress : Z; phase : Z; msg : smsg;       (* JobStatus *)
  cancel : bool; worker : wstate; results : option res; conv_pending : bool; user_cb : option Z;
  cmd : kw; mapp : kw;                                          (* _delta_parameters *)
  sync : bool; pc : pcs;                                        (* worker program counter *)
  calls : list kw;                                              (* environment: task invocations *)
  cb_log : list (Z * Z * Z);                                    (* environment: (callback, progress, phase) received *)
  sync_ret : option gres                                        (* environment: what execute_sync returned/raised *)
}.

Record code := mkcode { status_needs_worker : bool; cb_keyword_kept : bool; escapes_unhandled : bool }.
Definition code_now : code := mkcode false false false.             (* /repo after 5d55599b, 53f68db6, 92fc55a7 *)
Definition code_before_92fc55a7 : code := mkcode false false true.  (* after the first two repairs only *)
Definition code_3e543e6e : code := mkcode true true true.           (* /repo before all three repairs *)

Record cfg := mkcfg { names : list Z; cmd0 : kw; mapp0 : kw; has_map : bool; ucb0 : option Z; ver : code }.

Definition init (c : cfg) : st :=
  mkst Waiting 0 0 MNone false WNone None (has_map c) (ucb0 c) (cmd0 c) (mapp0 c) false PIdle [] [] None.

(* field updates *)
Definition set_status (s : st) x p m := mkst x p (phase s) m (cancel s) (worker s) (results s) (conv_pending s) (user_cb s) (cmd s) (mapp s) (sync s) (pc s) (calls s) (cb_log s) (sync_ret s).
Definition set_pc (s : st) x := mkst (status s) (progress s) (phase s) (msg s) (cancel s) (worker s) (results s) (conv_pending s) (user_cb s) (cmd s) (mapp s) (sync s) x (calls s) (cb_log s) (sync_ret s).
Definition set_worker (s : st) x := mkst (status s) (progress s) (phase s) (msg s) (cancel s) x (results s) (conv_pending s) (user_cb s) (cmd s) (mapp s) (sync s) (pc s) (calls s) (cb_log s) (sync_ret s).
Definition set_results (s : st) x cp := mkst (status s) (progress s) (phase s) (msg s) (cancel s) (worker s) x cp (user_cb s) (cmd s) (mapp s) (sync s) (pc s) (calls s) (cb_log s) (sync_ret s).
Definition set_cancel (s : st) := mkst (status s) (progress s) (phase s) (msg s) true (worker s) (results s) (conv_pending s) (user_cb s) (cmd s) (mapp s) (sync s) (pc s) (calls s) (cb_log s) (sync_ret s).
Definition set_ucb (s : st) x := mkst (status s) (progress s) (phase s) (msg s) (cancel s) (worker s) (results s) (conv_pending s) x (cmd s) (mapp s) (sync s) (pc s) (calls s) (cb_log s) (sync_ret s).
Definition set_delta (s : st) c m := mkst (status s) (progress s) (phase s) (msg s) (cancel s) (worker s) (results s) (conv_pending s) (user_cb s) c m (sync s) (pc s) (calls s) (cb_log s) (sync_ret s).
Definition set_sync (s : st) x := mkst (status s) (progress s) (phase s) (msg s) (cancel s) (worker s) (results s) (conv_pending s) (user_cb s) (cmd s) (mapp s) x (pc s) (calls s) (cb_log s) (sync_ret s).
Definition add_call (s : st) x := mkst (status s) (progress s) (phase s) (msg s) (cancel s) (worker s) (results s) (conv_pending s) (user_cb s) (cmd s) (mapp s) (sync s) (pc s) (calls s ++ [x]) (cb_log s) (sync_ret s).
Definition add_cb (s : st) x := mkst (status s) (progress s) (phase s) (msg s) (cancel s) (worker s) (results s) (conv_pending s) (user_cb s) (cmd s) (mapp s) (sync s) (pc s) (calls s) (cb_log s ++ [x]) (sync_ret s).
Definition set_sync_ret (s : st) x := mkst (status s) (progress s) (phase s) (msg s) (cancel s) (worker s) (results s) (conv_pending s) (user_cb s) (cmd s) (mapp s) (sync s) (pc s) (calls s) (cb_log s) (Some x).
Definition set_progress (s : st) p ph := mkst (status s) p ph (msg s) (cancel s) (worker s) (results s) (conv_pending s) (user_cb s) (cmd s) (mapp s) (sync s) (pc s) (calls s) (cb_log s) (sync_ret s).

(* JobStatus.stop_run(cause, mesg): progress becomes 1 only for SUCCESS *)
Definition stop_run (s : st) (cause : rstatus) (m : smsg) : st :=
  set_status s cause (match cause with Success => 1000 | _ => progress s end) m.
(* JobStatus.start_run *)
Definition start_run (s : st) : st := set_status s Running (progress s) (msg s).

(* ------------------------------------------------------------------ caller actions *)
Inductive sview := SOk (x : rstatus) (p ph : Z) (m : smsg) | SAttrErr.

(* LocalJob.status (a property with a side effect) *)
Definition do_status (c : cfg) (s : st) : st * sview :=
  if is_running (status s) then
    match worker s with
    | WNone => if status_needs_worker (ver c) then (s, SAttrErr)            (* old code: None.is_alive() *)
               else (s, SOk (status s) (progress s) (phase s) (msg s))     (* `self._worker is not None and ...` *)
    | WAlive => (s, SOk (status s) (progress s) (phase s) (msg s))
    | WDead => (* old code: stop_run(); now: stop_run(ERROR, "The job thread stopped without reporting") *)
        let s' := if escapes_unhandled (ver c) then stop_run s Success MNone else stop_run s Error MThreadDied in
        (s', SOk (status s') (progress s') (phase s') (msg s'))
    end
  else (s, SOk (status s) (progress s) (phase s) (msg s)).

(* Job.get_results + LocalJob._get_results *)
Definition do_get (c : cfg) (s : st) : st * gres :=
  match do_status c s with
  | (s1, SAttrErr) => (s1, GAttrErr)
  | (s1, SOk x _ _ m) =>
      if negb (maybe_completed x) then (s1, GStillRunning)
      else if conv_pending s1 then
        match results s1 with
        | Some r => if convertible (shape r) then let r' := conv r (mapp s1) in (set_results s1 (Some r') false, GValue (Some r'))
                    else (s1, if is_failed x then GJobFailed m else GNotAvailable)     (* KeyError *)
        | None => (s1, if is_failed x then GJobFailed m else GNotAvailable)           (* TypeError *)
        end
      else (s1, GValue (results s1))
  end.

Inductive mode := Sync | Async.
Inductive xres := XAccepted | XAssert | XRejected (e : perr).

(* LocalJob.execute_sync / execute_async up to and including start_run *)
Definition do_exec (c : cfg) (s : st) (m : mode) (args : list Z) (kwargs : list (Z * Z)) : st * xres :=
  match status s with
  | Waiting =>
      let s1 := match lookup N_PROGRESS_CB kwargs with Some cb => set_ucb s (Some cb) | None => s end in
      (* now: self._user_cb = kwargs.pop('progress_callback'); old code: kwargs['progress_callback'] *)
      let kwargs1 := if cb_keyword_kept (ver c) then kwargs else remove_key N_PROGRESS_CB kwargs in
      let cmd1 := dset (cmd s1) N_PROGRESS_CB (Some 0) in      (* command['progress_callback'] = self._progress_cb *)
      match handle_params (names c) cmd1 (mapp s1) args kwargs1 with
      | (c2, m2, Some e) => (set_delta s1 c2 m2, XRejected e)
      | (c2, m2, None) =>
          let s2 := start_run (set_delta s1 c2 m2) in
          let s3 := match m with Sync => set_sync s2 true | Async => set_worker (set_sync s2 false) WAlive end in
          (set_pc s3 PStart, XAccepted)
      end
  | _ => (s, XAssert)
  end.

Inductive action := AStatus | ACancel | AGet | AExec (m : mode) (args : list Z) (kwargs : list (Z * Z)) | ASetCb (c : option Z).
Inductive ev := Wk | Act (a : action).

Inductive obs :=
| ONop | OStarted | OProgress (r : resp) (invoked : bool) | OReturned | ORaised | OEscaped | OFinished | OSyncRet (g : gres)
| OStatus (v : sview) | OUnit | OGet (g : gres) | OExec (x : xres).

(* ------------------------------------------------------------------ the worker *)
Definition task_result (p : prog) (early : bool) (args : kw) : res :=
  mkres (pshape p) (if early then ppay p else pay p) args 0 []
        (if pshape p =? 1 then map (fun e => mkentry (fst e) (snd e) 0 []) (iters p) else []).

Definition finish_worker (s : st) : st :=
  if sync s then set_pc s PSyncRet else set_pc (set_worker s WDead) PDone.

Definition wk (c : cfg) (p : prog) (s : st) : st * obs :=
  match pc s with
  | PIdle | PDone => (s, ONop)
  | PStart => (* _call_fn_safe: start_run(); fn( **command ) is entered *)
      (set_pc (add_call (start_run s) (cmd s)) (PTask (steps p) false), OStarted)
  | PTask ((pr, ph) :: rest) false =>
      (* LocalJob._progress_cb: update_progress; cancel flag first, then the user's callback *)
      let s1 := set_progress s pr ph in
      let '(s2, r, invoked) :=
        if cancel s1 then (s1, RDict (Some true), false)
        else match user_cb s1 with
             | Some c => (add_cb s1 (c, pr, ph), ucb_resp c, true)
             | None => (s1, RNone, false)
             end in
      let stop := coop p && cancel_requested r in
      (set_pc s2 (if stop then PTask [] true else PTask rest false), OProgress r invoked)
  | PTask _ early =>
      if early then (set_pc (set_results s (Some (task_result p true (last (calls s) []))) (conv_pending s)) PRet, OReturned)
      else match out p with
      | ORet => (set_pc (set_results s (Some (task_result p false (last (calls s) []))) (conv_pending s)) PRet, OReturned)
      | ORaise ty m => (set_pc s (PExc ty m false), ORaised)
      | OEscape ty m rr =>
          if escapes_unhandled (ver c) then
            (* old code: not turned into a status: the thread dies / execute_sync propagates *)
            if sync s then (set_pc (set_sync_ret s GEscaped) PDone, OEscaped)
            else (set_pc (set_worker s WDead) PDone, OEscaped)
          else (set_pc s (PExc ty m rr), ORaised)              (* `except BaseException`, guarded str() *)
      end
  | PRet => (finish_worker (if cancel s then stop_run s Canceled MCancel else stop_run s Success MNone), OFinished)
  | PExc ty m rr =>
      let s1 := stop_run s Error (MErr ty m) in
      if rr then   (* `if not isinstance(e, Exception): raise` after ERROR is recorded *)
        if sync s then (set_pc (set_sync_ret s1 GEscaped) PDone, OEscaped)    (* execute_sync re-raises it *)
        else (set_pc (set_worker s1 WDead) PDone, OFinished)                  (* the thread ends with it *)
      else (finish_worker s1, OFinished)
  | PSyncRet => let (s1, g) := do_get c s in (set_pc (set_sync_ret s1 g) PDone, OSyncRet g)
  end.

Definition step (c : cfg) (p : prog) (s : st) (e : ev) : st * obs :=
  match e with
  | Wk => wk c p s
  | Act AStatus => let (s', v) := do_status c s in (s', OStatus v)
  | Act ACancel => (set_cancel s, OUnit)
  | Act AGet => let (s', g) := do_get c s in (s', OGet g)
  | Act (AExec m a k) => let (s', x) := do_exec c s m a k in (s', OExec x)
  | Act (ASetCb cb) => (set_ucb s cb, OUnit)
  end.

Fixpoint run (c : cfg) (p : prog) (s : st) (l : list ev) : st * list obs :=
  match l with
  | [] => (s, [])
  | e :: r => let (s1, o) := step c p s e in let (s2, os) := run c p s1 r in (s2, o :: os)
  end.

Definition final (c : cfg) (p : prog) (l : list ev) : st := fst (run c p (init c) l).
Definition trace (c : cfg) (p : prog) (l : list ev) : list obs := snd (run c p (init c) l).
