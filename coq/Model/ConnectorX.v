(* Executable construction programs over named processor variables (C10 correspondence). *)
From PV Require Export Model.Connector Model.SelectX.
From Coq Require Import ZArith List Bool.
Import ListNotations.
Local Open Scope nat_scope.

Definition xexp := exp QI.
Definition xtb : nat -> mat QI -> mat QI := retab (R:=QI).

(* ---- decoding ---- *)
Definition to_mkey (x : sx) : mkey :=
  match to_Z (nthx 0 x) with 0%Z => KInt (to_Z (nthx 1 x)) | _ => KName (to_nat (nthx 1 x)) end.
Definition to_mval (x : sx) : mval :=
  match to_Z (nthx 0 x) with
  | 0%Z => VInt (to_nat (nthx 1 x))
  | 1%Z => VName (to_nat (nthx 1 x))
  | _ => VList (to_nats (nthx 1 x))
  end.
Definition to_mapping (x : sx) : mapping :=
  match to_Z (nthx 0 x) with
  | 0%Z => MInt (to_Z (nthx 1 x))
  | 1%Z => MList (to_Zs (nthx 1 x))
  | _ => MDict (map (fun e => (to_mkey (nthx 0 e), to_mval (nthx 1 e))) (to_list (nthx 1 x)))
  end.
(* a flat circuit of width k: [[off, kk, U] ...] -> its matrix (C01: ordered product of the embedded leaves) *)
Definition to_block (k : nat) (x : sx) : mat QI :=
  oprodx k (map (fun e => embed (to_nat (nthx 0 e)) (to_nat (nthx 1 e)) (to_mat (nthx 2 e))) (to_list x)).

Inductive cstmt :=
| CNew (v m : nat)
| CAddComp (v : nat) (mp : mapping) (k : nat) (U : mat QI) (keep : bool)
| CAddProc (v : nat) (mp : mapping) (w : nat) (keep : bool)
| CHerald (v mode expected name : nat)
| CPort (v mode name enc size loc : nat)
| CDet (v mode d : nat)
| CSetPS (v : nat) (p : ps).

Definition to_cstmt (x : sx) : cstmt :=
  let a i := to_nat (nthx i x) in
  match to_Z (nthx 0 x) with
  | 0%Z => CNew (a 1) (a 2)
  | 1%Z => CAddComp (a 1) (to_mapping (nthx 2 x)) (a 3) (to_block (a 3) (nthx 4 x)) (to_bool (nthx 5 x))
  | 2%Z => CAddProc (a 1) (to_mapping (nthx 2 x)) (a 3) (to_bool (nthx 4 x))
  | 3%Z => CHerald (a 1) (a 2) (a 3) (a 4)
  | 4%Z => CPort (a 1) (a 2) (a 3) (a 4) (a 5) (a 6)
  | 5%Z => CDet (a 1) (a 2) (a 3)
  | _ => CSetPS (a 1) (to_ps (nthx 2 x))
  end.

(* ---- encoding ---- *)
Definition of_cmp (op : cmp) : sx :=
  I (match op with CEq => 0 | CNe => 1 | CLt => 2 | CGt => 3 | CLe => 4 | CGe => 5 end)%Z.
Fixpoint of_ps (p : ps) : sx :=
  match p with
  | PTrue => L [I 0%Z]
  | PCmp modes op k => L [I 1%Z; of_nats modes; of_cmp op; of_nat_sx k]
  | PAnd a b => L [I 2%Z; of_ps a; of_ps b]
  | POr a b => L [I 3%Z; of_ps a; of_ps b]
  | PXor a b => L [I 4%Z; of_ps a; of_ps b]
  | PNot a => L [I 5%Z; of_ps a]
  end.
Definition of_name (o : option pname) : sx :=
  match o with
  | None => L []
  | Some n => let c := name_code n in L [of_nat_sx (fst c); of_nat_sx (snd c)]
  end.
Definition of_type (t : mtype) : sx := I (match t with Photonic => 0 | HeraldT => 1 | Classical => 2 end)%Z.

Definition report (e : xexp) : sx :=
  let n := csize e in
  L [of_nat_sx (e_moi e); of_nat_sx (e_nher e); of_mat n (e_U e);
     L (map (fun h => L [of_nat_sx (fst h); of_nat_sx (snd h)]) (heralds_of (e_out e)));
     of_nats (e_dets e);
     L (map of_name (names_of n (e_in e))); L (map of_name (names_of n (e_out e)));
     match e_ps e with None => L [] | Some p => L [of_ps p] end;
     L (map of_type (e_types e));
     L (map (fun p => L [of_name (Some (p_name p)); of_nats (p_range p)]) (e_in e));
     L (map (fun p => L [of_name (Some (p_name p)); of_nats (p_range p)]) (e_out e))].

(* ---- programs ---- *)
Definition cenv := list (option xexp).
Definition cget (e : cenv) (v : nat) : option xexp := nth v e None.
Fixpoint cset (e : cenv) (v : nat) (c : xexp) : cenv :=
  match v, e with
  | O, [] => [Some c]
  | O, _ :: r => Some c :: r
  | S v', [] => None :: cset [] v' c
  | S v', x :: r => x :: cset r v' c
  end.

Definition qdelta (i j : nat) : QI := delta (R:=QI) i j.
(* the property's reading, decided exactly on the inserted segment W: light of an untouched mode stays on it and
   nothing else arrives there *)
Definition untouched_fixed (n : nat) (W : mat QI) (untouched : list nat) : bool :=
  forallb (fun u => forallb (fun i => qi_eqb (W i u) (qdelta i u) && qi_eqb (W u i) (qdelta u i)) (seq 0 n)) untouched.

Definition seg_report (cf : cfg) (nL n : nat) (W : mat QI) (user_keys : list nat) (mn : nat) (pv : list nat) (q : option ps) : sx :=
  let unt := filter (fun x => negb (mem x user_keys)) (seq 0 nL) in
  L [of_nat_sx mn; of_nats pv; of_nats user_keys; of_nats unt; of_bool (untouched_fixed n (xtb n W) unt);
     match q with None => L [] | Some p => L [of_ps (ps_code (c_ps_shift_first cf) mn pv p); of_ps (ps_right mn pv p)] end].

(* one statement: (env', accepted, segment report) *)
Definition cstep (cf : cfg) (env : cenv) (s : cstmt) : cenv * bool * sx :=
  match s with
  | CNew v m => if 0 <? m then (cset env v (new_exp m), true, L []) else (env, false, L [])
  | CAddComp v mp k U keep =>
      match cget env v with
      | Some e =>
          match add_comp xtb cf e mp k U keep with
          | (e', ok, Some (mn, pv, m)) =>
              (cset env v e', ok,
               seg_report cf (csize e) (csize e') (comp_seg (c_comp_inverse cf) (csize e') mn pv k U) (keys m) mn pv None)
          | (e', ok, None) => (cset env v e', ok, L [])
          end
      | None => (env, false, L [])
      end
  | CAddProc v mp w keep =>
      match cget env v, cget env w with
      | Some e, Some r =>
          match add_proc xtb cf e mp r keep with
          | (e', ok, Some (mn, pv, m)) =>
              (cset env v e', ok,
               seg_report cf (csize e) (csize e') (proc_step (csize e') mn pv (csize r) (e_U r))
                          (firstn (e_moi r) (keys m)) mn pv (e_ps r))
          | (e', ok, None) => (cset env v e', ok, L [])
          end
      | _, _ => (env, false, L [])
      end
  | CHerald v mode ex name =>
      match cget env v with
      | Some e => let (e', ok) := add_herald e mode ex (if name =? 0 then None else Some name) in
                  (cset env v e', ok, L [])
      | None => (env, false, L [])
      end
  | CPort v mode name enc size loc =>
      match cget env v with
      | Some e => let (e', ok) := add_port e mode name enc size loc in (cset env v e', ok, L [])
      | None => (env, false, L [])
      end
  | CDet v mode d =>
      match cget env v with
      | Some e => let (e', ok) := add_det e mode d in (cset env v e', ok, L [])
      | None => (env, false, L [])
      end
  | CSetPS v p =>
      match cget env v with
      | Some e => (cset env v (set_ps e p), true, L [])
      | None => (env, false, L [])
      end
  end.

Definition cstmt_target (s : cstmt) : nat :=
  match s with
  | CNew v _ | CAddComp v _ _ _ _ | CAddProc v _ _ _ | CHerald v _ _ _ | CPort v _ _ _ _ _ | CDet v _ _ | CSetPS v _ => v
  end.
Fixpoint crun (cf : cfg) (env : cenv) (p : list cstmt) : list sx :=
  match p with
  | [] => []
  | s :: r =>
      match cstep cf env s with
      | (env', ok, seg) =>
          L [of_bool ok; match cget env' (cstmt_target s) with Some e => L [report e] | None => L [] end; seg]
          :: crun cf env' r
      end
  end.
(* the code as it is now *)
Definition x_conn_run (x : sx) : sx := L (crun cfg_now [] (map to_cstmt (to_list x))).
(* the code before the fix commits 7bb2f795, c0ab6b50, 2ff1ae25 *)
Definition x_conn_run_old (x : sx) : sx := L (crun cfg_old [] (map to_cstmt (to_list x))).

(* args: ps, m, nmax -> value on every state of m modes with 0..nmax photons (FSArray order per photon number) *)
Definition x_ps_eval_all (x : sx) : sx :=
  let p := to_ps (nthx 0 x) in let m := to_nat (nthx 1 x) in
  L (flat_map (fun k => map (fun t => of_bool (ps_eval p t)) (allstates m k)) (seq 0 (S (to_nat (nthx 2 x))))).

(* args: mapping (resolved dict as [[k, v] ...]) -> [min, perm_vect, is_perm, inverse] *)
Definition x_gen_perm (x : sx) : sx :=
  let m := map (fun e => (to_nat (nthx 0 e), to_nat (nthx 1 e))) (to_list x) in
  let pv := perm_vect m in
  L [of_nat_sx (lmin (keys m)); of_nats pv; of_bool (is_perm pv); of_nats (invert pv)].
