(* C15 - field-level model of perceval/serialization: the hand-written serialise / deserialise pairs.

   A protobuf message is modelled as a record / constructor whose fields always have a value (proto3: an unset scalar
   reads as 0 / "" / false, an unset sub-message reads as the default instance, a oneof records which member is set).
   Strings are lists of character codes ([] is the empty, falsy string).  protobuf's byte encoding, base64, zlib (the
   ":PCVL:zip:" wrapper is a flag), json and the native BasicState / PostSelect printers and parsers are outside the
   model: a Fock state is its canonical text together with the two attributes the Python code branches on.
   Numbers: doubles are exact rationals (binary protobuf fields are exact); the text forms go through [sf], the model of
   simple_float(x, nsimplify=False) (perceval/utils/format.py), i.e. rounding to the 1e-6 grid. *)
From PV Require Export Lib.Sx.
From Coq Require Import Qround Qabs.
Import ListNotations.
Local Open Scope Z_scope.

Definition str := list Z.
Definition str_eqb (a b : str) : bool := if list_eq_dec Z.eq_dec a b then true else false.
Definition truthy (s : str) : bool := match s with [] => false | _ => true end.
Definition Qc_eqb (a b : Qc) : bool := if Qc_eq_dec a b then true else false.
Definition len {A} (l : list A) : Z := Z.of_nat (length l).
Definition is_nil {A} (l : list A) : bool := match l with [] => true | _ => false end.
Fixpoint lookup {A} (n : str) (k : list (str * A)) : option A :=
  match k with [] => None | (m, a) :: r => if str_eqb n m then Some a else lookup n r end.
Fixpoint zlookup {A} (i : Z) (k : list (Z * A)) : option A :=
  match k with [] => None | (j, a) :: r => if i =? j then Some a else zlookup i r end.

(* ------------------------------------------------------------------------------------------------------------------
   simple_float(alpha, precision=1e-6, nsimplify=False): |alpha| is scaled by 10 until >= 1 (mult10 steps); when
   mult10 <= 3 the scaling is undone and the value is rounded to the absolute 1e-6 grid, otherwise the mantissa is
   rounded to 1e-6 and "e-<mult10>" is appended.  np.round is round-half-to-even. *)
Definition round_he (q : Q) : Z :=
  let f := Qfloor q in
  match Qcompare (q - inject_Z f) (1 # 2) with
  | Lt => f | Gt => f + 1 | Eq => if Z.even f then f else f + 1
  end.
Fixpoint scale10 (fuel : nat) (a : Q) : nat :=
  match fuel with O => O | S f => if Qle_bool 1 a then O else S (scale10 f (a * 10)) end.
Definition pow10 (k : nat) : Q := inject_Z (10 ^ Z.of_nat k).
Definition sfQ (q : Q) : Q :=
  let a := Qabs q in
  if Qeq_bool a 0 then 0%Q else
  let k := scale10 (S (Pos.size_nat (Qden a))) a in
  let k' := if (k <=? 3)%nat then O else k in
  let g := pow10 (6 + k') in
  let r := (inject_Z (round_he (a * g)) / g)%Q in
  if Qle_bool 0 q then r else (- r)%Q.
Definition sf (q : Qc) : Qc := Q2Qc (sfQ q).

(* ------------------------------------------------------------------------------------------------------------------
   Parameters (_parameter_serialization.py) *)
Inductive param :=
| PFix (v : Qc)                                   (* a float or a fixed Parameter (_symbol is None) *)
| PVar (n : str) (v : option Qc)                  (* a variable Parameter, possibly with a current value *)
| PExpr (e : str) (subs : list (str * option Qc)). (* an Expression: text e = str(_symbol), sub-parameters sorted by name *)

Inductive wptype := WNone | WReal (v : Qc) | WSymbol (s : str) | WExpression (s : str).  (* oneof type *)
Record wleaf := mkwleaf { wl_type : wptype; wl_name : str }.
Record wparam := mkwparam { wp_type : wptype; wp_name : str; wp_subs : list wleaf }.
Definition wp_unset := mkwparam WNone [] [].

Definition is_some {A} (o : option A) : bool := match o with Some _ => true | None => false end.
Definition all_defined (subs : list (str * option Qc)) : bool := forallb (fun nv => is_some (snd nv)) subs.
Definition paren (e : str) : str := 40 :: e ++ [41].

(* Which repairs of /repo the model follows.  [cfg_now] is the code as it is; [cfg_old] is the code before the fix:
   commits 43c33bac (filter 0), 3f873560 (Unitary name / polarisation), 59614844 (detector `compress` keyword),
   1cc940de (`params or dict()`), fde9e721 (symbolic matrix order), a50865fb (an expression whose parameters all hold values
   is written as an expression), da9c4799 (an expression met again is the same object), kept so that the historical
   witnesses still compile. *)
Record cfg := mkcfg { fix_filter : bool; fix_unitary : bool; fix_detkw : bool; fix_table : bool; fix_symm : bool;
                      fix_expr_defined : bool; fix_expr_shared : bool }.
Definition cfg_now : cfg := mkcfg true true true true true true true.
Definition cfg_old : cfg := mkcfg false false false false false false false.

Section Codec.
Variable cf : cfg.
(* float(expression) when every sub-parameter has a value: sympy's evaluation is outside the model *)
Variable ev : str -> Qc.

Definition enc_leaf (nv : str * option Qc) : wleaf :=
  match snd nv with
  | Some v => mkwleaf (WReal v) (fst nv)          (* name = str(_symbol); defined -> real_value *)
  | None => mkwleaf (WSymbol (fst nv)) (fst nv)   (* neither value nor expression -> symbol *)
  end.
Definition enc_param (p : param) : wparam :=
  match p with
  | PFix v => mkwparam (WReal v) [] []
  | PVar n v => let l := enc_leaf (n, v) in mkwparam (wl_type l) (wl_name l) []
  | PExpr e subs =>
      (* now `_is_expression` is tested first (a50865fb); before, `if param.defined` came first and an expression whose
         parameters all hold a value was written as the named real value float(expression) *)
      if negb (fix_expr_defined cf) && all_defined subs then mkwparam (WReal (ev e)) e []
      else mkwparam (WExpression (paren e)) e (map enc_leaf subs)
  end.

(* A deserialised Parameter object: identity = (the name table that created it, its name) + its current value.
   A name table (`known_params`) is identified by the path of the circuit node whose CircuitBuilder created it. *)
Definition scope := list nat.
Definition pobj := (scope * str * option Qc)%type.
Definition o_scope (o : pobj) : scope := fst (fst o).
Definition o_name (o : pobj) : str := snd (fst o).
Definition o_val (o : pobj) : option Qc := snd o.
(* known_params holds Parameter objects and, since da9c4799, Expression objects (identity = creating table + text) *)
Inductive tobj := TParam (o : pobj) | TExpr (sc : scope) (e : str) (subs : list pobj).
Definition table := list (str * tobj).
Inductive dparam := DFix (v : Qc) | DVar (o : pobj) | DExpr (sc : scope) (e : str) (subs : list pobj) | DSym (e : str) | DNone.
Definition d_of_tobj (t : tobj) : dparam := match t with TParam o => DVar o | TExpr sc e subs => DExpr sc e subs end.

(* deserialize_parameter on a message without expr_parameters; None = an exception *)
Definition dec_leaf (sc : scope) (t : wptype) (name : str) (k : table) : option (dparam * table) :=
  match t with
  | WReal v =>
      if truthy name then
        match lookup name k with
        | Some (TParam (s', n', Some v')) => if Qc_eqb v' v then Some (DVar (s', n', Some v'), k) else None  (* "multiple values" *)
        | Some (TParam (_, _, None)) => None                                                      (* float(None) *)
        | Some (TExpr _ _ _) => None       (* an expression registered under a parameter's name: float(expression), not modelled *)
        | None => let o := (sc, name, Some v) in Some (DVar o, (name, TParam o) :: k)
        end
      else Some (DFix v, k)
  | WSymbol s =>
      match lookup s k with
      | Some t => Some (d_of_tobj t, k)
      | None => let o := (sc, s, None) in Some (DVar o, (name, TParam o) :: k)     (* known_params[serial_param.name] = p *)
      end
  | WExpression e => Some (DSym e, k)                                       (* sp.S(expression) *)
  | WNone => Some (DNone, k)                                                (* falls through: returns None *)
  end.
Fixpoint dec_subs (sc : scope) (ws : list wleaf) (k : table) : option (list pobj * table) :=
  match ws with
  | [] => Some ([], k)
  | w :: r =>
      match dec_leaf sc (wl_type w) (wl_name w) k with
      | Some (DVar o, k1) =>
          match dec_subs sc r k1 with Some (os, k2) => Some (o :: os, k2) | None => None end
      | _ => None                       (* Expression(name, {a float / a sympy object}) raises *)
      end
  end.
Definition dec_param (sc : scope) (w : wparam) (k : table) : option (dparam * table) :=
  match wp_type w, wp_subs w with
  | WExpression _, ((_ :: _) as subs) =>
      match (if fix_expr_shared cf then lookup (wp_name w) k else None) with
      | Some t => Some (d_of_tobj t, k)                     (* `if serial_param.name in known_params: return ...` (da9c4799) *)
      | None =>
          match dec_subs sc subs k with
          | Some (os, k') =>                                (* Expression(serial_param.name, internal_params) *)
              Some (DExpr sc (wp_name w) os,
                    if fix_expr_shared cf then (wp_name w, TExpr sc (wp_name w) os) :: k' else k')
          | None => None
          end
      end
  | t, _ => dec_leaf sc t (wp_name w) k
  end.
Fixpoint dec_params (sc : scope) (ws : list wparam) (k : table) : option (list dparam * table) :=
  match ws with
  | [] => Some ([], k)
  | w :: r =>
      match dec_param sc w k with
      | Some (d, k1) => match dec_params sc r k1 with Some (ds, k2) => Some (d :: ds, k2) | None => None end
      | None => None
      end
  end.

(* ------------------------------------------------------------------------------------------------------------------
   Matrices (_matrix_serialization.py).  A matrix is the list of its rows: the memory layout of the numpy array (C order,
   a transposed view, a strided slice) is not an input of the model's writer, which emits the entries row by row, as the
   code does since 285a4d3c (`np.nditer(m, order="C")`; before, `np.nditer(m)` walked an F-ordered array column-major). *)
Inductive matrix := MNum (rows : list (list qi)) | MSym (rows : list (list str)).
Inductive wmdata := WMNum (d : list qi) | WMSym (d : list str).   (* oneof data; symbolic = Parameter{expression} *)
Record wmat := mkwmat { wm_rows : Z; wm_cols : Z; wm_data : wmdata }.
Definition ncols {A} (m : list (list A)) : Z := match m with [] => 0 | r :: _ => len r end.
Definition transpose (m : list (list str)) : list (list str) :=
  map (fun j => map (fun r => nth j r []) m) (seq 0 (Z.to_nat (ncols m))).
Definition enc_mat (m : matrix) : wmat :=
  match m with
  | MNum r => mkwmat (len r) (ncols r) (WMNum (concat r))
  | MSym r => mkwmat (len r) (ncols r)
                (WMSym (if fix_symm cf then concat r                 (* row-major, as it is read back (fde9e721) *)
                        else concat (transpose r)))                  (* old: `for x in m.vec()`, sympy stacks COLUMNS *)
  end.
(* the loop of _deserialize_numeric: row.append(x); if len(row) == ncols: array.append(row); row = [] *)
Fixpoint chunk {A} (nc : Z) (row : list A) (d : list A) : list (list A) :=
  match d with
  | [] => []
  | x :: r => let row' := row ++ [x] in if len row' =? nc then row' :: chunk nc [] r else chunk nc row' r
  end.
Definition dec_mat (w : wmat) : option matrix :=
  match wm_data w with
  | WMNum d => if len d =? wm_rows w * wm_cols w then Some (MNum (chunk (wm_cols w) [] d)) else None
  | WMSym d => if len d =? wm_rows w * wm_cols w then Some (MSym (chunk (wm_cols w) [] d)) else None
  end.

(* ------------------------------------------------------------------------------------------------------------------
   Components and circuits (_circuit_serialization.py, _component_deserialization.py, deserialize.py: CircuitBuilder) *)
Inductive lkind := KBS (conv : Z) | KPS | KWP | KHWP | KQWP | KPR | KTD | KLC.   (* conv: 0 Rx, 1 Ry, 2 H *)
Inductive comp :=
| CLeaf (k : lkind) (ps : list param)            (* parameters in field order *)
| CPerm (p : list Z)
| CUnit (u : list (list qi)) (name : str) (pol : bool)
| CPBS
| CBarrier (m : Z) (visible : bool)
| CSub (name : str) (m : Z) (items : list (Z * comp)).

Definition CPLX : str := [67; 80; 76; 88].
Definition UNITARY : str := [85; 110; 105; 116; 97; 114; 121].
Definition kwidth (k : lkind) : Z := match k with KBS _ => 2 | _ => 1 end.
Definition arity (k : lkind) : nat := match k with KBS _ => 5%nat | KPS => 2%nat | KWP => 2%nat | _ => 1%nat end.
Definition width (c : comp) : Z :=
  match c with
  | CLeaf k _ => kwidth k | CPerm p => len p | CUnit u _ pol => if pol then len u / 2 else len u
  | CPBS => 2 | CBarrier m _ => m | CSub _ m _ => m
  end.

Inductive wcomp :=       (* pb.Component: starting_mode, n_mode, oneof type *)
| WLeaf (start nmode : Z) (k : lkind) (ps : list wparam)
| WPerm (start nmode : Z) (p : list Z)
| WUnit (start nmode : Z) (u : wmat) (name : str) (pol : bool)
| WPBS (start nmode : Z)
| WBarrier (start nmode : Z) (visible : bool)
| WSub (start nmode : Z) (name : str) (n_mode : Z) (items : list wcomp).

Definition conv_code (c : Z) : Z := if c =? 2 then 2 else if c =? 1 then 1 else 0.   (* both _convert_bs_convention *)
Definition wkind (k : lkind) : lkind := match k with KBS c => KBS (conv_code c) | k => k end.
(* Parameter.__bool__: is_variable or float(self) != 0 *)
Definition param_truthy (p : param) : bool := match p with PFix v => negb (Qc_eqb v 0) | _ => true end.
Definition enc_kind (k : lkind) (ps : list param) : list wparam :=
  match k, ps with
  | KPS, [phi; me] => [enc_param phi; if param_truthy me then enc_param me else wp_unset]  (* `if ps._max_error:` *)
  | _, _ => map enc_param ps
  end.
Fixpoint enc_comp (start : Z) (c : comp) : wcomp :=
  match c with
  | CLeaf k ps => WLeaf start (kwidth k) (wkind k) (enc_kind k ps)
  | CPerm p => WPerm start (len p) p
  | CUnit u name pol =>
      WUnit start (width c) (enc_mat (MNum u)) (if str_eqb name UNITARY then [] else name) pol
  | CPBS => WPBS start 2
  | CBarrier m v => WBarrier start m v
  | CSub name m items =>
      WSub start m (if str_eqb name CPLX then [] else name) m
        (map (fun oc => match oc with (o, c') => enc_comp o c' end) items)
  end.

Inductive dcomp :=
| DLeaf (k : lkind) (ps : list dparam)
| DPerm (p : list Z)
| DUnit (u : list (list qi)) (name : str) (pol : bool)
| DPBS
| DBarrier (m : Z) (visible : bool)
| DSub (name : str) (m : Z) (items : list (Z * dcomp)).

Definition dwidth (d : dcomp) : Z :=
  match d with
  | DLeaf k _ => kwidth k | DPerm p => len p | DUnit u _ pol => if pol then len u / 2 else len u
  | DPBS => 2 | DBarrier m _ => m | DSub _ m _ => m
  end.
Definition is_circuit (d : dcomp) : bool := match d with DLeaf KTD _ | DLeaf KLC _ => false | _ => true end.
Definition pvars (d : dparam) : list pobj := match d with DVar o => [o] | DExpr _ _ os => os | _ => [] end.
Fixpoint dvars (d : dcomp) : list pobj :=
  match d with
  | DLeaf _ ps => flat_map pvars ps
  | DSub _ _ items => flat_map (fun oc => match oc with (_, c) => dvars c end) items
  | _ => []
  end.
Definition scope_eqb (a b : scope) : bool := if list_eq_dec Nat.eq_dec a b then true else false.
(* Circuit.add: "two parameters with the same name in the circuit" *)
Definition compat (acc : list pobj) (o : pobj) : bool :=
  forallb (fun o' => if str_eqb (o_name o) (o_name o') then scope_eqb (o_scope o) (o_scope o') else true) acc.
(* all assertions of the successive Circuit.add(start, component, merge=False) calls of the builder *)
Fixpoint build (m : Z) (items : list (Z * dcomp)) (acc : list pobj) : bool :=
  match items with
  | [] => true
  | (s, d) :: r =>
      is_circuit d && (0 <=? s) && (0 <? dwidth d) && (s + dwidth d <=? m) && forallb (compat acc) (dvars d)
      && build m r (acc ++ dvars d)
  end.

Definition start_of (w : wcomp) : Z :=
  match w with
  | WLeaf s _ _ _ | WPerm s _ _ | WUnit s _ _ _ _ | WPBS s _ | WBarrier s _ _ | WSub s _ _ _ _ => s
  end.
Definition dec_items (dec : nat -> wcomp -> table -> option (dcomp * table))
  : nat -> list wcomp -> table -> option (list (Z * dcomp) * table) :=
  fix go (pos : nat) (ws : list wcomp) (k : table) {struct ws} :=
  match ws with
  | [] => Some ([], k)
  | w :: r =>
      match dec pos w k with
      | Some (d, k1) =>
          match go (S pos) r k1 with
          | Some (ds, k2) => Some ((start_of w, d) :: ds, k2)
          | None => None
          end
      | None => None
      end
  end.
Definition dec_kind (sc : scope) (kd : lkind) (ws : list wparam) (k : table) : option (list dparam * table) :=
  match kd, ws with
  | KPS, [phi; me] =>                     (* deserialize_ps reads max_error first; None -> PS(phi) -> max_error = 0 *)
      match dec_param sc me k with
      | Some (dme, k1) =>
          match dec_param sc phi k1 with
          | Some (dphi, k2) => Some ([dphi; match dme with DNone => DFix 0 | d => d end], k2)
          | None => None
          end
      | None => None
      end
  | _, _ => dec_params sc ws k
  end.
(* the component constructor's _set_parameter: "two parameters with the same name in the circuit".  Leaf parameters come
   from the name table (one object per name) but every Expression message is rebuilt as a NEW object *)
Definition expr_ids (ds : list dparam) : list (scope * str) :=
  flat_map (fun d => match d with DExpr sc e _ => [(sc, e)] | _ => [] end) ds.
Definition expr_names (ds : list dparam) : list str := map snd (expr_ids ds).
Fixpoint nodupb (l : list str) : bool :=
  match l with [] => true | x :: r => negb (existsb (str_eqb x) r) && nodupb r end.
(* two Expression objects of one name in one component raise; since da9c4799 a repeated expression is ONE object (same
   table, same text), before it every Expression message was a new object *)
Definition exprs_ok (ds : list dparam) : bool :=
  if fix_expr_shared cf then
    forallb (fun x => forallb (fun y => if str_eqb (snd x) (snd y) then scope_eqb (fst x) (fst y) else true) (expr_ids ds))
            (expr_ids ds)
  else nodupb (expr_names ds).
(* CircuitBuilder.deserialize + deserialize_circuit.  [path] = position of this node in the tree (innermost first),
   [sc] = identity of the name table in use, [k] its content.  Now `params if params is not None else dict()`: a nested
   builder always shares the caller's table.  Before 1cc940de it was `params or dict()`: an EMPTY table given by the
   caller was replaced by a fresh one that the caller never saw. *)
Fixpoint dec_comp (path : list nat) (sc : scope) (w : wcomp) (k : table) {struct w} : option (dcomp * table) :=
  match w with
  | WLeaf _ _ kd ps =>
      match dec_kind sc kd ps k with
      | Some (ds, k') => if exprs_ok ds then Some (DLeaf (wkind kd) ds, k') else None
      | None => None
      end
  | WPerm _ _ p => Some (DPerm p, k)
  | WUnit _ _ u name pol =>
      match dec_mat u with
      | Some (MNum m) =>
          if fix_unitary cf then       (* Unitary(U=m, name=serial.name or None, use_polarization=serial.use_polarization) *)
            if pol && negb (Z.even (len m)) then None          (* "Polarization matrix should have an even number of rows" *)
            else Some (DUnit m (if truthy name then name else UNITARY) pol, k)
          else Some (DUnit m UNITARY false, k)                 (* old: comp.Unitary(U=m), name and use_polarization unread *)
      | _ => None
      end
  | WPBS _ _ => Some (DPBS, k)
  | WBarrier _ nm v => Some (DBarrier nm v, k)
  | WSub _ _ name n_mode items =>
      let priv := negb (fix_table cf) && is_nil k in      (* old: `params or dict()` replaced an EMPTY table by a private one *)
      let sc' := if priv then path else sc in
      match dec_items (fun pos w' k' => dec_comp (pos :: path) sc' w' k') 0 items k with
      | Some (ds, k') =>
          if build n_mode ds [] then Some (DSub (if truthy name then name else CPLX) n_mode ds, if priv then [] else k')
          else None
      | None => None
      end
  end.

(* serialize_circuit wraps a non-Circuit in Circuit(m).add(0, c); deserialize_circuit(pb, known_params=None) *)
Definition wrap (c : comp) : comp := match c with CSub _ _ _ => c | _ => CSub CPLX (width c) [(0, c)] end.
Definition enc_circuit (c : comp) : wcomp := enc_comp 0 (wrap c).
Definition dec_circuit (w : wcomp) : option dcomp :=
  match w with WSub _ _ _ _ _ => option_map fst (dec_comp [] [] w []) | _ => None end.
(* serialize_component / deserialize_component (COMPONENT_TAG) *)
Definition dec_component (w : wcomp) : option dcomp := option_map fst (dec_comp [] [] w []).

(* the expected image: every Parameter object lives in the one root table *)
Definition inj_obj (nv : str * option Qc) : pobj := ([], fst nv, snd nv).
Definition inj_param (p : param) : dparam :=
  match p with PFix v => DFix v | PVar n v => DVar (inj_obj (n, v)) | PExpr e subs => DExpr [] e (map inj_obj subs) end.
Fixpoint inj (c : comp) : dcomp :=
  match c with
  | CLeaf k ps => DLeaf (wkind k) (map inj_param ps)
  | CPerm p => DPerm p
  | CUnit u n pol => DUnit u n pol
  | CPBS => DPBS
  | CBarrier m v => DBarrier m v
  | CSub n m items => DSub n m (map (fun oc => match oc with (o, c') => (o, inj c') end) items)
  end.

(* ------------------------------------------------------------------------------------------------------------------
   States, distributions, samples (_state_serialization.py, serialize.py, deserialize.py) *)
Record bstate := mkbs { bs_txt : str; bs_m : Z; bs_pol : bool }.
Definition bs_eqb (a b : bstate) : bool := str_eqb (bs_txt a) (bs_txt b) && (bs_m a =? bs_m b) && Bool.eqb (bs_pol a) (bs_pol b).
Definition svec := list (Qc * Qc * bstate).                   (* (re, im, state) terms of a normalised state vector *)
Definition svd := list (svec * Qc).
Definition enc_sv (v : svec) : svec := map (fun t => match t with (r, i, b) => (sf r, sf i, b) end) v.
Definition enc_svd (d : svd) : svd := map (fun e => (enc_sv (fst e), sf (snd e))) d.
Definition enc_bsd (d : list (bstate * Qc)) : list (bstate * Qc) := map (fun e => (fst e, sf (snd e))) d.

(* serialize_bssamples: first-occurrence table + index list *)
Fixpoint index_of (b : bstate) (l : list bstate) : option nat :=
  match l with [] => None | x :: r => if bs_eqb b x then Some O else option_map S (index_of b r) end.
Fixpoint enc_bss_go (l : list bstate) (keys : list bstate) (order : list Z) : list bstate * list Z :=
  match l with
  | [] => (keys, order)
  | b :: r =>
      match index_of b keys with
      | Some i => enc_bss_go r keys (order ++ [Z.of_nat i])
      | None => enc_bss_go r (keys ++ [b]) (order ++ [len keys])
      end
  end.
Definition enc_bss (l : list bstate) : list bstate * list Z := enc_bss_go l [] [].
Fixpoint dec_bss_go (keys : list bstate) (order : list Z) : option (list bstate) :=
  match order with
  | [] => Some []
  | i :: r =>
      if (0 <=? i) && (i <? len keys) then                         (* bs_set[index] *)
        match nth_error keys (Z.to_nat i), dec_bss_go keys r with
        | Some b, Some l => Some (b :: l) | _, _ => None
        end
      else None
  end.
Definition dec_bss (w : list bstate * list Z) : option (list bstate) :=
  if is_nil (fst w) then Some [] else dec_bss_go (fst w) (snd w).    (* `if not parts[0]` *)

(* sparse / dense maps: NoiseModel.__dict__ keeps the non-default entries, the experiment keeps the modes with a detector *)
Fixpoint sparse {A} (i : Z) (l : list (option A)) : list (Z * A) :=
  match l with [] => [] | Some a :: r => (i, a) :: sparse (i + 1) r | None :: r => sparse (i + 1) r end.
Fixpoint dense {A} (n : nat) (i : Z) (s : list (Z * A)) : list (option A) :=
  match n with O => [] | S n' => zlookup i s :: dense n' (i + 1) s end.
Definition noise := list (option Qc).        (* brightness, indistinguishability, g2, g2_distinguishable, transmittance,
                                                phase_imprecision, phase_error; None = default *)
Definition enc_noise (n : noise) : list (Z * Qc) := sparse 0 n.
Definition dec_noise (w : list (Z * Qc)) : noise := dense 7 0 w.

(* ------------------------------------------------------------------------------------------------------------------
   Detectors, ports, heralds (_detector_serialization.py, _circuit_serialization.py, _port_deserialization.py) *)
Record detector := mkdet { d_name : str; d_wires : option Z; d_max : option Z }.   (* name, _wires, _max *)
Inductive idetector := IDet (d : detector) | IPPNR (name : str) (layers : Z) (r : Qc).
Record wdet := mkwdet { wd_name : str; wd_wires : Z; wd_max : Z }.
Inductive widet := WIDet (d : wdet) | WIPPNR (name : str) (layers : Z) (r : Qc).
Definition oz (o : option Z) : Z := match o with Some z => z | None => 0 end.      (* `if x is not None: pb.f = x` *)
Definition or_none (z : Z) : option Z := if z =? 0 then None else Some z.          (* `pb.f or None` *)
Definition enc_det (d : detector) : wdet := mkwdet (d_name d) (oz (d_wires d)) (oz (d_max d)).
(* Detector(n_wires, max_detections): None = an assertion fails *)
Definition mk_detector (name : str) (w mx : option Z) : option detector :=
  match w, mx with
  | None, _ => Some (mkdet name None None)
  | Some n, None => if 0 <? n then Some (mkdet name (Some n) (Some n)) else None
  | Some n, Some x => if (0 <? n) && (x <=? n) then Some (mkdet name (Some n) (Some (Z.min x n))) else None
  end.
Definition dec_det (w : wdet) : option detector := mk_detector (wd_name w) (or_none (wd_wires w)) (or_none (wd_max w)).
Definition enc_idet (d : idetector) : widet := match d with IDet d => WIDet (enc_det d) | IPPNR n l r => WIPPNR n l r end.
Definition dec_idet (w : widet) : option idetector :=
  match w with
  | WIDet d => option_map IDet (dec_det d)
  | WIPPNR n l r => if (0 <? l) && Qle_bool 0 r && Qle_bool r 1 then Some (IPPNR n l r) else None
  end.

Inductive aport := APort (name : str) (enc : Z) | AHerald (value : Z) (uname : option str).  (* uname = user_given_name *)
Inductive waport := WPort (name : str) (enc : Z) | WHerald (autogen : bool) (name : str) (value : Z).
Definition enc_aport (p : aport) : waport :=
  match p with
  | APort n e => WPort n e
  | AHerald v None => WHerald true [] v
  | AHerald v (Some n) => WHerald false n v
  end.
Definition dec_aport (w : waport) : aport :=
  match w with
  | WPort n e => APort n e
  | WHerald ag n v => AHerald v (if ag then None else if truthy n then Some n else None)
  end.
Definition is_herald (p : aport) : bool := match p with AHerald _ _ => true | _ => false end.
(* Autogenerated herald names.  add_herald(mode, expected, None) names the herald "herald<k>", k = the number of anonymous
   heralds added before it (`_anon_herald_num`).  The number is not serialised; ExperimentBuilder.deserialize_ports re-adds
   the input heralds in increasing mode order ("Sorted needed for the heralds autogenerated names"), so after a round trip
   an anonymous herald carries its RANK among the anonymous input heralds, whatever order they were added in. *)
Definition is_anon (p : aport) : bool := match p with AHerald _ None => true | _ => false end.
Definition auto_numbers (pin : list (Z * aport)) : list (Z * Z) :=
  let an := filter (fun mp => is_anon (snd mp)) pin in
  map (fun mp => (fst mp, len (filter (fun mp' => fst mp' <? fst mp) an))) an.

(* ------------------------------------------------------------------------------------------------------------------
   Experiments (_experiment_serialization.py, deserialize.py: ExperimentBuilder) *)
Inductive input := InBS (b : bstate) | InSVD (d : svd).
Record experiment := mkexp {
  e_name : str; e_moi : Z; e_nher : Z;                 (* name, _n_moi, _n_heralds: circuit_size = _n_moi + _n_heralds *)
  e_input : option input; e_noise : option noise; e_filter : option Z; e_post : option str;
  e_in : list (Z * aport); e_out : list (Z * aport);   (* first mode -> port *)
  e_dets : list (option idetector); e_comps : list (Z * comp);
  e_hnum : list (Z * Z) }.                              (* mode -> k for the input heralds named "herald<k>" *)
Record wexp := mkwexp {
  we_input : option input; we_name : str; we_noise : option (list (Z * Qc)); we_post : option str; we_nmode : Z;
  we_filter : Z; we_in : list (Z * waport); we_out : list (Z * waport); we_dets : list (Z * widet);
  we_comps : list wcomp }.
Definition VALUE_NOT_SET : Z := 268435455.
Definition enc_filter (f : option Z) : Z :=
  match f with
  | Some n => if negb (fix_filter cf) && (n =? 0) then VALUE_NOT_SET else n   (* now `is not None`; old: `if ...filter:` *)
  | None => VALUE_NOT_SET
  end.
Definition enc_input (i : input) : input := match i with InBS b => InBS b | InSVD d => InSVD (enc_svd d) end.
Definition enc_exp (e : experiment) : wexp :=
  mkwexp (option_map enc_input (e_input e)) (e_name e) (option_map enc_noise (e_noise e)) (e_post e)
    (e_moi e + e_nher e) (enc_filter (e_filter e))
    (map (fun mp => (fst mp, enc_aport (snd mp))) (e_in e)) (map (fun mp => (fst mp, enc_aport (snd mp))) (e_out e))
    (sparse 0 (map (option_map enc_idet) (e_dets e)))
    (map (fun oc => enc_comp (fst oc) (snd oc)) (e_comps e)).

Record dexp := mkdexp {
  de_name : option str; de_moi : Z; de_nher : Z;
  de_input : option input; de_noise : option noise; de_filter : option Z; de_post : option str;
  de_in : list (Z * aport); de_out : list (Z * aport);
  de_dets : list (option idetector); de_comps : list (Z * dcomp); de_hnum : list (Z * Z) }.

Definition sv_sizes_ok (n : Z) (d : svd) : bool :=
  forallb (fun e => forallb (fun t => bs_m (snd t) =? n) (fst e)) d.
Definition dec_input (n : Z) (i : input) : option input :=
  match i with
  | InBS b => if bs_pol b then Some (InBS b)                       (* with_polarized_input: no check *)
              else if bs_m b =? n then Some (InBS b) else None     (* check_input: len(input) == self.m *)
  | InSVD d => if sv_sizes_ok n d then Some (InSVD d) else None
  end.
Fixpoint seq_opt {A} (l : list (option A)) : option (list A) :=
  match l with
  | [] => Some []
  | Some a :: r => match seq_opt r with Some l' => Some (a :: l') | None => None end
  | None :: _ => None
  end.
Definition dec_dets (n : Z) (w : list (Z * widet)) : option (list (option idetector)) :=
  if forallb (fun iw => (0 <=? fst iw) && (fst iw <? n)) w then                 (* detectors[i] = ... *)
    match seq_opt (map (fun iw => option_map (fun d => (fst iw, d)) (dec_idet (snd iw))) w) with
    | Some s => Some (dense (Z.to_nat n) 0 s)
    | None => None
    end
  else None.
Definition herald_ok (mp : Z * aport) : bool :=
  match snd mp with AHerald v _ => (v =? 0) || (v =? 1) | _ => true end.          (* add_herald: expected in {0, 1} *)
Definition exp_fits (n : Z) (sd : Z * dcomp) : bool := (0 <=? fst sd) && (fst sd + dwidth (snd sd) <=? n).
Definition dec_exp (w : wexp) : option dexp :=
  let n := we_nmode w in
  match (match we_input w with Some i => option_map Some (dec_input n i) | None => Some None end),
        dec_dets n (we_dets w),
        dec_items (fun pos w' k' => dec_comp [pos] [] w' k') 0 (we_comps w) [] with
  | Some inp, Some dets, Some (comps, _) =>
      let pin := map (fun mp => (fst mp, dec_aport (snd mp))) (we_in w) in
      let pout := map (fun mp => (fst mp, dec_aport (snd mp))) (we_out w) in
      let her := filter (fun mp => is_herald (snd mp)) pin in
      if forallb herald_ok her && forallb (exp_fits n) comps then
        Some (mkdexp (if truthy (we_name w) then Some (we_name w) else None)
                (n - len her) (len her) inp (option_map dec_noise (we_noise w))
                (if we_filter w =? VALUE_NOT_SET then None else Some (we_filter w)) (we_post w)
                pin (her ++ filter (fun mp => negb (is_herald (snd mp))) pout)   (* output heralds are skipped *)
                dets comps (auto_numbers pin))
      else None
  | _, _, _ => None
  end.
End Codec.
