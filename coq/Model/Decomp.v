(* Triangular unitary decomposition (perceval/utils/algorithms/decomposition.py: decompose_triangle,
   add_phases; perceval/components/linear_circuit.py: Circuit.decomposition, Circuit.inverse).
   The numerical root finder (solve.py, L-BFGS-B from random starts) is an ORACLE: a Section variable with
   its own threaded state (its random source), answering a cell with an instantiated block or nothing. *)
From PV Require Export Lib.Tab.

Section Decomp.
Variable R : cring.
Notation mat := (mat R).

(* an instantiated building block: its 2x2 matrix cU(params) and the matrix cU_inv(params) the code
   left-multiplies the residual with (sympy's symbolic inverse evaluated at the solved parameters) *)
Record blk := mkblk { b_mat : mat; b_inv : mat }.

Inductive item :=
| IBlock (n : nat) (b : blk)        (* ((n, n+1), instantiated_component) *)
| IPerm (n k : nat)                 (* (range(n, k+1), permutation([k-n, 1, ..., k-n-1, 0])) *)
| IPhase (idx : nat) (d : R).       (* (idx, phase_shifter_fn(arg d)): matrix entry exp(i arg d) = d/|d| *)

(* the vector handed to `permutation(p)`: p = [0, 1, .., w] with p[0] = w and p[-1] = 0  (w = k - n) *)
Definition perm_list (w : nat) : list nat := w :: seq 1 (w - 1) ++ [0%nat].
Definition perm_fn (w : nat) (j : nat) : nat := nth j (perm_list w) 0%nat.

Definition swapf (a b i : nat) : nat := if i =? a then b else if i =? b then a else i.
(* RI = eye; RI[n,n] = RI[k,k] = 0; RI[k,n] = RI[n,k] = 1 *)
Definition swapm (a b : nat) : mat := fun i j => delta (swapf a b i) j.
(* u[n, j] = 0 *)
Definition setz (n j : nat) (u : mat) : mat := fun a b => if (a =? n) && (b =? j) then k0 else u a b.
Definition cst1 (d : R) : mat := fun _ _ => d.

Definition item_mat (it : item) : mat :=
  match it with
  | IBlock n b => embed n 2 (b_mat b)
  | IPerm n k => embed n (k - n + 1) (pmat (perm_fn (k - n)))
  | IPhase i d => embed i 1 (cst1 d)
  end.

Variable m : nat.
(* matrix of the circuit built by `for range, component in lc: C.add(range, component)` *)
Definition circ_mat (l : list item) : mat := oprodx m (map item_mat l).

Variable small : R -> bool.        (* abs(x) <= precision *)
Variable skip : R -> bool.         (* add_phases: not (b != 0 or a < 0) *)
Variable iib perm_on : bool.       (* ignore_identity_block, permutation is not None *)
Variable Os : Type.                 (* state of the oracle (random starting points) *)
Variable solve : Os -> nat -> nat -> mat -> option blk * Os.

(* for k in range(n+1, j+1): first k with abs(u[k, j]) <= precision *)
Fixpoint find_zero (j : nat) (u : mat) (k cnt : nat) : option nat :=
  match cnt with
  | O => None
  | S c => if small (u k j) then Some k else find_zero j u (S k) c
  end.

Definition state := (list item * mat)%type.

(* body of the double loop for the cell (n, j); None = `return None` *)
Definition cell (n j : nat) (st : state) (s : Os) : option state * Os :=
  let (l, u) := st in
  if small (u n j) && iib then (Some (l, setz n j u), s)
  else match (if perm_on && iib then find_zero j u (S n) (j - n) else None) with
       | Some k => (Some (IPerm n k :: l, setz n j (xmul m (swapm n k) u)), s)
       | None =>
           match solve s n j u with
           | (None, s') => (None, s')
           | (Some b, s') => (Some (IBlock n b :: l, setz n j (xmul m (embed n 2 (b_inv b)) u)), s')
           end
       end.

(* for n in range(j): cells (n, j), (n+1, j), ... (cnt of them) *)
Fixpoint run_col (j n cnt : nat) (st : state) (s : Os) : option state * Os :=
  match cnt with
  | O => (Some st, s)
  | S c => match cell n j st s with
                     | (None, s') => (None, s')
                     | (Some st', s') => run_col j (S n) c st' s'
                     end
  end.
(* for j in range(m-1, 0, -1) *)
Fixpoint run_outer (j : nat) (st : state) (s : Os) : option state * Os :=
  match j with
  | O => (Some st, s)
  | S j' => match run_col j 0 j st s with
                      | (None, s') => (None, s')
                      | (Some st', s') => run_outer j' st' s'
                      end
  end.

(* add_phases: phases = [(idx, PS)] + phases for idx = 0 .. m-1 *)
Fixpoint phases (idx cnt : nat) (u : mat) (acc : list item) : list item :=
  match cnt with
  | O => acc
  | S c => phases (S idx) c u (if skip (u idx idx) then acc else IPhase idx (u idx idx) :: acc)
  end.

(* decompose_triangle: (list_components, final u); the residual is returned for the theorems *)
Definition triangle (with_phase : bool) (U : mat) (s : Os) : option state * Os :=
  match run_outer (m - 1) ([], U) s with
  | (None, s') => (None, s')
  | (Some (l, u), s') => (Some ((if with_phase then phases 0 m u [] else []) ++ l, u), s')
  end.

(* Circuit.inverse(v, h) on the flat component list; hinv_b / vinv_b = component.inverse on a block *)
Variables hinv_b vinv_b : blk -> blk.
Definition mflip (k : nat) (A : mat) : mat := fun i j => A (k - 1 - i)%nat (k - 1 - j)%nat.   (* np.flip *)
Definition hinv_item (it : item) : item :=
  match it with
  | IBlock n b => IBlock n (hinv_b b)
  | IPerm n k => IPerm n k                   (* Unitary.inverse(h): the swap is its own inverse *)
  | IPhase i d => IPhase i (kconj d)         (* PS.inverse(h): phi -> -phi *)
  end.
Definition vinv_item (it : item) : item :=
  match it with
  | IBlock n b => IBlock (m - 2 - n) (vinv_b b)
  | IPerm n k => IPerm (m - 1 - k) (m - 1 - n)
  | IPhase i d => IPhase (m - 1 - i) d
  end.
Definition cinverse (v h : bool) (l : list item) : list item :=
  map (fun it => let it1 := if v then vinv_item it else it in if h then hinv_item it1 else it1)
      (if h then rev l else l).

(* while count < max_try *)
Fixpoint retry (tries : nat) (wp : bool) (U : mat) (s : Os) : option state * Os :=
  match tries with
  | O => (None, s)
  | S t => match triangle wp U s with
                     | (Some r, s') => (Some r, s')
                     | (None, s') => retry t wp U s'
                     end
  end.

(* the pre-processing: U.inv() of a matrix that passed is_unitary() is its adjoint; np.flip(U) *)
Definition preprocess (inv_v inv_h : bool) (U : mat) : mat :=
  let U1 := if inv_h then madj U else U in if inv_v then mflip m U1 else U1.

Definition decomposition (wp inv_v inv_h : bool) (max_try : nat) (U : mat) (s : Os) : option (list item) * Os :=
  match retry max_try wp (preprocess inv_v inv_h U) s with
  | (None, s') => (None, s')
  | (Some (l, _), s') => (Some (if inv_v || inv_h then cinverse inv_v inv_h l else l), s')
  end.

(* the intended meaning of component.inverse on a block (what C11 states): adjoint, and J B J *)
Definition ideal_hinv (b : blk) : blk := mkblk (madj (b_mat b)) (madj (b_inv b)).
Definition ideal_vinv (b : blk) : blk := mkblk (mflip 2 (b_mat b)) (mflip 2 (b_inv b)).
End Decomp.

Arguments mkblk {_}. Arguments b_mat {_}. Arguments b_inv {_}.
Arguments IBlock {_}. Arguments IPerm {_}. Arguments IPhase {_}.
Arguments swapf a b i : simpl never.
Arguments swapm {_}. Arguments setz {_}. Arguments cst1 {_}. Arguments item_mat {_}. Arguments circ_mat {_}.
Arguments find_zero {_}. Arguments cell {_}. Arguments run_col {_}. Arguments run_outer {_}.
Arguments phases {_}. Arguments triangle {_}. Arguments mflip {_}. Arguments hinv_item {_}.
Arguments vinv_item {_}. Arguments cinverse {_}. Arguments retry {_}. Arguments preprocess {_}.
Arguments decomposition {_}. Arguments ideal_hinv {_}. Arguments ideal_vinv {_}.

Section Diag.
Variable R : cring.
Definition diagm (d : nat -> R) : mat R := fun i j => if i =? j then d i else k0.
End Diag.
Arguments diagm {_}.
