(* C16 — request assembly for a remote platform: executable model of
     perceval/runtime/remote_processor.py   (prepare_job_payload, check_circuit, check_input, from_local_processor)
     perceval/components/experiment.py      (with_input(BasicState), add_herald, heralds; only what the request needs)
     perceval/runtime/job.py                (Job._handle_params)
     perceval/runtime/remote_job.py         (_create_payload_data, _check_max_shots_samples_validity, execute_async)
     perceval/algorithm/sampler.py          (_create_job, _get_primitive_converter, _check_iteration, add_iteration)
     perceval/algorithm/abstract_algorithm.py (max_shots_per_call)
   Circuits, noise models and post-selection expressions are abstract values that the code only carries around
   (the wire codec itself is property C15); what is modelled is which fields are present, what is checked before,
   what is read when (job creation vs execution), and what reaches the network.  No proofs in this file. *)
From Coq Require Import List ZArith Bool Arith.
Import ListNotations.

(* ------------------------------------------------------------------ abstract data *)
Definition state := list nat.                       (* BasicState: photons per mode *)
Definition noise := list (nat * Z).                 (* NoiseModel: (parameter id, value in 1/1000); [] = NoiseModel() *)
Definition cond := (list nat * (nat * nat))%type.   (* post-selection condition: modes, operator id, value *)
Definition postsel := list cond.
(* circuit: matrix id, mode count, and the mode relabelling applied to that matrix: entry i of c_lab is the new
   index of original mode i (seq 0 size for a circuit used as built) *)
(* c_vals: the current values (in 1/1000) of the circuit's parameters: the matrix is a function of (c_id, c_vals) *)
Record circ := mkcirc { c_id : nat; c_size : nat; c_lab : list nat; c_vals : list (nat * Z) }.

Inductive exn := XAssert | XRuntime | XValue | XNotImpl | XType | XIndex | XUnavail | XHttp | XKey | XConn | XTimeout.
(* [Err e w]: exception class and the raising site:
   1 input length (Experiment.check_input)      2 herald value not 0/1      3 herald mode occupied
   4 herald mode outside the circuit            10 min_detected_photons unset
   11 circuit too big   12 circuit too small    13 circuit/input size mismatch
   14 too many photons  15 not enough photons   20 max_shots_per_call missing   21 not positive
   30 iteration: unknown key  31 wrong type  32 unknown circuit parameter  33 input size
   40 missing input state     41 no compatible primitive
   50 too many positional arguments (IndexError)  51 passed twice  52 unused keyword
   53 None compared with a number (TypeError)     60 server refused the request     70 no mode of interest
   61 the request was registered by the server but its answer was lost     80 no such circuit parameter
   81 logical state / ports size mismatch *)
Inductive res (A : Type) := Ok (a : A) | Err (e : exn) (w : nat).
Arguments Ok {A} a.
Arguments Err {A} e w.
Definition bind {A B} (r : res A) (f : A -> res B) : res B :=
  match r with Ok a => f a | Err e w => Err e w end.
Notation "'do' x <- r ; k" := (bind r (fun x => k)) (at level 200, x name, r at level 100, k at level 200).

Definition opt_eqb {A} (eqb : A -> A -> bool) (a b : option A) : bool :=
  match a, b with Some x, Some y => eqb x y | None, None => true | _, _ => false end.
Definition sum (l : list nat) : nat := fold_right Nat.add 0 l.

(* a Python dict with names as numbers, in insertion order; a value None is Python's None *)
Definition dict := list (nat * option Z).
Definition dhas (d : dict) (k : nat) : bool := existsb (fun e => fst e =? k) d.
Definition dget (d : dict) (k : nat) : option Z :=
  match find (fun e => fst e =? k) d with Some e => snd e | None => None end.
Fixpoint dput (k : nat) (v : option Z) (d : dict) : dict :=
  match d with [] => [(k, v)] | (k', v') :: r => if k' =? k then (k, v) :: r else (k', v') :: dput k v r end.
Definition ddel (k : nat) (d : dict) : dict := filter (fun e => negb (fst e =? k)) d.

(* ------------------------------------------------------------------ processor (shared by local and remote: Experiment) *)
Record proc := mkproc {
  p_circ : circ;
  p_pnames : list nat;              (* names of the circuit's variable parameters *)
  p_ports : list nat;               (* modes occupied by a (non-herald) port *)
  p_her : list (nat * nat);         (* Experiment.heralds: (mode, expected), in insertion order *)
  p_in : option state;              (* Experiment._input_state: the FULL state (herald modes included) *)
  p_ps : option postsel;
  p_noise : option noise;
  p_filter : option nat;            (* Experiment.min_photons_filter: what the processor reports *)
  (* AProcessor._parameters: every dict object this attribute has been bound to, the last one being the current one
     (clear_parameters rebinds it; a job keeps the dict it was created with). Names: 0 min_detected_photons,
     1.. platform parameters set by the user *)
  p_pdicts : list dict }.

Definition p_size (p : proc) : nat := c_size (p_circ p).                (* circuit_size *)
Definition msize (p : proc) : nat := p_size p - length (p_her p).      (* m: modes of interest *)

Definition set_in (p : proc) (v : option state) :=
  mkproc (p_circ p) (p_pnames p) (p_ports p) (p_her p) v (p_ps p) (p_noise p) (p_filter p) (p_pdicts p).
Definition set_her (p : proc) (v : list (nat * nat)) :=
  mkproc (p_circ p) (p_pnames p) (p_ports p) v (p_in p) (p_ps p) (p_noise p) (p_filter p) (p_pdicts p).
Definition set_ps (p : proc) (v : option postsel) :=
  mkproc (p_circ p) (p_pnames p) (p_ports p) (p_her p) (p_in p) v (p_noise p) (p_filter p) (p_pdicts p).
Definition set_noise (p : proc) (v : option noise) :=
  mkproc (p_circ p) (p_pnames p) (p_ports p) (p_her p) (p_in p) (p_ps p) v (p_filter p) (p_pdicts p).
Definition set_filter (p : proc) (v : option nat) :=
  mkproc (p_circ p) (p_pnames p) (p_ports p) (p_her p) (p_in p) (p_ps p) (p_noise p) v (p_pdicts p).

Definition her_find (h : list (nat * nat)) (k : nat) : option nat :=
  match find (fun e => fst e =? k) h with Some e => Some (snd e) | None => None end.
Definition is_her (h : list (nat * nat)) (k : nat) : bool :=
  match her_find h k with Some _ => true | None => false end.

(* Experiment.with_input(BasicState): positions k .. k+n-1 of the full state *)
Fixpoint merge_in (h : list (nat * nat)) (k n : nat) (st : state) : state :=
  match n with
  | O => []
  | S n' =>
      match her_find h k with
      | Some v => v :: merge_in h (S k) n' st
      | None => match st with x :: r => x :: merge_in h (S k) n' r | [] => 0 :: merge_in h (S k) n' [] end
      end
  end.
(* AProcessor.remove_heralded_modes: drop the herald positions (k = index of the head of st) *)
Fixpoint remove_her (h : list (nat * nat)) (k : nat) (st : state) : state :=
  match st with
  | [] => []
  | x :: r => if is_her h k then remove_her h (S k) r else x :: remove_her h (S k) r
  end.

Definition zf (f : option nat) : option Z := option_map Z.of_nat f.
Definition cur_params (p : proc) : dict := last (p_pdicts p) [].
Definition set_pdicts (p : proc) (v : list dict) :=
  mkproc (p_circ p) (p_pnames p) (p_ports p) (p_her p) (p_in p) (p_ps p) (p_noise p) (p_filter p) v.
Definition upd_params (p : proc) (f : dict -> dict) : proc :=
  set_pdicts p (removelast (p_pdicts p) ++ [f (cur_params p)]).
(* AProcessor._set_min_photons_parameter *)
Definition sync (p : proc) : proc := upd_params p (dput 0 (zf (p_filter p))).

Inductive pop :=
| OInput (st : state)               (* with_input(BasicState(st)) *)
| OFilter (n : option nat)          (* min_detected_photons_filter(n) *)
| ONoise (nz : option noise)        (* .noise = nz *)
| OPostsel (ps : postsel)           (* set_postselection *)
| OClearPs                          (* clear_postselection *)
| OHerald (mode expected : nat)     (* add_herald *)
| OParam (name : nat) (v : Z)       (* get_circuit_parameters()[name].set_value(v): no structural change *)
(* other routes by which the fields of a request get their value *)
| OExpFilter (n : option nat)       (* proc.experiment.min_detected_photons_filter(n): the processor is not told *)
| OSetParam (k : nat) (v : option Z)   (* set_parameter(name, v); name 0 is 'min_detected_photons' itself *)
| OClearParams                      (* clear_parameters(): a new empty dict *)
| OInputLogical (bits : list nat)   (* with_input(LogicalState(bits)), every port being a RAW port *)
| OAssignExp (c : circ) (pn : list nat) (f : option nat) (nz : option noise) (inp : option state).
                                    (* proc.experiment = Experiment(circuit, noise=nz) with filter f and input inp *)

Fixpoint vput (k : nat) (v : Z) (d : list (nat * Z)) : list (nat * Z) :=
  match d with [] => [(k, v)] | (k', v') :: r => if k' =? k then (k, v) :: r else (k', v') :: vput k v r end.
Definition set_circ (p : proc) (c : circ) :=
  mkproc c (p_pnames p) (p_ports p) (p_her p) (p_in p) (p_ps p) (p_noise p) (p_filter p) (p_pdicts p).

Definition apply_op (p : proc) (o : pop) : res proc :=
  match o with
  | OInput st =>
      if length st =? msize p then Ok (set_in p (Some (merge_in (p_her p) 0 (p_size p) st))) else Err XAssert 1
  | OFilter n => Ok (sync (set_filter p n))
  | OExpFilter n => Ok (set_filter p n)
  | OSetParam k v => Ok (upd_params p (dput k v))
  | OClearParams => Ok (set_pdicts p (p_pdicts p ++ [[]]))
  | OInputLogical bits =>
      if negb (length bits =? length (p_ports p)) then Err XValue 81
      else
        (* the default filter is written into the experiment BEFORE the state is checked *)
        let p1 := match p_filter p with None => set_filter p (Some (sum bits)) | Some _ => p end in
        if length bits =? msize p1 then Ok (set_in p1 (Some (merge_in (p_her p1) 0 (p_size p1) bits))) else Err XAssert 1
  | OAssignExp c pn f nz inp => Ok (mkproc c pn [] [] inp None nz f (p_pdicts p))
  | ONoise nz => Ok (set_noise p nz)
  | OPostsel ps => Ok (set_ps p (Some ps))
  | OClearPs => Ok (set_ps p None)
  | OHerald mode v =>
      if negb (v <=? 1) then Err XAssert 2
      else if is_her (p_her p) mode || existsb (Nat.eqb mode) (p_ports p) then Err XUnavail 3
      else if p_size p <=? mode then Err XIndex 4         (* never generated: the real call corrupts the port table *)
      else Ok (set_her p (p_her p ++ [(mode, v)]))
  | OParam n v =>
      if existsb (Nat.eqb n) (p_pnames p)
      then Ok (set_circ p (mkcirc (c_id (p_circ p)) (c_size (p_circ p)) (c_lab (p_circ p)) (vput n v (c_vals (p_circ p)))))
      else Err XKey 80
  end.

(* what a REFUSED operation leaves behind: with_input(LogicalState) has already written the default filter into the
   experiment when the converted state fails the length check *)
Definition op_residue (p : proc) (o : pop) : proc :=
  match o with
  | OInputLogical bits =>
      if length bits =? length (p_ports p)
      then match p_filter p with None => set_filter p (Some (sum bits)) | Some _ => p end
      else p
  | _ => p
  end.

(* ------------------------------------------------------------------ local -> remote conversion *)
Fixpoint index_of (k : nat) (l : list nat) : nat :=
  match l with [] => 0 | x :: r => if x =? k then 0 else S (index_of k r) end.
(* ModeConnector: modes of interest in increasing order first, then the heralds in the order of [heralds] *)
Definition mode_order (p : proc) : list nat :=
  filter (fun k => negb (is_her (p_her p) k)) (seq 0 (p_size p)) ++ map fst (p_her p).
Definition sigma (p : proc) (k : nat) : nat := index_of k (mode_order p).
Definition relabel_ps (f : nat -> nat) (ps : postsel) : postsel := map (fun c => (map f (fst c), snd c)) ps.
Definition noise_sem (o : option noise) : noise := match o with Some n => n | None => [] end.

(* the processor obtained by rp.noise = lp.noise; rp.add(0, lp); rp.min_detected_photons_filter(lp's) *)
Definition relabelled (lp : proc) : proc :=
  let sg := sigma lp in
  mkproc (mkcirc (c_id (p_circ lp)) (p_size lp) (map sg (c_lab (p_circ lp))) (c_vals (p_circ lp)))
         (* with heralds, _compose_experiment copies the experiment and Experiment.copy freezes every variable
            parameter that holds a value (the driver's parameters always do): they stop being circuit parameters *)
         (match p_her lp with [] => p_pnames lp | _ => [] end) (map sg (p_ports lp))
         (map (fun h => (sg (fst h), snd h)) (p_her lp))
         None
         (option_map (relabel_ps sg) (p_ps lp))
         (Some (noise_sem (p_noise lp)))          (* Processor.noise returns NoiseModel() when unset *)
         (p_filter lp)
         [[(0, zf (p_filter lp))]].     (* a new RemoteProcessor, then the filter setter *)

(* from_local_processor.  [old = false]: the code as it is now (repo commit 55925315): a BasicState input is passed to
   with_input without its heralded modes.  [old = true]: the code before that repair passed the stored full state. *)
Definition from_local_gen (old : bool) (lp : proc) : res proc :=
  if msize lp =? 0 then Err XValue 70 else
  match p_in lp with
  | None => Ok (relabelled lp)
  | Some st => apply_op (relabelled lp) (OInput (if old then st else remove_her (p_her lp) 0 st))
  end.
Definition from_local : proc -> res proc := from_local_gen false.          (* the current code *)
Definition from_local_old_code : proc -> res proc := from_local_gen true.  (* historical *)

(* ------------------------------------------------------------------ platform *)
Record platform := mkpf {
  pf_maxm : option nat; pf_minm : option nat; pf_maxn : option nat; pf_minn : option nat;
  pf_probs : bool; pf_sc : bool; pf_samples : bool }.

Definition above (x : nat) (o : option nat) : bool := match o with Some b => b <? x | None => false end.
Definition below (x : nat) (o : option nat) : bool := match o with Some b => x <? b | None => false end.

Definition check_circuit (pf : platform) (p : proc) : res unit :=
  if above (p_size p) (pf_maxm pf) then Err XRuntime 11
  else if below (p_size p) (pf_minm pf) then Err XRuntime 12
  else match p_in p with
       | Some st => if length st =? p_size p then Ok tt else Err XRuntime 13
       | None => Ok tt
       end.

Definition photons (h : list (nat * nat)) (st : state) : nat := sum st + sum (map snd h).

(* RemoteProcessor.check_input on a state WITHOUT herald modes *)
Definition check_input (pf : platform) (p : proc) (st : state) : res unit :=
  if negb (length st =? msize p) then Err XAssert 1
  else if above (photons (p_her p) st) (pf_maxn pf) then Err XRuntime 14
  else if below (photons (p_her p) st) (pf_minn pf) then Err XRuntime 15
  else Ok tt.

(* RemoteProcessor(rpc_handler, m = size) then set_circuit(c) (checked at once) or add(0, c) *)
(* AProcessor.__init__ writes min_detected_photons = None into a fresh parameter dict *)
Definition new_proc (c : circ) (pnames : list nat) : proc := mkproc c pnames [] [] None None None None [[(0, None)]].
Definition new_remote (pf : platform) (c : circ) (pnames : list nat) (via_set : bool) : res proc :=
  let p := new_proc c pnames in
  if via_set then do _ <- check_circuit pf p; Ok p else Ok p.

(* ------------------------------------------------------------------ the request payload (a Python dict) *)
Inductive pkey := KCommand | KCircuit | KInput | KParams | KPostsel | KHeralds | KNoise | KIterator
                | KMaxShots | KMaxSamples | KJobContext | KOther (n : nat).
Definition key_code (k : pkey) : nat :=
  match k with KCommand => 0 | KCircuit => 1 | KInput => 2 | KParams => 3 | KPostsel => 4 | KHeralds => 5
  | KNoise => 6 | KIterator => 7 | KMaxShots => 8 | KMaxSamples => 9 | KJobContext => 10 | KOther n => 11 + n end.
Definition key_eqb (a b : pkey) : bool := key_code a =? key_code b.

Inductive ientry :=
| ICParams (l : list (nat * Z)) | IInput (s : state) | IFilter (z : Z) | IMaxSamples (z : Z) | IMaxShots (z : Z)
| INoise (n : noise) | IUnknown (k : nat) | IBadType (k : nat).
Definition iteration := list ientry.                 (* a dict in insertion order *)

Record ctx := mkctx { cx_conv : option (nat * nat);  (* result_mapping: converter (primitive, method) *)
                      cx_map : option dict }.        (* mapping_delta_parameters *)

Inductive pval :=
| VCmd (c : nat) | VCirc (c : circ) | VState (s : state) | VParams (d : dict) | VPs (p : postsel)
| VHer (h : list (nat * nat)) | VNoise (n : noise) | VIter (l : list iteration) | VNum (z : option Z)
| VCtx (c : option ctx).
Definition payload := list (pkey * pval).

Fixpoint lookup (k : pkey) (pl : payload) : option pval :=
  match pl with [] => None | (k', v) :: r => if key_eqb k' k then Some v else lookup k r end.
(* d[k] = v *)
Fixpoint dset (k : pkey) (v : pval) (pl : payload) : payload :=
  match pl with
  | [] => [(k, v)]
  | (k', v') :: r => if key_eqb k' k then (k, v) :: r else (k', v') :: dset k v r
  end.
(* replace only when present (an aliased sub-object read again at execution time) *)
Definition refresh1 (k : pkey) (v : pval) (pl : payload) : payload :=
  match lookup k pl with Some _ => dset k v pl | None => pl end.

(* RemoteProcessor.prepare_job_payload(command) *)
Definition prepare (pf : platform) (p : proc) (cmd : nat) : res payload :=
  match p_filter p with
  | None => Err XValue 10
  | Some _ =>
      do _ <- check_circuit pf p;
      do _ <- match p_in p with
              | Some st => check_input pf p (remove_her (p_her p) 0 st)
              | None => Ok tt
              end;
      Ok ([(KCommand, VCmd cmd); (KCircuit, VCirc (p_circ p))]
            ++ match p_in p with Some st => [(KInput, VState st)] | None => [] end
            ++ [(KParams, VParams (cur_params (sync p)))]
            ++ match p_ps p with Some ps => [(KPostsel, VPs ps)] | None => [] end
            ++ match p_her p with [] => [] | h => [(KHeralds, VHer h)] end
            ++ match p_noise p with Some n => [(KNoise, VNoise n)] | None => [] end)
  end.

(* what deserialising a payload yields *)
Record view := mkview {
  v_cmd : option nat; v_circ : option circ; v_in : option state; v_her : list (nat * nat);
  v_ps : option postsel; v_noise : option noise; v_filter : option nat }.
Definition describe (pl : payload) : view :=
  mkview (match lookup KCommand pl with Some (VCmd c) => Some c | _ => None end)
         (match lookup KCircuit pl with Some (VCirc c) => Some c | _ => None end)
         (match lookup KInput pl with Some (VState s) => Some s | _ => None end)
         (match lookup KHeralds pl with Some (VHer h) => h | _ => [] end)
         (match lookup KPostsel pl with Some (VPs p) => Some p | _ => None end)
         (match lookup KNoise pl with Some (VNoise n) => Some n | _ => None end)
         (match lookup KParams pl with Some (VParams d) => option_map Z.to_nat (dget d 0) | _ => None end).
Definition view_of (p : proc) (cmd : nat) : view :=
  mkview (Some cmd) (Some (p_circ p)) (p_in p) (p_her p) (p_ps p) (p_noise p) (p_filter p).
Definition num_of (k : pkey) (pl : payload) : option (option Z) :=
  match lookup k pl with Some (VNum z) => Some z | _ => None end.
Definition iter_of (pl : payload) : list iteration :=
  match lookup KIterator pl with Some (VIter l) => l | _ => [] end.
Definition ctx_of (pl : payload) : option ctx :=
  match lookup KJobContext pl with Some (VCtx c) => c | _ => None end.

(* ------------------------------------------------------------------ Sampler *)
Inductive meth := MProbs | MSampleCount | MSamples.
Definition meth_code (m : meth) : nat := match m with MProbs => 0 | MSampleCount => 1 | MSamples => 2 end.
Definition is_probs (m : meth) : bool := match m with MProbs => true | _ => false end.   (* no 'sample' in the name *)
Definition avail (pf : platform) (m : meth) : bool :=
  match m with MProbs => pf_probs pf | MSampleCount => pf_sc pf | MSamples => pf_samples pf end.
Definition others (m : meth) : list meth :=          (* key order of Sampler._METHOD_MAPPING[m] *)
  match m with MProbs => [MSampleCount; MSamples] | MSampleCount => [MProbs; MSamples] | MSamples => [MProbs; MSampleCount] end.
(* _get_primitive_converter: (primitive, converter primitive->method) *)
Definition select (pf : platform) (m : meth) : option (meth * option (meth * meth)) :=
  if avail pf m then Some (m, None)
  else match find (avail pf) (others m) with Some k => Some (k, Some (k, m)) | None => None end.

Definition is_input (e : ientry) : bool := match e with IInput _ => true | _ => false end.
Definition input_available (p : proc) (its : list iteration) : bool :=
  match p_in p with
  | Some _ => true
  | None => match its with [] => false | _ => forallb (existsb is_input) its end
  end.

Definition check_entry (pf : platform) (p : proc) (e : ientry) : res unit :=
  match e with
  | IUnknown _ => Err XNotImpl 30
  | IBadType _ => Err XAssert 31
  | ICParams l => if forallb (fun e => existsb (Nat.eqb (fst e)) (p_pnames p)) l then Ok tt else Err XAssert 32
  | IInput st => if negb (length st =? msize p) then Err XAssert 33 else check_input pf p st
  | _ => Ok tt
  end.
Fixpoint check_iteration (pf : platform) (p : proc) (it : iteration) : res unit :=
  match it with [] => Ok tt | e :: r => do _ <- check_entry pf p e; check_iteration pf p r end.

Record job := mkjob {
  j_pl : payload;                  (* request_data['payload'] as prepared at creation *)
  j_names : list nat;              (* command_param_names *)
  j_cmd : dict; j_map : dict;      (* delta_parameters *)
  j_conv : option (meth * meth);   (* job_context result_mapping *)
  j_gen : nat;                     (* which iterator list object the payload refers to *)
  j_pgen : nat;                    (* which parameter dict object the payload refers to *)
  j_done : bool;
  j_built : proc;                  (* ghost: the processor the job was created from *)
  j_method : meth }.               (* ghost: what the user asked for *)

Definition mark_done (j : job) : job :=
  mkjob (j_pl j) (j_names j) (j_cmd j) (j_map j) (j_conv j) (j_gen j) (j_pgen j) true (j_built j) (j_method j).

Definition create_job (pf : platform) (p : proc) (shots : Z) (its : list iteration) (gen : nat) (m : meth) : res job :=
  if negb (input_available p its) then Err XAssert 40 else
  match select pf m with
  | None => Err XRuntime 41
  | Some (prim, conv) =>
      let mp := is_probs m in
      let pp := is_probs prim in
      let names := if pp then [] else [0] in
      let cm : dict * dict :=
        if negb mp && pp then ([], [(0, None); (1, Some shots)])
        else if mp && negb pp then ([(0, Some 10000%Z)], [])
        else if negb mp && negb pp then ([(0, None)], [])
        else ([], []) in
      do pl <- prepare pf p (meth_code prim);
      let pl1 := match its with [] => pl | _ => dset KIterator (VIter its) pl end in
      let pl2 := dset KMaxShots (VNum (Some shots)) pl1 in
      Ok (mkjob pl2 names (fst cm) (snd cm) conv gen (length (p_pdicts p) - 1) false p m)
  end.

Definition job_sync (pf : platform) (p : proc) (its : list iteration) (m : meth) : proc :=
  if input_available p its
  then match select pf m, p_filter p with Some _, Some _ => sync p | _, _ => p end
  else p.

(* ------------------------------------------------------------------ Job._handle_params *)
Fixpoint positional (names : list nat) (args : list (option Z)) (kw cmd : dict) : res dict :=
  match args with
  | [] => Ok cmd
  | a :: r =>
      match names with
      | [] => Err XIndex 50
      | n :: ns => if dhas kw n then Err XRuntime 51 else positional ns r kw (dput n a cmd)
      end
  end.
(* for k, v in d.items(): if v is None and k in kwargs: d[k] = kwargs[k]; del kwargs[k] *)
Fixpoint fill (d kw : dict) : dict * dict :=
  match d with
  | [] => ([], kw)
  | (k, v) :: r =>
      match v with
      | None => if dhas kw k then let rk := fill r (ddel k kw) in ((k, dget kw k) :: fst rk, snd rk)
                else let rk := fill r kw in ((k, None) :: fst rk, snd rk)
      | Some _ => let rk := fill r kw in ((k, v) :: fst rk, snd rk)
      end
  end.
Definition handle_params (names : list nat) (cmd mapp : dict) (args : list (option Z)) (kw : dict) : res (dict * dict) :=
  let am := if length names <? length args then (removelast args, dput 0 (last args None) mapp) else (args, mapp) in
  do cmd1 <- positional names (fst am) kw cmd;
  let c2 := fill cmd1 kw in
  let m2 := fill (snd am) (snd c2) in
  match snd m2 with [] => Ok (fst c2, fst m2) | _ => Err XRuntime 52 end.

(* ------------------------------------------------------------------ RemoteJob._create_payload_data *)
Definition key_of_name (n : nat) : pkey := match n with 0 => KMaxSamples | 1 => KMaxShots | S (S k) => KOther k end.
(* _check_max_shots_samples_validity *)
Definition clamp (pl : payload) : res payload :=
  match lookup KMaxSamples pl, lookup KMaxShots pl with
  | Some (VNum a), Some (VNum b) =>
      match a, b with
      | Some x, Some y => if (y <? x)%Z then Ok (dset KMaxSamples (VNum (Some y)) pl) else Ok pl
      | _, _ => Err XType 53
      end
  | _, _ => Ok pl
  end.
Definition update_cmd (cmd : dict) (pl : payload) : payload :=
  fold_left (fun acc e => dset (key_of_name (fst e)) (VNum (snd e)) acc) cmd pl.
Definition job_ctx (conv : option (meth * meth)) (mapp : dict) : option ctx :=
  let cv := option_map (fun c => (meth_code (fst c), meth_code (snd c))) conv in
  match mapp with
  | [] => match cv with Some c => Some (mkctx (Some c) None) | None => None end
  | _ => Some (mkctx cv (Some mapp))
  end.
(* 'parameters' is the processor's own dict and 'iterator' the sampler's own list: both are read at execution *)
Definition refresh (pl : payload) (live_params : dict) (cur_iter : list iteration) : payload :=
  refresh1 KIterator (VIter cur_iter) (refresh1 KParams (VParams live_params) pl).

Definition exec_payload (j : job) (live_params : dict) (cur_iter : list iteration)
           (args : list (option Z)) (kw : dict) : res payload :=
  do cm <- handle_params (j_names j) (j_cmd j) (j_map j) args kw;
  let pl0 := refresh (j_pl j) live_params cur_iter in
  let pl1 := update_cmd (fst cm) pl0 in
  let pl2 := dset KJobContext (VCtx (job_ctx (j_conv j) (snd cm))) pl1 in
  clamp pl2.

(* ------------------------------------------------------------------ a user session on one remote processor *)
Record sess := mksess {
  s_pf : platform; s_proc : proc; s_shots : Z;
  s_gens : list (list iteration);      (* iterator list objects; the last one is the sampler's current list *)
  s_jobs : list job;
  s_net : list (payload * nat);        (* job-creation requests received by the server, with the job index (ghost) *)
  s_created : nat }.                   (* remote jobs created *)

Inductive ev :=
| EProc (o : pop)
| EAddIter (it : iteration)
| EClear
| EJob (m : meth)                                              (* sampler.probs / .sample_count / .samples *)
| EExec (k : nat) (args : list (option Z)) (kw : dict) (answer : nat).   (* jobs[k].execute_async with these positional and keyword arguments *)
(* the server's answer to a job-creation request: 0 = HTTP 400 (no job created); 1 = accepted; 2, 4 = the request is
   registered (the job exists) and then the connection drops; 3 = registered, then the read times out *)
Inductive obs := ODone | ORaised (e : exn) (w : nat) | OSent | ORefused | OLost (timeout : bool) | OSkip.

(* AAlgorithm.__init__ on a remote processor *)
Definition init_sess (pf : platform) (p : proc) (shots : option Z) : res sess :=
  match shots with
  | None => Err XRuntime 20
  | Some z => if (z =? 0)%Z then Err XRuntime 20 else if (z <? 1)%Z then Err XRuntime 21
              else Ok (mksess pf p z [[]] [] [] 0)
  end.

Definition cur_iters (s : sess) : list iteration := last (s_gens s) [].
Fixpoint set_nth {A} (n : nat) (x : A) (l : list A) : list A :=
  match l, n with [] , _ => [] | _ :: r, O => x :: r | y :: r, S n' => y :: set_nth n' x r end.

Definition step (s : sess) (e : ev) : sess * obs :=
  match e with
  | EProc o =>
      match apply_op (s_proc s) o with
      | Ok p' => (mksess (s_pf s) p' (s_shots s) (s_gens s) (s_jobs s) (s_net s) (s_created s), ODone)
      | Err x w => (mksess (s_pf s) (op_residue (s_proc s) o) (s_shots s) (s_gens s) (s_jobs s) (s_net s) (s_created s),
                    ORaised x w)
      end
  | EAddIter it =>
      match check_iteration (s_pf s) (s_proc s) it with
      | Ok _ => (mksess (s_pf s) (s_proc s) (s_shots s) (removelast (s_gens s) ++ [cur_iters s ++ [it]])
                        (s_jobs s) (s_net s) (s_created s), ODone)
      | Err x w => (s, ORaised x w)
      end
  | EClear => (mksess (s_pf s) (s_proc s) (s_shots s) (s_gens s ++ [[]]) (s_jobs s) (s_net s) (s_created s), ODone)
  | EJob m =>
      (* prepare_job_payload re-synchronises the parameter dict with the filter as soon as it is reached with a filter,
         also when a later check refuses the job *)
      let p' := job_sync (s_pf s) (s_proc s) (cur_iters s) m in
      match create_job (s_pf s) (s_proc s) (s_shots s) (cur_iters s) (length (s_gens s) - 1) m with
      | Ok j => (mksess (s_pf s) p' (s_shots s) (s_gens s) (s_jobs s ++ [j]) (s_net s) (s_created s), ODone)
      | Err x w => (mksess (s_pf s) p' (s_shots s) (s_gens s) (s_jobs s) (s_net s) (s_created s), ORaised x w)
      end
  | EExec k args kw answer =>
      match nth_error (s_jobs s) k with
      | None => (s, OSkip)
      | Some j =>
          if j_done j then (s, OSkip)        (* re-execution of a job is property C17's matter *)
          else
            let jobs' := set_nth k (mark_done j) (s_jobs s) in
            match exec_payload j (nth (j_pgen j) (p_pdicts (s_proc s)) []) (nth (j_gen j) (s_gens s) []) args kw with
            | Err x w => (mksess (s_pf s) (s_proc s) (s_shots s) (s_gens s) jobs' (s_net s) (s_created s), ORaised x w)
            | Ok r =>
                (mksess (s_pf s) (s_proc s) (s_shots s) (s_gens s) jobs' (s_net s ++ [(r, k)])
                        (match answer with 0 => s_created s | _ => S (s_created s) end),
                 match answer with 0 => ORefused | 1 => OSent | 3 => OLost true | _ => OLost false end)
            end
      end
  end.

Fixpoint run (s : sess) (tr : list ev) : sess * list obs :=
  match tr with
  | [] => (s, [])
  | e :: r => let so := step s e in let ro := run (fst so) r in (fst ro, snd so :: snd ro)
  end.
