(* C19 — exchange-format entry points of the job-group model. *)
From PV Require Export Model.JobGroup.
Require Import List ZArith Bool.
Import ListNotations.

Definition to_opt {A} (f : sx -> A) (x : sx) : option A :=
  match to_list x with [] => None | y :: _ => Some (f y) end.
Definition of_opt {A} (f : A -> sx) (o : option A) : sx :=
  match o with None => L [] | Some a => L [f a] end.

Definition to_pval : sx -> pval := to_opt to_Z.
Definition of_pval : pval -> sx := of_opt I.
Definition to_pay (x : sx) : payload :=
  mkpay (to_opt to_pval (nthx 0 x)) (to_opt to_pval (nthx 1 x)) (to_Z (nthx 2 x)).
Definition of_pay (p : payload) : sx := L [of_opt of_pval (p_ms p); of_opt of_pval (p_sh p); I (p_other p)].
Definition to_mdelta : sx -> mdelta := to_opt (fun y => (to_pval (nthx 0 y), to_pval (nthx 1 y))).
Definition of_mdelta : mdelta -> sx := of_opt (fun m => L [of_pval (fst m); of_pval (snd m)]).
Definition of_ectx : ectx_t -> sx := of_opt (fun c => L [of_opt I (fst c); of_mdelta (snd c)]).
Definition of_body (b : body) : sx := L [I (b_name b); of_pay (b_pay b); of_ectx (b_ctx b)].
Definition of_status (s : status) : sx := I (st_code s).
Definition of_djob (d : djob) : sx :=
  L [of_opt I (d_id d); of_opt of_status (d_st d); I (d_meta d); of_opt of_body (d_body d)].
Definition of_job (j : job) : sx :=
  L [of_opt I (jid j); of_status (jst j); of_nat_sx (jerrs j); of_opt of_djob (to_disk j)].
Definition of_req (r : req) : sx :=
  match r with
  | RCreate b => L [I 0; of_body b]
  | RRerun i => L [I 1; of_opt I i]
  | RStatus i => L [I 2; of_opt I i]
  | RWrite => L [I 3]
  | RResult i => L [I 4; of_opt I i]
  end.

Definition to_spec (x : sx) : spec :=
  mkspec (to_Z (nthx 0 x)) (to_pay (nthx 1 x)) (to_opt to_pval (nthx 2 x)) (to_mdelta (nthx 3 x))
         (to_opt to_Z (nthx 4 x)) (to_Z (nthx 5 x)).
Definition to_op (x : sx) : op :=
  match to_Z (nthx 0 x) with
  | 0%Z => OReopen
  | 1%Z => OAdd (to_spec (nthx 1 x)) (to_bool (nthx 2 x)) (to_opt to_Z (nthx 3 x)) (to_bool (nthx 4 x))
  | 2%Z => ORun (to_bool (nthx 1 x))
  | 3%Z => ORerun (to_bool (nthx 1 x)) (to_bool (nthx 2 x))
  | 5%Z => OReadd (to_nat (nthx 1 x))
  | 6%Z => OGetResults
  | 7%Z => OTrack
  | _ => OProgress
  end.
Definition to_answer (x : sx) : answer :=
  match to_Z (nthx 0 x) with
  | 0%Z => AOk (to_Z (nthx 1 x)) (st_of_code (to_Z (nthx 2 x)))
  | 1%Z => ATransient
  | _ => AFatal
  end.

Definition of_outcome (o : outcome) : sx := match o with Returned => I 0 | Raised e => I e end.

Definition report (c : cfg) (before : mach) (m : mach) (o : outcome) : sx :=
  let '(u, s, ot, a) := progress (mem m) in
  L [of_outcome o;
     L (map of_job (mem m));
     L (map of_djob (disk m));
     L (map of_job (load c (disk m)));
     L (map of_req (rlog m));
     of_nat_sx (length (scr before) - length (scr m));
     of_bool (udirty m);
     of_nats [u; s; ot; a];
     of_nats [length (list_successful (mem m)); length (list_active (mem m));
              length (list_unsuccessful (mem m)); length (list_unsent (mem m))]].

Fixpoint run_report (c : cfg) (m : mach) (ops : list op) : list sx :=
  match ops with
  | [] => []
  | o :: r =>
      let m0 := mkm (mem m) (disk m) (scr m) [] (udirty m) in
      let '(m1, out) := step c m0 o in
      report c m0 m1 out :: run_report c m1 r
  end.

(* input: (ops script) ; output: one report per operation. 1900 = the code as it is now, 1901 = before the repairs *)
Definition x_jobgroup_run_cfg (c : cfg) (x : sx) : sx :=
  let ops := map to_op (to_list (nthx 0 x)) in
  let sc := map to_answer (to_list (nthx 1 x)) in
  L (run_report c (init sc) ops).
Definition x_jobgroup_run : sx -> sx := x_jobgroup_run_cfg cur.
Definition x_jobgroup_run_old : sx -> sx := x_jobgroup_run_cfg old.

(* ---- several groups. mop encodings: (0 n) open, (1 n op) operation on n, (2 n) delete, (3) delete all, (4 all) by date.
   Report per operation: outcome; log of this operation; answers consumed; files ((name djobs) ...);
   live objects ((name jobs reopened-jobs progress lists unsaved-flag) ...) *)
Definition to_mop (x : sx) : mop :=
  match to_Z (nthx 0 x) with
  | 0%Z => MOpen (to_Z (nthx 1 x))
  | 1%Z => MOn (to_Z (nthx 1 x)) (to_op (nthx 2 x))
  | 2%Z => MDelete (to_Z (nthx 1 x))
  | 3%Z => MDeleteAll
  | _ => MDeleteDate (to_bool (nthx 1 x))
  end.

Definition of_handle (c : cfg) (w : world) (h : Z * list job) : sx :=
  let '(n, l) := h in
  let '(u, s, ot, a) := progress l in
  L [I n; L (map of_job l);
     L (map of_job (match sget n (files w) with Some d => load c d | None => [] end));
     of_nats [u; s; ot; a];
     of_nats [length (list_successful l); length (list_active l); length (list_unsuccessful l); length (list_unsent l)];
     of_bool (never_sent_waiting l)].

Definition mreport (c : cfg) (before w : world) (o : outcome) (flag : bool) : sx :=
  L [of_outcome o;
     L (map of_req (wlog w));
     of_nat_sx (length (wscr before) - length (wscr w));
     L (map (fun f => L [I (fst f); L (map of_djob (snd f))]) (files w));
     L (map (of_handle c w) (handles w));
     of_bool flag].

(* the ghost flag of the inner operation, for the report only *)
Definition mflag (c : cfg) (w : world) (o : mop) : bool :=
  match o with
  | MOn n o1 => match sget n (handles w), sget n (files w) with
                | Some l, Some d => udirty (fst (step c (mkm l d (wscr w) (wlog w) false) o1))
                | _, _ => false end
  | _ => false
  end.

Fixpoint mrun_report (c : cfg) (w : world) (ops : list mop) : list sx :=
  match ops with
  | [] => []
  | o :: r =>
      let w0 := mkw (files w) (handles w) (wscr w) [] in
      let '(w1, out) := mstep c w0 o in
      mreport c w0 w1 out (mflag c w0 o) :: mrun_report c w1 r
  end.

Definition x_jobgroup_world (x : sx) : sx :=
  let ops := map to_mop (to_list (nthx 0 x)) in
  let sc := map to_answer (to_list (nthx 1 x)) in
  L (mrun_report cur (winit sc) ops).
