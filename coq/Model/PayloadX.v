(* Exchange-format entry points of the C16 model (decoding / encoding only). *)
From PV Require Export Model.Payload Lib.Sx.

Definition to_opt {A} (f : sx -> A) (x : sx) : option A :=
  match to_list x with [] => None | y :: _ => Some (f y) end.
Definition of_opt {A} (f : A -> sx) (o : option A) : sx := match o with None => L [] | Some a => L [f a] end.
Definition to_pairs {A B} (f : sx -> A) (g : sx -> B) (x : sx) : list (A * B) :=
  map (fun e => (f (nthx 0 e), g (nthx 1 e))) (to_list x).
Definition of_pairs {A B} (f : A -> sx) (g : B -> sx) (l : list (A * B)) : sx :=
  L (map (fun e => L [f (fst e); g (snd e)]) l).

Definition to_noise (x : sx) : noise := to_pairs to_nat to_Z x.
Definition of_noise (n : noise) : sx := of_pairs of_nat_sx I n.
Definition to_ps (x : sx) : postsel :=
  map (fun e => (to_nats (nthx 0 e), (to_nat (nthx 1 e), to_nat (nthx 2 e)))) (to_list x).
Definition of_ps (p : postsel) : sx :=
  L (map (fun c => L [of_nats (fst c); of_nat_sx (fst (snd c)); of_nat_sx (snd (snd c))]) p).
Definition of_circ (c : circ) : sx :=
  L [of_nat_sx (c_id c); of_nat_sx (c_size c); of_nats (c_lab c); of_pairs of_nat_sx I (c_vals c)].
Definition of_dict (d : dict) : sx := of_pairs of_nat_sx (of_opt I) d.
Definition to_dict (x : sx) : dict := to_pairs to_nat (to_opt to_Z) x.

Definition to_platform (x : sx) : platform :=
  mkpf (to_opt to_nat (nthx 0 x)) (to_opt to_nat (nthx 1 x)) (to_opt to_nat (nthx 2 x)) (to_opt to_nat (nthx 3 x))
       (to_bool (nthx 4 x)) (to_bool (nthx 5 x)) (to_bool (nthx 6 x)).

Definition to_op (x : sx) : pop :=
  match to_Z (nthx 0 x) with
  | 0%Z => OInput (to_nats (nthx 1 x))
  | 1%Z => OFilter (to_opt to_nat (nthx 1 x))
  | 2%Z => ONoise (to_opt to_noise (nthx 1 x))
  | 3%Z => OPostsel (to_ps (nthx 1 x))
  | 4%Z => OClearPs
  | 5%Z => OHerald (to_nat (nthx 1 x)) (to_nat (nthx 2 x))
  | 6%Z => OParam (to_nat (nthx 1 x)) (to_Z (nthx 2 x))
  | 7%Z => OExpFilter (to_opt to_nat (nthx 1 x))
  | 8%Z => OSetParam (to_nat (nthx 1 x)) (to_opt to_Z (nthx 2 x))
  | 9%Z => OClearParams
  | 10%Z => OInputLogical (to_nats (nthx 1 x))
  | _ => let c := nthx 1 x in
         OAssignExp (mkcirc (to_nat (nthx 0 c)) (to_nat (nthx 1 c)) (seq 0 (to_nat (nthx 1 c))) (to_pairs to_nat to_Z (nthx 2 c)))
                    (to_nats (nthx 2 x)) (to_opt to_nat (nthx 3 x)) (to_opt to_noise (nthx 4 x)) (to_opt to_nats (nthx 5 x))
  end.

Definition to_entry (x : sx) : ientry :=
  match to_Z (nthx 0 x) with
  | 0%Z => ICParams (to_pairs to_nat to_Z (nthx 1 x))
  | 1%Z => IInput (to_nats (nthx 1 x))
  | 2%Z => IFilter (to_Z (nthx 1 x))
  | 3%Z => IMaxSamples (to_Z (nthx 1 x))
  | 4%Z => IMaxShots (to_Z (nthx 1 x))
  | 5%Z => INoise (to_noise (nthx 1 x))
  | 6%Z => IUnknown (to_nat (nthx 1 x))
  | _ => IBadType (to_nat (nthx 1 x))
  end.
Definition of_entry (e : ientry) : sx :=
  match e with
  | ICParams l => L [I 0; of_pairs of_nat_sx I l]
  | IInput s => L [I 1; of_nats s]
  | IFilter z => L [I 2; I z]
  | IMaxSamples z => L [I 3; I z]
  | IMaxShots z => L [I 4; I z]
  | INoise n => L [I 5; of_noise n]
  | IUnknown k => L [I 6; of_nat_sx k]
  | IBadType k => L [I 7; of_nat_sx k]
  end.
Definition to_iteration (x : sx) : iteration := map to_entry (to_list x).
Definition of_iteration (it : iteration) : sx := L (map of_entry it).

Definition to_meth (x : sx) : meth :=
  match to_Z x with 0%Z => MProbs | 1%Z => MSampleCount | _ => MSamples end.

Definition to_ev (x : sx) : ev :=
  match to_Z (nthx 0 x) with
  | 0%Z => EProc (to_op (nthx 1 x))
  | 1%Z => EAddIter (to_iteration (nthx 1 x))
  | 2%Z => EClear
  | 3%Z => EJob (to_meth (nthx 1 x))
  | _ => EExec (to_nat (nthx 1 x)) (map (to_opt to_Z) (to_list (nthx 2 x))) (to_dict (nthx 3 x)) (to_nat (nthx 4 x))
  end.

Definition exn_code (e : exn) : Z :=
  match e with XAssert => 1 | XRuntime => 2 | XValue => 3 | XNotImpl => 4 | XType => 5 | XIndex => 6
  | XUnavail => 7 | XHttp => 8 | XKey => 11 | XConn => 9 | XTimeout => 10 end%Z.
Definition of_obs (o : obs) : sx :=
  match o with
  | ODone => L [I 0]
  | ORaised e w => L [I 1; I (exn_code e); of_nat_sx w]
  | OSent => L [I 2]
  | ORefused => L [I 1; I (exn_code XHttp); I 60]
  | OLost t => L [I 1; I (exn_code (if t then XTimeout else XConn)); I 61]
  | OSkip => L [I 3]
  end.
Definition obs_of_res {A} (r : res A) : obs := match r with Ok _ => ODone | Err e w => ORaised e w end.

Definition of_ctx (c : ctx) : sx :=
  L [of_opt (fun p => L [of_nat_sx (fst p); of_nat_sx (snd p)]) (cx_conv c); of_opt of_dict (cx_map c)].
Definition of_pval (v : pval) : sx :=
  match v with
  | VCmd c => L [I 0; of_nat_sx c]
  | VCirc c => L [I 1; of_circ c]
  | VState s => L [I 2; of_nats s]
  | VParams d => L [I 3; of_dict d]
  | VPs p => L [I 4; of_ps p]
  | VHer h => L [I 5; of_pairs of_nat_sx of_nat_sx h]
  | VNoise n => L [I 6; of_noise n]
  | VIter l => L [I 7; L (map of_iteration l)]
  | VNum z => L [I 8; of_opt I z]
  | VCtx c => L [I 9; of_opt of_ctx c]
  end.
Definition of_payload (pl : payload) : sx :=
  L (map (fun e => L [of_nat_sx (key_code (fst e)); of_pval (snd e)]) pl).

Definition of_view (v : view) : sx :=
  L [of_opt of_nat_sx (v_cmd v); of_opt of_circ (v_circ v); of_opt of_nats (v_in v);
     of_pairs of_nat_sx of_nat_sx (v_her v); of_opt of_ps (v_ps v); of_opt of_noise (v_noise v);
     of_opt of_nat_sx (v_filter v)].

Definition of_proc (p : proc) : sx :=
  L [of_circ (p_circ p); of_nats (p_pnames p); of_nats (p_ports p); of_pairs of_nat_sx of_nat_sx (p_her p);
     of_opt of_nats (p_in p); of_opt of_ps (p_ps p); of_opt of_noise (p_noise p); of_opt of_nat_sx (p_filter p);
     of_dict (cur_params p)].

(* apply ops in sequence; a refused op leaves the processor unchanged *)
Fixpoint apply_ops (p : proc) (ops : list pop) : proc * list obs :=
  match ops with
  | [] => (p, [])
  | o :: r =>
      match apply_op p o with
      | Ok p' => let pr := apply_ops p' r in (fst pr, ODone :: snd pr)
      | Err e w => let pr := apply_ops (op_residue p o) r in (fst pr, ORaised e w :: snd pr)
      end
  end.

(* 1600: [platform, [kind, cid, size, pnames, via_set, ports], ops, shots, events]
   kind 0: RemoteProcessor built directly, ops applied to it; kind 1: local Processor + ops, then from_local_processor.
   answer: [op observations, conversion observation, processor after conversion, sampler-construction observation,
            event observations, requests received ([payload, job index, describe]), remote jobs created, final processor] *)
Definition x_scenario (x : sx) : sx :=
  let pf := to_platform (nthx 0 x) in
  let b := nthx 1 x in
  let kind := to_Z (nthx 0 b) in
  let size := to_nat (nthx 2 b) in
  let c := mkcirc (to_nat (nthx 1 b)) size (seq 0 size) (to_pairs to_nat to_Z (nthx 7 b)) in
  let pn := to_nats (nthx 3 b) in
  let ports := to_nats (nthx 5 b) in
  let ctor_noise := to_opt to_noise (nthx 8 b) in       (* RemoteProcessor(..., noise=...) / Processor(..., noise=...) *)
  let with_ports p := mkproc (p_circ p) (p_pnames p) ports (p_her p) (p_in p) (p_ps p) ctor_noise (p_filter p) (p_pdicts p) in
  let ops := map to_op (to_list (nthx 2 x)) in
  let shots := to_opt to_Z (nthx 3 x) in
  let evs := map to_ev (to_list (nthx 4 x)) in
  let built : res (proc * list obs) :=
    if (kind =? 0)%Z then
      match new_remote pf c pn (to_bool (nthx 4 b)) with
      | Ok p => Ok (apply_ops (with_ports p) ops)
      | Err e w => Err e w
      end
    else
      let lo := apply_ops (with_ports (new_proc c pn)) ops in
      match from_local (fst lo) with Ok rp => Ok (rp, snd lo) | Err e w => Err e w end in
  (* the op observations of a local build are reported even when the conversion is refused *)
  let local_obs := if (kind =? 0)%Z then [] else snd (apply_ops (with_ports (new_proc c pn)) ops) in
  match built with
  | Err e w => L [L (map of_obs local_obs); of_obs (ORaised e w); L []; L []; L []; L []; I 0; L []]
  | Ok (rp, oo) =>
      match init_sess pf rp shots with
      | Err e w => L [L (map of_obs oo); of_obs ODone; of_proc rp; of_obs (ORaised e w); L []; L []; I 0; of_proc rp]
      | Ok s =>
          let ro := run s evs in
          L [L (map of_obs oo); of_obs ODone; of_proc rp; of_obs ODone; L (map of_obs (snd ro));
             L (map (fun rk => L [of_payload (fst rk); of_nat_sx (snd rk); of_view (describe (fst rk))]) (s_net (fst ro)));
             of_nat_sx (s_created (fst ro)); of_proc (s_proc (fst ro))]
      end
  end.

(* 1601: Job._handle_params on arbitrary names / presets: [names, command, mapping, args, kwargs]
   answer: [0, exn, site] or [1, command, mapping] *)
Definition x_handle_params (x : sx) : sx :=
  match handle_params (to_nats (nthx 0 x)) (to_dict (nthx 1 x)) (to_dict (nthx 2 x))
                      (map (to_opt to_Z) (to_list (nthx 3 x))) (to_dict (nthx 4 x)) with
  | Ok cm => L [I 1; of_dict (fst cm); of_dict (snd cm)]
  | Err e w => L [I 0; I (exn_code e); of_nat_sx w]
  end.
