(* The accounting of Simulator.probs_svd (perceval/simulators/simulator.py: probs_svd, _preprocess_svd,
   _probs_svd_fast) followed by post_select_distribution (perceval/utils/postselect.py), for the lossless
   photon-number-resolving case without detectors, non-superposed inputs (the "fast" path), heralds present
   (_can_use_mask true) and no probability trimming (precision 0, thresholds read as 0).

   An input of the mixed input state is (p_in, tag groups); a tag group is (n_own, d) where d is the engine's
   UNMASKED output distribution of that group (separate_state: photons with the same tag evolve together,
   different groups independently; their outputs add mode-wise).  Under use_mask(n) the engine returns the
   same probabilities restricted to the states kept by FSMask(m, n, [mask]) ([mask_keep1 n mk]); it does not
   renormalise (the source comments "the sum of output probs can be < 1").

   Read as zero / not modelled (stated, not hidden):
   - p_threshold = max(global_params['min_p'] = 1e-16, max_p * precision): inputs with p <= 1e-16 are dropped and
     list_tensor_product skips partial products below p_threshold / (10 * prob0);
   - a cache entry whose budget _best_n is 0 (vacuum input, or a photon-less group without herald photons) is
     computed without calling use_mask(0): the engine keeps whatever mask it had.  Its only output state is the
     vacuum, which every instance of the herald mask with no fixed photons keeps, so the entry is the same;
   - post_select_distribution's shortcut "no condition and no heralds: normalise, return 1" (it returns what the
     loop returns when nothing is rejected);
   - the engine itself (that its masked output is the restriction of the unmasked one is C02/C05 matter). *)
From PV Require Export Model.Select.
Open Scope Qc_scope.

Definition group := (nat * dist)%type.
Definition input := (Qc * list group)%type.
(* sv[0].n: the photon number of an input is the sum of its groups' *)
Definition n_in (gs : list group) : nat := fold_right (fun g acc => (fst g + acc)%nat) 0%nat gs.

(* ---- reference: the unconditioned, unmasked output distribution of the mixed input ---- *)
Definition full_dist (mix : list input) : dist :=
  flat_map (fun i => dscale (fst i) (conv_all (map (@snd nat dist) (snd i)))) mix.

(* ---- _preprocess_svd (precision 0): inputs below the filter are removed, phys_perf -= p ---- *)
Definition pre_phys (F : nat) (mix : list input) : Qc :=
  fold_left (fun acc i => if (F <=? n_in (snd i))%nat then acc else acc - fst i) mix 1.
Definition pre_kept (F : nat) (mix : list input) : list input :=
  filter (fun i => (F <=? n_in (snd i))%nat) mix.

(* ---- _probs_svd_fast ---- *)
(* cache[(state, _best_n(n, state.n))]: the group's distribution under use_mask(best_n);
   [um] = _can_use_mask (true in the case modelled; false = the engine runs without a mask) *)
Definition masked_group (um : bool) (mk : mask) (nh n_ext : nat) (g : group) : dist :=
  if um then dfilter (mask_keep1 (best_n true nh n_ext (fst g)) mk) (snd g) else snd g.
(* BSDistribution.list_tensor_product(..., merge_modes=True): empty for an empty list; a dictionary *)
Definition probs_in_s (um : bool) (mk : mask) (nh : nat) (gs : list group) : dist :=
  match gs with
  | [] => []
  | _ => dmerge (conv_all (map (masked_group um mk nh (n_in gs)) gs))
  end.
(* for bs, p in probs_in_s.items(): res[bs] += p * prob0 *)
Definition accumulate (prob0 : Qc) (d res : dist) : dist :=
  fold_left (fun r tw => dinsert (fst tw) (snd tw * prob0) r) d res.
Definition fast_step (um : bool) (mk : mask) (nh : nat) (acc : dist * Qc) (i : input) : dist * Qc :=
  let d := probs_in_s um mk nh (snd i) in
  (accumulate (fst i) d (fst acc), snd acc + mass d * fst i).
(* returns (res, _logical_perf); "if len(res): res.normalize()" *)
Definition probs_svd_fast (um : bool) (mk : mask) (nh : nat) (kept : list input) : dist * Qc :=
  let rl := fold_left (fast_step um mk nh) kept ([], 0) in
  (match fst rl with [] => [] | _ => normalize (fst rl) end, snd rl).

(* ---- post_select_distribution (heralds present): "result[state] = prob" is an assignment ---- *)
Fixpoint dassign (t : state) (w : Qc) (d : dist) : dist :=
  match d with
  | [] => [(t, w)]
  | (t', w') :: r => if state_eqb t' t then (t', w) :: r else (t', w') :: dassign t w r
  end.
Definition ps_step (h : heralds) (p : ps) (keep : bool) (acc : dist * Qc) (tw : state * Qc) : dist * Qc :=
  if passes h p (fst tw)
  then (dassign (if keep then fst tw else remove_heralds h (fst tw)) (snd tw) (fst acc), snd acc)
  else (fst acc, snd acc - snd tw).
Definition post_select_distribution (d : dist) (p : ps) (h : heralds) (keep : bool) : dist * Qc :=
  let rl := fold_left (ps_step h p keep) d ([], 1) in
  (normalize (fst rl), snd rl).

(* ---- probs_svd ---- *)
Definition Qc_pos (x : Qc) : bool := if Qclt_le_dec 0 x then true else false.
Record report := { r_results : dist; r_phys : Qc; r_logical : Qc }.
(* [m] modes, heralds [h], post-selection [p], user filter [f] (min_detected_photons_filter = f + herald
   photons, simulator_interface.py), keep_heralds [keep] *)
Definition probs_svd_model_gen (um : bool) (m : nat) (h : heralds) (p : ps) (f : nat) (keep : bool)
    (mix : list input) : report :=
  let nh := herald_total h in                       (* _n_heralds *)
  let F := (f + nh)%nat in
  let mk := herald_mask m h in                      (* _setup_heralds *)
  let phys := pre_phys F mix in
  let rl := probs_svd_fast um mk nh (pre_kept F mix) in
  let lp := if Qc_pos (snd rl) && Qc_pos phys then snd rl / phys else snd rl in
  match fst rl with
  | [] => {| r_results := []; r_phys := phys; r_logical := 0 |}
  | _ => let rc := post_select_distribution (fst rl) p h keep in
         {| r_results := fst rc; r_phys := phys; r_logical := lp * snd rc |}
  end.
(* the case modelled: heralds present, PNR, so the mask is in use *)
Definition probs_svd_model := probs_svd_model_gen true.
