(* perceval/utils/algorithms/simplification.py: the permutation arithmetic the simplifier relies on
   (extend_perm, perm_compose, reduce_perm, invert_permutation, _move_comp), the mode-adjacency analysis
   (_update_adjacent, as it is now and as it was before its repair), and the executable checkers that validate the output of the
   heuristic search per instance (circ_eq, circ_close). *)
From PV Require Export Model.Transform Lib.QI.

(* extend_perm(r, perm_list, m)[1]: identity below r[0], the shifted permutation, identity up to m *)
Definition extend_perm (r0 : nat) (p : list nat) (m : nat) : list nat :=
  seq 0 r0 ++ map (fun v => (v + r0)%nat) p ++ seq (r0 + length p) (m - (r0 + length p)).
(* perm_compose(left_r, left_perm, right_r, right_perm) = (range(max_r), [right[left[i]]]) *)
Definition perm_compose (lo : nat) (lp : list nat) (ro : nat) (rp : list nat) : list nat :=
  let mx := Nat.max (lo + length lp) (ro + length rp) in
  let l := extend_perm lo lp mx in let r := extend_perm ro rp mx in
  map (fun i => nth (nth i l 0%nat) r 0%nat) (seq 0 (length r)).
(* reduce_perm: i = first moved index (n-1 if none: the loop variable survives the loop),
   j = last moved index (0 if none); perm[k]-i for k in i..j on r[i:j+1] *)
Fixpoint first_moved (k : nat) (l : list nat) : option nat :=
  match l with [] => None | x :: r => if (x =? k)%nat then first_moved (S k) r else Some k end.
Fixpoint last_moved (k : nat) (l : list nat) : option nat :=
  match l with
  | [] => None
  | x :: r => match last_moved (S k) r with Some j => Some j | None => if (x =? k)%nat then None else Some k end
  end.
Definition reduce_perm (r0 : nat) (p : list nat) : nat * list nat :=
  let i := match first_moved 0 p with Some i => i | None => (length p - 1)%nat end in
  let j := match last_moved 0 p with Some j => j | None => 0%nat end in
  ((r0 + i)%nat, map (fun k => (nth k p 0 - i)%nat) (seq i (j + 1 - i))).
(* invert_permutation: inv[perm[i]] = i *)
Definition invert_permutation (p : list nat) : list nat := map (fun v => idx v p) (seq 0 (length p)).
(* _move_comp: a component on modes r goes to [perm[r[0]], perm[r[0]] + len r) *)
Definition move_comp (perm : list nat) (r0 : nat) : nat := nth r0 perm 0%nat.
(* the side condition under which that is legitimate: perm (= inverse of the middle permutation) maps the
   range of the component to consecutive modes in the same order *)
Definition move_ok (perm : list nat) (r0 k : nat) : bool :=
  forallb (fun t => (nth (r0 + t) perm 0 =? nth r0 perm 0 + t)%nat) (seq 0 k).

(* _update_adjacent(adjacent_modes, r); groups are kept as sorted duplicate-free lists (the code builds them
   with list(set(..)), whose order is that of the hash table) *)
Fixpoint insert_sorted (x : nat) (l : list nat) : list nat :=
  match l with [] => [x] | y :: r => if (x <? y)%nat then x :: l else if (x =? y)%nat then l else y :: insert_sorted x r end.
Definition union_sorted (a b : list nat) : list nat := fold_left (fun acc x => insert_sorted x acc) b a.
Definition memb (x : nat) (l : list nat) : bool := existsb (Nat.eqb x) l.
Definition meets (a b : list nat) : bool := existsb (fun x => memb x b) a.
(* the code as it is now (/repo 4e70c855): every group that meets r is merged with r into one sorted group, kept at
   the place of the first such group; nothing is added when no group meets r *)
Fixpoint place (r G : list nat) (l : list (list nat)) (placed : bool) : list (list nat) :=
  match l with
  | [] => []
  | g :: rest => if meets g r then (if placed then place r G rest true else G :: place r G rest true)
                 else g :: place r G rest placed
  end.
Definition update_adjacent (adj : list (list nat)) (r : list nat) : list (list nat) :=
  let hit := filter (fun g => meets g r) adj in
  place r (union_sorted [] (fold_left union_sorted hit r)) adj false.
(* HISTORICAL (before 4e70c855): the group that contains r[0] absorbed r; any other group that met r was dropped *)
Fixpoint update_adjacent_old (adj : list (list nat)) (r : list nat) : list (list nat) :=
  match adj with
  | [] => []
  | g :: rest =>
      if memb (hd 0%nat r) g then union_sorted g r :: update_adjacent_old rest r
      else if meets g r then update_adjacent_old rest r
      else g :: update_adjacent_old rest r
  end.

(* ---------------------------------------------------------------- checkers over QI *)
Definition meqb (n : nat) (A B : mat QI) : bool :=
  forallb (fun i => forallb (fun j => qi_eqb (A i j) (B i j)) (seq 0 n)) (seq 0 n).
(* two flat circuits on m modes have the same matrix *)
Definition circ_eq (ii : QI) (m : nat) (c1 c2 : fcirc QI) : bool := meqb m (fmatx ii m c1) (fmatx ii m c2).
(* every entry within eps (eps2 = eps^2), the comparison itself exact *)
Definition qc_leb (a b : Qc) : bool := Qle_bool (this a) (this b).
Definition mat_close (eps2 : Qc) (n : nat) (A B : mat QI) : bool :=
  forallb (fun i => forallb (fun j => qc_leb (qinorm2 (qisub (A i j) (B i j))) eps2) (seq 0 n)) (seq 0 n).
Definition circ_close (ii : QI) (eps2 : Qc) (m : nat) (c1 c2 : fcirc QI) : bool :=
  mat_close eps2 m (fmatx ii m c1) (fmatx ii m c2).
