(* Heralds, post-selection and photon filter (perceval/utils/postselect.py, simulators/simulator.py,
   simulator_interface.py): the conditioning specification and the pieces of the implementation's
   accounting (herald mask, photon budget of the mask). *)
From PV Require Export Lib.Dist Model.Engines.

Inductive cmp := CEq | CNe | CLt | CGt | CLe | CGe.
Inductive ps :=
| PTrue
| PCmp (modes : list nat) (op : cmp) (k : nat)
| PAnd (a b : ps) | POr (a b : ps) | PXor (a b : ps) | PNot (a : ps).

Definition cmp_eval (op : cmp) (x k : nat) : bool :=
  match op with
  | CEq => x =? k | CNe => negb (x =? k) | CLt => x <? k | CGt => k <? x | CLe => x <=? k | CGe => k <=? x
  end%nat.
Fixpoint ps_eval (p : ps) (t : state) : bool :=
  match p with
  | PTrue => true
  | PCmp modes op k => cmp_eval op (fold_right (fun i acc => nth i t 0 + acc)%nat 0%nat modes) k
  | PAnd a b => ps_eval a t && ps_eval b t
  | POr a b => ps_eval a t || ps_eval b t
  | PXor a b => xorb (ps_eval a t) (ps_eval b t)
  | PNot a => negb (ps_eval a t)
  end.

Definition heralds := list (nat * nat).     (* (mode, expected photon count), modes distinct *)
Definition heralds_ok (h : heralds) (t : state) : bool := forallb (fun mv => (nth (fst mv) t 0 =? snd mv)%nat) h.
Definition herald_total (h : heralds) : nat := fold_right (fun mv acc => snd mv + acc)%nat 0%nat h.
Definition is_herald (h : heralds) (i : nat) : bool := existsb (fun mv => (fst mv =? i)%nat) h.
(* BasicState.remove_modes(herald modes) *)
Fixpoint remove_modes_from (i : nat) (h : heralds) (t : state) : state :=
  match t with [] => [] | x :: r => if is_herald h i then remove_modes_from (S i) h r else x :: remove_modes_from (S i) h r end.
Definition remove_heralds (h : heralds) (t : state) : state := remove_modes_from 0 h t.

(* ---- the statement, literally: restrict to filter, then to heralds and post-selection, renormalise ----
   [d] is the unconditioned (normalised) output distribution over all modes; [F] = filter + herald photons *)
Definition passes (h : heralds) (p : ps) (t : state) : bool := heralds_ok h t && ps_eval p t.
Record conditioned := { c_results : dist; c_phys : Qc; c_logical : Qc }.
Definition condition (d : dist) (h : heralds) (p : ps) (F : nat) (keep : bool) : conditioned :=
  let d1 := dfilter (fun t => (F <=? total t)%nat) d in
  let d2 := dfilter (passes h p) d1 in
  {| c_results := normalize (dmerge (if keep then d2 else dmap (remove_heralds h) d2));
     c_phys := mass d1;
     c_logical := if Qc_eq_dec (mass d1) 0 then 0 else mass d2 / mass d1 |}.

(* ---- implementation pieces ---- *)
(* Simulator._setup_heralds: mask string with the expected count on heralded modes, ' ' elsewhere *)
Fixpoint herald_mask_from (i m : nat) (h : heralds) : mask :=
  match m with
  | O => []
  | S m' => (match find (fun mv => (fst mv =? i)%nat) h with Some mv => Some (snd mv) | None => None end)
            :: herald_mask_from (S i) m' h
  end.
Definition herald_mask (m : nat) (h : heralds) : mask := herald_mask_from 0 m h.
(* Simulator._best_n *)
Definition best_n (can_use_mask : bool) (n_heralds n_ext n_own : nat) : nat :=
  if can_use_mask then Nat.min n_ext (n_own + n_heralds) else (n_own + n_heralds)%nat.
