(* Executable strong-simulation models over QI (C02 correspondence; reused by C03/C04/C07/C13/C20). *)
From PV Require Export Model.Engines Model.CircuitX.

Definition Qc_of_nat (n : nat) : Qc := Q2Qc (Z.of_nat n # 1).
Definition to_state (x : sx) : state := to_nats x.
Definition of_state (s : state) : sx := of_nats s.

(* probability = |perm|^2 / (prod s! prod t!), an exact rational *)
Definition prob_of (a : qi) (s t : state) : Qc := (qinorm2 a / Qc_of_nat (norm2 s t))%Qc.
Definition prob (U : mat QI) (m : nat) (s t : state) : Qc := prob_of (amp_num U m s t) s t.

(* args: m, U, s  ->  for every t of the (m, n) space in FSArray order: [t, amp_num, norm2] *)
Definition x_amps (x : sx) : sx :=
  let m := to_nat (nthx 0 x) in let U := to_mat (nthx 1 x) in let s := to_state (nthx 2 x) in
  L (map (fun t => L [of_state t; of_qi (amp_num U m s t); of_nat_sx (norm2 s t)]) (allstates m (total s))).
(* args: m, U, s, t -> [amp_num, norm2, naive_amp_num, slos_amp_num] (any photon numbers) *)
Definition x_amp1 (x : sx) : sx :=
  let m := to_nat (nthx 0 x) in let U := to_mat (nthx 1 x) in
  let s := to_state (nthx 2 x) in let t := to_state (nthx 3 x) in
  L [of_qi (amp_num U m s t); of_nat_sx (norm2 s t); of_qi (naive_amp_num U s t); of_qi (slos_amp_num U m s t)].
(* args: m, U, s -> [mass, [[t, p] ...]] *)
Definition x_dist (x : sx) : sx :=
  let m := to_nat (nthx 0 x) in let U := to_mat (nthx 1 x) in let s := to_state (nthx 2 x) in
  let d := map (fun t => (t, prob U m s t)) (allstates m (total s)) in
  L [of_Qc (fold_left (fun acc tp => (acc + snd tp)%Qc) d (Q2Qc 0)); L (map (fun tp => L [of_state (fst tp); of_Qc (snd tp)]) d)].
Definition to_mask (x : sx) : mask := map (fun e => if (to_Z e <? 0)%Z then None else Some (to_nat e)) (to_list x).
(* args: m, U, s, masks, n  ->  kept states in order with the pruned-SLOS amplitude numerator *)
Definition x_masked (x : sx) : sx :=
  let m := to_nat (nthx 0 x) in let U := to_mat (nthx 1 x) in let s := to_state (nthx 2 x) in
  let mks := map to_mask (to_list (nthx 3 x)) in let n := to_nat (nthx 4 x) in
  let keep := mask_keep n mks in
  L (map (fun t => L [of_state t; of_qi (kmul (of_nat (R:=QI) (factprod t)) (slosK U m keep (cols_of s) t)); of_nat_sx (norm2 s t)])
         (filter keep (allstates m (total s)))).
(* args: U, s, t -> the matrix NaiveBackend._compute_submatrix builds *)
Definition x_submatrix (x : sx) : sx :=
  of_lmat (submatrix (to_mat (nthx 0 x)) (to_state (nthx 1 x)) (to_state (nthx 2 x))).
