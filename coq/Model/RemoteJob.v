(* C17 — executable model of perceval/runtime/remote_job.py (RemoteJob), job_status.py and the part of
   job.py / rpc_handler.py it relies on, as a state machine

       step : cfg -> job -> event -> job * list req * result

   An event is one client action together with the server's answer to each HTTP request that the action may
   trigger (slots: first status request, second status request, the action's own request).  The model says
   which requests are actually made; an unused slot is ignored.

   [cfg] carries the two places where DESIGN §9 row 6 suspects the code: the comparison used by
   _handle_status_error and the guard of execute_async.  [cfg_code] is the code as it is; [cfg_patch] the
   smallest repair.  No proofs in this file. *)
From PV Require Export Lib.Sx.
Open Scope Z_scope.

(* ------------------------------------------------------------------ job_status.py *)
Inductive status := WAITING | RUNNING | SUCCESS | ERROR | CANCELED | SUSPENDED | CANCEL_REQUESTED | UNKNOWN.

Definition status_code (s : status) : Z :=
  match s with WAITING => 0 | RUNNING => 1 | SUCCESS => 2 | ERROR => 3 | CANCELED => 4 | SUSPENDED => 5
             | CANCEL_REQUESTED => 6 | UNKNOWN => 7 end.

(* RunningStatus.from_server_response on the harness's table of status strings:
   0..7 = the lower-case enum names in enum order, 8 = 'completed', 9 = 'Running' (str.upper() makes it a member),
   anything else = a string that is not a member after upper() ('COMPLETED', 'cancelled', 'done', '', ...). *)
Definition from_server (v : Z) : status :=
  match v with
  | 0 => WAITING | 1 => RUNNING | 2 => SUCCESS | 3 => ERROR | 4 => CANCELED | 5 => SUSPENDED
  | 6 => CANCEL_REQUESTED | 7 => UNKNOWN | 8 => SUCCESS | 9 => RUNNING | _ => UNKNOWN
  end.

Definition final (s : status) : bool :=            (* JobStatus.completed *)
  match s with SUCCESS | ERROR | CANCELED => true | _ => false end.
Definition failed (s : status) : bool :=           (* JobStatus.failed *)
  match s with ERROR | CANCELED => true | _ => false end.
Definition maybe_completed (s : status) : bool :=  (* JobStatus.maybe_completed *)
  match s with SUCCESS | ERROR | CANCELED | UNKNOWN => true | _ => false end.
Definition waiting (s : status) : bool := match s with WAITING => true | _ => false end.
Definition cancellable (s : status) : bool :=      (* the tuple tested by RemoteJob.cancel *)
  match s with RUNNING | WAITING | SUSPENDED => true | _ => false end.

(* ------------------------------------------------------------------ the outside world *)
(* Answer of the server to one request.
   AOk v m   : HTTP 200 with a well-formed body. status request: status string number v, status_message m;
               create / rerun: job identifier v; cancel: nothing; results: v = 0 -> a results document tagged m,
               v = 1 -> "results": null, other -> no "results" key.
   AHttp c m : HTTP error status c (4xx/5xx); for the create request m is the server's error text.
   AConn m   : requests.exceptions.ConnectionError with text m. *)
Inductive ans := AOk (v m : Z) | AHttp (code m : Z) | AConn (m : Z).

Inductive kind := KCreate | KStatus | KCancel | KRerun | KResults.
(* one HTTP request as received by the server: endpoint, job id in the URL (None: the literal 'None' or no id),
   and whether it was answered 200 *)
Inductive req := Rq (k : kind) (id : option Z) (ok : bool).

Inductive exn :=
| EAssert                       (* AssertionError "job has already been executed" *)
| EHttp (code : Z)              (* requests.HTTPError carrying a response with that status *)
| EConn                         (* requests.ConnectionError *)
| ECreate (m : Z)               (* requests.HTTPError(text) raised by RPCHandler.create_job, no response attached *)
| EStillRunning                 (* RuntimeError 'The job is still running, results are not available yet.' *)
| EFailed (m : Z)               (* RuntimeError 'The job failed: <stop message>' *)
| ENoResults                    (* RuntimeError 'Results are not available' *)
| ECannotCancel                 (* RuntimeError 'Job is not waiting or running, cannot cancel it' *)
| ECannotRerun (s : status).    (* RuntimeError 'Cannot rerun current job because job status is: <s> ...' *)

Inductive result :=
| RetStatus (s : status)        (* .status *)
| RetSelf                       (* execute_async *)
| RetNone                       (* cancel *)
| RetNew (id : Z)               (* rerun: a new RemoteJob (id, WAITING, 0 errors, no results, no message) *)
| RetResults (tag : Z)          (* get_results / execute_sync *)
| Raise (e : exn)
| Diverge.                      (* execute_sync whose scripted server never reports a final status *)

(* ------------------------------------------------------------------ RemoteJob state *)
Record job := mkjob {
  jid : option Z;        (* _id *)
  jst : status;          (* _job_status.status *)
  jstreak : nat;         (* _status_refresh_error *)
  jres : option Z;       (* _results (tag of the cached document) *)
  jmsg : Z               (* _job_status.stop_message: 0 = None, -1 = 'Cancellation requested by user', m = text m *)
}.
Definition fresh_job : job := mkjob None WAITING 0 None 0.
Definition new_job (i : Z) : job := mkjob (Some i) WAITING 0 None 0.     (* RemoteJob._from_dict in rerun *)

Record cfg := mkcfg {
  raise_at : nat -> bool;     (* _handle_status_error: does the n-th consecutive failure raise unconditionally *)
  exec_guard : job -> bool    (* execute_async's assertion *)
}.
Definition max_error : nat := 5.
Definition cfg_code : cfg := mkcfg (fun n => Nat.eqb n max_error) (fun j => waiting (jst j)).
Definition cfg_patch : cfg :=
  mkcfg (fun n => Nat.leb max_error n) (fun j => match jid j with None => waiting (jst j) | Some _ => false end).

Definition transient (code : Z) : bool :=
  match code with 408 | 409 | 421 | 423 | 429 => true | _ => false end.

Definition set_streak (j : job) (n : nat) : job := mkjob (jid j) (jst j) n (jres j) (jmsg j).

(* RemoteJob.status (STATUS_REFRESH_DELAY neutralised): new state, requests made, exception if any.
   When no exception is raised the returned status is [jst] of the new state. *)
Definition poll (c : cfg) (j : job) (a : ans) : job * list req * option exn :=
  match jid j with
  | None => (j, [], None)
  | Some i =>
    if final (jst j) then (j, [], None) else
    match a with
    | AOk v m =>
        let s := from_server v in
        (mkjob (Some i) s 0 (jres j) (if failed s then m else jmsg j), [Rq KStatus (Some i) true], None)
    | AHttp code _ =>
        let n := S (jstreak j) in
        (set_streak j n, [Rq KStatus (Some i) false],
         if raise_at c n then Some (EHttp code) else if transient code then None else Some (EHttp code))
    | AConn _ =>
        let n := S (jstreak j) in
        (set_streak j n, [Rq KStatus (Some i) false], if raise_at c n then Some EConn else None)
    end
  end.

Definition exec (c : cfg) (j : job) (a : ans) : job * list req * result :=
  if exec_guard c j then
    match a with
    | AOk v _ => (mkjob (Some v) WAITING (jstreak j) (jres j) (jmsg j), [Rq KCreate None true], RetSelf)
    | AHttp _ m => (mkjob (jid j) ERROR (jstreak j) (jres j) m, [Rq KCreate None false], Raise (ECreate m))
    | AConn m => (mkjob (jid j) ERROR (jstreak j) (jres j) m, [Rq KCreate None false], Raise EConn)
    end
  else (j, [], Raise EAssert).

(* the action's own request, for endpoints that use raise_for_status *)
Definition plain_failure (a : ans) : exn := match a with AHttp code _ => EHttp code | _ => EConn end.
Definition is_ok (a : ans) : bool := match a with AOk _ _ => true | _ => false end.

Definition cancel (c : cfg) (j : job) (p a : ans) : job * list req * result :=
  let '(j1, rq1, ex) := poll c j p in
  match ex with
  | Some e => (j1, rq1, Raise e)
  | None =>
    if cancellable (jst j1) then
      if is_ok a
      then (mkjob (jid j1) CANCEL_REQUESTED (jstreak j1) (jres j1) (-1), rq1 ++ [Rq KCancel (jid j1) true], RetNone)
      else (j1, rq1 ++ [Rq KCancel (jid j1) false], Raise (plain_failure a))
    else (j1, rq1, Raise ECannotCancel)
  end.

(* rerun evaluates self.status a second time to format its refusal *)
Definition rerun (c : cfg) (j : job) (p1 p2 a : ans) : job * list req * result :=
  let '(j1, rq1, ex1) := poll c j p1 in
  match ex1 with
  | Some e => (j1, rq1, Raise e)
  | None =>
    if failed (jst j1) then
      match a with
      | AOk v _ => (j1, rq1 ++ [Rq KRerun (jid j1) true], RetNew v)
      | _ => (j1, rq1 ++ [Rq KRerun (jid j1) false], Raise (plain_failure a))
      end
    else
      let '(j2, rq2, ex2) := poll c j1 p2 in
      match ex2 with
      | Some e => (j2, rq1 ++ rq2, Raise e)
      | None => (j2, rq1 ++ rq2, Raise (ECannotRerun (jst j2)))
      end
  end.

(* Job.get_results + RemoteJob._get_results.  With a cached document the status is evaluated once more. *)
Definition get_results (c : cfg) (j : job) (p1 p2 a : ans) : job * list req * result :=
  let '(j1, rq1, ex1) := poll c j p1 in
  match ex1 with
  | Some e => (j1, rq1, Raise e)
  | None =>
    if negb (maybe_completed (jst j1)) then (j1, rq1, Raise EStillRunning) else
    let '(j2, rq2, ex2) := match jres j1 with Some _ => poll c j1 p2 | None => (j1, [], None) end in
    match ex2 with
    | Some e => (j2, rq1 ++ rq2, Raise e)
    | None =>
      match (if final (jst j2) then jres j2 else None) with
      | Some t => (j2, rq1 ++ rq2, RetResults t)
      | None =>
        match a with
        | AOk 0 t => (mkjob (jid j2) (jst j2) (jstreak j2) (Some t) (jmsg j2),
                      rq1 ++ rq2 ++ [Rq KResults (jid j2) true], RetResults t)
        | AOk _ _ => (j2, rq1 ++ rq2 ++ [Rq KResults (jid j2) true],
                      Raise (if failed (jst j2) then EFailed (jmsg j2) else ENoResults))
        | _ => (j2, rq1 ++ rq2 ++ [Rq KResults (jid j2) false], Raise (plain_failure a))
        end
      end
    end
  end.

(* execute_sync's loop "while not job.is_complete": one scripted answer per iteration *)
Inductive loop_end := LDone | LRaise (e : exn) | LDiverge.
Fixpoint sync_loop (c : cfg) (j : job) (ps : list ans) : job * list req * loop_end :=
  match ps with
  | [] => (j, [], LDiverge)
  | p :: ps' =>
    let '(j1, rq1, ex) := poll c j p in
    match ex with
    | Some e => (j1, rq1, LRaise e)
    | None =>
      if final (jst j1) then (j1, rq1, LDone) else
      let '(j2, rq2, r) := sync_loop c j1 ps' in (j2, rq1 ++ rq2, r)
    end
  end.

Definition exec_sync (c : cfg) (j : job) (a : ans) (ps : list ans) (r : ans) : job * list req * result :=
  let '(j0, rq0, r0) := exec c j a in
  match r0 with
  | RetSelf =>
    let '(j1, rq1, e) := sync_loop c j0 ps in
    match e with
    | LDone => let '(j2, rq2, r2) := get_results c j1 r r r in (j2, rq0 ++ rq1 ++ rq2, r2)
    | LRaise x => (j1, rq0 ++ rq1, Raise x)
    | LDiverge => (j1, rq0 ++ rq1, Diverge)
    end
  | _ => (j0, rq0, r0)
  end.

Inductive event :=
| Exec (a : ans)
| Poll (p : ans)
| Cancel (p a : ans)
| Rerun (p1 p2 a : ans)
| GetResults (p1 p2 a : ans)
| ExecSync (a : ans) (ps : list ans) (r : ans).

Definition step (c : cfg) (j : job) (e : event) : job * list req * result :=
  match e with
  | Exec a => exec c j a
  | Poll p => let '(j1, rq, ex) := poll c j p in
              (j1, rq, match ex with Some x => Raise x | None => RetStatus (jst j1) end)
  | Cancel p a => cancel c j p a
  | Rerun p1 p2 a => rerun c j p1 p2 a
  | GetResults p1 p2 a => get_results c j p1 p2 a
  | ExecSync a ps r => exec_sync c j a ps r
  end.

(* ------------------------------------------------------------------ the specification automaton (DESIGN A.5)
   Written as the table of the property statement: a guard on (sent, last status, failure count), then the
   effect.  Same state record, so that states can be compared. *)
Definition sent (j : job) : bool := match jid j with Some _ => true | None => false end.
Definition polls (j : job) : bool := sent j && negb (final (jst j)).
Definition is_failure (a : ans) : bool := negb (is_ok a).
Definition fatal (a : ans) : bool := match a with AHttp code _ => negb (transient code) | _ => false end.

Definition spec_poll (j : job) (a : ans) : job * list req * option exn :=
  if polls j then
    match a with
    | AOk v m =>       (* a successful read: becomes the reported status, resets the count *)
        (mkjob (jid j) (from_server v) 0 (jres j) (if failed (from_server v) then m else jmsg j),
         [Rq KStatus (jid j) true], None)
    | _ =>             (* a failed read: counted; raised if fatal or fifth-or-later in a row, else absorbed *)
        (set_streak j (S (jstreak j)), [Rq KStatus (jid j) false],
         if fatal a || Nat.leb 5 (S (jstreak j)) then Some (plain_failure a) else None)
    end
  else (j, [], None).  (* not sent, or a final status was reported: nothing is asked, last status stands *)

Definition spec_exec (j : job) (a : ans) : job * list req * result :=
  if negb (sent j) && waiting (jst j) then
    match a with
    | AOk v _ => (mkjob (Some v) WAITING (jstreak j) (jres j) (jmsg j), [Rq KCreate None true], RetSelf)
    | AHttp _ m => (mkjob None ERROR (jstreak j) (jres j) m, [Rq KCreate None false], Raise (ECreate m))
    | AConn m => (mkjob None ERROR (jstreak j) (jres j) m, [Rq KCreate None false], Raise EConn)
    end
  else (j, [], Raise EAssert).

(* "after an implicit poll": run the poll, stop on its exception, else continue with the refreshed state;
   [pre] = requests already made by the action *)
Definition after_poll (pre : list req) (j : job) (p : ans) (k : job -> list req -> job * list req * result)
  : job * list req * result :=
  let '(j1, rq1, ex) := spec_poll j p in
  match ex with Some e => (j1, pre ++ rq1, Raise e) | None => k j1 (pre ++ rq1) end.

Definition spec_cancel (j : job) (p a : ans) :=
  after_poll [] j p (fun j1 rq1 =>
    if cancellable (jst j1) then
      if is_ok a
      then (mkjob (jid j1) CANCEL_REQUESTED (jstreak j1) (jres j1) (-1), rq1 ++ [Rq KCancel (jid j1) true], RetNone)
      else (j1, rq1 ++ [Rq KCancel (jid j1) false], Raise (plain_failure a))
    else (j1, rq1, Raise ECannotCancel)).

Definition spec_rerun (j : job) (p1 p2 a : ans) :=
  after_poll [] j p1 (fun j1 rq1 =>
    if failed (jst j1) then
      match a with
      | AOk v _ => (j1, rq1 ++ [Rq KRerun (jid j1) true], RetNew v)
      | _ => (j1, rq1 ++ [Rq KRerun (jid j1) false], Raise (plain_failure a))
      end
    else (* refused; the refusal message reports the status, which is read again *)
      after_poll rq1 j1 p2 (fun j2 rq12 => (j2, rq12, Raise (ECannotRerun (jst j2))))).

(* the results request and its outcomes *)
Definition fetch (j : job) (rq : list req) (a : ans) : job * list req * result :=
  match a with
  | AOk 0 t => (mkjob (jid j) (jst j) (jstreak j) (Some t) (jmsg j), rq ++ [Rq KResults (jid j) true], RetResults t)
  | AOk _ _ => (j, rq ++ [Rq KResults (jid j) true], Raise (if failed (jst j) then EFailed (jmsg j) else ENoResults))
  | _ => (j, rq ++ [Rq KResults (jid j) false], Raise (plain_failure a))
  end.

Definition spec_get_results (j : job) (p1 p2 a : ans) :=
  after_poll [] j p1 (fun j1 rq1 =>
    if maybe_completed (jst j1) then
      match jres j1 with
      | Some t =>      (* a document was fetched earlier: valid once the job is known to be final *)
        after_poll rq1 j1 p2 (fun j2 rq12 => if final (jst j2) then (j2, rq12, RetResults t) else fetch j2 rq12 a)
      | None => fetch j1 rq1 a
      end
    else (j1, rq1, Raise EStillRunning)).

Fixpoint spec_sync_loop (j : job) (ps : list ans) : job * list req * loop_end :=
  match ps with
  | [] => (j, [], LDiverge)
  | p :: ps' =>
    let '(j1, rq1, ex) := spec_poll j p in
    match ex with
    | Some e => (j1, rq1, LRaise e)
    | None => if final (jst j1) then (j1, rq1, LDone) else
              let '(j2, rq2, r) := spec_sync_loop j1 ps' in (j2, rq1 ++ rq2, r)
    end
  end.

Definition spec_exec_sync (j : job) (a : ans) (ps : list ans) (r : ans) :=
  let '(j0, rq0, r0) := spec_exec j a in
  match r0 with
  | RetSelf =>
    let '(j1, rq1, e) := spec_sync_loop j0 ps in
    match e with
    | LDone => let '(j2, rq2, r2) := spec_get_results j1 r r r in (j2, rq0 ++ rq1 ++ rq2, r2)
    | LRaise x => (j1, rq0 ++ rq1, Raise x)
    | LDiverge => (j1, rq0 ++ rq1, Diverge)
    end
  | _ => (j0, rq0, r0)
  end.

Definition spec_step (j : job) (e : event) : job * list req * result :=
  match e with
  | Exec a => spec_exec j a
  | Poll p => let '(j1, rq, ex) := spec_poll j p in
              (j1, rq, match ex with Some x => Raise x | None => RetStatus (jst j1) end)
  | Cancel p a => spec_cancel j p a
  | Rerun p1 p2 a => spec_rerun j p1 p2 a
  | GetResults p1 p2 a => spec_get_results j p1 p2 a
  | ExecSync a ps r => spec_exec_sync j a ps r
  end.

(* ------------------------------------------------------------------ runs *)
Definition out := (list req * result * job)%type.     (* requests, outcome, state after the step *)

Fixpoint run (f : job -> event -> job * list req * result) (j : job) (tr : list event) : list out :=
  match tr with
  | [] => []
  | e :: tr' => let '(j1, rq, r) := f j e in (rq, r, j1) :: run f j1 tr'
  end.

Fixpoint run_state (f : job -> event -> job * list req * result) (j : job) (tr : list event) : job :=
  match tr with
  | [] => j
  | e :: tr' => run_state f (fst (fst (f j e))) tr'
  end.

(* ------------------------------------------------------------------ exchange format *)
Definition to_ans (x : sx) : ans :=
  match to_Z (nthx 0 x) with
  | 0 => AOk (to_Z (nthx 1 x)) (to_Z (nthx 2 x))
  | 1 => AHttp (to_Z (nthx 1 x)) (to_Z (nthx 2 x))
  | _ => AConn (to_Z (nthx 1 x))
  end.

Definition to_event (x : sx) : event :=
  let a i := to_ans (nthx i x) in
  match to_Z (nthx 0 x) with
  | 0 => Exec (a 1%nat)
  | 1 => Poll (a 1%nat)
  | 2 => Cancel (a 1%nat) (a 2%nat)
  | 3 => Rerun (a 1%nat) (a 2%nat) (a 3%nat)
  | 4 => GetResults (a 1%nat) (a 2%nat) (a 3%nat)
  | _ => ExecSync (a 1%nat) (map to_ans (to_list (nthx 2 x))) (a 3%nat)
  end.

Definition of_optZ (o : option Z) : sx := match o with None => L [] | Some v => L [I v] end.
Definition kind_code (k : kind) : Z :=
  match k with KCreate => 0 | KStatus => 1 | KCancel => 2 | KRerun => 3 | KResults => 4 end.
Definition of_req (r : req) : sx := match r with Rq k id ok => L [I (kind_code k); of_optZ id; of_bool ok] end.
Definition of_exn (e : exn) : sx :=
  match e with
  | EAssert => L [I 0] | EHttp c => L [I 1; I c] | EConn => L [I 2] | ECreate m => L [I 3; I m]
  | EStillRunning => L [I 4] | EFailed m => L [I 5; I m] | ENoResults => L [I 6] | ECannotCancel => L [I 7]
  | ECannotRerun s => L [I 8; I (status_code s)]
  end.
Definition of_result (r : result) : sx :=
  match r with
  | RetStatus s => L [I 0; I (status_code s)] | RetSelf => L [I 1] | RetNone => L [I 2] | RetNew v => L [I 3; I v]
  | RetResults t => L [I 4; I t] | Raise e => L [I 5; of_exn e] | Diverge => L [I 6]
  end.
Definition of_job (j : job) : sx :=
  L [of_optZ (jid j); I (status_code (jst j)); of_nat_sx (jstreak j); of_optZ (jres j); I (jmsg j)].
Definition of_out (o : out) : sx := let '(rq, r, j) := o in L [L (map of_req rq); of_result r; of_job j].

(* argument: (born events) with born = () for a job built by the user, (id) for a job returned by rerun *)
Definition x_run (f : job -> event -> job * list req * result) (x : sx) : sx :=
  let j0 := match to_list (nthx 0 x) with [] => fresh_job | i :: _ => new_job (to_Z i) end in
  L (map of_out (run f j0 (map to_event (to_list (nthx 1 x))))).

Definition x_rj_code : sx -> sx := x_run (step cfg_code).
Definition x_rj_patch : sx -> sx := x_run (step cfg_patch).
Definition x_rj_spec : sx -> sx := x_run spec_step.
