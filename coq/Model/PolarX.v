(* Executable polarisation models over Q(i)(sqrt 2) (C13 correspondence). *)
From PV Require Export Model.Polar Model.EnginesX Model.ComponentsX Lib.Q2.

Definition to_q2 (x : sx) : q2 := mkq2 (to_qi (nthx 0 x)) (to_qi (nthx 1 x)).
Definition of_q2 (a : q2) : sx := L [of_qi (qa a); of_qi (qb a)].
Definition to_mat2 (x : sx) : mat Q2 := of_tab (R:=Q2) (map (fun r => map to_q2 (to_list r)) (to_list x)).
Definition of_mat2 (n : nat) (A : mat Q2) : sx := L (map (fun r => L (map of_q2 r)) (tab (R:=Q2) n A)).
Definition q2I : Q2 := q2_i.
Definition q2R : Q2 := q2_rhalf.

(* leaf: [0, kind, args...]   kind 0 spatial matrix (k, U), 1 polarising matrix (k, U: 2k x 2k), 2 WP (cd sd cx sx),
   3 PR (c s), 4 PBS, 5 BS (conv c s e_tl e_bl e_tr e_br), 6 PS (e), 7 PERM (p)
   sub : [1, m, [[off, tree] ...]] *)
Definition to_pleaf (x : sx) : pcomp Q2 :=
  let a i := nthx i x in
  match to_Z (a 1%nat) with
  | 0%Z => PLeaf false (to_nat (a 2%nat)) (to_mat2 (a 3%nat))
  | 1%Z => PLeaf true (to_nat (a 2%nat)) (to_mat2 (a 3%nat))
  | 2%Z => PLeaf true 1 (wp_mat (R:=Q2) q2I (to_q2 (a 2%nat)) (to_q2 (a 3%nat)) (to_q2 (a 4%nat)) (to_q2 (a 5%nat)))
  | 3%Z => PLeaf true 1 (pr_mat (R:=Q2) (to_q2 (a 2%nat)) (to_q2 (a 3%nat)))
  | 4%Z => PLeaf true 2 (pmat (R:=Q2) pbs_perm)
  | 5%Z => PLeaf false 2 (bs_mat (R:=Q2) (to_conv (a 2%nat)) q2I (to_q2 (a 3%nat)) (to_q2 (a 4%nat))
                             (to_q2 (a 5%nat)) (to_q2 (a 6%nat)) (to_q2 (a 7%nat)) (to_q2 (a 8%nat)))
  | 6%Z => PLeaf false 1 (ps_mat (R:=Q2) (to_q2 (a 2%nat)))
  | _ => let p := to_nats (a 2%nat) in PLeaf false (length p) (perm_mat (R:=Q2) p)
  end.
Fixpoint to_pcomp (fuel : nat) (x : sx) : pcomp Q2 :=
  match fuel with
  | O => PLeaf false 1 mid
  | S f =>
      match to_Z (nthx 0 x) with
      | 0%Z => to_pleaf x
      | _ => PSub (to_nat (nthx 1 x))
                  (map (fun it => (to_nat (nthx 0 it), to_pcomp f (nthx 1 it))) (to_list (nthx 2 x)))
      end
  end.
Definition to_tree (x : sx) : pcomp Q2 := to_pcomp 40 x.
Definition to_jones (x : sx) : jones Q2 := (to_q2 (nthx 0 x), to_q2 (nthx 1 x)).
(* a photon is [eh, ev], or [] when it has no P annotation *)
Definition to_photon (x : sx) : photon Q2 := match x with L [] => None | _ => Some (to_jones x) end.
Definition to_ainput (x : sx) : ainput Q2 := map (fun md => map to_photon (to_list md)) (to_list x).
Definition to_pinput (x : sx) : pinput Q2 := resolve_photons (to_ainput x).

(* tree -> [well-formed?, status (0 matrix, 1 numpy raises), dim, matrix] *)
(* fx = true: the code as it is now; fx = false: /repo before the fix commits e38f1486, 53c82d36, 19d38de0 (historical) *)
Definition pol_unitary_g (fx : bool) (c : pcomp Q2) : pol_result Q2 := if fx then pol_unitary c else pol_unitary_old c.
Definition convert_g (fx : bool) (inp : pinput Q2) : conv_result Q2 :=
  if fx then convert (R:=Q2) q2_eqb inp else convert_old (R:=Q2) q2_eqb inp.
Definition x_pol_unitary_g (fx : bool) (x : sx) : sx :=
  let c := to_tree x in
  match pol_unitary_g fx c with
  | PolRaises => L [of_bool (pwfb c); I 1; I 0; L []]
  | PolMat d U => L [of_bool (pwfb c); I 0; of_nat_sx d; of_mat2 d U]
  end.

(* input -> [code, spatial input, prep matrix]; code 0 ok, 1 / 2 ValueError, 3 no matrix (vacuum) *)
Definition x_pol_convert_g (fx : bool) (x : sx) : sx :=
  let inp := to_pinput x in
  match convert_g fx inp with
  | ConvErr c => L [of_nat_sx c; L []; L []]
  | ConvNoMatrix s => L [I 3; of_state s; L []]
  | ConvOk s P => L [I 0; of_state s; of_mat2 (2 * length inp) P]
  end.

(* probabilities a + b sqrt 2 as pairs of rationals *)
Definition p2 := (Qc * Qc)%type.
Definition p2add (a b : p2) : p2 := ((fst a + fst b)%Qc, (snd a + snd b)%Qc).
Definition prob2 (z : q2) (den : nat) : p2 :=
  let n := q2norm2 z in ((fst n / Qc_of_nat den)%Qc, (snd n / Qc_of_nat den)%Qc).
Definition of_p2 (p : p2) : sx := L [of_Qc (fst p); of_Qc (snd p)].
Fixpoint dinsert2 (t : state) (w : p2) (d : list (state * p2)) : list (state * p2) :=
  match d with
  | [] => [(t, w)]
  | (t', w') :: r => if state_eqb t' t then (t', p2add w' w) :: r else (t', w') :: dinsert2 t w r
  end.
Definition dmerge2 (d : list (state * p2)) : list (state * p2) :=
  fold_left (fun acc tw => dinsert2 (fst tw) (snd tw) acc) d [].
Definition of_dist2 (d : list (state * p2)) : sx := L (map (fun tw => L [of_state (fst tw); of_p2 (snd tw)]) d).
Definition mass2 (d : list (state * p2)) : p2 := fold_left (fun acc tw => p2add acc (snd tw)) d (Q2Qc 0, Q2Qc 0).

(* [tree, input] -> [status, merged distribution, [[t, amp_num, norm2] ...] over the sub-modes, mass]
   status 0 ok, 1 circuit raises, 2 conversion ValueError, 3 vacuum (upol @ None raises), 4 dimension mismatch *)
Definition x_pol_probs_g (fx : bool) (x : sx) : sx :=
  let c := to_tree (nthx 0 x) in
  let inp := to_pinput (nthx 1 x) in
  let m := length inp in
  match pol_unitary_g fx c with
  | PolRaises => L [I 1]
  | PolMat d U =>
      match convert_g fx inp with
      | ConvErr _ => L [I 2]
      | ConvNoMatrix _ => L [I 3]
      | ConvOk s _ =>
          if negb (d =? 2 * m)%nat then L [I 4] else
          let ts := allstates (2 * m) (total s) in
          let amps := if fx then impl_amps (R:=Q2) q2_eqb U m inp ts else impl_amps_old (R:=Q2) q2_eqb U m inp ts in
          let rows := combine ts amps in
          let d := dmerge2 (map (fun ta => (merge_sub (fst ta), prob2 (snd ta) (norm2 s (fst ta)))) rows) in
          L [I 0; of_dist2 d;
             L (map (fun ta => L [of_state (fst ta); of_q2 (snd ta); of_nat_sx (norm2 s (fst ta))]) rows);
             of_p2 (mass2 d)]
      end
  end.

(* [tree, input] -> the same merged distribution by the specification's route: one column U . jones_p
   per photon, squared norm of the input = product of (class size)! *)
Definition x_pol_spec_g (fx : bool) (x : sx) : sx :=
  let c := to_tree (nthx 0 x) in
  let inp := to_pinput (nthx 1 x) in
  let m := length inp in
  match pol_unitary_g fx c with
  | PolRaises => L [I 1]
  | PolMat d U =>
      let n := fold_right (fun vs acc => (length vs + acc)%nat) 0%nat inp in
      let ts := allstates (2 * m) n in
      let cols := spec_cols U 0 inp in
      let nin := spec_norm_in (R:=Q2) q2_eqb inp in
      let d := dmerge2 (map (fun t => (merge_sub t, prob2 (permC (2 * m) cols t) (nin * factprod t))) ts) in
      L [I 0; of_dist2 d]
  end.

(* one long-lived PolarizationSimulator.  ops: [0, tree] = set_circuit, [1, input] = probs / evolve on that input.
   answer per op: [9] for set_circuit, [2] for a query that raises (no circuit, conversion ValueError),
   else [0, merged distribution, [[t, amp_num, norm2] ...], mass] as x_pol_probs *)
Definition to_pop (x : sx) : pop Q2 :=
  match to_Z (nthx 0 x) with
  | 0%Z => OpSet (to_tree (nthx 1 x))
  | _ => let inp := to_pinput (nthx 1 x) in
         OpQuery inp (allstates (2 * length inp) (fold_right (fun vs acc => (length vs + acc)%nat) 0%nat inp))
  end.
Definition session_report (o : pop Q2) (a : option (list q2)) : sx :=
  match o, a with
  | OpSet _, _ => L [I 9]
  | OpQuery _ _, None => L [I 2]
  | OpQuery inp ts, Some amps =>
      let s := spatial_input (prep_states (R:=Q2) q2_eqb inp) in
      let rows := combine ts amps in
      let d := dmerge2 (map (fun ta => (merge_sub (fst ta), prob2 (snd ta) (norm2 s (fst ta)))) rows) in
      L [I 0; of_dist2 d;
         L (map (fun ta => L [of_state (fst ta); of_q2 (snd ta); of_nat_sx (norm2 s (fst ta))]) rows);
         of_p2 (mass2 d)]
  end.
Definition x_pol_session (x : sx) : sx :=
  let h := map to_pop (to_list x) in
  L (map (fun oa => session_report (fst oa) (snd oa)) (combine h (prun (R:=Q2) q2_eqb psim0 h))).

(* Processor level.  request: [m, [[off, tree] ...], [op ...]] with ops [0, input] with_polarized_input, [1] noise
   assignment, [2, off, tree] add, [3, k] min_detected_photons_filter, [4] probs.
   answer per op: [9], or for probs [2] (raises) / [0, passes filter?, merged distribution, rows, mass] *)
Fixpoint to_cops (m : nat) (cur : pinput Q2) (l : list sx) : list (cop Q2 * pinput Q2) :=
  match l with
  | [] => []
  | x :: r =>
      match to_Z (nthx 0 x) with
      | 0%Z => let inp := to_pinput (nthx 1 x) in (CInput inp, inp) :: to_cops m inp r
      | 1%Z => (CNoise, cur) :: to_cops m cur r
      | 2%Z => (CAdd (to_nat (nthx 1 x)) (to_tree (nthx 2 x)), cur) :: to_cops m cur r
      | 3%Z => (CFilter (to_nat (nthx 1 x)), cur) :: to_cops m cur r
      | _ => (CProbs (allstates (2 * m) (nphotons cur)), cur) :: to_cops m cur r
      end
  end.
Definition processor_report (oi : cop Q2 * pinput Q2) (a : option (bool * list q2)) : sx :=
  match fst oi, a with
  | CProbs ts, Some (pass, amps) =>
      match session_report (OpQuery (snd oi) ts) (Some amps) with
      | L (st :: rest) => L (st :: of_bool pass :: rest)
      | y => y
      end
  | CProbs _, None => L [I 2]
  | _, _ => L [I 9]
  end.
Definition x_pol_processor (x : sx) : sx :=
  let m := to_nat (nthx 0 x) in
  let items := map (fun it => (to_nat (nthx 0 it), to_tree (nthx 1 it))) (to_list (nthx 1 x)) in
  let h := to_cops m [] (to_list (nthx 2 x)) in
  L (map (fun oa => processor_report (fst oa) (snd oa))
         (combine h (crun (R:=Q2) q2_eqb (mkpproc m items None None None None) (map fst h)))).

Definition all_labels : list label := [LH; LV; LD; LA; LR; LL].
(* () -> for H V D A R L: [a, b, jones_label, jones_standard] *)
Definition x_labels (_ : sx) : sx :=
  L (map (fun l => let ab := label_angles l in
                   let j := jones_label (R:=Q2) q2I q2R l in let s := jones_standard (R:=Q2) q2I q2R l in
                   L [of_nat_sx (fst ab); of_nat_sx (snd ab); L [of_q2 (fst j); of_q2 (snd j)]; L [of_q2 (fst s); of_q2 (snd s)]])
         all_labels).

Definition x_pol_unitary := x_pol_unitary_g true.
Definition x_pol_convert := x_pol_convert_g true.
Definition x_pol_probs := x_pol_probs_g true.
Definition x_pol_spec := x_pol_spec_g true.
