(* Executable construction programs over named circuit variables (C01 correspondence). *)
From PV Require Export Model.Circuit Lib.Sx.

Definition to_mat (x : sx) : mat QI := of_tab (R:=QI) (to_lmat x).
Definition of_mat (n : nat) (A : mat QI) : sx := of_lmat (tab (R:=QI) n A).

Inductive operand := OVar (v : nat) | OLeaf (k : nat) (U : mat QI).
Definition to_operand (x : sx) : operand :=
  match to_Z (nthx 0 x) with
  | 0%Z => OVar (to_nat (nthx 1 x))
  | _ => OLeaf (to_nat (nthx 1 x)) (to_mat (nthx 2 x))
  end.

Inductive stmt :=
| SNew (v m : nat)
| SAdd (v off : nat) (o : operand) (merge : bool)
| SFloorDiv (dst v off : nat) (o : operand)
| SMatMul (dst v off : nat) (o : operand)
| SIMatMul (v off : nat) (o : operand)
| SBarrier (v : nat)
| SCopy (dst v : nat)
| SAddRange (v : nat) (r : list Z) (o : operand) (merge : bool).   (* c.add(<explicit list/tuple of modes>, x, merge) *)

(* Circuit.add given an explicit range: the range must be the consecutive ascending modes o, o+1, ..., o+k-1 (k the
   operand's width); then it is the add at offset o.  Anything else (permuted, repeated, gapped, too short or too long,
   negative) is refused. *)
Fixpoint zlist_eqb (a b : list Z) : bool :=
  match a, b with
  | [], [] => true
  | x :: a', y :: b' => Z.eqb x y && zlist_eqb a' b'
  | _, _ => false
  end.
Definition range_off (r : list Z) (k : nat) : option nat :=
  match r with
  | [] => None
  | z :: _ => if ((0 <=? z)%Z && zlist_eqb r (map Z.of_nat (seq (Z.to_nat z) k)))%bool then Some (Z.to_nat z) else None
  end.

Definition to_stmt (x : sx) : stmt :=
  let a i := to_nat (nthx i x) in
  match to_Z (nthx 0 x) with
  | 0%Z => SNew (a 1%nat) (a 2%nat)
  | 1%Z => SAdd (a 1%nat) (a 2%nat) (to_operand (nthx 3 x)) (to_bool (nthx 4 x))
  | 2%Z => SFloorDiv (a 1%nat) (a 2%nat) (a 3%nat) (to_operand (nthx 4 x))
  | 3%Z => SAdd (a 1%nat) (a 2%nat) (to_operand (nthx 3 x)) true           (* v //= (off, o) *)
  | 4%Z => SMatMul (a 1%nat) (a 2%nat) (a 3%nat) (to_operand (nthx 4 x))
  | 5%Z => SIMatMul (a 1%nat) (a 2%nat) (to_operand (nthx 3 x))
  | 6%Z => SBarrier (a 1%nat)
  | 8%Z => SAddRange (a 1%nat) (to_Zs (nthx 2 x)) (to_operand (nthx 3 x)) (to_bool (nthx 4 x))
  | _ => SCopy (a 1%nat) (a 2%nat)
  end.

Definition env := list (option (comp QI)).
Definition get (e : env) (v : nat) : option (comp QI) := nth v e None.
Fixpoint set (e : env) (v : nat) (c : comp QI) : env :=
  match v, e with
  | O, [] => [Some c]
  | O, _ :: r => Some c :: r
  | S v', [] => None :: set [] v' c
  | S v', x :: r => x :: set r v' c
  end.
Definition resolve (e : env) (o : operand) : option (comp QI) :=
  match o with OVar v => get e v | OLeaf k U => if (0 <? k)%nat then Some (Leaf k U) else None end.

(* one statement: (env', accepted). A rejected statement leaves the environment unchanged, except
   `v @= x` whose barrier has already been appended when the add is refused (Circuit.__imatmul__). *)
Definition step (e : env) (s : stmt) : env * bool :=
  match s with
  | SNew v m => if (0 <? m)%nat then (set e v (Sub m []), true) else (e, false)
  | SAdd v off o merge =>
      match get e v, resolve e o with
      | Some c, Some x => match add c off x merge with Some c' => (set e v c', true) | None => (e, false) end
      | _, _ => (e, false) end
  | SFloorDiv dst v off o =>
      match get e v, resolve e o with
      | Some c, Some x => match floordiv c off x with Some c' => (set e dst c', true) | None => (e, false) end
      | _, _ => (e, false) end
  | SMatMul dst v off o =>
      match get e v, resolve e o with
      | Some c, Some x => match matmul c off x with Some c' => (set e dst c', true) | None => (e, false) end
      | _, _ => (e, false) end
  | SIMatMul v off o =>
      match get e v, resolve e o with
      | Some c, Some x =>
          match barrier c with
          | Some cb => match floordiv cb off x with Some c' => (set e v c', true) | None => (set e v cb, false) end
          | None => (e, false) end
      | _, _ => (e, false) end
  | SBarrier v =>
      match get e v with
      | Some c => match barrier c with Some c' => (set e v c', true) | None => (e, false) end
      | None => (e, false) end
  | SCopy dst v => match get e v with Some c => (set e dst c, true) | None => (e, false) end
  | SAddRange v r o merge =>
      match get e v, resolve e o with
      | Some c, Some x =>
          match range_off r (width x) with
          | Some off => match add c off x merge with Some c' => (set e v c', true) | None => (e, false) end
          | None => (e, false)
          end
      | _, _ => (e, false) end
  end.

Definition report_var (v : nat) (oc : option (comp QI)) : list sx :=
  match oc with
  | None => []
  | Some c => [L [of_nat_sx v; of_nat_sx (width c); of_mat (width c) (cmat c);
                  L (map (fun x => match x with (o, k, _) => L [of_nat_sx o; of_nat_sx k] end) (flatten 0 c))]]
  end.
Fixpoint report_env (v : nat) (e : env) : list sx :=
  match e with [] => [] | oc :: r => report_var v oc ++ report_env (S v) r end.

Definition stmt_target (s : stmt) : nat :=
  match s with
  | SNew v _ | SAdd v _ _ _ | SIMatMul v _ _ | SBarrier v | SAddRange v _ _ _ => v
  | SFloorDiv dst _ _ _ | SMatMul dst _ _ _ | SCopy dst _ => dst
  end.
(* the model is pure: a statement can only change its target variable, so only that one is reported
   (the harness checks that every other variable of the implementation kept its previous matrix) *)
Fixpoint run_prog (e : env) (p : list stmt) : list sx :=
  match p with
  | [] => []
  | s :: r => let (e', ok) := step e s in
              L [of_bool ok; L (report_var (stmt_target s) (get e' (stmt_target s)))] :: run_prog e' r
  end.

Definition x_run_prog (x : sx) : sx := L (run_prog [] (map to_stmt (to_list x))).
