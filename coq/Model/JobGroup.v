(* C19 — executable model of perceval/runtime/job_group.py (JobGroup) and of the parts of remote_job.py and
   persistent_data.py it relies on.  No proofs here.

   Memory  = ordered list of job records (the fields of RemoteJob that JobGroup reads or writes).
   Disk    = the JSON image of the group as a list of per-job records (JobGroup._to_json / RemoteJob._to_dict);
             PersistentData.write_file replaces the whole file, read_file returns it (torn writes are outside the
             statement's quantifier).
   Server  = a script of answers consumed one per HTTP request, in request order (an empty script answers HTTP 500).
   An operation is a function on the machine state with the write points of the code; it returns or raises.

   Configurations: `cur` is the code as it is now; `old` is the code before the repairs bf317fcd (RemoteJob._from_dict
   restores job_context from the stored body), 13320b52 (JobGroup.add prepares and validates the payload before
   the append, with or without keyword arguments) and 9afb11d4 (_launch_jobs writes once more on leaving its loop,
   normally or by an exception, iff the jobs differ from what was last written or read) and 65ec16e2 (get_results
   does the same on leaving its per-job loop). `old` is kept only for the historical `_old_code` witnesses.

   Faithful quirks (each is visible in the Python source):
   * _to_dict stores status None for an unsent job, and no body for a SUCCESS job;
   * _from_dict builds RemoteJob(body, handler, name, job_context=body['payload'].get('job_context')): delta
     parameters and the error counter are NOT restored (they restart at empty / 0), the job context is (it was not
     before bf317fcd: the stored entry was then dead, overwritten by None before every use);
   * _create_payload_data merges the command delta parameters into the payload, then lowers max_samples to max_shots;
     comparing None with an int raises TypeError (a max_samples delta parameter left unfilled);
   * add prepares the payload (TypeError / RuntimeError) before it appends, then writes (before 13320b52 the payload
     was prepared only when keyword arguments were given, so the TypeError came from the write, after the append);
   * execute_async asserts the status is WAITING; a refused job keeps id None and gets status ERROR;
   * _launch_jobs iterates over the initial range only; in rerun mode `job.is_failed` goes through the `status`
     property, which may refresh the status from the server without a write;
   * the sequential variants poll `job.status` until completion between two writes;
   * _handle_status_error raises on the 5th consecutive error only (== 5), and on non-retryable HTTP codes. *)
From PV Require Export Lib.Sx.
Require Import List ZArith Bool.
Import ListNotations.

Inductive status := WAITING | RUNNING | SUCCESS | ERROR | CANCELED | SUSPENDED | CANCEL_REQUESTED | UNKNOWN.

Definition st_code (s : status) : Z :=
  match s with WAITING => 0 | RUNNING => 1 | SUCCESS => 2 | ERROR => 3 | CANCELED => 4 | SUSPENDED => 5
             | CANCEL_REQUESTED => 6 | UNKNOWN => 7 end%Z.
Definition st_of_code (z : Z) : status :=
  match z with 0 => WAITING | 1 => RUNNING | 2 => SUCCESS | 3 => ERROR | 4 => CANCELED | 5 => SUSPENDED
             | 6 => CANCEL_REQUESTED | _ => UNKNOWN end%Z.
Definition status_eqb (a b : status) : bool := Z.eqb (st_code a) (st_code b).

(* JobStatus predicates *)
Definition completed (s : status) : bool := match s with SUCCESS | ERROR | CANCELED => true | _ => false end.
Definition failed (s : status) : bool := match s with ERROR | CANCELED => true | _ => false end.
Definition success (s : status) : bool := match s with SUCCESS => true | _ => false end.
Definition waiting (s : status) : bool := match s with WAITING => true | _ => false end.
Definition running (s : status) : bool := match s with RUNNING | CANCEL_REQUESTED => true | _ => false end.
Definition maybe_completed (s : status) : bool :=
  match s with SUCCESS | ERROR | CANCELED | UNKNOWN => true | _ => false end.

(* ---------------------------------------------------------------- request data *)
(* a parameter value: None (Python None, "to be filled") or an integer *)
Definition pval := option Z.
(* payload: the two entries the code looks at (absent / present with a value) + an opaque token for the rest *)
Record payload := mkpay { p_ms : option pval; p_sh : option pval; p_other : Z }.
(* mapping delta parameters {max_samples, max_shots}; None = empty mapping *)
Definition mdelta := option (pval * pval).
(* the 'job_context' entry as sent: None, or a dict with an optional result_mapping and optional
   mapping_delta_parameters *)
Definition ectx_t := option (option Z * mdelta).
Record body := mkbody { b_name : Z; b_pay : payload; b_ctx : ectx_t }.

Record job := mkjob {
  jid : option Z;          (* _id *)
  jst : status;            (* _job_status.status *)
  jerrs : nat;             (* _status_refresh_error *)
  jname : Z;               (* _name *)
  jpay : payload;          (* _request_data['payload'] as given *)
  jdcmd : option pval;     (* _delta_parameters['command'] : absent / {'max_samples': v} *)
  jdmap : mdelta;          (* _delta_parameters['mapping'] *)
  jctx : ectx_t;           (* _job_context: None / dict with optional result_mapping and mapping_delta_parameters *)
  jmeta : Z                (* the RPCHandler (platform, url, token, proxies), opaque *)
}.

Definition sent (j : job) : bool := match jid j with Some _ => true | None => false end.
Definition set_st (j : job) (s : status) : job :=
  mkjob (jid j) s (jerrs j) (jname j) (jpay j) (jdcmd j) (jdmap j) (jctx j) (jmeta j).
Definition set_errs (j : job) (e : nat) : job :=
  mkjob (jid j) (jst j) e (jname j) (jpay j) (jdcmd j) (jdmap j) (jctx j) (jmeta j).
Definition set_id (j : job) (i : Z) : job :=
  mkjob (Some i) (jst j) (jerrs j) (jname j) (jpay j) (jdcmd j) (jdmap j) (jctx j) (jmeta j).

(* _create_payload_data: the job_context that is put into the payload *)
Definition ectx (j : job) : ectx_t :=
  match jdmap j with
  | None => jctx j
  | Some m => Some (match jctx j with Some (r, _) => r | None => None end, Some m)
  end.

(* _check_max_shots_samples_validity; None = TypeError ('>' between NoneType and int) *)
Definition clamp (p : payload) : option payload :=
  match p_ms p, p_sh p with
  | Some a, Some b =>
      match a, b with
      | Some x, Some y => Some (if Z.ltb y x then mkpay (Some (Some y)) (p_sh p) (p_other p) else p)
      | _, _ => None
      end
  | _, _ => Some p
  end.

(* _create_payload_data() : the request body that is stored / sent; None = TypeError *)
Definition eff_body (j : job) : option body :=
  let p1 := match jdcmd j with
            | Some v => mkpay (Some v) (p_sh (jpay j)) (p_other (jpay j))
            | None => jpay j end in
  match clamp p1 with
  | Some p2 => Some (mkbody (jname j) p2 (ectx j))
  | None => None
  end.

(* Job._handle_params with keyword arguments {max_samples: kms} (+ an unknown keyword when kbad);
   None = RuntimeError (unused parameters) *)
Definition handle_params (j : job) (kms : option Z) (kbad : bool) : option job :=
  let '(dc, k1) := match jdcmd j, kms with
                   | Some None, Some v => (Some (Some v), None)
                   | d, k => (d, k) end in
  let '(dm, k2) := match jdmap j, k1 with
                   | Some (None, sh), Some v => (Some (Some v, sh), None)
                   | d, k => (d, k) end in
  match k2, kbad with
  | None, false => Some (mkjob (jid j) (jst j) (jerrs j) (jname j) (jpay j) dc dm (jctx j) (jmeta j))
  | _, _ => None
  end.

(* ---------------------------------------------------------------- disk image *)
Record djob := mkdjob { d_id : option Z; d_st : option status; d_meta : Z; d_body : option body }.

(* RemoteJob._to_dict; None = TypeError while preparing the payload *)
Definition to_disk (j : job) : option djob :=
  let s := if sent j then Some (jst j) else None in
  if success (jst j) then Some (mkdjob (jid j) s (jmeta j) None)
  else match eff_body j with
       | Some b => Some (mkdjob (jid j) s (jmeta j) (Some b))
       | None => None
       end.

Definition dummy_pay : payload := mkpay None None 0.

(* which version of the code *)
Record cfg := mkcfg { restore_ctx : bool;      (* bf317fcd *)
                      add_validates : bool;    (* 13320b52 *)
                      write_on_exit : bool;    (* 9afb11d4 *)
                      results_write : bool }.  (* 65ec16e2 *)
Definition cur : cfg := mkcfg true true true true.
Definition old : cfg := mkcfg false false false false.
Definition before_9afb11d4 : cfg := mkcfg true true false false.
Definition before_65ec16e2 : cfg := mkcfg true true true false.

(* JobGroup._build_remote_job + RemoteJob._from_dict *)
Definition from_disk (c : cfg) (d : djob) : job :=
  let s := match d_st d with Some s => s | None => WAITING end in
  match d_st d, d_body d with
  | Some SUCCESS, _ => mkjob (d_id d) s 0 0 dummy_pay None None None (d_meta d)
  | _, Some b => mkjob (d_id d) s 0 (b_name b) (b_pay b) None None (if restore_ctx c then b_ctx b else None) (d_meta d)
  | _, None => mkjob (d_id d) s 0 0 dummy_pay None None None (d_meta d)   (* KeyError in Python; unreachable *)
  end.

(* JobGroup._to_json : every job, in order; None = TypeError (nothing is written) *)
Fixpoint save (l : list job) : option (list djob) :=
  match l with
  | [] => Some []
  | j :: r => match to_disk j, save r with
              | Some d, Some ds => Some (d :: ds)
              | _, _ => None
              end
  end.
Definition load (c : cfg) (ds : list djob) : list job := map (from_disk c) ds.

(* ---------------------------------------------------------------- server *)
Inductive answer :=
| AOk (id : Z) (s : status)   (* create / rerun: 200 with this job id; status: 200 with this status *)
| ATransient                   (* HTTP 429 *)
| AFatal.                      (* HTTP 500 *)
Definition script := list answer.
Definition pop (sc : script) : answer * script :=
  match sc with [] => (AFatal, []) | a :: t => (a, t) end.

(* what the outside world sees, in order: HTTP requests, and whole-file writes (PersistentData.write_file) *)
Inductive req := RCreate (b : body) | RRerun (id : option Z) | RStatus (id : option Z) | RWrite
                | RResult (id : option Z).

(* exceptions *)
Inductive outcome := Returned | Raised (e : Z).
Definition E_DUP := 1%Z.      (* ValueError: duplicate job *)
Definition E_KWARGS := 2%Z.   (* RuntimeError: unused parameters *)
Definition E_TYPE := 3%Z.     (* TypeError: None compared with int *)
Definition E_HTTP := 4%Z.     (* HTTPError *)
Definition E_ASSERT := 5%Z.   (* AssertionError: job has already been executed *)

(* RemoteJob.status on a sent, not completed job: one request *)
Inductive pollres := PStatus (j : job) | PRaise (j : job).
Definition poll (j : job) (sc : script) : pollres * script :=
  let (a, sc') := pop sc in
  match a with
  | AOk _ s => (PStatus (set_st (set_errs j 0) s), sc')
  | ATransient => let e := S (jerrs j) in
                  if Nat.eqb e 5 then (PRaise (set_errs j e), sc') else (PStatus (set_errs j e), sc')
  | AFatal => (PRaise (set_errs j (S (jerrs j))), sc')
  end.
Definition polls (j : job) : bool := sent j && negb (completed (jst j)).

(* ---------------------------------------------------------------- machine *)
(* udirty is a ghost flag (not a Python variable; instrumentation for the analysis of the code before 9afb11d4 only): "a status changed in memory through a poll inside a launch
   loop and no write has happened since". It is reset at every write and at the start of every operation. *)
Record mach := mkm { mem : list job; disk : list djob; scr : script; rlog : list req; udirty : bool }.

Definition changed (j j' : job) : bool := negb (status_eqb (jst j) (jst j')).

(* JobGroup._update_job_statuses; current list = pre ++ post *)
Fixpoint upd_loop (pre post : list job) (dk : list djob) (sc : script) (lg : list req)
  : list job * list djob * script * list req * outcome :=
  match post with
  | [] => (pre, dk, sc, lg, Returned)
  | j :: post' =>
      if polls j then
        let lg' := lg ++ [RStatus (jid j)] in
        match poll j sc with
        | (PRaise j', sc') => (pre ++ j' :: post', dk, sc', lg', Raised E_HTTP)
        | (PStatus j', sc') =>
            if changed j j' then
              match save (pre ++ j' :: post') with
              | None => (pre ++ j' :: post', dk, sc', lg', Raised E_TYPE)
              | Some d => upd_loop (pre ++ [j']) post' d sc' (lg' ++ [RWrite])
              end
            else upd_loop (pre ++ [j']) post' dk sc' lg'
        end
      else upd_loop (pre ++ [j]) post' dk sc lg
  end.

Definition update_statuses (m : mach) : mach * outcome :=
  let '(l, d, sc, lg, o) := upd_loop [] (mem m) (disk m) (scr m) (rlog m) in
  (mkm l d sc lg (udirty m), o).

(* `while not job.status.completed: sleep(1)` — every iteration is one request; the script is finite and an
   exhausted script answers 500, so fuel = S (length script) is never exhausted. Returns the job, the script,
   the log and whether the loop ended by an exception. *)
Fixpoint wait_loop (fuel : nat) (j : job) (sc : script) (lg : list req) : job * script * list req * outcome :=
  match fuel with
  | O => (j, sc, lg, Raised E_HTTP)
  | S f =>
      if polls j then
        match poll j sc with
        | (PRaise j', sc') => (j', sc', lg ++ [RStatus (jid j)], Raised E_HTTP)
        | (PStatus j', sc') => wait_loop f j' sc' (lg ++ [RStatus (jid j)])
        end
      else (j, sc, lg, Returned)
  end.

(* a RemoteJob produced by rerun(): _from_dict of the failed job's dictionary with the new id, status WAITING *)
Definition rerun_job (c : cfg) (j : job) (b : body) (i : Z) : job :=
  from_disk c (mkdjob (Some i) (Some WAITING) (jmeta j) (Some b)).

(* JobGroup._launch_jobs, one iteration of the main loop. Current list = pre ++ j :: post ++ app (app: jobs appended
   by rerun without replacement; they are not visited, the range was computed before the loop). *)
Inductive lres :=
| LCont (pre app : list job) (dk : list djob) (sc : script) (lg : list req) (dirty : bool)
| LStop (m : mach) (o : outcome).

(* where the (re)launched job y goes: in place, or appended after the job it was re-run from *)
Definition place (rerun repl : bool) (pre app : list job) (old y : job) : list job * list job :=
  if rerun && negb repl then (pre ++ [old], app ++ [y]) else (pre ++ [y], app).

(* after the job at this position has been (re)launched as x: write, [wait, write] *)
Definition launched (rerun seq repl : bool) (pre post app : list job) (dk : list djob) (dirty : bool)
  (old x : job) (sc1 : script) (lg1 : list req) : lres :=
  let '(preA, appA) := place rerun repl pre app old x in
  match save (preA ++ post ++ appA) with
  | None => LStop (mkm (preA ++ post ++ appA) dk sc1 lg1 dirty) (Raised E_TYPE)
  | Some d1 =>
      let lg1 := lg1 ++ [RWrite] in
      if seq then
        let '(x', sc2, lg2, o) := wait_loop (S (length sc1)) x sc1 lg1 in
        let '(preB, appB) := place rerun repl pre app old x' in
        match o with
        | Raised e => LStop (mkm (preB ++ post ++ appB) d1 sc2 lg2 (changed x x')) (Raised e)
        | Returned =>
            match save (preB ++ post ++ appB) with
            | None => LStop (mkm (preB ++ post ++ appB) d1 sc2 lg2 (changed x x')) (Raised E_TYPE)
            | Some d2 => LCont preB appB d2 sc2 (lg2 ++ [RWrite]) false
            end
        end
      else LCont preA appA d1 sc1 lg1 false
  end.

Definition lstop (pre : list job) (cur : job) (post app : list job) (dk : list djob) (sc : script) (lg : list req)
  (dy : bool) (e : Z) : lres :=
  LStop (mkm (pre ++ cur :: post ++ app) dk sc lg dy) (Raised e).

(* rerun mode, once `job.is_failed` has returned: j1 is the job with its possibly refreshed status *)
Definition rerun_after_status (c : cfg) (seq repl : bool) (pre : list job) (j j1 : job) (post app : list job)
  (dk : list djob) (sc1 : script) (lg1 : list req) (dirty : bool) : lres :=
  let dirty1 := dirty || changed j j1 in
  if failed (jst j1) then
    (* RemoteJob.rerun: _to_dict, then the rerun request *)
    match eff_body j1 with
    | None => lstop pre j1 post app dk sc1 lg1 dirty1 E_TYPE
    | Some b =>
        match jid j1 with
        | None => lstop pre j1 post app dk sc1 (lg1 ++ [RRerun None]) dirty1 E_HTTP   (* /api/job/rerun/None : 404 *)
        | Some i =>
            let (a, sc2) := pop sc1 in
            let lg2 := lg1 ++ [RRerun (Some i)] in
            match a with
            | AOk i' _ => launched true seq repl pre post app dk dirty1 j1 (rerun_job c j1 b i') sc2 lg2
            | _ => lstop pre j1 post app dk sc2 lg2 dirty1 E_HTTP
            end
        end
    end
  else LCont (pre ++ [j1]) app dk sc1 lg1 dirty1.

Definition launch_one (c : cfg) (rerun seq repl : bool) (pre : list job) (j : job) (post app : list job) (dk : list djob)
  (sc : script) (lg : list req) (dirty : bool) : lres :=
  if rerun then
    (* job.is_failed -> job.status (may refresh) *)
    if polls j then
      match poll j sc with
      | (PRaise j1, sc1) => lstop pre j1 post app dk sc1 (lg ++ [RStatus (jid j)]) dirty E_HTTP
      | (PStatus j1, sc1) => rerun_after_status c seq repl pre j j1 post app dk sc1 (lg ++ [RStatus (jid j)]) dirty
      end
    else rerun_after_status c seq repl pre j j post app dk sc lg dirty
  else if sent j then LCont (pre ++ [j]) app dk sc lg dirty
  else if negb (waiting (jst j)) then lstop pre j post app dk sc lg dirty E_ASSERT
  else
    match eff_body j with
    | None => lstop pre (set_st j ERROR) post app dk sc lg dirty E_TYPE
    | Some b =>
        let (a, sc1) := pop sc in
        let lg1 := lg ++ [RCreate b] in
        match a with
        | AOk i _ => launched false seq repl pre post app dk dirty j (set_st (set_id j i) WAITING) sc1 lg1
        | _ => lstop pre (set_st j ERROR) post app dk sc1 lg1 dirty E_HTTP
        end
    end.

Fixpoint launch_loop (c : cfg) (rerun seq repl : bool) (pre post app : list job) (dk : list djob) (sc : script)
  (lg : list req) (dirty : bool) : mach * outcome :=
  match post with
  | [] => (mkm (pre ++ app) dk sc lg dirty, Returned)
  | j :: post' =>
      match launch_one c rerun seq repl pre j post' app dk sc lg dirty with
      | LCont pre' app' dk' sc' lg' dirty' => launch_loop c rerun seq repl pre' post' app' dk' sc' lg' dirty'
      | LStop m o => (m, o)
      end
  end.

(* decidable equality of file images (JobGroup._write_to_file_if_changed compares lists of dictionaries) *)
Definition djobs_eq_dec : forall a b : list djob, {a = b} + {a <> b}.
Proof. repeat decide equality. Defined.

(* 9afb11d4: `finally: self._write_to_file_if_changed()` around the loop of _launch_jobs — on normal exit and on an
   exception, the group is written once more iff its image differs from what this object last wrote or read (which is
   the file content: only this object writes the file) *)
(* JobGroup._write_to_file_if_changed, in a `finally` *)
Definition write_if_changed (r : mach * outcome) : mach * outcome :=
  let (m, o) := r in
  match save (mem m) with
  | None => (m, Raised E_TYPE)
  | Some d => if djobs_eq_dec d (disk m) then (mkm (mem m) (disk m) (scr m) (rlog m) false, o)
              else (mkm (mem m) d (scr m) (rlog m ++ [RWrite]) false, o)
  end.
Definition finish (c : cfg) (r : mach * outcome) : mach * outcome :=
  if write_on_exit c then write_if_changed r else r.

Definition launch (c : cfg) (rerun seq repl : bool) (m : mach) : mach * outcome :=
  if rerun then
    (* job_nmb = len(self.list_unsuccessful_jobs()) : a refresh pass first (outside the try) *)
    let '(m1, o) := update_statuses m in
    match o with
    | Raised e => (m1, Raised e)
    | Returned => finish c (launch_loop c true seq repl [] (mem m1) [] (disk m1) (scr m1) (rlog m1) false)
    end
  else finish c (launch_loop c false seq repl [] (mem m) [] (disk m) (scr m) (rlog m) false).

(* ---------------------------------------------------------------- operations *)
Record spec := mkspec { s_name : Z; s_pay : payload; s_dcmd : option pval; s_dmap : mdelta; s_ctx : option Z;
                        s_meta : Z }.
Definition job_of_spec (s : spec) : job :=
  mkjob None WAITING 0 (s_name s) (s_pay s) (s_dcmd s) (s_dmap s)
        (match s_ctx s with Some r => Some (Some r, None) | None => None end) (s_meta s).

Inductive op :=
| OReopen                                              (* the process stops; JobGroup(name) again *)
| OAdd (s : spec) (pre : bool) (kms : option Z) (kbad : bool)
     (* [job.execute_async() by the caller, exceptions swallowed;] group.add(job, [max_samples=kms], [bogus=1]) *)
| ORun (seq : bool)                                    (* run_parallel / run_sequential *)
| ORerun (seq repl : bool)                             (* rerun_failed_parallel / rerun_failed_sequential *)
| OProgress                                            (* progress(), list_successful/active/unsuccessful_jobs() *)
| OReadd (k : nat)
| OGetResults                                          (* get_results() *)
| OTrack.                                              (* track_progress(), when it can terminate *)                                    (* group.add(group[k]) for a job of the group that was sent *)

(* the caller's own job.execute_async() before adding the job *)
Definition pre_exec (j : job) (sc : script) (lg : list req) : job * script * list req :=
  match eff_body j with
  | None => (set_st j ERROR, sc, lg)
  | Some b => let (a, sc1) := pop sc in
              match a with
              | AOk i _ => (set_st (set_id j i) WAITING, sc1, lg ++ [RCreate b])
              | _ => (set_st j ERROR, sc1, lg ++ [RCreate b])
              end
  end.

Definition zmem (z : Z) (l : list (option Z)) : bool := existsb (fun o => match o with Some y => Z.eqb z y | None => false end) l.

Definition add_job (c : cfg) (m : mach) (j : job) (kms : option Z) (kbad : bool) : mach * outcome :=
  let dup := match jid j with Some i => zmem i (map jid (mem m)) | None => false end in
  if dup then (m, Raised E_DUP)
  else
    let has_kw := match kms with Some _ => true | None => kbad end in
    let r := if add_validates c || has_kw then
               match handle_params j kms kbad with
               | None => inr E_KWARGS
               | Some j' => match eff_body j' with None => inr E_TYPE | Some _ => inl j' end
               end
             else inl j in
    match r with
    | inr e => (m, Raised e)
    | inl j' =>
        let l := mem m ++ [j'] in
        match save l with
        | None => (mkm l (disk m) (scr m) (rlog m) (udirty m), Raised E_TYPE)
        | Some d => (mkm l d (scr m) (rlog m ++ [RWrite]) false, Returned)
        end
    end.

(* JobGroup.get_results after its refresh pass: for every job that may be completed, RemoteJob.get_results():
   `self.status` (refreshes an UNKNOWN job from the server — without a write), then the results request. The fake
   server never has results (`results: null` -> RuntimeError 'Results are not available', swallowed by the group);
   an HTTP error of either request propagates. *)
Fixpoint results_loop (pre post : list job) (sc : script) (lg : list req) (dirty : bool)
  : list job * script * list req * bool * outcome :=
  match post with
  | [] => (pre, sc, lg, dirty, Returned)
  | j :: post' =>
      if maybe_completed (jst j) then
        let '(pr, sc1, lg1) := if polls j then (let (r, s) := poll j sc in (r, s, lg ++ [RStatus (jid j)]))
                               else (PStatus j, sc, lg) in
        match pr with
        | PRaise j1 => (pre ++ j1 :: post', sc1, lg1, dirty, Raised E_HTTP)
        | PStatus j1 =>
            let dirty1 := dirty || changed j j1 in
            if maybe_completed (jst j1) then
              match jid j1 with
              | None => (pre ++ j1 :: post', sc1, lg1 ++ [RResult None], dirty1, Raised E_HTTP)   (* /result/None : 404 *)
              | Some i =>
                  let (a, sc2) := pop sc1 in
                  let lg2 := lg1 ++ [RResult (Some i)] in
                  match a with
                  | AOk _ _ => results_loop (pre ++ [j1]) post' sc2 lg2 dirty1
                  | _ => (pre ++ j1 :: post', sc2, lg2, dirty1, Raised E_HTTP)
                  end
              end
            else results_loop (pre ++ [j1]) post' sc1 lg1 dirty1     (* RuntimeError 'still running', swallowed *)
        end
      else results_loop (pre ++ [j]) post' sc lg dirty
  end.

(* 65ec16e2: the per-job loop runs under `try/finally: self._write_to_file_if_changed()` *)
Definition get_results (c : cfg) (m : mach) : mach * outcome :=
  let '(m1, o) := update_statuses m in
  match o with
  | Raised e => (m1, Raised e)
  | Returned =>
      let '(l, sc, lg, dy, o2) := results_loop [] (mem m1) (scr m1) (rlog m1) false in
      let r := (mkm l (disk m1) sc lg dy, o2) in
      if results_write c then write_if_changed r else r
  end.

(* JobGroup.track_progress: list_active_jobs() (a refresh pass), then refresh passes until no job counts as
   waiting/running. A never-sent job counts as waiting for ever (the method would not return): the operation is
   defined — and called by the driver — only when there is none. Every further pass then polls at least one job,
   and an exhausted script answers 500, so fuel = S (length script) is never exhausted. *)
Definition counts_running (l : list job) : bool :=
  existsb (fun j => negb (success (jst j)) && (waiting (jst j) || running (jst j))) l.
Fixpoint track_loop (fuel : nat) (m : mach) : mach * outcome :=
  match fuel with
  | O => (m, Raised E_HTTP)
  | S f =>
      let '(m1, o) := update_statuses m in
      match o with
      | Raised e => (m1, Raised e)
      | Returned => if counts_running (mem m1) then track_loop f m1 else (m1, Returned)
      end
  end.
Definition never_sent_waiting (l : list job) : bool := existsb (fun j => negb (sent j) && waiting (jst j)) l.
Definition track (m : mach) : mach * outcome :=
  if never_sent_waiting (mem m) then (m, Returned)
  else let '(m0, o0) := update_statuses m in
       match o0 with
       | Raised e => (m0, Raised e)
       | Returned => track_loop (S (length (scr m0))) m0
       end.

Definition step (c : cfg) (m0 : mach) (o : op) : mach * outcome :=
  let m := mkm (mem m0) (disk m0) (scr m0) (rlog m0) false in
  match o with
  | OReopen => (mkm (load c (disk m)) (disk m) (scr m) (rlog m) false, Returned)
  | OAdd s pre kms kbad =>
      let '(j, sc, lg) := if pre then pre_exec (job_of_spec s) (scr m) (rlog m) else (job_of_spec s, scr m, rlog m) in
      add_job c (mkm (mem m) (disk m) sc lg false) j kms kbad
  | ORun seq => launch c false seq false m
  | ORerun seq repl => launch c true seq repl m
  | OProgress => update_statuses m
  | OGetResults => get_results c m
  | OTrack => track m
  | OReadd k =>
      match nth_error (mem m) k with
      | Some j => if sent j then add_job c m j None false else (m, Returned)   (* the driver skips unsent jobs *)
      | None => (m, Returned)
      end
  end.

(* JobGroup(name) on a fresh directory: empty list, written at once *)
Definition init (sc : script) : mach := mkm [] [] sc [] false.

Fixpoint run (c : cfg) (m : mach) (ops : list op) : mach :=
  match ops with [] => m | o :: r => run c (fst (step c m o)) r end.

(* ---------------------------------------------------------------- several groups: a file store indexed by name *)
(* PersistentData directory = map name -> file; a live JobGroup object per name (opening a name again replaces the
   object the history holds for it). An operation on the group of name n reads and writes the file of name n only. *)
Fixpoint sget {A} (n : Z) (s : list (Z * A)) : option A :=
  match s with [] => None | (k, v) :: r => if Z.eqb k n then Some v else sget n r end.
Fixpoint sset {A} (n : Z) (v : A) (s : list (Z * A)) : list (Z * A) :=
  match s with
  | [] => [(n, v)]
  | (k, w) :: r => if Z.eqb k n then (n, v) :: r else (k, w) :: sset n v r
  end.
Definition sdel {A} (n : Z) (s : list (Z * A)) : list (Z * A) := filter (fun kv => negb (Z.eqb (fst kv) n)) s.

Record world := mkw { files : list (Z * list djob); handles : list (Z * list job); wscr : script; wlog : list req }.

Inductive mop :=
| MOpen (n : Z)                 (* g_n = JobGroup(name_n) : load if the file exists, else create and write *)
| MOn (n : Z) (o : op)          (* an operation on the live object of name n (skipped when there is none) *)
| MDelete (n : Z)               (* JobGroup.delete_job_group(name_n); the history drops its object for n *)
| MDeleteAll                    (* JobGroup.delete_all_job_groups() *)
| MDeleteDate (all : bool).     (* JobGroup.delete_job_groups_date(far future / far past) *)

Definition mstep (c : cfg) (w : world) (o : mop) : world * outcome :=
  match o with
  | MOpen n =>
      match sget n (files w) with
      | Some d => (mkw (files w) (sset n (load c d) (handles w)) (wscr w) (wlog w), Returned)
      | None => (mkw (sset n [] (files w)) (sset n [] (handles w)) (wscr w) (wlog w ++ [RWrite]), Returned)
      end
  | MOn n o1 =>
      match sget n (handles w), sget n (files w) with
      | Some l, Some d =>
          let '(m', out) := step c (mkm l d (wscr w) (wlog w) false) o1 in
          (mkw (sset n (disk m') (files w)) (sset n (mem m') (handles w)) (scr m') (rlog m'), out)
      | _, _ => (w, Returned)
      end
  | MDelete n => (mkw (sdel n (files w)) (sdel n (handles w)) (wscr w) (wlog w), Returned)
  | MDeleteAll => (mkw [] [] (wscr w) (wlog w), Returned)
  | MDeleteDate all => if all then (mkw [] [] (wscr w) (wlog w), Returned) else (w, Returned)
  end.

Definition winit (sc : script) : world := mkw [] [] sc [].
Fixpoint mrun (c : cfg) (w : world) (ops : list mop) : world :=
  match ops with [] => w | o :: r => mrun c (fst (mstep c w o)) r end.

(* ---------------------------------------------------------------- progress() and list_*_jobs() (after the refresh) *)
Definition cat_unsent (j : job) : bool := negb (sent j).
Definition cat_success (j : job) : bool := sent j && success (jst j).
Definition cat_active (j : job) : bool := sent j && negb (success (jst j)) && (waiting (jst j) || running (jst j)).
Definition cat_other (j : job) : bool :=
  sent j && negb (success (jst j)) && negb (waiting (jst j) || running (jst j)).
Definition count (f : job -> bool) (l : list job) : nat := length (filter f l).

(* the counting loop of progress(), literally: if / continue chain *)
Fixpoint progress_loop (l : list job) (unsent succ other act : nat) : nat * nat * nat * nat :=
  match l with
  | [] => (unsent, succ, other, act)
  | j :: r =>
      if negb (sent j) then progress_loop r (S unsent) succ other act
      else if success (jst j) then progress_loop r unsent (S succ) other act
      else if waiting (jst j) || running (jst j) then progress_loop r unsent succ other (S act)
      else progress_loop r unsent succ (S other) act
  end.
Definition progress (l : list job) := progress_loop l 0 0 0 0.

Definition in_statuses (ss : list status) (j : job) : bool := sent j && existsb (status_eqb (jst j)) ss.
Definition list_successful (l : list job) := filter (in_statuses [SUCCESS]) l.
Definition list_active (l : list job) := filter (in_statuses [RUNNING; WAITING]) l.
Definition list_unsuccessful (l : list job) := filter (in_statuses [ERROR; CANCELED]) l.
Definition list_unsent (l : list job) := filter (fun j => negb (sent j)) l.
