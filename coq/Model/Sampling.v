(* Executable model of the sampling path (C09):
   perceval/simulators/noisy_sampling_simulator.py (NoisySamplingSimulator.samples, _noisy_sampling,
   _perfect_sampling_no_selection, _compute_samples_with_perf, compute_samples), Processor.samples,
   perceval/utils/conversion.py (probs_to_sample_count with its repair loop, the samples/counts/probs
   conversions) and algorithm/sampler.py (_samples_wrapper).  No proofs here.

   Four parts:
   (i)   the distribution induced by one shot of the pipeline when every primitive sampler is exact
         (weighted-list semantics of Lib/Dist.v), with the source-level pre-filter the code applies, and the
         performance estimates written on expected counts;
   (ii)  the sampling loops as transition systems driven by an adversarial oracle (the oracle supplies the
         state that comes out of backend + detectors at each iteration);
   (iii) probs_to_sample_count after the floating-point perturbation: Python's round, then the repair loop
         with its random choices as an oracle list;
   (iv)  samples <-> counts <-> probabilities. *)
From PV Require Export Lib.Dist Model.Select.
From Coq Require Import Qround.
Open Scope Qc_scope.

(* ================================================================ (i) one shot of the pipeline *)
Definition dbind (d : dist) (f : state -> dist) : dist := flat_map (fun tw => dscale (snd tw) (f (fst tw))) d.

(* an input of the mixture: probability and the tag groups (one Fock state per distinguishability class) *)
Definition mixture := list (Qc * list state).
Definition gtotal (gs : list state) : nat := fold_right (fun g acc => total g + acc)%nat 0%nat gs.
Definition mix_mass (mix : mixture) : Qc := fold_right (fun pg acc => fst pg + acc) 0 mix.
Definition scale_mix (c : Qc) (mix : mixture) : mixture := map (fun pg => (c * fst pg, snd pg)) mix.

(* _noisy_sampling, "Sampling": every tag group is sampled separately from its own output law [spec g]
   (SamplesProvider.sample_from), the outputs are merged mode-wise, then simulate_detectors_sample draws the
   reading from the detector kernel [K] *)
Definition shot_of (spec K : state -> dist) (gs : list state) : dist := dbind (conv_all (map spec gs)) K.
Definition shot (spec K : state -> dist) (mix : mixture) : dist :=
  flat_map (fun pg => dscale (fst pg) (shot_of spec K (snd pg))) mix.

(* Source.generate_samples(.., min_detected_photons) / _preprocess_input_state: inputs with fewer photons
   than the filter are never generated; their mass is accounted for in pre_physical_perf *)
Definition prefilter (F : nat) (mix : mixture) : mixture := filter (fun pg => (F <=? gtotal (snd pg))%nat) mix.
Definition pre_phys (F : nat) (mix : mixture) : Qc := mix_mass (prefilter F mix).

Record pipeline_out := { p_results : dist; p_phys : Qc; p_logical : Qc }.
(* expected per-shot counts of the three exits of the loop body, and the code's estimates on them:
   physical_perf = (selected + not_selected) / (selected + not_selected + not_selected_physical) * pre_physical_perf
   logical_perf  = selected / (selected + not_selected) *)
Definition pipeline (spec K : state -> dist) (mix : mixture) (h : heralds) (p : ps) (F : nat) (keep : bool) : pipeline_out :=
  let pre := pre_phys F mix in
  let d := shot spec K (scale_mix (/ pre) (prefilter F mix)) in       (* law of one shot of the loop *)
  let pass_f := dfilter (fun t => (F <=? total t)%nat) d in
  let acc := dfilter (passes h p) pass_f in
  let selected := mass acc in
  let not_selected := mass pass_f - mass acc in
  let not_selected_physical := mass d - mass pass_f in
  {| p_results := normalize (dmerge (if keep then acc else dmap (remove_heralds h) acc));
     p_phys := if Qc_eq_dec (selected + not_selected + not_selected_physical) 0 then 0
               else (selected + not_selected) / (selected + not_selected + not_selected_physical) * pre;
     p_logical := if Qc_eq_dec (selected + not_selected) 0 then 0 else selected / (selected + not_selected) |}.

(* Processor.samples: the filter handed to the sampling simulator.  [old_code = true] is the code before /repo commit
   5caa1a68 (the user's filter alone); the current code adds the photons expected on the heralded modes, as
   ISimulator.min_detected_photons_filter does for strong simulation. *)
Definition sampler_filter (old_code : bool) (flt : nat) (h : heralds) : nat :=
  if old_code then flt else (flt + herald_total h)%nat.
Definition processor_pipeline_cfg (old_code : bool) (spec K : state -> dist) (mix : mixture) (h : heralds) (p : ps)
    (flt : nat) : pipeline_out := pipeline spec K mix h p (sampler_filter old_code flt h) false.
Definition processor_pipeline := processor_pipeline_cfg false.
Definition processor_pipeline_old_code := processor_pipeline_cfg true.

(* ================================================================ (ii) the loops *)
Record lcfg := { c_max_samples : nat; c_max_shots : option nat; c_F : nat; c_h : heralds; c_ps : ps; c_keep : bool }.
Record lstate := { l_out : list state; l_idx : nat; l_batch : nat; l_notsel : nat; l_notphys : nat;
                   l_shots : nat; l_reqs : list nat }.

Definition batch_size (c : lcfg) : nat :=
  match c_max_shots c with Some k => Nat.min (c_max_samples c) k | None => c_max_samples c end.
(* while len(output) < max_samples and (max_shots is None or shots < max_shots) *)
Definition guard (c : lcfg) (s : lstate) : bool :=
  (length (l_out s) <? c_max_samples c)%nat &&
  match c_max_shots c with None => true | Some k => (l_shots s <? k)%nat end.
Definition nb_gen (c : lcfg) (s : lstate) : nat :=
  let n := Nat.min (batch_size c) (c_max_samples c - length (l_out s)) in
  match c_max_shots c with Some k => Nat.min n (k - l_shots s) | None => n end.
Definition emit (c : lcfg) (t : state) : state := if c_keep c then t else remove_heralds (c_h c) t.
(* one iteration of the body; [t] = the state after backend sampling, merge and detectors *)
Definition step (c : lcfg) (t : state) (s : lstate) : lstate :=
  let fresh := (l_idx s =? l_batch s)%nat in
  let idx := if fresh then 0%nat else l_idx s in
  let batch := if fresh then nb_gen c s else l_batch s in
  let reqs := if fresh then l_reqs s ++ [nb_gen c s] else l_reqs s in
  let shots := S (l_shots s) in
  if (total t <? c_F c)%nat then
    {| l_out := l_out s; l_idx := S idx; l_batch := batch; l_notsel := l_notsel s; l_notphys := S (l_notphys s);
       l_shots := shots; l_reqs := reqs |}
  else if passes (c_h c) (c_ps c) t then
    {| l_out := l_out s ++ [emit c t]; l_idx := S idx; l_batch := batch; l_notsel := l_notsel s;
       l_notphys := l_notphys s; l_shots := shots; l_reqs := reqs |}
  else
    {| l_out := l_out s; l_idx := S idx; l_batch := batch; l_notsel := S (l_notsel s); l_notphys := l_notphys s;
       l_shots := shots; l_reqs := reqs |}.
Fixpoint run (c : lcfg) (os : list state) (s : lstate) : lstate :=
  match os with
  | [] => s
  | t :: os' => if guard c s then run c os' (step c t s) else s
  end.
Definition init (first_batch : nat) : lstate :=
  {| l_out := []; l_idx := 0; l_batch := first_batch; l_notsel := 0; l_notphys := 0; l_shots := 0; l_reqs := [] |}.

(* compute_samples *)
Definition prepare_samples (max_samples : nat) (max_shots : option nat) : nat :=
  match max_shots with Some k => Nat.min max_samples k | None => max_samples end.
(* _compute_samples_with_perf: max_shots *= physical_perf / (1 - zpp); max_shots = ceil(max_shots).
   [x] is the value of that floating-point product (an exact rational, since every float is one); mathematically
   x <= max_shots because physical_perf = P(n >= filter) <= P(n > 0) = 1 - zpp when the filter is >= 1. *)
Definition ceil_nat (q : Qc) : nat := Z.to_nat (Qceiling (this q)).
Definition nat_q (n : nat) : Qc := Q2Qc (inject_Z (Z.of_nat n)).
(* [old_code = true] is the code before /repo commit 869f2c44 (max_shots = ceil(x), unclamped); the current code
   takes min(max_shots, ceil(x)). *)
Definition scale_shots_cfg (old_code : bool) (F : nat) (max_shots : option nat) (x : Qc) : option nat :=
  match max_shots with
  | Some k => if (2 <=? F)%nat then Some (if old_code then ceil_nat x else Nat.min k (ceil_nat x)) else Some k
  | None => None
  end.
Definition scale_prepare_cfg (old_code : bool) (F : nat) (max_shots : option nat) (x : Qc) (prep : nat) : nat :=
  match max_shots with
  | Some k => if (2 <=? F)%nat then Nat.min (if old_code then ceil_nat x else Nat.min k (ceil_nat x)) prep else prep
  | None => prep
  end.
Definition scale_shots := scale_shots_cfg false.
Definition scale_prepare := scale_prepare_cfg false.

(* _perfect_sampling_no_selection: the sizes of the successive backend.samples(..) calls *)
Fixpoint perfect_batches (fuel n acquired : nat) : list nat :=
  match fuel with
  | O => []
  | S f => if (acquired <? n)%nat then let k := Nat.min 1000 (n - acquired) in k :: perfect_batches f n (acquired + k) else []
  end.
Definition sum_nat (l : list nat) : nat := fold_right Nat.add 0%nat l.

(* NoisySamplingSimulator.samples.  [herald_det_ok] = check_heralds_detectors; [fast] = the condition of the
   "highway" (no herald, no post-selection, one un-annotated input, PNR); [source_defined] tells whether the first
   batch comes from the source (prepare_samples inputs) or is empty (distribution input).
   Result: the emitted samples (fast path: their number only matters, the oracle supplies them). *)
Inductive sim_result := SimEmpty | SimFast (batches : list nat) | SimLoop (s : lstate).
Definition sim_samples_cfg (old_code : bool) (c : lcfg) (herald_det_ok fast source_defined : bool) (x : Qc) (os : list state) : sim_result :=
  if negb herald_det_ok then SimEmpty else
  let prep := prepare_samples (c_max_samples c) (c_max_shots c) in
  if fast then (if (prep =? 0)%nat then SimEmpty else SimFast (perfect_batches prep prep 0))
  else if (prep =? 0)%nat then SimEmpty
  else
    let shots' := scale_shots_cfg old_code (c_F c) (c_max_shots c) x in
    let prep' := scale_prepare_cfg old_code (c_F c) (c_max_shots c) x prep in
    let c' := {| c_max_samples := c_max_samples c; c_max_shots := shots'; c_F := c_F c; c_h := c_h c;
                 c_ps := c_ps c; c_keep := c_keep c |} in
    if (prep' =? 0)%nat then SimEmpty     (* `sample_generator if prepare_samples else None` *)
    else SimLoop (run c' os (init (if source_defined then prep' else 0%nat))).
Definition sim_samples := sim_samples_cfg false.              (* the code as it is now *)
Definition sim_samples_old_code := sim_samples_cfg true.    (* historical: before 869f2c44 *)
Definition sim_len (r : sim_result) : nat :=
  match r with SimEmpty => 0%nat | SimFast b => sum_nat b | SimLoop s => length (l_out s) end.

(* Sampler._samples_wrapper: max_samples None -> SAMPLES_MAX_COUNT (= [cap], 10^8 in the code); both None ->
   RuntimeError (None here) *)
Definition wrapper_limits (cap : nat) (max_samples max_shots : option nat) : option (nat * option nat) :=
  match max_samples, max_shots with
  | None, None => None
  | None, Some k => Some (cap, Some k)
  | Some n, k => Some (n, k)
  end.

(* ================================================================ (iii) probs_to_sample_count *)
(* Python 3 round(x) for a float x: nearest integer, ties to even *)
Definition pyround (x : Qc) : Z :=
  let f := Qfloor (this x) in
  let r := x - Q2Qc (inject_Z f) in
  let half := Q2Qc (1 # 2) in
  match Qccompare r half with
  | Lt => f
  | Gt => (f + 1)%Z
  | Eq => if Z.even f then f else (f + 1)%Z
  end.
Definition sumZ (l : list Z) : Z := fold_right Z.add 0%Z l.
Fixpoint upd (k : nat) (v : Z) (l : list Z) : list Z :=
  match l, k with
  | [], _ => []
  | _ :: r, O => v :: r
  | x :: r, S k' => x :: upd k' v r
  end.
(* while diff < 0: k = random.choice(keys); current_diff = max(-results[k], diff); diff -= current_diff;
   results[k] += current_diff.   None = the oracle ran out before the loop exited. *)
Fixpoint repair_neg (os : list nat) (diff : Z) (rs : list Z) : option (list Z) :=
  if (0 <=? diff)%Z then Some rs else
  match os with
  | [] => None
  | k :: os' =>
      let cur := Z.max (- nth k rs 0%Z) diff in
      repair_neg os' (diff - cur) (upd k (nth k rs 0%Z + cur) rs)
  end.
(* after the renormalisation: xs_i = perturbed_dist[state_i] * count (floats, hence rationals), count >= 1 *)
Definition repair (xs : list Qc) (count : Z) (os : list nat) : option (list Z) :=
  let rs := map pyround xs in
  let diff := (count - sumZ rs)%Z in
  if (0 <? diff)%Z then
    match os with [] => None | k :: _ => Some (upd k (nth k rs 0%Z + diff) rs) end
  else repair_neg os diff rs.
(* the two fall-backs draw [count] samples and count them: histogram of an index list over n keys *)
Fixpoint hist (n : nat) (samples : list nat) : list Z :=
  match samples with
  | [] => repeat 0%Z n
  | k :: r => let h := hist n r in upd k (nth k h 0%Z + 1) h
  end.

(* ================================================================ (iv) conversions *)
Definition counts := list (state * nat).
Fixpoint cinsert (t : state) (c : counts) : counts :=
  match c with
  | [] => [(t, 1%nat)]
  | (t', n) :: r => if state_eqb t' t then (t', S n) :: r else (t', n) :: cinsert t r
  end.
(* samples_to_sample_count = BSCount(Counter(samples)) *)
Definition samples_to_count (l : list state) : counts := fold_left (fun acc t => cinsert t acc) l [].
Definition ctotal (c : counts) : nat := fold_right (fun tn acc => snd tn + acc)%nat 0%nat c.
Definition cget (c : counts) (T : state) : nat :=
  fold_right (fun tn acc => (if state_eqb (fst tn) T then snd tn else 0) + acc)%nat 0%nat c.
(* sample_count_to_probs: zero counts skipped, then normalize (counts are naturals: the negative-count error
   branch is unreachable from a count table) *)
Fixpoint qnat (n : nat) : Qc := match n with O => 0 | S n' => qnat n' + 1 end.
Definition count_to_probs (c : counts) : dist :=
  normalize (map (fun tn => (fst tn, qnat (snd tn))) (filter (fun tn => negb (snd tn =? 0)%nat) c)).
Definition samples_to_probs (l : list state) : dist := count_to_probs (samples_to_count l).
