(* C18 — exchange-format entry points of the local job model. *)
From PV Require Export Model.LocalJob Lib.Sx.
Local Open Scope Z_scope.

Definition to_optZ (x : sx) : option Z := match x with I z => Some z | L _ => None end.
Definition of_optZ (o : option Z) : sx := match o with Some z => I z | None => L [] end.
Definition to_kw (x : sx) : kw := map (fun e => (to_Z (nthx 0 e), to_optZ (nthx 1 e))) (to_list x).
Definition of_kw (d : kw) : sx := L (map (fun e => L [I (fst e); of_optZ (snd e)]) d).
Definition to_pairs (x : sx) : list (Z * Z) := map (fun e => (to_Z (nthx 0 e), to_Z (nthx 1 e))) (to_list x).

Definition to_cfg (x : sx) : cfg :=
  mkcfg (to_Zs (nthx 0 x)) (to_kw (nthx 1 x)) (to_kw (nthx 2 x)) (to_bool (nthx 3 x)) (to_optZ (nthx 4 x))
        (* optional 6th element [status_needs_worker; cb_keyword_kept; escapes_unhandled]; absent = the code as it is now *)
        (mkcode (to_bool (nthx 0 (nthx 5 x))) (to_bool (nthx 1 (nthx 5 x))) (to_bool (nthx 2 (nthx 5 x)))).
Definition to_outcome (x : sx) : outcome :=
  match to_Z (nthx 0 x) with
  | 0 => ORet | 1 => ORaise (to_Z (nthx 1 x)) (to_Z (nthx 2 x))
  | _ => OEscape (to_Z (nthx 1 x)) (to_Z (nthx 2 x)) (to_bool (nthx 3 x))
  end.
Definition to_prog (x : sx) : prog :=
  mkprog (to_pairs (nthx 0 x)) (to_outcome (nthx 1 x)) (to_bool (nthx 2 x)) (to_Z (nthx 3 x)) (to_Z (nthx 4 x)) (to_Z (nthx 5 x))
         (map (fun e => (to_Z (nthx 0 e), to_kw (nthx 1 e))) (to_list (nthx 6 x))).
Definition to_ev (x : sx) : ev :=
  match to_Z (nthx 0 x) with
  | 0 => Wk
  | 1 => Act AStatus
  | 2 => Act ACancel
  | 3 => Act AGet
  | 4 => Act (AExec (if to_bool (nthx 1 x) then Async else Sync) (to_Zs (nthx 2 x)) (to_pairs (nthx 3 x)))
  | _ => Act (ASetCb (to_optZ (nthx 1 x)))
  end.

Definition of_rstatus (s : rstatus) : sx :=
  I (match s with Waiting => 0 | Running => 1 | Success => 2 | Error => 3 | Canceled => 4 end).
Definition of_smsg (m : smsg) : sx :=
  match m with MNone => L [] | MCancel => L [I 1] | MErr t x => L [I 2; I t; I x] | MThreadDied => L [I 3] end.
Definition of_entry (e : entry) : sx := L [I (epay e); of_kw (eiter e); of_nat_sx (enconv e); of_kw (ecargs e)].
Definition of_res (r : res) : sx :=
  L [I (shape r); I (payload r); of_kw (rargs r); of_nat_sx (nconv r); of_kw (cargs r); L (map of_entry (entries r))].
Definition of_ores (o : option res) : sx := match o with Some r => L [of_res r] | None => L [] end.
Definition of_gres (g : gres) : sx :=
  match g with
  | GValue v => L [I 0; of_ores v] | GStillRunning => L [I 1] | GAttrErr => L [I 2]
  | GJobFailed m => L [I 3; of_smsg m] | GNotAvailable => L [I 4] | GEscaped => L [I 5]
  end.
Definition of_sview (v : sview) : sx :=
  match v with SOk x p ph m => L [I 0; of_rstatus x; I p; I ph; of_smsg m] | SAttrErr => L [I 1] end.
Definition of_perr (e : perr) : sx :=
  match e with PTwice k => L [I 0; I k] | PUnused ks => L [I 1; L (map I ks)] | PIndex => L [I 2] end.
Definition of_xres (x : xres) : sx :=
  match x with XAccepted => L [I 0] | XAssert => L [I 1] | XRejected e => L [I 2; of_perr e] end.
Definition of_resp (r : resp) : sx :=
  I (match r with RNone => 0 | RDict None => 1 | RDict (Some false) => 2 | RDict (Some true) => 3 end).
Definition of_obs (o : obs) : sx :=
  match o with
  | ONop => L [I 0] | OStarted => L [I 1]
  | OProgress r i => L [I 2; of_resp r; of_bool (cancel_requested r); of_bool i]
  | OReturned => L [I 3] | ORaised => L [I 4] | OEscaped => L [I 5] | OFinished => L [I 6]
  | OSyncRet g => L [I 7; of_gres g]
  | OStatus v => L [I 8; of_sview v] | OUnit => L [I 9] | OGet g => L [I 10; of_gres g] | OExec x => L [I 11; of_xres x]
  end.
Definition of_wstate (w : wstate) : sx := I (match w with WNone => 0 | WAlive => 1 | WDead => 2 end).
Definition of_st (s : st) : sx :=
  L [of_rstatus (status s); I (progress s); I (phase s); of_smsg (msg s); of_bool (cancel s); of_wstate (worker s);
     of_ores (results s); of_bool (conv_pending s); of_optZ (user_cb s); of_kw (cmd s); of_kw (mapp s);
     L (map of_kw (calls s)); L (map (fun e => L [I (fst (fst e)); I (snd (fst e)); I (snd e)]) (cb_log s));
     match sync_ret s with Some g => L [of_gres g] | None => L [] end].

(* Harness-level events are macro steps of the fine-grained model (the harness cannot hold the worker between
   the task's return and the wrapper's finish, nor between an accepted execute and the entry into fn):
   tag 0 = the worker's next step, followed by the wrapper's finish (and execute_sync's final get_results) when
   that step was the task's return/raise; tag 4 = execute, followed by the worker's start step when accepted.
   Tag 6 = one fine-grained worker step. Each macro event reports the observations of the fine steps it expands to. *)
Definition closing (p : pcs) : bool := match p with PRet | PExc _ _ _ | PSyncRet => true | _ => false end.
Fixpoint wk_close (c : cfg) (pr : prog) (n : nat) (s : st) : st * list obs :=
  match n with
  | O => (s, [])
  | S n' => if closing (pc s) then let (s1, o) := wk c pr s in let (s2, os) := wk_close c pr n' s1 in (s2, o :: os)
            else (s, [])
  end.
Definition macro (c : cfg) (pr : prog) (s : st) (x : sx) : st * list obs :=
  match to_Z (nthx 0 x) with
  | 0 => let (s1, o) := wk c pr s in let (s2, os) := wk_close c pr 3 s1 in (s2, o :: os)
  | 4 => let (s1, o) := step c pr s (to_ev x) in
         match o with
         | OExec XAccepted => let (s2, o2) := wk c pr s1 in (s2, [o; o2])
         | _ => (s1, [o])
         end
  | 6 => let (s1, o) := wk c pr s in (s1, [o])
  | _ => let (s1, o) := step c pr s (to_ev x) in (s1, [o])
  end.
Fixpoint run_report (c : cfg) (p : prog) (s : st) (l : list sx) : list sx :=
  match l with
  | [] => []
  | e :: r => let (s1, os) := macro c p s e in L [L (map of_obs os); of_st s1] :: run_report c p s1 r
  end.

(* 1800: [cfg; prog; events] -> per event [observations; state after] *)
Definition x_localjob_run (x : sx) : sx :=
  let c := to_cfg (nthx 0 x) in
  L (run_report c (to_prog (nthx 1 x)) (init c) (to_list (nthx 2 x))).

(* 1801: Job._handle_params alone: [names; cmd; mapp; args; kwargs] -> [cmd'; mapp'; error] *)
Definition x_handle_params (x : sx) : sx :=
  match handle_params (to_Zs (nthx 0 x)) (to_kw (nthx 1 x)) (to_kw (nthx 2 x)) (to_Zs (nthx 3 x)) (to_pairs (nthx 4 x)) with
  | (c, m, e) => L [of_kw c; of_kw m; match e with None => L [] | Some e => L [of_perr e] end]
  end.
