(* Strong-simulation engines (perceval/backends/_naive.py, _slos.py, _abstract_backends.py):
   the amplitude specification and the models of the Naive and SLOS computations, masks included. *)
From PV Require Export Lib.Permanent Lib.Tab.

Section Engines.
Variable R : cring.
Open Scope K_scope.
Variable U : mat R.      (* U j k: amplitude from input mode k to output mode j *)
Variable m : nat.

Definition cols_of (s : state) : list nat := rows_of s.

(* ---- specification: <t|U|s> * sqrt(prod s! prod t!) = perm(U[t|s]); zero if photon numbers differ ---- *)
Definition amp_num (s t : state) : R :=
  if (total s =? total t)%nat then permS U m (cols_of s) t else k0.
Definition norm2 (s t : state) : nat := (factprod s * factprod t)%nat.

(* ---- Naive: _compute_submatrix then the permanent of the explicit n x n matrix ---- *)
(* u_st[rowidx, colidx] = umat[ok, ik]: rows follow the output state, columns the input state *)
Definition submatrix (s t : state) : list (list R) :=
  map (fun a => map (fun k => U a k) (cols_of s)) (rows_of t).
Fixpoint sum_posA {A} (l : list A) (F : A -> list A -> R) : R :=
  match l with [] => k0 | a :: r => F a r + sum_posA r (fun a' rest => F a' (a :: rest)) end.
(* Laplace expansion along the first column; [n] = number of columns *)
Fixpoint perm_rows (n : nat) (rows : list (list R)) : R :=
  match n with
  | O => match rows with [] => k1 | _ => k0 end
  | S n' => sum_posA rows (fun row rest => hd k0 row * perm_rows n' (map (@tl R) rest))
  end.
Definition naive_amp_num (s t : state) : R :=
  if (total s =? total t)%nat then
    if (total s =? 0)%nat then k1 else perm_rows (total s) (submatrix s t)
  else k0.

(* ---- SLOS: coefficient recursion; amplitude = coef * sqrt(prod t! / prod s!) ---- *)
Definition slos_coef (s t : state) : R := slos U m (cols_of s) t.
Definition slos_amp_num (s t : state) : R :=
  if (total s =? total t)%nat then of_nat (factprod t) * slos_coef s t else k0.

(* ---- masks (xq.FSMask(m, n, masks)): a mask is a list of option nat (None = '*' or ' ') ---- *)
Definition mask := list (option nat).
Fixpoint mask_fixed_total (mk : mask) : nat :=
  match mk with [] => 0%nat | Some d :: r => (d + mask_fixed_total r)%nat | None :: r => mask_fixed_total r end.
Fixpoint mask_fixed_ok (mk : mask) (u : state) : bool :=
  match mk, u with
  | Some d :: r, x :: u' => (x <=? d)%nat && mask_fixed_ok r u'
  | None :: r, _ :: u' => mask_fixed_ok r u'
  | _, _ => true
  end.
Fixpoint mask_free_total (mk : mask) (u : state) : nat :=
  match mk, u with
  | Some _ :: r, _ :: u' => mask_free_total r u'
  | None :: r, x :: u' => (x + mask_free_total r u')%nat
  | [], u' => total u'
  | _, [] => 0%nat
  end.
Definition mask_keep1 (n : nat) (mk : mask) (u : state) : bool :=
  (mask_fixed_total mk <=? n)%nat && mask_fixed_ok mk u && (mask_free_total mk u <=? n - mask_fixed_total mk)%nat.
Definition mask_keep (n : nat) (mks : list mask) (u : state) : bool := existsb (fun mk => mask_keep1 n mk u) mks.

(* SLOS over a pruned state space: states not kept carry no coefficient *)
Fixpoint slosK (keep : state -> bool) (cols : list nat) (t : state) : R :=
  if keep t then
    match cols with
    | [] => if all_zero t then k1 else k0
    | k :: cols' => sumn m (fun j => if (0 <? nth j t 0)%nat then U j k * slosK keep cols' (dec t j) else k0)
    end
  else k0.
End Engines.
Arguments amp_num {_}. Arguments naive_amp_num {_}. Arguments slos_coef {_}. Arguments slos_amp_num {_}.
Arguments submatrix {_}. Arguments perm_rows {_}. Arguments slosK {_}. Arguments sum_posA {_ _}.
