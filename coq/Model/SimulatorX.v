(* Executable model of the simulation of mixtures of superpositions of tagged Fock states (C03). *)
From PV Require Export Model.Simulator Model.SelectX.

Definition gterm := (K QI * list (nat * state))%type.        (* coefficient, groups (tag, state) sorted by tag *)
Definition shape_of (g : list (nat * state)) : list (nat * nat) := map (fun ts => (fst ts, total (snd ts))) g.
Fixpoint shape_eqb (a b : list (nat * nat)) : bool :=
  match a, b with
  | [], [] => true
  | (x, n) :: r, (y, k) :: s => (x =? y)%nat && (n =? k)%nat && shape_eqb r s
  | _, _ => false
  end.
Fixpoint cart {A} (ls : list (list A)) : list (list A) :=
  match ls with [] => [[]] | l :: r => flat_map (fun a => map (cons a) (cart r)) l end.
Fixpoint dedup_shapes (l : list (list (nat * nat))) : list (list (nat * nat)) :=
  match l with [] => [] | a :: r => if existsb (shape_eqb a) r then dedup_shapes r else a :: dedup_shapes r end.

Section X.
Variable U : mat QI.
Variable m : nat.
(* product over the groups of the amplitude numerators; zero if the tag structures differ *)
Fixpoint groups_amp (g : list (nat * state)) (O : list state) : QI :=
  match g, O with
  | [], [] => k1
  | (_, s) :: g', t :: O' => kmul (amp_num U m s t) (groups_amp g' O')
  | _, _ => k0
  end.
Definition term_amp (shape : list (nat * nat)) (tm : gterm) (O : list state) : QI :=
  if shape_eqb (shape_of (snd tm)) shape then kmul (c:=QI) (fst tm) (groups_amp (snd tm) O) else k0.
Definition merged (O : list state) : state := fold_right state_add [] O.
Definition fact_all (O : list state) : nat := fold_right (fun t acc => factprod t * acc)%nat 1%nat O.
(* distribution of one (normalised) superposition *)
Definition sv_dist (terms : list gterm) : dist :=
  let norm := fold_right (fun tm acc => (qinorm2 (fst tm) + acc)%Qc) (Q2Qc 0) terms in
  flat_map (fun shape =>
    let F := match find (fun tm => shape_eqb (shape_of (snd tm)) shape) terms with
             | Some tm => fact_all (map snd (snd tm)) | None => 1%nat end in
    map (fun O =>
      let a := fold_right (fun tm acc => kadd (term_amp shape tm O) acc) (k0 : QI) terms in
      (merged O, (qinorm2 a / (Qc_of_nat (F * fact_all O) * norm))%Qc))
      (cart (map (fun tn => allstates m (snd tn)) shape)))
    (dedup_shapes (map (fun tm => shape_of (snd tm)) terms)).
Definition svd_dist (mix : list (Qc * list gterm)) : dist :=
  dmerge (flat_map (fun pt => dscale (fst pt) (sv_dist (snd pt))) mix).
End X.

Definition to_gterm (x : sx) : gterm :=
  (to_qi (nthx 0 x), map (fun g => (to_nat (nthx 0 g), to_state (nthx 1 g))) (to_list (nthx 1 x))).
(* args: m, U, mixture [[p, [[c, [[tag, state]...]] ...]] ...]  ->  [mass, dist] *)
Definition x_svd_dist (x : sx) : sx :=
  let m := to_nat (nthx 0 x) in let U := to_mat (nthx 1 x) in
  let mix := map (fun e => (to_Qc (nthx 0 e), map to_gterm (to_list (nthx 1 e)))) (to_list (nthx 2 x)) in
  let d := svd_dist U m mix in
  L [of_Qc (mass d); of_dist d].
