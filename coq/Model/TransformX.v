(* Executable entry points of the C11 models over QI (function ids 1100-1199). *)
From PV Require Export Model.Transform Model.Simplify Model.CircuitX Model.ComponentsX.

Definition tleaf := leaf QI.
Definition ttree := tcomp QI.

(* trees: (0 cv c s tl bl tr br) BS | (1 e) PS | (2 k U) Unitary | (3 (p..)) PERM | (4 m ((off tree)..)) circuit *)
Fixpoint to_tcomp (x : sx) : ttree :=
  match x with
  | I _ => TLeaf (@LPS QI k1)
  | L l =>
      match l with
      | I 0%Z :: cv :: c :: s :: tl :: bl :: tr :: br :: _ =>
          TLeaf (@LBS QI (to_conv cv) (to_qi c) (to_qi s) (to_qi tl) (to_qi bl) (to_qi tr) (to_qi br))
      | I 1%Z :: e :: _ => TLeaf (@LPS QI (to_qi e))
      | I 2%Z :: k :: U :: _ => TLeaf (@LU QI (to_nat k) (to_mat U))
      | I 3%Z :: p :: _ => TLeaf (@LPERM QI (to_nats p))
      | I 4%Z :: m :: L items :: _ =>
          TSub (to_nat m) (map (fun it => match it with
                                          | L (o :: t :: _) => (to_nat o, to_tcomp t)
                                          | _ => (0%nat, TLeaf (@LPS QI k1)) end) items)
      | _ => TLeaf (@LPS QI k1)
      end
  end.
Definition to_items (x : sx) : list (nat * ttree) :=
  map (fun it => (to_nat (nthx 0 it), to_tcomp (nthx 1 it))) (to_list x).
Definition to_depth (x : sx) : option nat := match x with I z => Some (Z.to_nat z) | L _ => None end.

Definition xmat (t : ttree) : mat QI := tmat qII t.
Definition x_tmat (x : sx) : sx := let t := to_tcomp x in L [of_nat_sx (tw t); of_mat (tw t) (xmat t)].

(* Circuit.inverse: (tree v h) -> (matrix by the code as it is now, expected matrix,
   (ok for each of the 8 flag triples fv fh ft), matrix by the historical code) *)
Definition flag_triples : list (bool * bool * bool) :=
  [(false, false, false); (true, false, false); (false, true, false); (false, false, true);
   (true, true, false); (true, false, true); (false, true, true); (true, true, true)].
Definition x_inverse (x : sx) : sx :=
  let t := to_tcomp (nthx 0 x) in let v := to_bool (nthx 1 x) in let h := to_bool (nthx 2 x) in
  let m := tw t in
  let ex := retab m (expected v h m (xmat t)) in
  L [of_mat m (xmat (circuit_inverse_now v h t)); of_mat m ex;
     L (map (fun f => match f with (fv, fh, ft) => of_bool (meqb m (xmat (circuit_inverse fv fh ft v h t)) ex) end)
            flag_triples);
     of_mat m (xmat (circuit_inverse_old v h t))].

(* decompose_perms: tree -> (listing ((off width perm|())..), matrix of the listing, matrix of the tree) *)
Definition of_fentry (ol : nat * tleaf) : sx :=
  match ol with (o, l) => L [of_nat_sx o; of_nat_sx (lw l); match l with LPERM p => of_nats p | _ => L [] end] end.
Definition x_decompose (x : sx) : sx :=
  let t := to_tcomp x in let m := tw t in
  let fc := decompose_perms (tflatten 0 t) in
  L [L (map of_fentry fc); of_mat m (fmatx qII m fc); of_mat m (xmat t)].

(* Experiment.flatten: (M items depth|()) -> (listing by the code as it is now, listing by the historical code,
   matrix of the code's listing, matrix of the experiment); listing entries (off width is_composite) *)
Definition of_eentry (ot : nat * ttree) : sx :=
  match ot with (o, t) => L [of_nat_sx o; of_nat_sx (tw t); of_bool (is_sub t)] end.
Definition x_flatten (x : sx) : sx :=
  let M := to_nat (nthx 0 x) in let items := to_items (nthx 1 x) in let d := to_depth (nthx 2 x) in
  let lc := exp_flatten_now d items in let lo := exp_flatten_old d items in
  L [L (map of_eentry lc); L (map of_eentry lo); of_mat M (ematx qII M lc); of_mat M (ematx qII M items)].
(* one unitary run of non_unitary_circuit: (M items) -> (min_r, width, block) *)
Definition x_regroup (x : sx) : sx :=
  let M := to_nat (nthx 0 x) in let run := to_items (nthx 1 x) in
  match regroup_run qII M run with (a, w, B) => L [of_nat_sx a; of_nat_sx w; of_mat w B] end.

(* permutation arithmetic: (op args..) *)
Definition x_perm_util (x : sx) : sx :=
  match to_Z (nthx 0 x) with
  | 0%Z => of_nats (extend_perm (to_nat (nthx 1 x)) (to_nats (nthx 2 x)) (to_nat (nthx 3 x)))
  | 1%Z => of_nats (perm_compose (to_nat (nthx 1 x)) (to_nats (nthx 2 x)) (to_nat (nthx 3 x)) (to_nats (nthx 4 x)))
  | 2%Z => match reduce_perm (to_nat (nthx 1 x)) (to_nats (nthx 2 x)) with (o, p) => L [of_nat_sx o; of_nats p] end
  | 3%Z => of_nats (invert_permutation (to_nats (nthx 1 x)))
  | _ => of_nats (bubble_swaps (to_nats (nthx 1 x)))
  end.
(* _update_adjacent folded over the ranges: (m (r..)) -> (groups by the code as it is now, groups by the historical code) *)
Definition x_update_adjacent (x : sx) : sx :=
  let m := to_nat (nthx 0 x) in let rs := map to_nats (to_list (nthx 1 x)) in
  let init := map (fun j => [j]) (seq 0 m) in
  L [L (map of_nats (fold_left update_adjacent rs init)); L (map of_nats (fold_left update_adjacent_old rs init))].
(* proved checker: (tree B eps2) -> is the tree's matrix within eps of B entrywise *)
Definition x_close (x : sx) : sx :=
  let t := to_tcomp (nthx 0 x) in
  of_bool (mat_close (to_Qc (nthx 2 x)) (tw t) (xmat t) (to_mat (nthx 1 x))).

(* Sequences of transformations over named circuit variables, all in one process (function id 1108).
   Semantics = values: every transformation returns or leaves a value that depends only on its operand;
   copy / decompose_perms / simplify produce a new circuit and leave the operand as it was, inverse changes only
   its target.  (simplify's output structure is an oracle: the model keeps the operand's tree, which has the
   same matrix; its inverse therefore has the right matrix as well.)
   statements: (0 v tree) v = tree | (1 dst src) dst = src.copy() | (2 v fv fh) v.inverse(v=fv, h=fh)
             | (3 dst src merge) dst = decompose_perms(src, merge) | (4 dst src) dst = simplify(src)
   answer per statement: ((var m matrix)..) for every defined variable *)
Inductive tstmt :=
| TNew (v : nat) (t : ttree) | TCopy (dst src : nat) | TInv (v : nat) (fv fh : bool)
| TDec (dst src : nat) (merge : bool) | TSimp (dst src : nat).
Definition to_tstmt (x : sx) : tstmt :=
  let a i := to_nat (nthx i x) in
  match to_Z (nthx 0 x) with
  | 0%Z => TNew (a 1%nat) (to_tcomp (nthx 2 x))
  | 1%Z => TCopy (a 1%nat) (a 2%nat)
  | 2%Z => TInv (a 1%nat) (to_bool (nthx 2 x)) (to_bool (nthx 3 x))
  | 3%Z => TDec (a 1%nat) (a 2%nat) (to_bool (nthx 3 x))
  | _ => TSimp (a 1%nat) (a 2%nat)
  end.
Definition tenv := list (option ttree).
Definition tget (e : tenv) (v : nat) : option ttree := nth v e None.
Fixpoint tset (e : tenv) (v : nat) (c : ttree) : tenv :=
  match v, e with
  | O, [] => [Some c]
  | O, _ :: r => Some c :: r
  | S v', [] => None :: tset [] v' c
  | S v', x :: r => x :: tset r v' c
  end.
Definition tstep (e : tenv) (s : tstmt) : tenv :=
  match s with
  | TNew v t => tset e v t
  | TCopy dst src => match tget e src with Some t => tset e dst t | None => e end
  | TInv v fv fh => match tget e v with Some t => tset e v (circuit_inverse_now fv fh t) | None => e end
  | TDec dst src merge => match tget e src with Some t => tset e dst (tdecompose merge t) | None => e end
  | TSimp dst src => match tget e src with Some t => tset e dst t | None => e end
  end.
Fixpoint treport (v : nat) (e : tenv) : list sx :=
  match e with
  | [] => []
  | None :: r => treport (S v) r
  | Some t :: r => L [of_nat_sx v; of_nat_sx (tw t); of_mat (tw t) (xmat t)] :: treport (S v) r
  end.
Fixpoint trun (e : tenv) (p : list tstmt) : list sx :=
  match p with [] => [] | s :: r => let e' := tstep e s in L (treport 0 e') :: trun e' r end.
Definition x_seq (x : sx) : sx := L (trun [] (map to_tstmt (to_list x))).
