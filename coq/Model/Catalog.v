(* The logic gates of the component catalog (perceval/components/core_catalog/*.py) as exact component
   lists, with their heralds, post-selection and ports; the logical action of a heralded, post-selected
   interferometer on dual-rail basis states (amplitude specification [amp_num] of Model/Engines.v).
   Generic part: any commutative ring with conjugation, the trigonometric constants being ring elements.
   Executable part: the quadratic towers over Q(i) in which the constants of the fixed gates live. *)
From PV Require Export Lib.Quad Lib.Sx Model.Select Model.Components Model.Circuit.

(* ------------------------------------------------------------------ dual-rail logical basis *)
(* qubit 0 is the most significant bit of the basis index (ctrl before data), value v of qubit i = one
   photon in mode 2i+v; heralded modes carry their expected photon count *)
Definition qbit (q i b : nat) : nat := (b / 2 ^ (q - 1 - i)) mod 2.
Definition basis_data (q b : nat) : state :=
  flat_map (fun i => if (qbit q i b =? 0)%nat then [1; 0] else [0; 1])%nat (seq 0 q).
Definition basis (m q : nat) (h : heralds) (b : nat) : state :=
  map (fun i => match find (fun mv => (fst mv =? i)%nat) h with
                | Some mv => snd mv
                | None => nth i (basis_data q b) 0%nat
                end) (seq 0 m).
Definition nbasis (q : nat) : list nat := seq 0 (2 ^ q).
Definition is_logical (m q : nat) (h : heralds) (t : state) : bool :=
  existsb (fun b => state_eqb t (basis m q h b)) (nbasis q).

Record gate (R : cring) := mkgate {
  g_m : nat;                       (* modes *)
  g_items : list (nat * comp R);   (* components in circuit order with their first mode *)
  g_heralds : heralds;
  g_ps : ps;
  g_q : nat                        (* qubits, on modes 0 .. 2q-1 *)
}.
Arguments mkgate {_}. Arguments g_m {_}. Arguments g_items {_}. Arguments g_heralds {_}.
Arguments g_ps {_}. Arguments g_q {_}.

Definition g_unitary {R : cring} (g : gate R) : mat R := cmat (Sub (g_m g) (g_items g)).
Definition g_photons {R : cring} (g : gate R) : nat := (g_q g + herald_total (g_heralds g))%nat.
(* amplitude (numerator = amplitude: every logical state has occupations 0/1) from basis b to basis b' *)
Definition lamp {R : cring} (U : mat R) (m q : nat) (h : heralds) (b b' : nat) : R :=
  amp_num U m (basis m q h b) (basis m q h b').

Section Generic.
Variable R : cring.
Open Scope K_scope.

Definition bsh (c s : R) : mat R := bs_mat Hc k0 c s k1 k1 k1 k1.       (* BS.H(theta), phases 0 *)
Definition L1 (off : nat) (e : R) : nat * comp R := (off, Leaf 1 (ps_mat e)).
Definition L2 (off : nat) (U : mat R) : nat * comp R := (off, Leaf 2 U).
Definition LP (off : nat) (p : list nat) : nat * comp R := (off, Leaf (length p) (perm_mat p)).
Definition LB (off k : nat) : nat * comp R := (off, Leaf k mid).    (* Barrier *)
Definition pair1 (a b : nat) : ps := PCmp [a; b] CEq 1.

(* ---- one-qubit gates (gates_1qubit.py) ---- *)
Definition one_qubit (items : list (nat * comp R)) : gate R := mkgate 2 items [] PTrue 1.
Variable ii : R.      (* imaginary unit *)
Variable r2 : R.      (* 1/sqrt 2 = cos(pi/4) = sin(pi/4) *)
Variable w : R.       (* exp(i pi/4) *)
Definition g_h := one_qubit [L2 0 (bsh r2 r2)].
Definition g_s := one_qubit [L1 1 ii].
Definition g_sdag := one_qubit [L1 1 (- ii)].
Definition g_t := one_qubit [L1 1 w].
Definition g_tdag := one_qubit [L1 1 (kconj w)].
Definition g_x := one_qubit [LP 0 [1; 0]%nat].
Definition g_y := one_qubit [LP 0 [1; 0]%nat; L1 1 ii; L1 0 (- ii)].
Definition g_z := one_qubit [L1 1 (- k1)].
(* parametrised: c, s = cos, sin of theta/2 (rx, ry); e = exp(i theta/2) (rz); e = exp(i phi) (ph) *)
Definition g_rx (c s : R) := one_qubit [L2 0 (bs_mat Rx ii c (- s) k1 k1 k1 k1)].     (* BS.Rx(theta=-theta) *)
Definition g_ry (c s : R) := one_qubit [L2 0 (bs_mat Ry ii c s k1 k1 k1 k1)].
Definition g_rz (e : R) := one_qubit [L1 0 (kconj e); L1 1 e].
Definition g_ph (e : R) := one_qubit [L1 1 e].
(* templates fitted to one-qubit gates that are not catalog gates (abstract_converter.py: _create_generic_1_qubit_gate):
   a diagonal matrix diag(1, e) uses create_upper_phase_circuit (= the ph circuit), diag(e, 1) uses
   create_lower_phase_circuit, diag(e1, e2) with both phases non-trivial needs create_2phase_circuit *)
Definition g_phase_lower (e : R) := one_qubit [L1 0 e].
Definition g_2phase (e1 e2 : R) := one_qubit [L1 0 e1; L1 1 e2].

(* the matrices the gates are named after *)
Definition M_h : mat R := mat2 r2 r2 r2 (- r2).
Definition M_x : mat R := mat2 k0 k1 k1 k0.
Definition M_y : mat R := mat2 k0 (- ii) ii k0.
Definition M_diag (a b : R) : mat R := mat2 a k0 k0 b.
Definition M_rx (c s : R) : mat R := mat2 c (- (ii * s)) (- (ii * s)) c.
Definition M_ry (c s : R) : mat R := mat2 c (- s) s c.
Definition M_cz : mat R := fun i j => if (i =? j)%nat then (if (i =? 3)%nat then - k1 else k1) else k0.
Definition cnot_perm (k : nat) : nat := match k with 2 => 3 | 3 => 2 | _ => k end%nat.
Definition M_cnot : mat R := pmat cnot_perm.
Definition M_ccz : mat R := fun i j => if (i =? j)%nat then (if (i =? 7)%nat then - k1 else k1) else k0.
Definition toffoli_perm (k : nat) : nat := match k with 6 => 7 | 7 => 6 | _ => k end%nat.
Definition M_toffoli : mat R := pmat toffoli_perm.

(* ---- post-processed CZ / CNOT (postprocessed_cz.py, postprocessed_cnot.py) ---- *)
Variable c13 s13 : R.   (* cos, sin of theta/2 for reflectivity 1/3: sqrt(1/3), sqrt(2/3) *)
Definition ppcz_items : list (nat * comp R) :=
  [LP 1 [2; 1; 3; 0]%nat; LB 0 6; L2 0 (bsh c13 s13); L2 2 (bsh c13 s13); L2 4 (bsh c13 s13); LP 1 [3; 1; 0; 2]%nat].
Definition pp_ps : ps := PAnd (pair1 0 1) (pair1 2 3).
Definition g_ppcz := mkgate 6 ppcz_items [(4, 0); (5, 0)]%nat pp_ps 2.
Definition g_ppcnot := mkgate 6 ([L2 2 (bsh r2 r2)] ++ ppcz_items ++ [L2 2 (bsh r2 r2)]) [(4, 0); (5, 0)]%nat pp_ps 2.

(* ---- heralded (Knill) CZ / CNOT (heralded_cz.py, heralded_cnot.py) ----
   theta1 = 2 acos sqrt(1/3) (the c13, s13 above); theta2 = 2 acos sqrt((3+sqrt 6)/6) *)
Variable c2 s2 : R.
Definition hcz_items : list (nat * comp R) :=
  [LP 1 [1; 0]%nat;
   (* last_modes_cz, merged at mode 2 *)
   LP 3 [1; 0]%nat; LB 2 4; L1 2 (- k1); L1 5 (- k1); LB 2 4;
   L2 2 (bsh c13 s13); L2 4 (bsh c13 s13); LB 2 4;
   LP 3 [1; 0]%nat; L2 2 (bsh c13 (- s13)); L2 4 (bsh c2 s2);
   LP 1 [1; 0]%nat].
Definition g_hcz := mkgate 6 hcz_items [(4, 1); (5, 1)]%nat PTrue 2.
Definition g_hcnot := mkgate 6 ([L2 2 (bsh r2 r2)] ++ hcz_items ++ [L2 2 (bsh r2 r2)]) [(4, 1); (5, 1)]%nat PTrue 2.

(* ---- KLM CNOT (klm_cnot.py): reflectivities R1 = (3 - sqrt 2)/7, R2 = 5 - 3 sqrt 2 ---- *)
Variable kc1 ks1 kc2 ks2 : R.
Definition klm_items : list (nat * comp R) :=
  [LP 1 [2; 4; 3; 0; 1]%nat; L2 4 (bsh r2 r2); LP 3 [1; 3; 0; 4; 2]%nat; L2 3 (bsh r2 r2); LP 3 [2; 0; 1]%nat;
   L2 2 (bsh kc1 ks1); L2 4 (bsh kc1 ks1); LP 3 [1; 2; 0]%nat; L2 3 (bsh r2 r2);
   LP 1 [2; 0; 3; 1; 6; 5; 4]%nat; L2 2 (bsh kc2 ks2); LP 2 [1; 0]%nat; L2 4 (bsh kc2 ks2);
   LP 4 [1; 2; 0]%nat; L2 4 (bsh r2 r2); LP 1 [4; 3; 0; 2; 1]%nat].
Definition g_klm := mkgate 8 klm_items [(4, 0); (5, 1); (6, 0); (7, 1)]%nat PTrue 2.

(* ---- n-qubit controlled rotation (controlled_rotation_gates.py: build_control_gate_unitary) ----
   The 4n-mode unitary is the unitary extension of M = blockdiag(I_n, I_n + a J_n), a^n = exp(i alpha) - 1,
   J[i, i+1 mod n] = 1, conjugated by the permutation that interleaves the two blocks on the dual-rail
   pairs: rail 0 of qubit i is row i of the first block, rail 1 row i of the second.  With the 2n ancilla
   modes heralded on 0 only the 2n x 2n block M / sigma_max matters; this is M on the data modes. *)
Definition crot_block (n : nat) (a : R) : mat R := fun j k =>
  if (j mod 2 =? 0)%nat then delta j k
  else if (k mod 2 =? 0)%nat then k0
       else delta j k + (if (((j / 2) + 1) mod n =? k / 2)%nat then a else k0).
Fixpoint crot_ps (n : nat) : ps :=
  match n with O => PTrue | S n' => match n' with O => pair1 0 1 | _ => PAnd (crot_ps n') (pair1 (2 * n') (2 * n' + 1)) end end.
Fixpoint kpow (a : R) (n : nat) : R := match n with O => k1 | S n' => a * kpow a n' end.
Definition M_crot (n : nat) (a : R) : mat R := fun i j =>
  if (i =? j)%nat then (if (i =? 2 ^ n - 1)%nat then k1 + kpow a n else k1) else k0.
End Generic.

Arguments bsh {_}. Arguments g_h {_}. Arguments g_s {_}. Arguments g_sdag {_}. Arguments g_t {_}.
Arguments g_tdag {_}. Arguments g_x {_}. Arguments g_y {_}. Arguments g_z {_}. Arguments g_rx {_}.
Arguments g_ry {_}. Arguments g_rz {_}. Arguments g_ph {_}. Arguments g_phase_lower {_}. Arguments g_2phase {_}. Arguments M_h {_}. Arguments M_x {_}.
Arguments M_y {_}. Arguments M_diag {_}. Arguments M_rx {_}. Arguments M_ry {_}. Arguments M_cz {_}.
Arguments M_cnot {_}. Arguments M_ccz {_}. Arguments M_toffoli {_}. Arguments g_ppcz {_}.
Arguments g_ppcnot {_}. Arguments g_hcz {_}. Arguments g_hcnot {_}. Arguments g_klm {_}.
Arguments crot_block {_}. Arguments M_crot {_}. Arguments kpow {_}.

(* ------------------------------------------------------------------ the decision procedure *)
(* [logical_ok]: on the finite logical basis, (1) every amplitude equals f * G[b',b]; (2) every output
   state of the (m, n) space that passes heralds and post-selection and is not a logical state has
   amplitude 0 from every logical input; (3) f has an inverse (so its image in C is not 0). *)
Section Decide.
Variable D : dcring.
Definition amps_ok (U : mat D) (m q : nat) (h : heralds) (G : mat D) (f : D) : bool :=
  forallb (fun b => forallb (fun b' => deqb (lamp U m q h b b') (kmul f (G b' b))) (nbasis q)) (nbasis q).
Definition leak_ok (U : mat D) (m q : nat) (h : heralds) (p : ps) : bool :=
  forallb (fun t => if passes h p t && negb (is_logical m q h t)
                    then forallb (fun b => deqb (amp_num U m (basis m q h b) t) k0) (nbasis q) else true)
          (allstates m (q + herald_total h)).
Definition inv_ok (f : D) : bool := deqb (kmul f (dinv f)) k1.
Definition logical_ok (g : gate D) (G : mat D) (f : D) : bool :=
  let U := g_unitary g in
  amps_ok U (g_m g) (g_q g) (g_heralds g) G f && leak_ok U (g_m g) (g_q g) (g_heralds g) (g_ps g) && inv_ok f.
End Decide.
Arguments logical_ok {_}. Arguments amps_ok {_}. Arguments leak_ok {_}. Arguments inv_ok {_}.

(* ------------------------------------------------------------------ the towers *)
Definition Qq (n d : Z) : Qc := Qc_of_ZZ n d.
Definition qr (n d : Z) : qi := mkqi (Qq n d) 0.           (* the rational n/d *)
Lemma qi_real_conj (a : Qc) : kconj (mkqi a 0 : QI) = mkqi a 0.
Proof. apply qi_eq; simpl; ring. Qed.

(* T1 = Q(i)(sqrt 2) *)
Definition T1 : dcring := DQuad DQI (qr 2 1) (qi_real_conj _).
Definition t1 (a b : qi) : T1 := mkq (K:=DQI) a b.          (* a + b sqrt2 *)
Definition t1_r2 : T1 := t1 qi0 (qr 1 2).                   (* 1/sqrt2 = sqrt2/2 *)
Definition t1_ii : T1 := t1 qii qi0.
Definition t1_w : T1 := t1 qi0 (mkqi (Qq 1 2) (Qq 1 2)).    (* (1+i) sqrt2 / 2 *)
Lemma t1_conj_real (a b : Qc) : kconj (t1 (mkqi a 0) (mkqi b 0)) = t1 (mkqi a 0) (mkqi b 0).
Proof. apply (qconj_fix DQI); apply qi_real_conj. Qed.

(* T2 = T1(sqrt 3) *)
Definition t1_three : T1 := t1 (qr 3 1) qi0.
Definition T2 : dcring := DQuad T1 t1_three (t1_conj_real _ _).
Definition t2 (a b : T1) : T2 := mkq (K:=T1) a b.           (* a + b sqrt3 *)
Definition t2_of1 (a : T1) : T2 := t2 a k0.
Definition t2_c13 : T2 := t2 k0 (t1 (qr 1 3) qi0).          (* sqrt3 / 3 *)
Definition t2_s13 : T2 := t2 k0 (t1 qi0 (qr 1 3)).          (* sqrt2 sqrt3 / 3 *)
Lemma t2_conj_real (a b c d : Qc) :
  kconj (t2 (t1 (mkqi a 0) (mkqi b 0)) (t1 (mkqi c 0) (mkqi d 0))) = t2 (t1 (mkqi a 0) (mkqi b 0)) (t1 (mkqi c 0) (mkqi d 0)).
Proof. apply (qconj_fix T1); apply t1_conj_real. Qed.

(* T3 = T2(alpha), alpha^2 = (3 + sqrt 6)/6 = 1/2 + sqrt2 sqrt3 / 6;  cos(theta2/2) = alpha,
   sin(theta2/2) = sqrt((3 - sqrt 6)/6) = (sqrt 3 - sqrt 2) alpha *)
Definition t2_dalpha : T2 := t2 (t1 (qr 1 2) qi0) (t1 qi0 (qr 1 6)).
Definition T3 : dcring := DQuad T2 t2_dalpha (t2_conj_real _ _ _ _).
Definition t3 (a b : T2) : T3 := mkq (K:=T2) a b.
Definition t3_of2 (a : T2) : T3 := t3 a k0.
Definition t3_of1 (a : T1) : T3 := t3_of2 (t2_of1 a).
Definition t3_c2 : T3 := t3 k0 k1.
Definition t3_s2 : T3 := t3 k0 (t2 (t1 qi0 (qr (-1) 1)) (t1 (qr 1 1) qi0)).     (* (sqrt3 - sqrt2) alpha *)

(* T4 = T1(b1)(g1)(g2): b1^2 = R1 = (3 - sqrt2)/7, g1^2 = 1 - R1 = (4 + sqrt2)/7, g2^2 = 1 - R2 = 3 sqrt2 - 4;
   sqrt R2 = sqrt(5 - 3 sqrt2) = (2 sqrt2 - 1) b1 is already in T1(b1)  [((2 sqrt2 - 1)^2 (3 - sqrt2) = 7 (5 - 3 sqrt2)];
   adjoining it as an independent root would give a ring with zero divisors in which true equalities fail *)
Definition t1_d41 : T1 := t1 (qr 3 7) (qr (-1) 7).
Definition T41 : dcring := DQuad T1 t1_d41 (t1_conj_real _ _).
Definition t41_of1 (a : T1) : T41 := mkq (K:=T1) a k0.
Lemma t41_conj_real (a b : Qc) : kconj (t41_of1 (t1 (mkqi a 0) (mkqi b 0))) = t41_of1 (t1 (mkqi a 0) (mkqi b 0)).
Proof. apply (qconj_fix T1). apply t1_conj_real. apply (conj_zero T1). Qed.
Definition T42 : dcring := DQuad T41 (t41_of1 (t1 (qr 4 7) (qr 1 7))) (t41_conj_real _ _).
Definition t42_of1 (a : T1) : T42 := mkq (K:=T41) (t41_of1 a) k0.
Lemma t42_conj_real (a b : Qc) : kconj (t42_of1 (t1 (mkqi a 0) (mkqi b 0))) = t42_of1 (t1 (mkqi a 0) (mkqi b 0)).
Proof. apply (qconj_fix T41). apply t41_conj_real. apply (conj_zero T41). Qed.
Definition T4 : dcring := DQuad T42 (t42_of1 (t1 (qr (-4) 1) (qr 3 1))) (t42_conj_real _ _).
Definition t4_of1 (a : T1) : T4 := mkq (K:=T42) (t42_of1 a) k0.
Definition t4_kc1 : T4 := mkq (K:=T42) (mkq (K:=T41) (qroot T1) k0) k0.
Definition t4_ks1 : T4 := mkq (K:=T42) (qroot T41) k0.
Definition t4_kc2 : T4 := mkq (K:=T42) (mkq (K:=T41) (qscal T1 (t1 (qr (-1) 1) (qr 2 1))) k0) k0.
Definition t4_ks2 : T4 := qroot T42.

(* the defining elements of each tower, innermost first, for the numeric evaluation in the driver
   (generator j = positive square root of the value of the j-th element) *)
Definition gens_T1 : list (list qi) := [dflat (qr 2 1 : DQI)].
Definition gens_T2 : list (list qi) := gens_T1 ++ [dflat t1_three].
Definition gens_T3 : list (list qi) := gens_T2 ++ [dflat t2_dalpha].
Definition gens_T4 : list (list qi) :=
  gens_T1 ++ [dflat t1_d41; dflat (t41_of1 (t1 (qr 4 7) (qr 1 7))); dflat (t42_of1 (t1 (qr (-4) 1) (qr 3 1)))].

(* ------------------------------------------------------------------ the fixed gates in their towers *)
Definition c_h : gate T1 := g_h t1_r2.
Definition c_s : gate T1 := g_s t1_ii.
Definition c_sdag : gate T1 := g_sdag t1_ii.
Definition c_t : gate T1 := g_t t1_w.
Definition c_tdag : gate T1 := g_tdag t1_w.
Definition c_x : gate T1 := g_x.
Definition c_y : gate T1 := g_y t1_ii.
Definition c_z : gate T1 := g_z.
Definition c_ppcz : gate T2 := g_ppcz t2_c13 t2_s13.
Definition c_ppcnot : gate T2 := g_ppcnot (t2_of1 t1_r2) t2_c13 t2_s13.
Definition c_hcz : gate T3 := g_hcz (t3_of2 t2_c13) (t3_of2 t2_s13) t3_c2 t3_s2.
Definition c_hcnot : gate T3 := g_hcnot (t3_of1 t1_r2) (t3_of2 t2_c13) (t3_of2 t2_s13) t3_c2 t3_s2.
Definition c_klm : gate T4 := g_klm (t4_of1 t1_r2) t4_kc1 t4_ks1 t4_kc2 t4_ks2.

(* uniform factors: the amplitude of |00> -> |00> *)
Definition f_of {D : dcring} (g : gate D) : D := lamp (g_unitary g) (g_m g) (g_q g) (g_heralds g) 0 0.

(* ------------------------------------------------------------------ Gaussian integers (dyadic grids) *)
Local Open Scope Z_scope.
Record zi := mkzi { zre : Z; zim : Z }.
Definition ziadd (a b : zi) := mkzi (zre a + zre b) (zim a + zim b).
Definition zimul (a b : zi) := mkzi (zre a * zre b - zim a * zim b) (zre a * zim b + zim a * zre b).
Definition ziopp (a : zi) := mkzi (- zre a) (- zim a).
Definition zisub (a b : zi) := mkzi (zre a - zre b) (zim a - zim b).
Definition ziconj (a : zi) := mkzi (zre a) (- zim a).
Lemma zi_eq a b : zre a = zre b -> zim a = zim b -> a = b.
Proof. destruct a, b; simpl; intros; subst; reflexivity. Qed.
Lemma zi_ring : ring_theory (mkzi 0 0) (mkzi 1 0) ziadd zimul zisub ziopp (@eq zi).
Proof. split; intros; apply zi_eq; cbn [zre zim ziadd zimul zisub ziopp ziconj]; ring. Qed.
Definition ZI : cring.
Proof. refine (@Build_cring zi (mkzi 0 0) (mkzi 1 0) ziadd zimul zisub ziopp ziconj zi_ring _ _ _ _ _ _);
  intros; apply zi_eq; cbn [zre zim ziadd zimul zisub ziopp ziconj]; ring. Defined.
