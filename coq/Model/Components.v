(* Elementary components over an arbitrary commutative ring with conjugation.
   Trigonometric quantities enter as ring elements with the algebraic relations they satisfy
   (c^2+s^2=1, real; unit-modulus phases), so every statement holds for every real parameter value
   once instantiated at the complex numbers (Proofs/TrigInst.v). Source: unitary_components.py *)
From PV Require Export Lib.Mat.

Section Components.
Variable R : cring.
Open Scope K_scope.

Definition mat1 (a : R) : mat R := fun i j => match i, j with 0%nat, 0%nat => a | _, _ => delta i j end.
Definition mat2 (a b c d : R) : mat R := fun i j =>
  match i, j with
  | 0%nat, 0%nat => a | 0%nat, 1%nat => b
  | 1%nat, 0%nat => c | 1%nat, 1%nat => d
  | _, _ => delta i j
  end.

Inductive convention := Rx | Ry | Hc.

(* BS._compute_unitary: template entry * exp(i(phi_x+phi_y)) * cos/sin(theta/2).
   [c],[s] = cos, sin of theta/2;  e_xx = exp(i phi_xx);  ii = imaginary unit *)
Definition bs_mat (cv : convention) (ii c s e_tl e_bl e_tr e_br : R) : mat R :=
  match cv with
  | Rx => mat2 (k1 * (e_tl * e_tr * c)) (ii * (e_tr * e_bl * s)) (ii * (e_tl * e_br * s)) (k1 * (e_br * e_bl * c))
  | Ry => mat2 (k1 * (e_tl * e_tr * c)) (- k1 * (e_tr * e_bl * s)) (k1 * (e_tl * e_br * s)) (k1 * (e_br * e_bl * c))
  | Hc => mat2 (k1 * (e_tl * e_tr * c)) (k1 * (e_tr * e_bl * s)) (k1 * (e_tl * e_br * s)) (- k1 * (e_br * e_bl * c))
  end.
Definition ps_mat (e : R) : mat R := mat1 e.
(* WP: cd, sd = cos, sin delta; cx, sx = cos, sin (2 xsi) *)
Definition wp_mat (ii cd sd cx sx : R) : mat R :=
  mat2 (cd + ii * sd * cx) (ii * sd * sx) (ii * sd * sx) (cd - ii * sd * cx).
Definition pr_mat (c s : R) : mat R := mat2 c s (- s) c.
(* PBS on the doubled space (H0,V0,H1,V1) *)
Definition pbs_perm (k : nat) : nat := match k with 0 => 2 | 1 => 1 | 2 => 0 | _ => k end%nat.

(* PERM(perm): u[perm[i], i] = 1 *)
Definition perm_fun (p : list nat) (k : nat) : nat := nth k p k.
Definition perm_mat (p : list nat) : mat R := pmat (perm_fun p).
End Components.
Arguments mat1 {_}. Arguments mat2 {_}. Arguments bs_mat {_}. Arguments ps_mat {_}.
Arguments wp_mat {_}. Arguments pr_mat {_}. Arguments perm_mat {_}.
