(* Executable model of perceval/components/source.py (class Source) and of the NoiseModel -> Source field mapping,
   over canonical rationals.  The two square roots the code takes are extra fields of the parameter record:
     rt = sqrt(1 - 2*px*g2)      (Source._get_probs)
     si = sqrt(indistinguishability)   (_generate_one_photon_distribution, _generate_distinguishability)
   with the side conditions rt*rt = 1 - 2*px*g2 and si*si = ind stated as hypotheses of the theorems.
   Tags: a photon is a natural number; 0 is the signal tag "_:0" (also used for un-annotated photons: the branch
   "just avoids annotations" of the code), n > 0 is the annotation "_:n" drawn from the context counter
   "discernability_tag".  One mode = list of tags (a multiset: order is irrelevant); a state = list of modes. *)
From PV Require Export Lib.Sx.
Open Scope Qc_scope.

Definition q2 : Qc := 1 + 1.
Definition Qcltb (x y : Qc) : bool := match x ?= y with Lt => true | _ => false end.
Definition Qceqb (x y : Qc) : bool := if Qc_eq_dec x y then true else false.
Definition qnat (n : nat) : Qc := Q2Qc (inject_Z (Z.of_nat n)).
Fixpoint qfact (n : nat) : Qc := match n with O => 1 | S n' => qnat n * qfact n' end.

Record src := mk_src {
  px : Qc;       (* emission_probability (brightness) *)
  g2 : Qc;       (* multiphoton_component *)
  ind : Qc;      (* indistinguishability *)
  losses : Qc;   (* losses = 1 - transmittance *)
  dmodel : bool; (* true: multiphoton_model = 'distinguishable' *)
  rt : Qc;       (* the value math.sqrt(1 - 2*px*g2) *)
  si : Qc        (* the value math.sqrt(indistinguishability) *)
}.

(* NoiseModel defaults (ValidatedFloat/ValidatedBool default values) and Source.from_noise_model *)
Definition dflt {A} (o : option A) (d : A) : A := match o with Some v => v | None => d end.
Definition from_noise (brightness indist g2v : option Qc) (g2_distinguishable : option bool) (transmittance : option Qc)
                      (rt si : Qc) : src :=
  mk_src (dflt brightness 1) (dflt g2v 0) (dflt indist 1) (1 - dflt transmittance 1) (dflt g2_distinguishable true) rt si.

(* ---- Source._get_probs *)
Definition eta (P : src) : Qc := 1 - losses P.
Definition p2 (P : src) : Qc := if Qceqb (g2 P) 0 then 0 else (- (px P * g2 P) - rt P + 1) / g2 P.
Definition p1 (P : src) : Qc := px P - p2 P.
Definition p1to1 (P : src) : Qc := eta P * p1 P.
Definition p2to2 (P : src) : Qc := eta P * eta P * p2 P.
Definition p2to1 (P : src) : Qc := eta P * (1 - eta P) * p2 P.
Definition pzero (P : src) : Qc := 1 - (p1to1 P + q2 * p2to1 P + p2to2 P).

Definition is_perfect (P : src) : bool :=
  Qceqb (px P) 1 && Qceqb (g2 P) 0 && Qceqb (ind P) 1 && Qceqb (losses P) 0.
Definition partially_distinguishable (P : src) : bool :=
  negb (Qceqb (ind P) 1) || (dmodel P && negb (Qceqb (g2 P) 0)).

(* ---- distributions as association lists (a key may occur several times: its probability is the sum) *)
Definition dist (A : Type) := list (A * Qc).
Definition mass {A} (l : dist A) : Qc := fold_right (fun e acc => snd e + acc) 0 l.
Definition keep_pos {A} (l : dist A) : dist A := filter (fun e => Qcltb 0 (snd e)) l.   (* Source._add: probability > 0 *)

(* ---- Source._generate_one_photon_distribution; c is context["discernability_tag"] before the call *)
Definition one_photon_entries (P : src) (c : nat) : dist (list nat) :=
  let d := 1 - si P in
  let dp := S c in
  let sp := if dmodel P then S (S c) else O in
  let p11 := p1to1 P in let p21 := p2to1 P in let p22 := p2to2 P in
  if partially_distinguishable P then
    [([], pzero P); ([O; sp], (1 - d) * p22); ([dp; sp], d * p22)] ++
    (if dmodel P then [([dp], d * (p11 + p21) + p21); ([O], (1 - d) * (p11 + p21))]
     else [([dp], d * (p11 + p21)); ([O], (1 - d) * (p11 + p21) + p21)])
  else [([], pzero P); ([O; O], p22); ([O], p11 + q2 * p21)].
Definition next_tag (P : src) (c : nat) : nat := if dmodel P then S (S c) else S c.
Definition one_photon (P : src) (c : nat) : dist (list nat) * nat := (keep_pos (one_photon_entries P c), next_tag P c).

(* ---- BSDistribution.list_tensor_product(merge_modes=True) and Source.probability_distribution *)
Fixpoint tensor_merge (ds : list (dist (list nat))) : dist (list nat) :=
  match ds with
  | [] => [([], 1)]
  | d :: rest => let tr := tensor_merge rest in
                 flat_map (fun e => map (fun e' => (fst e ++ fst e', snd e * snd e')) tr) d
  end.
Fixpoint photon_dists (P : src) (c n : nat) : list (dist (list nat)) * nat :=
  match n with
  | O => ([], c)
  | S n' => let '(d, c1) := one_photon P c in let '(ds, c2) := photon_dists P c1 n' in (d :: ds, c2)
  end.
Definition prob_dist (P : src) (c n : nat) : dist (list nat) * nat :=
  if (n =? 0)%nat || is_perfect P then ([(repeat O n, 1)], c)
  else let '(ds, c') := photon_dists P c n in (tensor_merge ds, c').

(* ---- SVDistribution.list_tensor_product over the modes, normalize, Source.generate_distribution *)
Definition state := list (list nat).
Fixpoint tensor_modes (ds : list (dist (list nat))) : dist state :=
  match ds with
  | [] => [([], 1)]
  | d :: rest => let tr := tensor_modes rest in
                 flat_map (fun e => map (fun e' => (fst e :: fst e', snd e * snd e')) tr) d
  end.
Fixpoint mode_dists (P : src) (c : nat) (input : list nat) : list (dist (list nat)) * nat :=
  match input with
  | [] => ([], c)
  | n :: rest => let '(d, c1) := prob_dist P c n in let '(ds, c2) := mode_dists P c1 rest in (d :: ds, c2)
  end.
Definition normalize {A} (l : dist A) : dist A := let t := mass l in map (fun e => (fst e, snd e / t)) l.
Definition raw_distribution (P : src) (c : nat) (input : list nat) : dist state * nat :=
  let '(ds, c') := mode_dists P c input in (tensor_modes ds, c').
Definition generate_distribution (P : src) (c : nat) (input : list nat) : dist state * nat :=
  let '(d, c') := raw_distribution P c input in (normalize d, c').

(* conditioning on "at least f photons" (what the min-photons filter promises): restriction, renormalised, and kept mass *)
Definition nphotons (s : state) : nat := fold_right (fun m acc => (length m + acc)%nat) O s.
Definition condition (f : nat) (l : dist state) : dist state * Qc :=
  let kept := filter (fun e => (f <=? nphotons (fst e))%nat) l in
  (normalize kept, mass kept).

(* ---- Source._compute_prob_table *)
Definition p_signal (P : src) : Qc := p1to1 P + p2to1 P.
Definition p_g2 (P : src) : Qc := p2to1 P.
Definition p_duo (P : src) : Qc := p2to2 P.
Definition p_none (P : src) : Qc := 1 - (p_signal P + p_g2 P + p_duo P).
Definition tval (P : src) (n i j k : nat) : Qc :=
  let n0 := (n - i - j - k)%nat in
  qfact n * p_signal P ^ i * p_g2 P ^ j * p_duo P ^ k * p_none P ^ n0 / (qfact i * qfact j * qfact k * qfact n0).
Definition table_keys (P : src) (n : nat) : list (nat * nat * nat) :=
  flat_map (fun i =>
    flat_map (fun j =>
      map (fun k => (i, j, k)) (seq 0 (if Qceqb (p_duo P) 0 then 1 else S n - i - j)))
      (seq 0 (if Qceqb (p_g2 P) 0 then 1 else S n - i)))
    (seq 0 (S n)).
Definition passes (f : nat) (key : nat * nat * nat) : bool :=
  let '(i, j, k) := key in (f <=? i + j + 2 * k)%nat.
Definition raw_table (P : src) (n f : nat) : dist (nat * nat * nat) :=
  map (fun key => let '(i, j, k) := key in (key, tval P n i j k)) (filter (passes f) (table_keys P n)).
(* returns (prob_table, phys_perf, p0 ** n) *)
Definition prob_table (P : src) (n f : nat) : dist (nat * nat * nat) * Qc * Qc :=
  let t := raw_table P n f in
  let phys := mass t in
  (if (f =? 0)%nat then t else map (fun e => (fst e, snd e / phys)) t, phys, p_none P ^ n).

(* ---- per-photon law of the event sampler (_events_to_samples + _generate_distinguishability):
   an event is none / signal alone / g2 photon alone / signal + g2; each signal photon is independently
   indistinguishable (tag 0) with probability si, otherwise it gets a fresh tag; a g2 photon gets a fresh tag in
   the 'distinguishable' model and tag 0 otherwise.  Entries: (signal tag, g2 tag, probability). *)
Definition lab := (option nat * option nat * Qc)%type.
Definition event_law (P : src) (c : nat) : list lab :=
  let s := si P in
  let fresh1 := S c in
  let sp := if dmodel P then S (S c) else O in
  [ (None, None, p_none P);
    (Some O, None, s * p_signal P); (Some fresh1, None, (1 - s) * p_signal P);
    (None, Some sp, p_g2 P);
    (Some O, Some sp, s * p_duo P); (Some fresh1, Some sp, (1 - s) * p_duo P) ].
Definition olist (o : option nat) : list nat := match o with Some t => [t] | None => [] end.
Definition forget (e : lab) : list nat * Qc := (olist (fst (fst e)) ++ olist (snd (fst e)), snd e).

(* ---- the event-table cache of Source.generate_samples / cache_prob_table: the table is kept together with the
   (photon count, filter) it was built for, and is rebuilt unless BOTH agree with the request
   ("_prob_table is None or n != _prob_table_n or min_detected_photons != _prob_table_filter") *)
Record tcache := mk_tcache { tc_n : nat; tc_f : nat; tc_val : dist (nat * nat * nat) * Qc * Qc }.
Definition cache_request (P : src) (c : option tcache) (n f : nat) : tcache :=
  match c with
  | Some k => if ((tc_n k =? n) && (tc_f k =? f))%nat then k else mk_tcache n f (prob_table P n f)
  | None => mk_tcache n f (prob_table P n f)
  end.
(* a history of filtered sampling calls (n, f) on one Source *)
Fixpoint cache_run (P : src) (c : option tcache) (h : list (nat * nat)) : option tcache :=
  match h with
  | [] => c
  | (n, f) :: rest => cache_run P (Some (cache_request P c n f)) rest
  end.
