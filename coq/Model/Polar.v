(* Polarisation (C13).  Sources: perceval/utils/matrix.py (matrix_double), components/linear_circuit.py
   (ACircuit.compute_unitary, Circuit._compute_circuit_unitary with multiplier 2, Circuit.compute_unitary),
   utils/polarization.py (POLARIZATION_MAPPING, Polarization.project_eh_ev, convert_polarized_state),
   simulators/polarization_simulator.py (_prepare_input, _postprocess_bsd_impl).
   Sub-modes of spatial mode k: 2k = H, 2k+1 = V. *)
From PV Require Export Model.Circuit Model.Components Model.Engines.

Section Polar.
Variable R : cring.
Open Scope K_scope.

(* ---- matrix_double: pu[2 k1, 2 k2] = pu[2 k1 + 1, 2 k2 + 1] = u[k1, k2], zero elsewhere ---- *)
Definition mdouble (A : mat R) : mat R :=
  fun i j => if (i mod 2 =? j mod 2)%nat then A (i / 2)%nat (j / 2)%nat else k0.

(* ---- circuits whose leaves are spatial (k x k matrix) or polarising (2k x 2k matrix on k modes) ---- *)
Inductive pcomp := PLeaf (pol : bool) (k : nat) (U : mat R) | PSub (m : nat) (items : list (nat * pcomp)).
Definition pwidth (c : pcomp) : nat := match c with PLeaf _ k _ => k | PSub m _ => m end.

(* Names ending in _old describe /repo BEFORE the fix commits e38f1486 (empty circuit), 53c82d36 (vacuum) and
   19d38de0 (two polarisations in one mode); the unsuffixed names are the code as it is now.
   Before e38f1486 Circuit.compute_unitary returned eye(m) (not eye(2m)) for a circuit without components, also
   when use_polarization=True.  Nested, `nU[2 r0 : 2 (r0+m), ...] = eye(m)` is a numpy broadcast: for m = 1
   the 2x2 block is filled with ones; for m >= 2 numpy raises. *)
Definition ones : mat R := fun _ _ => k1.

(* the circuit over the 2m sub-modes that _compute_circuit_unitary (multiplier = 2) multiplies out;
   [E] = what a sub-circuit without components contributes *)
Fixpoint pdouble_g (E : mat R) (c : pcomp) : comp R :=
  match c with
  | PLeaf pol k U => Leaf (2 * k) (if pol then U else mdouble U)
  | PSub m items =>
      match items with
      | [] => Leaf (2 * m) E
      | _ => Sub (2 * m) (map (fun oc => match oc with (off, c') => ((2 * off)%nat, pdouble_g E c') end) items)
      end
  end.
Definition pdouble : pcomp -> comp R := pdouble_g mid.          (* the code as it is: eye(2m) for an empty circuit *)
Definition pdouble_old : pcomp -> comp R := pdouble_g ones.     (* before e38f1486 *)

Definition is_empty_sub (c : pcomp) : bool := match c with PSub _ [] => true | _ => false end.
(* numpy "could not broadcast" : an empty sub-circuit on two or more modes somewhere below the top *)
Fixpoint pol_raises (c : pcomp) : bool :=
  match c with
  | PLeaf _ _ _ => false
  | PSub m items =>
      existsb (fun oc => match oc with (_, c') =>
                 match c' with
                 | PSub m' [] => (2 <=? m')%nat
                 | _ => pol_raises c'
                 end end) items
  end.

Inductive pol_result := PolRaises | PolMat (dim : nat) (U : mat R).
(* Circuit.compute_unitary(use_polarization=True) before e38f1486 *)
Definition pol_unitary_old (c : pcomp) : pol_result :=
  match c with
  | PSub m [] => PolMat m mid
  | _ => if pol_raises c then PolRaises else PolMat (2 * pwidth c) (cmat (pdouble_old c))
  end.

(* Circuit.compute_unitary(use_polarization=True), the code as it is *)
Definition pol_unitary (c : pcomp) : pol_result := PolMat (2 * pwidth c) (cmat (pdouble c)).

(* the asserts of Circuit.add, and "no circuit without components anywhere" *)
Fixpoint pwf (c : pcomp) : Prop :=
  match c with
  | PLeaf _ k _ => (0 < k)%nat
  | PSub m items => (0 < m)%nat /\
      (fix all (l : list (nat * pcomp)) : Prop :=
         match l with [] => True | (off, c') :: r => ((off + pwidth c' <= m)%nat /\ pwf c') /\ all r end) items
  end.
Fixpoint no_empty (c : pcomp) : Prop :=
  match c with
  | PLeaf _ _ _ => True
  | PSub m items => items <> [] /\
      (fix all (l : list (nat * pcomp)) : Prop :=
         match l with [] => True | (_, c') :: r => no_empty c' /\ all r end) items
  end.
Fixpoint pwfb (c : pcomp) : bool :=
  match c with
  | PLeaf _ k _ => (0 <? k)%nat
  | PSub m items => (0 <? m)%nat &&
      (fix all (l : list (nat * pcomp)) : bool :=
         match l with [] => true | (off, c') :: r => ((off + pwidth c' <=? m)%nat && pwfb c') && all r end) items
  end.
(* leaves in circuit order: (first spatial mode, polarising?, spatial width, own matrix) *)
Fixpoint pflatten (off : nat) (c : pcomp) : list (nat * bool * nat * mat R) :=
  match c with
  | PLeaf pol k U => [(off, pol, k, U)]
  | PSub m items => flat_map (fun oc => match oc with (o, c') => pflatten (off + o) c' end) items
  end.
(* a leaf as a block over the sub-modes *)
Definition dleaf (x : nat * bool * nat * mat R) : nat * nat * mat R :=
  match x with (off, pol, k, U) => ((2 * off)%nat, (2 * k)%nat, if pol then U else mdouble U) end.

(* ---- Jones vectors, labels ---- *)
Definition jones := (R * R)%type.

Inductive label := LH | LV | LD | LA | LR | LL.
(* POLARIZATION_MAPPING in units of pi/2: theta = a * pi/2, phi = b * pi/2 *)
Definition label_angles (l : label) : nat * nat :=
  match l with
  | LH => (0, 0) | LV => (2, 0) | LD => (1, 0) | LA => (1, 2) | LR => (1, 3) | LL => (1, 1)
  end%nat.
Variable ii : R.       (* the imaginary unit *)
Variable rh : R.       (* cos(pi/4) = sin(pi/4) = 1/sqrt 2 *)
(* cos and sin of a*pi/4 for a = 0, 1, 2 (theta/2 for theta = a*pi/2) *)
Definition cos_q (a : nat) : R := match a with 0 => k1 | 1 => rh | _ => k0 end%nat.
Definition sin_q (a : nat) : R := match a with 0 => k0 | 1 => rh | _ => k1 end%nat.
Fixpoint ipow (b : nat) : R := match b with O => k1 | S b' => ii * ipow b' end.   (* exp(i b pi/2) *)
(* project_eh_ev: (cos(theta/2), exp(i phi) sin(theta/2)) *)
Definition jones_quarter (a b : nat) : jones := (cos_q a, ipow b * sin_q a).
Definition jones_label (l : label) : jones := let (a, b) := label_angles l in jones_quarter a b.
(* the vectors the labels are meant to denote *)
Definition jones_standard (l : label) : jones :=
  match l with
  | LH => (k1, k0) | LV => (k0, k1)
  | LD => (rh, rh) | LA => (rh, - rh)
  | LL => (rh, ii * rh) | LR => (rh, - (ii * rh))
  end.

(* ---- convert_polarized_state ---- *)
Variable eqb : R -> R -> bool.
Definition veqb (v w : jones) : bool := eqb (fst v) (fst w) && eqb (snd v) (snd w).
Definition inner (v w : jones) : R := kconj (fst v) * fst w + kconj (snd v) * snd w.

(* state of the loop over the photons of one mode: the (at most two) vectors met and their counts *)
Inductive mprep :=
| MP0
| MP1 (v1 : jones) (n1 : nat)
| MP2 (v1 v2 : jones) (n1 n2 : nat)
| MErr (code : nat).      (* 1: more than two vectors, 2: non-orthogonal vectors (both ValueError) *)
Definition mstep (st : mprep) (v : jones) : mprep :=
  match st with
  | MP0 => MP1 v 1
  | MP1 v1 n1 =>
      if veqb v1 v then MP1 v1 (S n1)
      else if eqb (inner v1 v) k0 then MP2 v1 v n1 1 else MErr 2
  | MP2 v1 v2 n1 n2 =>
      if veqb v1 v then MP2 v1 v2 (S n1) n2
      else if veqb v2 v then MP2 v1 v2 n1 (S n2) else MErr 1
  | MErr c => MErr c
  end.
Definition mode_prep (vs : list jones) : mprep := fold_left mstep vs MP0.

Definition block := (R * R * R * R)%type.     (* ((a, b), (c, d)) = rows *)
Definition idblock : block := (k1, k0, k0, k1).
Definition bentry (B : block) (p q : nat) : R :=
  match B with (a, b, c, d) =>
    match p, q with
    | 0, 0 => a | 0, _ => b | _, 0 => c | _, _ => d
    end%nat
  end.
(* before 19d38de0: prep_state_matrix = [[eh1, eh2], [ev1, ev2]]; second column = the orthogonal complement
   (-conj ev1, conj eh1) when the mode carries one polarisation only, the second given vector otherwise *)
Definition mblock_old (st : mprep) : block :=
  match st with
  | MP1 v1 _ => (fst v1, - kconj (snd v1), snd v1, kconj (fst v1))
  | MP2 v1 v2 _ _ => (fst v1, fst v2, snd v1, snd v2)
  | _ => idblock
  end.
(* the code as it is (19d38de0): with two vectors the second column is the complement c = (-conj ev1, conj eh1)
   of the first times phase = <c, v2>; the code also divides the phase by its modulus, which is 1 whenever the two
   vectors are normalised and orthogonal (Proofs/PolarP.v: complement_phase), the only inputs that get here *)
Definition mblock (st : mprep) : block :=
  match st with
  | MP1 v1 _ => (fst v1, - kconj (snd v1), snd v1, kconj (fst v1))
  | MP2 v1 v2 _ _ =>
      let ch := - kconj (snd v1) in let cv := kconj (fst v1) in
      let ph := kconj ch * fst v2 + kconj cv * snd v2 in
      (fst v1, ph * ch, snd v1, ph * cv)
  | _ => idblock
  end.
Definition mcounts (st : mprep) : list nat :=
  match st with
  | MP1 _ n1 => [n1; 0%nat]
  | MP2 _ _ n1 n2 => [n1; n2]
  | _ => [0%nat; 0%nat]
  end.
Definition merr (st : mprep) : option nat := match st with MErr c => Some c | _ => None end.

(* identity with the 2x2 blocks written on the diagonal *)
Definition bdiag (bs : list block) : mat R :=
  fun i j => if (i / 2 =? j / 2)%nat then bentry (nth (i / 2) bs idblock) (i mod 2) (j mod 2) else k0.

Definition pinput := list (list jones).      (* per spatial mode: the photons' Jones vectors, in annotation order *)
(* a photon as the BasicState carries it: its P annotation, or none.  convert_polarized_state reads
   `annot.get("P", complex(Polarization(0)))`: a photon without P annotation (plain, or carrying other tags only)
   gets theta = 0, phi = 0, i.e. the Jones vector (cos 0, e^{i0} sin 0) = (1, 0) = H, and then goes through the
   same loop as every other photon *)
Definition photon := option jones.
Definition default_jones : jones := (k1, k0).
Definition photon_jones (p : photon) : jones := match p with Some v => v | None => default_jones end.
Definition ainput := list (list photon).
Definition resolve_photons (inp : ainput) : pinput := map (map photon_jones) inp.
Definition prep_states (inp : pinput) : list mprep := map mode_prep inp.
Fixpoint first_err (sts : list mprep) : option nat :=
  match sts with [] => None | st :: r => match merr st with Some c => Some c | None => first_err r end end.
Definition spatial_input (sts : list mprep) : state := flat_map mcounts sts.
Definition prep_matrix (sts : list mprep) : mat R := bdiag (map mblock sts).
Definition prep_matrix_old (sts : list mprep) : mat R := bdiag (map mblock_old sts).
(* before 53c82d36 the matrix stayed None when no mode holds a photon; `upol @ None` then raised *)
Definition no_photon (inp : pinput) : bool := forallb (fun vs => match vs with [] => true | _ => false end) inp.

Inductive conv_result := ConvErr (code : nat) | ConvNoMatrix (s : state) | ConvOk (s : state) (P : mat R).
Definition convert_old (inp : pinput) : conv_result :=
  let sts := prep_states inp in
  match first_err sts with
  | Some c => ConvErr c
  | None => if no_photon inp then ConvNoMatrix (spatial_input sts) else ConvOk (spatial_input sts) (prep_matrix_old sts)
  end.

(* the code as it is: identity preparation matrix for the vacuum *)
Definition convert (inp : pinput) : conv_result :=
  let sts := prep_states inp in
  match first_err sts with
  | Some c => ConvErr c
  | None => ConvOk (spatial_input sts) (prep_matrix sts)
  end.

(* ---- PolarizationSimulator: simulate Unitary(upol @ prep) on the spatial input, then merge ---- *)
(* _postprocess_bsd_impl: fs[1::2].merge(fs[0::2]) = mode-wise sum of the two sub-modes *)
Fixpoint merge_sub (t : state) : state :=
  match t with a :: b :: r => (a + b)%nat :: merge_sub r | _ => [] end.

(* amplitude numerator (times sqrt(prod s'! prod t!)) of the spatial output t, implementation's route *)
Definition impl_amp (U : mat R) (m : nat) (inp : pinput) (t : state) : R :=
  let sts := prep_states inp in
  amp_num (xmul (2 * m) U (prep_matrix sts)) (2 * m) (spatial_input sts) t.
(* the same for a list of outputs, sharing the matrix product (this is what is executed) *)
Definition impl_amps (U : mat R) (m : nat) (inp : pinput) (ts : list state) : list R :=
  let sts := prep_states inp in
  let W := xmul (2 * m) U (prep_matrix sts) in
  map (fun t => amp_num W (2 * m) (spatial_input sts) t) ts.
(* before 19d38de0 *)
Definition impl_amp_old (U : mat R) (m : nat) (inp : pinput) (t : state) : R :=
  let sts := prep_states inp in
  amp_num (xmul (2 * m) U (prep_matrix_old sts)) (2 * m) (spatial_input sts) t.

(* the same for a list of outputs, sharing the matrix product (this is what is executed) *)
Definition impl_amps_old (U : mat R) (m : nat) (inp : pinput) (ts : list state) : list R :=
  let sts := prep_states inp in
  let W := xmul (2 * m) U (prep_matrix_old sts) in
  map (fun t => amp_num W (2 * m) (spatial_input sts) t) ts.

(* ---- a long-lived PolarizationSimulator: set_circuit / queries in any order ----
   State: _upol (set by _prepare_circuit) and the circuit currently installed in the inner simulator (set by
   _prepare_input at EVERY query, before the inner simulator is asked).  A query whose conversion raises leaves
   the state untouched. *)
Record psim := mkpsim { ps_upol : option (nat * mat R); ps_inner : option (mat R) }.
Definition psim0 : psim := mkpsim None None.
Inductive pop := OpSet (c : pcomp) | OpQuery (inp : pinput) (ts : list state).
Definition pstep (s : psim) (o : pop) : psim * option (list R) :=
  match o with
  | OpSet c => (mkpsim (Some (pwidth c, cmat (pdouble c))) (ps_inner s), None)
  | OpQuery inp ts =>
      match ps_upol s with
      | None => (s, None)
      | Some (m, U) =>
          let sts := prep_states inp in
          match first_err sts with
          | Some _ => (s, None)
          | None =>
              let s' := mkpsim (ps_upol s) (Some (xmul (2 * m) U (prep_matrix sts))) in
              (s', match ps_inner s' with
                   | Some W => Some (map (fun t => amp_num W (2 * m) (spatial_input sts) t) ts)
                   | None => None
                   end)
          end
      end
  end.
Fixpoint prun (s : psim) (h : list pop) : list (option (list R)) :=
  match h with [] => [] | o :: r => let sa := pstep s o in snd sa :: prun (fst sa) r end.
(* what a fresh simulator on the circuit set last answers *)
Definition fresh_answer (cur : option pcomp) (inp : pinput) (ts : list state) : option (list R) :=
  match cur with
  | None => None
  | Some c => match first_err (prep_states inp) with
              | Some _ => None
              | None => Some (impl_amps (cmat (pdouble c)) (pwidth c) inp ts)
              end
  end.
Fixpoint pspec (cur : option pcomp) (h : list pop) : list (option (list R)) :=
  match h with
  | [] => []
  | OpSet c :: r => None :: pspec (Some c) r
  | OpQuery inp ts :: r => fresh_answer cur inp ts :: pspec cur r
  end.

(* ---- Processor(backend, circuit) with a polarised input: configuration history, then probs() ----
   perceval/components/processor.py, experiment.py.  State: the component list, the input state, the cached input
   distribution `_inputs_map` (what is actually simulated), the cached simulator (dropped by every circuit change),
   the photon-count filter (unset until min_detected_photons_filter is called; probs() on a perfect source then
   latches it to the photon number of the input of that moment: check_min_detected_photons_filter).
   with_polarized_input caches the polarised state itself; a noise assignment keeps the
   cache when the input is a custom one (_has_custom_input: a polarised BasicState is), otherwise drops it, and
   probs() then regenerates it through the source, which does not carry the P annotations (every photon H). *)
Record pproc := mkpproc {
  pp_m : nat; pp_items : list (nat * pcomp);
  pp_input : option pinput; pp_cache : option pinput;
  pp_sim : option (mat R); pp_filter : option nat }.
Inductive cop :=
| CInput (inp : pinput)                 (* with_polarized_input *)
| CNoise                                (* processor.noise = NoiseModel() / None / the same object *)
| CAdd (off : nat) (c : pcomp)          (* processor.add(off, component) *)
| CFilter (k : nat)                     (* min_detected_photons_filter(k) *)
| CProbs (ts : list state).             (* probs() *)
Definition strip_pol (inp : pinput) : pinput := map (map (fun _ : jones => default_jones)) inp.
Definition nphotons (inp : pinput) : nat := fold_right (fun vs acc => (length vs + acc)%nat) 0%nat inp.
Definition has_custom_input (s : pproc) : bool := match pp_input s with Some _ => true | None => false end.
Definition cstep (s : pproc) (o : cop) : pproc * option (bool * list R) :=
  match o with
  | CInput inp => (mkpproc (pp_m s) (pp_items s) (Some inp) (Some inp) (pp_sim s) (pp_filter s), None)
  | CNoise => (mkpproc (pp_m s) (pp_items s) (pp_input s)
                       (if has_custom_input s then pp_cache s else None) (pp_sim s) (pp_filter s), None)
  | CAdd off c => (mkpproc (pp_m s) (pp_items s ++ [(off, c)]) (pp_input s) (pp_cache s) None (pp_filter s), None)
  | CFilter k => (mkpproc (pp_m s) (pp_items s) (pp_input s) (pp_cache s) (pp_sim s) (Some k), None)
  | CProbs ts =>
      match pp_input s with
      | None => (s, None)
      | Some inp0 =>
          let inp := match pp_cache s with Some i => i | None => strip_pol inp0 end in
          let U := match pp_sim s with Some U => U | None => cmat (pdouble (PSub (pp_m s) (pp_items s))) end in
          let k := match pp_filter s with Some k => k | None => nphotons inp0 end in
          (mkpproc (pp_m s) (pp_items s) (pp_input s) (Some inp) (Some U) (Some k),
           match first_err (prep_states inp) with
           | Some _ => None
           | None => Some ((k <=? nphotons inp)%nat, impl_amps U (pp_m s) inp ts)
           end)
      end
  end.
Fixpoint crun (s : pproc) (h : list cop) : list (option (bool * list R)) :=
  match h with [] => [] | o :: r => let sa := cstep s o in snd sa :: crun (fst sa) r end.
(* what the property prescribes: the circuit as it is at the time of the call, the polarised input given last *)
Fixpoint cspec (m : nat) (items : list (nat * pcomp)) (cur : option pinput) (k : option nat) (h : list cop)
  : list (option (bool * list R)) :=
  match h with
  | [] => []
  | CInput inp :: r => None :: cspec m items (Some inp) k r
  | CNoise :: r => None :: cspec m items cur k r
  | CAdd off c :: r => None :: cspec m (items ++ [(off, c)]) cur k r
  | CFilter k' :: r => None :: cspec m items cur (Some k') r
  | CProbs ts :: r =>
      match cur with
      | None => None :: cspec m items cur k r
      | Some inp =>
          let k' := match k with Some k' => k' | None => nphotons inp end in
          match first_err (prep_states inp) with
          | Some _ => None
          | None => Some ((k' <=? nphotons inp)%nat, impl_amps (cmat (pdouble (PSub m items))) m inp ts)
          end :: cspec m items cur (Some k') r
      end
  end.

(* ---- specification: one column U . jones_p per photon ---- *)
(* permanent with arbitrary column vectors: amplitude of prod_p (sum_j w_p(j) a+_j)|0> on t, times sqrt(prod t!) *)
Fixpoint permC (n : nat) (cols : list (nat -> R)) (t : state) : R :=
  match cols with
  | [] => if all_zero t then k1 else k0
  | w :: cols' => sumn n (fun j => if (0 <? nth j t 0)%nat then of_nat (nth j t 0) * w j * permC n cols' (dec t j) else k0)
  end.
(* a photon of spatial mode k with Jones vector (eh, ev) enters as eh |2k> + ev |2k+1> *)
Definition jcol (U : mat R) (k : nat) (v : jones) : nat -> R :=
  fun j => U j (2 * k)%nat * fst v + U j (2 * k + 1)%nat * snd v.
Fixpoint spec_cols (U : mat R) (k : nat) (inp : pinput) : list (nat -> R) :=
  match inp with [] => [] | vs :: r => map (jcol U k) vs ++ spec_cols U (S k) r end.
Definition spec_amp (U : mat R) (m : nat) (inp : pinput) (t : state) : R :=
  permC (2 * m) (spec_cols U 0 inp) t.
(* squared norm of the (unnormalised) input  prod_p a+_{k_p, v_p} |0>  for pairwise equal-or-orthogonal
   vectors in each mode: product over the classes of identical photons of (class size)! *)
Fixpoint occ (v : jones) (vs : list jones) : nat :=
  match vs with [] => 0%nat | w :: r => ((if veqb w v then 1 else 0) + occ v r)%nat end.
Fixpoint mult_fact (vs : list jones) : nat :=
  match vs with [] => 1%nat | v :: r => (S (occ v r) * mult_fact r)%nat end.
Definition spec_norm_in (inp : pinput) : nat := fold_right (fun vs acc => (mult_fact vs * acc)%nat) 1%nat inp.

End Polar.

Arguments mdouble {_}. Arguments PLeaf {_}. Arguments PSub {_}. Arguments pwidth {_}. Arguments pdouble_old {_}. Arguments pdouble_g {_}. Arguments pdouble {_}. Arguments pol_unitary {_}. Arguments convert {_}.
Arguments pol_raises {_}. Arguments pol_unitary_old {_}. Arguments PolRaises {_}. Arguments PolMat {_}.
Arguments pwf {_}. Arguments pwfb {_}. Arguments no_empty {_}. Arguments pflatten {_}. Arguments dleaf {_}.
Arguments ones {_}. Arguments is_empty_sub {_}.
Arguments jones_label {_}. Arguments jones_standard {_}. Arguments jones_quarter {_}. Arguments cos_q {_}.
Arguments sin_q {_}. Arguments ipow {_}.
Arguments veqb {_}. Arguments inner {_}. Arguments mstep {_}. Arguments mode_prep {_}. Arguments mblock {_}. Arguments mblock_old {_}. Arguments prep_matrix {_}. Arguments impl_amp {_}. Arguments impl_amps {_}. Arguments psim0 {_}. Arguments mkpproc {_}. Arguments pp_m {_}. Arguments pp_items {_}. Arguments pp_input {_}. Arguments pp_cache {_}. Arguments pp_sim {_}. Arguments pp_filter {_}. Arguments CInput {_}. Arguments CNoise {_}. Arguments CAdd {_}. Arguments CFilter {_}. Arguments CProbs {_}. Arguments cstep {_}. Arguments crun {_}. Arguments cspec {_}. Arguments strip_pol {_}. Arguments nphotons {_}. Arguments OpSet {_}. Arguments OpQuery {_}. Arguments pstep {_}. Arguments prun {_}. Arguments pspec {_}. Arguments fresh_answer {_}. Arguments ps_upol {_}. Arguments ps_inner {_}. Arguments mkpsim {_}.
Arguments mcounts {_}. Arguments merr {_}. Arguments bdiag {_}. Arguments bentry {_}. Arguments idblock {_}.
Arguments prep_states {_}. Arguments photon_jones {_}. Arguments default_jones {_}. Arguments resolve_photons {_}. Arguments first_err {_}. Arguments spatial_input {_}. Arguments prep_matrix_old {_}.
Arguments no_photon {_}. Arguments convert_old {_}. Arguments ConvErr {_}. Arguments ConvNoMatrix {_}. Arguments ConvOk {_}.
Arguments impl_amp_old {_}. Arguments impl_amps_old {_}. Arguments permC {_}. Arguments jcol {_}. Arguments spec_cols {_}. Arguments spec_amp {_}.
Arguments MP0 {_}. Arguments MP1 {_}. Arguments MP2 {_}. Arguments MErr {_}.
Arguments occ {_}. Arguments mult_fact {_}. Arguments spec_norm_in {_}.
