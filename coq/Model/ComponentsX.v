(* Executable elementary components over QI (C14 correspondence). *)
From PV Require Export Model.Components Model.Param Model.CircuitX.

Definition to_conv (x : sx) : convention := match to_Z x with 0%Z => Rx | 1%Z => Ry | _ => Hc end.
Definition qII : QI := qii.
(* args: conv, c, s, e_tl, e_bl, e_tr, e_br *)
Definition x_bs (x : sx) : sx :=
  of_mat 2 (bs_mat (R:=QI) (to_conv (nthx 0 x)) qII (to_qi (nthx 1 x)) (to_qi (nthx 2 x))
     (to_qi (nthx 3 x)) (to_qi (nthx 4 x)) (to_qi (nthx 5 x)) (to_qi (nthx 6 x))).
Definition x_ps (x : sx) : sx := of_mat 1 (ps_mat (R:=QI) (to_qi (nthx 0 x))).
Definition x_wp (x : sx) : sx :=
  of_mat 2 (wp_mat (R:=QI) qII (to_qi (nthx 0 x)) (to_qi (nthx 1 x)) (to_qi (nthx 2 x)) (to_qi (nthx 3 x))).
Definition x_pr (x : sx) : sx := of_mat 2 (pr_mat (R:=QI) (to_qi (nthx 0 x)) (to_qi (nthx 1 x))).
Definition x_perm (x : sx) : sx := let p := to_nats x in of_mat (length p) (perm_mat (R:=QI) p).

Definition to_Q (x : sx) : Q := match to_Z (nthx 1 x) with Zpos p => (to_Z (nthx 0 x)) # p | _ => 0 end.
Definition to_optQ (x : sx) : option Q := match x with L [] => None | _ => Some (to_Q x) end.
Definition of_Q (q : Q) : sx := let r := Qred q in L [I (Qnum r); I (Zpos (Qden r))].
(* args: v, lo|(), hi|(), periodic *)
Definition x_check_value (x : sx) : sx :=
  match check_value (to_Q (nthx 0 x)) (to_optQ (nthx 1 x)) (to_optQ (nthx 2 x)) (to_bool (nthx 3 x)) with
  | WOk v => L [I 1; of_Q v]
  | WErr => L [I 0]
  end.

(* value of exp(i * sum_k n_k * a_k) given the unit numbers exp(i a_k): parameters bound through an
   integer-linear expression (Expression("2*a - b", ...)) *)
Fixpoint qi_pow (e : QI) (n : nat) : QI := match n with O => k1 | S n' => kmul e (qi_pow e n') end.
Definition unit_pow (e : QI) (z : Z) : QI :=
  match z with Z0 => k1 | Zpos p => qi_pow e (Pos.to_nat p) | Zneg p => qi_pow (kconj e) (Pos.to_nat p) end.
Definition x_unit_prod (x : sx) : sx :=
  of_qi (fold_left (fun acc t => kmul acc (unit_pow (to_qi (nthx 0 t)) (to_Z (nthx 1 t)))) (to_list x) (k1 : QI)).
