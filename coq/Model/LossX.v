(* Executable loss model (C07 correspondence). *)
From PV Require Export Model.Loss Model.SelectX.

Definition to_lcomp (x : sx) : lcomp QI :=
  match to_Z (nthx 0 x) with
  | 0%Z => LU (R:=QI) (to_nat (nthx 1 x)) (to_nat (nthx 2 x)) (to_mat (nthx 3 x))
  | _ => LLC (R:=QI) (to_nat (nthx 1 x)) (to_qi (nthx 2 x)) (to_qi (nthx 3 x))
  end.

Definition lossy_dist (m : nat) (comps : list (lcomp QI)) (s : state) : dist :=
  let M := (m + count_lc comps)%nat in
  let U := oprodx M (enlarged M m comps) in
  dmerge (trace_out m (spec_dist U M (s ++ repeat 0%nat (M - m)))).

(* independent removal at the input: each photon of mode j survives with probability 1 - l_j *)
Fixpoint binom (n k : nat) : nat :=
  match n, k with
  | _, O => 1%nat
  | O, S _ => 0%nat
  | S n', S k' => (binom n' k' + binom n' (S k'))%nat
  end.
Fixpoint qpow (x : Qc) (n : nat) : Qc := match n with O => Q2Qc 1 | S n' => (x * qpow x n')%Qc end.
Fixpoint thin (s : state) (ls : list Qc) : dist :=
  match s, ls with
  | x :: r, l :: lr =>
      flat_map (fun k => map (fun tw => (k :: fst tw, (Qc_of_nat (binom x k) * qpow (1 - l) k * qpow l (x - k) * snd tw)%Qc))
                             (thin r lr)) (seq 0 (S x))
  | _, _ => [([], Q2Qc 1)]
  end.
Definition thinned_dist (U : mat QI) (m : nat) (s : state) (ls : list Qc) : dist :=
  dmerge (flat_map (fun sw => dscale (snd sw) (spec_dist U m (fst sw))) (thin s ls)).

(* args: m, comps, s -> [mass, dist, expanded matrix, enlarged matrix] *)
Definition x_lossy (x : sx) : sx :=
  let m := to_nat (nthx 0 x) in let comps := map to_lcomp (to_list (nthx 1 x)) in let s := to_state (nthx 2 x) in
  let M := (m + count_lc comps)%nat in
  let d := lossy_dist m comps s in
  L [of_Qc (mass d); of_dist d; of_mat M (oprodx M (expanded M m comps)); of_mat M (oprodx M (enlarged M m comps)); of_nat_sx M].
(* args: m, U, s, losses per mode -> [mass, dist] *)
Definition x_thinned (x : sx) : sx :=
  let d := thinned_dist (to_mat (nthx 1 x)) (to_nat (nthx 0 x)) (to_state (nthx 2 x)) (map to_Qc (to_list (nthx 3 x))) in
  L [of_Qc (mass d); of_dist d].
