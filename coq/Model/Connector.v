(* Plugging a component or a processor onto chosen modes (C10).
   Sources: perceval/components/_mode_connector.py (ModeConnector.resolve, _check_consistency,
   add_heralded_modes, generate_permutation), perceval/components/experiment.py (Experiment.add,
   _add_component, _compose_experiment, _validate_postselect_composition, _add_herald, add_herald, add_port,
   _add_detector), exqalibur PostSelect (apply_permutation, shift_modes, can_compose_with,
   is_independent_with, merge; DESIGN Appendix A.1).
   The model is faithful to the code as it is, quirks included (`int -> name/list` dictionary entries are ignored;
   failures that happen late — PERM constructor, post-selection merge — leave the partial updates in place).
   Three behaviours are switched by a configuration record [cfg]; [cfg_now] is /repo as it is now, [cfg_old] the
   code before the fix commits 7bb2f795, c0ab6b50, 2ff1ae25 (kept for the `_old_code` refutations):
   - c_comp_inverse  : a plain component gets the inverse PERM behind it, like a processor (old: PERM in front only);
   - c_ps_shift_first: the added processor's post-selection is shifted by c_first and THEN permuted with
                       first = c_first (old: permuted first, then shifted);
   - c_name_to_int   : a dictionary entry `port name -> int` is accepted for one-mode ports (old: always refused);
   - c_port_consecutive (6d353ebc): a non-herald port of the added processor is re-attached at the image of its first
                       mode only when ALL its modes are mapped to consecutive modes in order, else dropped (old:
                       always re-attached on consecutive modes from the image of the first one).
   `simplify` and the fusion of two consecutive PERMs are matrix-preserving by contract (C11) and are not
   modelled: the state keeps the matrix of the component list, not the list. *)
From PV Require Export Model.Select Model.Components.
From Coq Require Import ZArith List Bool.
Import ListNotations.
Local Open Scope nat_scope.

(* ------------------------------------------------------------------ 1. mappings *)
Definition amap := list (Z * nat).          (* a Python dict {left mode: right mode}, insertion order *)
Definition nmap := list (nat * nat).

Fixpoint dset (d : amap) (k : Z) (v : nat) : amap :=
  match d with
  | [] => [(k, v)]
  | (k', v') :: r => if (k' =? k)%Z then (k', v) :: r else (k', v') :: dset r k v
  end.

Record cfg := { c_comp_inverse : bool; c_ps_shift_first : bool; c_name_to_int : bool; c_port_consecutive : bool }.
Definition cfg_now : cfg := {| c_comp_inverse := true; c_ps_shift_first := true; c_name_to_int := true;
                             c_port_consecutive := true |}.
Definition cfg_old : cfg := {| c_comp_inverse := false; c_ps_shift_first := false; c_name_to_int := false;
                             c_port_consecutive := false |}.

Inductive mkey := KInt (k : Z) | KName (s : nat).
Inductive mval := VInt (v : nat) | VName (s : nat) | VList (l : list nat).
Inductive mapping := MInt (b : Z) | MList (l : list Z) | MDict (d : list (mkey * mval)).

(* _resolve_port_left/_resolve_port_right over the per-mode port names (0 = no port on that mode) *)
Fixpoint first_index (s : nat) (names : list nat) : nat :=
  match names with [] => 0 | x :: r => if x =? s then 0 else S (first_index s r) end.
Definition port_idx (names : list nat) (s : nat) : option (list nat) :=
  let c := count_occ Nat.eq_dec names s in
  if c =? 0 then None else Some (seq (first_index s names) c).

Fixpoint dset_all (d : amap) (ks vs : list nat) : amap :=
  match ks, vs with
  | k :: ks', v :: vs' => dset_all (dset d (Z.of_nat k) v) ks' vs'
  | _, _ => d
  end.

(* dict case of ModeConnector.resolve; None = an exception is raised *)
Fixpoint resolve_dict (n2i : bool) (r_is_comp : bool) (lnames rnames : list nat) (items : list (mkey * mval)) (acc : amap)
  : option amap :=
  match items with
  | [] => Some acc
  | (KInt k, VInt v) :: r => resolve_dict n2i r_is_comp lnames rnames r (dset acc k v)
  | (KInt _, _) :: r => resolve_dict n2i r_is_comp lnames rnames r acc          (* silently ignored *)
  | (KName s, v) :: r =>
      match port_idx lnames s with
      | None => None
      | Some l_idx =>
          match (match v with
                 | VInt x => if n2i && (length l_idx =? 1) then Some [x] else None
                   (* several modes: the int is looked up as a port name and raises; old code: always raises *)
                 | VList l => Some l
                 | VName t => if r_is_comp then None else port_idx rnames t
                 end) with
          | None => None
          | Some r_idx =>
              if length l_idx =? length r_idx
              then resolve_dict n2i r_is_comp lnames rnames r (dset_all acc l_idx r_idx) else None
          end
      end
  end.
(* _mapping_type_checks *)
Definition type_ok (r_is_comp : bool) (items : list (mkey * mval)) : bool :=
  forallb (fun kv => match snd kv with VName _ => negb r_is_comp | _ => true end) items.

(* n = right_obj.m, rmodes = _get_ordered_rmodes() *)
Definition resolve_map (cf : cfg) (r_is_comp : bool) (n : nat) (rmodes lnames rnames : list nat) (mp : mapping) : option amap :=
  match mp with
  | MInt b => Some (fold_left (fun acc i => dset acc (b + Z.of_nat i)%Z (nth i rmodes 0)) (seq 0 n) [])
  | MList l => if length l =? length rmodes
               then Some (fold_left (fun acc kv => dset acc (fst kv) (snd kv)) (combine l rmodes) [])
               else None
  | MDict d => if type_ok r_is_comp d then resolve_dict (c_name_to_int cf) r_is_comp lnames rnames d [] else None
  end.

Definition has_dup (l : list nat) : bool := negb (length (nodup Nat.eq_dec l) =? length l).
(* _check_consistency; [conn] = Experiment.is_mode_connectible *)
Definition check_consistency (n : nat) (conn : Z -> bool) (m : amap) : bool :=
  (length m =? n) && forallb (fun kv => (0 <=? fst kv)%Z) m && forallb (fun kv => conn (fst kv)) m
  && negb (has_dup (map snd m)).
Definition to_nmap (m : amap) : nmap := map (fun kv => (Z.to_nat (fst kv), snd kv)) m.

(* ------------------------------------------------------------------ 2. generate_permutation *)
Definition keys (m : nmap) : list nat := map fst m.
Definition vals (m : nmap) : list nat := map snd m.
Definition lmax (l : list nat) : nat := fold_right Nat.max 0 l.
Definition lmin (l : list nat) : nat := fold_right Nat.min (hd 0 l) l.
Definition lookup (m : nmap) (k : nat) : nat :=
  match find (fun kv => fst kv =? k) m with Some kv => snd kv | None => 0 end.
(* for mm in missing_modes: mode_mapping[mm] = max(mode_mapping.values()) + 1 *)
Fixpoint fill (m : nmap) (missing : list nat) : nmap :=
  match missing with [] => m | mm :: r => fill (m ++ [(mm, S (lmax (vals m)))]) r end.
Definition missing_modes (m : nmap) : list nat :=
  let mn := lmin (keys m) in
  filter (fun x => negb (existsb (Nat.eqb x) (keys m))) (seq mn (S (lmax (keys m)) - mn)).
Definition filled (m : nmap) : nmap := fill m (missing_modes m).
(* perm_vect = [mode_mapping[i] for i in sorted(mode_mapping.keys())]; the keys are then min .. min+len-1 *)
Definition perm_vect (m : nmap) : list nat :=
  let m' := filled m in map (lookup m') (seq (lmin (keys m)) (length m')).
(* the assertion of PERM.__init__ *)
Definition is_perm (p : list nat) : bool := forallb (fun i => existsb (Nat.eqb i) p) (seq 0 (length p)).
Definition is_identity (p : list nat) : bool := forallb (fun iv => fst iv =? snd iv) (combine (seq 0 (length p)) p).
(* PERM.inverse(h=True).perm_vector *)
Fixpoint index_of (v : nat) (l : list nat) : nat :=
  match l with [] => 0 | x :: r => if x =? v then 0 else S (index_of v r) end.
Definition invert (p : list nat) : list nat := map (fun i => index_of i p) (seq 0 (length p)).

(* the mode function of a PERM component placed on modes mn .. mn+len-1 *)
Definition pfun (mn : nat) (p : list nat) (i : nat) : nat :=
  if inb mn (length p) i then mn + nth (i - mn) p 0 else i.

(* ------------------------------------------------------------------ 3. post-selection re-expression *)
Fixpoint ps_rename (f : nat -> nat) (p : ps) : ps :=
  match p with
  | PTrue => PTrue
  | PCmp modes op k => PCmp (map f modes) op k
  | PAnd a b => PAnd (ps_rename f a) (ps_rename f b)
  | POr a b => POr (ps_rename f a) (ps_rename f b)
  | PXor a b => PXor (ps_rename f a) (ps_rename f b)
  | PNot a => PNot (ps_rename f a)
  end.
(* native apply_permutation(perm, first) and shift_modes(k)  (Appendix A.1) *)
Definition ps_apply_perm (p : list nat) (first : nat) : ps -> ps := ps_rename (pfun first p).
Definition ps_shift (k : nat) : ps -> ps := ps_rename (fun i => i + k).
(* what _compose_experiment does. Now: shift by c_first, then (only when a PERM was needed) permute with
   first = c_first. Before c0ab6b50: permute first, then shift *)
Definition ps_code (shift_first : bool) (mn : nat) (pv : list nat) (p : ps) : ps :=
  if shift_first then (if is_identity pv then ps_shift mn p else ps_apply_perm (invert pv) mn (ps_shift mn p))
  else ps_shift mn (if is_identity pv then p else ps_apply_perm (invert pv) mn p).
(* the re-expression in the new numbering: right mode r sits on mode mn + pv^-1[r] *)
Definition ps_right (mn : nat) (pv : list nat) (p : ps) : ps := ps_apply_perm (invert pv) mn (ps_shift mn p).

Fixpoint ps_conds (p : ps) : list (list nat) :=
  match p with
  | PTrue => []
  | PCmp modes _ _ => [modes]
  | PAnd a b | POr a b | PXor a b => ps_conds a ++ ps_conds b
  | PNot a => ps_conds a
  end.
Definition mem (x : nat) (l : list nat) : bool := existsb (Nat.eqb x) l.
(* native can_compose_with: every condition contains all the impacted modes or none of them *)
Definition can_compose (p : ps) (modes : list nat) : bool :=
  forallb (fun c => forallb (fun x => mem x c) modes || forallb (fun x => negb (mem x c)) modes) (ps_conds p).
(* native is_independent_with: no common mode *)
Definition independent (a b : ps) : bool :=
  forallb (fun x => negb (mem x (concat (ps_conds b)))) (concat (ps_conds a)).

(* ------------------------------------------------------------------ 4. experiments *)
Inductive mtype := Photonic | HeraldT | Classical.
Inductive pname := NUser (id : nat) | NAuto (n : nat).          (* 'herald<n>' when autogenerated *)
Inductive pkind := PkHerald (expected : nat) | PkPort (enc : nat).
Record pent := { p_kind : pkind; p_name : pname; p_range : list nat }.
Definition is_herald_port (p : pent) : bool := match p_kind p with PkHerald _ => true | _ => false end.
Definition expected_of (p : pent) : nat := match p_kind p with PkHerald e => e | _ => 0 end.

Section Exp.
Variable R : cring.
(* re-tabulation of a computed matrix (identity on values below the size): [retab] when executed *)
Variable tb : nat -> mat R -> mat R.
Variable cf : cfg.

Record exp := {
  e_moi : nat;                 (* _n_moi *)
  e_nher : nat;                (* _n_heralds *)
  e_types : list mtype;        (* _mode_type *)
  e_U : mat R;                 (* matrix of the component list on circuit_size modes *)
  e_in : list pent;            (* _in_ports (insertion order) *)
  e_out : list pent;           (* _out_ports *)
  e_dets : list nat;           (* _detectors, 0 = None *)
  e_ps : option ps;            (* _postselect *)
  e_anon : nat                 (* _anon_herald_num *)
}.
Definition csize (e : exp) : nat := e_moi e + e_nher e.
Definition new_exp (m : nat) : exp :=
  {| e_moi := m; e_nher := 0; e_types := repeat Photonic m; e_U := mid; e_in := []; e_out := [];
     e_dets := repeat 0 m; e_ps := None; e_anon := 0 |}.

(* Experiment.heralds: {first mode of the port: expected} over the output ports that are heralds *)
Definition heralds_of (ports : list pent) : list (nat * nat) :=
  map (fun p => (hd 0 (p_range p), expected_of p)) (filter is_herald_port ports).
Definition herald_modes (e : exp) : list nat := map fst (heralds_of (e_out e)).
(* out_port_names / in_port_names *)
Definition name_code (n : pname) : nat * nat := match n with NUser id => (0, id) | NAuto k => (1, k) end.
Definition port_at (ports : list pent) (m : nat) : option pent :=
  find (fun p => mem m (p_range p)) ports.
(* the last port covering a mode wins in out_port_names (ports never overlap in reachable states) *)
Definition names_of (size : nat) (ports : list pent) : list (option pname) :=
  map (fun m => match port_at (rev ports) m with Some p => Some (p_name p) | None => None end) (seq 0 size).
Definition free (ports : list pent) (modes : list nat) : bool :=
  forallb (fun m => match port_at ports m with None => true | Some _ => false end) modes.
Definition connectible (e : exp) (k : Z) : bool :=
  (0 <=? k)%Z && (Z.to_nat k <? csize e) &&
  match nth (Z.to_nat k) (e_types e) Classical with Photonic => true | _ => false end.

Fixpoint set_nth {A} (l : list A) (i : nat) (x : A) : list A :=
  match l, i with
  | [], _ => []
  | _ :: r, O => x :: r
  | y :: r, S i' => y :: set_nth r i' x
  end.

Definition with_ports (e : exp) (i o : list pent) (t : list mtype) (anon : nat) : exp :=
  {| e_moi := e_moi e; e_nher := e_nher e; e_types := t; e_U := e_U e; e_in := i; e_out := o;
     e_dets := e_dets e; e_ps := e_ps e; e_anon := anon |}.

(* Experiment._add_herald: (state, raised?) *)
Definition add_herald_int (e : exp) (mode expected : nat) (uname : option nat) : exp * bool :=
  if free (e_in e) [mode] && free (e_out e) [mode] then
    let nm := match uname with Some id => NUser id | None => NAuto (e_anon e) end in
    let anon := match uname with Some _ => e_anon e | None => S (e_anon e) end in
    let p := {| p_kind := PkHerald expected; p_name := nm; p_range := [mode] |} in
    (with_ports e (e_in e ++ [p]) (e_out e ++ [p]) (set_nth (e_types e) mode HeraldT) anon, true)
  else (e, false).
(* Experiment.add_herald *)
Definition add_herald (e : exp) (mode expected : nat) (uname : option nat) : exp * bool :=
  if (expected <=? 1) && (mode <? csize e) then
    match add_herald_int e mode expected uname with
    | (e', true) =>
        ({| e_moi := e_moi e' - 1; e_nher := S (e_nher e'); e_types := e_types e'; e_U := e_U e'; e_in := e_in e';
            e_out := e_out e'; e_dets := e_dets e'; e_ps := e_ps e'; e_anon := e_anon e' |}, true)
    | (e', false) => (e', false)
    end
  else (e, false).
(* Experiment.add_port; loc: 0 input, 1 output, 2 both *)
Definition add_port (e : exp) (mode : nat) (name enc size loc : nat) : exp * bool :=
  let p := {| p_kind := PkPort enc; p_name := NUser name; p_range := seq mode size |} in
  let (e1, ok1) :=
    if (loc =? 0) || (loc =? 2) then
      if free (e_in e) (seq mode size) then (with_ports e (e_in e ++ [p]) (e_out e) (e_types e) (e_anon e), true)
      else (e, false)
    else (e, true) in
  if ok1 then
    if (loc =? 1) || (loc =? 2) then
      if free (e_out e1) (seq mode size)
      then (with_ports e1 (e_in e1) (e_out e1 ++ [p]) (e_types e1) (e_anon e1), true) else (e1, false)
    else (e1, true)
  else (e1, false).
(* Experiment._add_detector *)
Definition add_det (e : exp) (mode d : nat) : exp * bool :=
  if mode <? csize e then
    match nth mode (e_types e) Classical with
    | Classical => (e, false)
    | t =>
        ({| e_moi := e_moi e; e_nher := e_nher e;
            e_types := match t with Photonic => set_nth (e_types e) mode Classical | _ => e_types e end;
            e_U := e_U e; e_in := e_in e; e_out := e_out e; e_dets := set_nth (e_dets e) mode d;
            e_ps := e_ps e; e_anon := e_anon e |}, true)
    end
  else (e, false).
Definition set_ps (e : exp) (p : ps) : exp :=
  {| e_moi := e_moi e; e_nher := e_nher e; e_types := e_types e; e_U := e_U e; e_in := e_in e; e_out := e_out e;
     e_dets := e_dets e; e_ps := Some p; e_anon := e_anon e |}.

(* ---- the inserted segment ---- *)
Definition perm_block (mn : nat) (p : list nat) : mat R := embed mn (length p) (perm_mat p).
(* _add_component: [PERM; component on min .. min+k-1] *)
Definition comp_step (n mn : nat) (pv : list nat) (k : nat) (Uc : mat R) : mat R :=
  mmul n (embed mn k Uc) (perm_block mn pv).
(* _compose_experiment: [PERM; the added components shifted by min; PERM^-1] *)
Definition proc_step (n mn : nat) (pv : list nat) (nR : nat) (UR : mat R) : mat R :=
  mmul n (perm_block mn (invert pv)) (mmul n (embed mn nR UR) (perm_block mn pv)).

(* the segment _add_component inserts: now [PERM; component; PERM^-1], before 7bb2f795 [PERM; component] *)
Definition comp_seg (inv : bool) (n mn : nat) (pv : list nat) (k : nat) (Uc : mat R) : mat R :=
  if inv then proc_step n mn pv k Uc else comp_step n mn pv k Uc.

(* _validate_postselect_composition (an assert) *)
Definition ps_allows (e : exp) (m : amap) : bool :=
  match e_ps e with None => true | Some p => can_compose p (map (fun kv => Z.to_nat (fst kv)) m) end.
(* keep_port = False: output ports touching a mapped mode are deleted *)
Definition drop_ports (keep : bool) (e : exp) (m : nmap) : list pent :=
  if keep then e_out e else filter (fun p => negb (existsb (fun k => mem k (p_range p)) (keys m))) (e_out e).

Inductive outcome := Rejected | Accepted.

(* Experiment.add(mapping, component) for a unitary component of width k and matrix Uc.
   Result: new state, accepted?, and the data of the inserted segment (min, perm vector) when it was built *)
Definition add_comp (e : exp) (mp : mapping) (k : nat) (Uc : mat R) (keep : bool)
  : exp * bool * option (nat * list nat * nmap) :=
  match resolve_map cf true k (seq 0 k) (map (fun o => match o with Some (NUser id) => id | _ => 0 end)
                                          (names_of (csize e) (e_out e))) [] mp with
  | None => (e, false, None)
  | Some am =>
      if check_consistency k (connectible e) am && ps_allows e am then
        let m := to_nmap am in
        let e1 := with_ports e (e_in e) (drop_ports keep e m) (e_types e) (e_anon e) in
        let pv := perm_vect m in
        if is_perm pv then
          let mn := lmin (keys m) in
          let n := csize e in
          ({| e_moi := e_moi e1; e_nher := e_nher e1; e_types := e_types e1;
              e_U := tb n (mmul n (tb n (comp_seg (c_comp_inverse cf) n mn pv k Uc)) (e_U e1));
              e_in := e_in e1; e_out := e_out e1; e_dets := e_dets e1; e_ps := e_ps e1; e_anon := e_anon e1 |},
           true, Some (mn, pv, m))
        else (e1, false, None)
      else (e, false, None)
  end.

(* key of the first entry with that value: list(mapping.keys())[list(mapping.values()).index(v)] *)
Definition key_of (m : nmap) (v : nat) : nat :=
  match find (fun kv => snd kv =? v) m with Some kv => fst kv | None => 0 end.

(* [inverse_mapping[r] for r in port_range] == new_range (only tested since 6d353ebc) *)
Definition port_kept (cons : bool) (m' : nmap) (p : pent) (r : list nat) : bool :=
  negb cons || (if list_eq_dec Nat.eq_dec (map (key_of m') (p_range p)) r then true else false).

(* transfer of the added experiment's output ports, then of its input ports *)
Definition transfer_out (cons : bool) (m' : nmap) (st : exp * bool) (p : pent) : exp * bool :=
  let (e, ok) := st in
  if ok then
    let pm := key_of m' (hd 0 (p_range p)) in
    match p_kind p with
    | PkHerald ex => add_herald_int e pm ex (match p_name p with NUser id => Some id | NAuto _ => None end)
    | PkPort _ =>
        let r := seq pm (length (p_range p)) in
        if port_kept cons m' p r && free (e_out e) r
        then (with_ports e (e_in e) (e_out e ++ [{| p_kind := p_kind p; p_name := p_name p; p_range := r |}])
                         (e_types e) (e_anon e), true)
        else (e, true)
    end
  else st.
Definition transfer_in (cons : bool) (m' : nmap) (e : exp) (p : pent) : exp :=
  let pm := key_of m' (hd 0 (p_range p)) in
  let r := seq pm (length (p_range p)) in
  if port_kept cons m' p r && free (e_in e) r
  then with_ports e (e_in e ++ [{| p_kind := p_kind p; p_name := p_name p; p_range := r |}]) (e_out e)
                  (e_types e) (e_anon e)
  else e.

(* add_heralded_modes: the right heralds become new modes circuit_size, circuit_size+1, ... *)
Definition with_heralds (nL : nat) (m : nmap) (hpos : list nat) : nmap :=
  m ++ combine (seq nL (length hpos)) hpos.

(* Experiment.add(mapping, processor) *)
Definition add_proc (e : exp) (mp : mapping) (r : exp) (keep : bool)
  : exp * bool * option (nat * list nat * nmap) :=
  let hpos := herald_modes r in
  let rmodes := filter (fun x => negb (mem x hpos)) (seq 0 (csize r)) in
  let code := fun o => match o with Some (NUser id) => id | _ => 0 end in
  match resolve_map cf false (e_moi r) rmodes (map code (names_of (csize e) (e_out e)))
                    (map code (names_of (csize r) (e_in r))) mp with
  | None => (e, false, None)
  | Some am =>
      if check_consistency (e_moi r) (connectible e) am && ps_allows e am then
        let m0 := to_nmap am in
        let nL := csize e in
        let nh := length hpos in
        let m := with_heralds nL m0 hpos in
        let e1 := {| e_moi := e_moi e; e_nher := e_nher e + nh; e_types := e_types e ++ repeat HeraldT nh;
                     e_U := e_U e; e_in := e_in e; e_out := drop_ports keep e m0;
                     e_dets := e_dets e ++ map (fun h => nth h (e_dets r) 0) hpos; e_ps := e_ps e;
                     e_anon := e_anon e |} in
        let pv := perm_vect m in
        if is_perm pv then
          let mn := lmin (keys m) in
          let n := nL + nh in
          let m' := filled m in
          let e2 := {| e_moi := e_moi e1; e_nher := e_nher e1; e_types := e_types e1;
                       e_U := tb n (mmul n (tb n (proc_step n mn pv (csize r) (e_U r))) (embed 0 nL (e_U e1)));
                       e_in := e_in e1; e_out := e_out e1; e_dets := e_dets e1; e_ps := e_ps e1;
                       e_anon := e_anon e1 |} in
          match fold_left (transfer_out (c_port_consecutive cf) m') (e_out r) (e2, true) with
          | (e3, false) => (e3, false, None)
          | (e3, true) =>
              let e4 := fold_left (transfer_in (c_port_consecutive cf) m') (e_in r) e3 in
              match e_ps r with
              | None => (e4, true, Some (mn, pv, m))
              | Some q =>
                  let q' := ps_code (c_ps_shift_first cf) mn pv q in
                  match e_ps e4 with
                  | None => (set_ps e4 q', true, Some (mn, pv, m))
                  | Some a => if independent a q' then (set_ps e4 (PAnd a q'), true, Some (mn, pv, m))
                              else (e4, false, None)
                  end
              end
          end
        else (e1, false, None)
      else (e, false, None)
  end.
End Exp.

Arguments e_moi {_}. Arguments e_nher {_}. Arguments e_types {_}. Arguments e_U {_}. Arguments e_in {_}.
Arguments e_out {_}. Arguments e_dets {_}. Arguments e_ps {_}. Arguments e_anon {_}. Arguments csize {_}.
Arguments new_exp {_}. Arguments herald_modes {_}. Arguments connectible {_}. Arguments add_herald {_}.
Arguments add_herald_int {_}. Arguments add_port {_}. Arguments add_det {_}. Arguments set_ps {_}.
Arguments perm_block {_}. Arguments comp_step {_}. Arguments proc_step {_}. Arguments comp_seg {_}. Arguments add_comp {_}.
Arguments add_proc {_}. Arguments ps_allows {_}. Arguments drop_ports {_}. Arguments transfer_out {_}.
Arguments transfer_in {_}. Arguments with_ports {_}.
