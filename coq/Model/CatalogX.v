(* Executable entry points for C20: the catalog gates in their towers (exported with the tower's defining
   elements so that the driver evaluates them numerically), parametrised gates over Gaussian rationals,
   and the logical action of an arbitrary heralded, post-selected interferometer given on a dyadic grid
   (Gaussian integers), used for the translation validation of the converters. *)
From PV Require Export Model.Catalog Model.SelectX.

Definition of_flat (l : list qi) : sx := L (map of_qi l).
Definition of_heralds (h : heralds) : sx := L (map (fun mv => L [of_nat_sx (fst mv); of_nat_sx (snd mv)]) h).
Fixpoint of_ps (p : ps) : sx :=
  match p with
  | PTrue => L [I 0]
  | PCmp modes op k => L [I 1; of_nats modes;
                          I (match op with CEq => 0 | CNe => 1 | CLt => 2 | CGt => 3 | CLe => 4 | CGe => 5 end)%Z; of_nat_sx k]
  | PAnd a b => L [I 2; of_ps a; of_ps b]
  | POr a b => L [I 3; of_ps a; of_ps b]
  | PXor a b => L [I 4; of_ps a; of_ps b]
  | PNot a => L [I 5; of_ps a]
  end.

(* [m, q, heralds, ps, tower generators, U, f, G, logical amplitudes A[b][b'], verdict of the decision procedure] *)
Definition export_gate {D : dcring} (gens : list (list qi)) (g : gate D) (G : mat D) (f : D) : sx :=
  let U := g_unitary g in let m := g_m g in let q := g_q g in
  L [of_nat_sx m; of_nat_sx q; of_heralds (g_heralds g); of_ps (g_ps g); L (map of_flat gens);
     L (map (fun i => L (map (fun j => of_flat (dflat (U i j))) (seq 0 m))) (seq 0 m));
     of_flat (dflat f);
     L (map (fun i => L (map (fun j => of_flat (dflat (G i j))) (nbasis q))) (nbasis q));
     L (map (fun b => L (map (fun b' => of_flat (dflat (lamp U m q (g_heralds g) b b'))) (nbasis q))) (nbasis q));
     of_bool (logical_ok g G f)].

Definition x_cat_gate (x : sx) : sx :=
  match to_Z x with
  | 0 => export_gate gens_T1 c_h (M_h t1_r2) k1
  | 1 => export_gate gens_T1 c_x M_x k1
  | 2 => export_gate gens_T1 c_y (M_y t1_ii) k1
  | 3 => export_gate gens_T1 c_z (M_diag k1 (kopp k1)) k1
  | 4 => export_gate gens_T1 c_s (M_diag k1 t1_ii) k1
  | 5 => export_gate gens_T1 c_sdag (M_diag k1 (kopp t1_ii)) k1
  | 6 => export_gate gens_T1 c_t (M_diag k1 t1_w) k1
  | 7 => export_gate gens_T1 c_tdag (M_diag k1 (kconj t1_w)) k1
  | 8 => export_gate gens_T2 c_ppcz M_cz (f_of c_ppcz)
  | 9 => export_gate gens_T2 c_ppcnot M_cnot (f_of c_ppcnot)
  | 10 => export_gate gens_T3 c_hcz M_cz (f_of c_hcz)
  | 11 => export_gate gens_T3 c_hcnot M_cnot (f_of c_hcnot)
  | 12 => export_gate gens_T4 c_klm M_cnot (f_of c_klm)
  | _ => L []
  end%Z.

(* parametrised gates: args kind (0 rx, 1 ry, 2 rz, 3 ph), c, s (rationals as qi; rz, ph use e = c + i s)
   -> [U (2x2), logical amplitudes A[b][b'] (2x2), named matrix] *)
Definition x_param_gate (x : sx) : sx :=
  let c : QI := to_qi (nthx 1 x) in let s : QI := to_qi (nthx 2 x) in
  let e : QI := qiadd c (qimul qii s) in let ii : QI := qii in
  let gG : gate QI * mat QI :=
    match to_Z (nthx 0 x) with
    | 0 => (g_rx ii c s, M_rx ii c s)
    | 1 => (g_ry ii c s, M_ry c s)
    | 2 => (g_rz e, M_diag (kconj e) e)
    | _ => (g_ph e, M_diag k1 e)
    end%Z in
  let U := g_unitary (fst gG) in
  L [of_mat 2 U; L (map (fun b => L (map (fun b' => of_qi (lamp U 2 1 [] b b')) (nbasis 1))) (nbasis 1)); of_mat 2 (snd gG)].

(* controlled rotation block: args n, a -> [block (2n x 2n), A[b][b'] on the 2^n basis, diagonal of M_crot] *)
Definition x_crot (x : sx) : sx :=
  let n := to_nat (nthx 0 x) in let a : QI := to_qi (nthx 1 x) in
  let U := crot_block n a in
  L [of_mat (2 * n) U;
     L (map (fun b => L (map (fun b' => of_qi (lamp U (2 * n) n [] b b')) (nbasis n))) (nbasis n));
     L (map (fun b => of_qi (M_crot n a b b)) (nbasis n)); of_ps (crot_ps n)].

(* ---- logical action of an interferometer given on a dyadic grid ---- *)
Definition to_zi (x : sx) : zi := mkzi (to_Z (nthx 0 x)) (to_Z (nthx 1 x)).
Definition of_zi (a : zi) : sx := L [I (zre a); I (zim a)].
Definition zi_is0 (a : zi) : bool := (zre a =? 0)%Z && (zim a =? 0)%Z.
Definition to_zmat (x : sx) : mat ZI :=
  of_tab (R:=ZI) (map (fun r => map to_zi (to_list r)) (to_list x)).
(* args: m, U (Gaussian integers), heralds, ps, q, leak (bool)
   -> [A[b][b'] = amp_num between logical states; the non-logical states of the (m, n) space that pass heralds
       and post-selection with a non-zero amplitude from some logical input, as [b, t, amp] (when leak is set);
       for every logical state, whether it passes heralds and post-selection] *)
Definition x_logical_zi (x : sx) : sx :=
  let m := to_nat (nthx 0 x) in let U := to_zmat (nthx 1 x) in
  let h := to_heralds (nthx 2 x) in let p := to_ps (nthx 3 x) in let q := to_nat (nthx 4 x) in
  L [L (map (fun b => L (map (fun b' => of_zi (lamp U m q h b b')) (nbasis q))) (nbasis q));
     if to_bool (nthx 5 x) then
       L (flat_map (fun t =>
            if passes h p t && negb (is_logical m q h t) then
              flat_map (fun b => let a := amp_num U m (basis m q h b) t in
                                 if zi_is0 a then [] else [L [of_nat_sx b; of_state t; of_zi a]]) (nbasis q)
            else []) (allstates m (q + herald_total h)))
     else L [];
     L (map (fun b => of_bool (passes h p (basis m q h b))) (nbasis q))].

(* args: m, heralds, ps, q -> for every logical state, whether it passes heralds and post-selection (no amplitude
   is computed: used when the permanent of a converted circuit is too large for the exact model) *)
Definition x_logical_passes (x : sx) : sx :=
  let m := to_nat (nthx 0 x) in let h := to_heralds (nthx 1 x) in let p := to_ps (nthx 2 x) in let q := to_nat (nthx 3 x) in
  L (map (fun b => of_bool (passes h p (basis m q h b))) (nbasis q)).
