(* Parameter._check_value (perceval/utils/parameter.py): range check with periodic wrap.
   Python floats are read as exact rationals (the stated modelling assumption). *)
From Coq Require Export QArith Qround.

Inductive wres := WOk (v : Q) | WErr.

Definition wrap_periodic (v lo hi : Q) : Q :=
  if Qlt_le_dec hi v then
    let p := Qfloor ((v - hi) / (hi - lo)) in v - inject_Z (p + 1) * (hi - lo)
  else if Qlt_le_dec v lo then
    let p := Qfloor ((lo - v) / (hi - lo)) in v + inject_Z (p + 1) * (hi - lo)
  else v.

(* bounds are optional in the source (None = unbounded) *)
Definition check_value (v : Q) (lo hi : option Q) (periodic : bool) : wres :=
  let v' := match periodic, lo, hi with
            | true, Some l, Some h => wrap_periodic v l h
            | _, _, _ => v end in
  let bad_lo := match lo with Some l => if Qlt_le_dec v' l then true else false | None => false end in
  let bad_hi := match hi with Some h => if Qlt_le_dec h v' then true else false | None => false end in
  if bad_lo || bad_hi then WErr else WOk v'.
