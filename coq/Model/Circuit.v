(* Circuits as trees (perceval/components/linear_circuit.py): Circuit.add (nest / merge),
   _compute_circuit_unitary, __iter__, barrier, the // and @ shorthands. *)
From PV Require Export Lib.Tab.

Section Circuit.
Variable R : cring.

Inductive comp := Leaf (k : nat) (U : mat R) | Sub (m : nat) (items : list (nat * comp)).
Definition width (c : comp) : nat := match c with Leaf k _ => k | Sub m _ => m end.

(* _compute_circuit_unitary: u = cU @ u over the component list, each cU = block in an identity *)
Fixpoint cmat (c : comp) : mat R :=
  match c with
  | Leaf _ U => U
  | Sub m items => oprodx m (map (fun oc => match oc with (off, c') => embed off (width c') (cmat c') end) items)
  end.

(* Circuit.__iter__: leaves in circuit order with absolute first mode *)
Fixpoint flatten (off : nat) (c : comp) : list (nat * nat * mat R) :=
  match c with
  | Leaf k U => [(off, k, U)]
  | Sub m items => flat_map (fun oc => match oc with (o, c') => flatten (off + o) c' end) items
  end.

(* the asserts of Circuit.add: consecutive range inside [0,m), width matches (the range is
   represented by its first mode, its length is the component's width by construction) *)
Fixpoint wf (c : comp) : Prop :=
  match c with
  | Leaf k _ => (0 < k)%nat
  | Sub m items => (0 < m)%nat /\
      (fix all (l : list (nat * comp)) : Prop :=
         match l with [] => True | (off, c') :: r => ((off + width c' <= m)%nat /\ wf c') /\ all r end) items
  end.
Fixpoint wfb (c : comp) : bool :=
  match c with
  | Leaf k _ => (0 <? k)%nat
  | Sub m items => (0 <? m)%nat &&
      (fix all (l : list (nat * comp)) : bool :=
         match l with [] => true | (off, c') :: r => ((off + width c' <=? m)%nat && wfb c') && all r end) items
  end.

Definition items_of (c : comp) : list (nat * comp) := match c with Leaf _ _ => [] | Sub _ items => items end.

(* Circuit.add(port_range, component, merge) on a composite circuit; None = assertion failure *)
Definition add (c : comp) (off : nat) (s : comp) (merge : bool) : option comp :=
  match c with
  | Leaf _ _ => None
  | Sub m items =>
      if (off + width s <=? m)%nat then
        match s, merge with
        | Sub _ ((_ :: _) as sitems), true => Some (Sub m (items ++ map (fun oc => (off + fst oc, snd oc)%nat) sitems))
        | _, _ => Some (Sub m (items ++ [(off, s)]))
        end
      else None
  end.
Definition barrier (c : comp) : option comp := add c 0 (Leaf (width c) mid) false.
(* c // (off, s)  and  c @ (off, s) *)
Definition floordiv (c : comp) (off : nat) (s : comp) : option comp := add c off s true.
Definition matmul (c : comp) (off : nat) (s : comp) : option comp :=
  match barrier c with Some c' => floordiv c' off s | None => None end.

Definition leaf_mats (M : nat) (l : list (nat * nat * mat R)) : list (mat R) :=
  map (fun x => match x with (o, k, U) => embed o k U end) l.
End Circuit.
Arguments Leaf {_}. Arguments Sub {_}. Arguments width {_}. Arguments cmat {_}. Arguments flatten {_}.
Arguments wf {_}. Arguments wfb {_}. Arguments add {_}. Arguments barrier {_}. Arguments floordiv {_}.
Arguments matmul {_}. Arguments leaf_mats {_}. Arguments items_of {_}.
