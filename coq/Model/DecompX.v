(* Executable side of C12 over QI: the proved result checker (close_to, diag_equiv) and the replay of the
   elimination with the solver's answers supplied as a transcript (oracle state = remaining answers). *)
From PV Require Export Model.Decomp Model.CircuitX.

Definition Qc_leb (a b : Qc) : bool := match Qccompare a b with Gt => false | _ => true end.
Definition all_lt (n : nat) (f : nat -> bool) : bool := forallb f (seq 0 n).

(* entrywise |A - B|^2 <= eps2, evaluated exactly *)
Definition close_to (eps2 : Qc) (n : nat) (A B : mat QI) : bool :=
  all_lt n (fun i => all_lt n (fun j => Qc_leb (qinorm2 (qisub (A i j) (B i j))) eps2)).
Definition colphase (n : nat) (U V : mat QI) (j : nat) : QI := sumn (R:=QI) n (fun i => qimul (qiconj (U i j)) (V i j)).
Definition rowphase (n : nat) (U V : mat QI) (i : nat) : QI := sumn (R:=QI) n (fun j => qimul (V i j) (qiconj (U i j))).
Definition unit_tol (eps2 : Qc) (n : nat) (d : nat -> QI) : bool :=
  all_lt n (fun i => let t := (qinorm2 (d i) - 1)%Qc in Qc_leb (t * t) eps2).
Definition scale_r (U : mat QI) (d : nat -> QI) : mat QI := fun i j => qimul (U i j) (d j).
Definition scale_l (d : nat -> QI) (U : mat QI) : mat QI := fun i j => qimul (d i) (U i j).
(* V = U * D  /  V = D * U  for a diagonal D of unit modulus, all within the tolerance *)
Definition diag_equiv_r (eps2 : Qc) (n : nat) (V U : mat QI) : bool :=
  let d := colphase n U V in unit_tol eps2 n d && close_to eps2 n V (scale_r U d).
Definition diag_equiv_l (eps2 : Qc) (n : nat) (V U : mat QI) : bool :=
  let d := rowphase n U V in unit_tol eps2 n d && close_to eps2 n V (scale_l d U).

(* args: eps2, n, A, B *)
Definition x_close_to (x : sx) : sx :=
  of_bool (close_to (to_Qc (nthx 0 x)) (to_nat (nthx 1 x)) (to_mat (nthx 2 x)) (to_mat (nthx 3 x))).
(* args: eps2, n, side (0 = right, 1 = left), V, U *)
Definition x_diag_equiv (x : sx) : sx :=
  let e := to_Qc (nthx 0 x) in let n := to_nat (nthx 1 x) in
  let V := to_mat (nthx 3 x) in let U := to_mat (nthx 4 x) in
  of_bool (if to_bool (nthx 2 x) then diag_equiv_l e n V U else diag_equiv_r e n V U).

(* ---- replay *)
Definition q_small (prec2 : Qc) (x : QI) : bool := Qc_leb (qinorm2 x) prec2.
Definition q_skip (x : QI) : bool := (if Qc_eq_dec (im x) 0 then true else false) && Qc_leb 0 (re x).
Definition tr_solve (s : list (blk QI)) (n j : nat) (u : mat QI) : option (blk QI) * list (blk QI) :=
  match s with [] => (None, []) | b :: r => (Some b, r) end.
Definition to_blk (x : sx) : blk QI := mkblk (to_mat (nthx 0 x)) (to_mat (nthx 1 x)).

Definition of_item (it : item QI) : sx :=
  match it with
  | IBlock n b => L [I 0; of_nat_sx n; of_mat 2 (b_mat b)]
  | IPerm n k => L [I 1; of_nat_sx n; of_nats (perm_list (k - n))]
  | IPhase i d => L [I 2; of_nat_sx i; of_qi d]
  end.

(* args: m, U, prec2, [iib, perm_on, with_phase, inv_v, inv_h], transcript [[Bmat, Binv] ...]
   answer: [found, items before Circuit.inverse, final items, matrix of the final items, residual u,
            number of unused transcript entries] *)
Definition x_decomp (x : sx) : sx :=
  let m := to_nat (nthx 0 x) in
  let U := to_mat (nthx 1 x) in
  let prec2 := to_Qc (nthx 2 x) in
  let fl := nthx 3 x in
  let iib := to_bool (nthx 0 fl) in let perm_on := to_bool (nthx 1 fl) in let wp := to_bool (nthx 2 fl) in
  let inv_v := to_bool (nthx 3 fl) in let inv_h := to_bool (nthx 4 fl) in
  let tr := map to_blk (to_list (nthx 4 x)) in
  let U2 := retab m (preprocess m inv_v inv_h U) in
  match retry m (q_small prec2) q_skip iib perm_on (list (blk QI)) tr_solve 1 wp U2 tr with
  | (None, s') => L [I 0]
  | (Some (l, u), s') =>
      let fin := if inv_v || inv_h then cinverse m (@ideal_hinv QI) (@ideal_vinv QI) inv_v inv_h l else l in
      L [I 1; L (map of_item l); L (map of_item fin); of_mat m (circ_mat m fin); of_mat m u; of_nat_sx (length s')]
  end.
