(* Loss channels (perceval/simulators/loss_simulator.py): every LC becomes a beam splitter between its
   mode and a fresh vacuum mode that is never observed.  The implementation brings the fresh mode next
   to the lossy one with a PERM, applies BS.H on two adjacent modes and undoes the PERM. *)
From PV Require Export Model.Components Model.Engines Lib.Dist.

Section Loss.
Variable R : cring.
Open Scope K_scope.

(* a two-mode gate B acting on the (possibly distant) modes i < j, identity elsewhere *)
Definition gate2 (i j : nat) (B : mat R) : mat R := fun a b =>
  let ia := if (a =? i)%nat then Some 0%nat else if (a =? j)%nat then Some 1%nat else None in
  let ib := if (b =? i)%nat then Some 0%nat else if (b =? j)%nat then Some 1%nat else None in
  match ia, ib with
  | Some x, Some y => B x y
  | _, _ => delta a b
  end.
(* transposition of the modes p and q *)
Definition swap_fun (p q k : nat) : nat := if (k =? p)%nat then q else if (k =? q)%nat then p else k.

(* BS.H(theta) with cos(theta/2) = c = sqrt(1 - loss), sin(theta/2) = s = sqrt(loss), no phases *)
Definition loss_bs (c s : R) : mat R := mat2 c s s (- c).

(* components of a lossy circuit: unitary blocks and loss channels *)
Inductive lcomp := LU (off k : nat) (U : mat R) | LLC (mode : nat) (c s : R).

(* the specification: the enlarged lossless circuit, each LC coupling its mode to its own fresh mode *)
Fixpoint enlarged (M : nat) (next : nat) (l : list lcomp) : list (mat R) :=
  match l with
  | [] => []
  | LU off k U :: r => embed off k U :: enlarged M next r
  | LLC mode c s :: r => gate2 mode next (loss_bs c s) :: enlarged M (S next) r
  end.
(* the implementation: _simulate_losses_with_beam_splitters *)
Fixpoint expanded (M : nat) (next : nat) (l : list lcomp) : list (mat R) :=
  match l with
  | [] => []
  | LU off k U :: r => embed off k U :: expanded M next r
  | LLC mode c s :: r =>
      (if (mode =? next - 1)%nat then [embed mode 2 (loss_bs c s)]
       else [pmat (swap_fun (S mode) next); embed mode 2 (loss_bs c s); pmat (swap_fun (S mode) next)])
      ++ expanded M (S next) r
  end.
Definition count_lc (l : list lcomp) : nat := length (filter (fun c => match c with LLC _ _ _ => true | _ => false end) l).
End Loss.
Arguments gate2 {_}. Arguments loss_bs {_}. Arguments LU {_}. Arguments LLC {_}. Arguments enlarged {_}. Arguments expanded {_}.
Arguments count_lc {_}.

(* observed distribution: the fresh modes are traced out *)
Definition trace_out (m : nat) (d : dist) : dist := dmap (firstn m) d.
