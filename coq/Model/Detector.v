(* Executable model of perceval/components/detector.py and perceval/simulators/_simulate_detectors.py over Qc.
   Distributions are association lists (duplicate keys add up, as `BSDistribution[...] += p` does);
   a Fock state is a [list nat] (Lib/Fock.v).  No proofs here. *)
From PV Require Export Lib.QI Lib.Fock.
Open Scope Qc_scope.

(* ---------------------------------------------------------------- numbers *)
Fixpoint qn (n : nat) : Qc := match n with O => 0 | S n' => qn n' + 1 end.
Fixpoint qpow (x : Qc) (n : nat) : Qc := match n with O => 1 | S n' => x * qpow x n' end.
Fixpoint qsum (n : nat) (f : nat -> Qc) : Qc := match n with O => 0 | S n' => qsum n' f + f n' end.
Fixpoint qsuml (l : list Qc) : Qc := match l with [] => 0 | x :: r => x + qsuml r end.
Fixpoint binom (n k : nat) : nat :=
  match n, k with
  | _, O => 1%nat
  | O, S _ => 0%nat
  | S n', S k' => (binom n' k' + binom n' k)%nat
  end.
(* Stirling numbers of the second kind, by their recurrence *)
Fixpoint stir (n k : nat) : nat :=
  match n, k with
  | O, O => 1%nat | O, S _ => 0%nat | S n', O => 0%nat
  | S n', S k' => (S k' * stir n' (S k') + stir n' k')%nat
  end.
(* falling factorial w (w-1) ... (w-k+1) = C(w,k) k! *)
Fixpoint ff (w : nat) (k : nat) : Qc := match k with O => 1 | S k' => ff w k' * (qn w - qn k') end.

(* ---------------------------------------------------------------- one-mode distributions *)
Definition dist1 := list (nat * Qc).
Definition prob1 (k : nat) (d : dist1) : Qc := qsuml (map snd (filter (fun e => fst e =? k)%nat d)).
Definition mass1 (d : dist1) : Qc := qsuml (map snd d).

(* Detector._cond_probability(det, nph) with _wires = w (structural on nph) *)
Fixpoint cond (w : nat) (nph det : nat) : Qc :=
  match nph with
  | O => match det with O => 1 | S _ => 0 end
  | S n' => match det with
            | O => 0
            | S d' => if (nph <? det)%nat then 0
                      else cond w n' d' * (qn w - qn d') / qn w + cond w n' det * qn det / qn w
            end
  end.

(* Detector(n_wires, max_detections): [Pnr] is n_wires = None (then _max = None whatever max_detections is);
   [Inter w mx] holds _wires = w and _max = mx; [Tree L r] is BSLayeredPPNR(L, r). *)
Inductive detector := Pnr | Inter (w mx : nat) | Tree (L : nat) (r : Qc).

(* the constructor with its two assertions (None = AssertionError) *)
Definition mk_detector (n_wires max_detections : option nat) : option detector :=
  match n_wires with
  | None => Some Pnr
  | Some w =>
      if (w =? 0)%nat then None else
      match max_detections with
      | None => Some (Inter w w)
      | Some m => if (m <=? w)%nat then Some (Inter w (Nat.min m w)) else None
      end
  end.
Definition threshold := Inter 1 1.
Definition ppnr (w : nat) (m : option nat) := mk_detector (Some w) m.

Definition max_detections (d : detector) : option nat :=
  match d with Pnr => None | Inter _ mx => Some mx | Tree L _ => Some (2 ^ L)%nat end.

Inductive dtype := TPnr | TThr | TPpnr | TMixed.
Definition dtype_eqb (a b : dtype) : bool :=
  match a, b with TPnr, TPnr | TThr, TThr | TPpnr, TPpnr | TMixed, TMixed => true | _, _ => false end.
Definition det_type (d : detector) : dtype :=
  match d with Pnr => TPnr | Inter w _ => if (w =? 1)%nat then TThr else TPpnr | Tree _ _ => TPpnr end.

(* Detector.detect for an interleaved detector (n >= 2, not threshold): readings 1 .. maxd-1 by the
   recurrence, the remainder to maxd = min(_max, n) *)
Definition detect_inter (w mx n : nat) : dist1 :=
  if (n <? 2)%nat then [(n, 1)] else
  if (w =? 1)%nat then [(1%nat, 1)] else
  let maxd := Nat.min mx n in
  let body := map (fun i => (i, cond w n i)) (seq 1 (maxd - 1)) in
  body ++ [(maxd, 1 - mass1 body)].

(* BSLayeredPPNR.create_circuit: layer l spreads the 2^l populated modes to the even positions (PERM) and puts a
   BS (reflectivity r: stay with r, cross with 1-r) on each pair; intensities seen from input mode 0 *)
Fixpoint tree_leaves (L : nat) (r : Qc) : list Qc :=
  match L with O => [1] | S l => flat_map (fun x => [r * x; (1 - r) * x]) (tree_leaves l r) end.

(* n photons entering one input of a tree never interfere: the SLOS output law is multinomial over the leaves;
   [clicks ps n k] = probability that exactly k leaves receive at least one photon (threshold, then count).
   Recursion on the leaves: the first leaf gets n - i photons, i go on. *)
Fixpoint clicks (ps : list Qc) (n k : nat) : Qc :=
  match ps with
  | [] => if ((n =? 0) && (k =? 0))%nat then 1 else 0
  | p :: r =>
      clicks r n k +
      match k with
      | O => 0
      | S k' => qsum n (fun i => qn (binom n i) * qpow p (n - i) * clicks r i k')
      end
  end.

Definition detect_tree (L : nat) (r : Qc) (n : nat) : dist1 :=
  if (n <? 2)%nat then [(n, 1)] else
  map (fun k => (k, clicks (tree_leaves L r) n k)) (seq 0 (S (Nat.min n (2 ^ L)))).

Definition detect (d : detector) (n : nat) : dist1 :=
  match d with
  | Pnr => [(n, 1)]
  | Inter w mx => detect_inter w mx n
  | Tree L r => detect_tree L r n
  end.

(* a mode without detector (None in the list) is read perfectly *)
Definition kernel (od : option detector) (n : nat) : dist1 :=
  match od with None => [(n, 1)] | Some d => detect d n end.

(* ---------------------------------------------------------------- detector lists *)
Definition otype (od : option detector) : dtype := match od with None => TPnr | Some d => det_type d end.

(* get_detection_type *)
Fixpoint dt_loop (res : option dtype) (ds : list (option detector)) : dtype :=
  match ds with
  | [] => match res with Some t => t | None => TPnr end
  | d :: r =>
      let cur := otype d in
      match res with
      | None => dt_loop (Some cur) r
      | Some t => if dtype_eqb t cur then dt_loop res r else TMixed
      end
  end.
Definition detection_type (ds : list (option detector)) : dtype :=
  match ds with [] => TPnr | _ => dt_loop None ds end.

(* check_heralds_detectors(heralds, detectors): heralds as (mode, value) pairs *)
Definition herald_ok (ds : list (option detector)) (kv : nat * nat) : bool :=
  match nth (fst kv) ds None with
  | Some d => match max_detections d with Some m => negb (m <? snd kv)%nat | None => true end
  | None => true
  end.
Definition check_heralds (heralds : list (nat * nat)) (ds : list (option detector)) : bool :=
  match heralds, ds with
  | [], _ => true
  | _, [] => true
  | _, _ => forallb (herald_ok ds) heralds
  end.

(* ---------------------------------------------------------------- simulate_detectors *)
Definition bsd := list (state * Qc).
Definition mass (d : bsd) : Qc := qsuml (map snd d).
Definition prob_of (s : state) (d : bsd) : Qc := qsuml (map snd (filter (fun e => state_eqb (fst e) s) d)).

(* BSDistribution.list_tensor_product of the per-mode readings, in mode order (zip(s, detectors)) *)
Fixpoint tensor (s : state) (ds : list (option detector)) : bsd :=
  match s, ds with
  | n :: s', d :: ds' =>
      flat_map (fun kp => map (fun tq => (fst kp :: fst tq, snd kp * snd tq)) (tensor s' ds')) (kernel d n)
  | _, _ => [([], 1)]
  end.

Definition thresh_state (s : state) : state := map (fun n => Nat.min n 1) s.

(* every (input state, reading) pair with its joint probability, before the photon filter *)
Definition expand (d : bsd) (ds : list (option detector)) : bsd :=
  match detection_type ds with
  | TThr => map (fun sp => (thresh_state (fst sp), snd sp)) d
  | _ => flat_map (fun sp => map (fun tq => (fst tq, snd sp * snd tq)) (tensor (fst sp) ds)) d
  end.

Definition keep (minp : option nat) (s : state) : bool :=
  match minp with None => true | Some k => (k <=? total s)%nat end.
Definition kept (minp : option nat) (d : bsd) : bsd := filter (fun e => keep minp (fst e)) d.
Definition dropped (minp : option nat) (d : bsd) : bsd := filter (fun e => negb (keep minp (fst e))) d.

(* ProbabilityDistribution.normalize: a null distribution is left as it is *)
Definition normalize (d : bsd) : bsd :=
  let m := mass d in
  if Qc_eq_dec m 0 then d else map (fun e => (fst e, snd e / m)) d.

(* simulate_detectors(dist, detectors, min_photons) -> (result, physical performance).
   [old_code = true] is the code before /repo commit d3d39a64, which took the all-PNR shortcut whatever the
   filter; the current code takes it only when no filter is requested. *)
Definition pnr_shortcut (old_code : bool) (minp : option nat) : bool :=
  old_code || match minp with None => true | Some _ => false end.
Definition simulate_cfg (old_code : bool) (d : bsd) (ds : list (option detector)) (minp : option nat) : bsd * Qc :=
  let general := let out := expand d ds in (normalize (kept minp out), 1 - mass (dropped minp out)) in
  match d, detection_type ds with
  | [], _ => (d, 1)
  | _, TPnr => if pnr_shortcut old_code minp then (d, 1) else general
  | _, _ => general
  end.
Definition simulate := simulate_cfg false.            (* the code as it is now *)
Definition simulate_old_code := simulate_cfg true.    (* historical: before d3d39a64 *)
