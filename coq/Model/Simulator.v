(* Linear evolution of superpositions, mixtures, tagged (partially distinguishable) inputs and density
   matrices (perceval/simulators/simulator.py, _simulator_utils.py, utils/density_matrix.py). *)
From PV Require Export Model.Engines Lib.Dist.

Section Sim.
Variable R : cring.
Open Scope K_scope.
Variable U : mat R.
Variable m : nat.
(* w s stands for 1/sqrt(prod s_i!) — any weight function works for the linearity statements *)
Variable w : state -> R.

Definition amp (s t : state) : R := w s * w t * amp_num U m s t.

(* a superposition: list of (coefficient, Fock state) *)
Definition sv := list (R * state).
Definition evolve_amp (psi : sv) (t : state) : R :=
  fold_right (fun cs acc => fst cs * amp (snd cs) t + acc) k0 psi.
Definition scale_sv (l : R) (psi : sv) : sv := map (fun cs => (l * fst cs, snd cs)) psi.
Definition prob_sv (psi : sv) (t : state) : R := evolve_amp psi t * kconj (evolve_amp psi t).

(* density matrix on a basis B: rho s s' ; output probability of t *)
Definition lsum {A} (l : list A) (f : A -> R) : R := fold_right (fun a acc => f a + acc) k0 l.
Definition dm_prob (B : list state) (rho : state -> state -> R) (t : state) : R :=
  lsum B (fun s => lsum B (fun s' => rho s s' * amp s t * kconj (amp s' t))).
(* the density matrix of a mixture of pure states given by coefficient functions on B *)
Definition dm_of_mixture (mix : list (R * (state -> R))) (s s' : state) : R :=
  lsum mix (fun pc => fst pc * snd pc s * kconj (snd pc s')).
Definition evolve_amp_fn (B : list state) (c : state -> R) (t : state) : R := lsum B (fun s => c s * amp s t).
End Sim.
Arguments amp {_}. Arguments evolve_amp {_}. Arguments scale_sv {_}. Arguments prob_sv {_}. Arguments lsum {_ _}.
Arguments dm_prob {_}. Arguments dm_of_mixture {_}. Arguments evolve_amp_fn {_}.
