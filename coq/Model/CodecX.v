(* C15 - executable entry points of the codec model (sx trees in, sx trees out). *)
From PV Require Export Model.CodecV.
Import ListNotations.
Local Open Scope Z_scope.

(* ---- parsers *)
Definition to_str (x : sx) : str := to_Zs x.
Definition to_opt {A} (f : sx -> A) (x : sx) : option A := match x with L [y] => Some (f y) | _ => None end.
Definition to_listf {A} (f : sx -> A) (x : sx) : list A := map f (to_list x).
Definition to_nq (x : sx) : str * option Qc := (to_str (nthx 0 x), to_opt to_Qc (nthx 1 x)).
Definition to_param (x : sx) : param :=
  match to_Z (nthx 0 x) with
  | 0 => PFix (to_Qc (nthx 1 x))
  | 1 => PVar (to_str (nthx 1 x)) (to_opt to_Qc (nthx 2 x))
  | _ => PExpr (to_str (nthx 1 x)) (to_listf to_nq (nthx 2 x))
  end.
Definition to_kind (k c : sx) : lkind :=
  match to_Z k with 0 => KBS (to_Z c) | 1 => KPS | 2 => KWP | 3 => KHWP | 4 => KQWP | 5 => KPR | 6 => KTD | _ => KLC end.
Fixpoint to_comp (fuel : nat) (x : sx) : comp :=
  match fuel with
  | O => CPBS
  | S f =>
      match to_Z (nthx 0 x) with
      | 0 => CLeaf (to_kind (nthx 1 x) (nthx 2 x)) (to_listf to_param (nthx 3 x))
      | 1 => CPerm (to_Zs (nthx 1 x))
      | 2 => CUnit (to_listf (to_listf to_qi) (nthx 1 x)) (to_str (nthx 2 x)) (to_bool (nthx 3 x))
      | 3 => CPBS
      | 4 => CBarrier (to_Z (nthx 1 x)) (to_bool (nthx 2 x))
      | _ => CSub (to_str (nthx 1 x)) (to_Z (nthx 2 x))
               (to_listf (fun it => (to_Z (nthx 0 it), to_comp f (nthx 1 it))) (nthx 3 x))
      end
  end.
Definition to_bstate (x : sx) : bstate := mkbs (to_str (nthx 0 x)) (to_Z (nthx 1 x)) (to_bool (nthx 2 x)).
Definition to_term (x : sx) : Qc * Qc * bstate := (to_Qc (nthx 0 x), to_Qc (nthx 1 x), to_bstate (nthx 2 x)).
Definition to_svec (x : sx) : svec := to_listf to_term x.
Definition to_svd (x : sx) : svd := to_listf (fun e => (to_svec (nthx 0 e), to_Qc (nthx 1 e))) x.
Definition to_noise (x : sx) : noise := to_listf (to_opt to_Qc) x.
Definition to_det (x : sx) : detector := mkdet (to_str (nthx 0 x)) (to_opt to_Z (nthx 1 x)) (to_opt to_Z (nthx 2 x)).
Definition to_idet (x : sx) : idetector :=
  match to_Z (nthx 0 x) with
  | 0 => IDet (to_det (nthx 1 x))
  | _ => IPPNR (to_str (nthx 1 x)) (to_Z (nthx 2 x)) (to_Qc (nthx 3 x))
  end.
Definition to_aport (x : sx) : aport :=
  match to_Z (nthx 0 x) with
  | 0 => APort (to_str (nthx 1 x)) (to_Z (nthx 2 x))
  | _ => AHerald (to_Z (nthx 1 x)) (to_opt to_str (nthx 2 x))
  end.
Definition to_ports (x : sx) : list (Z * aport) := to_listf (fun mp => (to_Z (nthx 0 mp), to_aport (nthx 1 mp))) x.
Definition to_input (x : sx) : input :=
  match to_Z (nthx 0 x) with 0 => InBS (to_bstate (nthx 1 x)) | _ => InSVD (to_svd (nthx 1 x)) end.
Definition to_exp (x : sx) : experiment :=
  mkexp (to_str (nthx 0 x)) (to_Z (nthx 1 x)) (to_Z (nthx 2 x)) (to_opt to_input (nthx 3 x)) (to_opt to_noise (nthx 4 x))
    (to_opt to_Z (nthx 5 x)) (to_opt to_str (nthx 6 x)) (to_ports (nthx 7 x)) (to_ports (nthx 8 x))
    (to_listf (to_opt to_idet) (nthx 9 x))
    (to_listf (fun it => (to_Z (nthx 0 it), to_comp 64 (nthx 1 it))) (nthx 10 x))
    (to_listf (fun it => (to_Z (nthx 0 it), to_Z (nthx 1 it))) (nthx 11 x)).
Definition to_matrix (x : sx) : matrix :=
  match to_Z (nthx 0 x) with
  | 0 => MNum (to_listf (to_listf to_qi) (nthx 1 x))
  | _ => MSym (to_listf (to_listf to_str) (nthx 1 x))
  end.
Fixpoint to_value (fuel : nat) (x : sx) : value :=
  match fuel with
  | O => VOther 0
  | S f =>
      let a := nthx 1 x in
      match to_Z (nthx 0 x) with
      | 0 => VCircuit (to_comp 64 a) | 1 => VComponent (to_comp 64 a) | 2 => VExperiment (to_exp a)
      | 3 => VHerald (to_Z a) (to_opt to_str (nthx 2 x)) | 4 => VPort (to_str a) (to_Z (nthx 2 x))
      | 5 => VMatrix (to_matrix a) | 6 => VState (to_bstate a) | 7 => VSV (to_svec a) | 8 => VSVD (to_svd a)
      | 9 => VBSD (to_listf (fun e => (to_bstate (nthx 0 e), to_Qc (nthx 1 e))) a)
      | 10 => VBSC (to_listf (fun e => (to_bstate (nthx 0 e), to_Z (nthx 1 e))) a)
      | 11 => VBSS (to_listf to_bstate a) | 12 => VNoise (to_noise a) | 13 => VPost (to_str a)
      | 14 => VDet (to_det a) | 15 => VPPNR (to_str a) (to_Z (nthx 2 x)) (to_Qc (nthx 3 x))
      | 16 => VOther (to_Z a)
      | 17 => VList (to_listf (to_value f) a)
      | _ => VDict (to_listf (fun kv => (to_value f (nthx 0 kv), to_value f (nthx 1 kv))) a)
      end
  end.
Definition to_ev (x : sx) : str -> Qc :=
  fun e => match lookup e (to_listf (fun p => (to_str (nthx 0 p), to_Qc (nthx 1 p))) x) with Some q => q | None => 0%Qc end.
Definition to_callmode (x : sx) : callmode :=
  match x with
  | L [] => CDefault
  | _ => match to_Z (nthx 0 x) with 0 => CKw (CBool (to_bool (nthx 1 x))) | _ => CKw (CTags (to_Zs (nthx 1 x))) end
  end.

(* ---- printers *)
Definition of_str (s : str) : sx := L (map I s).
Definition of_opt {A} (f : A -> sx) (o : option A) : sx := match o with Some a => L [f a] | None => L [] end.
Definition of_listf {A} (f : A -> sx) (l : list A) : sx := L (map f l).
Definition of_wptype (t : wptype) : sx :=
  match t with WNone => L [I 0] | WReal v => L [I 1; of_Qc v] | WSymbol s => L [I 2; of_str s] | WExpression s => L [I 3; of_str s] end.
Definition of_wleaf (w : wleaf) : sx := L [of_wptype (wl_type w); of_str (wl_name w)].
Definition of_wparam (w : wparam) : sx := L [of_wptype (wp_type w); of_str (wp_name w); of_listf of_wleaf (wp_subs w)].
Definition of_wmat (w : wmat) : sx :=
  L [I (wm_rows w); I (wm_cols w);
     match wm_data w with WMNum d => L [I 0; of_listf of_qi d] | WMSym d => L [I 1; of_listf of_str d] end].
Definition of_kind (k : lkind) : sx :=
  match k with KBS c => L [I 0; I c] | KPS => L [I 1; I 0] | KWP => L [I 2; I 0] | KHWP => L [I 3; I 0] | KQWP => L [I 4; I 0]
             | KPR => L [I 5; I 0] | KTD => L [I 6; I 0] | KLC => L [I 7; I 0] end.
Fixpoint of_wcomp (w : wcomp) : sx :=
  match w with
  | WLeaf s n k ps => L [I 0; I s; I n; of_kind k; of_listf of_wparam ps]
  | WPerm s n p => L [I 1; I s; I n; L (map I p)]
  | WUnit s n u name pol => L [I 2; I s; I n; of_wmat u; of_str name; of_bool pol]
  | WPBS s n => L [I 3; I s; I n]
  | WBarrier s n v => L [I 4; I s; I n; of_bool v]
  | WSub s n name nm items => L [I 5; I s; I n; of_str name; I nm; L (map of_wcomp items)]
  end.
Definition of_pobj (o : pobj) : sx := L [of_nats (o_scope o); of_str (o_name o); of_opt of_Qc (o_val o)].
Definition of_dparam (d : dparam) : sx :=
  match d with
  | DFix v => L [I 0; of_Qc v] | DVar o => L [I 1; of_pobj o] | DExpr sc e os => L [I 2; of_str e; of_listf of_pobj os; L [of_nats sc; of_str e; L []]]
  | DSym e => L [I 3; of_str e] | DNone => L [I 4]
  end.
Definition of_qmat (m : list (list qi)) : sx := of_listf (of_listf of_qi) m.
Fixpoint of_dcomp (d : dcomp) : sx :=
  match d with
  | DLeaf k ps => L [I 0; of_kind k; of_listf of_dparam ps]
  | DPerm p => L [I 1; L (map I p)]
  | DUnit u n pol => L [I 2; of_qmat u; of_str n; of_bool pol]
  | DPBS => L [I 3]
  | DBarrier m v => L [I 4; I m; of_bool v]
  | DSub n m items => L [I 5; of_str n; I m; L (map (fun oc => match oc with (o, c) => L [I o; of_dcomp c] end) items)]
  end.
Definition of_bstate (b : bstate) : sx := L [of_str (bs_txt b); I (bs_m b); of_bool (bs_pol b)].
Definition of_svec (v : svec) : sx := of_listf (fun t => match t with (r, i, b) => L [of_Qc r; of_Qc i; of_bstate b] end) v.
Definition of_svd (d : svd) : sx := of_listf (fun e => L [of_svec (fst e); of_Qc (snd e)]) d.
Definition of_input (i : input) : sx := match i with InBS b => L [I 0; of_bstate b] | InSVD d => L [I 1; of_svd d] end.
Definition of_wdet (w : wdet) : sx := L [of_str (wd_name w); I (wd_wires w); I (wd_max w)].
Definition of_widet (w : widet) : sx :=
  match w with WIDet d => L [I 0; of_wdet d] | WIPPNR n l r => L [I 1; of_str n; I l; of_Qc r] end.
Definition of_waport (w : waport) : sx :=
  match w with WPort n e => L [I 0; of_str n; I e] | WHerald ag n v => L [I 1; of_bool ag; of_str n; I v] end.
Definition of_sparse {A} (f : A -> sx) (l : list (Z * A)) : sx := of_listf (fun p => L [I (fst p); f (snd p)]) l.
Definition of_wexp (w : wexp) : sx :=
  L [of_opt of_input (we_input w); of_str (we_name w); of_opt (of_sparse of_Qc) (we_noise w); of_opt of_str (we_post w);
     I (we_nmode w); I (we_filter w); of_sparse of_waport (we_in w); of_sparse of_waport (we_out w);
     of_sparse of_widet (we_dets w); of_listf of_wcomp (we_comps w)].
Definition of_matrix (m : matrix) : sx :=
  match m with MNum r => L [I 0; of_qmat r] | MSym r => L [I 1; of_listf (of_listf of_str) r] end.
Definition of_payload (p : payload) : sx :=
  match p with
  | PCircuit w => L [I 1; of_wcomp w] | PComponent w => L [I 2; of_wcomp w] | PExperiment w => L [I 3; of_wexp w]
  | PHerald w => L [I 4; of_waport w] | PPort w => L [I 5; of_waport w] | PMatrix w => L [I 0; of_wmat w]
  | PState b => L [I 6; of_bstate b] | PSV v => L [I 7; of_svec v] | PSVD d => L [I 8; of_svd d]
  | PBSD d => L [I 9; of_listf (fun e => L [of_bstate (fst e); of_Qc (snd e)]) d]
  | PBSC d => L [I 10; of_listf (fun e => L [of_bstate (fst e); I (snd e)]) d]
  | PBSS k o => L [I 11; of_listf of_bstate k; L (map I o)]
  | PNoise l => L [I 12; of_sparse of_Qc l] | PPost s => L [I 13; of_str s]
  | PDet w => L [I 15; of_wdet w] | PPPNR n l r => L [I 14; of_str n; I l; of_Qc r]
  end.
Fixpoint of_wire (w : wire) : sx :=
  match w with
  | WStr z p => L [I 0; of_bool z; of_payload p]
  | WOther z => L [I 1; I z]
  | WList l => L [I 2; L (map of_wire l)]
  | WDict l => L [I 3; L (map (fun kv => match kv with (a, b) => L [of_wire a; of_wire b] end) l)]
  end.
Definition of_det (d : detector) : sx := L [of_str (d_name d); of_opt I (d_wires d); of_opt I (d_max d)].
Definition of_idet (d : idetector) : sx :=
  match d with IDet d => L [I 0; of_det d] | IPPNR n l r => L [I 1; of_str n; I l; of_Qc r] end.
Definition of_aport (p : aport) : sx :=
  match p with APort n e => L [I 0; of_str n; I e] | AHerald v u => L [I 1; I v; of_opt of_str u] end.
Definition of_noise (n : noise) : sx := of_listf (of_opt of_Qc) n.
Definition of_dexp (d : dexp) : sx :=
  L [of_opt of_str (de_name d); I (de_moi d); I (de_nher d); of_opt of_input (de_input d); of_opt of_noise (de_noise d);
     of_opt I (de_filter d); of_opt of_str (de_post d); of_sparse of_aport (de_in d); of_sparse of_aport (de_out d);
     of_listf (of_opt of_idet) (de_dets d);
     of_listf (fun oc => L [I (fst oc); of_dcomp (snd oc)]) (de_comps d);
     of_listf (fun mk => L [I (fst mk); I (snd mk)]) (de_hnum d)].
Fixpoint of_dvalue (v : dvalue) : sx :=
  match v with
  | DVCircuit d => L [I 0; of_dcomp d] | DVComponent d => L [I 1; of_dcomp d] | DVExperiment d => L [I 2; of_dexp d]
  | DVHerald v u => L [I 3; I v; of_opt of_str u] | DVPort n e => L [I 4; of_str n; I e] | DVMatrix m => L [I 5; of_matrix m]
  | DVState b => L [I 6; of_bstate b] | DVSV s => L [I 7; of_svec s] | DVSVD d => L [I 8; of_svd d]
  | DVBSD d => L [I 9; of_listf (fun e => L [of_bstate (fst e); of_Qc (snd e)]) d]
  | DVBSC d => L [I 10; of_listf (fun e => L [of_bstate (fst e); I (snd e)]) d]
  | DVBSS l => L [I 11; of_listf of_bstate l] | DVNoise n => L [I 12; of_noise n] | DVPost s => L [I 13; of_str s]
  | DVDet d => L [I 14; of_det d] | DVPPNR n l r => L [I 15; of_str n; I l; of_Qc r] | DVOther z => L [I 16; I z]
  | DVList l => L [I 17; L (map of_dvalue l)]
  | DVDict l => L [I 18; L (map (fun kv => match kv with (a, b) => L [of_dvalue a; of_dvalue b] end) l)]
  end.

(* 1500: simple_float(q, nsimplify=False) as a rational *)
Definition x_sf (x : sx) : sx := of_Qc (sf (to_Qc x)).
(* 1501: [ev table; call mode; value] -> [wire | (), deserialised | ()]  -- the code as it is now ([cfg_now]) *)
Definition x_codec_cfg (cf : cfg) (x : sx) : sx :=
  let ev := to_ev (nthx 0 x) in
  let cm := to_callmode (nthx 1 x) in
  let v := to_value 32 (nthx 2 x) in
  let w := enc_value cf ev cm v in
  L [of_opt of_wire w; of_opt of_dvalue (match w with Some w' => dec_wire cf w' | None => None end)].
Definition x_codec (x : sx) : sx := x_codec_cfg cfg_now x.
(* 1502: the same for the code before the repairs ([cfg_old]); historical, not used as "the code" by the driver *)
Definition x_codec_old (x : sx) : sx := x_codec_cfg cfg_old x.
