(* C05 - the caches of the strong-simulation engines as state machines.
   Part 1 (Slos): perceval/backends/_slos.py + _abstract_backends.py, concrete.  The deployed state space
     (_fsms / _mk_l as the arrays they were built from, _fsas, _state_mapping / _path_roots, _cache_iterator,
     _mask) is kept as it is in the code: level k of the state space is the FSArray that was built with the
     FSMask instance (mask strings, n) that was current WHEN THE LEVEL WAS BUILT.  A coefficient is the pruned
     SLOS recursion [slosK] whose keep predicate depends on the level (= number of photons already placed), so
     a stale level yields a concrete wrong coefficient.
     Two booleans switch the two proposed repairs on: fixA = sreset the deployed state space when the mask
     instance changes in set_input_state; fixB = set_mask / clear_mask re-srun preprocess for the current input.
     (false, false) is the code as it is.
   Part 2 (Keyed): a generic cache keyed by a part of the configuration, entries ghost-tagged with what their
     value depends on, with an invalidation policy per mutator; instances: the output-state iterator cache of
     AStrongSimulationBackend and Simulator._evolve.
   Part 3 (Mps): the bond dimension MPSBackend keeps between inputs. *)
From PV Require Export Model.Engines.

(* ------------------------------------------------------------------------------------------------ *)
Definition minst := (nat * list mask)%type.      (* xq.FSMask(m, n, masks): n and the mask strings *)
Definition arr := list state.                     (* xq.FSArray as the list of its states, in order *)

Definition onat_eqb (a b : option nat) : bool :=
  match a, b with Some x, Some y => (x =? y)%nat | None, None => true | _, _ => false end.
Fixpoint mask_eqb (a b : mask) : bool :=
  match a, b with [], [] => true | x :: r, y :: s => onat_eqb x y && mask_eqb r s | _, _ => false end.
Fixpoint masks_eqb (a b : list mask) : bool :=
  match a, b with [], [] => true | x :: r, y :: s => mask_eqb x y && masks_eqb r s | _, _ => false end.
Definition minst_eqb (a b : option minst) : bool :=
  match a, b with
  | None, None => true
  | Some (n1, k1), Some (n2, k2) => (n1 =? n2)%nat && masks_eqb k1 k2
  | _, _ => false
  end.

(* AStrongSimulationBackend._init_mask: FSMask(m, self._mask_n or instate.n, self._masks_str) *)
Definition inst_of (masks : option (list mask)) (mask_n : option nat) (n_in : nat) : option minst :=
  match masks with
  | None => None
  | Some mks => Some (match mask_n with Some (S k) => S k | _ => n_in end, mks)
  end.
(* xq.FSArray(m, k, mask) if mask else xq.FSArray(m, k)  (DESIGN.md A.1) *)
Definition fsarray (m k : nat) (mi : option minst) : arr :=
  match mi with None => allstates m k | Some (n, mks) => filter (mask_keep n mks) (allstates m k) end.

Fixpoint lookup {A} (k : nat) (l : list (nat * A)) : option A :=
  match l with [] => None | e :: r => if (k =? fst e)%nat then Some (snd e) else lookup k r end.
Fixpoint lookup_st {A} (s : state) (l : list (state * A)) : option A :=
  match l with [] => None | e :: r => if state_eqb s (fst e) then Some (snd e) else lookup_st s r end.
Fixpoint index_of (t : state) (a : arr) : option nat :=
  match a with [] => None | u :: r => if state_eqb t u then Some 0%nat else option_map S (index_of t r) end.
(* the pruning predicate of a deployed state space: level = photon number of the state *)
Definition keepL (lv : list arr) (u : state) : bool := existsb (state_eqb u) (nth (total u) lv []).

(* _Path._decompose for one input state: repeatedly the first mode holding the most remaining photons *)
Fixpoint argmax_aux (t : state) (i best bestv : nat) : nat :=
  match t with
  | [] => best
  | x :: r => if (bestv <? x)%nat then argmax_aux r (S i) i x else argmax_aux r (S i) best bestv
  end.
Definition argmax (t : state) : nat := match t with [] => 0%nat | x :: r => argmax_aux r 1 0 x end.
Fixpoint place_order (fuel : nat) (t : state) : list nat :=
  match fuel with O => [] | S f => argmax t :: place_order f (dec t (argmax t)) end.
(* the column consumed last by the recursion is the photon placed first *)
Definition path_cols (s : state) : list nat := rev (place_order (total s) s).

(* an FSMap built over an empty parent array with a non-empty child array: native undefined behaviour
   (observed: segmentation fault) *)
Fixpoint crash_chain (lv : list arr) : bool :=
  match lv with
  | a :: r => (match a, r with [], (_ :: _) :: _ => true | _, _ => false end) || crash_chain r
  | [] => false
  end.

(* level 0 always carries one coefficient (_mk_l[0] = 1): over an empty level-0 array (the vacuum input came first
   under a mask that needs photons) the first layer reads outside the table whatever the child is *)
Definition crash_lv (lv : list arr) : bool :=
  match lv with [] :: _ :: _ => true | _ => crash_chain lv end.

(* xq.FSMap(child, parent) is filled from the child's states: for each state u and occupied mode j the entry
   (index of u minus one photon in mode j, j) receives the index of u.  It is meaningful only if every such
   predecessor IS in the parent array; otherwise the native layer writes into a wrong row (observed: wrong
   coefficients) or outside the table (observed with an empty parent: segmentation fault, [crash_chain]).
   The values the machine computes for a chain that is not closed are nominal: the native result is unspecified. *)
Definition preds_in (m : nat) (parent : arr) (u : state) : bool :=
  forallb (fun j => if (0 <? nth j u 0)%nat then existsb (state_eqb (dec u j)) parent else true) (seq 0 m).
Fixpoint chain_closed (m : nat) (lv : list arr) : bool :=
  match lv with
  | a :: r => (match r with b :: _ => forallb (preds_in m a) b | [] => true end) && chain_closed m r
  | [] => true
  end.

Fixpoint max_entry (l : list (nat * arr)) (best : nat * arr) : nat * arr :=
  match l with [] => best | e :: r => if (fst best <? fst e)%nat then max_entry r e else max_entry r best end.
Definition cur0 (m : nat) (fsas : list (nat * arr)) : arr :=
  match fsas with [] => fsarray m 0 None | e :: r => snd (max_entry r e) end.
(* SLOSBackend._deploy for one input with n photons under the mask instance mi.
   lv = [] (nothing deployed) or parent array of level 1 :: arrays of levels 1..L *)
(* [fixC] = level 1 is always derived from the unmasked vacuum level (/repo commit f2cccc2b, the code as it is now);
   false = the code before it, which took _fsas[max key] (possibly the masked, empty, level-0 array) *)
Definition deploy_lv (fixC : bool) (m : nat) (mi : option minst) (n : nat) (lv : list arr) (fsas : list (nat * arr)) : list arr :=
  let L := pred (length lv) in
  if (n <=? L)%nat then lv
  else (match lv with [] => [if fixC then fsarray m 0 None else cur0 m fsas] | _ => lv end)
       ++ map (fun k => fsarray m k mi) (seq (S L) (n - L)).
Definition deploy_fsas (m : nat) (mi : option minst) (n : nat) (fsas : list (nat * arr)) : list (nat * arr) :=
  match lookup n fsas with Some _ => fsas | None => (n, fsarray m n mi) :: fsas end.

Inductive squery := QAmp (t : state) | QDist | QAllProb | QEvolve.

Section Slos.
Variable R : cring.
Open Scope K_scope.

Inductive sop :=
| OCirc (m : nat) (U : mat R)                  (* set_circuit *)
| OIn (s : state)                              (* set_input_state *)
| OMask (mks : list mask) (n : option nat)     (* set_mask(masks, n) *)
| OClear                                       (* clear_mask *)
| OQuery (q : squery).

(* rows: (label from the output iterator, coefficient, state of _fsas[n] at the same index) *)
Inductive sout :=
| OutNone | OutErr | OutCrash | OutZero
| OutAmp (c : R) (t s : state)                 (* coefficient; amplitude = c * sqrt(prod t! / prod s!) *)
| OutRows (rows : list (state * R * state)) (s : state).

Record sst := mk_sst {
  s_circ : option (nat * mat R);
  s_in : option state;
  s_masks : option (list mask);                (* _masks_str *)
  s_mask_n : option nat;                       (* _mask_n *)
  s_mask : option minst;                       (* _mask *)
  s_lv : list arr;                             (* _fsms / _mk_l *)
  s_fsas : list (nat * arr);                   (* _fsas *)
  s_paths : list (state * mat R);              (* _state_mapping: input -> unitary its coefficients were computed with *)
  s_iter : list (nat * arr);                   (* _cache_iterator *)
  s_built : option (option minst);             (* mask instance at the first deployment since the last _reset *)
  s_dead : bool }.

Definition sinit : sst := mk_sst None None None None None [] [] [] [] None false.

(* SLOSBackend._reset (keeps circuit, input, _masks_str, _mask_n) *)
Definition sreset (s : sst) : sst :=
  mk_sst (s_circ s) (s_in s) (s_masks s) (s_mask_n s) None [] [] [] [] None (s_dead s).
Definition with_cfg (s : sst) circ inp masks mask_n mask : sst :=
  mk_sst circ inp masks mask_n mask (s_lv s) (s_fsas s) (s_paths s) (s_iter s) (s_built s) (s_dead s).

(* SLOSBackend.preprocess([st]) *)
Definition preprocess (fixC : bool) (s : sst) (m : nat) (U : mat R) (st : state) : sst :=
  match lookup_st st (s_paths s) with
  | Some _ => s
  | None =>
    let n := total st in
    let lv := deploy_lv fixC m (s_mask s) n (s_lv s) (s_fsas s) in
    mk_sst (s_circ s) (s_in s) (s_masks s) (s_mask_n s) (s_mask s)
           lv (deploy_fsas m (s_mask s) n (s_fsas s)) ((st, U) :: s_paths s) (s_iter s)
           (match s_built s with None => Some (s_mask s) | b => b end)
           (s_dead s || crash_lv (firstn (S n) lv))
  end.

Definition mask_len_ok (m : nat) (masks : option (list mask)) : bool :=
  match masks with None => true | Some mks => forallb (fun mk => (length mk =? m)%nat) mks end.
Definition masks_wf (mks : list mask) : bool :=
  match mks with [] => false | mk :: _ => forallb (fun x => (length x =? length mk)%nat) mks end.
(* operations that do not raise *)
Definition slegal (s : sst) (o : sop) : bool :=
  match o with
  | OCirc m _ => (1 <=? m)%nat
  | OIn st => match s_circ s with
              | Some (m, _) => (length st =? m)%nat && mask_len_ok m (s_masks s)
              | None => false end
  | OMask mks _ => masks_wf mks &&
                   match s_in s with Some st => mask_len_ok (length st) (Some mks) | None => true end
  | OClear => true
  | OQuery _ => match s_in s with Some _ => true | None => false end
  end.

Fixpoint zip3 (a : arr) (b : list (state * R)) (c : arr) : list (state * R * state) :=
  match a, b, c with x :: a', y :: b', z :: c' => (x, snd y, z) :: zip3 a' b' c' | _, _, _ => [] end.
(* the coefficient vector of the path of input st: aligned with the array level n was built from *)
Definition coef_vec (m : nat) (U : mat R) (lv : list arr) (st : state) : list (state * R) :=
  let n := total st in
  if (n =? 0)%nat then [(repeat 0%nat m, k1)]
  else map (fun u => (u, slosK U m (keepL lv) (path_cols st) u)) (nth n lv []).
(* what a squery returns once the path and _fsas[n] have been found *)
Definition query_out (m : nat) (U : mat R) (fa it : arr) (lv : list arr) (st : state) (q : squery) : sout :=
  let cv := coef_vec m U lv st in
  match q with
  | QAmp t =>
    (* FSArray.find of the vacuum state answers 0 even in an (masked) empty level-0 array *)
    match (if (total t =? 0)%nat then Some 0%nat else index_of t fa) with
    | None => OutErr                                     (* assert output_idx != npos *)
    | Some i => match nth_error cv i with Some uc => OutAmp (snd uc) t st | None => OutErr end
    end
  | QAllProb => if (length cv =? length fa)%nat then OutRows (zip3 fa cv fa) st else OutErr   (* reshape *)
  | QDist | QEvolve => if (length cv =? length fa)%nat then OutRows (zip3 it cv fa) st else OutErr
  end.
Definition uses_iter (q : squery) : bool := match q with QDist | QEvolve => true | _ => false end.
Definition is_rows (o : sout) : bool := match o with OutRows _ _ => true | _ => false end.

Variable fixA fixB fixC : bool.

Definition sstep (s : sst) (o : sop) : sst * sout :=
  if negb (slegal s o) then (s, OutErr) else
  if s_dead s then (s, OutCrash) else
  match o with
  | OCirc m U =>
    let keep := match s_paths s, s_circ s with _ :: _, Some (m0, _) => (m0 =? m)%nat | _, _ => false end in
    (if keep then
       mk_sst (Some (m, U)) None (s_masks s) (s_mask_n s) (s_mask s) (s_lv s) (s_fsas s)
              (map (fun p => (fst p, U)) (s_paths s)) (s_iter s) (s_built s) (s_dead s)
     else sreset (with_cfg s (Some (m, U)) None (s_masks s) (s_mask_n s) (s_mask s)), OutNone)
  | OIn st =>
    match s_circ s with
    | None => (s, OutErr)
    | Some (m, U) =>
      let newmask := match s_masks s with None => s_mask s
                                      | Some _ => inst_of (s_masks s) (s_mask_n s) (total st) end in
      let stale := match s_built s with Some b => negb (minst_eqb b newmask) | None => false end in
      let s1 := if fixA && stale then sreset s else s in
      let s2 := with_cfg s1 (s_circ s) (Some st) (s_masks s) (s_mask_n s) newmask in
      let s3 := preprocess fixC s2 m U st in
      (s3, if s_dead s3 then OutCrash else OutNone)
    end
  | OMask mks n =>
    let mk := match s_in s with Some st => inst_of (Some mks) n (total st) | None => None end in
    let s1 := with_cfg (sreset s) (s_circ s) (s_in s) (Some mks) n mk in
    let s2 := if fixB then match s_in s, s_circ s with Some st, Some (m, U) => preprocess fixC s1 m U st | _, _ => s1 end
              else s1 in
    (s2, if s_dead s2 then OutCrash else OutNone)
  | OClear =>
    let s1 := with_cfg (sreset s) (s_circ s) (s_in s) None None None in
    let s2 := if fixB then match s_in s, s_circ s with Some st, Some (m, U) => preprocess fixC s1 m U st | _, _ => s1 end
              else s1 in
    (s2, if s_dead s2 then OutCrash else OutNone)
  | OQuery q =>
    match s_in s, s_circ s with
    | Some st, Some (m, _) =>
      let n := total st in
      match q with
      | QAmp t => if negb (n =? total t)%nat then (s, OutZero) else
        match lookup n (s_fsas s), lookup_st st (s_paths s) with
        | Some fa, Some U' => (s, query_out m U' fa fa (firstn (S n) (s_lv s)) st q)
        | _, _ => (s, OutErr)                                                    (* KeyError *)
        end
      | _ =>
        match lookup n (s_fsas s), lookup_st st (s_paths s) with
        | Some fa, Some U' =>
          let it := match lookup n (s_iter s) with Some a => a | None => fsarray m n (s_mask s) end in
          let o := query_out m U' fa it (firstn (S n) (s_lv s)) st q in
          (if uses_iter q && is_rows o then
             mk_sst (s_circ s) (s_in s) (s_masks s) (s_mask_n s) (s_mask s) (s_lv s) (s_fsas s) (s_paths s)
                    (match lookup n (s_iter s) with Some _ => s_iter s | None => (n, it) :: s_iter s end)
                    (s_built s) (s_dead s)
           else s, o)
        | _, _ => (s, OutErr)
        end
      end
    | _, _ => (s, OutErr)
    end
  end.

Definition srun (h : list sop) : sst := fold_left (fun s o => fst (sstep s o)) h sinit.
Definition sobs (s : sst) (q : squery) : sout := snd (sstep s (OQuery q)).

(* a fresh engine given only a configuration: set_circuit; set_mask; set_input_state *)
Definition scanon (s : sst) : list sop :=
  (match s_circ s with Some (m, U) => [OCirc m U] | None => [] end) ++
  (match s_masks s with Some mks => [OMask mks (s_mask_n s)] | None => [] end) ++
  (match s_in s with Some st => [OIn st] | None => [] end).

(* the closed form: what a configuration alone determines *)
Definition canon_lv (m : nat) (b : option minst) (L : nat) : list arr :=
  fsarray m 0 None :: map (fun k => fsarray m k b) (seq 1 L).
Definition spec_obs (m : nat) (U : mat R) (b : option minst) (st : state) (q : squery) : sout :=
  let n := total st in
  match q with
  | QAmp t => if negb (n =? total t)%nat then OutZero
              else query_out m U (fsarray m n b) (fsarray m n b) (canon_lv m b n) st q
  | _ => query_out m U (fsarray m n b) (fsarray m n b) (canon_lv m b n) st q
  end.
Definition photonic (o : sop) : Prop := match o with OIn st => (1 <= total st)%nat | _ => True end.
End Slos.

Arguments OCirc {_}. Arguments OIn {_}. Arguments OMask {_}. Arguments OClear {_}. Arguments OQuery {_}.
Arguments OutNone {_}. Arguments OutErr {_}. Arguments OutCrash {_}. Arguments OutZero {_}.
Arguments OutAmp {_}. Arguments OutRows {_}.
Arguments s_circ {_}. Arguments s_in {_}. Arguments s_masks {_}. Arguments s_mask_n {_}. Arguments s_mask {_}.
Arguments s_lv {_}. Arguments s_fsas {_}. Arguments s_paths {_}. Arguments s_iter {_}. Arguments s_built {_}.
Arguments s_dead {_}. Arguments scanon {_}. Arguments photonic {_}. Arguments sobs {_}. Arguments srun {_}.
Arguments slegal {_}. Arguments sreset {_}. Arguments preprocess {_}. Arguments with_cfg {_}. Arguments query_out {_}.
Arguments coef_vec {_}. Arguments zip3 {_}.

(* ------------------------------------------------------------------------------------------------ *)
(* Part 2: a cache keyed by a part of the configuration; every entry carries (ghost) what its value was
   computed from; [dep c k] = what a value computed NOW for key k depends on. *)
Section Keyed.
Variables (Cfg Key Dep Op : Type).
Variable key_eqb : Key -> Key -> bool.
Variable cstep : Cfg -> Op -> Cfg.                      (* a mutator's effect on the configuration *)
Variable survives : Cfg -> Op -> Key -> Dep -> bool.    (* the mutator's invalidation policy *)
Variable dep : Cfg -> Key -> Dep.
Variable ready : Cfg -> bool.                           (* queries are possible *)

Definition kcache := list (Key * Dep).
Fixpoint kfind (k : Key) (ca : kcache) : option Dep :=
  match ca with [] => None | e :: r => if key_eqb k (fst e) then Some (snd e) else kfind k r end.
Inductive kop := KMut (o : Op) | KQuery (k : Key).
Definition kstep (cc : Cfg * kcache) (o : kop) : (Cfg * kcache) * option Dep :=
  match o with
  | KMut o => ((cstep (fst cc) o, filter (fun e => survives (fst cc) o (fst e) (snd e)) (snd cc)), None)
  | KQuery k =>
    if ready (fst cc) then
      match kfind k (snd cc) with
      | Some d => (cc, Some d)
      | None => ((fst cc, (k, dep (fst cc) k) :: snd cc), Some (dep (fst cc) k))
      end
    else (cc, None)
  end.
Definition krun (c0 : Cfg) (h : list kop) : Cfg * kcache := fold_left (fun cc o => fst (kstep cc o)) h (c0, []).
Definition kcoherent (cc : Cfg * kcache) : Prop :=
  forall k d, In (k, d) (snd cc) -> ready (fst cc) = true /\ d = dep (fst cc) k.
End Keyed.
Arguments KMut {_ _}. Arguments KQuery {_ _}.

(* -- instance 1: AStrongSimulationBackend._cache_iterator (Naive, SLAP, MPS) keyed by the photon number -- *)
Record it_cfg := { it_m : nat;                          (* 0 = no circuit *)
                   it_masks : option (list mask); it_mask_n : option nat; it_input : bool }.
Inductive it_op := ItCirc (m : nat) | ItMask (mks : list mask) (n : option nat) | ItClear | ItInput.
Definition it_cstep (c : it_cfg) (o : it_op) : it_cfg :=
  match o with
  | ItCirc m => {| it_m := m; it_masks := it_masks c; it_mask_n := it_mask_n c; it_input := false |}
  | ItMask mks n => {| it_m := it_m c; it_masks := Some mks; it_mask_n := n; it_input := it_input c |}
  | ItClear => {| it_m := it_m c; it_masks := None; it_mask_n := None; it_input := it_input c |}
  | ItInput => {| it_m := it_m c; it_masks := it_masks c; it_mask_n := it_mask_n c;
                  it_input := negb (it_m c =? 0)%nat |}
  end.
(* set_circuit: `if self._circuit and circuit.m != self._circuit` compares an int with a circuit, so the cache
   is cleared whenever a circuit was already set; set_mask / clear_mask always clear; set_input_state never *)
Definition it_survives (c : it_cfg) (o : it_op) (k : nat) (d : nat * option minst) : bool :=
  match o with ItCirc _ => (it_m c =? 0)%nat | ItMask _ _ => false | ItClear => false | ItInput => true end.
Definition it_dep (c : it_cfg) (k : nat) : nat * option minst := (it_m c, inst_of (it_masks c) (it_mask_n c) k).
Definition it_ready (c : it_cfg) : bool := it_input c && negb (it_m c =? 0)%nat.
Definition it_init : it_cfg := {| it_m := 0; it_masks := None; it_mask_n := None; it_input := false |}.

(* -- instance 2: Simulator._evolve, the entries keyed (state, n) written by evolve / evolve_svd / probs_svd(superposed).
      A value is computed under the heralds mask iff _can_use_mask (= heralds and PNR detection, decided by
      init_use_mask at the start of probs_svd / evolve_svd); the key does not tell.
      [fixed] = init_use_mask drops the cache when the usability of the mask flips (/repo commit 8766d55d, the code as
      it is now); false = the code before it -- *)
Record sim_cfg := { sim_circ : nat;                     (* circuit id, 0 = none *)
                    sim_heralds : nat;                  (* heralds id, 0 = none *)
                    sim_mask : bool }.                  (* _can_use_mask *)
Inductive sim_op := SimCirc (c : nat) | SimHeralds (h : nat) | SimClearHeralds | SimSelection
                  | SimUseMask (b : bool).              (* init_use_mask: b = heralds and is_pnr *)
Definition sim_cstep (c : sim_cfg) (o : sim_op) : sim_cfg :=
  match o with
  | SimCirc k => {| sim_circ := k; sim_heralds := sim_heralds c; sim_mask := sim_mask c |}
  | SimHeralds h => {| sim_circ := sim_circ c; sim_heralds := h; sim_mask := sim_mask c |}
  | SimClearHeralds => {| sim_circ := sim_circ c; sim_heralds := 0; sim_mask := sim_mask c |}
  | SimSelection => c
  | SimUseMask b => {| sim_circ := sim_circ c; sim_heralds := sim_heralds c; sim_mask := b |}
  end.
Definition sim_survives (fixed : bool) (c : sim_cfg) (o : sim_op) (k : state * nat) (d : nat * nat * bool) : bool :=
  match o with
  | SimSelection => true
  | SimUseMask b => if fixed then Bool.eqb b (sim_mask c) else true
  | _ => false                                           (* _invalidate_cache *)
  end.
Definition sim_dep (c : sim_cfg) (k : state * nat) : nat * nat * bool := (sim_circ c, sim_heralds c, sim_mask c).
Definition sim_ready (c : sim_cfg) : bool := negb (sim_circ c =? 0)%nat.
Definition sn_eqb (a b : state * nat) : bool := state_eqb (fst a) (fst b) && (snd a =? snd b)%nat.
Definition sim_init : sim_cfg := {| sim_circ := 0; sim_heralds := 0; sim_mask := false |}.

(* the engine-side mask a Simulator leaves behind.  probs_svd / evolve_svd decide (init_use_mask) whether the heralds
   mask is usable and set or clear the engine mask accordingly.  The three UNCONDITIONED queries - probs(BasicState),
   probability, prob_amplitude - ignore heralds: they must run without a mask; evolve(state) re-decides the mask from
   the current heralds, the flag and its own photon number (use_mask).
   engine mask: (heralds id, n) of the last set_mask, None = no mask.
   [fp] = probs clears a leftover mask (/repo bc7ab4f9), [fa] = probability / prob_amplitude do (/repo 7e0f70ac);
   (true, true) is the code as it is now *)
Inductive simq := SqProbs | SqProbability | SqProbAmplitude | SqEvolve (n : nat).
Inductive simm_op := SmHeralds (h : nat) | SmProbsSvd (n : nat) (pnr : bool) | SmQuery (q : simq).
Record simm_state := { sm_heralds : nat; sm_flag : bool (* _can_use_mask *); sm_engine : option (nat * nat) }.
Definition simm_step (fp fa : bool) (s : simm_state) (o : simm_op) : simm_state * option (option (nat * nat)) :=
  match o with
  | SmHeralds h => ({| sm_heralds := h; sm_flag := sm_flag s; sm_engine := sm_engine s |}, None)
  | SmProbsSvd n pnr =>
    let f := negb (sm_heralds s =? 0)%nat && pnr in
    ({| sm_heralds := sm_heralds s; sm_flag := f; sm_engine := if f then Some (sm_heralds s, n) else None |}, None)
  | SmQuery q =>
    let clear := match q with SqProbs => fp | SqProbability | SqProbAmplitude => fa | SqEvolve _ => false end in
    let e := match q with
             | SqEvolve n => if sm_flag s then Some (sm_heralds s, n) else None      (* use_mask(n) *)
             | _ => if clear then None else sm_engine s
             end in
    ({| sm_heralds := sm_heralds s; sm_flag := sm_flag s; sm_engine := e |}, Some e)   (* the mask it is computed under *)
  end.
Definition simm_init : simm_state := {| sm_heralds := 0; sm_flag := false; sm_engine := None |}.
Definition simm_run (fp fa : bool) (h : list simm_op) : simm_state :=
  fold_left (fun s o => fst (simm_step fp fa s o)) h simm_init.
(* the mask the query's own configuration determines: none for the unconditioned queries; for evolve the one use_mask
   derives from the current heralds, the mask-usability flag (set by the last probs_svd / evolve_svd) and n *)
Definition simm_fresh (s : simm_state) (q : simq) : option (nat * nat) :=
  match q with SqEvolve n => if sm_flag s then Some (sm_heralds s, n) else None | _ => None end.

(* ------------------------------------------------------------------------------------------------ *)
(* Part 3: MPSBackend._cutoff.  _compile: if cutoff is None or < d: cutoff = d; cutoff = min(cutoff, d**(m//2)) *)
Definition mps_clamp (c : option nat) (m n : nat) : nat :=
  let d := S n in
  Nat.min (match c with None => d | Some x => if (x <? d)%nat then d else x end) (d ^ (m / 2)).
Inductive mps_op := MpsCutoff (c : nat) | MpsCirc (m : nat) | MpsIn (n : nat).
Record mps_st := { mps_cut : option nat;               (* self._cutoff *)
                   mps_user : option nat;              (* the last set_cutoff (configuration) *)
                   mps_m : nat; mps_n : option nat }.
(* [fixed] = every compilation starts from the requested cutoff (_requested_cutoff, /repo commit 3d5f407f, the code
   as it is now); false = the code before it, which started from the value stored by the previous compilation *)
Definition mps_step (fixed : bool) (s : mps_st) (o : mps_op) : mps_st :=
  match o with
  (* the compiled state is not rebuilt by set_cutoff: the input has to be set again before a query *)
  | MpsCutoff c => {| mps_cut := Some c; mps_user := Some c; mps_m := mps_m s; mps_n := None |}
  | MpsCirc m => {| mps_cut := mps_cut s; mps_user := mps_user s; mps_m := m; mps_n := None |}
  | MpsIn n => {| mps_cut := Some (mps_clamp (if fixed then mps_user s else mps_cut s) (mps_m s) n);
                  mps_user := mps_user s; mps_m := mps_m s; mps_n := Some n |}
  end.
Definition mps_init : mps_st := {| mps_cut := None; mps_user := None; mps_m := 0; mps_n := None |}.
Definition mps_run (fixed : bool) (h : list mps_op) : mps_st := fold_left (mps_step fixed) h mps_init.
(* the bond dimension a fresh engine uses for the same configuration *)
Definition mps_fresh (s : mps_st) : option nat :=
  match mps_n s with Some n => Some (mps_clamp (mps_user s) (mps_m s) n) | None => mps_user s end.
