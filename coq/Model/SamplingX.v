(* Exchange-format entry points of the sampling model (C09 correspondence). *)
From PV Require Export Model.Sampling Model.SelectX Model.DetectorX.
Open Scope Qc_scope.

(* detector kernel on a whole state: no detector list = perfect reading *)
Definition det_kernel (ds : list (option detector)) (t : state) : dist :=
  match ds with [] => [(t, 1)] | _ => Detector.tensor t ds end.

Definition of_pipe (ph lg : Qc) (d : dist) : sx := L [of_Qc ph; of_Qc lg; of_dist d].
Definition to_mix (x : sx) : mixture :=
  map (fun e => (to_Qc (nthx 0 e), map to_state (to_list (nthx 1 e)))) (to_list x).

(* args: m, U, mixture [[p, [group states]]], heralds, ps, F, keep, detectors
   -> (pipeline as the sampler runs it) (conditioning specification on the un-prefiltered shot law) mass *)
Definition x_pipeline (x : sx) : sx :=
  let m := to_nat (nthx 0 x) in let U := to_mat (nthx 1 x) in
  let mix := to_mix (nthx 2 x) in
  let h := to_heralds (nthx 3 x) in let p := to_ps (nthx 4 x) in
  let F := to_nat (nthx 5 x) in let keep := to_bool (nthx 6 x) in
  let K := det_kernel (to_dets (nthx 7 x)) in
  let spec := spec_dist U m in
  let pl := pipeline spec K mix h p F keep in
  let d := dmerge (shot spec K mix) in
  let c := Select.condition d h p F keep in
  L [of_pipe (p_phys pl) (p_logical pl) (p_results pl); of_pipe (c_phys c) (c_logical c) (c_results c); of_Qc (Dist.mass d)].

Definition to_cfg (x : sx) : lcfg :=
  {| c_max_samples := to_nat (nthx 0 x); c_max_shots := to_optnat (nthx 1 x); c_F := to_nat (nthx 2 x);
     c_h := to_heralds (nthx 3 x); c_ps := to_ps (nthx 4 x); c_keep := to_bool (nthx 5 x) |}.
Definition of_lstate (s : lstate) : sx :=
  L [L (map of_state (l_out s)); of_nat_sx (l_idx s); of_nat_sx (l_batch s); of_nat_sx (l_notsel s);
     of_nat_sx (l_notphys s); of_nat_sx (l_shots s); of_nats (l_reqs s)].
(* args: max_samples, max_shots|(), F, heralds, ps, keep, first_batch_length, oracle states *)
Definition x_loop (x : sx) : sx :=
  of_lstate (run (to_cfg x) (map to_state (to_list (nthx 7 x))) (init (to_nat (nthx 6 x)))).
(* args: max_samples, max_shots|(), F, heralds, ps, keep, herald_det_ok, fast, source_defined, ratio, oracle
   -> (0) | (1 batches) | (2 lstate) *)
Definition x_sim_cfg (old_code : bool) (x : sx) : sx :=
  match sim_samples_cfg old_code (to_cfg x) (to_bool (nthx 6 x)) (to_bool (nthx 7 x)) (to_bool (nthx 8 x)) (to_Qc (nthx 9 x))
                    (map to_state (to_list (nthx 10 x))) with
  | SimEmpty => L [I 0%Z]
  | SimFast b => L [I 1%Z; of_nats b]
  | SimLoop s => L [I 2%Z; of_lstate s]
  end.
Definition x_sim := x_sim_cfg false.
Definition x_sim_old_code := x_sim_cfg true.
(* _compute_samples_with_perf.  args: old_code, F, max_shots|(), x, prepare_samples -> (prepare_samples' max_shots'|()) *)
Definition x_scale (x : sx) : sx :=
  let old := to_bool (nthx 0 x) in let F := to_nat (nthx 1 x) in let k := to_optnat (nthx 2 x) in
  L [of_nat_sx (scale_prepare_cfg old F k (to_Qc (nthx 3 x)) (to_nat (nthx 4 x))); of_optnat (scale_shots_cfg old F k (to_Qc (nthx 3 x)))].
(* args: xs (rationals), count, oracle (indices) -> () | (counts) *)
Definition x_repair (x : sx) : sx :=
  match repair (map to_Qc (to_list (nthx 0 x))) (to_Z (nthx 1 x)) (to_nats (nthx 2 x)) with
  | None => L []
  | Some rs => L [L (map I rs)]
  end.
Definition x_pyround (x : sx) : sx := L (map (fun q => I (pyround (to_Qc q))) (to_list x)).
(* args: number of keys, sample indices *)
Definition x_hist (x : sx) : sx := L (map I (hist (to_nat (nthx 0 x)) (to_nats (nthx 1 x)))).
Definition of_counts (c : counts) : sx := L (map (fun tn => L [of_state (fst tn); of_nat_sx (snd tn)]) c).
Definition to_counts (x : sx) : counts := map (fun e => (to_state (nthx 0 e), to_nat (nthx 1 e))) (to_list x).
(* args: samples -> counts, probabilities of the counts *)
Definition x_samples_conv (x : sx) : sx :=
  let l := map to_state (to_list x) in
  L [of_counts (samples_to_count l); of_dist (samples_to_probs l)].
(* args: counts -> probabilities *)
Definition x_count_to_probs (x : sx) : sx := of_dist (count_to_probs (to_counts x)).
