(* sx entry points of the photon-source model (C06 correspondence). *)
From PV Require Export Model.Source.
Open Scope Qc_scope.

(* source parameters: [px, g2, ind, losses, dmodel, rt, si] *)
Definition to_src (x : sx) : src :=
  mk_src (to_Qc (nthx 0 x)) (to_Qc (nthx 1 x)) (to_Qc (nthx 2 x)) (to_Qc (nthx 3 x)) (to_bool (nthx 4 x))
         (to_Qc (nthx 5 x)) (to_Qc (nthx 6 x)).
Definition of_src (P : src) : sx :=
  L [of_Qc (px P); of_Qc (g2 P); of_Qc (ind P); of_Qc (losses P); of_bool (dmodel P); of_Qc (rt P); of_Qc (si P)].
(* optional field: () = not given, (v) = given *)
Definition to_optQ (x : sx) : option Qc := match to_list x with [] => None | v :: _ => Some (to_Qc v) end.
Definition to_optB (x : sx) : option bool := match to_list x with [] => None | v :: _ => Some (to_bool v) end.

Definition of_mode (m : list nat) : sx := of_nats m.
Definition of_dist1 (d : dist (list nat)) : sx := L (map (fun e => L [of_mode (fst e); of_Qc (snd e)]) d).
Definition of_state (s : state) : sx := L (map of_mode s).
Definition of_distS (d : dist state) : sx := L (map (fun e => L [of_state (fst e); of_Qc (snd e)]) d).

(* 600: P -> [p1to1, p2to1, p2to2, p1, p2, pzero, is_perfect, partially_distinguishable] *)
Definition x_get_probs (x : sx) : sx :=
  let P := to_src x in
  L [of_Qc (p1to1 P); of_Qc (p2to1 P); of_Qc (p2to2 P); of_Qc (p1 P); of_Qc (p2 P); of_Qc (pzero P);
     of_bool (is_perfect P); of_bool (partially_distinguishable P)].
(* 601: [P, c] -> [dist, c'] *)
Definition x_one_photon (x : sx) : sx :=
  let '(d, c) := one_photon (to_src (nthx 0 x)) (to_nat (nthx 1 x)) in L [of_dist1 d; of_nat_sx c].
(* 602: [P, c, n] -> [dist, c'] *)
Definition x_prob_dist (x : sx) : sx :=
  let '(d, c) := prob_dist (to_src (nthx 0 x)) (to_nat (nthx 1 x)) (to_nat (nthx 2 x)) in L [of_dist1 d; of_nat_sx c].
(* 603: [P, c, input] -> [mass before normalize, dist, c'] *)
Definition x_generate (x : sx) : sx :=
  let P := to_src (nthx 0 x) in let c := to_nat (nthx 1 x) in let input := to_nats (nthx 2 x) in
  let '(d, c') := generate_distribution P c input in
  L [of_Qc (mass (fst (raw_distribution P c input))); of_distS d; of_nat_sx c'].
(* 604: [P, n, f] -> [table, phys_perf, zpp] *)
Definition x_prob_table (x : sx) : sx :=
  let '(t, phys, zpp) := prob_table (to_src (nthx 0 x)) (to_nat (nthx 1 x)) (to_nat (nthx 2 x)) in
  L [L (map (fun e => let '(i, j, k) := fst e in L [of_nats [i; j; k]; of_Qc (snd e)]) t); of_Qc phys; of_Qc zpp].
(* 605: [brightness?, indistinguishability?, g2?, g2_distinguishable?, transmittance?, rt, si] -> P *)
Definition x_from_noise (x : sx) : sx :=
  of_src (from_noise (to_optQ (nthx 0 x)) (to_optQ (nthx 1 x)) (to_optQ (nthx 2 x)) (to_optB (nthx 3 x))
                     (to_optQ (nthx 4 x)) (to_Qc (nthx 5 x)) (to_Qc (nthx 6 x))).
(* 606: [P, c, input, f] -> [dist conditioned on >= f photons, kept mass] *)
Definition x_generate_filtered (x : sx) : sx :=
  let '(d, _) := generate_distribution (to_src (nthx 0 x)) (to_nat (nthx 1 x)) (to_nats (nthx 2 x)) in
  let '(k, m) := condition (to_nat (nthx 3 x)) d in L [of_distS k; of_Qc m].
(* 607: [P, c] -> per-photon law of the event sampler, labels forgotten *)
Definition x_event_law (x : sx) : sx :=
  of_dist1 (map forget (event_law (to_src (nthx 0 x)) (to_nat (nthx 1 x)))).
