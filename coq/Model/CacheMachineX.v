(* Exchange-format entry points of the C05 machines (QI instance). *)
From PV Require Export Model.CacheMachine Model.EnginesX.

Definition to_onat (x : sx) : option nat := if (to_Z x <? 0)%Z then None else Some (to_nat x).
Definition to_query (k : sx) (t : sx) : squery :=
  match to_Z k with 0%Z => QAmp (to_state t) | 1%Z => QDist | 2%Z => QAllProb | _ => QEvolve end.
Definition to_op (x : sx) : sop QI :=
  match to_Z (nthx 0 x) with
  | 0%Z => OCirc (to_nat (nthx 1 x)) (to_mat (nthx 2 x))
  | 1%Z => OIn (to_state (nthx 1 x))
  | 2%Z => OMask (map to_mask (to_list (nthx 1 x))) (to_onat (nthx 2 x))
  | 3%Z => OClear
  | _ => OQuery (to_query (nthx 1 x) (nthx 2 x))
  end.
Definition of_out (o : sout QI) : sx :=
  match o with
  | OutNone => L [I 0] | OutErr => L [I 1] | OutCrash => L [I 2] | OutZero => L [I 3]
  | OutAmp c t s => L [I 4; of_qi c; of_state t; of_state s]
  | OutRows rows s => L [I 5; L (map (fun r => L [of_state (fst (fst r)); of_qi (snd (fst r)); of_state (snd r)]) rows); of_state s]
  end.
(* white box: _fsas (key, count), len(_fsms), _mk_l, _state_mapping keys, _cache_iterator keys, _mask set, dead, closed *)
Definition of_wb (s : sst QI) : sx :=
  L [ L (map (fun e => L [of_nat_sx (fst e); of_nat_sx (length (snd e))]) (s_fsas s));
      of_nat_sx (match s_lv s with [] => 1 | l => length l end);
      L (I 1 :: map (fun a => of_nat_sx (length a)) (tl (s_lv s)));
      L (map (fun p => of_state (fst p)) (s_paths s));
      L (map (fun e => of_nat_sx (fst e)) (s_iter s));
      of_bool (match s_mask s with Some _ => true | None => false end);
      of_bool (s_dead s);
      (* the chain of levels the current input's path runs through is closed under removing a photon *)
      of_bool (match s_in s, s_circ s with
               | Some st, Some (m, _) => chain_closed m (firstn (S (total st)) (s_lv s))
               | _, _ => true end) ].
(* args: fix (1 = the code as it is now = all three repairs, 0 = the code before 1c6530fa), unused, ops
   -> per operation [output, white box after it] *)
Definition x_slos_run (x : sx) : sx :=
  let fa := to_bool (nthx 0 x) in
  L (rev (snd (fold_left (fun acc o => let r := sstep QI fa fa fa (fst acc) (to_op o) in
                                        (fst r, L [of_out (snd r); of_wb (fst r)] :: snd acc))
                         (to_list (nthx 2 x)) (sinit QI, [])))).
(* args: m, U, masks or -1, mask_n, input, squery kind, t -> what the configuration alone determines *)
Definition x_slos_spec (x : sx) : sx :=
  let m := to_nat (nthx 0 x) in let U := to_mat (nthx 1 x) in
  let masks := match nthx 2 x with I _ => None | L l => Some (map to_mask l) end in
  let st := to_state (nthx 4 x) in
  of_out (spec_obs QI m U (inst_of masks (to_onat (nthx 3 x)) (total st)) st (to_query (nthx 5 x) (nthx 6 x))).

(* MPS: args: fixed, ops [[0,c] | [1,m] | [2,n]] -> per operation [_cutoff or -1, fresh cutoff or -1] *)
Definition of_onat (o : option nat) : sx := match o with Some n => of_nat_sx n | None => I (-1) end.
Definition to_mps_op (x : sx) : mps_op :=
  match to_Z (nthx 0 x) with 0%Z => MpsCutoff (to_nat (nthx 1 x)) | 1%Z => MpsCirc (to_nat (nthx 1 x)) | _ => MpsIn (to_nat (nthx 1 x)) end.
Definition x_mps_run (x : sx) : sx :=
  let fx := to_bool (nthx 0 x) in
  L (rev (snd (fold_left (fun acc o => let s := mps_step fx (fst acc) (to_mps_op o) in
                                        (s, L [of_onat (mps_cut s); of_onat (mps_fresh s)] :: snd acc))
                         (to_list (nthx 1 x)) (mps_init, [])))).

(* iterator cache of the other engines: args: ops [[0,m] | [1,masks,n] | [2] | [3] | [4,k]] -> per sop the cached keys *)
Definition it_kop (x : sx) : kop nat it_op :=
  match to_Z (nthx 0 x) with
  | 0%Z => KMut (ItCirc (to_nat (nthx 1 x)))
  | 1%Z => KMut (ItMask (map to_mask (to_list (nthx 1 x))) (to_onat (nthx 2 x)))
  | 2%Z => KMut ItClear
  | 3%Z => KMut ItInput
  | _ => KQuery (to_nat (nthx 1 x))
  end.
Definition x_iter_run (x : sx) : sx :=
  L (rev (snd (fold_left (fun acc o => let r := fst (kstep _ _ _ _ Nat.eqb it_cstep it_survives it_dep it_ready (fst acc) (it_kop o)) in
                                        (r, L (map (fun e => of_nat_sx (fst e)) (snd r)) :: snd acc))
                         (to_list x) ((it_init, []), [])))).
