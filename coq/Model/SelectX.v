(* Executable conditioning model (C04 correspondence): unconditioned output of a mixture of tagged
   inputs through the amplitude specification, then [condition]. *)
From PV Require Export Model.Select Model.EnginesX.

Definition spec_dist (U : mat QI) (m : nat) (s : state) : dist :=
  map (fun t => (t, prob U m s t)) (allstates m (total s)).

Fixpoint to_ps_fuel (fuel : nat) (x : sx) : ps :=
  match fuel with
  | O => PTrue
  | S f =>
    match to_Z (nthx 0 x) with
    | 1%Z => PCmp (to_nats (nthx 1 x))
                   (match to_Z (nthx 2 x) with 0%Z => CEq | 1%Z => CNe | 2%Z => CLt | 3%Z => CGt | 4%Z => CLe | _ => CGe end)
                   (to_nat (nthx 3 x))
    | 2%Z => PAnd (to_ps_fuel f (nthx 1 x)) (to_ps_fuel f (nthx 2 x))
    | 3%Z => POr (to_ps_fuel f (nthx 1 x)) (to_ps_fuel f (nthx 2 x))
    | 4%Z => PXor (to_ps_fuel f (nthx 1 x)) (to_ps_fuel f (nthx 2 x))
    | 5%Z => PNot (to_ps_fuel f (nthx 1 x))
    | _ => PTrue
    end
  end.
Definition to_ps (x : sx) : ps := to_ps_fuel 64 x.
Definition to_heralds (x : sx) : heralds := map (fun e => (to_nat (nthx 0 e), to_nat (nthx 1 e))) (to_list x).
Definition of_dist (d : dist) : sx := L (map (fun tw => L [of_state (fst tw); of_Qc (snd tw)]) d).

(* unconditioned distribution of a mixture [(p, groups)]: groups of one input evolve independently and
   their outputs add mode-wise *)
Definition mixture_dist (U : mat QI) (m : nat) (mix : list (Qc * list state)) : dist :=
  flat_map (fun pg => dscale (fst pg) (conv_all (map (spec_dist U m) (snd pg)))) mix.
(* threshold detectors on the listed modes (deterministic kernel min(n,1)) *)
Definition threshold_on (modes : list nat) (t : state) : state :=
  map (fun ix => if existsb (Nat.eqb (fst ix)) modes then Nat.min (snd ix) 1 else snd ix) (combine (seq 0 (length t)) t).

(* args: m, U, mixture [[p, [group states]]], heralds, ps, F, keep, threshold-modes *)
Definition x_condition (x : sx) : sx :=
  let m := to_nat (nthx 0 x) in let U := to_mat (nthx 1 x) in
  let mix := map (fun e => (to_Qc (nthx 0 e), map to_state (to_list (nthx 1 e)))) (to_list (nthx 2 x)) in
  let d := dmerge (dmap (threshold_on (to_nats (nthx 7 x))) (mixture_dist U m mix)) in
  let c := Select.condition d (to_heralds (nthx 3 x)) (to_ps (nthx 4 x)) (to_nat (nthx 5 x)) (to_bool (nthx 6 x)) in
  L [of_Qc (c_phys c); of_Qc (c_logical c); of_dist (c_results c); of_Qc (mass d)].
