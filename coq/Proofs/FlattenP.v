(* C11, flattening part: experiment._flatten (as it is / repaired), unitary regrouping. *)
From PV Require Import Model.Transform Proofs.CircuitP Proofs.ComponentsP Proofs.TransformP.
From Coq Require Import Setoid Morphisms.

Section FlattenP.
Variable R : cring.
Variable ii : R.
Notation mat := (mat R).
Notation tcomp := (tcomp R).

Lemma emat_app M (l1 l2 : list (nat * tcomp)) :
  meq M (emat ii M (l1 ++ l2)) (mmul M (emat ii M l2) (emat ii M l1)).
Proof. unfold emat, emats. rewrite map_app. apply oprod_app. Qed.
Lemma emat_nil M : emat ii M [] = mid. Proof. reflexivity. Qed.
Lemma emat_one M o (t : tcomp) : meq M (emat ii M [(o, t)]) (embed o (tw t) (tmat ii t)).
Proof. unfold emat. simpl. apply mmul_id_l. Qed.

(* the repaired recursion lists, at any depth limit, components whose product is the nested block *)
Theorem flat1_fixed_mat : forall (t : tcomp), twf R ii t -> forall start d o M, (start + o + tw t <= M)%nat ->
  meq M (emat ii M (flat1 true start d o t)) (embed (start + o) (tw t) (tmat ii t)).
Proof.
  induction t as [l | m items IH] using (tcomp_ind' R); intros Hwf start d o M HM.
  - simpl flat1. rewrite emat_one. rewrite (Nat.add_comm o start). reflexivity.
  - simpl flat1. destruct (dgo d).
    2:{ rewrite emat_one. rewrite (Nat.add_comm o start). reflexivity. }
    unfold twf in Hwf. rewrite denote_Sub in Hwf. apply wf_Sub in Hwf. destruct Hwf as [Hm Hit].
    simpl tw in *. unfold tmat at 1. rewrite denote_Sub.
    rewrite (embed_ext R M (start + o) m _ _ (cmat_Sub R m (map (D R ii) items))).
    rewrite (embed_oprod R M (start + o) m _ HM).
    clear Hm. induction items as [|[o' t'] r IHr].
    + simpl. reflexivity.
    + simpl in Hit. destruct Hit as [[Ho Hc'] Hr]. inversion IH as [|? ? Hhd Htl]; subst.
      simpl flat_map. rewrite emat_app. simpl map. simpl oprod.
      rewrite (IHr Htl Hr). apply mmul_proper. reflexivity.
      simpl in Hhd. rewrite width_denote in Ho.
      assert (Hx : meq M (emat ii M (flat1 true (start + o) (ddec d) o' t'))
                         (embed (start + o + o') (tw t') (tmat ii t'))) by (apply Hhd; [exact Hc' | lia]).
      rewrite Hx. unfold E. simpl fst. simpl snd. rewrite width_denote.
      symmetry. apply embed_embed. exact Ho.
Qed.

Fixpoint fits (M : nat) (items : list (nat * tcomp)) : Prop :=
  match items with [] => True | (o, t) :: r => (twf R ii t /\ (o + tw t <= M)%nat) /\ fits M r end.

Theorem exp_flatten_fixed_ok M d (items : list (nat * tcomp)) : fits M items ->
  meq M (emat ii M (exp_flatten true d items)) (emat ii M items).
Proof. induction items as [|[o t] r IH]; intros H. reflexivity.
  destruct H as [[Hwf Ho] Hr]. unfold exp_flatten. simpl flat_map.
  rewrite emat_app. change ((o, t) :: r) with ([(o, t)] ++ r). rewrite (emat_app M [(o, t)] r).
  apply mmul_proper. apply IH; exact Hr.
  rewrite emat_one. rewrite (flat1_fixed_mat t Hwf 0%nat d o M) by lia. reflexivity. Qed.

(* when the code's recursion agrees with the repaired one: every composite is entered with starting mode 0,
   i.e. the parent of any nested composite sits at offset 0 (top-level entries always qualify) *)
Fixpoint okF (start o : nat) (t : tcomp) : Prop :=
  match t with
  | TLeaf _ => True
  | TSub _ items => (start = 0%nat) /\ (fix all (l : list (nat * tcomp)) : Prop :=
         match l with [] => True | (o', t') :: r => okF o o' t' /\ all r end) items
  end.
Fixpoint okF_items (o : nat) (l : list (nat * tcomp)) : Prop :=
  match l with [] => True | (o', t') :: r => okF o o' t' /\ okF_items o r end.
Lemma okF_Sub start o m items : okF start o (TSub m items) <-> start = 0%nat /\ okF_items o items.
Proof. simpl. split; intros [H1 H2]; split; auto; induction items as [|[o' t'] r IH]; simpl in *; intuition. Qed.

Theorem flat1_code_eq : forall (t : tcomp) start d o, okF start o t ->
  flat1 false start d o t = flat1 true start d o t.
Proof. induction t as [l | m items IH] using (tcomp_ind' R); intros start d o H. reflexivity.
  apply okF_Sub in H. destruct H as [-> H]. simpl. destruct (dgo d); [|reflexivity].
  induction items as [|[o' t'] r IHr]. reflexivity.
  simpl in H. destruct H as [H1 H2]. inversion IH as [|? ? Hhd Htl]; subst. simpl.
  rewrite (IHr Htl H2). f_equal. apply Hhd. exact H1. Qed.

Fixpoint okF_top (items : list (nat * tcomp)) : Prop :=
  match items with [] => True | (o, t) :: r => okF 0 o t /\ okF_top r end.
Lemma exp_flatten_code_eq d (items : list (nat * tcomp)) : okF_top items ->
  exp_flatten false d items = exp_flatten true d items.
Proof. induction items as [|[o t] r IH]; intros H. reflexivity.
  destruct H as [H1 H2]. unfold exp_flatten in *. simpl. rewrite (IH H2). f_equal.
  apply flat1_code_eq. exact H1. Qed.

(* Experiment.flatten as it is: the matrix is preserved whenever the offsets do not trigger the dropped term *)
Theorem exp_flatten_code_partial M d (items : list (nat * tcomp)) : fits M items -> okF_top items ->
  meq M (emat ii M (exp_flatten false d items)) (emat ii M items).
Proof. intros Hf Hok. rewrite (exp_flatten_code_eq d items Hok). apply exp_flatten_fixed_ok. exact Hf. Qed.

(* in particular when no entry of the experiment nests a circuit inside a circuit (depth <= 1) *)
Definition leaf_items (items : list (nat * tcomp)) : Prop := Forall (fun ot => is_sub (snd ot) = false) items.
Definition shallow (t : tcomp) : Prop := match t with TLeaf _ => True | TSub _ items => leaf_items items end.
Lemma shallow_ok o (t : tcomp) : shallow t -> okF 0 o t.
Proof. destruct t as [l | m items]; simpl; auto. intros H. split; auto.
  induction H as [|[o' t'] r Hh Ht IHr]; auto. split; auto. destruct t'; simpl in *; [exact I | discriminate]. Qed.
Theorem exp_flatten_code_depth1 M d (items : list (nat * tcomp)) : fits M items ->
  Forall (fun ot => shallow (snd ot)) items ->
  meq M (emat ii M (exp_flatten false d items)) (emat ii M items).
Proof. intros Hf Hs. apply exp_flatten_code_partial. exact Hf. clear Hf.
  induction Hs as [|[o t] r Hh Ht IHr].
  - exact I.
  - simpl. split. apply shallow_ok. exact Hh. exact IHr. Qed.

(* ------------------------------------------------------------ regrouping a unitary run into one block *)
Lemma submat_embed a w (X : mat) : meq w (submat a (embed a w X)) X.
Proof. intros i j Hi Hj. unfold submat, embed.
  replace (inb a w (a + i)) with true by (symmetry; apply inb_true; lia).
  replace (inb a w (a + j)) with true by (symmetry; apply inb_true; lia). simpl.
  f_equal; lia. Qed.
Lemma submat_ext a w M (A B : mat) : (a + w <= M)%nat -> meq M A B -> meq w (submat a A) (submat a B).
Proof. intros H HAB i j Hi Hj. unfold submat. apply HAB; lia. Qed.

Fixpoint within (a w : nat) (run : list (nat * tcomp)) : Prop :=
  match run with [] => True | (o, t) :: r => ((a <= o)%nat /\ (o + tw t <= a + w)%nat) /\ within a w r end.

Lemma emat_window M a w (run : list (nat * tcomp)) : (a + w <= M)%nat -> within a w run ->
  meq M (emat ii M run)
        (embed a w (oprod w (map (fun ot => embed (fst ot - a) (tw (snd ot)) (tmat ii (snd ot))) run))).
Proof. intros HM Hw. rewrite (embed_oprod R M a w _ HM). unfold emat. apply oprod_ext.
  induction run as [|[o t] r IH]; simpl; constructor.
  - simpl in Hw. destruct Hw as [[H1 H2] _].
    rewrite (embed_embed R M a w (o - a) (tw t)) by lia. replace (a + (o - a))%nat with o by lia. reflexivity.
  - apply IH. simpl in Hw. tauto. Qed.

(* any window [a, a+w) that contains every component of the run: cutting the run's matrix to the window
   and embedding the block again gives the run's matrix back *)
Theorem regroup_window M a w (run : list (nat * tcomp)) : (a + w <= M)%nat -> within a w run ->
  meq M (embed a w (submat a (ematx ii M run))) (emat ii M run).
Proof. intros HM Hw.
  assert (Hx : meq M (ematx ii M run) (emat ii M run)) by (unfold ematx, emat; apply oprodx_eq).
  rewrite (emat_window M a w run HM Hw).
  apply embed_ext.
  rewrite (submat_ext a w M _ _ HM Hx). rewrite (submat_ext a w M _ _ HM (emat_window M a w run HM Hw)).
  apply submat_embed. Qed.

(* the window chosen by non_unitary_circuit: [min first mode, max last mode + 1) *)
Lemma fold_min_le (run : list (nat * tcomp)) : forall a0, (fold_left (fun a ot => Nat.min a (fst ot)) run a0 <= a0)%nat /\ forall ot, In ot run -> (fold_left (fun a ot => Nat.min a (fst ot)) run a0 <= fst ot)%nat.
Proof. induction run as [|x r IH]; intros a0; simpl. split; [lia | tauto].
  destruct (IH (Nat.min a0 (fst x))) as [H1 H2]. split. lia.
  intros ot [<- | Hin]. lia. apply H2. exact Hin. Qed.
Lemma fold_max_ge (run : list (nat * tcomp)) : forall b0 M, (b0 <= M)%nat ->
  (forall ot, In ot run -> (fst ot + tw (snd ot) <= M)%nat) ->
  let b := fold_left (fun a ot => Nat.max a (fst ot + tw (snd ot))) run b0 in
  (b0 <= b <= M)%nat /\ forall ot, In ot run -> (fst ot + tw (snd ot) <= b)%nat.
Proof. induction run as [|x r IH]; intros b0 M Hb HM; simpl. split; [lia | tauto].
  assert (Hx : (fst x + tw (snd x) <= M)%nat) by (apply HM; left; reflexivity).
  destruct (IH (Nat.max b0 (fst x + tw (snd x))) M) as [H1 H2]. lia. intros ot Hin. apply HM. right. exact Hin.
  split. lia. intros ot [<- | Hin]. lia. apply H2. exact Hin. Qed.

Theorem regroup_preserves M (run : list (nat * tcomp)) : run <> [] ->
  (forall ot, In ot run -> (0 < tw (snd ot))%nat /\ (fst ot + tw (snd ot) <= M)%nat) ->
  let '(a, w, B) := regroup_run ii M run in (a + w <= M)%nat /\ meq M (embed a w B) (emat ii M run).
Proof. intros Hne Hfit. unfold regroup_run.
  destruct (fold_min_le run M) as [A1 A2]. fold (run_min M run) in A1, A2.
  destruct (fold_max_ge run 0%nat M) as [B1 B2]. lia. intros ot Hin. apply Hfit. exact Hin.
  fold (run_max run) in B1, B2.
  assert (Hab : (run_min M run <= run_max run)%nat).
  { destruct run as [|x r]. congruence. pose proof (A2 x (or_introl eq_refl)). pose proof (B2 x (or_introl eq_refl)). lia. }
  split. lia. apply regroup_window. lia.
  clear Hne. assert (G : forall l, (forall ot, In ot l -> In ot run) -> within (run_min M run) (run_max run - run_min M run) l).
  { induction l as [|[o t] r IH]; intros Hsub; simpl; auto. split.
    - pose proof (A2 (o, t) (Hsub _ (or_introl eq_refl))). pose proof (B2 (o, t) (Hsub _ (or_introl eq_refl))). simpl in *. lia.
    - apply IH. intros ot Hin. apply Hsub. right. exact Hin. }
  apply G. auto. Qed.
End FlattenP.
