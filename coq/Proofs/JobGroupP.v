(* C19 — proofs about the job-group model (Model/JobGroup.v). *)
From PV Require Import Model.JobGroup.
Require Import List ZArith Bool Lia.
Import ListNotations.

(* ------------------------------------------------------------------ vocabulary *)
Definition okj (j : job) : Prop := exists b, eff_body j = Some b.
Definition jwf (j : job) : Prop := jid j = None -> jst j <> SUCCESS.
Definition good (j : job) : Prop := okj j /\ jwf j.

(* the file is exactly the image of memory *)
Definition Exact (m : mach) : Prop := save (mem m) = Some (disk m).
(* what an observer sees of a job: identifier, status if sent, metadata, request body unless successful —
   this is exactly RemoteJob._to_dict *)
Definition obs : job -> option djob := to_disk.
(* re-opening the group by name yields the same observable list *)
Definition reload_equiv (m : mach) : Prop := map obs (load cur (disk m)) = map obs (mem m).
(* identifiers and metadata, position by position *)
Definition skeleton (m : mach) : Prop :=
  map (fun d => (d_id d, d_meta d)) (disk m) = map (fun j => (jid j, jmeta j)) (mem m).

(* a job whose status / error counter were refreshed *)
Definition restat (j : job) (s : status) (e : nat) : job :=
  mkjob (jid j) s e (jname j) (jpay j) (jdcmd j) (jdmap j) (jctx j) (jmeta j).

(* ------------------------------------------------------------------ status *)
Lemma status_eqb_eq a b : status_eqb a b = true <-> a = b.
Proof. split; [|intros ->; destruct b; reflexivity]. destruct a, b; simpl; intros H; try reflexivity; discriminate H. Qed.

(* ------------------------------------------------------------------ save = sequence of to_disk *)
Fixpoint seqopt {A} (l : list (option A)) : option (list A) :=
  match l with
  | [] => Some []
  | x :: r => match x, seqopt r with Some a, Some b => Some (a :: b) | _, _ => None end
  end.

Lemma save_seq l : save l = seqopt (map to_disk l).
Proof. induction l as [|j r IH]; simpl; [reflexivity|]. rewrite IH. reflexivity. Qed.

Lemma save_ext l l' : map to_disk l = map to_disk l' -> save l = save l'.
Proof. intros H. rewrite !save_seq, H. reflexivity. Qed.

Lemma seqopt_some {A} (l : list (option A)) d : seqopt l = Some d -> l = map Some d.
Proof.
  revert d. induction l as [|x r IH]; simpl; intros d H.
  - inversion H. reflexivity.
  - destruct x as [a|]; [|discriminate]. destruct (seqopt r) as [b|] eqn:E; [|discriminate].
    inversion H; subst. simpl. rewrite (IH b eq_refl). reflexivity.
Qed.

Lemma seqopt_map_some {A} (d : list A) : seqopt (map Some d) = Some d.
Proof. induction d; simpl; [reflexivity|]. rewrite IHd. reflexivity. Qed.

Lemma save_some l d : save l = Some d <-> map to_disk l = map Some d.
Proof.
  rewrite save_seq. split; [apply seqopt_some|]. intros ->. apply seqopt_map_some.
Qed.

Lemma save_good l : Forall good l -> exists d, save l = Some d.
Proof.
  induction 1 as [|j r Hj _ IH]; simpl; [eexists; reflexivity|].
  destruct IH as [d ->]. destruct Hj as ([b Hb] & _).
  unfold to_disk. destruct (success (jst j)); [eexists; reflexivity|]. rewrite Hb. eexists; reflexivity.
Qed.

(* ------------------------------------------------------------------ round trip *)
Lemma clamp_idem p p2 : clamp p = Some p2 -> clamp p2 = Some p2.
Proof.
  unfold clamp. destruct p as [ms sh ot]; simpl.
  destruct ms as [[x|]|]; destruct sh as [[y|]|]; simpl; intros H; inversion H; subst; clear H; simpl; try reflexivity.
  destruct (Z.ltb y x) eqn:E; simpl.
  - rewrite Z.ltb_irrefl. reflexivity.
  - rewrite E. reflexivity.
Qed.

Lemma from_disk_body i so meta b : so <> Some SUCCESS ->
  from_disk cur (mkdjob i so meta (Some b)) =
  mkjob i (match so with Some s => s | None => WAITING end) 0 (b_name b) (b_pay b) None None (b_ctx b) meta.
Proof. intros H. unfold from_disk; simpl. destruct so as [[]|]; try reflexivity. congruence. Qed.

Lemma eff_body_loaded i s e meta b : clamp (b_pay b) = Some (b_pay b) ->
  eff_body (mkjob i s e (b_name b) (b_pay b) None None (b_ctx b) meta) = Some b.
Proof. intros H1. unfold eff_body, ectx; simpl. rewrite H1. destruct b; reflexivity. Qed.

Lemma eff_body_shape j b : eff_body j = Some b -> clamp (b_pay b) = Some (b_pay b).
Proof.
  intros Hb. unfold eff_body in Hb. destruct (clamp _) eqn:E; inversion Hb; subst; simpl.
  eapply clamp_idem; exact E.
Qed.

Lemma roundtrip j d : good j -> to_disk j = Some d -> to_disk (from_disk cur d) = Some d /\ good (from_disk cur d).
Proof.
  intros ([b Hb] & Hwf) H. unfold to_disk in H.
  destruct (success (jst j)) eqn:Es.
  - destruct (jst j) eqn:Est; try discriminate Es.
    assert (Hs : sent j = true).
    { unfold sent. destruct (jid j) eqn:Ei; [reflexivity|]. exfalso. apply (Hwf Ei). exact Est. }
    rewrite Hs in H. inversion H; subst; clear H.
    unfold from_disk, to_disk, sent in *; simpl. destruct (jid j); [|discriminate]. simpl.
    split; [reflexivity|]. split.
    + eexists; reflexivity.
    + intros Hn; discriminate Hn.
  - rewrite Hb in H. inversion H; subst; clear H.
    pose proof (eff_body_shape j b Hb) as Hcl.
    rewrite from_disk_body.
    2:{ destruct (sent j); [|discriminate]. intros Hn; inversion Hn as [Hn']. rewrite Hn' in Es. discriminate Es. }
    split.
    + unfold to_disk. rewrite eff_body_loaded by assumption. unfold sent; simpl.
      destruct (jid j); simpl; [rewrite Es|]; reflexivity.
    + split.
      * unfold okj. rewrite eff_body_loaded by assumption. eexists; reflexivity.
      * intros Hn. unfold jwf, sent in *. simpl in *. rewrite Hn. discriminate.
Qed.

Lemma roundtrip_list l d : Forall good l -> save l = Some d -> save (load cur d) = Some d /\ Forall good (load cur d).
Proof.
  revert d. induction l as [|j r IH]; simpl; intros d Hg H.
  - inversion H; subst. simpl. split; [reflexivity|constructor].
  - inversion Hg as [|? ? Hj Hr]; subst.
    destruct (to_disk j) as [dj|] eqn:Ej; [|discriminate]. destruct (save r) as [dr|] eqn:Er; [|discriminate].
    inversion H; subst; clear H. destruct (roundtrip j dj Hj Ej) as [H1 H2].
    destruct (IH dr Hr eq_refl) as [H3 H4]. change (load cur (dj :: dr)) with (from_disk cur dj :: load cur dr).
    cbn [save]. rewrite H1, H3. split; [reflexivity|constructor; assumption].
Qed.

Lemma Exact_reload_equiv m : Forall good (mem m) -> Exact m -> reload_equiv m.
Proof.
  intros Hg HS. unfold Exact in HS. unfold reload_equiv, obs. destruct (roundtrip_list _ _ Hg HS) as [H _].
  apply save_some in H. apply save_some in HS. rewrite H, HS. reflexivity.
Qed.

Lemma save_skeleton l d : save l = Some d -> map (fun d => (d_id d, d_meta d)) d = map (fun j => (jid j, jmeta j)) l.
Proof.
  revert d. induction l as [|j r IH]; simpl; intros d H.
  - inversion H; reflexivity.
  - destruct (to_disk j) as [dj|] eqn:Ej; [|discriminate]. destruct (save r) as [dr|] eqn:Er; [|discriminate].
    inversion H; subst; clear H. simpl. rewrite (IH dr eq_refl). f_equal.
    unfold to_disk in Ej. destruct (success (jst j)); [inversion Ej; reflexivity|].
    destruct (eff_body j); inversion Ej; reflexivity.
Qed.

(* ------------------------------------------------------------------ refreshed jobs *)
Lemma restat_self j : restat j (jst j) (jerrs j) = j.
Proof. destruct j; reflexivity. Qed.
Lemma restat_restat j s e s' e' : restat (restat j s e) s' e' = restat j s' e'.
Proof. reflexivity. Qed.
Lemma restat_jid j s e : jid (restat j s e) = jid j. Proof. reflexivity. Qed.
Lemma restat_jmeta j s e : jmeta (restat j s e) = jmeta j. Proof. reflexivity. Qed.
Lemma restat_jst j s e : jst (restat j s e) = s. Proof. reflexivity. Qed.
Lemma restat_eff j s e : eff_body (restat j s e) = eff_body j. Proof. reflexivity. Qed.
Lemma restat_sent j s e : sent (restat j s e) = sent j. Proof. reflexivity. Qed.

Lemma restat_good j s e : good j -> sent j = true -> good (restat j s e).
Proof.
  intros (Ho & _) Hs. split; [exact Ho|].
  intros Hn. unfold sent in Hs. simpl in Hn. rewrite Hn in Hs. discriminate Hs.
Qed.

Lemma restat_to_disk j e : to_disk (restat j (jst j) e) = to_disk j.
Proof. destruct j; reflexivity. Qed.

Lemma to_disk_unchanged j s e : changed j (restat j s e) = false -> to_disk (restat j s e) = to_disk j.
Proof.
  unfold changed. rewrite negb_false_iff, status_eqb_eq. simpl. intros <-. apply restat_to_disk.
Qed.

Lemma poll_restat j sc r sc' : poll j sc = (r, sc') ->
  (exists s e, r = PStatus (restat j s e)) \/ (exists e, r = PRaise (restat j (jst j) e)).
Proof.
  unfold poll. destruct (pop sc) as [a sc1]. destruct a as [i s| |].
  - intros H; inversion H; subst. left. exists s, 0%nat. reflexivity.
  - destruct (Nat.eqb (S (jerrs j)) 5); intros H; inversion H; subst.
    + right. exists (S (jerrs j)). reflexivity.
    + left. exists (jst j), (S (jerrs j)). reflexivity.
  - intros H; inversion H; subst. right. exists (S (jerrs j)). reflexivity.
Qed.

Lemma polls_sent j : polls j = true -> sent j = true.
Proof. unfold polls. intros H. apply andb_true_iff in H. apply H. Qed.

(* replacing one job by a job with the same image *)
Lemma save_replace pre j j' post : to_disk j' = to_disk j -> save (pre ++ j' :: post) = save (pre ++ j :: post).
Proof. intros H. apply save_ext. rewrite !map_app. simpl. rewrite H. reflexivity. Qed.

Lemma skel_replace pre j j' post : jid j' = jid j -> jmeta j' = jmeta j ->
  map (fun j => (jid j, jmeta j)) (pre ++ j' :: post) = map (fun j => (jid j, jmeta j)) (pre ++ j :: post).
Proof. intros H1 H2. rewrite !map_app. simpl. rewrite H1, H2. reflexivity. Qed.

Lemma Forall_replace {A} (P : A -> Prop) pre x y post : Forall P (pre ++ x :: post) -> P y -> Forall P (pre ++ y :: post).
Proof.
  rewrite !Forall_app. intros [H1 H2] Hy. split; [exact H1|]. inversion H2; subst. constructor; assumption.
Qed.

Lemma Forall_mid {A} (P : A -> Prop) pre x post : Forall P (pre ++ x :: post) -> P x.
Proof. rewrite Forall_app. intros [_ H]. inversion H; assumption. Qed.

Lemma app_cons_assoc {A} (pre : list A) x post : (pre ++ [x]) ++ post = pre ++ x :: post.
Proof. rewrite <- app_assoc. reflexivity. Qed.

(* ------------------------------------------------------------------ _update_job_statuses keeps the file exact *)
Definition skel (l : list job) (dk : list djob) : Prop :=
  map (fun d => (d_id d, d_meta d)) dk = map (fun j => (jid j, jmeta j)) l.

Lemma upd_loop_inv : forall post pre dk sc lg l' dk' sc' lg' o,
  Forall good (pre ++ post) -> save (pre ++ post) = Some dk ->
  upd_loop pre post dk sc lg = (l', dk', sc', lg', o) ->
  Forall good l' /\ save l' = Some dk'.
Proof.
  induction post as [|j post IH]; intros pre dk sc lg l' dk' sc' lg' o Hg HS H; simpl in H.
  - inversion H; subst. rewrite app_nil_r in *. split; assumption.
  - destruct (polls j) eqn:Ep.
    + destruct (poll j sc) as [r sc1] eqn:Epoll.
      pose proof (Forall_mid _ _ _ _ Hg) as Hj. pose proof (polls_sent _ Ep) as Hs.
      destruct (poll_restat _ _ _ _ Epoll) as [[s [e ->]]|[e ->]].
      * assert (Hg' : Forall good (pre ++ restat j s e :: post))
          by (eapply Forall_replace; [exact Hg|apply restat_good; assumption]).
        destruct (changed j (restat j s e)) eqn:Ec.
        -- destruct (save (pre ++ restat j s e :: post)) as [d|] eqn:Es.
           ++ eapply IH; [| |exact H]; rewrite app_cons_assoc; assumption.
           ++ destruct (save_good _ Hg') as [d Hd]. rewrite Hd in Es. discriminate Es.
        -- eapply IH; [| |exact H]; rewrite app_cons_assoc; [assumption|].
           rewrite (save_replace pre j); [assumption|apply to_disk_unchanged; assumption].
      * inversion H; subst. split.
        -- eapply Forall_replace; [exact Hg|apply restat_good; assumption].
        -- rewrite (save_replace pre j); [assumption|apply restat_to_disk].
    + eapply IH; [| |exact H]; rewrite app_cons_assoc; assumption.
Qed.

Lemma update_statuses_inv m m' o : Forall good (mem m) -> Exact m -> update_statuses m = (m', o) ->
  Forall good (mem m') /\ Exact m' /\ udirty m' = udirty m.
Proof.
  unfold update_statuses, Exact. intros Hg HS H.
  destruct (upd_loop [] (mem m) (disk m) (scr m) (rlog m)) as [[[[l d] sc] lg] o'] eqn:E.
  inversion H; subst; simpl. destruct (upd_loop_inv (mem m) [] _ _ _ _ _ _ _ _ Hg HS E) as [H1 H2].
  repeat split; assumption.
Qed.

(* ------------------------------------------------------------------ waiting for completion *)
Lemma wait_loop_restat : forall fuel j sc lg j' sc' lg' o,
  wait_loop fuel j sc lg = (j', sc', lg', o) -> exists s e, j' = restat j s e.
Proof.
  induction fuel as [|f IH]; intros j sc lg j' sc' lg' o H; simpl in H.
  - inversion H; subst. exists (jst j'), (jerrs j'). symmetry; apply restat_self.
  - destruct (polls j).
    + destruct (poll j sc) as [r sc1] eqn:Ep. destruct (poll_restat _ _ _ _ Ep) as [[s [e ->]]|[e ->]].
      * destruct (IH _ _ _ _ _ _ _ H) as [s' [e' ->]]. exists s', e'. reflexivity.
      * inversion H; subst. eexists _, _. reflexivity.
    + inversion H; subst. exists (jst j'), (jerrs j'). symmetry; apply restat_self.
Qed.

(* ------------------------------------------------------------------ one iteration of the launch loop *)
(* loop invariant: every job is good; identifiers and metadata on disk are those of memory; and the file is the
   exact image of memory unless the ghost flag says a status change has not been written yet *)
(* the file is the image of SOME list of good jobs (possibly with older statuses than memory) *)
Definition DiskOk (dk : list djob) : Prop := exists l0, Forall good l0 /\ save l0 = Some dk.
Definition LInv (ex : bool) (l : list job) (dk : list djob) (dirty : bool) : Prop :=
  Forall good l /\ skel l dk /\ (ex = true -> dirty = false -> save l = Some dk) /\ DiskOk dk.

Lemma LInv_written ex l d b : Forall good l -> save l = Some d -> LInv ex l d b.
Proof.
  intros Hg Hs. split; [exact Hg|]. split; [apply save_skeleton; exact Hs|]. split; [intros _ _; exact Hs|].
  exists l. split; assumption.
Qed.

Lemma place_shape rerun repl pre post app old :
  exists F G, (forall y, fst (place rerun repl pre app old y) ++ post ++ snd (place rerun repl pre app old y) = F ++ y :: G)
              /\ (Forall good (pre ++ post ++ app) -> good old -> Forall good (F ++ G)).
Proof.
  unfold place. destruct (rerun && negb repl).
  - exists (pre ++ old :: post ++ app), []. split.
    + intros y. simpl. rewrite <- !app_assoc. simpl. rewrite <- !app_assoc. reflexivity.
    + rewrite app_nil_r. rewrite !Forall_app. intros (H1 & H2 & H3) Ho. split; [exact H1|].
      constructor; [exact Ho|]. rewrite Forall_app. split; assumption.
  - exists pre, (post ++ app). split.
    + intros y. simpl. rewrite <- app_assoc. reflexivity.
    + intros H _. exact H.
Qed.

Lemma Forall_insert {A} (P : A -> Prop) F x G : Forall P (F ++ G) -> P x -> Forall P (F ++ x :: G).
Proof. rewrite !Forall_app. intros [H1 H2] Hx. split; [exact H1|constructor; assumption]. Qed.

Definition lres_inv (ex : bool) (post : list job) (r : lres) : Prop :=
  match r with
  | LCont pre' app' dk' _ _ d' => LInv ex (pre' ++ post ++ app') dk' d'
  | LStop m _ => LInv ex (mem m) (disk m) (udirty m)
  end.

Lemma launched_inv ex rerun seq repl pre post app dk dirty old x sc lg :
  Forall good (pre ++ post ++ app) -> good old -> good x -> sent x = true ->
  lres_inv ex post (launched rerun seq repl pre post app dk dirty old x sc lg).
Proof.
  intros Hg Ho Hx Hs. unfold launched.
  destruct (place_shape rerun repl pre post app old) as (F & G & Hshape & HFG). specialize (HFG Hg Ho).
  pose proof (Hshape x) as Hx_shape.
  destruct (place rerun repl pre app old x) as [preA appA] eqn:EA. simpl in Hx_shape.
  assert (HgA : Forall good (preA ++ post ++ appA)) by (rewrite Hx_shape; apply Forall_insert; assumption).
  destruct (save (preA ++ post ++ appA)) as [d1|] eqn:Es1.
  2:{ destruct (save_good _ HgA) as [d Hd]. rewrite Hd in Es1. discriminate Es1. }
  destruct seq.
  - destruct (wait_loop (Datatypes.S (length sc)) x sc _) as [[[x' sc2] lg2] o] eqn:Ew.
    destruct (wait_loop_restat _ _ _ _ _ _ _ _ Ew) as [s [e ->]].
    pose proof (Hshape (restat x s e)) as Hy_shape.
    destruct (place rerun repl pre app old (restat x s e)) as [preB appB] eqn:EB. simpl in Hy_shape.
    assert (HgB : Forall good (preB ++ post ++ appB))
      by (rewrite Hy_shape; apply Forall_insert; [assumption|apply restat_good; assumption]).
    assert (HstopB : LInv ex (preB ++ post ++ appB) d1 (changed x (restat x s e))).
    { split; [exact HgB|]. split.
      - unfold skel. rewrite Hy_shape. rewrite (skel_replace F x); [|reflexivity|reflexivity].
        rewrite <- Hx_shape. apply save_skeleton. exact Es1.
      - split.
        + intros _ Hc. rewrite Hy_shape. rewrite (save_replace F x); [|apply to_disk_unchanged; exact Hc].
          rewrite <- Hx_shape. exact Es1.
        + exists (preA ++ post ++ appA). split; assumption. }
    destruct o as [|e0]; [|exact HstopB].
    destruct (save (preB ++ post ++ appB)) as [d2|] eqn:Es2; [|exact HstopB].
    simpl. apply LInv_written; assumption.
  - simpl. apply LInv_written; assumption.
Qed.

Lemma LInv_replace ex pre j cj rest dk dirty dy :
  LInv ex (pre ++ j :: rest) dk dirty -> good cj -> jid cj = jid j -> jmeta cj = jmeta j ->
  (dy = false -> dirty = false /\ to_disk cj = to_disk j) -> LInv ex (pre ++ cj :: rest) dk dy.
Proof.
  intros (Hg & Hk & Hs & Hdk) Hc Hi Hm Hd. split; [eapply Forall_replace; eassumption|]. split; [|split].
  - unfold skel in *. rewrite (skel_replace pre j); assumption.
  - intros Ex E. destruct (Hd E) as [E1 E2]. rewrite (save_replace pre j); auto.
  - exact Hdk.
Qed.

Lemma lstop_inv ex pre j cj post app dk sc lg dirty dy e :
  LInv ex (pre ++ j :: post ++ app) dk dirty -> good cj -> jid cj = jid j -> jmeta cj = jmeta j ->
  (dy = false -> dirty = false /\ to_disk cj = to_disk j) ->
  lres_inv ex post (lstop pre cj post app dk sc lg dy e).
Proof. intros. simpl. eapply LInv_replace; eassumption. Qed.

Lemma Forall_drop_mid {A} (P : A -> Prop) pre x rest : Forall P (pre ++ x :: rest) -> Forall P (pre ++ rest).
Proof. rewrite !Forall_app. intros [H1 H2]. inversion H2; subst. split; assumption. Qed.

Lemma rerun_job_good j b i : eff_body j = Some b -> good (rerun_job cur j b i) /\ sent (rerun_job cur j b i) = true.
Proof.
  intros Hb. pose proof (eff_body_shape j b Hb) as Hcl. unfold rerun_job.
  rewrite from_disk_body by discriminate. split; [|reflexivity]. split.
  - unfold okj. rewrite eff_body_loaded by assumption. eexists; reflexivity.
  - intros Hn; discriminate Hn.
Qed.

Lemma rerun_after_status_inv ex seq repl pre j s e post app dk sc lg dirty :
  LInv ex (pre ++ j :: post ++ app) dk dirty -> (sent j = true \/ restat j s e = j) ->
  lres_inv ex post (rerun_after_status cur seq repl pre j (restat j s e) post app dk sc lg dirty).
Proof.
  intros HI Hse. pose proof HI as (Hg & _ & _). pose proof (Forall_mid _ _ _ _ Hg) as Hj.
  assert (Hj1 : good (restat j s e)) by (destruct Hse as [Hs| ->]; [apply restat_good; assumption|exact Hj]).
  assert (Hd : (dirty || changed j (restat j s e)) = false -> dirty = false /\ to_disk (restat j s e) = to_disk j).
  { intros E. apply orb_false_iff in E. destruct E as [E1 E2]. split; [exact E1|apply to_disk_unchanged; exact E2]. }
  unfold rerun_after_status.
  destruct (failed (jst (restat j s e))).
  - rewrite restat_eff. destruct Hj as ([b Hb] & Hw). rewrite Hb. rewrite restat_jid.
    destruct (jid j) as [i|] eqn:Ei.
    + destruct (pop sc) as [a sc2]. destruct a as [i' s'| |].
      * destruct (rerun_job_good (restat j s e) b i') as [Hx Hsx]; [rewrite restat_eff; exact Hb|].
        apply launched_inv; [eapply Forall_drop_mid; exact Hg|exact Hj1|exact Hx|exact Hsx].
      * eapply lstop_inv; [exact HI|exact Hj1|reflexivity|reflexivity|exact Hd].
      * eapply lstop_inv; [exact HI|exact Hj1|reflexivity|reflexivity|exact Hd].
    + eapply lstop_inv; [exact HI|exact Hj1|reflexivity|reflexivity|exact Hd].
  - simpl. rewrite app_cons_assoc. eapply LInv_replace; [exact HI|exact Hj1|reflexivity|reflexivity|exact Hd].
Qed.

Lemma to_disk_refused j : sent j = false -> waiting (jst j) = true -> to_disk (set_st j ERROR) = to_disk j.
Proof.
  unfold to_disk, sent. destruct j as [i s e n p dc dm c m]; simpl. destruct i; [discriminate|].
  intros _ Hw. destruct s; try discriminate Hw. reflexivity.
Qed.

Lemma launch_one_inv ex rerun seq repl pre j post app dk sc lg dirty :
  LInv ex (pre ++ j :: post ++ app) dk dirty ->
  lres_inv ex post (launch_one cur rerun seq repl pre j post app dk sc lg dirty).
Proof.
  intros HI. pose proof HI as (Hg & _ & _). pose proof (Forall_mid _ _ _ _ Hg) as Hj.
  assert (Hsame : forall d : bool, d = false -> d = false /\ to_disk j = to_disk j) by (intros; split; [assumption|reflexivity]).
  unfold launch_one. destruct rerun.
  - destruct (polls j) eqn:Ep.
    + destruct (poll j sc) as [r sc1] eqn:Epoll. pose proof (polls_sent _ Ep) as Hs.
      destruct (poll_restat _ _ _ _ Epoll) as [[s [e ->]]|[e ->]].
      * apply rerun_after_status_inv; [exact HI|left; exact Hs].
      * eapply lstop_inv; [exact HI|apply restat_good; assumption|reflexivity|reflexivity|].
        intros E; split; [exact E|apply restat_to_disk].
    + rewrite <- (restat_self j) at 2. apply rerun_after_status_inv; [exact HI|right; apply restat_self].
  - destruct (sent j) eqn:Es.
    + simpl. rewrite app_cons_assoc. exact HI.
    + destruct (waiting (jst j)) eqn:Ew; simpl.
      2:{ exact HI. }
      destruct Hj as ([b Hb] & Hw). rewrite Hb.
      assert (Hrefused : good (set_st j ERROR)).
      { split; [exists b; exact Hb|]. intros _; discriminate. }
      destruct (pop sc) as [a sc1]. destruct a as [i s| |].
      * apply launched_inv.
        -- eapply Forall_drop_mid; exact Hg.
        -- split; [exists b; exact Hb|exact Hw].
        -- split; [exists b; exact Hb|]. intros Hn; discriminate Hn.
        -- reflexivity.
      * eapply lstop_inv; [exact HI|exact Hrefused|reflexivity|reflexivity|].
        intros E; split; [exact E|apply to_disk_refused; assumption].
      * eapply lstop_inv; [exact HI|exact Hrefused|reflexivity|reflexivity|].
        intros E; split; [exact E|apply to_disk_refused; assumption].
Qed.

Lemma launch_loop_inv ex rerun seq repl : forall post pre app dk sc lg dirty m o,
  LInv ex (pre ++ post ++ app) dk dirty ->
  launch_loop cur rerun seq repl pre post app dk sc lg dirty = (m, o) ->
  LInv ex (mem m) (disk m) (udirty m).
Proof.
  induction post as [|j post IH]; intros pre app dk sc lg dirty m o HI H; simpl in H.
  - inversion H; subst. exact HI.
  - pose proof (launch_one_inv ex rerun seq repl pre j post app dk sc lg dirty HI) as Hone.
    destruct (launch_one cur rerun seq repl pre j post app dk sc lg dirty) as [pre' app' dk' sc' lg' d'|m' o'].
    + eapply IH; [exact Hone|exact H].
    + inversion H; subst. exact Hone.
Qed.

(* ------------------------------------------------------------------ operations *)
(* machine invariant between operations *)
Definition MInv (ex : bool) (m : mach) : Prop := LInv ex (mem m) (disk m) (udirty m).

(* weak invariant, valid in every reachable state (even when a status change has not been written) *)
Definition WInv (m : mach) : Prop := Forall good (mem m) /\ skeleton m /\ DiskOk (disk m).

Lemma Exact_skeleton m : Exact m -> skeleton m.
Proof. intros H. apply save_skeleton. exact H. Qed.
Lemma Exact_WInv m : Forall good (mem m) -> Exact m -> WInv m.
Proof. intros Hg H. split; [exact Hg|]. split; [apply Exact_skeleton; exact H|]. exists (mem m). split; assumption. Qed.

Lemma upd_loop_weak : forall post pre dk sc lg l' dk' sc' lg' o,
  Forall good (pre ++ post) -> skel (pre ++ post) dk -> DiskOk dk ->
  upd_loop pre post dk sc lg = (l', dk', sc', lg', o) ->
  Forall good l' /\ skel l' dk' /\ DiskOk dk'.
Proof.
  induction post as [|j post IH]; intros pre dk sc lg l' dk' sc' lg' o Hg HS HD H; simpl in H.
  - inversion H; subst. rewrite app_nil_r in *. repeat split; assumption.
  - destruct (polls j) eqn:Ep.
    + destruct (poll j sc) as [r sc1] eqn:Epoll.
      pose proof (Forall_mid _ _ _ _ Hg) as Hj. pose proof (polls_sent _ Ep) as Hs.
      assert (Hrep : forall s e, Forall good (pre ++ restat j s e :: post) /\ skel (pre ++ restat j s e :: post) dk).
      { intros s e. split; [eapply Forall_replace; [exact Hg|apply restat_good; assumption]|].
        unfold skel in *. rewrite (skel_replace pre j); [assumption|reflexivity|reflexivity]. }
      destruct (poll_restat _ _ _ _ Epoll) as [[s [e ->]]|[e ->]].
      * destruct (Hrep s e) as [Hg' Hk'].
        destruct (changed j (restat j s e)) eqn:Ec.
        -- destruct (save (pre ++ restat j s e :: post)) as [d|] eqn:Es.
           ++ eapply IH; [| | |exact H]; try rewrite app_cons_assoc; try assumption.
              ** apply save_skeleton; exact Es.
              ** eexists; split; eassumption.
           ++ destruct (save_good _ Hg') as [d Hd]. rewrite Hd in Es. discriminate Es.
        -- eapply IH; [| | |exact H]; try rewrite app_cons_assoc; assumption.
      * inversion H; subst. destruct (Hrep (jst j) e) as [Hg' Hk']. repeat split; assumption.
    + eapply IH; [| | |exact H]; try rewrite app_cons_assoc; assumption.
Qed.

Lemma update_statuses_weak m m' o : WInv m -> update_statuses m = (m', o) -> WInv m' /\ udirty m' = udirty m.
Proof.
  unfold update_statuses, WInv, skeleton. intros (Hg & Hk & HD) H.
  destruct (upd_loop [] (mem m) (disk m) (scr m) (rlog m)) as [[[[l d] sc] lg] o'] eqn:E.
  inversion H; subst; simpl.
  destruct (upd_loop_weak (mem m) [] _ _ _ _ _ _ _ _ Hg Hk HD E) as (H1 & H2 & H3). repeat split; assumption.
Qed.

(* 9afb11d4: on leaving the launch loop, normally or by an exception, the group is written once more iff its image
   differs from the file; either way the file is exact afterwards, memory / script / outcome are untouched *)
Lemma write_if_changed_exact m o m' o' : Forall good (mem m) -> write_if_changed (m, o) = (m', o') ->
  mem m' = mem m /\ scr m' = scr m /\ o' = o /\ Exact m' /\ udirty m' = false.
Proof.
  intros Hg H. unfold write_if_changed in H.
  destruct (save_good _ Hg) as [d Hd]. rewrite Hd in H.
  destruct (djobs_eq_dec d (disk m)) as [E|E]; inversion H; subst; unfold Exact; simpl; repeat split; try reflexivity;
    exact Hd.
Qed.

Lemma finish_exact m o m' o' : Forall good (mem m) -> finish cur (m, o) = (m', o') ->
  mem m' = mem m /\ scr m' = scr m /\ o' = o /\ Exact m' /\ udirty m' = false.
Proof. intros Hg H. apply (write_if_changed_exact m o); assumption. Qed.

Lemma launch_core rerun seq repl m0 m' o : WInv m0 ->
  finish cur (launch_loop cur rerun seq repl [] (mem m0) [] (disk m0) (scr m0) (rlog m0) false) = (m', o) ->
  Forall good (mem m') /\ Exact m' /\ udirty m' = false.
Proof.
  intros (Hg0 & Hk0 & HD0) Hf.
  destruct (launch_loop cur rerun seq repl [] (mem m0) [] (disk m0) (scr m0) (rlog m0) false) as [m2 o2] eqn:El.
  assert (HI : LInv false (mem m2) (disk m2) (udirty m2)).
  { eapply launch_loop_inv; [|exact El]. simpl. rewrite app_nil_r.
    split; [exact Hg0|]. split; [exact Hk0|]. split; [intros Hn; discriminate Hn|exact HD0]. }
  destruct HI as (Hg2 & _). destruct (finish_exact _ _ _ _ Hg2 Hf) as (Hm & _ & _ & He & Hd).
  split; [rewrite Hm; exact Hg2|]. split; assumption.
Qed.

Lemma launch_weak rerun seq repl m m' o : WInv m -> launch cur rerun seq repl m = (m', o) -> WInv m'.
Proof.
  intros HW H. unfold launch in H. destruct rerun.
  - destruct (update_statuses m) as [m1 o1] eqn:Eu. destruct (update_statuses_weak _ _ _ HW Eu) as (HW1 & _).
    destruct o1; [|inversion H; subst; exact HW1].
    destruct (launch_core _ _ _ _ _ _ HW1 H) as (A & B & _). apply Exact_WInv; assumption.
  - destruct (launch_core _ _ _ _ _ _ HW H) as (A & B & _). apply Exact_WInv; assumption.
Qed.

Lemma launch_exact rerun seq repl m m' o : Forall good (mem m) -> Exact m -> launch cur rerun seq repl m = (m', o) ->
  Forall good (mem m') /\ Exact m' /\ udirty m' = udirty m \/ Forall good (mem m') /\ Exact m' /\ udirty m' = false.
Proof.
  intros Hg HS H. unfold launch in H. destruct rerun.
  - destruct (update_statuses m) as [m1 o1] eqn:Eu.
    destruct (update_statuses_inv _ _ _ Hg HS Eu) as (Hg1 & HS1 & Hd1).
    destruct o1; [right; eapply launch_core; [apply Exact_WInv; eassumption|exact H]|].
    inversion H; subst. left. repeat split; assumption.
  - right. eapply launch_core; [apply Exact_WInv; eassumption|exact H].
Qed.

(* ------------------------------------------------------------------ get_results and track_progress *)
(* jobs whose status / error counter may have been refreshed (only sent jobs are) *)
Definition refreshed (j j' : job) : Prop := exists s e, j' = restat j s e /\ (sent j = true \/ j' = j).

Lemma refreshed_refl j : refreshed j j.
Proof. exists (jst j), (jerrs j). split; [symmetry; apply restat_self|right; reflexivity]. Qed.

Lemma refreshed_good j j' : refreshed j j' -> good j -> good j'.
Proof. intros (s & e & -> & [Hs| ->]) Hg; [apply restat_good; assumption|exact Hg]. Qed.

Lemma results_loop_spec : forall post pre sc lg dirty l' sc' lg' dy o,
  results_loop pre post sc lg dirty = (l', sc', lg', dy, o) ->
  exists post', l' = pre ++ post' /\ Forall2 refreshed post post' /\
                (dy = false -> dirty = false /\ map to_disk post' = map to_disk post).
Proof.
  induction post as [|j post IH]; intros pre sc lg dirty l' sc' lg' dy o H; simpl in H.
  - inversion H; subst. exists []. rewrite app_nil_r. split; [reflexivity|]. split; [constructor|]. intros E; split; [exact E|reflexivity].
  - assert (Hstop : forall j1 d1, refreshed j j1 -> (d1 = false -> dirty = false /\ to_disk j1 = to_disk j) ->
              exists post', pre ++ j1 :: post = pre ++ post' /\ Forall2 refreshed (j :: post) post' /\
                            (d1 = false -> dirty = false /\ map to_disk post' = map to_disk (j :: post))).
    { intros j1 d1 Hr Hd. exists (j1 :: post). split; [reflexivity|]. split.
      - constructor; [exact Hr|]. clear. induction post; constructor; [apply refreshed_refl|assumption].
      - intros E. destruct (Hd E) as [E1 E2]. split; [exact E1|]. simpl. rewrite E2. reflexivity. }
    assert (Hcont : forall j1 d1 sc1 lg1, refreshed j j1 -> (d1 = false -> dirty = false /\ to_disk j1 = to_disk j) ->
              results_loop (pre ++ [j1]) post sc1 lg1 d1 = (l', sc', lg', dy, o) ->
              exists post', l' = pre ++ post' /\ Forall2 refreshed (j :: post) post' /\
                            (dy = false -> dirty = false /\ map to_disk post' = map to_disk (j :: post))).
    { intros j1 d1 sc1 lg1 Hr Hd Hc. destruct (IH _ _ _ _ _ _ _ _ _ Hc) as (p' & -> & HF & Hdy).
      exists (j1 :: p'). split; [rewrite app_cons_assoc; reflexivity|]. split; [constructor; assumption|].
      intros E. destruct (Hdy E) as [E1 E2]. destruct (Hd E1) as [E3 E4]. split; [exact E3|]. simpl. rewrite E4, E2. reflexivity. }
    assert (Hsame : forall d : bool, d = false -> d = false /\ to_disk j = to_disk j) by (intros; split; [assumption|reflexivity]).
    destruct (maybe_completed (jst j)); [|eapply Hcont; [apply refreshed_refl|apply Hsame|exact H]].
    assert (Htail : forall j1 sc1 lg1, refreshed j j1 ->
              ((dirty || changed j j1) = false -> dirty = false /\ to_disk j1 = to_disk j) ->
              (if maybe_completed (jst j1)
               then match jid j1 with
                    | None => (pre ++ j1 :: post, sc1, lg1 ++ [RResult None], dirty || changed j j1, Raised E_HTTP)
                    | Some i => let (a, sc2) := pop sc1 in
                                match a with
                                | AOk _ _ => results_loop (pre ++ [j1]) post sc2 (lg1 ++ [RResult (Some i)]) (dirty || changed j j1)
                                | _ => (pre ++ j1 :: post, sc2, lg1 ++ [RResult (Some i)], dirty || changed j j1, Raised E_HTTP)
                                end
                    end
               else results_loop (pre ++ [j1]) post sc1 lg1 (dirty || changed j j1)) = (l', sc', lg', dy, o) ->
              exists post', l' = pre ++ post' /\ Forall2 refreshed (j :: post) post' /\
                            (dy = false -> dirty = false /\ map to_disk post' = map to_disk (j :: post))).
    { intros j1 sc1 lg1 Hr Hd Ht. destruct (maybe_completed (jst j1)); [|eapply Hcont; eassumption].
      destruct (jid j1); [|inversion Ht; subst; apply Hstop; assumption].
      destruct (pop sc1) as [a sc2]. destruct a; [eapply Hcont; eassumption| |]; inversion Ht; subst; apply Hstop; assumption. }
    destruct (polls j) eqn:Ep.
    + destruct (poll j sc) as [r sc1] eqn:Epoll. pose proof (polls_sent _ Ep) as Hs.
      destruct (poll_restat _ _ _ _ Epoll) as [[s [e ->]]|[e ->]].
      * eapply Htail; [exists s, e; split; [reflexivity|left; exact Hs]| |exact H].
        intros E. apply orb_false_iff in E. destruct E as [E1 E2]. split; [exact E1|apply to_disk_unchanged; exact E2].
      * inversion H; subst. apply Hstop; [exists (jst j), e; split; [reflexivity|left; exact Hs]|].
        intros E; split; [exact E|apply restat_to_disk].
    + eapply Htail; [apply refreshed_refl| |exact H].
      intros E. apply orb_false_iff in E. destruct E as [E1 _]. split; [exact E1|reflexivity].
Qed.

Lemma Forall2_refreshed_facts l l' : Forall2 refreshed l l' ->
  (Forall good l -> Forall good l') /\ map (fun j => (jid j, jmeta j)) l' = map (fun j => (jid j, jmeta j)) l.
Proof.
  induction 1 as [|j j' r r' Hr _ [IH1 IH2]]; [split; [auto|reflexivity]|]. split.
  - intros Hg. inversion Hg; subst. constructor; [eapply refreshed_good; eassumption|auto].
  - simpl. rewrite IH2. destruct Hr as (s & e & -> & _). reflexivity.
Qed.

(* 65ec16e2: get_results leaves the file exact whenever its refresh pass returned; memory may have been refreshed *)
Lemma get_results_inv m m' o : WInv m -> get_results cur m = (m', o) ->
  WInv m' /\ (Exact m -> Exact m').
Proof.
  intros HW H. unfold get_results in H. destruct (update_statuses m) as [m1 o1] eqn:Eu.
  destruct (update_statuses_weak _ _ _ HW Eu) as (HW1 & _).
  assert (HE1 : Exact m -> Exact m1).
  { intros HS. destruct HW as (Hg & _). destruct (update_statuses_inv _ _ _ Hg HS Eu) as (_ & B & _). exact B. }
  destruct o1.
  2:{ inversion H; subst. split; [exact HW1|exact HE1]. }
  destruct (results_loop [] (mem m1) (scr m1) (rlog m1) false) as [[[[l sc] lg] dy] o2] eqn:El.
  cbn [results_write cur] in H. destruct (results_loop_spec _ _ _ _ _ _ _ _ _ _ El) as (p' & -> & HF & _).
  destruct (Forall2_refreshed_facts _ _ HF) as [Hgood _]. destruct HW1 as (Hg1 & _).
  destruct (write_if_changed_exact (mkm p' (disk m1) sc lg dy) o2 m' o (Hgood Hg1) H) as (Em & _ & _ & HX & _).
  assert (Hg' : Forall good (mem m')) by (rewrite Em; exact (Hgood Hg1)).
  split; [apply Exact_WInv; assumption|intros _; exact HX].
Qed.

Lemma track_loop_inv : forall fuel m m' o, track_loop fuel m = (m', o) ->
  (WInv m -> WInv m') /\ (Forall good (mem m) -> Exact m -> Exact m') /\ udirty m' = udirty m.
Proof.
  induction fuel as [|f IH]; intros m m' o H; simpl in H.
  - inversion H; subst. split; [auto|split; [auto|reflexivity]].
  - destruct (update_statuses m) as [m1 o1] eqn:Eu.
    assert (HA : (WInv m -> WInv m1) /\ (Forall good (mem m) -> Exact m -> Forall good (mem m1) /\ Exact m1) /\ udirty m1 = udirty m).
    { split; [intros HW; apply (update_statuses_weak _ _ _ HW Eu)|]. split.
      - intros Hg HS. destruct (update_statuses_inv _ _ _ Hg HS Eu) as (A & B & _). split; assumption.
      - unfold update_statuses in Eu. destruct (upd_loop _ _ _ _ _) as [[[[l d] sc] lg] o']. inversion Eu; reflexivity. }
    destruct HA as (A1 & A2 & A3).
    destruct o1; [destruct (counts_running (mem m1))|];
      try (inversion H; subst; split; [exact A1|split; [intros Hg HS; apply (A2 Hg HS)|exact A3]]).
    destruct (IH _ _ _ H) as (B1 & B2 & B3). split; [auto|split; [|congruence]].
    intros Hg HS. destruct (A2 Hg HS) as [C1 C2]. auto.
Qed.

Lemma track_inv m m' o : track m = (m', o) ->
  (WInv m -> WInv m') /\ (Forall good (mem m) -> Exact m -> Exact m') /\ udirty m' = udirty m.
Proof.
  unfold track. destruct (never_sent_waiting (mem m)); [intros H; inversion H; subst; split; [auto|split; [auto|reflexivity]]|].
  destruct (update_statuses m) as [m0 o0] eqn:Eu. intros H.
  assert (HA : (WInv m -> WInv m0) /\ (Forall good (mem m) -> Exact m -> Forall good (mem m0) /\ Exact m0) /\ udirty m0 = udirty m).
  { split; [intros HW; apply (update_statuses_weak _ _ _ HW Eu)|]. split.
    - intros Hg HS. destruct (update_statuses_inv _ _ _ Hg HS Eu) as (A & B & _). split; assumption.
    - unfold update_statuses in Eu. destruct (upd_loop _ _ _ _ _) as [[[[l d] sc] lg] o']. inversion Eu; reflexivity. }
  destruct HA as (A1 & A2 & A3).
  destruct o0; [|inversion H; subst; split; [exact A1|split; [intros Hg HS; apply (A2 Hg HS)|exact A3]]].
  destruct (track_loop_inv _ _ _ _ H) as (B1 & B2 & B3). split; [auto|split; [|congruence]].
  intros Hg HS. destruct (A2 Hg HS) as [C1 C2]. auto.
Qed.

Lemma handle_params_keeps j kms kbad j' : handle_params j kms kbad = Some j' -> jid j' = jid j /\ jst j' = jst j.
Proof.
  unfold handle_params.
  destruct (match jdcmd j, kms with Some None, Some v => (Some (Some v), None) | d, k => (d, k) end) as [dc k1].
  destruct (match jdmap j, k1 with Some (None, sh), Some v => (Some (Some v, sh), None) | d, k => (d, k) end) as [dm k2].
  destruct k2; [discriminate|]. destruct kbad; [discriminate|]. intros H; inversion H; subst; simpl. split; reflexivity.
Qed.

(* JobGroup.add in the current code: the payload is prepared and validated BEFORE the append, so a job that cannot
   be serialised never enters the group: either nothing changes, or a good job is appended and written *)
Lemma add_job_cases m j kms kbad m' o : jwf j -> add_job cur m j kms kbad = (m', o) ->
  (m' = m /\ o <> Returned) \/
  (exists j', good j' /\ jid j' = jid j /\ mem m' = mem m ++ [j'] /\
              ((save (mem m') = Some (disk m') /\ udirty m' = false /\ o = Returned) \/
               (save (mem m') = None /\ disk m' = disk m /\ udirty m' = udirty m))).
Proof.
  intros Hw H. unfold add_job in H.
  destruct (match jid j with Some i => zmem i (map jid (mem m)) | None => false end).
  { inversion H; subst. left. split; [reflexivity|discriminate]. }
  cbn [add_validates cur orb] in H.
  destruct (handle_params j kms kbad) as [j'|] eqn:Eh.
  2:{ inversion H; subst. left. split; [reflexivity|discriminate]. }
  destruct (eff_body j') as [b|] eqn:Eb.
  2:{ inversion H; subst. left. split; [reflexivity|discriminate]. }
  destruct (handle_params_keeps _ _ _ _ Eh) as (Hi & Hst).
  right. exists j'. split; [split; [exists b; exact Eb|unfold jwf; rewrite Hi, Hst; exact Hw]|]. split; [exact Hi|].
  destruct (save (mem m ++ [j'])) as [d|] eqn:Es; inversion H; subst; simpl.
  - split; [reflexivity|]. left. repeat split; assumption.
  - split; [reflexivity|]. right. repeat split; try reflexivity. exact Es.
Qed.

Lemma pre_exec_keeps j sc lg j' sc' lg' : pre_exec j sc lg = (j', sc', lg') -> jst j = WAITING -> jwf j'.
Proof.
  unfold pre_exec. intros H Hst. destruct (eff_body j) as [b|] eqn:Eb.
  - destruct (pop sc) as [a sc1]. destruct a; inversion H; subst; simpl; intros Hn; discriminate.
  - inversion H; subst; simpl. intros _; discriminate.
Qed.

(* ------------------------------------------------------------------ duplicates *)
Lemma zmem_In i l : zmem i l = true <-> In (Some i) l.
Proof.
  unfold zmem. rewrite existsb_exists. split.
  - intros [[y|] [H1 H2]]; [|discriminate]. apply Z.eqb_eq in H2. subst. exact H1.
  - intros H. exists (Some i). split; [exact H|apply Z.eqb_refl].
Qed.

(* T-core 5: a job already present by identifier cannot be added twice: add raises and changes nothing *)
Theorem no_duplicate_id : forall m j i kms kbad,
  jid j = Some i -> In (Some i) (map jid (mem m)) -> add_job cur m j kms kbad = (m, Raised E_DUP).
Proof.
  intros m j i kms kbad Hi Hin. unfold add_job. rewrite Hi. apply zmem_In in Hin. rewrite Hin. reflexivity.
Qed.


(* adding again a sent job of the group itself — whatever gave it its identifier — is refused *)
Lemma readd_refused m k j : nth_error (mem m) k = Some j -> sent j = true -> add_job cur m j None false = (m, Raised E_DUP).
Proof.
  intros Hn Hs. unfold sent in Hs. destruct (jid j) as [i|] eqn:Ei; [|discriminate].
  apply (no_duplicate_id m j i); [exact Ei|]. rewrite <- Ei. apply in_map. eapply nth_error_In; exact Hn.
Qed.

(* add in any reachable state: unchanged, or a good job appended and the whole group written *)
Lemma add_job_any j sc lg kms kbad m m' out : Forall good (mem m) -> jwf j ->
  add_job cur (mkm (mem m) (disk m) sc lg false) j kms kbad = (m', out) ->
  (mem m' = mem m /\ disk m' = disk m /\ udirty m' = false) \/ (Forall good (mem m') /\ Exact m' /\ udirty m' = false).
Proof.
  intros Hg Hw Ha. destruct (add_job_cases _ _ _ _ _ _ Hw Ha) as [[-> _]|(j' & Hj' & _ & Hm & Hcase)].
  - left. repeat split.
  - assert (Hg' : Forall good (mem m')).
    { rewrite Hm. simpl. rewrite Forall_app. split; [exact Hg|constructor; [exact Hj'|constructor]]. }
    destruct Hcase as [(Hs & Hd & _)|(Hs & _ & _)]; [right; repeat split; assumption|].
    destruct (save_good _ Hg') as [d Hd]. rewrite Hd in Hs. discriminate Hs.
Qed.

(* every operation, from every reachable state: jobs stay well-formed, identifiers and metadata on disk are those of
   memory, and the file is the image of well-formed jobs (so that a re-open restores an exact state) *)
Theorem step_weak m o m' out : WInv m -> step cur m o = (m', out) -> WInv m'.
Proof.
  intros HW H. pose proof HW as (Hg & Hk & HD). unfold step in H.
  set (m1 := mkm (mem m) (disk m) (scr m) (rlog m) false) in *.
  assert (HW1 : WInv m1) by exact HW.
  destruct o as [|s pre kms kbad|seq|seq repl| |k| |].
  - inversion H; subst. destruct HD as (l0 & Hg0 & Hs0). destruct (roundtrip_list _ _ Hg0 Hs0) as [H1 H2].
    apply Exact_WInv; assumption.
  - simpl in H.
    assert (Hadd : forall j sc lg, jwf j -> add_job cur (mkm (mem m) (disk m) sc lg false) j kms kbad = (m', out) -> WInv m').
    { intros j sc lg Hw Ha. destruct (add_job_any _ _ _ _ _ _ _ _ Hg Hw Ha) as [(E1 & E2 & _)|(A & B & _)].
      - unfold WInv, skeleton. rewrite E1, E2. exact HW.
      - apply Exact_WInv; assumption. }
    destruct pre.
    + destruct (pre_exec (job_of_spec s) (scr m) (rlog m)) as [[j sc] lg] eqn:Ep.
      eapply Hadd; [|exact H]. eapply pre_exec_keeps; [exact Ep|reflexivity].
    + eapply Hadd; [|exact H]. intros _; discriminate.
  - eapply launch_weak; [exact HW1|exact H].
  - eapply launch_weak; [exact HW1|exact H].
  - apply (update_statuses_weak _ _ _ HW1 H).
  - cbn [mem m1] in H.
    destruct (nth_error (mem m) k) as [j|] eqn:En; [|inversion H; subst; exact HW1].
    destruct (sent j) eqn:Es; [|inversion H; subst; exact HW1].
    rewrite (readd_refused m1 k j En Es) in H. inversion H; subst. exact HW1.
  - apply (get_results_inv _ _ _ HW1 H).
  - apply (track_inv _ _ _ H). exact HW1.
Qed.

(* the main step lemma, for EVERY operation, EVERY job and EVERY server script: from an exact file, the operation —
   whether it returns or raises — leaves the file the exact image of memory *)
Theorem step_exact m o m' out :
  Forall good (mem m) -> Exact m -> step cur m o = (m', out) -> Forall good (mem m') /\ Exact m'.
Proof.
  intros Hg HS H. pose proof (Exact_WInv _ Hg HS) as HW.
  destruct (step_weak _ _ _ _ HW H) as (Hg' & _). split; [exact Hg'|].
  unfold step in H. set (m1 := mkm (mem m) (disk m) (scr m) (rlog m) false) in *.
  assert (HS1 : Exact m1) by exact HS.
  destruct o as [|s pre kms kbad|seq|seq repl| |k| |].
  - inversion H; subst. destruct (roundtrip_list _ _ Hg HS) as [H1 H2]. exact H1.
  - simpl in H.
    assert (Hadd : forall j sc lg, jwf j -> add_job cur (mkm (mem m) (disk m) sc lg false) j kms kbad = (m', out) -> Exact m').
    { intros j sc lg Hw Ha. destruct (add_job_any _ _ _ _ _ _ _ _ Hg Hw Ha) as [(E1 & E2 & _)|(A & B & _)]; [|exact B].
      unfold Exact. rewrite E1, E2. exact HS. }
    destruct pre.
    + destruct (pre_exec (job_of_spec s) (scr m) (rlog m)) as [[j sc] lg] eqn:Ep.
      eapply Hadd; [|exact H]. eapply pre_exec_keeps; [exact Ep|reflexivity].
    + eapply Hadd; [|exact H]. intros _; discriminate.
  - destruct (launch_exact _ _ _ m1 _ _ Hg HS1 H) as [(_ & B & _)|(_ & B & _)]; exact B.
  - destruct (launch_exact _ _ _ m1 _ _ Hg HS1 H) as [(_ & B & _)|(_ & B & _)]; exact B.
  - destruct (update_statuses_inv m1 _ _ Hg HS1 H) as (_ & B & _). exact B.
  - cbn [mem m1] in H.
    destruct (nth_error (mem m) k) as [j|] eqn:En; [|inversion H; subst; exact HS1].
    destruct (sent j) eqn:Es; [|inversion H; subst; exact HS1].
    rewrite (readd_refused m1 k j En Es) in H. inversion H; subst. exact HS1.
  - apply (get_results_inv m1 _ _ HW H). exact HS1.
  - apply (track_inv _ _ _ H); assumption.
Qed.

(* ------------------------------------------------------------------ histories *)
Lemma init_good sc : Forall good (mem (init sc)) /\ Exact (init sc).
Proof. split; [constructor|reflexivity]. Qed.

Lemma run_weak : forall ops m, WInv m -> WInv (run cur m ops).
Proof.
  induction ops as [|o r IH]; intros m HW; simpl; [exact HW|].
  destruct (step cur m o) as [m' out] eqn:E. simpl. apply IH. eapply step_weak; eassumption.
Qed.

Lemma run_exact : forall ops m, Forall good (mem m) -> Exact m ->
  Forall good (mem (run cur m ops)) /\ Exact (run cur m ops).
Proof.
  induction ops as [|o r IH]; intros m Hg HS; simpl; [split; assumption|].
  destruct (step cur m o) as [m' out] eqn:E. simpl in *.
  destruct (step_exact m o m' out Hg HS E) as [A B]. apply IH; auto.
Qed.

(* T-core 1, in FULL: after every operation of every history (every public entry point of JobGroup, get_results and
   track_progress included), for every server script and whether the operations return or raise, the file is exactly
   the image of memory and re-opening the group by name yields the same observable job list (identifiers, status of
   sent jobs, metadata, request body unless successful) *)
Theorem disk_matches_memory : forall sc ops,
  Exact (run cur (init sc) ops) /\ reload_equiv (run cur (init sc) ops).
Proof.
  intros sc ops. destruct (init_good sc) as [Hg HS]. destruct (run_exact ops (init sc) Hg HS) as [A B].
  split; [exact B|apply Exact_reload_equiv; assumption].
Qed.

(* T-core 2: identifiers (and platform metadata) on disk are those of memory after every operation of EVERY history,
   returning or raising: a job accepted before a refusal keeps its identifier on disk; and a re-open always restores
   an exact state *)
Theorem accepted_ids_survive : forall sc ops,
  skeleton (run cur (init sc) ops) /\ Exact (fst (step cur (run cur (init sc) ops) OReopen)).
Proof.
  intros sc ops. destruct (init_good sc) as [Hg HS].
  destruct (run_weak ops (init sc) (Exact_WInv _ Hg HS)) as (A & B & (l0 & C1 & C2)).
  split; [exact B|]. unfold step, Exact; simpl. destruct (roundtrip_list _ _ C1 C2) as [H _]. exact H.
Qed.

(* T-core 3: what would be sent for a not-yet-successful job is the same from memory and from the re-opened group *)
Lemma reload_body j d : good j -> to_disk j = Some d -> success (jst j) = false -> eff_body (from_disk cur d) = eff_body j.
Proof.
  intros ([b Hb] & Hw) H Hs. unfold to_disk in H. rewrite Hs, Hb in H. inversion H; subst; clear H.
  pose proof (eff_body_shape j b Hb) as Hcl. rewrite from_disk_body.
  - rewrite eff_body_loaded by assumption. symmetry; exact Hb.
  - destruct (sent j); [|discriminate]. intros Hn; inversion Hn as [Hn']. rewrite Hn' in Hs. discriminate Hs.
Qed.

Lemma request_same_list : forall l d, Forall good l -> save l = Some d ->
  Forall2 (fun j j' => jid j' = jid j /\ (success (jst j) = false -> eff_body j' = eff_body j)) l (load cur d).
Proof.
  induction l as [|j r IH]; simpl; intros d Hg H.
  - inversion H; subst. constructor.
  - inversion Hg; subst. destruct (to_disk j) as [dj|] eqn:Ej; [|discriminate].
    destruct (save r) as [dr|] eqn:Er; [|discriminate]. inversion H; subst; clear H.
    change (load cur (dj :: dr)) with (from_disk cur dj :: load cur dr). constructor; [|apply IH; [assumption|reflexivity]].
    split.
    + unfold to_disk in Ej. destruct (success (jst j)); [inversion Ej; subst|destruct (eff_body j); inversion Ej; subst];
        unfold from_disk; simpl; repeat (match goal with |- context [match ?x with _ => _ end] => destruct x end); reflexivity.
    + intros Hs. eapply reload_body; eassumption.
Qed.

Theorem request_same_after_reopen : forall sc ops,
  let m := run cur (init sc) ops in
  Forall2 (fun j j' => jid j' = jid j /\ (success (jst j) = false -> eff_body j' = eff_body j)) (mem m) (load cur (disk m)).
Proof.
  intros sc ops m. destruct (init_good sc) as [Hg HS]. destruct (run_exact ops (init sc) Hg HS) as [A B].
  apply request_same_list; assumption.
Qed.

(* ------------------------------------------------------------------ progress() partitions the jobs *)
Lemma tuple4_eq {A B C D} (a a' : A) (b b' : B) (c c' : C) (d d' : D) :
  a = a' -> b = b' -> c = c' -> d = d' -> (a, b, c, d) = (a', b', c', d').
Proof. intros; subst; reflexivity. Qed.

Lemma progress_loop_counts : forall l u s o a,
  progress_loop l u s o a =
  (u + count cat_unsent l, s + count cat_success l, o + count cat_other l, a + count cat_active l)%nat.
Proof.
  induction l as [|j r IH]; intros u s o a; simpl.
  - rewrite !Nat.add_0_r. reflexivity.
  - unfold count in *. simpl.
    change (cat_unsent j) with (negb (sent j)).
    change (cat_success j) with (sent j && success (jst j)).
    change (cat_other j) with (sent j && negb (success (jst j)) && negb (waiting (jst j) || running (jst j))).
    change (cat_active j) with (sent j && negb (success (jst j)) && (waiting (jst j) || running (jst j))).
    destruct (sent j); simpl.
    + destruct (success (jst j)); simpl.
      * rewrite IH. apply tuple4_eq; simpl; lia.
      * destruct (waiting (jst j) || running (jst j)); simpl; rewrite IH; apply tuple4_eq; simpl; lia.
    + rewrite IH. apply tuple4_eq; simpl; lia.
Qed.

Lemma category_exactly_one j :
  ((if cat_unsent j then 1 else 0) + (if cat_success j then 1 else 0) + (if cat_other j then 1 else 0)
  + (if cat_active j then 1 else 0) = 1)%nat.
Proof.
  unfold cat_unsent, cat_success, cat_other, cat_active.
  destruct (sent j), (success (jst j)), (waiting (jst j) || running (jst j)); reflexivity.
Qed.

Theorem progress_partitions : forall l,
  progress l = (count cat_unsent l, count cat_success l, count cat_other l, count cat_active l) /\
  (count cat_unsent l + count cat_success l + count cat_other l + count cat_active l = length l)%nat.
Proof.
  intros l. split; [unfold progress; rewrite progress_loop_counts; reflexivity|].
  unfold count. induction l as [|j r IH]; simpl; [reflexivity|].
  pose proof (category_exactly_one j) as H.
  destruct (cat_unsent j), (cat_success j), (cat_other j), (cat_active j); simpl in *; try discriminate H; lia.
Qed.

(* the categories of the docstring *)
Theorem progress_categories j :
  (cat_success j = true <-> sent j = true /\ jst j = SUCCESS) /\
  (cat_other j = true <-> sent j = true /\ In (jst j) [ERROR; CANCELED; SUSPENDED; UNKNOWN]) /\
  (cat_active j = true <-> sent j = true /\ In (jst j) [WAITING; RUNNING; CANCEL_REQUESTED]) /\
  (cat_unsent j = true <-> jid j = None).
Proof.
  unfold cat_success, cat_other, cat_active, cat_unsent, sent.
  destruct (jid j); destruct (jst j); simpl; repeat split; intros; try discriminate; try reflexivity;
    try tauto; try (destruct H as [H1 H2]; try discriminate;
                    repeat (destruct H2 as [H2|H2]; try discriminate); try contradiction; fail);
    try (split; [reflexivity|tauto]).
Qed.

(* list_*_jobs are pairwise disjoint sub-lists *)
Theorem lists_disjoint j :
  (in_statuses [SUCCESS] j && in_statuses [RUNNING; WAITING] j = false) /\
  (in_statuses [SUCCESS] j && in_statuses [ERROR; CANCELED] j = false) /\
  (in_statuses [RUNNING; WAITING] j && in_statuses [ERROR; CANCELED] j = false) /\
  (negb (sent j) && (in_statuses [SUCCESS] j || in_statuses [RUNNING; WAITING] j || in_statuses [ERROR; CANCELED] j) = false).
Proof. unfold in_statuses. destruct (sent j), (jst j); repeat split; reflexivity. Qed.

(* and a job whose identifier is new is appended at the end, once *)
Theorem add_appends_once : forall m j kms kbad m',
  add_job cur m j kms kbad = (m', Returned) -> exists j', mem m' = mem m ++ [j'] /\ jid j' = jid j.
Proof.
  intros m j kms kbad m' H. unfold add_job in H.
  destruct (match jid j with Some i => zmem i (map jid (mem m)) | None => false end); [discriminate|].
  cbn [add_validates cur orb] in H.
  destruct (handle_params j kms kbad) as [j'|] eqn:Eh; [|discriminate].
  destruct (eff_body j'); [|discriminate].
  destruct (save (mem m ++ [j'])); inversion H; subst; simpl. exists j'. split; [reflexivity|].
  apply (handle_params_keeps _ _ _ _ Eh).
Qed.

(* T-core 5b (current code): an add that raises, for whatever reason (duplicate, unused keyword, payload that cannot
   be serialised), changes nothing, in memory or on disk *)
Theorem add_raises_changes_nothing : forall m j kms kbad m' e,
  Forall good (mem m) -> jwf j -> add_job cur m j kms kbad = (m', Raised e) -> m' = m.
Proof.
  intros m j kms kbad m' e Hg Hw H. destruct (add_job_cases _ _ _ _ _ _ Hw H) as [[-> _]|(j' & Hj' & _ & Hm & Hcase)].
  - reflexivity.
  - exfalso. destruct Hcase as [(_ & _ & Ho)|(Hs & _ & _)]; [discriminate Ho|].
    assert (Hg' : Forall good (mem m')) by (rewrite Hm, Forall_app; split; [exact Hg|constructor; [exact Hj'|constructor]]).
    destruct (save_good _ Hg') as [d Hd]. rewrite Hd in Hs. discriminate Hs.
Qed.

(* ------------------------------------------------------------------ no identifier twice *)
(* identifiers of the sent jobs, in order; identifiers the server will still hand out *)
Definition jids (j : job) : list Z := match jid j with Some i => [i] | None => [] end.
Definition sids (l : list job) : list Z := flat_map jids l.
Definition ans_ids (a : answer) : list Z := match a with AOk i _ => [i] | _ => [] end.
Definition scids (sc : script) : list Z := flat_map ans_ids sc.
Definition occ (i : Z) (l : list Z) : nat := count_occ Z.eq_dec l i.
(* how often identifier i occurs in the group plus how often the server may still issue it: never increases *)
Definition pot (i : Z) (l : list job) (sc : script) : nat := (occ i (sids l) + occ i (scids sc))%nat.

Lemma occ_app i a b : occ i (a ++ b) = (occ i a + occ i b)%nat.
Proof. apply count_occ_app. Qed.
Lemma sids_app a b : sids (a ++ b) = sids a ++ sids b.
Proof. apply flat_map_app. Qed.
Lemma sids_cons j l : sids (j :: l) = jids j ++ sids l.
Proof. reflexivity. Qed.

Lemma sids_jid l l' : map jid l = map jid l' -> sids l = sids l'.
Proof.
  revert l'. induction l as [|j r IH]; intros [|j' r'] H; simpl in H; try discriminate; [reflexivity|].
  inversion H. rewrite !sids_cons. unfold jids. rewrite H1. f_equal. apply IH. assumption.
Qed.

Definition oids (l : list (option Z)) : list Z := flat_map (fun o => match o with Some i => [i] | None => [] end) l.
Lemma sids_oids l : sids l = oids (map jid l).
Proof. induction l as [|j r IH]; [reflexivity|]. rewrite sids_cons, IH. reflexivity. Qed.
Lemma dids_oids dk : flat_map (fun d => match d_id d with Some i => [i] | None => [] end) dk = oids (map d_id dk).
Proof. induction dk as [|d r IH]; [reflexivity|]. simpl. rewrite IH. reflexivity. Qed.

Lemma pop_occ sc a sc' i : pop sc = (a, sc') -> occ i (scids sc) = (occ i (ans_ids a) + occ i (scids sc'))%nat.
Proof.
  destruct sc as [|a0 t]; simpl; intros H; inversion H; subst; [reflexivity|].
  unfold scids. simpl. apply occ_app.
Qed.

Lemma poll_occ j sc r sc' i : poll j sc = (r, sc') -> (occ i (scids sc') <= occ i (scids sc))%nat.
Proof.
  unfold poll. destruct (pop sc) as [a sc1] eqn:Ep. pose proof (pop_occ _ _ _ i Ep) as Ho.
  destruct a; [|destruct (Nat.eqb _ _)|]; intros H; inversion H; subst; lia.
Qed.

Lemma upd_loop_ids : forall post pre dk sc lg l' dk' sc' lg' o,
  upd_loop pre post dk sc lg = (l', dk', sc', lg', o) ->
  map jid l' = map jid (pre ++ post) /\ forall i, (occ i (scids sc') <= occ i (scids sc))%nat.
Proof.
  induction post as [|j post IH]; intros pre dk sc lg l' dk' sc' lg' o H; simpl in H.
  - inversion H; subst. rewrite app_nil_r. split; [reflexivity|intros; lia].
  - assert (Hrep : forall s e, map jid (pre ++ restat j s e :: post) = map jid (pre ++ j :: post))
      by (intros; rewrite !map_app; reflexivity).
    destruct (polls j).
    + destruct (poll j sc) as [r sc1] eqn:Epoll.
      destruct (poll_restat _ _ _ _ Epoll) as [[s [e ->]]|[e ->]].
      * assert (Hgo : forall d lgx, upd_loop (pre ++ [restat j s e]) post d sc1 lgx = (l', dk', sc', lg', o) ->
                       map jid l' = map jid (pre ++ j :: post) /\ forall i, (occ i (scids sc') <= occ i (scids sc))%nat).
        { intros d lgx Hd. destruct (IH _ _ _ _ _ _ _ _ _ Hd) as [A B]. rewrite app_cons_assoc in A. rewrite A, Hrep.
          split; [reflexivity|]. intros i. specialize (B i). pose proof (poll_occ _ _ _ _ i Epoll). lia. }
        destruct (changed j (restat j s e)).
        -- destruct (save (pre ++ restat j s e :: post)) as [d|].
           ++ eapply Hgo; exact H.
           ++ inversion H; subst. rewrite Hrep. split; [reflexivity|]. intros i. apply (poll_occ _ _ _ _ i Epoll).
        -- eapply Hgo; exact H.
      * inversion H; subst. rewrite Hrep. split; [reflexivity|]. intros i. apply (poll_occ _ _ _ _ i Epoll).
    + destruct (IH _ _ _ _ _ _ _ _ _ H) as [A B]. rewrite app_cons_assoc in A. split; assumption.
Qed.

Lemma wait_loop_occ : forall fuel j sc lg j' sc' lg' o i,
  wait_loop fuel j sc lg = (j', sc', lg', o) -> (occ i (scids sc') <= occ i (scids sc))%nat.
Proof.
  induction fuel as [|f IH]; intros j sc lg j' sc' lg' o i H; simpl in H.
  - inversion H; subst. lia.
  - destruct (polls j); [|inversion H; subst; lia].
    destruct (poll j sc) as [r sc1] eqn:Ep. pose proof (poll_occ _ _ _ _ i Ep).
    destruct r; [|inversion H; subst; assumption]. specialize (IH _ _ _ _ _ _ _ i H). lia.
Qed.

Definition lres_pot (post : list job) (r : lres) (i : Z) (bound : nat) : Prop :=
  match r with
  | LCont pre' app' _ sc' _ _ => (pot i (pre' ++ post ++ app') sc' <= bound)%nat
  | LStop m _ => (pot i (mem m) (scr m) <= bound)%nat
  end.

Lemma occ_nil i : occ i [] = 0%nat. Proof. reflexivity. Qed.
Ltac norm := unfold pot in *; repeat rewrite ?sids_app, ?sids_cons, ?occ_app in *;
  change (sids []) with (@nil Z) in *; repeat rewrite ?app_nil_r, ?occ_app, ?occ_nil in *.

Lemma jids_restat j s e : jids (restat j s e) = jids j. Proof. reflexivity. Qed.

Lemma launched_pot rerun seq repl pre post app dk dirty old x sc lg i :
  lres_pot post (launched rerun seq repl pre post app dk dirty old x sc lg) i
    ((if rerun && negb repl then occ i (jids old) else 0) + occ i (sids (pre ++ post ++ app)) + occ i (jids x)
     + occ i (scids sc))%nat.
Proof.
  unfold launched, place. destruct (rerun && negb repl).
  - destruct (save ((pre ++ [old]) ++ post ++ app ++ [x])); [|simpl; norm; simpl; lia].
    destruct seq; [|simpl; norm; simpl; lia].
    destruct (wait_loop (Datatypes.S (length sc)) x sc _) as [[[x' sc2] lg2] o] eqn:Ew.
    destruct (wait_loop_restat _ _ _ _ _ _ _ _ Ew) as [s [e ->]]. pose proof (wait_loop_occ _ _ _ _ _ _ _ _ i Ew).
    destruct o; [destruct (save _)|]; simpl; norm; rewrite ?jids_restat; simpl; lia.
  - destruct (save ((pre ++ [x]) ++ post ++ app)); [|simpl; norm; simpl; lia].
    destruct seq; [|simpl; norm; simpl; lia].
    destruct (wait_loop (Datatypes.S (length sc)) x sc _) as [[[x' sc2] lg2] o] eqn:Ew.
    destruct (wait_loop_restat _ _ _ _ _ _ _ _ Ew) as [s [e ->]]. pose proof (wait_loop_occ _ _ _ _ _ _ _ _ i Ew).
    destruct o; [destruct (save _)|]; simpl; norm; rewrite ?jids_restat; simpl; lia.
Qed.

Lemma rerun_after_status_pot seq repl pre j s e post app dk sc lg dirty i :
  lres_pot post (rerun_after_status cur seq repl pre j (restat j s e) post app dk sc lg dirty) i
           (pot i (pre ++ j :: post ++ app) sc).
Proof.
  unfold rerun_after_status, lstop. destruct (failed _); [|simpl; norm; rewrite ?jids_restat; simpl; lia].
  destruct (eff_body _) as [b|]; [|simpl; norm; rewrite ?jids_restat; simpl; lia].
  rewrite restat_jid. destruct (jid j) as [i0|] eqn:Ei; [|simpl; norm; rewrite ?jids_restat; simpl; lia].
  destruct (pop sc) as [a sc2] eqn:Ep. pose proof (pop_occ _ _ _ i Ep) as Ho.
  destruct a as [i' s'| |]; try (simpl; norm; rewrite ?jids_restat; simpl in *; lia).
  pose proof (launched_pot true seq repl pre post app dk (dirty || changed j (restat j s e)) (restat j s e)
                           (rerun_job cur (restat j s e) b i') sc2 (lg ++ [RRerun (Some i0)]) i) as Hl.
  destruct (launched true seq repl pre post app dk _ (restat j s e) (rerun_job cur (restat j s e) b i') sc2 _);
    simpl in *; norm; rewrite ?jids_restat in *; unfold rerun_job, from_disk, jids in *; simpl in *;
    destruct (negb repl); simpl in *; lia.
Qed.

Lemma launch_one_pot rerun seq repl pre j post app dk sc lg dirty i :
  lres_pot post (launch_one cur rerun seq repl pre j post app dk sc lg dirty) i (pot i (pre ++ j :: post ++ app) sc).
Proof.
  unfold launch_one, lstop. destruct rerun.
  - destruct (polls j).
    + destruct (poll j sc) as [r sc1] eqn:Epoll. pose proof (poll_occ _ _ _ _ i Epoll).
      destruct (poll_restat _ _ _ _ Epoll) as [[s [e ->]]|[e ->]].
      * pose proof (rerun_after_status_pot seq repl pre j s e post app dk sc1 (lg ++ [RStatus (jid j)]) dirty i) as Hr.
        destruct (rerun_after_status cur seq repl pre j (restat j s e) post app dk sc1 _ dirty); simpl in *; norm; lia.
      * simpl. norm. rewrite ?jids_restat. lia.
    + rewrite <- (restat_self j) at 2. apply rerun_after_status_pot.
  - destruct (sent j) eqn:Es; [simpl; norm; lia|].
    assert (Hj : jids j = []) by (unfold jids, sent in *; destruct (jid j); [discriminate|reflexivity]).
    destruct (negb (waiting (jst j))); [simpl; norm; lia|].
    destruct (eff_body j) as [b|]; [|simpl; norm; unfold jids in *; simpl; lia].
    destruct (pop sc) as [a sc1] eqn:Ep. pose proof (pop_occ _ _ _ i Ep) as Ho.
    destruct a as [i' s'| |]; try (simpl; norm; unfold jids in *; simpl in *; lia).
    pose proof (launched_pot false seq repl pre post app dk dirty j (set_st (set_id j i') WAITING) sc1 (lg ++ [RCreate b]) i) as Hl.
    destruct (launched false seq repl pre post app dk dirty j (set_st (set_id j i') WAITING) sc1 _);
      simpl in *; norm; unfold jids in *; simpl in *; rewrite ?Hj in *; simpl in *; lia.
Qed.

Lemma launch_loop_pot rerun seq repl i : forall post pre app dk sc lg dirty m o,
  launch_loop cur rerun seq repl pre post app dk sc lg dirty = (m, o) ->
  (pot i (mem m) (scr m) <= pot i (pre ++ post ++ app) sc)%nat.
Proof.
  induction post as [|j post IH]; intros pre app dk sc lg dirty m o H; simpl in H.
  - inversion H; subst; simpl. lia.
  - pose proof (launch_one_pot rerun seq repl pre j post app dk sc lg dirty i) as H1.
    destruct (launch_one cur rerun seq repl pre j post app dk sc lg dirty) as [pre' app' dk' sc' lg' d'|m' o'].
    + specialize (IH _ _ _ _ _ _ _ _ H). unfold lres_pot in H1. change ((j :: post) ++ app) with (j :: post ++ app). lia.
    + inversion H; subst. exact H1.
Qed.

Lemma update_statuses_pot m m' o i : update_statuses m = (m', o) -> (pot i (mem m') (scr m') <= pot i (mem m) (scr m))%nat.
Proof.
  unfold update_statuses. destruct (upd_loop [] (mem m) (disk m) (scr m) (rlog m)) as [[[[l d] sc] lg] o'] eqn:E.
  intros H; inversion H; subst; simpl. destruct (upd_loop_ids _ _ _ _ _ _ _ _ _ _ E) as [A B].
  unfold pot. rewrite (sids_jid _ _ A). simpl. specialize (B i). lia.
Qed.

Lemma add_job_pot m j kms kbad m' o i : add_job cur m j kms kbad = (m', o) ->
  (pot i (mem m') (scr m') <= pot i (mem m) (scr m) + occ i (jids j))%nat.
Proof.
  unfold add_job. destruct (match jid j with Some i0 => zmem i0 (map jid (mem m)) | None => false end);
    [intros H; inversion H; subst; lia|].
  cbn [add_validates cur orb]. destruct (handle_params j kms kbad) as [j'|] eqn:Eh; [|intros H; inversion H; subst; lia].
  destruct (eff_body j'); [|intros H; inversion H; subst; lia].
  destruct (handle_params_keeps _ _ _ _ Eh) as [Hi _].
  assert (Hj : jids j' = jids j) by (unfold jids; rewrite Hi; reflexivity).
  destruct (save (mem m ++ [j'])); intros H; inversion H; subst; simpl; norm; rewrite Hj; simpl; lia.
Qed.

Lemma results_loop_occ i : forall post pre sc lg dirty l' sc' lg' dy o,
  results_loop pre post sc lg dirty = (l', sc', lg', dy, o) -> (occ i (scids sc') <= occ i (scids sc))%nat.
Proof.
  induction post as [|j post IH]; intros pre sc lg dirty l' sc' lg' dy o H; simpl in H.
  - inversion H; subst. lia.
  - destruct (maybe_completed (jst j)); [|eapply IH; exact H].
    assert (Htail : forall j1 sc1 lg1 d1,
              (if maybe_completed (jst j1)
               then match jid j1 with
                    | None => (pre ++ j1 :: post, sc1, lg1 ++ [RResult None], d1, Raised E_HTTP)
                    | Some i0 => let (a, sc2) := pop sc1 in
                                match a with
                                | AOk _ _ => results_loop (pre ++ [j1]) post sc2 (lg1 ++ [RResult (Some i0)]) d1
                                | _ => (pre ++ j1 :: post, sc2, lg1 ++ [RResult (Some i0)], d1, Raised E_HTTP)
                                end
                    end
               else results_loop (pre ++ [j1]) post sc1 lg1 d1) = (l', sc', lg', dy, o) ->
              (occ i (scids sc') <= occ i (scids sc1))%nat).
    { intros j1 sc1 lg1 d1 Ht. destruct (maybe_completed (jst j1)); [|eapply IH; exact Ht].
      destruct (jid j1); [|inversion Ht; subst; lia].
      destruct (pop sc1) as [a sc2] eqn:Ep. pose proof (pop_occ _ _ _ i Ep) as Ho.
      destruct a; [specialize (IH _ _ _ _ _ _ _ _ _ Ht); lia| |]; inversion Ht; subst; lia. }
    destruct (polls j).
    + destruct (poll j sc) as [r sc1] eqn:Epoll. pose proof (poll_occ _ _ _ _ i Epoll).
      destruct r; [specialize (Htail _ _ _ _ H); lia|inversion H; subst; assumption].
    + apply (Htail _ _ _ _ H).
Qed.

Lemma write_if_changed_keeps r m' o' : write_if_changed r = (m', o') -> mem m' = mem (fst r) /\ scr m' = scr (fst r).
Proof.
  unfold write_if_changed. destruct r as [m o]. destruct (save (mem m)) as [d|]; [destruct (djobs_eq_dec d (disk m))|];
    intros H; inversion H; subst; split; reflexivity.
Qed.

Lemma get_results_pot m m' o i : get_results cur m = (m', o) -> (pot i (mem m') (scr m') <= pot i (mem m) (scr m))%nat.
Proof.
  unfold get_results. destruct (update_statuses m) as [m1 o1] eqn:Eu. pose proof (update_statuses_pot _ _ _ i Eu) as H1.
  destruct o1; [|intros H; inversion H; subst; exact H1].
  destruct (results_loop [] (mem m1) (scr m1) (rlog m1) false) as [[[[l sc] lg] dy] o2] eqn:El.
  cbn [results_write cur]. intros H. destruct (write_if_changed_keeps _ _ _ H) as [Em Es]. simpl in Em, Es. rewrite Em, Es.
  destruct (results_loop_spec _ _ _ _ _ _ _ _ _ _ El) as (p' & -> & HF & _).
  destruct (Forall2_refreshed_facts _ _ HF) as [_ Hsk]. pose proof (results_loop_occ i _ _ _ _ _ _ _ _ _ _ El) as H2.
  assert (E : map jid p' = map jid (mem m1)).
  { assert (E0 : map fst (map (fun j => (jid j, jmeta j)) p') = map fst (map (fun j => (jid j, jmeta j)) (mem m1))) by (rewrite Hsk; reflexivity).
    rewrite !map_map in E0. exact E0. }
  unfold pot in *. simpl. rewrite (sids_jid _ _ E). lia.
Qed.

Lemma track_loop_pot i : forall fuel m m' o, track_loop fuel m = (m', o) -> (pot i (mem m') (scr m') <= pot i (mem m) (scr m))%nat.
Proof.
  induction fuel as [|f IH]; intros m m' o H; simpl in H; [inversion H; subst; lia|].
  destruct (update_statuses m) as [m1 o1] eqn:Eu. pose proof (update_statuses_pot _ _ _ i Eu) as H1.
  destruct o1; [destruct (counts_running (mem m1))|]; try (inversion H; subst; exact H1).
  specialize (IH _ _ _ H). lia.
Qed.

Lemma track_pot m m' o i : track m = (m', o) -> (pot i (mem m') (scr m') <= pot i (mem m) (scr m))%nat.
Proof.
  unfold track. destruct (never_sent_waiting (mem m)); [intros H; inversion H; subst; lia|].
  destruct (update_statuses m) as [m0 o0] eqn:Eu. pose proof (update_statuses_pot _ _ _ i Eu) as H1.
  destruct o0; [|intros H; inversion H; subst; exact H1]. intros H. pose proof (track_loop_pot i _ _ _ _ H). lia.
Qed.

Lemma finish_keeps c r m' o' : finish c r = (m', o') -> mem m' = mem (fst r) /\ scr m' = scr (fst r).
Proof.
  unfold finish. destruct (write_on_exit c); [apply write_if_changed_keeps|intros ->; split; reflexivity].
Qed.

(* every operation: the occurrences of an identifier in the group plus the times the server may still issue it never increase *)
Theorem step_pot m o m' out i : skeleton m -> step cur m o = (m', out) ->
  (pot i (mem m') (scr m') <= pot i (mem m) (scr m))%nat.
Proof.
  intros Hk H. unfold step in H. destruct o as [|s pre kms kbad|seq|seq repl| |k| |].
  - inversion H; subst; simpl. unfold pot. rewrite (sids_jid (load cur (disk m)) (mem m)); [lia|].
    unfold skeleton in Hk. unfold load. rewrite map_map.
    assert (E : map fst (map (fun d => (d_id d, d_meta d)) (disk m)) = map fst (map (fun j => (jid j, jmeta j)) (mem m)))
      by (rewrite Hk; reflexivity).
    rewrite !map_map in E. simpl in E. transitivity (map d_id (disk m)); [|exact E]. apply map_ext. intros d.
    unfold from_disk. destruct (d_st d) as [[]|]; destruct (d_body d); reflexivity.
  - simpl in H. destruct pre.
    + destruct (pre_exec (job_of_spec s) (scr m) (rlog m)) as [[j sc] lg] eqn:Ep.
      apply (add_job_pot _ _ _ _ _ _ i) in H. simpl in H. unfold pre_exec in Ep.
      destruct (eff_body (job_of_spec s)).
      * destruct (pop (scr m)) as [a sc1] eqn:Epop. pose proof (pop_occ _ _ _ i Epop) as Ho.
        destruct a; inversion Ep; subst; unfold pot, jids in *; simpl in *; lia.
      * inversion Ep; subst. unfold pot, jids in *; simpl in *; lia.
    + apply (add_job_pot _ _ _ _ _ _ i) in H. unfold pot, jids in *; simpl in *; lia.
  - unfold launch in H. destruct (launch_loop _ _ _ _ _ _ _ _ _ _ _) as [m2 o2] eqn:El.
    destruct (finish_keeps _ _ _ _ H) as [E1 E2]. simpl in E1, E2. rewrite E1, E2.
    apply (launch_loop_pot _ _ _ i) in El. simpl in El. rewrite app_nil_r in El. exact El.
  - unfold launch in H. destruct (update_statuses _) as [m1 o1] eqn:Eu.
    apply (update_statuses_pot _ _ _ i) in Eu. simpl in Eu.
    destruct o1; [|inversion H; subst; exact Eu].
    destruct (launch_loop _ _ _ _ _ _ _ _ _ _ _) as [m2 o2] eqn:El.
    destruct (finish_keeps _ _ _ _ H) as [E1 E2]. simpl in E1, E2. rewrite E1, E2.
    apply (launch_loop_pot _ _ _ i) in El. simpl in El. rewrite app_nil_r in El. lia.
  - apply (update_statuses_pot _ _ _ i) in H. exact H.
  - cbn [mem] in H. destruct (nth_error (mem m) k) as [j|] eqn:En; [|inversion H; subst; simpl; lia].
    destruct (sent j) eqn:Es; [|inversion H; subst; simpl; lia].
    rewrite (readd_refused (mkm (mem m) (disk m) (scr m) (rlog m) false) k j En Es) in H. inversion H; subst; simpl; lia.
  - apply (get_results_pot _ _ _ i) in H. exact H.
  - apply (track_pot _ _ _ i) in H. exact H.
Qed.

Lemma run_pot : forall ops m i, WInv m ->
  (pot i (mem (run cur m ops)) (scr (run cur m ops)) <= pot i (mem m) (scr m))%nat.
Proof.
  induction ops as [|o r IH]; intros m i HW; simpl; [lia|].
  destruct (step cur m o) as [m' out] eqn:E. simpl.
  pose proof (step_weak m o m' out HW E) as HW'. destruct HW as (_ & Hk & _).
  pose proof (step_pot m o m' out i Hk E). specialize (IH m' i HW'). lia.
Qed.

(* T-core 5c: if the server never issues the same identifier twice, then after every operation of every history
   (returning or raising) no identifier appears twice in the group, in memory or on disk — whatever gave the job
   its identifier (sent before add, launched by the group, created by a re-run with or without replacement,
   reloaded) *)
Theorem no_identifier_twice : forall sc ops, NoDup (scids sc) ->
  let m := run cur (init sc) ops in
  NoDup (sids (mem m)) /\ NoDup (flat_map (fun d => match d_id d with Some i => [i] | None => [] end) (disk m)).
Proof.
  intros sc ops Hnd m.
  destruct (init_good sc) as [Hg HS].
  pose proof (proj1 (accepted_ids_survive sc ops)) as Hk. fold m in Hk.
  assert (Hmem : NoDup (sids (mem m))).
  { apply (NoDup_count_occ Z.eq_dec). intros i.
    pose proof (run_pot ops (init sc) i (Exact_WInv _ Hg HS)) as Hp. fold m in Hp.
    unfold pot in Hp. simpl in Hp. pose proof (proj1 (NoDup_count_occ Z.eq_dec (scids sc)) Hnd i) as Hs.
    unfold occ in *. lia. }
  split; [exact Hmem|].
  replace (flat_map (fun d => match d_id d with Some i => [i] | None => [] end) (disk m)) with (sids (mem m)); [exact Hmem|].
  unfold skeleton in Hk.
  assert (E : map fst (map (fun d => (d_id d, d_meta d)) (disk m)) = map fst (map (fun j => (jid j, jmeta j)) (mem m)))
    by (rewrite Hk; reflexivity).
  rewrite !map_map in E. simpl in E.
  rewrite sids_oids, dids_oids. f_equal. symmetry. exact E.
Qed.

(* ------------------------------------------------------------------ witnesses *)
Local Open Scope Z_scope.
Definition sp (n : Z) : spec := mkspec n (mkpay None None 1) None None None 0.
(* a job with a result-mapping context, as Sampler builds for sample_count on a 'samples' platform *)
Definition sp_ctx : spec := mkspec 1 (mkpay None (Some (Some 10)) 1) None None (Some 7) 0.
(* a job whose max_samples is to be filled by add(job, max_samples=...) *)
Definition sp_unfilled : spec := mkspec 1 (mkpay None (Some (Some 10)) 1) (Some None) None None 0.

Definition reload_equiv_old (m : mach) : Prop := map obs (load old (disk m)) = map obs (mem m).

(* HISTORICAL, about the code before bf317fcd / 13320b52 (configuration `old`); both are theorems of the current
   configuration now (disk_matches_memory_calm covers them), and the driver keeps the witnesses as regression guards. *)

(* (a) job_context was not restored by _from_dict: the re-opened job would send job_context = None *)
Theorem disk_matches_memory_refuted_context_old_code :
  exists ops sc, ~ reload_equiv_old (run old (init sc) ops).
Proof. exists [OAdd sp_ctx false None false], []. unfold reload_equiv_old. vm_compute. intros H. discriminate H. Qed.

(* (b) add(job) with max_samples left unfilled next to max_shots: TypeError after the append, nothing written *)
Theorem disk_matches_memory_refuted_unfilled_old_code :
  exists ops sc, snd (step old (init sc) (hd OReopen ops)) = Raised E_TYPE /\ ~ reload_equiv_old (run old (init sc) ops).
Proof.
  exists [OAdd sp_unfilled false None false], []. split; [reflexivity|].
  unfold reload_equiv_old. vm_compute. intros H. discriminate H.
Qed.

(* the request sent differed when the group was re-opened before the launch (job_context lost) *)
Theorem request_same_after_reopen_refuted_old_code :
  exists s sc, rlog (run old (init sc) [OAdd s false None false; ORun false]) <>
               rlog (run old (init sc) [OAdd s false None false; OReopen; ORun false]).
Proof. exists sp_ctx, [AOk 10 WAITING]. vm_compute. intros H. discriminate H. Qed.

(* the same three histories on the current code *)
Example repaired_witnesses :
  reload_equiv (run cur (init []) [OAdd sp_ctx false None false]) /\
  step cur (init []) (OAdd sp_unfilled false None false) = (init [], Raised E_TYPE) /\
  rlog (run cur (init [AOk 10 WAITING]) [OAdd sp_ctx false None false; ORun false]) =
  rlog (run cur (init [AOk 10 WAITING]) [OAdd sp_ctx false None false; OReopen; ORun false]).
Proof. unfold reload_equiv. vm_compute. repeat split. Qed.

(* HISTORICAL, about the code before 9afb11d4 (configuration `before_9afb11d4`: the other two repairs applied, no
   write on leaving the launch loop): the full statement was false *)
Definition reload_equiv_b (m : mach) : Prop := map obs (load before_9afb11d4 (disk m)) = map obs (mem m).

(* (c) rerun_failed_parallel RETURNED: `job.is_failed` refreshed a status (WAITING -> RUNNING) and no write followed *)
Theorem disk_matches_memory_refuted_rerun_loop_old_code :
  exists ops sc, snd (step before_9afb11d4 (run before_9afb11d4 (init sc) (removelast ops)) (last ops OReopen)) = Returned /\
                 ~ reload_equiv_b (run before_9afb11d4 (init sc) ops).
Proof.
  exists [OAdd (sp 1) true None false; ORerun false false], [AOk 10 WAITING; AOk 11 WAITING; AOk 12 RUNNING].
  split; [vm_compute; reflexivity|unfold reload_equiv_b; vm_compute; intros H; discriminate H].
Qed.

(* (d) run_sequential RAISED while polling after a status change (WAITING -> RUNNING, then HTTP 500) *)
Theorem disk_matches_memory_refuted_sequential_wait_old_code :
  exists ops sc, snd (step before_9afb11d4 (run before_9afb11d4 (init sc) (removelast ops)) (last ops OReopen)) = Raised E_HTTP /\
                 ~ reload_equiv_b (run before_9afb11d4 (init sc) ops).
Proof.
  exists [OAdd (sp 1) false None false; ORun true], [AOk 10 WAITING; AOk 11 RUNNING].
  split; [vm_compute; reflexivity|unfold reload_equiv_b; vm_compute; intros H; discriminate H].
Qed.

(* the same two histories on the current code: same outcome (returns / raises HTTPError), exact file, and exactly one
   more write than before the repair *)
Definition writes (m : mach) : nat := length (filter (fun r => match r with RWrite => true | _ => false end) (rlog m)).
Example repaired_launch_witnesses :
  let h1 := [OAdd (sp 1) true None false; ORerun false false] in
  let s1 := [AOk 10 WAITING; AOk 11 WAITING; AOk 12 RUNNING] in
  let h2 := [OAdd (sp 1) false None false; ORun true] in
  let s2 := [AOk 10 WAITING; AOk 11 RUNNING] in
  snd (step cur (run cur (init s1) (removelast h1)) (last h1 OReopen)) = Returned /\
  snd (step cur (run cur (init s2) (removelast h2)) (last h2 OReopen)) = Raised E_HTTP /\
  writes (run cur (init s1) h1) = Datatypes.S (writes (run before_9afb11d4 (init s1) h1)) /\
  writes (run cur (init s2) h2) = Datatypes.S (writes (run before_9afb11d4 (init s2) h2)).
Proof. vm_compute. repeat split. Qed.

(* a classic run (everything accepted, nothing refreshed in between) writes exactly as often as before the repair *)
Example classic_run_same_writes :
  let h := [OAdd (sp 1) false None false; OAdd (sp 2) false None false; ORun false; OProgress] in
  let s := [AOk 10 WAITING; AOk 11 WAITING; AOk 0 SUCCESS; AOk 0 SUCCESS] in
  writes (run cur (init s) h) = writes (run before_9afb11d4 (init s) h) /\ writes (run cur (init s) h) = 6%nat.
Proof. vm_compute. split; reflexivity. Qed.

(* HISTORICAL, about the code before 65ec16e2 (configuration `before_65ec16e2`): after its refresh pass,
   `job.get_results()` read `self.status` again for a job whose status is UNKNOWN (maybe_completed but not completed, so
   still refreshed from the server); the new status was not written *)
Definition reload_equiv_r (m : mach) : Prop := map obs (load before_65ec16e2 (disk m)) = map obs (mem m).
Theorem disk_matches_memory_refuted_get_results_old_code :
  exists ops sc, snd (step before_65ec16e2 (run before_65ec16e2 (init sc) (removelast ops)) (last ops OReopen)) = Returned /\
                 ~ reload_equiv_r (run before_65ec16e2 (init sc) ops).
Proof.
  exists [OAdd (sp 1) true None false; OGetResults], [AOk 10 WAITING; AOk 11 UNKNOWN; AOk 12 SUCCESS; AOk 0 WAITING].
  split; [vm_compute; reflexivity|unfold reload_equiv_r; vm_compute; intros H; discriminate H].
Qed.

(* the same history on the current code: same outcome, exact file, exactly one more write *)
Example repaired_get_results_witness :
  let h := [OAdd (sp 1) true None false; OGetResults] in
  let s := [AOk 10 WAITING; AOk 11 UNKNOWN; AOk 12 SUCCESS; AOk 0 WAITING] in
  snd (step cur (run cur (init s) (removelast h)) (last h OReopen)) = Returned /\
  writes (run cur (init s) h) = Datatypes.S (writes (run before_65ec16e2 (init s) h)).
Proof. vm_compute. split; reflexivity. Qed.

(* ------------------------------------------------------------------ several groups: the store indexed by name *)
Lemma sget_sset_eq {A} n (v : A) s : sget n (sset n v s) = Some v.
Proof.
  induction s as [|[k w] r IH]; simpl; [rewrite Z.eqb_refl; reflexivity|].
  destruct (Z.eqb k n) eqn:E; simpl; [rewrite Z.eqb_refl; reflexivity|rewrite E; exact IH].
Qed.
Lemma sget_sset_neq {A} n n' (v : A) s : n <> n' -> sget n' (sset n v s) = sget n' s.
Proof.
  intros Hne. induction s as [|[k w] r IH]; simpl.
  - destruct (Z.eqb n n') eqn:E; [apply Z.eqb_eq in E; contradiction|reflexivity].
  - destruct (Z.eqb k n) eqn:E; simpl.
    + apply Z.eqb_eq in E. subst k. destruct (Z.eqb n n') eqn:E2; [apply Z.eqb_eq in E2; contradiction|reflexivity].
    + destruct (Z.eqb k n'); [reflexivity|exact IH].
Qed.
Lemma sget_sdel_eq {A} n (s : list (Z * A)) : sget n (sdel n s) = None.
Proof.
  induction s as [|[k w] r IH]; simpl; [reflexivity|]. destruct (Z.eqb k n) eqn:E; simpl; [exact IH|rewrite E; exact IH].
Qed.
Lemma sget_sdel_neq {A} n n' (s : list (Z * A)) : n <> n' -> sget n' (sdel n s) = sget n' s.
Proof.
  intros Hne. induction s as [|[k w] r IH]; simpl; [reflexivity|]. destruct (Z.eqb k n) eqn:E; simpl.
  - apply Z.eqb_eq in E. subst k. destruct (Z.eqb n n') eqn:E2; [apply Z.eqb_eq in E2; contradiction|exact IH].
  - destruct (Z.eqb k n'); [reflexivity|exact IH].
Qed.

(* every live group object is exact with respect to the file of ITS name, and every file has its live object *)
Definition WExact (w : world) : Prop :=
  (forall n l, sget n (handles w) = Some l -> Forall good l /\ exists d, sget n (files w) = Some d /\ save l = Some d) /\
  (forall n d, sget n (files w) = Some d -> exists l, sget n (handles w) = Some l).

Theorem mstep_exact w o w' out : WExact w -> mstep cur w o = (w', out) -> WExact w'.
Proof.
  intros [HE HF] H. destruct o as [n|n o1|n| |all]; simpl in H.
  - destruct (sget n (files w)) as [d|] eqn:Ef; inversion H; subst; clear H; split; simpl.
    + intros n0 l Hl. destruct (Z.eq_dec n n0) as [->|Hne].
      * rewrite sget_sset_eq in Hl. inversion Hl; subst. destruct (HF _ _ Ef) as [l0 Hl0].
        destruct (HE _ _ Hl0) as (Hg & d0 & Hd0 & Hs). rewrite Ef in Hd0. inversion Hd0; subst.
        destruct (roundtrip_list _ _ Hg Hs) as [A B]. split; [exact B|]. exists d0. split; assumption.
      * rewrite sget_sset_neq in Hl by assumption. apply HE; assumption.
    + intros n0 d0 Hd0. destruct (Z.eq_dec n n0) as [->|Hne].
      * eexists. apply sget_sset_eq.
      * rewrite sget_sset_neq by assumption. eapply HF; eassumption.
    + intros n0 l Hl. destruct (Z.eq_dec n n0) as [->|Hne].
      * rewrite sget_sset_eq in Hl. inversion Hl; subst. split; [constructor|]. exists []. split; [apply sget_sset_eq|reflexivity].
      * rewrite sget_sset_neq in Hl by assumption. rewrite sget_sset_neq by assumption. apply HE; assumption.
    + intros n0 d0 Hd0. destruct (Z.eq_dec n n0) as [->|Hne].
      * eexists. apply sget_sset_eq.
      * rewrite sget_sset_neq in Hd0 by assumption. rewrite sget_sset_neq by assumption. eapply HF; eassumption.
  - destruct (sget n (handles w)) as [l|] eqn:El; [|inversion H; subst; split; assumption].
    destruct (sget n (files w)) as [d|] eqn:Ed; [|inversion H; subst; split; assumption].
    destruct (step cur (mkm l d (wscr w) (wlog w) false) o1) as [m' out'] eqn:Es. inversion H; subst; clear H.
    destruct (HE _ _ El) as (Hg & d0 & Hd0 & Hs). rewrite Ed in Hd0. inversion Hd0; subst.
    destruct (step_exact (mkm l d0 (wscr w) (wlog w) false) o1 m' out Hg Hs Es) as [Hg' HX].
    split; simpl.
    + intros n0 l0 Hl0. destruct (Z.eq_dec n n0) as [->|Hne].
      * rewrite sget_sset_eq in Hl0. inversion Hl0; subst. split; [exact Hg'|]. exists (disk m'). split; [apply sget_sset_eq|exact HX].
      * rewrite sget_sset_neq in Hl0 by assumption. rewrite sget_sset_neq by assumption. apply HE; assumption.
    + intros n0 d1 Hd1. destruct (Z.eq_dec n n0) as [->|Hne].
      * eexists. apply sget_sset_eq.
      * rewrite sget_sset_neq in Hd1 by assumption. rewrite sget_sset_neq by assumption. eapply HF; eassumption.
  - inversion H; subst; clear H. split; simpl.
    + intros n0 l Hl. destruct (Z.eq_dec n n0) as [->|Hne]; [rewrite sget_sdel_eq in Hl; discriminate|].
      rewrite sget_sdel_neq in Hl by assumption. rewrite sget_sdel_neq by assumption. apply HE; assumption.
    + intros n0 d Hd. destruct (Z.eq_dec n n0) as [->|Hne]; [rewrite sget_sdel_eq in Hd; discriminate|].
      rewrite sget_sdel_neq in Hd by assumption. rewrite sget_sdel_neq by assumption. eapply HF; eassumption.
  - inversion H; subst. split; simpl; intros; discriminate.
  - destruct all; inversion H; subst; [split; simpl; intros; discriminate|split; assumption].
Qed.

(* the name an operation is about *)
Definition mop_name (o : mop) : option Z :=
  match o with MOpen n | MOn n _ | MDelete n => Some n | _ => None end.

(* frame: an operation about the name n neither reads nor writes anything stored under another name *)
Theorem mstep_frame w o w' out n n' : mop_name o = Some n -> n <> n' -> mstep cur w o = (w', out) ->
  sget n' (files w') = sget n' (files w) /\ sget n' (handles w') = sget n' (handles w).
Proof.
  intros Hn Hne H. destruct o as [n0|n0 o1|n0| |all]; simpl in Hn; inversion Hn; subst; simpl in H.
  - destruct (sget n (files w)); inversion H; subst; simpl; rewrite ?sget_sset_neq by assumption; split; reflexivity.
  - destruct (sget n (handles w)); [|inversion H; subst; split; reflexivity].
    destruct (sget n (files w)); [|inversion H; subst; split; reflexivity].
    destruct (step cur _ o1) as [m' out']. inversion H; subst; simpl. rewrite !sget_sset_neq by assumption. split; reflexivity.
  - inversion H; subst; simpl. rewrite !sget_sdel_neq by assumption. split; reflexivity.
Qed.

(* re-opening by the same name returns what was written under that name *)
Theorem reopen_by_name w n l w' out : WExact w -> sget n (handles w) = Some l -> mstep cur w (MOpen n) = (w', out) ->
  files w' = files w /\ exists l', sget n (handles w') = Some l' /\ map obs l' = map obs l.
Proof.
  intros [HE HF] Hl H. destruct (HE _ _ Hl) as (Hg & d & Hd & Hs). simpl in H. rewrite Hd in H. inversion H; subst; simpl.
  split; [reflexivity|]. exists (load cur d). split; [apply sget_sset_eq|].
  destruct (roundtrip_list _ _ Hg Hs) as [A _]. apply save_some in A. apply save_some in Hs. unfold obs. rewrite A, Hs. reflexivity.
Qed.

(* T-core 1 for several groups: after every operation of every world history (opens, operations on any live group,
   deletions), every live group object is exact with respect to the file of its own name *)
Theorem world_disk_matches_memory : forall ops sc, WExact (mrun cur (winit sc) ops).
Proof.
  intros ops sc. assert (H0 : WExact (winit sc)) by (split; simpl; intros; discriminate).
  revert H0. generalize (winit sc). induction ops as [|o r IH]; intros w HW; simpl; [exact HW|].
  destruct (mstep cur w o) as [w' out] eqn:E. simpl in *.
  apply IH. eapply mstep_exact; eassumption.
Qed.
