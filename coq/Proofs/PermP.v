(* C11: two consecutive PERMs = the PERM of perm_compose (any ranges, any sizes). *)
From PV Require Import Model.Transform Model.Simplify Proofs.CircuitP Proofs.ComponentsP Proofs.TransformP Proofs.BubbleP.
From Coq Require Import Setoid Morphisms Permutation.
Local Open Scope nat_scope.

Definition eperm (a : nat) (p : list nat) (j : nat) : nat :=
  if inb a (length p) j then a + nth (j - a) p 0 else j.

Lemma extend_perm_length a p m : a + length p <= m -> length (extend_perm a p m) = m.
Proof. intros H. unfold extend_perm. rewrite !app_length, map_length, !seq_length. lia. Qed.

Lemma perm_fun_extend a p m j : a + length p <= m -> perm_fun (extend_perm a p m) j = eperm a p j.
Proof. intros H. unfold perm_fun, eperm, extend_perm.
  destruct (inb a (length p) j) eqn:E.
  - apply inb_true in E. rewrite app_nth2 by (rewrite seq_length; lia). rewrite seq_length.
    rewrite app_nth1 by (rewrite map_length; lia).
    rewrite (nth_indep _ j (0 + a)) by (rewrite map_length; lia).
    rewrite (map_nth (fun v => v + a)). lia.
  - apply inb_false in E. destruct (le_lt_dec a j) as [Hj | Hj].
    + destruct (le_lt_dec m j) as [Hm | Hm].
      * apply nth_overflow. rewrite !app_length, map_length, !seq_length. lia.
      * rewrite app_nth2 by (rewrite seq_length; lia). rewrite seq_length.
        rewrite app_nth2 by (rewrite map_length; lia). rewrite map_length.
        rewrite seq_nth by lia. lia.
    + rewrite app_nth1 by (rewrite seq_length; lia). rewrite seq_nth by lia. lia. Qed.

Lemma eperm_lt M a p j : is_perm p -> a + length p <= M -> j < M -> eperm a p j < M.
Proof. intros Hp H Hj. unfold eperm. destruct (inb a (length p) j) eqn:E; auto.
  apply inb_true in E. pose proof (is_perm_nth p (j - a) Hp). lia. Qed.
Lemma eperm_out a p j : ~ (a <= j < a + length p) -> eperm a p j = j.
Proof. intros H. unfold eperm. apply inb_false in H. rewrite H. reflexivity. Qed.

Section PermP.
Variable R : cring.
Add Ring Rring4 : (Kth R).
Notation mat := (mat R).

Lemma embed_perm_eperm M a p : is_perm p -> a + length p <= M ->
  meq M (embed a (length p) (perm_mat (R:=R) p)) (pmat (eperm a p)).
Proof. intros Hp H i j Hi Hj. unfold embed, perm_mat, pmat, perm_fun, eperm.
  destruct (inb a (length p) i) eqn:Ei; destruct (inb a (length p) j) eqn:Ej; simpl.
  - apply inb_true in Ei, Ej. rewrite (nth_indep p (j - a) 0) by lia.
    unfold delta. destruct (Nat.eqb_spec (i - a) (nth (j - a) p 0)); destruct (Nat.eqb_spec i (a + nth (j - a) p 0)); auto; lia.
  - reflexivity.
  - apply inb_false in Ei. apply inb_true in Ej. pose proof (is_perm_nth p (j - a) Hp).
    unfold delta. destruct (Nat.eqb_spec i j); destruct (Nat.eqb_spec i (a + nth (j - a) p 0)); auto; lia.
  - reflexivity. Qed.

(* perm_compose(left_r, left_perm, right_r, right_perm) on range(max_r) has the matrix of the two PERMs in sequence *)
Theorem perm_fuse M lo lp ro rp : is_perm lp -> is_perm rp ->
  Nat.max (lo + length lp) (ro + length rp) <= M ->
  meq M (mmul M (embed ro (length rp) (perm_mat rp)) (embed lo (length lp) (perm_mat lp)))
        (embed 0 (Nat.max (lo + length lp) (ro + length rp)) (perm_mat (R:=R) (perm_compose lo lp ro rp))).
Proof. intros Hl Hr HM. set (mx := Nat.max (lo + length lp) (ro + length rp)) in *.
  rewrite (embed_perm_eperm M ro rp Hr) by lia. rewrite (embed_perm_eperm M lo lp Hl) by lia.
  rewrite (pmat_compose R M (eperm lo lp) (eperm ro rp)).
  2:{ intros k Hk. apply eperm_lt; auto. lia. }
  intros i j Hi Hj. unfold embed, pmat, perm_mat, pmat.
  assert (Hlen : length (perm_compose lo lp ro rp) = mx).
  { unfold perm_compose. fold mx. rewrite map_length, seq_length. apply extend_perm_length. lia. }
  assert (Hin : forall x, inb 0 mx x = (x <? mx)).
  { intros x. unfold inb. simpl. reflexivity. }
  rewrite !Hin, !Nat.sub_0_r.
  destruct (Nat.ltb_spec j mx) as [Hjm | Hjm].
  - assert (Hf : perm_fun (perm_compose lo lp ro rp) j = eperm ro rp (eperm lo lp j)).
    { unfold perm_fun. rewrite (nth_indep _ j 0) by lia.
      unfold perm_compose. fold mx. rewrite (extend_perm_length ro rp mx) by lia.
      rewrite (nth_map_seq (fun i0 => nth (nth i0 (extend_perm lo lp mx) 0) (extend_perm ro rp mx) 0) mx j 0 Hjm).
      assert (E1 : nth j (extend_perm lo lp mx) 0 = eperm lo lp j).
      { rewrite <- (perm_fun_extend lo lp mx j) by lia. unfold perm_fun. apply nth_indep. rewrite extend_perm_length; lia. }
      rewrite E1.
      assert (Hlt : eperm lo lp j < mx) by (apply eperm_lt; auto; lia).
      rewrite <- (perm_fun_extend ro rp mx (eperm lo lp j)) by lia. unfold perm_fun. apply nth_indep.
      rewrite extend_perm_length; lia. }
    destruct (Nat.ltb_spec i mx) as [Him | Him]; simpl.
    + rewrite Hf. reflexivity.
    + assert (Hlt : eperm ro rp (eperm lo lp j) < mx).
      { apply eperm_lt; auto. lia. apply eperm_lt; auto. lia. }
      unfold delta. destruct (Nat.eqb_spec i j); destruct (Nat.eqb_spec i (eperm ro rp (eperm lo lp j))); auto; lia.
  - rewrite andb_false_r. rewrite (eperm_out lo lp j) by lia. rewrite (eperm_out ro rp j) by lia. reflexivity.
Qed.

(* ---------------------------------------------------------------- reduce_perm *)
Lemma first_moved_spec : forall l k,
  match first_moved k l with
  | Some i => k <= i < k + length l /\ (forall t, t < i - k -> nth t l 0 = k + t) /\ nth (i - k) l 0 <> i
  | None => forall t, t < length l -> nth t l 0 = k + t
  end.
Proof. induction l as [|x r IH]; intros k; simpl. intros t Ht; lia.
  destruct (Nat.eqb_spec x k) as [->|Hne].
  - specialize (IH (S k)). destruct (first_moved (S k) r) as [i|].
    + destruct IH as [A [B C]]. split. lia. split.
      * intros t Ht. destruct t as [|t]. lia. rewrite B by lia. lia.
      * replace (i - k) with (S (i - S k)) by lia. exact C.
    + intros t Ht. destruct t as [|t]. lia. rewrite IH by lia. lia.
  - split. lia. split. intros t Ht; lia. rewrite Nat.sub_diag. exact Hne. Qed.
Lemma last_moved_spec : forall l k,
  match last_moved k l with
  | Some j => k <= j < k + length l /\ nth (j - k) l 0 <> j /\ (forall t, j - k < t < length l -> nth t l 0 = k + t)
  | None => forall t, t < length l -> nth t l 0 = k + t
  end.
Proof. induction l as [|x r IH]; intros k; simpl. intros t Ht; lia.
  specialize (IH (S k)). destruct (last_moved (S k) r) as [j|].
  - destruct IH as [A [B C]]. split. lia. split.
    + replace (j - k) with (S (j - S k)) by lia. exact B.
    + intros t Ht. destruct t as [|t]. lia. rewrite C by lia. lia.
  - destruct (Nat.eqb_spec x k) as [->|Hne].
    + intros t Ht. destruct t as [|t]. lia. rewrite IH by lia. lia.
    + split. lia. split. rewrite Nat.sub_diag. exact Hne.
      intros t Ht. destruct t as [|t]. lia. rewrite IH by lia. lia. Qed.

Lemma nth_map_seq_from {A} (f : nat -> A) s n t d : t < n -> nth t (map f (seq s n)) d = f (s + t).
Proof. intros H. rewrite (nth_indep _ d (f 0)) by (rewrite map_length, seq_length; exact H).
  rewrite (map_nth f (seq s n) 0 t). rewrite seq_nth by exact H. reflexivity. Qed.

Lemma embed_pmat_id M a w (f : nat -> nat) : (forall j, f j = j) -> meq (R:=R) M (embed a w (pmat f)) mid.
Proof. intros Hf. rewrite <- (embed_id R M a w). apply embed_ext. intros i j _ _. unfold pmat, mid. rewrite Hf. reflexivity. Qed.

(* trimming the fixed points at both ends of a permutation preserves the matrix *)
Theorem perm_trim M a p : is_perm p -> a + length p <= M ->
  let '(o', p') := reduce_perm a p in
  meq M (embed a (length p) (perm_mat (R:=R) p)) (embed o' (length p') (perm_mat p')).
Proof. intros Hp HM. unfold reduce_perm.
  pose proof (first_moved_spec p 0) as HF. pose proof (last_moved_spec p 0) as HL.
  destruct (first_moved 0 p) as [i|]; destruct (last_moved 0 p) as [j|].
  - (* the permutation moves something: i <= j and [i, j] is stable *)
    destruct HF as [Fi [Fb Fne]]. destruct HL as [Lj [Lne La]]. rewrite Nat.sub_0_r in *. simpl in Fb, La, Fi, Lj.
    assert (Hij : i <= j).
    { destruct (le_lt_dec i j); auto. exfalso. apply Lne. rewrite Fb by lia. reflexivity. }
    pose proof (is_perm_nodup p Hp) as Hnd.
    assert (Hclosed : forall t, i <= t <= j -> i <= nth t p 0 <= j).
    { intros t Ht. pose proof (is_perm_nth p t Hp ltac:(lia)) as Hlt.
      destruct (le_lt_dec i (nth t p 0)) as [H1|H1]; [destruct (le_lt_dec (nth t p 0) j) as [H2|H2]|]; try lia; exfalso.
      - assert (E : nth (nth t p 0) p 0 = nth t p 0) by (rewrite La by lia; lia).
        apply (proj1 (NoDup_nth p 0) Hnd) in E; lia.
      - assert (E : nth (nth t p 0) p 0 = nth t p 0) by (rewrite Fb by lia; lia).
        apply (proj1 (NoDup_nth p 0) Hnd) in E; lia. }
    rewrite map_length, seq_length.
    rewrite (embed_perm_eperm M a p Hp HM).
    intros x y Hx Hy. unfold pmat, embed, perm_mat, pmat, perm_fun, eperm.
    set (w := j + 1 - i).
    destruct (inb a (length p) y) eqn:Ey.
    + apply inb_true in Ey.
      destruct (le_lt_dec i (y - a)) as [H1|H1]; [destruct (le_lt_dec (y - a) j) as [H2|H2]|].
      * (* y inside the kept window *)
        pose proof (Hclosed (y - a) ltac:(lia)) as Hc.
        replace (inb (a + i) w y) with true by (symmetry; apply inb_true; unfold w; lia).
        rewrite andb_true_r.
        destruct (inb (a + i) w x) eqn:Ex.
        -- apply inb_true in Ex. unfold w in Ex.
           rewrite (nth_map_seq_from (fun k => nth k p 0 - i) i w (y - (a + i))) by (unfold w; lia).
           replace (i + (y - (a + i))) with (y - a) by lia.
           unfold delta. destruct (Nat.eqb_spec x (a + nth (y - a) p 0)); destruct (Nat.eqb_spec (x - (a + i)) (nth (y - a) p 0 - i)); auto; lia.
        -- apply inb_false in Ex. unfold w in Ex.
           unfold delta. destruct (Nat.eqb_spec x (a + nth (y - a) p 0)); destruct (Nat.eqb_spec x y); auto; lia.
      * replace (inb (a + i) w y) with false by (symmetry; apply inb_false; unfold w; lia).
        rewrite andb_false_r. rewrite La by lia. replace (a + (y - a)) with y by lia. reflexivity.
      * replace (inb (a + i) w y) with false by (symmetry; apply inb_false; unfold w; lia).
        rewrite andb_false_r. rewrite Fb by lia. replace (a + (y - a)) with y by lia. reflexivity.
    + apply inb_false in Ey.
      replace (inb (a + i) w y) with false by (symmetry; apply inb_false; unfold w; lia).
      rewrite andb_false_r. reflexivity.
  - exfalso. destruct HF as [Fi [_ Fne]]. apply Fne. rewrite Nat.sub_0_r. apply HL. simpl in Fi. lia.
  - exfalso. destruct HL as [Lj [Lne _]]. apply Lne. rewrite Nat.sub_0_r. apply HF. simpl in Lj. lia.
  - (* identity: nothing or a single fixed mode is kept *)
    assert (Hid : forall j, perm_fun p j = j).
    { intros j. unfold perm_fun. destruct (le_lt_dec (length p) j). apply nth_overflow; lia.
      rewrite (nth_indep p j 0) by lia. apply HF. lia. }
    rewrite (embed_pmat_id M a (length p) (perm_fun p) Hid). symmetry. apply embed_pmat_id.
    intros j. unfold perm_fun. set (q := map _ _).
    destruct (le_lt_dec (length q) j). apply nth_overflow; lia.
    unfold q in *. rewrite map_length, seq_length in l.
    assert (j = 0) by lia. subst j. rewrite (nth_map_seq_from (fun k => nth k p 0 - (length p - 1)) (length p - 1) _ 0) by lia.
    rewrite Nat.add_0_r. destruct (le_lt_dec (length p) (length p - 1)).
    + rewrite nth_overflow by lia. lia.
    + rewrite HF by lia. lia.
Qed.
End PermP.
