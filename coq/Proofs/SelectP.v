From PV Require Import Model.Select.
Open Scope Qc_scope.

(* ---- the conditioned result is a normalised distribution; performances multiply to the kept mass ---- *)
Theorem condition_normalised d h p F keep :
  mass (dfilter (passes h p) (dfilter (fun t => (F <=? total t)%nat) d)) <> 0 ->
  mass (c_results (condition d h p F keep)) = 1.
Proof. intros H. unfold condition. simpl. apply mass_normalize. rewrite mass_dmerge.
  destruct keep; [exact H | rewrite mass_dmap; exact H]. Qed.

Theorem perf_product d h p F keep :
  mass (dfilter (fun t => (F <=? total t)%nat) d) <> 0 ->
  c_phys (condition d h p F keep) * c_logical (condition d h p F keep)
  = mass (dfilter (passes h p) (dfilter (fun t => (F <=? total t)%nat) d)).
Proof. intros H. unfold condition. simpl.
  destruct (Qc_eq_dec (mass (dfilter (fun t => (F <=? total t)%nat) d)) 0); [contradiction|].
  field. exact H. Qed.

(* physical performance + rejected mass = total mass: phys is the probability of passing the filter *)
Theorem phys_is_filter_probability d h p F keep :
  mass d = c_phys (condition d h p F keep) + mass (dfilter (fun t => negb (F <=? total t)%nat) d).
Proof. unfold condition. simpl. apply mass_dfilter_split. Qed.

(* every reported state satisfied heralds and post-selection and passed the filter *)
Theorem kept_states_pass d h p F T :
  pr (dfilter (passes h p) (dfilter (fun t => (F <=? total t)%nat) d)) T =
  if passes h p T && (F <=? total T)%nat then pr d T else 0.
Proof. rewrite !pr_dfilter. destruct (passes h p T); simpl; auto. Qed.

(* heralded modes are removed from the reported states *)
Theorem heralds_removed h : forall t i,
  length (remove_modes_from i h t) = length (filter (fun j => negb (is_herald h j)) (seq i (length t))).
Proof. induction t as [|x t IH]; intros i; simpl. reflexivity.
  destruct (is_herald h i); simpl; rewrite IH; reflexivity. Qed.

(* ---- the photon budget of the herald mask never removes a contribution to a heralded outcome ---- *)
Fixpoint mask_exact (mk : mask) (T : state) : bool :=
  match mk, T with
  | Some d :: r, x :: T' => (x =? d)%nat && mask_exact r T'
  | None :: r, _ :: T' => mask_exact r T'
  | _, _ => true
  end.

Lemma fixed_ok_of_exact mk : forall g r, length g = length mk -> length r = length mk ->
  mask_exact mk (state_add g r) = true -> mask_fixed_ok mk g = true.
Proof. induction mk as [|o mk IH]; intros [|x g] [|y r] Hg Hr H; simpl in *; try discriminate; auto.
  destruct o as [d|].
  - apply andb_prop in H as [H1 H2]. apply Nat.eqb_eq in H1. apply andb_true_intro. split.
    apply Nat.leb_le. lia. apply (IH g r); auto.
  - apply (IH g r); auto. Qed.
Lemma total_cons x t : total (x :: t) = (x + total t)%nat. Proof. reflexivity. Qed.
Lemma total_split mk : forall T, length T = length mk -> mask_exact mk T = true ->
  total T = (mask_fixed_total mk + mask_free_total mk T)%nat.
Proof. induction mk as [|o mk IH]; intros [|x T] HT H; try discriminate; auto.
  cbn [mask_exact mask_fixed_total mask_free_total length] in *. rewrite total_cons.
  destruct o as [d|].
  - apply andb_prop in H as [H1 H2]. apply Nat.eqb_eq in H1. rewrite (IH T); auto. lia.
  - rewrite (IH T); auto. lia. Qed.
Lemma free_le_add mk : forall g r, length g = length mk -> length r = length mk ->
  (mask_free_total mk g <= mask_free_total mk (state_add g r))%nat.
Proof. induction mk as [|o mk IH]; intros [|x g] [|y r] Hg Hr; simpl in *; try discriminate; auto.
  destruct o as [d|]; [apply IH; lia | specialize (IH g r); lia]. Qed.
Lemma free_le_total mk : forall g, length g = length mk -> (mask_free_total mk g <= total g)%nat.
Proof. induction mk as [|o mk IH]; intros [|x g] Hg; try discriminate; auto.
  cbn [mask_free_total length] in *. rewrite total_cons.
  destruct o as [d|]; specialize (IH g); lia. Qed.

(* g is one group's output, r the sum of the other groups' outputs, T = g + r the merged outcome.
   If T shows exactly the heralded values, g survives the mask instantiated with budget best_n. *)
Theorem mask_budget_sound mk g r n_ext : length g = length mk -> length r = length mk ->
  mask_exact mk (state_add g r) = true -> total (state_add g r) = n_ext ->
  mask_keep1 (best_n true (mask_fixed_total mk) n_ext (total g)) mk g = true.
Proof.
  intros Hg Hr Hex Htot.
  assert (HT : length (state_add g r) = length mk).
  { clear Hex Htot. revert g r Hg Hr. induction mk; intros [|x g] [|y r] Hg Hr; simpl in *; try discriminate; auto. }
  pose proof (total_split mk _ HT Hex) as Hs. pose proof (free_le_add mk g r Hg Hr) as Hc.
  pose proof (free_le_total mk g Hg) as Hd. pose proof (fixed_ok_of_exact mk g r Hg Hr Hex) as Ha.
  unfold mask_keep1, best_n. rewrite Ha. rewrite andb_true_r.
  apply andb_true_intro. split; apply Nat.leb_le; lia.
Qed.

(* Without a mask budget smaller than the group needs (n_ext >= n_own + heralds) nothing at all is pruned
   beyond the heralded values themselves *)
Theorem filter_counts_nonherald mk T f : length T = length mk -> mask_exact mk T = true ->
  ((f + mask_fixed_total mk <=? total T) = (f <=? mask_free_total mk T))%nat.
Proof. intros HT H. rewrite (total_split mk T HT H).
  destruct (f <=? mask_free_total mk T)%nat eqn:E.
  - apply Nat.leb_le in E. apply Nat.leb_le. lia.
  - apply Nat.leb_gt in E. apply Nat.leb_gt. lia. Qed.
