(* C05: coherence of the engine caches with the configuration, for all histories. *)
From PV Require Import Lib.QI Lib.Tab Model.CacheMachine Proofs.EnginesP.
Require Import QArith Qcanon.
Require Import Lia.

(* ---- boolean equalities ---- *)
Lemma onat_eqb_eq a b : onat_eqb a b = true -> a = b.
Proof. destruct a, b; simpl; intros H; try discriminate; auto. apply Nat.eqb_eq in H. congruence. Qed.
Lemma mask_eqb_eq : forall a b, mask_eqb a b = true -> a = b.
Proof. induction a as [|x a IH]; destruct b as [|y b]; simpl; intros H; try discriminate; auto.
  apply andb_prop in H as [H1 H2]. apply onat_eqb_eq in H1. f_equal; auto. Qed.
Lemma masks_eqb_eq : forall a b, masks_eqb a b = true -> a = b.
Proof. induction a as [|x a IH]; destruct b as [|y b]; simpl; intros H; try discriminate; auto.
  apply andb_prop in H as [H1 H2]. apply mask_eqb_eq in H1. f_equal; auto. Qed.
Lemma minst_eqb_eq a b : minst_eqb a b = true -> a = b.
Proof. destruct a as [[n1 k1]|], b as [[n2 k2]|]; simpl; intros H; try discriminate; auto.
  apply andb_prop in H as [H1 H2]. apply Nat.eqb_eq in H1. apply masks_eqb_eq in H2. congruence. Qed.

(* ---- enumeration: removing a photon from a state of level k+1 gives a state of level k ---- *)
Lemma in_down_from n a : In a (down_from n) <-> (a <= n)%nat.
Proof. induction n as [|n IH]; simpl. split; [intros [H|[]]; lia | intros; left; lia].
  rewrite IH. split; [intros [H|H]; lia | intros H; destruct (Nat.eq_dec a (S n)); [left; lia | right; lia]]. Qed.
Lemma allstates_S m n : allstates (S m) n = flat_map (fun a => map (cons a) (allstates m (n - a))) (down_from n).
Proof. reflexivity. Qed.
Lemma allstates_dec m : forall k u, In u (allstates m (S k)) ->
  exists j, (0 < nth j u 0)%nat /\ In (dec u j) (allstates m k).
Proof.
  induction m as [|m IH]; intros k u H. simpl in H. contradiction.
  rewrite allstates_S in H.
  apply in_flat_map in H as [a [Ha H]]. apply in_map_iff in H as [r [Hu Hr]]. subst u.
  apply in_down_from in Ha. destruct a as [|a].
  - rewrite Nat.sub_0_r in Hr. destruct (IH k r Hr) as [j [Hj Hd]]. exists (S j). split; [exact Hj|].
    rewrite allstates_S. apply in_flat_map. exists 0%nat. split. apply in_down_from; lia.
    rewrite Nat.sub_0_r. cbn [dec]. apply in_map. exact Hd.
  - exists 0%nat. split. simpl; lia. rewrite allstates_S. apply in_flat_map. exists a. split. apply in_down_from; lia.
    cbn [dec pred]. apply in_map. replace (k - a)%nat with (S k - S a)%nat by lia. exact Hr.
Qed.
Lemma allstates_zero_nonempty m : allstates m 0 <> [].
Proof. induction m as [|m IH]; simpl. discriminate. destruct (allstates m 0); [congruence | discriminate]. Qed.
Lemma fsarray_down m b k : fsarray m (S k) b <> [] -> fsarray m k b <> [].
Proof.
  destruct b as [[n mks]|]; simpl.
  - destruct (filter (mask_keep n mks) (allstates m (S k))) as [|u l] eqn:E; [congruence|]. intros _.
    assert (Hu : In u (filter (mask_keep n mks) (allstates m (S k)))) by (rewrite E; left; auto).
    apply filter_In in Hu as [Hu Hk]. destruct (allstates_dec m k u Hu) as [j [_ Hd]].
    intros C. assert (Hin : In (dec u j) (filter (mask_keep n mks) (allstates m k))).
    { apply filter_In. split; auto. apply mask_keep_dec. exact Hk. }
    rewrite C in Hin. contradiction.
  - destruct (allstates m (S k)) as [|u l] eqn:E; [congruence|]. intros _.
    destruct (allstates_dec m k u) as [j [_ Hd]]. rewrite E; left; auto. intros C. rewrite C in Hd. contradiction.
Qed.
Lemma crash_chain_cons (a : arr) r :
  crash_chain (a :: r) = (match a, r with [], (_ :: _) :: _ => true | _, _ => false end) || crash_chain r.
Proof. reflexivity. Qed.
Lemma crash_chain_ok m b : forall len s (a : arr), (fsarray m s b <> [] -> a <> []) ->
  crash_chain (a :: map (fun k => fsarray m k b) (seq s len)) = false.
Proof.
  induction len as [|len IH]; intros s a H.
  - simpl. destruct a; reflexivity.
  - cbn [seq map]. rewrite crash_chain_cons. rewrite (IH (S s) (fsarray m s b)) by apply fsarray_down.
    destruct a as [|x a]; [|reflexivity]. destruct (fsarray m s b); [reflexivity|]. exfalso. apply H; congruence.
Qed.
Lemma canon_lv_no_crash m b n : crash_lv (canon_lv m b n) = false.
Proof.
  assert (H : crash_chain (canon_lv m b n) = false).
  { unfold canon_lv. apply crash_chain_ok. intros _. simpl. apply allstates_zero_nonempty. }
  unfold crash_lv, canon_lv in *. pose proof (allstates_zero_nonempty m) as Hz. simpl fsarray in *.
  destruct (allstates m 0); [congruence|exact H].
Qed.

(* ---- lists ---- *)
Lemma firstn_seq_le k : forall s L, (k <= L)%nat -> firstn k (seq s L) = seq s k.
Proof. induction k as [|k IH]; intros s L H. reflexivity. destruct L as [|L]; [lia|]. simpl. f_equal. apply IH. lia. Qed.
Lemma canon_lv_length m b L : length (canon_lv m b L) = S L.
Proof. unfold canon_lv. simpl. rewrite map_length, seq_length. reflexivity. Qed.
Lemma firstn_canon m b k L : (k <= L)%nat -> firstn (S k) (canon_lv m b L) = canon_lv m b k.
Proof. intros H. unfold canon_lv. simpl. f_equal. rewrite firstn_map, firstn_seq_le by exact H. reflexivity. Qed.
Lemma canon_lv_extend m b L n : (L <= n)%nat ->
  canon_lv m b L ++ map (fun k => fsarray m k b) (seq (S L) (n - L)) = canon_lv m b n.
Proof. intros H. unfold canon_lv. simpl. f_equal. rewrite <- map_app. f_equal.
  replace n with (L + (n - L))%nat at 2 by lia. rewrite seq_app. reflexivity. Qed.

Lemma lookup_deploy_self m mi n fsas : lookup n (deploy_fsas m mi n fsas) <> None.
Proof. unfold deploy_fsas. destruct (lookup n fsas) eqn:E. congruence. simpl. rewrite Nat.eqb_refl. discriminate. Qed.
Lemma lookup_deploy_mono m mi n fsas k : lookup k fsas <> None -> lookup k (deploy_fsas m mi n fsas) <> None.
Proof. unfold deploy_fsas. destruct (lookup n fsas) eqn:E; auto. simpl. destruct (k =? n)%nat; auto. discriminate. Qed.
Lemma lookup_deploy_sound m mi n fsas : (forall k a, lookup k fsas = Some a -> a = fsarray m k mi) ->
  forall k a, lookup k (deploy_fsas m mi n fsas) = Some a -> a = fsarray m k mi.
Proof. intros H k a. unfold deploy_fsas. destruct (lookup n fsas) eqn:E; auto. simpl.
  destruct (k =? n)%nat eqn:Ek; auto. apply Nat.eqb_eq in Ek. subst. intros X. congruence. Qed.
Lemma state_eqb_refl s : state_eqb s s = true.
Proof. apply state_eqb_eq. reflexivity. Qed.

Definition lv_ok m b (lv : list arr) (L : nat) : Prop := (lv = [] /\ L = 0%nat) \/ lv = canon_lv m b L.
Lemma deploy_lv_ok m b n lv L fsas : lv_ok m b lv L ->
  exists L', lv_ok m b (deploy_lv true m b n lv fsas) L' /\ (L <= L')%nat /\ (n <= L')%nat.
Proof.
  intros [[-> ->]| ->]; unfold deploy_lv.
  - cbn [length pred]. destruct n as [|n]. exists 0%nat. cbn. split; [left; auto|lia].
    exists (S n). split; [right; reflexivity|lia].
  - rewrite canon_lv_length. cbn [pred]. destruct (n <=? L)%nat eqn:E.
    + apply Nat.leb_le in E. exists L. split; [right; reflexivity|lia].
    + apply Nat.leb_gt in E. exists n. split; [|lia]. right.
      change (match canon_lv m b L with [] => [if true then fsarray m 0 None else cur0 m fsas] | _ :: _ => canon_lv m b L end) with (canon_lv m b L).
      apply canon_lv_extend. lia.
Qed.
Lemma lv_ok_no_crash m b lv L n : lv_ok m b lv L -> (n <= L)%nat -> crash_lv (firstn (S n) lv) = false.
Proof. intros [[-> ->]| ->] H. reflexivity. rewrite firstn_canon by exact H. apply canon_lv_no_crash. Qed.
Lemma deploy_lv_fixC_eq m mi n lv fsas : (lv = [] -> fsas = []) ->
  deploy_lv false m mi n lv fsas = deploy_lv true m mi n lv fsas.
Proof. intros H. unfold deploy_lv. destruct lv; [rewrite (H eq_refl); reflexivity|reflexivity]. Qed.
Lemma deploy_lv_nonempty c m mi n lv fsas : (1 <= n)%nat -> deploy_lv c m mi n lv fsas <> [].
Proof. intros H. unfold deploy_lv. destruct lv as [|a lv]; cbn [length pred].
  - destruct n; [lia|]. cbn. discriminate.
  - destruct (n <=? length lv)%nat; discriminate. Qed.

(* =============================== SLOS: the repaired machine =============================== *)
Section SlosP.
Variable R : cring.

Definition CacheInv (s : sst R) : Prop :=
  match s_built s with
  | None => s_lv s = [] /\ s_fsas s = [] /\ s_paths s = [] /\ s_iter s = []
  | Some b => exists m U L, s_circ s = Some (m, U) /\ lv_ok m b (s_lv s) L /\
      (forall k a, lookup k (s_fsas s) = Some a -> a = fsarray m k b) /\
      (forall k a, lookup k (s_iter s) = Some a -> a = fsarray m k b) /\
      (forall st U', lookup_st st (s_paths s) = Some U' ->
         U' = U /\ (total st <= L)%nat /\ lookup (total st) (s_fsas s) <> None)
  end.
Definition CfgInv (s : sst R) : Prop :=
  s_dead s = false /\
  (s_masks s = None -> s_mask s = None) /\
  (forall mks, s_masks s = Some mks -> masks_wf mks = true) /\
  (forall m U, s_circ s = Some (m, U) -> (1 <= m)%nat) /\
  (forall st, s_in s = Some st -> exists m U, s_circ s = Some (m, U) /\ length st = m /\
       mask_len_ok m (s_masks s) = true /\
       s_mask s = inst_of (s_masks s) (s_mask_n s) (total st) /\
       s_built s = Some (s_mask s) /\ lookup_st st (s_paths s) <> None).
Definition Inv (s : sst R) : Prop := CfgInv s /\ CacheInv s.

Lemma preprocess_ok s m U st :
  CacheInv s -> s_circ s = Some (m, U) -> s_dead s = false ->
  (s_built s = None \/ s_built s = Some (s_mask s)) ->
  CacheInv (preprocess true s m U st) /\ s_dead (preprocess true s m U st) = false /\
  s_built (preprocess true s m U st) = Some (s_mask s) /\ lookup_st st (s_paths (preprocess true s m U st)) <> None /\
  s_circ (preprocess true s m U st) = s_circ s /\ s_in (preprocess true s m U st) = s_in s /\
  s_masks (preprocess true s m U st) = s_masks s /\ s_mask_n (preprocess true s m U st) = s_mask_n s /\
  s_mask (preprocess true s m U st) = s_mask s.
Proof.
  intros HC Hc Hd Hb. unfold preprocess. destruct (lookup_st st (s_paths s)) as [U0|] eqn:El.
  - split; [exact HC|]. split; [exact Hd|]. split.
    + destruct Hb as [Hb|Hb]; [|exact Hb]. unfold CacheInv in HC. rewrite Hb in HC.
      destruct HC as (_ & _ & Hp & _). rewrite Hp in El. discriminate.
    + split. congruence. repeat split; reflexivity.
  - cbv zeta. cbn [s_circ s_in s_masks s_mask_n s_mask s_lv s_fsas s_paths s_iter s_built s_dead].
    assert (G : exists L, lv_ok m (s_mask s) (s_lv s) L /\
              (forall k a, lookup k (s_fsas s) = Some a -> a = fsarray m k (s_mask s)) /\
              (forall k a, lookup k (s_iter s) = Some a -> a = fsarray m k (s_mask s)) /\
              (forall st' U', lookup_st st' (s_paths s) = Some U' ->
                 U' = U /\ (total st' <= L)%nat /\ lookup (total st') (s_fsas s) <> None)).
    { destruct Hb as [Hb|Hb]; unfold CacheInv in HC; rewrite Hb in HC.
      - destruct HC as (Hlv & Hf & Hp & Hi). exists 0%nat. rewrite Hlv, Hf, Hp, Hi.
        split; [left; auto|]. repeat split; intros; simpl in *; discriminate.
      - destruct HC as (m0 & U0 & L & Hc0 & Hlv & Hf & Hi & Hp). rewrite Hc in Hc0. injection Hc0 as E1 E2. subst m0 U0.
        exists L. auto. }
    destruct G as (L & Hlv & Hf & Hi & Hp).
    assert (Eb : match s_built s with Some b => Some b | None => Some (s_mask s) end = Some (s_mask s))
      by (destruct Hb as [Hb|Hb]; rewrite Hb; reflexivity).
    destruct (deploy_lv_ok m (s_mask s) (total st) (s_lv s) L (s_fsas s) Hlv) as (L' & HL' & HLL & HnL).
    rewrite (lv_ok_no_crash m (s_mask s) _ L' (total st) HL' HnL), Hd, Eb.
    split; [|repeat split; try reflexivity].
    + unfold CacheInv. cbn [s_circ s_in s_masks s_mask_n s_mask s_lv s_fsas s_paths s_iter s_built s_dead].
      exists m, U, L'. split; [exact Hc|]. split; [exact HL'|]. split; [|split].
      * apply lookup_deploy_sound. exact Hf.
      * exact Hi.
      * intros st' U'. simpl. destruct (state_eqb st' st) eqn:Es.
        -- intros X. apply state_eqb_eq in Es. subst st'. split; [congruence|]. split; [exact HnL|].
           apply lookup_deploy_self.
        -- intros X. destruct (Hp st' U' X) as (H1 & H2 & H3). split; [exact H1|]. split; [lia|].
           apply lookup_deploy_mono. exact H3.
    + simpl. rewrite state_eqb_refl. discriminate.
Qed.

Lemma lookup_st_map (U : mat R) st l :
  lookup_st st (map (fun p : state * mat R => (fst p, U)) l) = option_map (fun _ => U) (lookup_st st l).
Proof. induction l as [|e l IH]; simpl. reflexivity. destruct (state_eqb st (fst e)); auto. Qed.

Ltac projs := cbn [s_circ s_in s_masks s_mask_n s_mask s_lv s_fsas s_paths s_iter s_built s_dead with_cfg sreset].

Lemma inv_circ s m U : Inv s -> slegal s (OCirc m U) = true -> Inv (fst (sstep R true true true s (OCirc m U))).
Proof.
  intros [(Hd & Hm0 & Hwf & Hm1 & Hin) HCa] Hl. unfold sstep. rewrite Hl, Hd. cbn [negb fst].
  unfold slegal in Hl. apply Nat.leb_le in Hl.
  destruct (match s_paths s with [] => false | _ :: _ => match s_circ s with Some (m0, _) => (m0 =? m)%nat | None => false end end) eqn:Ek.
  - split.
    + unfold CfgInv. projs. split; [first [exact Hd | reflexivity]|]. split; [exact Hm0|]. split; [exact Hwf|]. split.
      * intros m' U' X. inversion X. subst. exact Hl.
      * intros st X. discriminate.
    + unfold CacheInv in *. projs. destruct (s_built s) as [b|].
      * destruct HCa as (m0 & U0 & L & Hc0 & Hlv & Hf & Hi & Hp).
        destruct (s_paths s) as [|p0 ps] eqn:Eps; [discriminate|]. rewrite Hc0 in Ek. apply Nat.eqb_eq in Ek. subst m0.
        exists m, U, L. split; [reflexivity|]. split; [exact Hlv|]. split; [exact Hf|]. split; [exact Hi|].
        intros st U'. rewrite lookup_st_map. destruct (lookup_st st (p0 :: ps)) as [U1|] eqn:E1; [|discriminate].
        simpl. intros X. inversion X. destruct (Hp st U1 E1) as (_ & H2 & H3). auto.
      * destruct HCa as (H1 & H2 & H3 & H4). rewrite H3. simpl. auto.
  - split.
    + unfold CfgInv. projs. split; [first [exact Hd | reflexivity]|]. split; [auto|]. split; [exact Hwf|]. split.
      * intros m' U' X. inversion X. subst. exact Hl.
      * intros st X. discriminate.
    + unfold CacheInv. projs. auto.
Qed.

Lemma inv_in s st : Inv s -> slegal s (OIn st) = true -> Inv (fst (sstep R true true true s (OIn st))).
Proof.
  intros [(Hd & Hm0 & Hwf & Hm1 & Hin) HCa] Hl. unfold sstep. rewrite Hl, Hd. cbn [negb].
  simpl in Hl. destruct (s_circ s) as [[m U]|] eqn:Hc; [|discriminate].
  apply andb_prop in Hl as [Hlen Hml]. apply Nat.eqb_eq in Hlen. cbn [fst andb].
  set (newmask := match s_masks s with None => s_mask s | Some _ => inst_of (s_masks s) (s_mask_n s) (total st) end).
  assert (Hnm : newmask = inst_of (s_masks s) (s_mask_n s) (total st)).
  { unfold newmask. destruct (s_masks s) eqn:Em; [reflexivity|]. rewrite Hm0 by reflexivity. reflexivity. }
  set (s1 := if match s_built s with Some b => negb (minst_eqb b newmask) | None => false end then sreset s else s).
  set (s2 := with_cfg s1 (Some (m, U)) (Some st) (s_masks s) (s_mask_n s) newmask).
  assert (H2 : CacheInv s2 /\ s_circ s2 = Some (m, U) /\ s_dead s2 = false /\
               (s_built s2 = None \/ s_built s2 = Some (s_mask s2)) /\ s_mask s2 = newmask /\
               s_masks s2 = s_masks s /\ s_mask_n s2 = s_mask_n s /\ s_in s2 = Some st).
  { unfold s2, s1. destruct (s_built s) as [b|] eqn:Hb.
    - destruct (minst_eqb b newmask) eqn:E.
      + apply minst_eqb_eq in E. subst b. cbn [negb]. unfold CacheInv in *. projs. rewrite Hb in *.
        split; [|repeat split; auto]. destruct HCa as (m0 & U0 & L & Hc0 & Hrest).
        rewrite Hc in Hc0. inversion Hc0. subst m0 U0. exists m, U, L. split; [reflexivity|exact Hrest].
      + cbn [negb]. unfold CacheInv. projs. repeat split; auto.
    - unfold CacheInv in *. projs. rewrite Hb in *. repeat split; auto; apply HCa. }
  destruct H2 as (HC2 & Hc2 & Hd2 & Hb2 & Hmk2 & Hms2 & Hmn2 & Hin2).
  destruct (preprocess_ok s2 m U st HC2 Hc2 Hd2 Hb2) as (P1 & P2 & P3 & P4 & P5 & P6 & P7 & P8 & P9).
  split; [|exact P1].
  split; [exact P2|]. split.
  { rewrite P7, P9, Hms2, Hmk2. intros X. rewrite Hnm, X. reflexivity. }
  split. { rewrite P7, Hms2. exact Hwf. }
  split. { rewrite P5, Hc2. intros m' U' X. inversion X. subst. eapply Hm1. reflexivity. }
  rewrite P6, Hin2. intros st' X. inversion X. subst st'. exists m, U.
  rewrite P5, P7, P8, P9, P3, Hms2, Hmn2, Hmk2. repeat split; auto.
Qed.

(* set_mask / clear_mask: reset, new mask strings, then (fixB) preprocess for the current input *)
Lemma inv_remask s masks mask_n :
  Inv s -> (forall mks, masks = Some mks -> masks_wf mks = true) ->
  (forall st, s_in s = Some st -> mask_len_ok (length st) masks = true) ->
  let mk := match s_in s with Some st => inst_of masks mask_n (total st) | None => None end in
  let s1 := with_cfg (sreset s) (s_circ s) (s_in s) masks mask_n mk in
  Inv (match s_in s, s_circ s with Some st, Some (m, U) => preprocess true s1 m U st | _, _ => s1 end).
Proof.
  intros [(Hd & Hm0 & Hwf & Hm1 & Hin) HCa] Hw Hlen mk s1.
  assert (HC1 : CacheInv s1) by (unfold CacheInv, s1; projs; auto).
  destruct (s_in s) as [st|] eqn:Ein.
  - destruct (Hin st eq_refl) as (m & U & Hc & Hl & _).
    rewrite Hc.
    assert (Hc1 : s_circ s1 = Some (m, U)) by (unfold s1; projs; exact Hc).
    assert (Hd1 : s_dead s1 = false) by (unfold s1; projs; exact Hd).
    assert (Hb1 : s_built s1 = None \/ s_built s1 = Some (s_mask s1)) by (left; reflexivity).
    destruct (preprocess_ok s1 m U st HC1 Hc1 Hd1 Hb1) as (P1 & P2 & P3 & P4 & P5 & P6 & P7 & P8 & P9).
    split; [|exact P1]. unfold CfgInv. rewrite P2, P3, P5, P6, P7, P8, P9. unfold s1 at 1 2 3 4 5 6 7 8 9 10. projs.
    split; [reflexivity|]. split.
    { intros X. unfold mk. rewrite X. reflexivity. }
    split; [exact Hw|]. split; [exact Hm1|].
    intros st' X. inversion X. subst st'. exists m, U. split; [exact Hc|]. split; [exact Hl|].
    split. { rewrite <- Hl. apply Hlen. reflexivity. }
    split; [reflexivity|]. split; [reflexivity|exact P4].
  - split; [|destruct (s_circ s) as [[? ?]|]; exact HC1].
    assert (E : (match s_circ s with Some (m, U) => s1 | None => s1 end) = s1) by (destruct (s_circ s) as [[? ?]|]; reflexivity).
    replace (match s_circ s with Some (_, _) => s1 | None => s1 end) with s1.
    unfold CfgInv, s1. projs. split; [exact Hd|]. split; [reflexivity|]. split; [exact Hw|]. split; [exact Hm1|].
    intros st X. discriminate.
Qed.

Lemma inv_mask s mks n : Inv s -> slegal s (OMask mks n) = true -> Inv (fst (sstep R true true true s (OMask mks n))).
Proof.
  intros HI Hl. pose proof HI as [(Hd & _) _]. unfold sstep. rewrite Hl, Hd. cbn [negb fst].
  unfold slegal in Hl. apply andb_prop in Hl as [Hw Hlen].
  apply (inv_remask s (Some mks) n HI).
  - intros mks' X. inversion X. subst. exact Hw.
  - intros st X. rewrite X in Hlen. exact Hlen.
Qed.
Lemma inv_clear s : Inv s -> Inv (fst (sstep R true true true s OClear)).
Proof.
  intros HI. pose proof HI as [(Hd & _) _]. unfold sstep. cbn [slegal negb]. rewrite Hd. cbn [fst].
  pose proof (inv_remask s None None HI) as H. cbn zeta in H.
  assert (E : (match s_in s with Some st => inst_of None None (total st) | None => None end) = None)
    by (destruct (s_in s); reflexivity).
  rewrite E in H. apply H.
  - intros mks X. discriminate.
  - intros st X. reflexivity.
Qed.

Lemma inv_same_but_iter s s' : Inv s ->
  s_circ s' = s_circ s -> s_in s' = s_in s -> s_masks s' = s_masks s -> s_mask_n s' = s_mask_n s ->
  s_mask s' = s_mask s -> s_lv s' = s_lv s -> s_fsas s' = s_fsas s -> s_paths s' = s_paths s ->
  s_built s' = s_built s -> s_dead s' = s_dead s ->
  (forall b m U, s_built s = Some b -> s_circ s = Some (m, U) ->
     forall k a, lookup k (s_iter s') = Some a -> a = fsarray m k b) ->
  (s_built s = None -> s_iter s' = []) -> Inv s'.
Proof.
  intros [HCf HCa] E1 E2 E3 E4 E5 E6 E7 E8 E9 E10 Hit Hnone. split.
  - unfold CfgInv in *. rewrite E1, E2, E3, E4, E5, E8, E9, E10. exact HCf.
  - unfold CacheInv in *. rewrite E1, E6, E7, E8, E9. destruct (s_built s) as [b|] eqn:Hb.
    + destruct HCa as (m & U & L & Hc & Hlv & Hf & Hi & Hp). exists m, U, L.
      split; [exact Hc|]. split; [exact Hlv|]. split; [exact Hf|]. split; [|exact Hp]. apply (Hit b m U eq_refl Hc).
    + destruct HCa as (H1 & H2 & H3 & H4). repeat split; auto.
Qed.

Lemma inv_query s q : Inv s -> Inv (fst (sstep R true true true s (OQuery q))).
Proof.
  intros HI. pose proof HI as [(Hd & Hm0 & Hwf & Hm1 & Hin) HCa]. unfold sstep.
  destruct (slegal s (OQuery q)) eqn:Hl; [|exact HI]. cbn [negb].
  destruct (s_dead s) eqn:Hdd; [discriminate|].
  destruct (s_in s) as [st|] eqn:Ein; [|exact HI].
  destruct (Hin st eq_refl) as (m & U & Hc & _ & _ & Hmk & Hb & _).
  destruct (s_circ s) as [[m1 U1]|] eqn:Hc1; [|discriminate]. inversion Hc. subst m1 U1.
  assert (Hiter : forall fa U' (q' : squery), Inv (fst
     (if uses_iter q' && is_rows R (query_out m U' fa match lookup (total st) (s_iter s) with Some a => a | None => fsarray m (total st) (s_mask s) end (firstn (S (total st)) (s_lv s)) st q')
      then mk_sst R (Some (m, U)) (Some st) (s_masks s) (s_mask_n s) (s_mask s) (s_lv s) (s_fsas s) (s_paths s)
             (match lookup (total st) (s_iter s) with Some _ => s_iter s | None => (total st, match lookup (total st) (s_iter s) with Some a => a | None => fsarray m (total st) (s_mask s) end) :: s_iter s end)
             (s_built s) false
      else s,
      query_out m U' fa match lookup (total st) (s_iter s) with Some a => a | None => fsarray m (total st) (s_mask s) end (firstn (S (total st)) (s_lv s)) st q'))).
  { intros fa U' q'. cbn [fst].
    match goal with |- Inv (if ?c then _ else _) => destruct c end; [|exact HI].
    apply (inv_same_but_iter s); projs; auto.
    - intros b m' U2 Hb' Hc' k a. rewrite Hb in Hb'. inversion Hb'. subst b. rewrite Hc1 in Hc'. inversion Hc'. subst m' U2.
      unfold CacheInv in HCa. rewrite Hb in HCa. destruct HCa as (m0 & U0 & L & Hc0 & Hlv & Hf & Hi & Hp).
      rewrite Hc1 in Hc0. inversion Hc0. subst m0 U0.
      destruct (lookup (total st) (s_iter s)) as [a0|] eqn:Ei; [apply Hi|].
      simpl. destruct (k =? total st)%nat eqn:Ek; [|apply Hi].
      apply Nat.eqb_eq in Ek. subst k. intros X. inversion X. reflexivity.
    - intros X. rewrite X in Hb. discriminate. }
  destruct q as [t| | |].
  - destruct (negb (total st =? total t)%nat); [exact HI|].
    destruct (lookup (total st) (s_fsas s)); [|exact HI]. destruct (lookup_st st (s_paths s)); exact HI.
  - destruct (lookup (total st) (s_fsas s)) as [fa|]; [|exact HI]. destruct (lookup_st st (s_paths s)) as [U'|]; [|exact HI].
    apply Hiter.
  - destruct (lookup (total st) (s_fsas s)) as [fa|]; [|exact HI]. destruct (lookup_st st (s_paths s)) as [U'|]; [|exact HI].
    apply (Hiter fa U' QAllProb).
  - destruct (lookup (total st) (s_fsas s)) as [fa|]; [|exact HI]. destruct (lookup_st st (s_paths s)) as [U'|]; [|exact HI].
    apply Hiter.
Qed.

Lemma inv_init : Inv (sinit R).
Proof. split. unfold CfgInv; simpl. repeat split; auto; intros; discriminate. unfold CacheInv; simpl; auto. Qed.
Lemma inv_step s o : Inv s -> Inv (fst (sstep R true true true s o)).
Proof.
  intros HI. destruct (slegal s o) eqn:Hl.
  - destruct o; [apply inv_circ | apply inv_in | apply inv_mask | apply inv_clear | apply inv_query]; auto.
  - unfold sstep. rewrite Hl. exact HI.
Qed.
Lemma inv_fold h : forall s, Inv s -> Inv (fold_left (fun s o => fst (sstep R true true true s o)) h s).
Proof. induction h as [|o h IH]; intros s HI; simpl. exact HI. apply IH. apply inv_step; auto. Qed.
Theorem inv_run h : Inv (srun true true true h).
Proof. apply inv_fold. apply inv_init. Qed.

Lemma query_out_vac m (U : mat R) fa it lv lv' st q : total st = 0%nat ->
  query_out m U fa it lv st q = query_out m U fa it lv' st q.
Proof. intros H. unfold query_out, coef_vec. rewrite H. reflexivity. Qed.
(* ---- what the invariant determines: the closed form of a configuration ---- *)
Theorem inv_spec s st m U q : Inv s -> s_in s = Some st -> s_circ s = Some (m, U) ->
  sobs true true true s q = spec_obs R m U (s_mask s) st q.
Proof.
  intros [(Hd & Hm0 & Hwf & Hm1 & Hin) HCa] Ein Hc. unfold sobs, sstep. cbn [slegal]. rewrite Ein, Hd, Hc. cbn [negb].
  destruct (Hin st Ein) as (m' & U' & Hc' & _ & _ & Hmk & Hb & Hlk).
  unfold CacheInv in HCa. rewrite Hb in HCa. destruct HCa as (m0 & U0 & L & Hc0 & Hlv & Hf & Hi & Hp).
  rewrite Hc in Hc0. inversion Hc0. subst m0 U0.
  destruct (lookup_st st (s_paths s)) as [U1|] eqn:El; [|congruence].
  destruct (Hp st U1 El) as (HU & HL & Hfs). subst U1.
  destruct (lookup (total st) (s_fsas s)) as [fa|] eqn:Ef; [|congruence].
  rewrite (Hf _ _ Ef).
  assert (Hq : forall fa it q', query_out m U fa it (firstn (S (total st)) (s_lv s)) st q'
                              = query_out m U fa it (canon_lv m (s_mask s) (total st)) st q').
  { intros fa0 it0 q'. destruct Hlv as [[Hl0 HL0]|Hl1].
    - apply query_out_vac. lia.
    - rewrite Hl1, firstn_canon by exact HL. reflexivity. }
  assert (Hit : match lookup (total st) (s_iter s) with Some a => a | None => fsarray m (total st) (s_mask s) end
                = fsarray m (total st) (s_mask s)).
  { destruct (lookup (total st) (s_iter s)) as [a|] eqn:Ei; [apply (Hi _ _ Ei)|reflexivity]. }
  unfold spec_obs. destruct q as [t| | |].
  - destruct (negb (total st =? total t)%nat); [reflexivity|]. cbn [snd]. apply Hq.
  - cbn [snd]. rewrite Hq, Hit. reflexivity.
  - cbn [snd]. rewrite Hq, Hit. reflexivity.
  - cbn [snd]. rewrite Hq, Hit. reflexivity.
Qed.

(* ---- the configuration is a function of the history alone ---- *)
Definition cfg4 := (option (nat * mat R) * option state * option (list mask) * option nat)%type.
Definition cfg_of (s : sst R) : cfg4 := (s_circ s, s_in s, s_masks s, s_mask_n s).
Definition cfg_step (c : cfg4) (o : sop R) : cfg4 :=
  match c with (circ, inp, masks, mask_n) =>
    match o with
    | OCirc m U => if (1 <=? m)%nat then (Some (m, U), None, masks, mask_n) else c
    | OIn st => match circ with
                | Some (m, _) => if (length st =? m)%nat && mask_len_ok m masks then (circ, Some st, masks, mask_n) else c
                | None => c end
    | OMask mks n => if masks_wf mks && match inp with Some st => mask_len_ok (length st) (Some mks) | None => true end
                     then (circ, inp, Some mks, n) else c
    | OClear => (circ, inp, None, None)
    | OQuery _ => c
    end
  end.
Definition cfg_fold (h : list (sop R)) : cfg4 := fold_left cfg_step h (None, None, None, None).

Lemma preprocess_cfg c s m U st : cfg_of (preprocess c s m U st) = cfg_of s.
Proof. unfold preprocess. destruct (lookup_st st (s_paths s)); reflexivity. Qed.
Lemma query_cfg s q : cfg_of (fst (sstep R true true true s (OQuery q))) = cfg_of s.
Proof.
  unfold sstep. destruct (negb (slegal s (OQuery q))); [reflexivity|]. destruct (s_dead s); [reflexivity|].
  destruct (s_in s) as [st|] eqn:Ein; [|reflexivity]. destruct (s_circ s) as [[m U]|] eqn:Hc; [|reflexivity].
  destruct q as [t| | |].
  - destruct (negb (total st =? total t)%nat); [reflexivity|].
    destruct (lookup (total st) (s_fsas s)); [|reflexivity]. destruct (lookup_st st (s_paths s)); reflexivity.
  - destruct (lookup (total st) (s_fsas s)); [|reflexivity]. destruct (lookup_st st (s_paths s)); [|reflexivity].
    cbn [fst]. match goal with |- context [if ?c then _ else _] => destruct c end; [|reflexivity].
    unfold cfg_of; projs. rewrite Ein, Hc. reflexivity.
  - destruct (lookup (total st) (s_fsas s)); [|reflexivity]. destruct (lookup_st st (s_paths s)); reflexivity.
  - destruct (lookup (total st) (s_fsas s)); [|reflexivity]. destruct (lookup_st st (s_paths s)); [|reflexivity].
    cbn [fst]. match goal with |- context [if ?c then _ else _] => destruct c end; [|reflexivity].
    unfold cfg_of; projs. rewrite Ein, Hc. reflexivity.
Qed.
Lemma cfg_sstep s o : s_dead s = false -> cfg_of (fst (sstep R true true true s o)) = cfg_step (cfg_of s) o.
Proof.
  intros Hd. destruct o as [m U|st|mks n| |q]; [| | | |apply query_cfg];
  unfold sstep, cfg_of at 2, cfg_step; cbn [slegal].
  - destruct (1 <=? m)%nat; cbn [negb]; [|reflexivity]. rewrite Hd.
    match goal with |- context [if ?c then _ else _] => destruct c end; reflexivity.
  - destruct (s_circ s) as [[m U]|] eqn:Hc; [|cbn [negb fst]; unfold cfg_of; rewrite Hc; reflexivity].
    destruct ((length st =? m)%nat && mask_len_ok m (s_masks s)); cbn [negb]; [|cbn [fst]; unfold cfg_of; rewrite Hc; reflexivity].
    rewrite Hd. cbn [fst]. rewrite preprocess_cfg. unfold cfg_of. projs. reflexivity.
  - match goal with |- context [negb ?c] => destruct c end; cbn [negb]; [|reflexivity]. rewrite Hd. cbn [fst].
    destruct (s_in s) as [st|]; [|reflexivity]. destruct (s_circ s) as [[m U]|]; [|reflexivity].
    rewrite preprocess_cfg. reflexivity.
  - cbn [negb]. rewrite Hd. cbn [fst].
    destruct (s_in s) as [st|]; [|reflexivity]. destruct (s_circ s) as [[m U]|]; [|reflexivity].
    rewrite preprocess_cfg. reflexivity.
Qed.
Lemma cfg_fold_gen h : forall s, Inv s ->
  cfg_of (fold_left (fun s o => fst (sstep R true true true s o)) h s) = fold_left cfg_step h (cfg_of s).
Proof. induction h as [|o h IH]; intros s HI; simpl. reflexivity.
  rewrite IH by (auto using inv_step). rewrite cfg_sstep by apply HI. reflexivity. Qed.
Theorem cfg_run h : cfg_of (srun true true true h) = cfg_fold h.
Proof. apply (cfg_fold_gen h (sinit R) inv_init). Qed.

Lemma cfg_canon s : Inv s ->
  fst (fst (fst (cfg_fold (scanon s)))) = s_circ s /\ snd (fst (fst (cfg_fold (scanon s)))) = s_in s /\
  snd (fst (cfg_fold (scanon s))) = s_masks s /\ (s_masks s <> None -> snd (cfg_fold (scanon s)) = s_mask_n s).
Proof.
  intros [(Hd & Hm0 & Hwf & Hm1 & Hin) _]. unfold cfg_fold, scanon.
  destruct (s_circ s) as [[m U]|] eqn:Hc.
  - assert (Hm : (1 <=? m)%nat = true) by (apply Nat.leb_le; eapply Hm1; reflexivity).
    destruct (s_masks s) as [mks|] eqn:Hms.
    + assert (Hw : masks_wf mks = true) by (apply Hwf; reflexivity).
      destruct (s_in s) as [st|] eqn:Ein.
      * destruct (Hin st eq_refl) as (m' & U' & Hc' & Hl & Hml & _). injection Hc' as E1 E2. subst m' U'.
        cbn [app fold_left cfg_step]. rewrite Hm. cbn [fold_left cfg_step]. rewrite Hw. cbn [andb fold_left cfg_step].
        rewrite Hl, Nat.eqb_refl, Hml. cbn [andb fst snd]. rewrite <- Hl. auto.
      * cbn [app fold_left cfg_step]. rewrite Hm. cbn [fold_left cfg_step]. rewrite Hw. cbn [andb fst snd]. auto.
    + destruct (s_in s) as [st|] eqn:Ein.
      * destruct (Hin st eq_refl) as (m' & U' & Hc' & Hl & Hml & _). injection Hc' as E1 E2. subst m' U'.
        cbn [app fold_left cfg_step]. rewrite Hm. cbn [fold_left cfg_step].
        rewrite Hl, Nat.eqb_refl, Hml. cbn [andb fst snd]. rewrite <- Hl. repeat split; auto. congruence.
      * cbn [app fold_left cfg_step]. rewrite Hm. cbn [fst snd]. repeat split; auto. congruence.
  - destruct (s_in s) as [st|] eqn:Ein.
    + destruct (Hin st eq_refl) as (m' & U' & Hc' & _). discriminate.
    + destruct (s_masks s) as [mks|] eqn:Hms.
      * assert (Hw : masks_wf mks = true) by (apply Hwf; reflexivity).
        cbn [app fold_left cfg_step]. rewrite Hw. cbn [andb fst snd]. auto.
      * cbn [app fold_left fst snd]. repeat split; auto. congruence.
Qed.
(* For every history (illegal operations are rejected and leave the engine unchanged), what a query returns equals
   what an engine built from the final configuration returns. *)
Theorem repaired_history_free (h : list (sop R)) q :
  sobs true true true (srun true true true h) q = sobs true true true (srun true true true (scanon (srun true true true h))) q.
Proof.
  set (s := srun true true true h). assert (HI : Inv s) by apply inv_run.
  set (s' := srun true true true (scanon s)).
  assert (HI' : Inv s') by apply inv_run.
  pose proof (cfg_run (scanon s)) as Hcfg. fold s' in Hcfg.
  destruct (cfg_canon s HI) as (C1 & C2 & C3 & C4). rewrite <- Hcfg in C1, C2, C3, C4. unfold cfg_of in C1, C2, C3, C4.
  cbn [fst snd] in C1, C2, C3, C4.
  destruct (s_in s) as [st|] eqn:Ein.
  - pose proof HI as [(_ & Hm0 & _ & _ & Hin) _]. destruct (Hin st Ein) as (m & U & Hc & _ & _ & Hmk & _).
    pose proof HI' as [(_ & Hm0' & _ & _ & Hin') _]. destruct (Hin' st C2) as (m' & U' & Hc' & _ & _ & Hmk' & _).
    rewrite (inv_spec s st m U q HI Ein Hc). rewrite C1 in Hc'. rewrite Hc in Hc'. inversion Hc'. subst m' U'.
    rewrite (inv_spec s' st m U q HI' C2). 2:{ rewrite C1. exact Hc. }
    f_equal. rewrite Hmk, Hmk', C3. destruct (s_masks s) as [mks|] eqn:Hms; [|reflexivity].
    rewrite C4 by discriminate. reflexivity.
  - unfold sobs, sstep. cbn [slegal]. rewrite Ein, C2. reflexivity.
Qed.
(* ... and both are the closed form [spec_obs] of the configuration, which is a function of the history's
   mutators alone [cfg_fold] *)
Theorem repaired_is_spec h q m U st masks mask_n :
  cfg_fold h = (Some (m, U), Some st, masks, mask_n) ->
  sobs true true true (srun true true true h) q = spec_obs R m U (inst_of masks mask_n (total st)) st q.
Proof.
  intros Hc. pose proof (inv_run h) as HI. pose proof (cfg_run h) as E. rewrite Hc in E.
  unfold cfg_of in E. inversion E as [[E1 E2 E3 E4]].
  rewrite (inv_spec _ st m U q HI E2 E1). f_equal.
  destruct HI as [(_ & _ & _ & _ & Hin) _]. destruct (Hin st E2) as (_ & _ & _ & _ & _ & Hmk & _). exact Hmk.
Qed.
Theorem repaired_never_crashes (h : list (sop R)) : s_dead (srun true true true h) = false.
Proof. apply (inv_run h). Qed.
End SlosP.

(* =============================== SLOS: the code before the repairs =============================== *)
(* without set_mask / clear_mask and without vacuum inputs none of the three repairs ever fires: the old code is the
   current code *)
Section NoMask.
Variable R : cring.
Definition no_mask_op (o : sop R) : Prop := match o with OMask _ _ | OClear => False | _ => True end.
Definition NoMaskInv (s : sst R) : Prop :=
  s_masks s = None /\ s_mask s = None /\ (forall b, s_built s = Some b -> b = None) /\ (s_lv s = [] -> s_fsas s = []) /\
  (forall st, s_in s = Some st -> (1 <= total st)%nat).
Lemma preprocess_built c (s : sst R) m U st : s_mask s = None -> (forall b, s_built s = Some b -> b = None) ->
  forall b, s_built (preprocess c s m U st) = Some b -> b = None.
Proof. intros Hm Hb b. unfold preprocess. destruct (lookup_st st (s_paths s)); [apply Hb|]. simpl.
  destruct (s_built s) as [b0|]; [apply Hb | rewrite Hm; intros X; inversion X; reflexivity]. Qed.
Lemma preprocess_masks c (s : sst R) m U st : s_masks (preprocess c s m U st) = s_masks s.
Proof. unfold preprocess. destruct (lookup_st st (s_paths s)); reflexivity. Qed.
Lemma preprocess_mask c (s : sst R) m U st : s_mask (preprocess c s m U st) = s_mask s.
Proof. unfold preprocess. destruct (lookup_st st (s_paths s)); reflexivity. Qed.
Lemma preprocess_in c (s : sst R) m U st : s_in (preprocess c s m U st) = s_in s.
Proof. unfold preprocess. destruct (lookup_st st (s_paths s)); reflexivity. Qed.
Lemma preprocess_fixC_eq (s : sst R) m U st : (s_lv s = [] -> s_fsas s = []) ->
  preprocess false s m U st = preprocess true s m U st.
Proof. intros H. unfold preprocess. destruct (lookup_st st (s_paths s)); [reflexivity|].
  rewrite (deploy_lv_fixC_eq _ _ _ _ _ H). reflexivity. Qed.
Lemma preprocess_lv_fsas c (s : sst R) m U st : (1 <= total st)%nat -> (s_lv s = [] -> s_fsas s = []) ->
  s_lv (preprocess c s m U st) = [] -> s_fsas (preprocess c s m U st) = [].
Proof. intros Hn H. unfold preprocess. destruct (lookup_st st (s_paths s)); [exact H|]. simpl.
  intros X. exfalso. exact (deploy_lv_nonempty _ _ _ _ _ _ Hn X). Qed.
Lemma no_mask_step s o : NoMaskInv s -> no_mask_op o -> photonic o ->
  sstep R false false false s o = sstep R true true true s o /\ NoMaskInv (fst (sstep R true true true s o)).
Proof.
  intros (H1 & H2 & H3 & H4 & H5) Hn Hph. destruct o as [m U|st|mks n| |q]; try contradiction.
  - split; [reflexivity|]. unfold sstep. destruct (negb (slegal s (OCirc m U))); [repeat split; auto|].
    destruct (s_dead s); [repeat split; auto|]. cbn [fst].
    match goal with |- context [if ?c then _ else _] => destruct c end; unfold NoMaskInv; simpl; repeat split; auto;
    intros; discriminate.
  - assert (E : sstep R false false false s (OIn st) = sstep R true true true s (OIn st)).
    { unfold sstep. destruct (negb (slegal s (OIn st))); [reflexivity|]. destruct (s_dead s); [reflexivity|].
      destruct (s_circ s) as [[m U]|]; [|reflexivity]. rewrite H1, H2.
      destruct (s_built s) as [b|] eqn:Hb.
      - rewrite (H3 b eq_refl). cbn [minst_eqb negb andb]. rewrite preprocess_fixC_eq by exact H4. reflexivity.
      - cbn [andb]. rewrite preprocess_fixC_eq by exact H4. reflexivity. }
    split; [exact E|]. rewrite <- E. unfold sstep. destruct (negb (slegal s (OIn st))); [repeat split; auto|].
    destruct (s_dead s); [repeat split; auto|]. destruct (s_circ s) as [[m U]|]; [|repeat split; auto]. rewrite H1, H2.
    cbn [andb fst]. unfold NoMaskInv.
    split. { rewrite preprocess_masks. reflexivity. }
    split. { rewrite preprocess_mask. reflexivity. }
    split. { apply preprocess_built; [reflexivity|exact H3]. }
    split. { apply preprocess_lv_fsas; [exact Hph|exact H4]. }
    rewrite preprocess_in. simpl. intros st' X. inversion X. subst. exact Hph.
  - split; [reflexivity|]. pose proof (query_cfg R s q) as X. unfold cfg_of in X. inversion X as [[X1 X2 X3 X4]].
    unfold NoMaskInv. rewrite X3, X2. split; [exact H1|].
    assert (G : forall s' : sst R, s_mask s' = None /\ (forall b, s_built s' = Some b -> b = None) /\ (s_lv s' = [] -> s_fsas s' = []) ->
                s_mask s' = None /\ (forall b, s_built s' = Some b -> b = None) /\ (s_lv s' = [] -> s_fsas s' = []) /\
                (forall st, s_in s = Some st -> (1 <= total st)%nat)) by (intros s' (A & B & C); auto).
    apply G. clear G.
    unfold sstep. destruct (negb (slegal s (OQuery q))); [auto|]. destruct (s_dead s); [auto|].
    destruct (s_in s); [|auto]. destruct (s_circ s) as [[m U]|]; [|auto].
    destruct q as [t| | |].
    + destruct (negb _); [auto|]. destruct (lookup _ _); [|auto]. destruct (lookup_st _ _); auto.
    + destruct (lookup _ _); [|auto]. destruct (lookup_st _ _); [|auto]. cbn [fst].
      match goal with |- context [if ?c then _ else _] => destruct c end; auto.
    + destruct (lookup _ _); [|auto]. destruct (lookup_st _ _); auto.
    + destruct (lookup _ _); [|auto]. destruct (lookup_st _ _); [|auto]. cbn [fst].
      match goal with |- context [if ?c then _ else _] => destruct c end; auto.
Qed.
Lemma no_mask_fold h : forall s, NoMaskInv s -> Forall no_mask_op h -> Forall (photonic (R:=R)) h ->
  fold_left (fun s o => fst (sstep R false false false s o)) h s = fold_left (fun s o => fst (sstep R true true true s o)) h s /\
  NoMaskInv (fold_left (fun s o => fst (sstep R true true true s o)) h s).
Proof. induction h as [|o h IH]; intros s HI Hn Hp; simpl. auto. inversion Hn; subst. inversion Hp; subst.
  destruct (no_mask_step s o HI H1 H3) as [E HI']. rewrite E. apply IH; auto. Qed.
Lemma no_mask_init : NoMaskInv (sinit R).
Proof. unfold NoMaskInv; simpl. repeat split; auto; intros; discriminate. Qed.
Theorem faithful_no_mask_history_free h q : Forall no_mask_op h -> Forall (photonic (R:=R)) h ->
  sobs false false false (srun false false false h) q
  = sobs false false false (srun false false false (scanon (srun false false false h))) q.
Proof.
  intros Hn Hp. destruct (no_mask_fold h (sinit R) no_mask_init Hn Hp) as [E HI].
  change (fold_left (fun s o => fst (sstep R false false false s o)) h (sinit R)) with (srun (R:=R) false false false h) in E.
  change (fold_left (fun s o => fst (sstep R true true true s o)) h (sinit R)) with (srun (R:=R) true true true h) in E, HI.
  rewrite E. set (s := srun true true true h) in *.
  assert (HIs : Inv R s) by apply inv_run.
  assert (Hc : Forall no_mask_op (scanon s) /\ Forall (photonic (R:=R)) (scanon s)).
  { unfold scanon. pose proof HI as (H1 & _). rewrite H1. split; apply Forall_app; split;
    try (destruct (s_circ s) as [[? ?]|]; repeat constructor).
    all: destruct (s_in s) as [st|] eqn:Ein; [|constructor]; (constructor; [|constructor]); try exact I;
      destruct HI as (_ & _ & _ & _ & H5); apply H5; exact Ein. }
  destruct Hc as [Hc Hcp].
  destruct (no_mask_fold (scanon s) (sinit R) no_mask_init Hc Hcp) as [E' HI'].
  change (fold_left (fun s o => fst (sstep R false false false s o)) (scanon s) (sinit R)) with (srun (R:=R) false false false (scanon s)) in E'.
  change (fold_left (fun s o => fst (sstep R true true true s o)) (scanon s) (sinit R)) with (srun (R:=R) true true true (scanon s)) in E', HI'.
  rewrite E'. unfold sobs.
  rewrite (proj1 (no_mask_step s (OQuery q) HI I I)).
  rewrite (proj1 (no_mask_step _ (OQuery q) HI' I I)). apply repaired_history_free.
Qed.
End NoMask.

(* witnesses over the Gaussian rationals: the beam splitter with cos = 3/5, sin = 4/5 *)
Definition q35 : qi := mkqi (Q2Qc (Qmake 3 5)) (Q2Qc (Qmake 0 1)).
Definition q45 : qi := mkqi (Q2Qc (Qmake 4 5)) (Q2Qc (Qmake 0 1)).
Definition U345 : mat QI := of_tab (R:=QI) [[q35; q45]; [qiopp q45; q35]].
Fixpoint rows_eqb (a b : list (state * qi * state)) : bool :=
  match a, b with
  | [], [] => true
  | x :: a', y :: b' => state_eqb (fst (fst x)) (fst (fst y)) && qi_eqb (snd (fst x)) (snd (fst y)) &&
                        state_eqb (snd x) (snd y) && rows_eqb a' b'
  | _, _ => false
  end.
Definition sout_eqb (a b : sout QI) : bool :=
  match a, b with
  | OutNone, OutNone | OutErr, OutErr | OutCrash, OutCrash | OutZero, OutZero => true
  | OutAmp c t s, OutAmp c' t' s' => qi_eqb c c' && state_eqb t t' && state_eqb s s'
  | OutRows r s, OutRows r' s' => rows_eqb r r' && state_eqb s s'
  | _, _ => false
  end.
Lemma qi_eqb_refl a : qi_eqb a a = true. Proof. apply qi_eqb_eq. reflexivity. Qed.
Lemma rows_eqb_refl r : rows_eqb r r = true.
Proof. induction r as [|x r IH]; simpl. reflexivity. rewrite !state_eqb_refl, qi_eqb_refl, IH. reflexivity. Qed.
Lemma sout_eqb_refl o : sout_eqb o o = true.
Proof. destruct o; simpl; auto. rewrite qi_eqb_refl, !state_eqb_refl. reflexivity.
  rewrite rows_eqb_refl, state_eqb_refl. reflexivity. Qed.
Definition differs_from_fresh (h : list (sop QI)) (q : squery) : bool :=
  negb (sout_eqb (sobs false false false (srun false false false h) q)
                 (sobs false false false (srun false false false (scanon (srun false false false h))) q)).
Lemma differs_neq h q : differs_from_fresh h q = true ->
  sobs false false false (srun false false false h) q <> sobs false false false (srun false false false (scanon (srun false false false h))) q.
Proof. unfold differs_from_fresh. intros H E. rewrite E, sout_eqb_refl in H. discriminate. Qed.

Local Open Scope nat_scope.
(* set_mask('*1'); set_input |1,0>; set_input |1,1>: level 1 was pruned for n = 1 and is reused for n = 2 *)
Definition w_growth : list (sop QI) := [OCirc 2 U345; OMask [[None; Some 1]] None; OIn [1; 0]; OIn [1; 1]].
(* set_input |1,1>; set_input |1,0>: _fsas[1] is rebuilt for the new mask instance, the coefficients are not *)
Definition w_shrink : list (sop QI) := [OCirc 2 U345; OMask [[None; Some 1]] None; OIn [1; 1]; OIn [1; 0]].
(* set_input; set_mask: the deployed paths are dropped and not rebuilt *)
Definition w_remask : list (sop QI) := [OCirc 2 U345; OIn [1; 1]; OMask [[None; Some 1]] None].
(* set_mask('2*'); set_input |1,0> (the mask needs two photons: empty level 1); set_input |1,1> *)
Definition w_crash : list (sop QI) := [OCirc 2 U345; OMask [[Some 2; None]] None; OIn [1; 0]; OIn [1; 1]].

Theorem faithful_refuted :
  Forall (photonic (R:=QI)) w_growth /\ Forall (photonic (R:=QI)) w_shrink /\
  Forall (photonic (R:=QI)) w_remask /\ Forall (photonic (R:=QI)) w_crash /\
  differs_from_fresh w_growth (QAmp [1; 1]) = true /\ differs_from_fresh w_growth QDist = true /\
  differs_from_fresh w_shrink QDist = true /\ differs_from_fresh w_shrink (QAmp [0; 1]) = true /\
  differs_from_fresh w_remask QDist = true /\
  s_dead (srun (R:=QI) false false false w_crash) = true /\
  s_dead (srun (R:=QI) false false false (scanon (srun false false false w_crash))) = false.
Proof.
  repeat split; try (repeat constructor; simpl; lia); vm_compute; reflexivity.
Qed.

(* the code between 1c6530fa and f2cccc2b (repairs A and B, not C): a vacuum input first, under a mask with an explicit
   n that needs more photons than n, left an empty level-0 array behind (the mask instance does not change, so nothing
   is reset): the next input crashed.  With repair C (the code as it is now) it does not. *)
Definition w_vacuum : list (sop QI) := [OCirc 2 U345; OMask [[Some 2; None]] (Some 1); OIn [0; 0]; OIn [1; 0]].
Theorem vacuum_first_refuted_before_C :
  s_dead (srun (R:=QI) true true false w_vacuum) = true /\
  s_dead (srun (R:=QI) true true false (scanon (srun true true false w_vacuum))) = false /\
  s_dead (srun (R:=QI) true true true w_vacuum) = false.
Proof. repeat split; vm_compute; reflexivity. Qed.
Theorem faithful_refuted_neq : exists (h : list (sop QI)) q, Forall (photonic (R:=QI)) h /\
  sobs false false false (srun false false false h) q <> sobs false false false (srun false false false (scanon (srun false false false h))) q.
Proof. exists w_growth, (QAmp [1; 1]). split. apply faithful_refuted. apply differs_neq. apply faithful_refuted. Qed.
Lemma partial_hypotheses_satisfiable : exists h : list (sop QI),
  Forall (no_mask_op QI) h /\ Forall (photonic (R:=QI)) h /\ length h = 4.
Proof. exists [OCirc 2 U345; OIn [1; 1]; OCirc 2 U345; OIn [1; 0]]. repeat split; repeat constructor. Qed.

(* =============================== keyed caches =============================== *)
Section KeyedP.
Variables (Cfg Key Dep Op : Type).
Variable key_eqb : Key -> Key -> bool.
Hypothesis key_eqb_eq : forall a b, key_eqb a b = true -> a = b.
Variable cstep : Cfg -> Op -> Cfg.
Variable survives : Cfg -> Op -> Key -> Dep -> bool.
Variable dep : Cfg -> Key -> Dep.
Variable ready : Cfg -> bool.
(* the only obligation of a machine: an entry that survives a mutator is still valid afterwards *)
Hypothesis policy_sound : forall c o k d, ready c = true -> d = dep c k -> survives c o k d = true ->
  ready (cstep c o) = true /\ d = dep (cstep c o) k.
Notation kstepI := (kstep Cfg Key Dep Op key_eqb cstep survives dep ready).
Notation kcoh := (kcoherent Cfg Key Dep dep ready).

Lemma kstep_coherent cc o : kcoh cc -> kcoh (fst (kstepI cc o)).
Proof.
  intros H. destruct cc as [c ca]. destruct o as [o|k]; simpl.
  - intros k d Hin. simpl in Hin. apply filter_In in Hin as [Hin Hs]. simpl in Hs.
    destruct (H k d Hin) as [Hr Hd]. simpl in Hr, Hd. apply (policy_sound c o k d Hr Hd Hs).
  - destruct (ready c) eqn:Hr; [|exact H]. destruct (kfind Key Dep key_eqb k ca) eqn:E; [exact H|].
    intros k' d' Hin. simpl in Hin. destruct Hin as [Hin|Hin]; [inversion Hin; subst; auto|apply (H k' d' Hin)].
Qed.
Lemma kfold_coherent h : forall cc, kcoh cc -> kcoh (fold_left (fun cc o => fst (kstepI cc o)) h cc).
Proof. induction h as [|o h IH]; intros cc H; simpl. exact H. apply IH. apply kstep_coherent. exact H. Qed.
Theorem keyed_coherent c0 h : kcoh (krun Cfg Key Dep Op key_eqb cstep survives dep ready c0 h).
Proof. apply kfold_coherent. intros k d []. Qed.
Lemma kfind_in k ca : forall d, kfind Key Dep key_eqb k ca = Some d -> In (k, d) ca.
Proof. induction ca as [|e ca IH]; simpl; intros d H. discriminate.
  destruct (key_eqb k (fst e)) eqn:E. apply key_eqb_eq in E. inversion H. subst. left. destruct e; reflexivity.
  right. auto. Qed.
(* whatever the history, a query returns what a computation under the current configuration depends on *)
Theorem keyed_query_fresh c0 h k d :
  snd (kstepI (krun Cfg Key Dep Op key_eqb cstep survives dep ready c0 h) (KQuery k)) = Some d ->
  d = dep (fst (krun Cfg Key Dep Op key_eqb cstep survives dep ready c0 h)) k.
Proof.
  pose proof (keyed_coherent c0 h) as H. destruct (krun _ _ _ _ _ _ _ _ _ c0 h) as [c ca]. simpl.
  destruct (ready c); [|discriminate]. destruct (kfind Key Dep key_eqb k ca) eqn:E; simpl; intros X; inversion X; subst; auto.
  apply kfind_in in E. apply (H k d E).
Qed.
End KeyedP.

Lemma nat_eqb_eq' a b : Nat.eqb a b = true -> a = b. Proof. apply Nat.eqb_eq. Qed.
Lemma it_policy c o k d : it_ready c = true -> d = it_dep c k -> it_survives c o k d = true ->
  it_ready (it_cstep c o) = true /\ d = it_dep (it_cstep c o) k.
Proof.
  unfold it_ready. intros Hr Hd Hs. apply andb_prop in Hr as [Hi Hm]. destruct o; simpl in *; try discriminate.
  - rewrite Hs in Hm. discriminate.
  - rewrite Hm. auto.
Qed.
Theorem iterator_cache_history_free h k d :
  snd (kstep _ _ _ _ Nat.eqb it_cstep it_survives it_dep it_ready (krun _ _ _ _ Nat.eqb it_cstep it_survives it_dep it_ready it_init h) (KQuery k)) = Some d ->
  d = it_dep (fst (krun _ _ _ _ Nat.eqb it_cstep it_survives it_dep it_ready it_init h)) k.
Proof. apply keyed_query_fresh. exact nat_eqb_eq'. exact it_policy. Qed.

Lemma sn_eqb_eq a b : sn_eqb a b = true -> a = b.
Proof. destruct a, b. unfold sn_eqb. simpl. intros H. apply andb_prop in H as [H1 H2].
  apply state_eqb_eq in H1. apply Nat.eqb_eq in H2. congruence. Qed.
Lemma sim_policy c o k d : sim_ready c = true -> d = sim_dep c k -> sim_survives true c o k d = true ->
  sim_ready (sim_cstep c o) = true /\ d = sim_dep (sim_cstep c o) k.
Proof. intros Hr Hd Hs. destruct o; simpl in *; try discriminate. auto.
  apply Bool.eqb_prop in Hs. subst b. destruct c; auto. Qed.
Theorem simulator_evolve_cache_history_free c0 h k d :
  snd (kstep _ _ _ _ sn_eqb sim_cstep (sim_survives true) sim_dep sim_ready (krun _ _ _ _ sn_eqb sim_cstep (sim_survives true) sim_dep sim_ready c0 h) (KQuery k)) = Some d ->
  d = sim_dep (fst (krun _ _ _ _ sn_eqb sim_cstep (sim_survives true) sim_dep sim_ready c0 h)) k.
Proof. apply keyed_query_fresh. exact sn_eqb_eq. exact sim_policy. Qed.
(* before 8766d55d: probs_svd under the heralds mask (PNR), then the same basic state with threshold detection *)
Definition w_sim_flip : list (kop (state * nat) sim_op) :=
  [KMut (SimCirc 1); KMut (SimHeralds 1); KMut (SimUseMask true); KQuery ([1; 1]%nat, 2%nat); KMut (SimUseMask false)].
Theorem simulator_evolve_cache_old_code :
  snd (kstep _ _ _ _ sn_eqb sim_cstep (sim_survives false) sim_dep sim_ready
         (krun _ _ _ _ sn_eqb sim_cstep (sim_survives false) sim_dep sim_ready sim_init w_sim_flip) (KQuery ([1; 1]%nat, 2%nat)))
    = Some (1%nat, 1%nat, true) /\
  sim_dep (fst (krun _ _ _ _ sn_eqb sim_cstep (sim_survives false) sim_dep sim_ready sim_init w_sim_flip)) ([1; 1]%nat, 2%nat)
    = (1%nat, 1%nat, false) /\
  snd (kstep _ _ _ _ sn_eqb sim_cstep (sim_survives true) sim_dep sim_ready
         (krun _ _ _ _ sn_eqb sim_cstep (sim_survives true) sim_dep sim_ready sim_init w_sim_flip) (KQuery ([1; 1]%nat, 2%nat)))
    = Some (1%nat, 1%nat, false).
Proof. repeat split; reflexivity. Qed.

(* before bc7ab4f9 / 7e0f70ac the unconditioned queries ran under the mask a previous probs_svd left in the engine *)
Theorem simulator_probs_old_code :
  snd (simm_step false false (simm_run false false [SmHeralds 1; SmProbsSvd 1 true]) (SmQuery SqProbs)) = Some (Some (1%nat, 1%nat)) /\
  snd (simm_step true false (simm_run true false [SmHeralds 1; SmProbsSvd 2 true]) (SmQuery SqProbability)) = Some (Some (1%nat, 2%nat)) /\
  snd (simm_step true false (simm_run true false [SmHeralds 1; SmProbsSvd 2 true]) (SmQuery SqProbAmplitude)) = Some (Some (1%nat, 2%nat)) /\
  snd (simm_step false false (simm_run false false [SmHeralds 1]) (SmQuery SqProbs)) = Some None.
Proof. repeat split; reflexivity. Qed.
(* now: whatever the history, every query is computed under the mask its own configuration determines: none for
   probs(BasicState), probability and prob_amplitude; the one use_mask decides for evolve *)
Theorem simulator_queries_unmasked h q :
  snd (simm_step true true (simm_run true true h) (SmQuery q)) = Some (simm_fresh (simm_run true true h) q).
Proof. destruct q; reflexivity. Qed.
Corollary simulator_unconditioned_unmasked h :
  snd (simm_step true true (simm_run true true h) (SmQuery SqProbs)) = Some None /\
  snd (simm_step true true (simm_run true true h) (SmQuery SqProbability)) = Some None /\
  snd (simm_step true true (simm_run true true h) (SmQuery SqProbAmplitude)) = Some None.
Proof. repeat split; reflexivity. Qed.

(* =============================== MPS bond dimension =============================== *)
Theorem mps_refuted :
  mps_cut (mps_run false [MpsCirc 4; MpsIn 3; MpsIn 2]) = Some 4%nat /\
  mps_fresh (mps_run false [MpsCirc 4; MpsIn 3; MpsIn 2]) = Some 3%nat.
Proof. split; reflexivity. Qed.
Lemma mps_fixed_inv h : forall s, (forall n, mps_n s = Some n -> mps_cut s = mps_fresh s) ->
  forall n, mps_n (fold_left (mps_step true) h s) = Some n ->
  mps_cut (fold_left (mps_step true) h s) = mps_fresh (fold_left (mps_step true) h s).
Proof.
  induction h as [|o h IH]; intros s H; simpl. exact H. apply IH. intros n.
  destruct o; simpl; try discriminate. intros X. inversion X. subst. unfold mps_fresh. simpl. reflexivity.
Qed.
Theorem mps_repaired_history_free h n : mps_n (mps_run true h) = Some n ->
  mps_cut (mps_run true h) = mps_fresh (mps_run true h).
Proof. apply mps_fixed_inv. simpl. discriminate. Qed.
Lemma mps_clamp_idem m n : mps_clamp (Some (mps_clamp None m n)) m n = mps_clamp None m n.
Proof. unfold mps_clamp. set (d := S n). set (D := (d ^ (m / 2))%nat).
  destruct (Nat.min d D <? d)%nat eqn:E.
  - apply Nat.ltb_lt in E. lia.
  - apply Nat.ltb_ge in E. lia. Qed.
Theorem mps_partial_same_input m n k :
  mps_cut (mps_run false (MpsCirc m :: repeat (MpsIn n) (S k))) = Some (mps_clamp None m n).
Proof.
  set (s0 := {| mps_cut := Some (mps_clamp None m n); mps_user := None; mps_m := m; mps_n := Some n |}).
  assert (E : mps_step false s0 (MpsIn n) = s0) by (unfold s0, mps_step; simpl; rewrite mps_clamp_idem; reflexivity).
  assert (F : forall j, fold_left (mps_step false) (repeat (MpsIn n) j) s0 = s0).
  { induction j as [|j IH]; cbn [repeat fold_left]. reflexivity. rewrite E. exact IH. }
  unfold mps_run. cbn [repeat fold_left].
  change (mps_step false (mps_step false mps_init (MpsCirc m)) (MpsIn n)) with s0. rewrite F. reflexivity.
Qed.

(* =============================== closure of the repaired machine's levels =============================== *)
(* the values of the machine are the native ones only over a chain of levels closed under removing a photon
   ([chain_closed]); the repaired machine never leaves that domain *)
Lemma total_cons a (r : state) : total (a :: r) = (a + total r)%nat. Proof. reflexivity. Qed.
Lemma allstates_sound m : forall n u, In u (allstates m n) -> length u = m /\ total u = n.
Proof.
  induction m as [|m IH]; intros n u H.
  - simpl in H. destruct (n =? 0)%nat eqn:E; [|contradiction]. destruct H as [H|[]]. subst u.
    apply Nat.eqb_eq in E. auto.
  - rewrite allstates_S in H. apply in_flat_map in H as [a [Ha H]]. apply in_map_iff in H as [r [Hu Hr]]. subst u.
    apply in_down_from in Ha. destruct (IH _ _ Hr) as [H1 H2]. rewrite total_cons. simpl length. split; lia.
Qed.
Lemma allstates_complete m : forall n u, length u = m -> total u = n -> In u (allstates m n).
Proof.
  induction m as [|m IH]; intros n u Hl Ht.
  - destruct u; [|discriminate]. unfold total in Ht. simpl in Ht. subst n. simpl. auto.
  - destruct u as [|a r]; [discriminate|]. rewrite total_cons in Ht. simpl in Hl.
    rewrite allstates_S. apply in_flat_map. exists a. split. apply in_down_from; lia.
    apply in_map. apply IH; lia.
Qed.
Lemma fsarray_pred m b k u j : In u (fsarray m (S k) b) -> (0 < nth j u 0)%nat -> In (dec u j) (fsarray m k b).
Proof.
  intros Hu Hj.
  assert (G : forall v, In v (allstates m (S k)) -> In (dec v j) (allstates m k) \/ ~ (0 < nth j v 0)%nat).
  { intros v Hv. destruct (allstates_sound _ _ _ Hv) as [H1 H2].
    destruct (Nat.eq_dec (nth j v 0) 0) as [E|E]; [right; lia|left].
    apply allstates_complete. rewrite dec_length; exact H1. pose proof (total_dec v j). lia. }
  destruct b as [[n mks]|]; simpl in *.
  - apply filter_In in Hu as [Hu Hk]. apply filter_In. split.
    + destruct (G u Hu); [auto|contradiction].
    + apply mask_keep_dec. exact Hk.
  - destruct (G u Hu); [auto|contradiction].
Qed.
Lemma fsarray_pred0 m b u j : In u (fsarray m 1 b) -> (0 < nth j u 0)%nat -> In (dec u j) (fsarray m 0 None).
Proof.
  intros Hu Hj. assert (Hv : In u (allstates m 1)).
  { destruct b as [[n mks]|]; simpl in Hu; [apply filter_In in Hu as [Hu _]|]; exact Hu. }
  destruct (allstates_sound _ _ _ Hv) as [H1 H2]. simpl. apply allstates_complete.
  rewrite dec_length; exact H1. pose proof (total_dec u j Hj). lia.
Qed.
Lemma preds_in_ok m (a : arr) u : (forall j, (0 < nth j u 0)%nat -> In (dec u j) a) -> preds_in m a u = true.
Proof.
  intros H. unfold preds_in. apply forallb_forall. intros j _. destruct (0 <? nth j u 0)%nat eqn:E; [|reflexivity].
  apply Nat.ltb_lt in E. apply existsb_exists. exists (dec u j). split; [apply H; exact E|apply state_eqb_refl].
Qed.
Lemma chain_closed_cons m (a : arr) r :
  chain_closed m (a :: r) = (match r with b :: _ => forallb (preds_in m a) b | [] => true end) && chain_closed m r.
Proof. reflexivity. Qed.
Lemma chain_closed_ok m b : forall len s (a : arr),
  (forall u j, In u (fsarray m s b) -> (0 < nth j u 0)%nat -> In (dec u j) a) ->
  chain_closed m (a :: map (fun k => fsarray m k b) (seq s len)) = true.
Proof.
  induction len as [|len IH]; intros s a H.
  - reflexivity.
  - cbn [seq map]. rewrite chain_closed_cons. rewrite (IH (S s) (fsarray m s b)) by (intros u j; apply fsarray_pred).
    rewrite andb_true_r. apply forallb_forall. intros u Hu. apply preds_in_ok. intros j Hj. apply (H u j Hu Hj).
Qed.
Lemma canon_lv_closed m b n : chain_closed m (canon_lv m b n) = true.
Proof. unfold canon_lv. apply chain_closed_ok. intros u j. apply fsarray_pred0. Qed.

Theorem repaired_chain_closed (R : cring) (h : list (sop R)) st m U :
  s_in (srun true true true h) = Some st -> s_circ (srun true true true h) = Some (m, U) ->
  chain_closed m (firstn (S (total st)) (s_lv (srun true true true h))) = true.
Proof.
  intros Ein Hc. pose proof (inv_run R h) as [(Hd & Hm0 & Hwf & Hm1 & Hin) HCa].
  destruct (Hin st Ein) as (m' & U' & Hc' & _ & _ & _ & Hb & Hlk).
  unfold CacheInv in HCa. rewrite Hb in HCa. destruct HCa as (m0 & U0 & L & Hc0 & Hlv & Hf & Hi & Hp').
  rewrite Hc in Hc0. inversion Hc0. subst m0 U0.
  destruct (lookup_st st (s_paths (srun true true true h))) as [U1|] eqn:El; [|congruence].
  destruct (Hp' st U1 El) as (_ & HL & _). destruct Hlv as [[Hl0 _]|Hl1].
  - rewrite Hl0. destruct (total st); reflexivity.
  - rewrite Hl1, firstn_canon by exact HL. apply canon_lv_closed.
Qed.
