(* The permanent (multiset expansion) does not depend on the order in which the input photons are taken:
   whatever order SLOS's path tree feeds them, the coefficients are the same. *)
From PV Require Import Model.Engines Model.Polar Proofs.PolarP.
From Coq Require Import Permutation.

Section PermOrder.
Variable R : cring.
Variable U : mat R.
Variable m : nat.

Lemma permS_permC cols : forall t, permS U m cols t = permC (R:=R) m (map (fun k => fun j => U j k) cols) t.
Proof. induction cols as [|k cols IH]; intros t; simpl. reflexivity.
  apply sumn_ext. intros j _. destruct (0 <? nth j t 0)%nat; auto. rewrite IH. reflexivity. Qed.

Theorem permS_col_perm cols cols' : Permutation cols cols' -> forall t, permS U m cols t = permS U m cols' t.
Proof. intros H t. rewrite !permS_permC. apply permC_perm. apply Permutation_map. exact H. Qed.

Corollary slos_col_perm cols cols' : Permutation cols cols' -> forall t,
  kmul (of_nat (factprod t)) (slos U m cols t) = kmul (of_nat (factprod t)) (slos U m cols' t).
Proof. intros H t. rewrite <- !permS_slos. apply permS_col_perm. exact H. Qed.
End PermOrder.
