(* C04 (extension): the accounting of Simulator.probs_svd + post_select_distribution ([probs_svd_model])
   reports exactly the conditioning specification [condition] of the unconditioned, unmasked mixture. *)
From PV Require Import Model.SelectImpl Proofs.SelectP Proofs.ConvP Proofs.SimulatorP.
Open Scope Qc_scope.
Local Notation S := Datatypes.S.   (* ConvP defines a function named S *)

(* ================= 1. distributions as measures ================= *)
(* [deq]: same probability for every state (the multiset semantics of weighted lists) *)
Definition deq (d1 d2 : dist) : Prop := forall T, pr d1 T = pr d2 T.
Definition wsum (phi : state -> Qc) (d : dist) : Qc :=
  fold_right (fun tw acc => snd tw * phi (fst tw) + acc) 0 d.
Definition ksum (K : list state) (g : state -> Qc) : Qc := fold_right (fun T acc => g T + acc) 0 K.

Lemma state_eqb_refl t : state_eqb t t = true. Proof. apply state_eqb_eq. reflexivity. Qed.
Lemma state_eqb_neq a b : a <> b -> state_eqb a b = false.
Proof. intros H. destruct (state_eqb a b) eqn:E; auto. apply state_eqb_eq in E. contradiction. Qed.
Definition state_dec : forall a b : state, {a = b} + {a <> b} := list_eq_dec Nat.eq_dec.

Lemma ksum_ext K g1 g2 : (forall T, g1 T = g2 T) -> ksum K g1 = ksum K g2.
Proof. intros H. induction K; simpl; auto. rewrite H, IHK. reflexivity. Qed.
Lemma ksum_add K g1 g2 : ksum K (fun T => g1 T + g2 T) = ksum K g1 + ksum K g2.
Proof. induction K; simpl. ring. rewrite IHK. ring. Qed.
Lemma ksum_delta_out K t (g : state -> Qc) : ~ In t K -> ksum K (fun T => if state_eqb t T then g T else 0) = 0.
Proof. induction K as [|a K IH]; simpl; intros H. reflexivity.
  rewrite state_eqb_neq by (intros ->; apply H; left; reflexivity). rewrite IH. ring. intros Hin; apply H; right; exact Hin. Qed.
Lemma ksum_delta K t (g : state -> Qc) : NoDup K -> In t K -> ksum K (fun T => if state_eqb t T then g T else 0) = g t.
Proof. induction K as [|a K IH]; simpl; intros Hnd Hin. contradiction.
  inversion Hnd; subst. destruct (state_dec a t) as [->|Hne].
  - rewrite state_eqb_refl. rewrite ksum_delta_out; [ring|assumption].
  - rewrite state_eqb_neq by congruence. destruct Hin as [Hin|Hin]; [contradiction|]. rewrite IH by assumption. ring. Qed.

Lemma wsum_ksum phi d K : NoDup K -> (forall tw, In tw d -> In (fst tw) K) ->
  wsum phi d = ksum K (fun T => phi T * pr d T).
Proof. intros Hnd. induction d as [|[t w] d IH]; intros Hin; simpl.
  - clear. induction K; simpl; [reflexivity|]. rewrite <- IHK. ring.
  - rewrite IH by (intros tw H; apply Hin; right; exact H).
    rewrite <- (ksum_delta K t (fun T => w * phi T) Hnd (Hin (t, w) (or_introl eq_refl))).
    rewrite <- ksum_add. apply ksum_ext. intros T. destruct (state_eqb t T); ring. Qed.

Theorem deq_wsum phi d1 d2 : deq d1 d2 -> wsum phi d1 = wsum phi d2.
Proof. intros H. set (K := nodup state_dec (map fst d1 ++ map fst d2)).
  assert (Hnd : NoDup K) by apply NoDup_nodup.
  rewrite (wsum_ksum phi d1 K Hnd), (wsum_ksum phi d2 K Hnd).
  - apply ksum_ext. intros T. rewrite H. reflexivity.
  - intros tw Hin. apply nodup_In, in_or_app. right. apply in_map. exact Hin.
  - intros tw Hin. apply nodup_In, in_or_app. left. apply in_map. exact Hin. Qed.

Lemma mass_wsum d : mass d = wsum (fun _ => 1) d.
Proof. induction d as [|tw d IH]; simpl. reflexivity. rewrite IH. ring. Qed.
Lemma pr_dmap_wsum f d T : pr (dmap f d) T = wsum (fun t => if state_eqb (f t) T then 1 else 0) d.
Proof. induction d as [|tw d IH]; simpl. reflexivity. rewrite IH. destruct (state_eqb (f (fst tw)) T); ring. Qed.

Lemma deq_refl d : deq d d. Proof. intros T. reflexivity. Qed.
Lemma deq_sym d1 d2 : deq d1 d2 -> deq d2 d1. Proof. intros H T. symmetry. apply H. Qed.
Lemma deq_trans d1 d2 d3 : deq d1 d2 -> deq d2 d3 -> deq d1 d3.
Proof. intros H1 H2 T. rewrite H1. apply H2. Qed.
Theorem deq_mass d1 d2 : deq d1 d2 -> mass d1 = mass d2.
Proof. intros H. rewrite !mass_wsum. apply deq_wsum. exact H. Qed.
Theorem deq_dmap f d1 d2 : deq d1 d2 -> deq (dmap f d1) (dmap f d2).
Proof. intros H T. rewrite !pr_dmap_wsum. apply deq_wsum. exact H. Qed.
Lemma deq_dfilter P d1 d2 : deq d1 d2 -> deq (dfilter P d1) (dfilter P d2).
Proof. intros H T. rewrite !pr_dfilter, H. reflexivity. Qed.
Lemma deq_dscale c d1 d2 : deq d1 d2 -> deq (dscale c d1) (dscale c d2).
Proof. intros H T. rewrite !pr_dscale, H. reflexivity. Qed.
Lemma deq_dmerge d : deq (dmerge d) d. Proof. intros T. apply pr_dmerge. Qed.
Lemma deq_normalize d1 d2 : deq d1 d2 -> deq (normalize d1) (normalize d2).
Proof. intros H T. unfold normalize. rewrite <- (deq_mass _ _ H).
  destruct (Qc_eq_dec (mass d1) 0); [apply H | rewrite !pr_dscale, H; reflexivity]. Qed.
Lemma deq_app d1 d2 e1 e2 : deq d1 d2 -> deq e1 e2 -> deq (d1 ++ e1) (d2 ++ e2).
Proof. intros H1 H2 T. rewrite !pr_app, H1, H2. reflexivity. Qed.

(* a non-zero rescaling disappears under normalisation *)
Lemma pr_normalize d T : mass d <> 0 -> pr (normalize d) T = pr d T / mass d.
Proof. intros H. unfold normalize. destruct (Qc_eq_dec (mass d) 0); [contradiction|].
  rewrite pr_dscale. field. exact H. Qed.
Lemma normalize_dscale c d : c <> 0 -> mass d <> 0 -> deq (normalize (dscale c d)) (normalize d).
Proof. intros Hc Hm T. rewrite !pr_normalize; auto.
  - rewrite mass_dscale, pr_dscale. field. split; assumption.
  - rewrite mass_dscale. intros E. apply Qcmult_integral in E. tauto. Qed.

(* ================= 2. non-negative weights ================= *)
Definition nonneg (d : dist) : Prop := forall tw, In tw d -> 0 <= snd tw.
Lemma Qc01 : 0 <= 1. Proof. unfold Qcle, Qle. simpl. lia. Qed.
Lemma Qcmult_nonneg a b : 0 <= a -> 0 <= b -> 0 <= a * b.
Proof. intros Ha Hb. replace 0 with (0 * b) by ring. apply Qcmult_le_compat_r; assumption. Qed.
Lemma mass_nonneg d : nonneg d -> 0 <= mass d.
Proof. induction d as [|tw d IH]; simpl; intros H. apply Qcle_refl.
  replace 0 with (0 + 0) by ring. apply Qcplus_le_compat.
  - apply H. left. reflexivity.
  - apply IH. intros x Hx. apply H. right. exact Hx. Qed.
Lemma nonneg_dfilter P d : nonneg d -> nonneg (dfilter P d).
Proof. intros H tw Hin. apply filter_In in Hin. apply H, Hin. Qed.
Lemma nonneg_dscale c d : 0 <= c -> nonneg d -> nonneg (dscale c d).
Proof. intros Hc H tw Hin. apply in_map_iff in Hin as [x [<- Hx]]. simpl. apply Qcmult_nonneg; auto. Qed.
Lemma nonneg_app d1 d2 : nonneg d1 -> nonneg d2 -> nonneg (d1 ++ d2).
Proof. intros H1 H2 tw Hin. apply in_app_or in Hin as [Hin|Hin]; auto. Qed.
Lemma mass_dfilter_le P d : nonneg d -> mass (dfilter P d) <= mass d.
Proof. intros H. rewrite (mass_dfilter_split P d).
  pose proof (mass_nonneg _ (nonneg_dfilter (fun t => negb (P t)) d H)) as Hn.
  rewrite <- (Qcplus_0_r (mass (dfilter P d))) at 1. apply Qcplus_le_compat; [apply Qcle_refl | exact Hn]. Qed.
Lemma conv2_In tw d1 d2 : In tw (conv2 d1 d2) ->
  exists tw1 tw2, In tw1 d1 /\ In tw2 d2 /\ tw = (state_add (fst tw1) (fst tw2), snd tw1 * snd tw2).
Proof. unfold conv2. intros H. apply in_flat_map in H as [tw1 [H1 H]]. apply in_map_iff in H as [tw2 [E H2]].
  exists tw1, tw2. auto. Qed.
Lemma nonneg_conv2 d1 d2 : nonneg d1 -> nonneg d2 -> nonneg (conv2 d1 d2).
Proof. intros H1 H2 tw Hin. apply conv2_In in Hin as [tw1 [tw2 [I1 [I2 ->]]]]. simpl. apply Qcmult_nonneg; auto. Qed.
Lemma nonneg_conv_all ds : (forall d, In d ds -> nonneg d) -> nonneg (conv_all ds).
Proof. induction ds as [|d ds IH]; intros H.
  - intros tw [<-|[]]. exact Qc01.
  - simpl. apply nonneg_conv2. apply H; left; reflexivity. apply IH. intros x Hx. apply H. right. exact Hx. Qed.
Lemma pos_of_nonneg_ne x : 0 <= x -> x <> 0 -> 0 < x.
Proof. intros H Hne. destruct (Qclt_le_dec 0 x) as [L|L]; auto. exfalso. apply Hne. apply Qcle_antisym; assumption. Qed.

(* ================= 3. photon conservation and lengths through conv_all ================= *)
Definition keys (d : dist) : list state := map fst d.
Definition supp (n L : nat) (d : dist) : Prop := forall t w, In (t, w) d -> total t = n /\ length t = L.
Lemma total_state_add a : forall b, total (state_add a b) = (total a + total b)%nat.
Proof. induction a as [|x a IH]; intros b. reflexivity.
  destruct b as [|y b]; cbn [state_add].
  - change (total []) with 0%nat. lia.
  - rewrite !total_cons, IH. lia. Qed.
Lemma conv_all_supp L ns ds : Forall2 (fun n d => supp n L d) ns ds ->
  forall t w, In (t, w) (conv_all ds) -> total t = fold_right Nat.add 0%nat ns /\ (ds <> [] -> length t = L).
Proof. induction 1 as [|n d ns ds Hd Hr IH]; intros t w Hin.
  - destruct Hin as [E|[]]. injection E as <- _. split; [reflexivity | congruence].
  - simpl in Hin. apply conv2_In in Hin as [[t1 w1] [[t2 w2] [I1 [I2 E]]]]. simpl in E. injection E as -> _.
    destruct (Hd _ _ I1) as [T1 L1]. destruct (IH _ _ I2) as [T2 L2].
    split. rewrite total_state_add, T1, T2. reflexivity.
    intros _. destruct ds as [|d' ds'].
    + destruct I2 as [E2|[]]. injection E2 as <- _. rewrite state_add_nil_r. exact L1.
    + rewrite state_add_length; [exact L1|]. rewrite L1, L2; [reflexivity | discriminate]. Qed.
Lemma supp_filtered L Ps : forall ns ds, Forall2 (fun n d => supp n L d) ns ds ->
  Forall2 (fun n d => supp n L d) ns (filtered Ps ds).
Proof. induction Ps as [|P Ps IH]; intros ns ds H.
  - induction H; simpl; constructor; auto.
  - destruct H; simpl; constructor; auto. intros t w Hin. apply filter_In in Hin. apply (H t w), Hin. Qed.
Lemma pr_zero d T : ~ In T (keys d) -> pr d T = 0.
Proof. induction d as [|[t w] d IH]; simpl; intros H. reflexivity.
  rewrite state_eqb_neq, IH. ring. intros Hin; apply H; right; exact Hin. intros ->; apply H; left; reflexivity. Qed.
Lemma in_keys t d : In t (keys d) -> exists w, In (t, w) d.
Proof. unfold keys. intros H. apply in_map_iff in H as [[t' w] [E Hin]]. simpl in E. subst. eauto. Qed.

(* ================= 4. heralds (mode, value) versus the mask string ================= *)
Definition wf_heralds (m : nat) (h : heralds) : Prop :=
  NoDup (map fst h) /\ (forall mv, In mv h -> (fst mv < m)%nat).

Lemma herald_mask_from_length h : forall k i, length (herald_mask_from i k h) = k.
Proof. induction k as [|k IH]; intros i; simpl; auto. Qed.
Lemma herald_mask_length m h : length (herald_mask m h) = m.
Proof. apply herald_mask_from_length. Qed.

Lemma heralds_ok_mask_from h T : heralds_ok h T = true ->
  forall k i T', (forall j, nth j T' 0%nat = nth (i + j) T 0%nat) -> mask_exact (herald_mask_from i k h) T' = true.
Proof. intros Hok. induction k as [|k IH]; intros i T' Hn. reflexivity.
  destruct T' as [|x T'']. { cbn [herald_mask_from]. destruct (find _ h); reflexivity. }
  cbn [herald_mask_from mask_exact].
  assert (Hrest : mask_exact (herald_mask_from (S i) k h) T'' = true).
  { apply IH. intros j. specialize (Hn (S j)). simpl in Hn. rewrite Hn. f_equal. lia. }
  destruct (find (fun mv => (fst mv =? i)%nat) h) as [mv|] eqn:Ef; [|exact Hrest].
  apply find_some in Ef as [Hin Hi]. apply Nat.eqb_eq in Hi.
  unfold heralds_ok in Hok. rewrite forallb_forall in Hok. specialize (Hok mv Hin). apply Nat.eqb_eq in Hok.
  specialize (Hn 0%nat). simpl in Hn. rewrite Nat.add_0_r, <- Hi, Hok in Hn. subst x.
  rewrite Nat.eqb_refl. exact Hrest. Qed.
(* a state showing the heralded values shows the values of the mask *)
Theorem heralds_ok_mask_exact m h T : heralds_ok h T = true -> mask_exact (herald_mask m h) T = true.
Proof. intros H. apply (heralds_ok_mask_from h T H m 0%nat T). intros j. reflexivity. Qed.

(* the mask's fixed photon number is the heralds' photon number (Simulator._n_heralds) *)
Definition in_window (i k : nat) (mv : nat * nat) : bool := (i <=? fst mv)%nat && (fst mv <? i + k)%nat.
Lemma in_window_iff i k mv : in_window i k mv = true <-> (i <= fst mv < i + k)%nat.
Proof. unfold in_window. rewrite andb_true_iff, Nat.leb_le, Nat.ltb_lt. reflexivity. Qed.
Lemma herald_total_window_step h : NoDup (map fst h) -> forall i k,
  herald_total (filter (in_window i (S k)) h)
  = ((match find (fun mv => (fst mv =? i)%nat) h with Some mv => snd mv | None => 0 end)
     + herald_total (filter (in_window (S i) k) h))%nat.
Proof. induction h as [|[j v] h IH]; intros Hnd i k. reflexivity.
  inversion Hnd as [|? ? Hnotin Hnd']; subst. cbn [filter find fst].
  destruct (j =? i)%nat eqn:E.
  - apply Nat.eqb_eq in E. subst j.
    assert (W1 : in_window i (S k) (i, v) = true) by (apply in_window_iff; cbn [fst]; lia).
    assert (W2 : in_window (S i) k (i, v) = false)
      by (apply not_true_is_false; rewrite in_window_iff; cbn [fst]; lia).
    rewrite W1, W2. cbn [herald_total fold_right snd]. fold (herald_total (filter (in_window i (S k)) h)).
    rewrite IH by assumption.
    assert (Hf : find (fun mv => (fst mv =? i)%nat) h = None).
    { destruct (find (fun mv => (fst mv =? i)%nat) h) as [mv|] eqn:Ef; auto. apply find_some in Ef as [Hin Hi].
      apply Nat.eqb_eq in Hi. exfalso. apply Hnotin. rewrite <- Hi. apply in_map. exact Hin. }
    rewrite Hf. reflexivity.
  - apply Nat.eqb_neq in E.
    assert (W : in_window i (S k) (j, v) = in_window (S i) k (j, v))
      by (apply eq_true_iff_eq; rewrite !in_window_iff; cbn [fst]; lia).
    rewrite W. destruct (in_window (S i) k (j, v)).
    + cbn [herald_total fold_right snd]. fold (herald_total (filter (in_window i (S k)) h)).
      fold (herald_total (filter (in_window (S i) k) h)). rewrite IH by assumption. lia.
    + apply IH. assumption. Qed.
Lemma mask_fixed_total_from h : NoDup (map fst h) -> forall k i,
  mask_fixed_total (herald_mask_from i k h) = herald_total (filter (in_window i k) h).
Proof. intros Hnd. induction k as [|k IH]; intros i.
  - simpl. induction h as [|mv h IHh]; simpl; auto.
    assert (W : in_window i 0 mv = false) by (apply not_true_is_false; rewrite in_window_iff; lia).
    rewrite W. apply IHh. inversion Hnd; assumption.
  - rewrite herald_total_window_step by assumption. cbn [herald_mask_from].
    destruct (find (fun mv => (fst mv =? i)%nat) h) as [mv|]; cbn [mask_fixed_total]; rewrite IH; reflexivity. Qed.
Theorem mask_fixed_total_herald_mask m h : wf_heralds m h ->
  mask_fixed_total (herald_mask m h) = herald_total h.
Proof. intros [Hnd Hr]. unfold herald_mask. rewrite mask_fixed_total_from by assumption. f_equal.
  clear Hnd. induction h as [|mv h IH]; simpl; auto.
  assert (W : in_window 0 m mv = true).
  { apply in_window_iff. split; [lia|]. apply Hr. left. reflexivity. }
  rewrite W, IH; auto. intros x Hx. apply Hr. right. exact Hx. Qed.

(* ================= 5. dictionaries: keys of dinsert / dmerge / accumulate; dassign ================= *)
Lemma keys_dinsert t w d x : In x (keys (dinsert t w d)) -> x = t \/ In x (keys d).
Proof. induction d as [|[t' w'] d IH]; simpl.
  - intros [<-|[]]. left. reflexivity.
  - destruct (state_eqb t' t); simpl; intros [<-|H]; auto. destruct (IH H); auto. Qed.
Lemma NoDup_dinsert t w d : NoDup (keys d) -> NoDup (keys (dinsert t w d)).
Proof. induction d as [|[t' w'] d IH]; simpl; intros H.
  - constructor; [intros [] | constructor].
  - inversion H as [|? ? Hn Hd]; subst. destruct (state_eqb t' t) eqn:E; simpl.
    + constructor; assumption.
    + constructor; [|apply IH; exact Hd]. intros Hin. apply keys_dinsert in Hin as [->|Hin]; [|contradiction].
      rewrite state_eqb_refl in E. discriminate. Qed.
Lemma keys_dscale c d : keys (dscale c d) = keys d.
Proof. unfold keys, dscale. rewrite map_map. reflexivity. Qed.
Lemma keys_normalize d : keys (normalize d) = keys d.
Proof. unfold normalize. destruct (Qc_eq_dec (mass d) 0); [reflexivity | apply keys_dscale]. Qed.
Lemma keys_dfilter P d : keys (dfilter P d) = filter P (keys d).
Proof. induction d as [|[t w] d IH]; simpl; auto. destruct (P t); simpl; rewrite IH; reflexivity. Qed.

Lemma pr_accumulate c d : forall res T, pr (accumulate c d res) T = pr res T + c * pr d T.
Proof. unfold accumulate. induction d as [|[t w] d IH]; intros res T; simpl. ring.
  rewrite IH, pr_dinsert. destruct (state_eqb t T); ring. Qed.
Lemma keys_accumulate c d : forall res x, In x (keys (accumulate c d res)) -> In x (keys res) \/ In x (keys d).
Proof. unfold accumulate. induction d as [|[t w] d IH]; intros res x; simpl; auto.
  intros H. apply IH in H as [H|H]; auto. apply keys_dinsert in H as [->|H]; auto. Qed.
Lemma NoDup_accumulate c d : forall res, NoDup (keys res) -> NoDup (keys (accumulate c d res)).
Proof. unfold accumulate. induction d as [|[t w] d IH]; intros res H; simpl; auto. apply IH, NoDup_dinsert, H. Qed.
Lemma keys_dmerge d x : In x (keys (dmerge d)) -> In x (keys d).
Proof. unfold dmerge. assert (G : forall acc, In x (keys (fold_left (fun acc tw => dinsert (fst tw) (snd tw) acc) d acc)) ->
    In x (keys acc) \/ In x (keys d)).
  { induction d as [|[t w] d IH]; intros acc; simpl; auto. intros H. apply IH in H as [H|H]; auto.
    apply keys_dinsert in H as [->|H]; auto. }
  intros H. apply G in H as [[]|H]. exact H. Qed.

Lemma dassign_fresh t w acc : ~ In t (keys acc) -> dassign t w acc = acc ++ [(t, w)].
Proof. induction acc as [|[t' w'] acc IH]; simpl; intros H. reflexivity.
  rewrite state_eqb_neq by (intros ->; apply H; left; reflexivity). rewrite IH; auto. Qed.

(* post_select_distribution's loop, when the reported keys never collide *)
Definition out_state (h : heralds) (keep : bool) (t : state) : state := if keep then t else remove_heralds h t.
Lemma ps_fold h p keep d : forall acc lp,
  NoDup (keys acc ++ map (out_state h keep) (keys (dfilter (passes h p) d))) ->
  fold_left (ps_step h p keep) d (acc, lp)
  = (acc ++ dmap (out_state h keep) (dfilter (passes h p) d),
     lp - mass (dfilter (fun t => negb (passes h p t)) d)).
Proof. induction d as [|[t w] d IH]; intros acc lp Hnd; simpl.
  - rewrite app_nil_r. f_equal. ring.
  - unfold ps_step at 2. cbn [fst snd]. simpl in Hnd. destruct (passes h p t) eqn:Pt; simpl in *.
    + assert (Hfresh : ~ In (out_state h keep t) (keys acc)).
      { apply NoDup_remove_2 in Hnd. intros Hin. apply Hnd. apply in_or_app. left. exact Hin. }
      fold (out_state h keep t). rewrite dassign_fresh by exact Hfresh. rewrite IH.
      * rewrite <- app_assoc. reflexivity.
      * unfold keys in *. rewrite map_app. simpl. rewrite <- app_assoc. simpl. exact Hnd.
    + rewrite IH by exact Hnd. f_equal. ring. Qed.
Lemma NoDup_map_inj_on {A B} (f : A -> B) l :
  NoDup l -> (forall a b, In a l -> In b l -> f a = f b -> a = b) -> NoDup (map f l).
Proof. induction l as [|a l IH]; simpl; intros Hnd Hinj. constructor.
  inversion Hnd as [|? ? Hn Hd]; subst. constructor.
  - intros Hin. apply in_map_iff in Hin as [b [E Hb]]. apply Hn.
    rewrite (Hinj a b); auto. 
  - apply IH; auto. Qed.

(* removing the heralded modes is injective on the states showing the heralded values *)
Lemma remove_modes_inj h : forall t t' i, length t = length t' ->
  (forall k, is_herald h (i + k) = true -> nth k t 0%nat = nth k t' 0%nat) ->
  remove_modes_from i h t = remove_modes_from i h t' -> t = t'.
Proof. induction t as [|x t IH]; intros [|x' t'] i Hl Hh E; simpl in *; try discriminate; auto.
  assert (Hh' : forall k, is_herald h (S i + k) = true -> nth k t 0%nat = nth k t' 0%nat).
  { intros k Hk. apply (Hh (S k)). rewrite <- Hk. f_equal. lia. }
  destruct (is_herald h i) eqn:Hi.
  - f_equal. apply (Hh 0%nat). rewrite Nat.add_0_r. exact Hi. apply (IH t' (S i)); auto.
  - injection E as -> E. f_equal. apply (IH t' (S i)); auto. Qed.
Lemma heralds_ok_values h t t' j : heralds_ok h t = true -> heralds_ok h t' = true -> is_herald h j = true ->
  nth j t 0%nat = nth j t' 0%nat.
Proof. unfold heralds_ok, is_herald. rewrite !forallb_forall, existsb_exists. intros H1 H2 [mv [Hin E]].
  apply Nat.eqb_eq in E. subst j. specialize (H1 mv Hin). specialize (H2 mv Hin).
  apply Nat.eqb_eq in H1, H2. congruence. Qed.
Lemma out_state_inj h keep t t' : length t = length t' -> heralds_ok h t = true -> heralds_ok h t' = true ->
  out_state h keep t = out_state h keep t' -> t = t'.
Proof. destruct keep; simpl; auto. intros Hl H1 H2 E. apply (remove_modes_inj h t t' 0%nat Hl); auto.
  intros k Hk. apply (heralds_ok_values h); auto. Qed.

(* ================= 6. well-formed inputs; the two mixtures ================= *)
(* a tag group: a probability distribution over m-mode states with exactly n_own photons *)
Definition wf_group (m : nat) (g : group) : Prop :=
  mass (snd g) = 1 /\ nonneg (snd g) /\ supp (fst g) m (snd g).
Definition wf_input (m : nat) (i : input) : Prop :=
  0 <= fst i /\ snd i <> [] /\ (forall g, In g (snd i) -> wf_group m g).
Definition psum (l : list input) : Qc := fold_right (fun i acc => fst i + acc) 0 l.
Definition wf_mix (m : nat) (mix : list input) : Prop :=
  (forall i, In i mix -> wf_input m i) /\ psum mix = 1.

Definition Ud (i : input) : dist := conv_all (map (@snd nat dist) (snd i)).
Definition Md (um : bool) (mk : mask) (nh : nat) (i : input) : dist :=
  conv_all (map (masked_group um mk nh (n_in (snd i))) (snd i)).
Lemma Md_false mk nh i : Md false mk nh i = Ud i. Proof. reflexivity. Qed.
Definition mixd (G : input -> dist) (l : list input) : dist := flat_map (fun i => dscale (fst i) (G i)) l.

Lemma full_dist_mixd l : full_dist l = mixd Ud l. Proof. reflexivity. Qed.
(* the reference distribution is the probability-weighted mixture of the merged group distributions *)
Lemma full_dist_mixture l : full_dist l = mixture (map (fun i => (fst i, Ud i)) l).
Proof. unfold full_dist, mixture. induction l as [|i l IH]; simpl; [reflexivity | rewrite IH; reflexivity]. Qed.

Lemma pr_mixd_ext G1 G2 l T : (forall i, In i l -> pr (G1 i) T = pr (G2 i) T) -> pr (mixd G1 l) T = pr (mixd G2 l) T.
Proof. induction l as [|i l IH]; intros H; simpl. reflexivity. unfold mixd in *. simpl.
  rewrite !pr_app, !pr_dscale, H, IH; auto. intros x Hx; apply H; right; exact Hx. left; reflexivity. Qed.
Lemma nonneg_mixd G l : (forall i, In i l -> 0 <= fst i /\ nonneg (G i)) -> nonneg (mixd G l).
Proof. induction l as [|i l IH]; intros H. intros tw []. unfold mixd in *. simpl. apply nonneg_app.
  - destruct (H i (or_introl eq_refl)). apply nonneg_dscale; assumption.
  - apply IH. intros x Hx. apply H. right. exact Hx. Qed.
Lemma mass_mixd G l : (forall i, In i l -> mass (G i) = 1) -> mass (mixd G l) = psum l.
Proof. induction l as [|i l IH]; intros H; simpl. reflexivity. unfold mixd in *. simpl.
  rewrite mass_app, mass_dscale, H, IH. ring. intros x Hx; apply H; right; exact Hx. left; reflexivity. Qed.

Lemma n_in_map gs : n_in gs = fold_right Nat.add 0%nat (map fst gs).
Proof. induction gs as [|g gs IH]; simpl; auto. Qed.
Lemma groups_supp m gs : (forall g, In g gs -> wf_group m g) ->
  Forall2 (fun n d => supp n m d) (map fst gs) (map (@snd nat dist) gs).
Proof. induction gs as [|g gs IH]; intros H; simpl; constructor.
  - apply (H g). left. reflexivity.
  - apply IH. intros x Hx. apply H. right. exact Hx. Qed.
Lemma masked_is_filtered mk n gs :
  map (masked_group true mk (mask_fixed_total mk) n) gs = filtered (budget_preds mk n (map fst gs)) (map (@snd nat dist) gs).
Proof. induction gs as [|g gs IH]; simpl. reflexivity. rewrite IH. reflexivity. Qed.

Section Groups.
Variables (m : nat) (mk : mask).
Hypothesis Hlen : length mk = m.
Let nh := mask_fixed_total mk.

Lemma Ud_supp i : wf_input m i -> supp (n_in (snd i)) m (Ud i).
Proof. intros [_ [Hne Hg]] t w Hin. unfold Ud in Hin.
  destruct (conv_all_supp m _ _ (groups_supp m _ Hg) t w Hin) as [Ht Hl]. split.
  - rewrite n_in_map. exact Ht.
  - apply Hl. destruct (snd i); [congruence | discriminate]. Qed.
Lemma Md_supp um i : wf_input m i -> supp (n_in (snd i)) m (Md um mk nh i).
Proof. destruct um; [|apply Ud_supp]. intros [_ [Hne Hg]] t w Hin. unfold Md, nh in Hin. rewrite masked_is_filtered in Hin.
  destruct (conv_all_supp m _ _ (supp_filtered m _ _ _ (groups_supp m _ Hg)) t w Hin) as [Ht Hl]. split.
  - rewrite n_in_map. exact Ht.
  - apply Hl. destruct (snd i); [congruence|]. simpl. destruct (budget_preds _ _ _); discriminate. Qed.
Lemma mass_Ud i : wf_input m i -> mass (Ud i) = 1.
Proof. intros [_ [_ Hg]]. unfold Ud. rewrite mass_conv_all. induction (snd i) as [|g gs IH]; simpl. reflexivity.
  destruct (Hg g (or_introl eq_refl)) as [-> _]. rewrite IH. ring. intros x Hx. apply Hg. right. exact Hx. Qed.
Lemma nonneg_Ud i : wf_input m i -> nonneg (Ud i).
Proof. intros [_ [_ Hg]]. apply nonneg_conv_all. intros d Hd. apply in_map_iff in Hd as [g [<- Hin]]. apply (Hg g Hin). Qed.
Lemma nonneg_Md um i : wf_input m i -> nonneg (Md um mk nh i).
Proof. destruct um; [|apply nonneg_Ud]. intros [_ [_ Hg]]. apply nonneg_conv_all. intros d Hd. apply in_map_iff in Hd as [g [<- Hin]].
  apply nonneg_dfilter. apply (Hg g Hin). Qed.

Lemma supp_not_key n L d T : supp n L d -> total T <> n -> ~ In T (keys d).
Proof. intros Hs Hne Hin. apply in_keys in Hin as [w Hin]. apply Hne. apply (Hs T w Hin). Qed.

(* masking the groups of one input is invisible on every outcome showing the heralded values *)
Lemma pr_Md_Ud um i T : wf_input m i -> mask_exact mk T = true -> pr (Md um mk nh i) T = pr (Ud i) T.
Proof. destruct um; [|reflexivity]. intros Hw Hex. destruct (Nat.eq_dec (total T) (n_in (snd i))) as [E|E].
  - unfold Md, Ud, nh. rewrite masked_is_filtered. apply herald_mask_invisible; auto.
    destruct Hw as [_ [_ Hg]]. rewrite Hlen. exact (groups_supp m _ Hg).
  - rewrite !pr_zero; auto.
    + apply (supp_not_key _ _ _ _ (Ud_supp i Hw) E).
    + apply (supp_not_key _ _ _ _ (Md_supp true i Hw) E). Qed.

(* ---- _preprocess_svd ---- *)
Lemma pre_phys_gen F mix : forall a,
  fold_left (fun acc (i : input) => if (F <=? n_in (snd i))%nat then acc else acc - fst i) mix a
  = a - psum mix + psum (pre_kept F mix).
Proof. induction mix as [|i mix IH]; intros a; simpl. ring.
  rewrite IH. destruct (F <=? n_in (snd i))%nat; simpl; ring. Qed.
Lemma dfilter_const (P : state -> bool) b d : (forall tw, In tw d -> P (fst tw) = b) ->
  dfilter P d = if b then d else [].
Proof. induction d as [|tw d IH]; intros H; simpl. destruct b; reflexivity.
  rewrite (H tw (or_introl eq_refl)). rewrite IH by (intros x Hx; apply H; right; exact Hx).
  destruct b; reflexivity. Qed.
Lemma dfilter_app P d1 d2 : dfilter P (d1 ++ d2) = dfilter P d1 ++ dfilter P d2.
Proof. unfold dfilter. apply filter_app. Qed.
(* lossless PNR: an outcome passes the photon filter iff its input's photon number does *)
Lemma filter_full_dist F mix : (forall i, In i mix -> wf_input m i) ->
  dfilter (fun t => (F <=? total t)%nat) (full_dist mix) = full_dist (pre_kept F mix).
Proof. induction mix as [|i mix IH]; intros Hw. reflexivity.
  change (full_dist (i :: mix)) with (dscale (fst i) (Ud i) ++ full_dist mix).
  rewrite dfilter_app, IH by (intros x Hx; apply Hw; right; exact Hx).
  rewrite (dfilter_const _ (F <=? n_in (snd i))%nat).
  - cbn [pre_kept filter]. destruct (F <=? n_in (snd i))%nat; reflexivity.
  - intros [t w] Hin. apply in_map_iff in Hin as [[t' w'] [E Hin]]. simpl in E. injection E as <- _. simpl.
    destruct (Ud_supp i (Hw i (or_introl eq_refl)) t' w' Hin) as [-> _]. reflexivity. Qed.
Lemma pre_kept_wf F mix i : (forall i, In i mix -> wf_input m i) -> In i (pre_kept F mix) -> wf_input m i.
Proof. intros H Hin. apply filter_In in Hin. apply H, Hin. Qed.

(* ---- _probs_svd_fast: the loop computes the mixture of the masked merged distributions ---- *)
Lemma probs_in_s_deq um i : snd i <> [] -> deq (probs_in_s um mk nh (snd i)) (Md um mk nh i).
Proof. intros Hne. unfold probs_in_s, Md. destruct (snd i) as [|g gs] eqn:E; [congruence|]. apply deq_dmerge. Qed.
Lemma probs_in_s_keys um i x : In x (keys (probs_in_s um mk nh (snd i))) -> In x (keys (Md um mk nh i)).
Proof. unfold probs_in_s, Md. destruct (snd i) as [|g gs] eqn:E. intros []. apply keys_dmerge. Qed.
Lemma fast_fold um l : (forall i, In i l -> snd i <> []) -> forall r lp,
  deq (fst (fold_left (fast_step um mk nh) l (r, lp))) (r ++ mixd (Md um mk nh) l)
  /\ snd (fold_left (fast_step um mk nh) l (r, lp)) = lp + mass (mixd (Md um mk nh) l).
Proof. induction l as [|i l IH]; intros Hne r lp; simpl.
  - split. rewrite app_nil_r. apply deq_refl. ring.
  - destruct (IH (fun x Hx => Hne x (or_intror Hx)) (fst (fast_step um mk nh (r, lp) i)) (snd (fast_step um mk nh (r, lp) i))) as [H1 H2].
    rewrite <- surjective_pairing in H1, H2.
    pose proof (probs_in_s_deq um i (Hne i (or_introl eq_refl))) as Hd.
    split.
    + eapply deq_trans. exact H1. unfold mixd. simpl. intros T. rewrite !pr_app, pr_accumulate, pr_dscale, Hd. ring.
    + rewrite H2. unfold mixd. simpl. rewrite mass_app, mass_dscale, (deq_mass _ _ Hd). ring. Qed.
Lemma fast_fold_keys um (P : state -> Prop) l : (forall i x, In i l -> In x (keys (Md um mk nh i)) -> P x) -> forall r lp,
  NoDup (keys r) -> (forall x, In x (keys r) -> P x) ->
  NoDup (keys (fst (fold_left (fast_step um mk nh) l (r, lp))))
  /\ (forall x, In x (keys (fst (fold_left (fast_step um mk nh) l (r, lp)))) -> P x).
Proof. induction l as [|i l IH]; intros HP r lp Hnd Hr; simpl. auto.
  rewrite (surjective_pairing (fast_step um mk nh (r, lp) i)). apply IH.
  - intros j x Hj. apply HP. right. exact Hj.
  - simpl. apply NoDup_accumulate. exact Hnd.
  - simpl. intros x Hx. apply keys_accumulate in Hx as [Hx|Hx]; auto.
    apply (HP i x (or_introl eq_refl)). apply probs_in_s_keys. exact Hx. Qed.
End Groups.

(* ================= 7. the accounting of probs_svd ================= *)
(* probs_svd_model with the mask, the herald photon number and the filter as free parameters *)
Definition model_core (um : bool) (mk : mask) (nh F : nat) (h : heralds) (p : ps) (keep : bool) (mix : list input) : report :=
  let phys := pre_phys F mix in
  let rl := probs_svd_fast um mk nh (pre_kept F mix) in
  let lp := if Qc_pos (snd rl) && Qc_pos phys then snd rl / phys else snd rl in
  match fst rl with
  | [] => {| r_results := []; r_phys := phys; r_logical := 0 |}
  | _ => let rc := post_select_distribution (fst rl) p h keep in
         {| r_results := fst rc; r_phys := phys; r_logical := lp * snd rc |}
  end.
Lemma probs_svd_model_core um m h p f keep mix :
  probs_svd_model_gen um m h p f keep mix
  = model_core um (herald_mask m h) (herald_total h) (f + herald_total h) h p keep mix.
Proof. reflexivity. Qed.

Lemma Qc_pos_true x : 0 < x -> Qc_pos x = true.
Proof. intros H. unfold Qc_pos. destruct (Qclt_le_dec 0 x) as [_|L]; auto. exfalso. exact (Qcle_not_lt _ _ L H). Qed.
Lemma dfilter_dscale P c d : dfilter P (dscale c d) = dscale c (dfilter P d).
Proof. induction d as [|[t w] d IH]; simpl; auto. destruct (P t); simpl; rewrite IH; reflexivity. Qed.
Lemma dmap_dscale g c d : dmap g (dscale c d) = dscale c (dmap g d).
Proof. unfold dmap, dscale. rewrite !map_map. reflexivity. Qed.
Lemma dmap_ident d : dmap (fun t => t) d = d.
Proof. induction d as [|[t w] d IH]; simpl; [reflexivity | f_equal; exact IH]. Qed.
Lemma mass_nil_ne (d : dist) : mass d <> 0 -> d <> [].
Proof. intros H ->. apply H. reflexivity. Qed.

Lemma normalize_ne d : mass d <> 0 -> normalize d = dscale (/ mass d) d.
Proof. intros H. unfold normalize. destruct (Qc_eq_dec (mass d) 0); [contradiction | reflexivity]. Qed.
Lemma match_ne {A B} (l : list A) (a b : B) : l <> [] -> match l with [] => a | _ :: _ => b end = b.
Proof. destruct l; [congruence | reflexivity]. Qed.

Section Core.
Variables (um : bool) (m : nat) (mk : mask) (F : nat) (h : heralds) (p : ps) (keep : bool) (mix : list input).
Hypothesis Hlen : length mk = m.
Hypothesis Hpass : forall T, heralds_ok h T = true -> mask_exact mk T = true.
Hypothesis Hmix : wf_mix m mix.
Let nh := mask_fixed_total mk.
Let kept := pre_kept F mix.
Let rl := fold_left (fast_step um mk nh) kept (@pair dist Qc [] 0).
Let res0 := fst rl.
Let lp0 := snd rl.
Let dM := mixd (Md um mk nh) kept.
Let d1 := dfilter (fun t => (F <=? total t)%nat) (full_dist mix).
Let d2 := dfilter (passes h p) d1.
Hypothesis Hkept : mass d2 <> 0.

Lemma kept_wf i : In i kept -> wf_input m i.
Proof. apply pre_kept_wf. apply Hmix. Qed.
Lemma d1_kept : d1 = mixd Ud kept.
Proof. unfold d1. rewrite (filter_full_dist m) by apply Hmix. reflexivity. Qed.
Lemma phys_eq : pre_phys F mix = mass d1.
Proof. unfold pre_phys. rewrite pre_phys_gen. destruct Hmix as [Hw ->]. rewrite d1_kept, mass_mixd.
  - fold kept. ring.
  - intros i Hi. apply (mass_Ud m). apply kept_wf, Hi. Qed.
Lemma res0_deq : deq res0 dM.
Proof. destruct (fast_fold mk um kept (fun i Hi => proj1 (proj2 (kept_wf i Hi))) [] 0) as [H _]. exact H. Qed.
Lemma lp0_eq : lp0 = mass dM.
Proof. destruct (fast_fold mk um kept (fun i Hi => proj1 (proj2 (kept_wf i Hi))) [] 0) as [_ H].
  unfold lp0, rl. fold nh in H. rewrite H. unfold dM. ring. Qed.
Lemma pass_dM_d2 : deq (dfilter (passes h p) dM) d2.
Proof. unfold d2. rewrite d1_kept. intros T. rewrite !pr_dfilter. destruct (passes h p T) eqn:Pt; [|reflexivity].
  apply pr_mixd_ext. intros i Hi. apply (pr_Md_Ud m mk Hlen um). apply kept_wf, Hi.
  apply Hpass. unfold passes in Pt. apply andb_prop in Pt. apply Pt. Qed.
Lemma nonneg_d1 : nonneg d1.
Proof. rewrite d1_kept. apply nonneg_mixd. intros i Hi. pose proof (kept_wf i Hi) as Hw. split. apply Hw. apply (nonneg_Ud m), Hw. Qed.
Lemma nonneg_dM : nonneg dM.
Proof. apply nonneg_mixd. intros i Hi. pose proof (kept_wf i Hi) as Hw. split. apply Hw. apply (nonneg_Md m mk um), Hw. Qed.
Lemma d2_pos : 0 < mass d2.
Proof. apply pos_of_nonneg_ne; [|exact Hkept]. apply mass_nonneg, nonneg_dfilter, nonneg_d1. Qed.
Lemma d1_pos : 0 < mass d1.
Proof. eapply Qclt_le_trans. exact d2_pos. apply mass_dfilter_le, nonneg_d1. Qed.
Lemma lp0_pos : 0 < lp0.
Proof. rewrite lp0_eq. eapply Qclt_le_trans. exact d2_pos.
  rewrite <- (deq_mass _ _ pass_dM_d2). apply mass_dfilter_le, nonneg_dM. Qed.
Lemma lp0_ne : lp0 <> 0.
Proof. intros E. pose proof lp0_pos as H. rewrite E in H. exact (Qclt_not_eq _ _ H eq_refl). Qed.
Lemma mass_res0 : mass res0 = lp0.
Proof. rewrite lp0_eq. apply deq_mass, res0_deq. Qed.

Let res := dscale (/ lp0) res0.
Lemma norm_res0 : normalize res0 = res.
Proof. rewrite normalize_ne by (rewrite mass_res0; exact lp0_ne). rewrite mass_res0. reflexivity. Qed.
Lemma fast_eq : probs_svd_fast um mk nh kept = (res, lp0).
Proof. change (probs_svd_fast um mk nh kept) with (match res0 with [] => [] | _ :: _ => normalize res0 end, lp0).
  assert (Hne : res0 <> []) by (apply mass_nil_ne; rewrite mass_res0; exact lp0_ne).
  rewrite (match_ne _ _ _ Hne), norm_res0. reflexivity. Qed.
Lemma res_ne : res <> [].
Proof. unfold res. assert (Hne : res0 <> []) by (apply mass_nil_ne; rewrite mass_res0; exact lp0_ne).
  intros E. apply map_eq_nil in E. contradiction. Qed.
Lemma mass_res : mass res = 1.
Proof. unfold res. rewrite mass_dscale, mass_res0. field. exact lp0_ne. Qed.

Lemma res0_keys : NoDup (keys res0) /\ (forall x, In x (keys res0) -> length x = m).
Proof. apply (fast_fold_keys mk um (fun x => length x = m)).
  - intros i x Hi Hx. apply in_keys in Hx as [w Hx]. apply (Md_supp m mk um i (kept_wf i Hi) x w Hx).
  - constructor.
  - intros x [].
Qed.
Lemma post_select_eq :
  post_select_distribution res p h keep
  = (normalize (dmap (out_state h keep) (dfilter (passes h p) res)),
     1 - mass (dfilter (fun t => negb (passes h p t)) res)).
Proof. unfold post_select_distribution. rewrite ps_fold. reflexivity.
  simpl. unfold res. rewrite keys_dfilter, keys_dscale. destruct res0_keys as [Hnd Hl].
  apply NoDup_map_inj_on. apply NoDup_filter, Hnd.
  intros a b Ha Hb. apply filter_In in Ha as [Ha Pa], Hb as [Hb Pb].
  apply out_state_inj. rewrite (Hl a Ha), (Hl b Hb). reflexivity.
  unfold passes in Pa. apply andb_prop in Pa. apply Pa.
  unfold passes in Pb. apply andb_prop in Pb. apply Pb. Qed.

(* the retained part of the normalised masked result *)
Lemma pass_res_mass : mass (dfilter (passes h p) res) = / lp0 * mass d2.
Proof. unfold res. rewrite dfilter_dscale, mass_dscale. f_equal.
  rewrite (deq_mass _ _ (deq_dfilter _ _ _ res0_deq)). apply deq_mass, pass_dM_d2. Qed.

Lemma core_eq : model_core um mk nh F h p keep mix =
  {| r_results := normalize (dmap (out_state h keep) (dfilter (passes h p) res));
     r_phys := mass d1;
     r_logical := lp0 / mass d1 * (1 - mass (dfilter (fun t => negb (passes h p t)) res)) |}.
Proof. unfold model_core. fold kept. rewrite fast_eq. cbn [fst snd]. rewrite phys_eq.
  rewrite (Qc_pos_true _ lp0_pos), (Qc_pos_true _ d1_pos). cbn [andb].
  rewrite (match_ne _ _ _ res_ne), post_select_eq. reflexivity. Qed.

Theorem core_phys : r_phys (model_core um mk nh F h p keep mix) = c_phys (condition (full_dist mix) h p F keep).
Proof. rewrite core_eq. reflexivity. Qed.

Theorem core_logical : r_logical (model_core um mk nh F h p keep mix) = c_logical (condition (full_dist mix) h p F keep).
Proof. rewrite core_eq. cbn [r_logical]. unfold condition. cbn [c_logical]. fold d1. fold d2.
  pose proof d1_pos as H1. destruct (Qc_eq_dec (mass d1) 0) as [Z|NZ].
  - exfalso. rewrite Z in H1. exact (Qclt_not_eq _ _ H1 eq_refl).
  - assert (Hs : 1 - mass (dfilter (fun t => negb (passes h p t)) res) = mass (dfilter (passes h p) res)).
    { rewrite <- mass_res. rewrite (mass_dfilter_split (passes h p) res) at 1. ring. }
    rewrite Hs, pass_res_mass. field. split; [exact NZ | exact lp0_ne]. Qed.

Theorem core_results : deq (r_results (model_core um mk nh F h p keep mix)) (c_results (condition (full_dist mix) h p F keep)).
Proof. rewrite core_eq. cbn [r_results]. unfold condition. cbn [c_results]. fold d1. fold d2.
  assert (Hinv : / lp0 <> 0).
  { intros Z. assert (H1 : lp0 * / lp0 = 1) by (apply Qcmult_inv_r; exact lp0_ne).
    rewrite Z in H1. ring_simplify in H1. discriminate H1. }
  assert (Hd : deq (dfilter (passes h p) res0) d2).
  { eapply deq_trans. apply deq_dfilter, res0_deq. exact pass_dM_d2. }
  eapply deq_trans.
  { unfold res. rewrite dfilter_dscale, dmap_dscale. apply normalize_dscale. exact Hinv.
    rewrite mass_dmap, (deq_mass _ _ Hd). exact Hkept. }
  eapply deq_trans. { apply deq_normalize, deq_dmap, Hd. }
  apply deq_sym, deq_normalize. eapply deq_trans. apply deq_dmerge.
  destruct keep; unfold out_state.
  - intros T. rewrite dmap_ident. reflexivity.
  - apply deq_refl. Qed.
End Core.

(* ================= 8. heralds_ok is mask_exact of the herald mask (distinct in-range modes) ================= *)
Lemma find_nodup (h : heralds) mv : NoDup (map fst h) -> In mv h ->
  find (fun x => (fst x =? fst mv)%nat) h = Some mv.
Proof. induction h as [|[j v] h IH]; intros Hnd Hin. destruct Hin.
  inversion Hnd as [|? ? Hn Hd]; subst. cbn [find fst]. destruct (j =? fst mv)%nat eqn:E.
  - apply Nat.eqb_eq in E. destruct Hin as [<-|Hin]; [reflexivity|]. exfalso. apply Hn. rewrite E. apply in_map. exact Hin.
  - destruct Hin as [<-|Hin]; [simpl in E; rewrite Nat.eqb_refl in E; discriminate|]. apply IH; assumption. Qed.
Lemma mask_exact_from_nth h : forall k i T', mask_exact (herald_mask_from i k h) T' = true ->
  forall j mv, (j < k)%nat -> (j < length T')%nat -> find (fun x => (fst x =? i + j)%nat) h = Some mv ->
  nth j T' 0%nat = snd mv.
Proof. induction k as [|k IH]; intros i T' H j mv Hj Hl Hf. lia.
  destruct T' as [|x T'']; [simpl in Hl; lia|]. cbn [herald_mask_from mask_exact] in H. destruct j as [|j].
  - rewrite Nat.add_0_r in Hf. rewrite Hf in H. apply andb_prop in H as [H _]. apply Nat.eqb_eq in H. exact H.
  - assert (H' : mask_exact (herald_mask_from (S i) k h) T'' = true).
    { destruct (find (fun mv0 => (fst mv0 =? i)%nat) h); [apply andb_prop in H; apply H | exact H]. }
    simpl in Hl. cbn [nth]. apply (IH (S i) T'' H' j mv); try lia.
    replace (S i + j)%nat with (i + S j)%nat by lia. exact Hf. Qed.
Theorem heralds_ok_is_mask_exact m h T : wf_heralds m h -> length T = m ->
  heralds_ok h T = mask_exact (herald_mask m h) T.
Proof. intros [Hnd Hr] Hl. apply eq_true_iff_eq. split. apply heralds_ok_mask_exact.
  intros H. unfold heralds_ok. apply forallb_forall. intros mv Hin. apply Nat.eqb_eq.
  apply (mask_exact_from_nth h m 0%nat T H (fst mv) mv).
  - apply Hr, Hin. - rewrite Hl. apply Hr, Hin. - apply find_nodup; assumption. Qed.
Corollary passes_is_mask_and_selection m h p T : wf_heralds m h -> length T = m ->
  passes h p T = mask_exact (herald_mask m h) T && ps_eval p T.
Proof. intros Hh Hl. unfold passes. rewrite (heralds_ok_is_mask_exact m h T Hh Hl). reflexivity. Qed.

(* ================= 9. C04 for the model of probs_svd ================= *)
Section Final.
Variables (um : bool) (m : nat) (h : heralds) (p : ps) (f : nat) (keep : bool) (mix : list input).
Hypothesis Hh : wf_heralds m h.
Hypothesis Hmix : wf_mix m mix.
Hypothesis Hkept : mass (dfilter (passes h p) (dfilter (fun t => (f + herald_total h <=? total t)%nat) (full_dist mix))) <> 0.

Theorem gen_phys :
  r_phys (probs_svd_model_gen um m h p f keep mix)
  = c_phys (condition (full_dist mix) h p (f + herald_total h) keep).
Proof. rewrite probs_svd_model_core. revert Hkept. rewrite <- (mask_fixed_total_herald_mask m h Hh). intros Hk.
  apply (core_phys um m); auto. apply herald_mask_length. apply heralds_ok_mask_exact. Qed.
Theorem gen_results : forall T,
  pr (r_results (probs_svd_model_gen um m h p f keep mix)) T
  = pr (c_results (condition (full_dist mix) h p (f + herald_total h) keep)) T.
Proof. rewrite probs_svd_model_core. revert Hkept. rewrite <- (mask_fixed_total_herald_mask m h Hh). intros Hk.
  apply (core_results um m); auto. apply herald_mask_length. apply heralds_ok_mask_exact. Qed.
Theorem gen_logical :
  r_logical (probs_svd_model_gen um m h p f keep mix)
  = c_logical (condition (full_dist mix) h p (f + herald_total h) keep).
Proof. rewrite probs_svd_model_core. revert Hkept. rewrite <- (mask_fixed_total_herald_mask m h Hh). intros Hk.
  apply (core_logical um m); auto. apply herald_mask_length. apply heralds_ok_mask_exact. Qed.
End Final.

(* T1: the reported physical performance is the probability of passing the photon filter *)
Theorem probs_svd_phys m h p f keep mix : wf_heralds m h -> wf_mix m mix ->
  mass (dfilter (passes h p) (dfilter (fun t => (f + herald_total h <=? total t)%nat) (full_dist mix))) <> 0 ->
  r_phys (probs_svd_model m h p f keep mix)
  = c_phys (condition (full_dist mix) h p (f + herald_total h) keep).
Proof. apply gen_phys. Qed.
(* T2: the reported distribution gives every state the probability the specification gives it *)
Theorem probs_svd_results m h p f keep mix : wf_heralds m h -> wf_mix m mix ->
  mass (dfilter (passes h p) (dfilter (fun t => (f + herald_total h <=? total t)%nat) (full_dist mix))) <> 0 ->
  forall T, pr (r_results (probs_svd_model m h p f keep mix)) T
          = pr (c_results (condition (full_dist mix) h p (f + herald_total h) keep)) T.
Proof. apply gen_results. Qed.
(* T3: the reported logical performance is P(heralds and post-selection | filter) *)
Theorem probs_svd_logical m h p f keep mix : wf_heralds m h -> wf_mix m mix ->
  mass (dfilter (passes h p) (dfilter (fun t => (f + herald_total h <=? total t)%nat) (full_dist mix))) <> 0 ->
  r_logical (probs_svd_model m h p f keep mix)
  = c_logical (condition (full_dist mix) h p (f + herald_total h) keep).
Proof. apply gen_logical. Qed.
(* the reported distribution is normalised *)
Theorem probs_svd_results_mass m h p f keep mix : wf_heralds m h -> wf_mix m mix ->
  mass (dfilter (passes h p) (dfilter (fun t => (f + herald_total h <=? total t)%nat) (full_dist mix))) <> 0 ->
  mass (r_results (probs_svd_model m h p f keep mix)) = 1.
Proof. intros Hh Hm Hk. rewrite (deq_mass _ _ (probs_svd_results m h p f keep mix Hh Hm Hk)).
  apply condition_normalised. exact Hk. Qed.
(* the product of the two reported performances is the retained probability *)
Theorem probs_svd_perf_product m h p f keep mix : wf_heralds m h -> wf_mix m mix ->
  mass (dfilter (passes h p) (dfilter (fun t => (f + herald_total h <=? total t)%nat) (full_dist mix))) <> 0 ->
  r_phys (probs_svd_model m h p f keep mix) * r_logical (probs_svd_model m h p f keep mix)
  = mass (dfilter (passes h p) (dfilter (fun t => (f + herald_total h <=? total t)%nat) (full_dist mix))).
Proof. intros Hh Hm Hk. rewrite probs_svd_phys, probs_svd_logical by assumption. apply perf_product.
  intros Z. apply Hk. apply Qcle_antisym.
  - rewrite <- Z. apply mass_dfilter_le. rewrite (filter_full_dist m) by apply Hm.
    apply nonneg_mixd. intros i Hi. pose proof (pre_kept_wf m _ _ i (proj1 Hm) Hi) as Hw. split. apply Hw. apply (nonneg_Ud m), Hw.
  - apply mass_nonneg, nonneg_dfilter. rewrite (filter_full_dist m) by apply Hm.
    apply nonneg_mixd. intros i Hi. pose proof (pre_kept_wf m _ _ i (proj1 Hm) Hi) as Hw. split. apply Hw. apply (nonneg_Ud m), Hw. Qed.

(* "none of this changes when the engine internally restricts its output space to the heralded values":
   the run with the herald mask and per-group budgets best_n (um = true) and the run with an unrestricted
   engine (um = false) report the same performances and the same distribution *)
Theorem probs_svd_mask_independent m h p f keep mix : wf_heralds m h -> wf_mix m mix ->
  mass (dfilter (passes h p) (dfilter (fun t => (f + herald_total h <=? total t)%nat) (full_dist mix))) <> 0 ->
  r_phys (probs_svd_model_gen true m h p f keep mix) = r_phys (probs_svd_model_gen false m h p f keep mix)
  /\ r_logical (probs_svd_model_gen true m h p f keep mix) = r_logical (probs_svd_model_gen false m h p f keep mix)
  /\ (forall T, pr (r_results (probs_svd_model_gen true m h p f keep mix)) T
              = pr (r_results (probs_svd_model_gen false m h p f keep mix)) T).
Proof. intros Hh Hm Hk. rewrite !gen_phys, !gen_logical by assumption. repeat split.
  intros T. rewrite !gen_results by assumption. reflexivity. Qed.

(* ================= 10. a computed instance (the hypotheses are satisfiable; pruning really occurs) ========= *)
Module Example.
Definition q (a b : positive) : Qc := Q2Qc (Zpos a # b).
Definition g1 : group := (1%nat, [([1;0;0]%nat, q 1 3); ([0;1;0]%nat, q 1 3); ([0;0;1]%nat, q 1 3)]).
Definition g2 : group := (2%nat, [([2;0;0]%nat, q 1 4); ([0;2;0]%nat, q 1 4); ([1;1;0]%nat, q 1 4); ([0;1;1]%nat, q 1 4)]).
Definition g3 : group := (1%nat, [([0;1;0]%nat, q 1 1)]).
Definition mix : list input := [(q 3 4, [g1; g2]); (q 1 4, [g3])].
Definition h : heralds := [(1%nat, 1%nat)].            (* herald in the middle of the mode range *)
Definition sel : ps := PCmp [0%nat] CGe 1.
Definition qs (d : dist) := map (fun tw => (fst tw, this (snd tw))) d.
Definition rep (um keep : bool) := probs_svd_model_gen um 3 h sel 1 keep mix.
Definition spec (keep : bool) := condition (full_dist mix) h sel 2 keep.

(* the mask removes |0,2,0> from the two-photon group *)
Example pruned : length (masked_group true (herald_mask 3 h) 1 3 g2) = 3%nat. Proof. reflexivity. Qed.
Example perf : map (@this) [r_phys (rep true false); r_logical (rep true false)] = [(3 # 4)%Q; (1 # 3)%Q]
  /\ map (@this) [c_phys (spec false); c_logical (spec false)] = [(3 # 4)%Q; (1 # 3)%Q].
Proof. split; vm_compute; reflexivity. Qed.
Example results : qs (r_results (rep true false)) = qs (c_results (spec false))
  /\ qs (r_results (rep false true)) = qs (c_results (spec true)).
Proof. split; vm_compute; reflexivity. Qed.

Lemma wf_h : wf_heralds 3 h.
Proof. split. simpl. constructor; [intros [] | constructor]. intros mv [<-|[]]. simpl. lia. Qed.
Lemma wf_g g : In g [g1; g2; g3] -> wf_group 3 g.
Proof. intros H. repeat (destruct H as [<-|H]); try destruct H;
  (split; [apply Qc_is_canon; reflexivity | split;
    [ intros tw Hin; simpl in Hin; repeat (destruct Hin as [<-|Hin]); try destruct Hin; unfold Qcle, Qle; simpl; lia
    | intros t w Hin; simpl in Hin; repeat (destruct Hin as [E|Hin]; [injection E as <- _; split; reflexivity|]); destruct Hin ]]). Qed.
Lemma wf_m : wf_mix 3 mix.
Proof. split.
  - intros i Hi. repeat (destruct Hi as [<-|Hi]); try destruct Hi; (split; [unfold Qcle, Qle; simpl; lia | split; [discriminate|]]);
    intros g Hg; apply wf_g; simpl in *; tauto.
  - apply Qc_is_canon. reflexivity. Qed.
Lemma kept_ne : mass (dfilter (passes h sel) (dfilter (fun t => (1 + herald_total h <=? total t)%nat) (full_dist mix))) <> 0.
Proof. intros E. apply (f_equal (@this)) in E. vm_compute in E. discriminate E. Qed.
(* the theorems apply to this instance *)
Example instance_logical : r_logical (probs_svd_model 3 h sel 1 false mix) = c_logical (spec false).
Proof. exact (probs_svd_logical 3 h sel 1 false mix wf_h wf_m kept_ne). Qed.
End Example.
